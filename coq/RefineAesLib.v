(* Helper library for the AES / modes refinement proofs: syntax-directed symbolic execution of
   MiniC terms (lemmas in "eapply style" + Ltac drivers), load/store lemmas for byte objects,
   and the value-level bridge between Z cells and the N bytes of the models. *)
From Coq Require Import ZArith NArith List String Bool Lia.
From Wencry Require Import Bytes MiniC MiniCRun MiniCLemmas.
Import ListNotations.
Local Open Scope Z_scope.

Local Notation B := Z.of_N (only parsing).

(* ------------------------------------------------------------------ *)
(* expressions                                                         *)
Section Ev.
Variable s : state.

Lemma ev_const : forall z, eval s (EConst z) = Ok (VInt z).
Proof. reflexivity. Qed.
Lemma ev_var : forall x v, lget (loc s) x = Some v -> eval s (EVar x) = Ok v.
Proof. intros x v H. cbn [eval]. now rewrite H. Qed.
Lemma ev_global : forall g, eval s (EGlobal g) = Ok (VPtr g 0).
Proof. reflexivity. Qed.
Lemma ev_field : forall f, eval s (EField f) = Ok (VPtr (pre s ++ f) 0).
Proof. reflexivity. Qed.
Lemma ev_localarr : forall x, eval s (ELocalArr x) = Ok (VPtr ("%" ++ x) 0).
Proof. reflexivity. Qed.
Lemma ev_ptradd : forall p sc i o off n off',
  eval s p = Ok (VPtr o off) -> eval s i = Ok (VInt n) -> off' = off + n * sc ->
  eval s (EPtrAdd p sc i) = Ok (VPtr o off').
Proof. intros p sc i o off n off' Hp Hi ->. cbn [eval]. rewrite Hp, Hi. reflexivity. Qed.
Lemma ev_load : forall t p o off ob z,
  eval s p = Ok (VPtr o off) -> mget (mem s) o = Some ob -> load_obj ob t off = Ok z ->
  eval s (ELoad t p) = Ok (VInt z).
Proof. intros t p o off ob z Hp Hm Hl. cbn [eval]. rewrite Hp. cbn [bind]. rewrite Hm, Hl. reflexivity. Qed.
Lemma ev_cast : forall t a x y, eval s a = Ok (VInt x) -> y = wrap t x -> eval s (ECast t a) = Ok (VInt y).
Proof. intros t a x y H ->. cbn [eval]. rewrite H. reflexivity. Qed.
Lemma ev_bin : forall t op a b x y z,
  eval s a = Ok (VInt x) -> eval s b = Ok (VInt y) -> eval_bin t op x y = Ok z ->
  eval s (EBin t op a b) = Ok (VInt z).
Proof. intros t op a b x y z Ha Hb Hz. cbn [eval]. rewrite Ha, Hb. cbn [bind as_int]. rewrite Hz. reflexivity. Qed.
Lemma ev_cond : forall c a b x v,
  eval s c = Ok (VInt x) -> eval s (if x =? 0 then b else a) = Ok v -> eval s (ECond c a b) = Ok v.
Proof. intros c a b x v Hc Hv. cbn [eval]. rewrite Hc. cbn [bind as_int]. destruct (x =? 0); exact Hv. Qed.

Lemma evl_nil : eval_list s [] = Ok [].
Proof. reflexivity. Qed.
Lemma evl_cons : forall e r v vs, eval s e = Ok v -> eval_list s r = Ok vs -> eval_list s (e :: r) = Ok (v :: vs).
Proof. intros e r v vs H1 H2. cbn [eval_list]. rewrite H1, H2. reflexivity. Qed.
End Ev.

(* ------------------------------------------------------------------ *)
(* statements                                                          *)
Section Ex.
Variable prog : program.
Variable vt : list (string * string).

Lemma x_seq : forall f a b s s1 r,
  exec prog vt f a s = Ok (Normal, s1) -> exec prog vt f b s1 = Ok r -> exec prog vt (S f) (SSeq a b) s = Ok r.
Proof. intros f a b s s1 r H1 H2. rewrite exec_seq, H1. exact H2. Qed.
Lemma x_skip : forall f s, exec prog vt (S f) SSkip s = Ok (Normal, s).
Proof. reflexivity. Qed.
Lemma x_set : forall f x e s v, eval s e = Ok v -> exec prog vt (S f) (SSet x e) s = Ok (Normal, with_loc s (lset (loc s) x v)).
Proof. intros f x e s v H. rewrite exec_set, H. reflexivity. Qed.
Lemma x_store : forall f t p e s o off z ob ob',
  eval s p = Ok (VPtr o off) -> eval s e = Ok (VInt z) -> mget (mem s) o = Some ob -> store_obj ob t off z = Ok ob' ->
  exec prog vt (S f) (SStore t p e) s = Ok (Normal, with_mem s (mset (mem s) o ob')).
Proof. intros f t p e s o off z ob ob' Hp He Hm Hs. cbn [exec]. rewrite Hp, He. cbn [bind as_int]. rewrite Hm, Hs. reflexivity. Qed.
Lemma x_if : forall f c a b s x r,
  eval s c = Ok (VInt x) -> exec prog vt f (if x =? 0 then b else a) s = Ok r -> exec prog vt (S f) (SIf c a b) s = Ok r.
Proof. intros f c a b s x r Hc Hr. rewrite exec_if, Hc. cbn [bind as_int]. destruct (x =? 0); exact Hr. Qed.
Lemma x_loop_end : forall f c body step s,
  eval s c = Ok (VInt 0) -> exec prog vt (S f) (SLoop c body step) s = Ok (Normal, s).
Proof. intros f c body step s Hc. rewrite exec_loop, Hc. reflexivity. Qed.
Lemma x_loop_iter : forall f c body step s x s1 s2 r,
  eval s c = Ok (VInt x) -> x <> 0 ->
  exec prog vt f body s = Ok (Normal, s1) -> exec prog vt f step s1 = Ok (Normal, s2) ->
  exec prog vt f (SLoop c body step) s2 = Ok r ->
  exec prog vt (S f) (SLoop c body step) s = Ok r.
Proof.
  intros f c body step s x s1 s2 r Hc Hx Hb Hs Hl. rewrite exec_loop, Hc. cbn [bind as_int].
  destruct (x =? 0) eqn:E; [apply Z.eqb_eq in E; contradiction|]. rewrite Hb. cbn [bind]. rewrite Hs. exact Hl.
Qed.
Lemma x_loop_break : forall f c body step s x s1,
  eval s c = Ok (VInt x) -> x <> 0 ->
  exec prog vt f body s = Ok (Broke, s1) ->
  exec prog vt (S f) (SLoop c body step) s = Ok (Normal, s1).
Proof.
  intros f c body step s x s1 Hc Hx Hb. rewrite exec_loop, Hc. cbn [bind as_int].
  destruct (x =? 0) eqn:E; [apply Z.eqb_eq in E; contradiction|]. rewrite Hb. reflexivity.
Qed.
Lemma x_seq_broke : forall f a b s s1,
  exec prog vt f a s = Ok (Broke, s1) -> exec prog vt (S f) (SSeq a b) s = Ok (Broke, s1).
Proof. intros f a b s s1 H1. rewrite exec_seq, H1. reflexivity. Qed.
Lemma x_break : forall f s, exec prog vt (S f) SBreak s = Ok (Broke, s).
Proof. reflexivity. Qed.
Lemma x_return_some : forall f e s v, eval s e = Ok v -> exec prog vt (S f) (SReturn (Some e)) s = Ok (Returned (Some v), s).
Proof. intros f e s v H. cbn [exec]. rewrite H. reflexivity. Qed.
Lemma x_localarr : forall f x t n s,
  exec prog vt (S f) (SLocalArr x t n) s = Ok (Normal, with_mem s (mset (mem s) ("%" ++ x) {| o_ty := t; o_cells := repeat 0 (Z.to_nat n) |})).
Proof. reflexivity. Qed.
Lemma x_memcpy : forall f d sr n s dv sv k s',
  eval s d = Ok dv -> eval s sr = Ok sv -> eval s n = Ok (VInt k) -> do_memcpy s dv sv k = Ok s' ->
  exec prog vt (S f) (SMemcpy d sr n) s = Ok (Normal, s').
Proof. intros f d sr n s dv sv k s' Hd Hs Hn Hm. cbn [exec]. rewrite Hd, Hs, Hn. cbn [bind as_int]. rewrite Hm. reflexivity. Qed.

(* a call statement through the callee's `call` specification *)
Lemma x_call : forall f ret fname this args s vs pfx rv s1 s2,
  eval_list s args = Ok vs -> this_prefix s this = Ok pfx ->
  call prog vt f fname pfx vs s = Ok (rv, s1) -> set_ret s1 ret rv = Ok s2 ->
  exec prog vt (S f) (SCall ret fname this args) s = Ok (Normal, s2).
Proof.
  intros f ret fname this args s vs pfx rv s1 s2 Hv Hp Hc Hr. cbn [exec]. rewrite Hv, Hp. cbn [bind].
  unfold call in Hc. destruct (lget prog fname) as [fn|]; [|discriminate].
  destruct (bind_params (f_params fn) vs) as [l| |]; cbn [bind] in Hc |- *; try discriminate.
  destruct (exec prog vt f (f_body fn) _) as [[o sx]| |]; cbn [bind] in Hc |- *; try discriminate.
  injection Hc as <- <-. rewrite Hr. reflexivity.
Qed.

(* entering a function body *)
Lemma call_intro : forall fuel fname pfx vs s fn l o s1,
  lget prog fname = Some fn -> bind_params (f_params fn) vs = Ok l ->
  exec prog vt fuel (f_body fn) {| mem := mem s; loc := l; pre := pfx; files := files s; ptrs := ptrs s; fresh := fresh s |} = Ok (o, s1) ->
  files s1 = files s -> ptrs s1 = ptrs s -> fresh s1 = fresh s ->
  call prog vt fuel fname pfx vs s = Ok (match o with Returned v => v | _ => None end, with_mem s (mem s1)).
Proof.
  intros fuel fname pfx vs s fn l o s1 Hf Hb He H1 H2 H3. unfold call. rewrite Hf, Hb. cbn [bind]. rewrite He. cbn [bind].
  unfold with_mem. rewrite H1, H2, H3. reflexivity.
Qed.
Lemma call_normal : forall fuel fname pfx vs s fn l s1 r,
  lget prog fname = Some fn -> bind_params (f_params fn) vs = Ok l ->
  exec prog vt fuel (f_body fn) {| mem := mem s; loc := l; pre := pfx; files := files s; ptrs := ptrs s; fresh := fresh s |} = Ok (Normal, s1) ->
  files s1 = files s -> ptrs s1 = ptrs s -> fresh s1 = fresh s ->
  r = (None, with_mem s (mem s1)) ->
  call prog vt fuel fname pfx vs s = Ok r.
Proof. intros. subst r. eapply (call_intro _ _ _ _ _ _ _ Normal); eauto. Qed.
Lemma call_returned : forall fuel fname pfx vs s fn l s1 v r,
  lget prog fname = Some fn -> bind_params (f_params fn) vs = Ok l ->
  exec prog vt fuel (f_body fn) {| mem := mem s; loc := l; pre := pfx; files := files s; ptrs := ptrs s; fresh := fresh s |} = Ok (Returned v, s1) ->
  files s1 = files s -> ptrs s1 = ptrs s -> fresh s1 = fresh s ->
  r = (v, with_mem s (mem s1)) ->
  call prog vt fuel fname pfx vs s = Ok r.
Proof. intros. subst r. eapply (call_intro _ _ _ _ _ _ _ (Returned v)); eauto. Qed.
End Ex.

(* ------------------------------------------------------------------ *)
(* memory                                                              *)
Lemma mset_mset_same : forall m k a b, mset (mset m k a) k b = mset m k b.
Proof.
  induction m as [|[k' o'] r IH]; intros k a b; cbn.
  - now rewrite String.eqb_refl.
  - destruct (String.eqb k k') eqn:E; cbn; rewrite ?String.eqb_refl; auto. rewrite E. now rewrite IH.
Qed.

Lemma app_inv_head_str : forall p a b : string, (p ++ a = p ++ b)%string -> a = b.
Proof. induction p as [|c p IH]; intros a b H; cbn in H; auto. injection H as H. auto. Qed.
Lemma pfx_neq : forall p a b : string, a <> b -> (p ++ a)%string <> (p ++ b)%string.
Proof. intros p a b H E. apply H. eapply app_inv_head_str; eauto. Qed.

(* ------------------------------------------------------------------ *)
(* byte objects: loads and stores                                      *)
Definition bobj (cells : list Z) : object := {| o_ty := U8; o_cells := cells |}.
Definition slice (off n : nat) (cells : list Z) : list Z := firstn n (skipn off cells).

Lemma load_u8 : forall cells off,
  0 <= off < Z.of_nat (List.length cells) ->
  load_obj (bobj cells) U8 off = Ok (wrap U8 (nth (Z.to_nat off) cells 0)).
Proof.
  intros cells off H. unfold load_obj, bobj. cbn [o_ty o_cells ity_bytes ity_bits].
  change (8 / 8) with 1. destruct (off <? 0) eqn:E; [apply Z.ltb_lt in E; lia|].
  cbn [Z.eqb Pos.eqb]. rewrite Z.mod_1_r. cbn [Z.eqb]. rewrite Z.div_1_r.
  destruct (off <? Z.of_nat (List.length cells)) eqn:E2; [|apply Z.ltb_ge in E2; lia]. reflexivity.
Qed.

Lemma load_wide : forall cells t off,
  ity_bytes t <> 1 -> 0 <= off -> off + ity_bytes t <= Z.of_nat (List.length cells) ->
  load_obj (bobj cells) t off = Ok (wrap t (le_val (slice (Z.to_nat off) (Z.to_nat (ity_bytes t)) cells))).
Proof.
  intros cells t off Hw H0 H. unfold load_obj, bobj. cbn [o_ty o_cells]. change (ity_bytes U8) with 1.
  destruct (off <? 0) eqn:E; [apply Z.ltb_lt in E; lia|].
  destruct (1 =? ity_bytes t) eqn:E1; [apply Z.eqb_eq in E1; congruence|].
  cbn [Z.eqb Pos.eqb].
  destruct (off + ity_bytes t <=? Z.of_nat (List.length cells)) eqn:E2; [|apply Z.leb_gt in E2; lia]. reflexivity.
Qed.

Lemma store_u8 : forall cells off v,
  0 <= off < Z.of_nat (List.length cells) ->
  store_obj (bobj cells) U8 off v = Ok (bobj (upd_nth (Z.to_nat off) (wrap U8 v) cells)).
Proof.
  intros cells off v H. unfold store_obj, bobj. cbn [o_ty o_cells ity_bytes ity_bits].
  change (8 / 8) with 1. destruct (off <? 0) eqn:E; [apply Z.ltb_lt in E; lia|].
  cbn [Z.eqb Pos.eqb]. rewrite Z.mod_1_r. cbn [Z.eqb]. rewrite Z.div_1_r.
  destruct (off <? Z.of_nat (List.length cells)) eqn:E2; [|apply Z.ltb_ge in E2; lia]. reflexivity.
Qed.

Lemma store_wide : forall cells t off v bs,
  ity_bytes t <> 1 -> 0 <= off -> off + ity_bytes t <= Z.of_nat (List.length cells) ->
  le_bytes (Z.to_nat (ity_bytes t)) (wrap t v mod 2 ^ (8 * ity_bytes t)) = bs ->
  store_obj (bobj cells) t off v = Ok (bobj (upd_range (Z.to_nat off) bs cells)).
Proof.
  intros cells t off v bs Hw H0 H <-. unfold store_obj, bobj. cbn [o_ty o_cells]. change (ity_bytes U8) with 1.
  destruct (off <? 0) eqn:E; [apply Z.ltb_lt in E; lia|].
  destruct (1 =? ity_bytes t) eqn:E1; [apply Z.eqb_eq in E1; congruence|].
  cbn [Z.eqb Pos.eqb].
  destruct (off + ity_bytes t <=? Z.of_nat (List.length cells)) eqn:E2; [|apply Z.leb_gt in E2; lia]. reflexivity.
Qed.

(* accesses relative to an abstract prefix A of the cell list *)
Lemma load_u8_rel : forall A L off k,
  off = Z.of_nat (List.length A) + k -> 0 <= k < Z.of_nat (List.length L) ->
  load_obj (bobj (A ++ L)) U8 off = Ok (wrap U8 (nth (Z.to_nat k) L 0)).
Proof.
  intros A L off k -> Hk. rewrite load_u8 by (rewrite app_length; lia). do 2 f_equal.
  rewrite app_nth2 by lia. f_equal. lia.
Qed.
Lemma upd_nth_app2 : forall A L n v, upd_nth (List.length A + n) v (A ++ L) = A ++ upd_nth n v L.
Proof. induction A as [|x A IH]; intros L n v; cbn [List.length Nat.add app upd_nth]; auto. now rewrite IH. Qed.
Lemma store_u8_rel : forall A L off k v,
  off = Z.of_nat (List.length A) + k -> 0 <= k < Z.of_nat (List.length L) ->
  store_obj (bobj (A ++ L)) U8 off v = Ok (bobj (A ++ upd_nth (Z.to_nat k) (wrap U8 v) L)).
Proof.
  intros A L off k v -> Hk. rewrite store_u8 by (rewrite app_length; lia). do 2 f_equal.
  replace (Z.to_nat (Z.of_nat (List.length A) + k)) with (List.length A + Z.to_nat k)%nat by lia.
  apply upd_nth_app2.
Qed.

(* memcpy between byte objects *)
Lemma memcpy_u8 : forall s od offd os offs n cd cs,
  mget (mem s) od = Some (bobj cd) -> mget (mem s) os = Some (bobj cs) ->
  0 <= n -> 0 <= offd -> 0 <= offs ->
  offs + n <= Z.of_nat (List.length cs) -> offd + n <= Z.of_nat (List.length cd) ->
  do_memcpy s (VPtr od offd) (VPtr os offs) n =
  Ok (with_mem s (mset (mem s) od (bobj (upd_range (Z.to_nat offd) (slice (Z.to_nat offs) (Z.to_nat n) cs) cd)))).
Proof.
  intros s od offd os offs n cd cs Hd Hs Hn Hod Hos Hbs Hbd. unfold do_memcpy. rewrite Hd, Hs.
  unfold bobj. cbn [o_ty o_cells]. change (ity_bytes U8) with 1. cbn [Z.eqb Pos.eqb negb].
  rewrite !Z.mod_1_r, !Z.div_1_r. cbn [Z.eqb negb orb].
  destruct (n <? 0) eqn:E1; [apply Z.ltb_lt in E1; lia|].
  destruct (offd <? 0) eqn:E2; [apply Z.ltb_lt in E2; lia|].
  destruct (offs <? 0) eqn:E3; [apply Z.ltb_lt in E3; lia|]. cbn [orb].
  destruct (Z.of_nat (List.length cs) <? offs + n) eqn:E4; [apply Z.ltb_lt in E4; lia|].
  destruct (Z.of_nat (List.length cd) <? offd + n) eqn:E5; [apply Z.ltb_lt in E5; lia|]. reflexivity.
Qed.

(* ------------------------------------------------------------------ *)
(* values                                                              *)
Lemma wrap_U8_range : forall z, 0 <= wrap U8 z < 256.
Proof. intros z. unfold wrap; cbn [ity_bits ity_signed]. apply Z.mod_pos_bound. lia. Qed.
Lemma wrap_U8_B : forall n, (n < 256)%N -> wrap U8 (B n) = B n.
Proof. intros n H. apply wrap_U8_small. lia. Qed.
Lemma wrap_I32_B : forall n, (n < 256)%N -> wrap I32 (B n) = B n.
Proof. intros n H. apply wrap_I32_small. lia. Qed.
Lemma wrap_U32_B : forall n, (n < 256)%N -> wrap U32 (B n) = B n.
Proof. intros n H. apply wrap_U32_small. lia. Qed.
Lemma lxor_B : forall a b, Z.lxor (B a) (B b) = B (N.lxor a b).
Proof. intros. symmetry. apply of_N_lxor. Qed.

Lemma le_bytes_S : forall n z, le_bytes (S n) z = (z mod 256) :: le_bytes n (z / 256).
Proof. reflexivity. Qed.

Lemma le_bytes_le_val : forall l, Forall (fun x => 0 <= x < 256) l -> le_bytes (List.length l) (le_val l) = l.
Proof.
  induction l as [|x l IH]; intros H; [reflexivity|].
  inversion H as [|? ? Hx Hl]; subst. cbn [List.length le_bytes le_val].
  assert (E : (x + 256 * le_val l) mod 256 = x /\ (x + 256 * le_val l) / 256 = le_val l).
  { pose proof (Z.div_mod (x + 256 * le_val l) 256 ltac:(lia)).
    pose proof (Z.mod_pos_bound (x + 256 * le_val l) 256 ltac:(lia)). lia. }
  destruct E as [-> ->].
  now rewrite IH.
Qed.

Lemma le_val_range : forall l, Forall (fun x => 0 <= x < 256) l -> 0 <= le_val l < 256 ^ Z.of_nat (List.length l).
Proof.
  induction l as [|x l IH]; intros H.
  - cbn. lia.
  - inversion H as [|? ? Hx Hl]; subst. specialize (IH Hl). cbn [le_val List.length].
    rewrite Nat2Z.inj_succ, Z.pow_succ_r by lia. lia.
Qed.

Lemma le_bytes_mod : forall n z, le_bytes n (z mod 256 ^ Z.of_nat n) = le_bytes n z.
Proof.
  induction n as [|n IH]; intros z; [reflexivity|].
  rewrite Nat2Z.inj_succ, Z.pow_succ_r by lia. cbn [le_bytes].
  set (P := 256 ^ Z.of_nat n) in *.
  assert (HP : 0 < P) by (apply Z.pow_pos_nonneg; lia).
  assert (E : z mod (256 * P) = z mod 256 + 256 * ((z / 256) mod P)) by (apply Z.rem_mul_r; lia).
  rewrite E. f_equal.
  - rewrite (Z.mul_comm 256 (_ mod P)), Z.mod_add by lia. apply Z.mod_mod; lia.
  - rewrite <- (IH (z / 256)). f_equal. rewrite (Z.mul_comm 256 (_ mod P)), Z.div_add by lia.
    rewrite Z.div_small by (apply Z.mod_pos_bound; lia). reflexivity.
Qed.

Lemma Forall_B : forall l : list N, Forall (fun x => (x < 256)%N) l -> Forall (fun x => 0 <= x < 256) (map Z.of_N l).
Proof. induction 1; cbn; constructor; auto. lia. Qed.

(* bitwise operations act bytewise on little-endian values *)
Lemma lxor_mod256 : forall x y, Z.lxor x y mod 256 = Z.lxor (x mod 256) (y mod 256).
Proof.
  intros x y. change 256 with (2 ^ 8). rewrite <- !Z.land_ones by lia.
  apply Z.bits_inj'. intros n Hn. rewrite !Z.lxor_spec, !Z.land_spec, !Z.lxor_spec.
  destruct (Z.testbit x n), (Z.testbit y n), (Z.testbit (Z.ones 8) n); reflexivity.
Qed.
Lemma lxor_div256 : forall x y, Z.lxor x y / 256 = Z.lxor (x / 256) (y / 256).
Proof.
  intros x y. change 256 with (2 ^ 8). rewrite <- !Z.shiftr_div_pow2 by lia. apply Z.shiftr_lxor.
Qed.
Lemma le_bytes_lxor : forall n x y, le_bytes n (Z.lxor x y) = map2 Z.lxor (le_bytes n x) (le_bytes n y).
Proof.
  induction n as [|n IH]; intros x y; [reflexivity|]. cbn [le_bytes map2].
  now rewrite lxor_mod256, lxor_div256, IH.
Qed.

Lemma map2_lxor_B : forall a b, map2 Z.lxor (map Z.of_N a) (map Z.of_N b) = map Z.of_N (xorl a b).
Proof.
  induction a as [|x a IH]; intros [|y b]; cbn; auto. unfold xorl in *. cbn. now rewrite IH, lxor_B.
Qed.

(* ------------------------------------------------------------------ *)
(* 32-bit words as four bytes                                          *)
Lemma lor_add : forall a b k, 0 <= k -> 0 <= a < 2 ^ k -> Z.lor a (Z.shiftl b k) = a + b * 2 ^ k.
Proof.
  intros a b k Hk Ha.
  assert (L : Z.land a (Z.shiftl b k) = 0).
  { apply Z.bits_inj'; intros n Hn. rewrite Z.land_spec, Z.bits_0. destruct (Z.ltb_spec n k).
    - rewrite Z.shiftl_spec_low by lia. apply andb_false_r.
    - rewrite <- (Z.mod_small a (2 ^ k)) by lia. rewrite Z.mod_pow2_bits_high by lia. reflexivity. }
  rewrite <- Z.lxor_lor by exact L. rewrite <- Z.add_nocarry_lxor by exact L.
  rewrite Z.shiftl_mul_pow2 by lia. reflexivity.
Qed.

Definition word4 (x0 x1 x2 x3 : N) : Z := le_val [B x0; B x1; B x2; B x3].

Lemma word4_val : forall x0 x1 x2 x3, word4 x0 x1 x2 x3 = B x0 + 256 * B x1 + 65536 * B x2 + 16777216 * B x3.
Proof. intros. unfold word4. cbn [le_val]. lia. Qed.

Lemma lor_step : forall a b k, 0 <= k -> k + 8 <= 32 -> 0 <= a < 2 ^ k -> 0 <= b < 256 ->
  wrap U32 (Z.lor a (Z.shiftl b k mod 2 ^ 32)) = a + b * 2 ^ k.
Proof.
  intros a b k Hk Hk8 Ha Hb.
  assert (P : 0 < 2 ^ k) by (apply Z.pow_pos_nonneg; lia).
  assert (Q : 2 ^ (k + 8) <= 2 ^ 32) by (apply Z.pow_le_mono_r; lia).
  rewrite Z.pow_add_r in Q by lia. change (2 ^ 8) with 256 in Q.
  rewrite Z.shiftl_mul_pow2 by lia.
  rewrite (Z.mod_small (b * 2 ^ k)) by nia.
  replace (Z.lor a (b * 2 ^ k)) with (a + b * 2 ^ k)
    by (rewrite <- lor_add by lia; rewrite Z.shiftl_mul_pow2 by lia; reflexivity).
  apply wrap_U32_small. nia.
Qed.

Lemma pack4_val : forall x0 x1 x2 x3, (x0 < 256)%N -> (x1 < 256)%N -> (x2 < 256)%N -> (x3 < 256)%N ->
  wrap U32 (Z.lor (wrap U32 (Z.lor (wrap U32 (Z.lor (wrap U32 (B x0)) (Z.shiftl (wrap U32 (B x1)) 8 mod 2 ^ 32)))
                                   (Z.shiftl (wrap U32 (B x2)) 16 mod 2 ^ 32)))
                  (Z.shiftl (wrap U32 (B x3)) 24 mod 2 ^ 32)) = word4 x0 x1 x2 x3.
Proof.
  intros x0 x1 x2 x3 H0 H1 H2 H3. rewrite !wrap_U32_B by assumption. rewrite word4_val.
  rewrite (lor_step (B x0) (B x1) 8) by (try change (2 ^ 8) with 256; lia).
  rewrite (lor_step (B x0 + B x1 * 2 ^ 8) (B x2) 16) by (try change (2 ^ 8) with 256; try change (2 ^ 16) with 65536; lia).
  rewrite (lor_step (B x0 + B x1 * 2 ^ 8 + B x2 * 2 ^ 16) (B x3) 24)
    by (try change (2 ^ 8) with 256; try change (2 ^ 16) with 65536; try change (2 ^ 24) with 16777216; lia).
  change (2 ^ 8) with 256. change (2 ^ 16) with 65536. change (2 ^ 24) with 16777216. lia.
Qed.

Lemma word4_range : forall x0 x1 x2 x3, (x0 < 256)%N -> (x1 < 256)%N -> (x2 < 256)%N -> (x3 < 256)%N ->
  0 <= word4 x0 x1 x2 x3 < 2 ^ 32.
Proof. intros. rewrite word4_val. change (2 ^ 32) with 4294967296. lia. Qed.

Lemma word4_bytes : forall x0 x1 x2 x3, (x0 < 256)%N -> (x1 < 256)%N -> (x2 < 256)%N -> (x3 < 256)%N ->
  le_bytes 4 (wrap U32 (word4 x0 x1 x2 x3) mod 2 ^ (8 * 4)) = [B x0; B x1; B x2; B x3].
Proof.
  intros x0 x1 x2 x3 H0 H1 H2 H3. pose proof (word4_range x0 x1 x2 x3 H0 H1 H2 H3) as R.
  rewrite wrap_U32_small by exact R. change (8 * 4) with 32. rewrite Z.mod_small by exact R.
  unfold word4. change 4%nat with (List.length [B x0; B x1; B x2; B x3]).
  apply le_bytes_le_val. repeat constructor; lia.
Qed.

Lemma pack4 : forall x0 x1 x2 x3, (x0 < 256)%N -> (x1 < 256)%N -> (x2 < 256)%N -> (x3 < 256)%N ->
  le_bytes 4 (wrap U32 (wrap U32 (Z.lor (wrap U32 (Z.lor (wrap U32 (Z.lor (wrap U32 (B x0)) (Z.shiftl (wrap U32 (B x1)) 8 mod 2 ^ 32)))
                                   (Z.shiftl (wrap U32 (B x2)) 16 mod 2 ^ 32)))
                  (Z.shiftl (wrap U32 (B x3)) 24 mod 2 ^ 32))) mod 2 ^ (8 * 4)) = [B x0; B x1; B x2; B x3].
Proof. intros. rewrite pack4_val by assumption. apply word4_bytes; assumption. Qed.

Lemma wrap_U32_word4 : forall x0 x1 x2 x3, (x0 < 256)%N -> (x1 < 256)%N -> (x2 < 256)%N -> (x3 < 256)%N ->
  wrap U32 (word4 x0 x1 x2 x3) = word4 x0 x1 x2 x3.
Proof. intros. apply wrap_U32_small. apply word4_range; assumption. Qed.

Lemma word4_b0 : forall x0 x1 x2 x3, (x0 < 256)%N -> (x1 < 256)%N -> (x2 < 256)%N -> (x3 < 256)%N ->
  wrap U8 (word4 x0 x1 x2 x3) = B x0.
Proof.
  intros. rewrite word4_val. unfold wrap; cbn [ity_bits ity_signed]. change (2 ^ 8) with 256.
  replace (B x0 + 256 * B x1 + 65536 * B x2 + 16777216 * B x3) with (B x0 + (B x1 + 256 * B x2 + 65536 * B x3) * 256) by lia.
  rewrite Z.mod_add by lia. apply Z.mod_small. lia.
Qed.
Lemma word4_shr8 : forall x0 x1 x2 x3, (x0 < 256)%N -> (x1 < 256)%N -> (x2 < 256)%N -> (x3 < 256)%N ->
  Z.shiftr (word4 x0 x1 x2 x3) 8 = word4 x1 x2 x3 0.
Proof.
  intros. rewrite !word4_val. rewrite Z.shiftr_div_pow2 by lia. change (2 ^ 8) with 256.
  replace (B x0 + 256 * B x1 + 65536 * B x2 + 16777216 * B x3) with (B x0 + (B x1 + 256 * B x2 + 65536 * B x3) * 256) by lia.
  rewrite Z.div_add by lia. rewrite Z.div_small by lia. change (B 0) with 0. lia.
Qed.
Lemma word4_b1 : forall x0 x1 x2 x3, (x0 < 256)%N -> (x1 < 256)%N -> (x2 < 256)%N -> (x3 < 256)%N ->
  wrap U8 (Z.shiftr (word4 x0 x1 x2 x3) 8) = B x1.
Proof. intros. rewrite word4_shr8 by assumption. apply word4_b0; auto; reflexivity. Qed.
Lemma word4_shr16 : forall x0 x1 x2 x3, (x0 < 256)%N -> (x1 < 256)%N -> (x2 < 256)%N -> (x3 < 256)%N ->
  Z.shiftr (word4 x0 x1 x2 x3) 16 = word4 x2 x3 0 0.
Proof.
  intros. change 16 with (8 + 8). rewrite <- Z.shiftr_shiftr by lia.
  rewrite word4_shr8 by assumption. rewrite word4_shr8; auto; reflexivity.
Qed.
Lemma word4_b2 : forall x0 x1 x2 x3, (x0 < 256)%N -> (x1 < 256)%N -> (x2 < 256)%N -> (x3 < 256)%N ->
  wrap U8 (Z.shiftr (word4 x0 x1 x2 x3) 16) = B x2.
Proof. intros. rewrite word4_shr16 by assumption. apply word4_b0; auto; reflexivity. Qed.
Lemma word4_shr24 : forall x0 x1 x2 x3, (x0 < 256)%N -> (x1 < 256)%N -> (x2 < 256)%N -> (x3 < 256)%N ->
  Z.shiftr (word4 x0 x1 x2 x3) 24 = word4 x3 0 0 0.
Proof.
  intros. change 24 with (16 + 8). rewrite <- Z.shiftr_shiftr by lia.
  rewrite word4_shr16 by assumption. rewrite word4_shr8; auto; reflexivity.
Qed.
Lemma word4_b3 : forall x0 x1 x2 x3, (x0 < 256)%N -> (x1 < 256)%N -> (x2 < 256)%N -> (x3 < 256)%N ->
  wrap U8 (Z.shiftr (word4 x0 x1 x2 x3) 24) = B x3.
Proof. intros. rewrite word4_shr24 by assumption. apply word4_b0; auto; reflexivity. Qed.

(* rotations of a 32-bit word *)
Lemma rot_gen : forall lo hi k, 0 < k < 32 -> 0 <= lo < 2 ^ k -> 0 <= hi < 2 ^ (32 - k) ->
  wrap U32 (Z.lor (Z.shiftr (lo + hi * 2 ^ k) k) (Z.shiftl (lo + hi * 2 ^ k) (32 - k) mod 2 ^ 32)) = hi + lo * 2 ^ (32 - k).
Proof.
  intros lo hi k Hk Hlo Hhi.
  assert (P1 : 0 < 2 ^ k) by (apply Z.pow_pos_nonneg; lia).
  assert (P2 : 0 < 2 ^ (32 - k)) by (apply Z.pow_pos_nonneg; lia).
  assert (E : 2 ^ 32 = 2 ^ (32 - k) * 2 ^ k) by (rewrite <- Z.pow_add_r by lia; f_equal; lia).
  rewrite Z.shiftr_div_pow2 by lia. rewrite Z.div_add by lia. rewrite (Z.div_small lo) by lia. rewrite Z.add_0_l.
  rewrite Z.shiftl_mul_pow2 by lia.
  replace ((lo + hi * 2 ^ k) * 2 ^ (32 - k)) with (lo * 2 ^ (32 - k) + hi * 2 ^ 32) by (rewrite E; ring).
  rewrite Z.mod_add by (rewrite E; nia). rewrite Z.mod_small by (rewrite E; nia).
  replace (Z.lor hi (lo * 2 ^ (32 - k))) with (hi + lo * 2 ^ (32 - k))
    by (rewrite <- lor_add by lia; rewrite Z.shiftl_mul_pow2 by lia; reflexivity).
  apply wrap_U32_small. rewrite E. nia.
Qed.

Section Rot.
Variables a b c d : N.
Hypothesis (Ha : (a < 256)%N) (Hb : (b < 256)%N) (Hc : (c < 256)%N) (Hd : (d < 256)%N).
Let W := word4 a b c d.
Lemma rrot8 : wrap U32 (Z.lor (Z.shiftr W 8) (Z.shiftl W 24 mod 2 ^ 32)) = word4 b c d a.
Proof.
  subst W. rewrite !word4_val.
  replace (B a + 256 * B b + 65536 * B c + 16777216 * B d) with (B a + (B b + 256 * B c + 65536 * B d) * 2 ^ 8) by (change (2 ^ 8) with 256; lia).
  change 24 with (32 - 8). rewrite rot_gen; change (2 ^ 8) with 256; change (2 ^ (32 - 8)) with 16777216; lia.
Qed.
Lemma rrot16 : wrap U32 (Z.lor (Z.shiftr W 16) (Z.shiftl W 16 mod 2 ^ 32)) = word4 c d a b.
Proof.
  subst W. rewrite !word4_val.
  replace (B a + 256 * B b + 65536 * B c + 16777216 * B d) with ((B a + 256 * B b) + (B c + 256 * B d) * 2 ^ 16) by (change (2 ^ 16) with 65536; lia).
  change 16 with (32 - 16) at 2. rewrite rot_gen; change (2 ^ 16) with 65536; change (2 ^ (32 - 16)) with 65536; lia.
Qed.
Lemma rrot24 : wrap U32 (Z.lor (Z.shiftr W 24) (Z.shiftl W 8 mod 2 ^ 32)) = word4 d a b c.
Proof.
  subst W. rewrite !word4_val.
  replace (B a + 256 * B b + 65536 * B c + 16777216 * B d) with ((B a + 256 * B b + 65536 * B c) + B d * 2 ^ 24) by (change (2 ^ 24) with 16777216; lia).
  change 8 with (32 - 24). rewrite rot_gen; change (2 ^ 24) with 16777216; change (2 ^ (32 - 24)) with 256; lia.
Qed.
Lemma lrot8 : wrap U32 (Z.lor (Z.shiftl W 8 mod 2 ^ 32) (Z.shiftr W 24)) = word4 d a b c.
Proof. rewrite Z.lor_comm. apply rrot24. Qed.
Lemma lrot16 : wrap U32 (Z.lor (Z.shiftl W 16 mod 2 ^ 32) (Z.shiftr W 16)) = word4 c d a b.
Proof. rewrite Z.lor_comm. apply rrot16. Qed.
Lemma lrot24 : wrap U32 (Z.lor (Z.shiftl W 24 mod 2 ^ 32) (Z.shiftr W 8)) = word4 b c d a.
Proof. rewrite Z.lor_comm. apply rrot8. Qed.
End Rot.

(* table lookup: tab[e] on a byte table *)
Lemma ev_tab : forall s g (tabN : list N) ie idx,
  mget (mem s) g = Some (bobj (map Z.of_N tabN)) ->
  Forall (fun x => (x < 256)%N) tabN ->
  eval s ie = Ok (VInt idx) -> 0 <= idx < Z.of_nat (List.length tabN) ->
  eval s (ELoad U8 (EPtrAdd (EGlobal g) 1 ie)) = Ok (VInt (B (nthN tabN (Z.to_N idx) 0%N))).
Proof.
  intros s g tabN ie idx Hm Hb He Hi.
  eapply ev_load; [eapply ev_ptradd; [apply ev_global | exact He | reflexivity] | exact Hm |].
  rewrite load_u8 by (rewrite map_length; lia).
  f_equal. replace (0 + idx * 1) with idx by lia.
  change 0 with (B 0%N) at 1. rewrite map_nth. unfold nthN. rewrite Z_N_nat.
  apply wrap_U8_B. rewrite Forall_forall in Hb.
  destruct (nth_in_or_default (Z.to_nat idx) tabN 0%N) as [Hin|Hd]; [apply Hb; exact Hin|rewrite Hd; reflexivity].
Qed.

(* ------------------------------------------------------------------ *)
(* tactics                                                             *)
Ltac is_pos_lit p := lazymatch p with xH => idtac | xO ?q => is_pos_lit q | xI ?q => is_pos_lit q end.
Ltac is_lit z := lazymatch z with Z0 => idtac | Zpos ?p => is_pos_lit p | Zneg ?p => is_pos_lit p end.

(* x = e, x an evar: if e is an operation on literals compute it, else keep e *)
Ltac lit_or_keep_add :=
  lazymatch goal with
  | |- _ = ?a + ?n * ?sc =>
      tryif (is_lit a; is_lit n; is_lit sc)
      then (let r := eval vm_compute in (a + n * sc) in exact (eq_refl r))
      else (tryif (is_lit n; is_lit sc) then (let r := eval vm_compute in (n * sc) in exact (eq_refl (a + r))) else reflexivity)
  end.
Ltac lit_or_keep_wrap :=
  lazymatch goal with
  | |- _ = wrap ?t ?x =>
      tryif is_lit x then (let r := eval vm_compute in (wrap t x) in exact (eq_refl r)) else reflexivity
  end.

(* hooks, redefined by clients *)
Ltac neq_tac := first [ assumption | apply not_eq_sym; assumption | discriminate
                      | apply pfx_neq; discriminate ].
Ltac mget_tac :=
  first [ rewrite mget_mset_same; reflexivity
        | rewrite mget_mset_other by neq_tac; mget_tac
        | eassumption
        | match goal with H : mget ?m ?k = Some _ |- mget ?m ?k = _ => exact H end ].
Ltac range_tac :=
  first [ lia | apply wrap_U8_range
        | repeat match goal with H : List.length _ = _ |- _ => rewrite H end; lia ].
Ltac len_norm := cbn [List.length upd_nth upd_range map] ; rewrite ?upd_nth_length, ?upd_range_length, ?map_length.

Ltac slice_norm :=
  repeat match goal with
  | |- context [slice ?o ?n (?x :: ?l)] =>
      let r := eval cbn [slice firstn skipn] in (slice o n (x :: l)) in change (slice o n (x :: l)) with r
  end.
Ltac nat_norm :=
  repeat match goal with
  | |- context [Z.to_nat ?z] => is_lit z; let r := eval vm_compute in (Z.to_nat z) in change (Z.to_nat z) with r
  | |- context [Pos.to_nat ?p] => is_pos_lit p; let r := eval vm_compute in (Pos.to_nat p) in change (Pos.to_nat p) with r
  end.
Ltac list_norm :=
  nat_norm; cbn [nth upd_nth upd_range List.length map]; slice_norm.

Ltac ity_norm := change (ity_bytes U64) with 8; change (ity_bytes U32) with 4; change (ity_bytes U8) with 1;
  change (ity_bits U64) with 64; change (ity_bits U32) with 32; change (ity_bits U8) with 8.
Ltac obj_norm :=
  repeat match goal with
  | |- context [bytes_object ?l] => change (bytes_object l) with (bobj (map Z.of_N l))
  | |- context [{| o_ty := U8; o_cells := ?c |}] => change {| o_ty := U8; o_cells := c |} with (bobj c)
  end.
(* off = lenA + K where a hypothesis  lenA = 16 * (r - 1)  is in the context: K is off at r = 1 *)
Ltac rel_K off lenA :=
  lazymatch goal with
  | HA : lenA = 16 * (?r - 1) |- _ =>
      let f := eval pattern r in off in
      lazymatch f with ?g _ => let K := eval vm_compute in (g 1) in K end
  end.
Ltac load_tac :=
  obj_norm;
  lazymatch goal with
  | |- load_obj (bobj (?A ++ ?L)) U8 ?off = _ =>
      let K := rel_K off (Z.of_nat (List.length A)) in
      rewrite (load_u8_rel A L off K) by (first [lia | cbn [List.length]; lia]); list_norm; reflexivity
  | |- load_obj (bobj _) U8 _ = _ => rewrite load_u8 by (list_norm; range_tac); list_norm; reflexivity
  | |- load_obj (bobj _) ?t _ = _ =>
      rewrite load_wide by (first [ (let HH := fresh in intro HH; vm_compute in HH; discriminate HH) | list_norm; ity_norm; range_tac]);
      ity_norm; list_norm; reflexivity
  end.

Ltac binop_tac :=
  lazymatch goal with
  | |- eval_bin ?t ?op ?x ?y = Ok _ =>
      first [ is_lit x; is_lit y;
              let r := eval vm_compute in (eval_bin t op x y) in
              (change (eval_bin t op x y) with r; reflexivity)
            | reflexivity
            | cbn [eval_bin]; apply arith_I32_small; lia ]
  end.

Ltac ev_hook := fail.
Ltac ev :=
  first [ ev_hook |
  lazymatch goal with
  | |- eval _ (EConst _) = _ => apply ev_const
  | |- eval _ (EVar _) = _ => apply ev_var; reflexivity
  | |- eval _ (EGlobal _) = _ => apply ev_global
  | |- eval _ (EField _) = _ => apply ev_field
  | |- eval _ (ELocalArr _) = _ => apply ev_localarr
  | |- eval _ (EPtrAdd _ _ _) = _ => eapply ev_ptradd; [ev | ev | lit_or_keep_add]
  | |- eval _ (ELoad _ _) = _ => eapply ev_load; [ev | cbn [mem]; mget_tac | load_tac]
  | |- eval _ (ECast _ _) = _ => eapply ev_cast; [ev | lit_or_keep_wrap]
  | |- eval _ (EBin _ _ _ _) = _ => eapply ev_bin; [ev | ev | binop_tac]
  end ].

Ltac evl :=
  lazymatch goal with
  | |- eval_list _ [] = _ => apply evl_nil
  | |- eval_list _ (_ :: _) = _ => eapply evl_cons; [ev | evl]
  end.

Ltac st_norm_hook := idtac.
Ltac st_norm :=
  unfold with_mem, with_loc;
  cbn [loc mem pre files ptrs fresh lset String.eqb Ascii.eqb Bool.eqb andb];
  rewrite ?mset_mset_same; list_norm; st_norm_hook.
Ltac unB l := lazymatch l with
  | @nil Z => constr:(@nil N)
  | Z.of_N ?x :: ?r => let r' := unB r in constr:(x :: r')
  end.

Ltac store_hook := fail.
Ltac store_tac :=
  obj_norm;
  lazymatch goal with
  | |- store_obj (bobj (?A ++ ?L)) U8 ?off _ = _ =>
      let K := rel_K off (Z.of_nat (List.length A)) in
      rewrite (store_u8_rel A L off K) by (first [lia | cbn [List.length]; lia]); list_norm; reflexivity
  | |- store_obj (bobj _) U8 _ _ = _ => rewrite store_u8 by (list_norm; range_tac); list_norm; reflexivity
  | |- store_obj (bobj _) ?t _ _ = _ =>
      eapply store_wide; [ (let HH := fresh in intro HH; vm_compute in HH; discriminate HH) | list_norm; ity_norm; range_tac
                         | list_norm; ity_norm; range_tac
                         | ity_norm; list_norm; store_hook ]
  end.

Ltac memcpy_tac :=
  eapply memcpy_u8; [ cbn [mem]; mget_tac | cbn [mem]; mget_tac | lia | lia | lia
                    | list_norm; range_tac | list_norm; range_tac ].
Ltac xs :=
  st_norm;
  lazymatch goal with
  | |- exec _ _ _ (SSeq _ _) _ = _ => eapply x_seq; [xs | xs]
  | |- exec _ _ _ SSkip _ = _ => apply x_skip
  | |- exec _ _ _ (SSet _ _) _ = _ => eapply x_set; ev
  | |- exec _ _ _ (SStore _ _ _) _ = _ => eapply x_store; [ev | ev | cbn [mem]; mget_tac | store_tac]
  | |- exec _ _ _ (SIf _ _ _) _ = _ => eapply x_if; [ev | cbn [Z.eqb Pos.eqb]; xs]
  | |- exec _ _ _ (SLocalArr _ _ _) _ = _ => apply x_localarr
  | |- exec _ _ _ (SMemcpy _ _ _) _ = _ => eapply x_memcpy; [ev | ev | ev | memcpy_tac]
  | |- exec _ _ _ (SLoop _ _ _) _ = _ =>
      first [ eapply x_loop_end; solve [ev]
            | eapply x_loop_iter; [solve [ev] | discriminate | xs | xs | xs] ]
  end.
