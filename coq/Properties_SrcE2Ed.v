(* End to end, for the REJECTING path of decryption: runcrypt::execute_decrypt as TRANSLATED (constructors, verify, FileHeader, hmac,
   hash factory, file buffer, hash classes and everything execute_decrypt itself does), run on the thread machine under ANY scheduler
   seed, on ANY byte string the hand model's verify does not accept (result code 1..4: too short, wrong magic number, mode bytes out
   of range, tag mismatch = wrong key or altered file), returns false, writes NOTHING to its output stream and leaves its input
   stream's bytes as they were.  This is the source-level form of C06_rejected_means_no_output / C11_unauthentic_input_fails_cleanly /
   the "only if" half of C12: a file verify rejects is never decrypted, not even partly.
   (execute_decrypt starts its worker threads only after verify returned 0, so on this path the run is sequential: the big-step
   semantics executes no synchronisation primitive, and SRC_seq_machine_agrees_any carries the result to the thread machine.) *)
From Coq Require Import ZArith NArith List String Bool.
From Wencry Require Import Bytes HashModel FileModel MiniC MiniCRun MiniCConc SrcRun SrcRun2 SrcRun5 RefineE2Ed.
Import ListNotations.
Local Open Scope N_scope.

Theorem SRC_execute_decrypt_rejects_what_verify_rejects : forall c hbuf T F key rnd code,
  (1 <= c)%nat -> (1 <= hbuf)%nat -> N.of_nat (64 * hbuf) < 2 ^ 32 -> (1 <= T < 256)%nat ->
  block16 key -> bytesb F = true -> N.of_nat (length F) < 2 ^ 56 ->
  verify hbuf F key = FileModel.Ok code -> code <> 0 ->
  match src_decrypt_file c hbuf T F key rnd with
  | SOk (b, o, i, _) => b = false /\ o = [] /\ i = F
  | SErr w => w = "out of fuel"%string          (* the machine's step budget (SrcRun5.run_from) was too small for this input *)
  end.
Proof. exact SRC_execute_decrypt_rejects_proof. Qed.
Print Assumptions SRC_execute_decrypt_rejects_what_verify_rejects.
