(* AesFactory::createCryMaster (the switch on (isenc, type)) and the constructor chain of the eight stream classes
   (AesCTR(key, iv) : AesEncrypt(key, iv) : Aesmode(iv), crypt(key) : aeshandle(key) : key(initkey)), as translated, create the
   stream object that ModesModel.create names -- or NULL -- and feeding it blocks through the virtual runcry gives ModesModel.run. *)
From Coq Require Import ZArith NArith List String Bool.
From Wencry Require Import Bytes AesModel ModesModel MiniC MiniCRun SrcRun SrcRun2 RefineModesFactory.
Import ListNotations.
Local Open Scope N_scope.

Theorem SRC_mode_factory : forall (isenc : bool) type key iv blks,
  type < 256 -> block16 key -> block16 iv -> Forall block16 blks ->
  src_mode_factory isenc type key iv blks =
  match create isenc type with
  | Some kind => SOk (snd (run (aes_enc_with (genall key)) (aes_dec_with (genall key)) kind iv blks))
  | None => SErr "NULL"%string
  end.
Proof. exact SRC_mode_factory_proof. Qed.
Print Assumptions SRC_mode_factory.
