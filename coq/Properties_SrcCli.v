(* Refinement for the option front end: get_v_opt / parseOpts / parseModeNumber / getArgsKey (valget/getopts.cpp), check_ctype /
   check_htype (information.cpp), getRandomKey (getval1.cpp) and the base64 routines they call, as translated into MiniC
   (Gen/Src_cli.v, Gen/Src_base64.v), run in the explicit environment CliConc.conc builds from CliModel's tokens,
   = CliModel's parse_all followed by post_checks. *)
From Coq Require Import ZArith NArith List String Bool.
From Wencry Require Import Bytes CliModel MiniC SrcRun SrcRun3 CliConc RefineCli.
Import ListNotations.
Local Open Scope Z_scope.

Definition tok_ok (t : tok) : Prop :=
  match t with T_cmode n | T_hmode n => - 2 ^ 31 < n < 2 ^ 31 | _ => True end.

Theorem SRC_cli_parse : forall ts,
  Forall tok_ok ts ->
  src_cli_parse ts = SOk (option_map abs_pak (cli_parse ts)).
Proof. exact SRC_cli_parse_proof. Qed.
Print Assumptions SRC_cli_parse.
