(* Runs of one thread of the machine: [mstar] = a number of [micro] steps, none of them a scheduling point or a request to the
   scheduler; what [run_thread] does along such a run; one-step equations of [micro]. *)
From Coq Require Import ZArith NArith List String Bool Lia.
From Wencry Require Import MiniC MiniCLemmas MiniCConc RefineSeqDefs RefineSeqA.
Import ListNotations.
Local Open Scope Z_scope.

Notation mk st k l p stt := {| ct_cur := st; ct_k := k; ct_loc := l; ct_pre := p; ct_st := stt |}.

Section Machine.
Variable prog : program.
Variable vt : list (string * string).

(* the thread after a statement finished normally under continuation k with locals l *)
Definition cont_conf (k : kont) (l : list (string * value)) (p : string) (stt : tstatus) : cthread :=
  match next_of k l p with
  | Some (st', k', l', p') => mk st' k' l' p' stt
  | None => mk SSkip KStop l p TDone
  end.

Inductive mstar : cthread -> state -> nat -> cthread -> state -> Prop :=
| ms_refl : forall t sh, mstar t sh O t sh
| ms_step : forall t sh t1 sh1 n t2 sh2,
    ct_st t <> TDone -> is_sched_point (ct_cur t) = false ->
    micro prog vt t sh = Ok (t1, sh1, RNone) ->
    mstar t1 sh1 n t2 sh2 -> mstar t sh (S n) t2 sh2.

Lemma mstar_trans : forall a sa n b sb, mstar a sa n b sb -> forall m c sc, mstar b sb m c sc -> mstar a sa (n + m) c sc.
Proof. induction 1; intros m c sc H'; [exact H'|]. cbn [Nat.add]. econstructor; eauto. Qed.

Definition reaches (t : cthread) (sh : state) (t' : cthread) (sh' : state) : Prop := exists n, mstar t sh n t' sh'.

Lemma reaches_trans : forall a sa b sb c sc, reaches a sa b sb -> reaches b sb c sc -> reaches a sa c sc.
Proof. intros a sa b sb c sc [n H] [m H']. exists (n + m)%nat. eapply mstar_trans; eauto. Qed.
Lemma reaches_step : forall t sh t1 sh1 t2 sh2,
  ct_st t <> TDone -> is_sched_point (ct_cur t) = false -> micro prog vt t sh = Ok (t1, sh1, RNone) ->
  reaches t1 sh1 t2 sh2 -> reaches t sh t2 sh2.
Proof. intros t sh t1 sh1 t2 sh2 A B C [n H]. exists (S n). econstructor; eauto. Qed.
Lemma reaches_one : forall t sh t1 sh1,
  ct_st t <> TDone -> is_sched_point (ct_cur t) = false -> micro prog vt t sh = Ok (t1, sh1, RNone) -> reaches t sh t1 sh1.
Proof. intros. eapply reaches_step; eauto. exists O. constructor. Qed.

(* ---- run_thread along an mstar run ---- *)
Lemma run_thread_S : forall fuel tid first t cs evs,
  run_thread prog vt (S fuel) tid first t cs evs =
      let put (t' : cthread) (cs' : cstate) : cstate :=
        {| cs_sh := cs_sh cs'; cs_thr := set_nth_t tid t' (cs_thr cs'); cs_mx := cs_mx cs' |} in
      match ct_st t with
      | TDone => Ok (put t cs, evs ++ [(14, 0, 0)])
      | _ =>
      if negb first && is_sched_point (ct_cur t) then Ok (put t cs, evs)
      else
        do r <- micro prog vt t (cs_sh cs);
        let '(t1, sh1, req) := r in
        let cs1 := {| cs_sh := sh1; cs_thr := cs_thr cs; cs_mx := cs_mx cs |} in
        match req with
        | RNone => run_thread prog vt fuel tid false t1 cs1 evs
        | RStop => Ok (put t1 cs1, evs)
        | REvent e => run_thread prog vt fuel tid false t1 cs1 (evs ++ [e])
        | RLock m =>
            if mx_free (cs_mx cs1) m
            then run_thread prog vt fuel tid false t1 {| cs_sh := sh1; cs_thr := cs_thr cs; cs_mx := (m, tid) :: cs_mx cs |} evs
            else UB "lock of a held mutex at a scheduling point"
        | RUnlock m => run_thread prog vt fuel tid false t1 {| cs_sh := sh1; cs_thr := cs_thr cs; cs_mx := mx_release (cs_mx cs) m |} evs
        | RWait cv m =>
            Ok (put (with_status t1 (TSleep cv m)) {| cs_sh := sh1; cs_thr := cs_thr cs; cs_mx := mx_release (cs_mx cs) m |}, evs ++ [(11, 0, 0)])
        | RNotify cv => run_thread prog vt fuel tid false t1 {| cs_sh := sh1; cs_thr := wake_all cv (cs_thr cs); cs_mx := cs_mx cs |} evs
        | RSpawn f args cell =>
            match lget prog f with
            | Some fn =>
                do l <- bind_params (f_params fn) args;
                let newt := {| ct_cur := f_body fn; ct_k := KStop; ct_loc := l; ct_pre := ""; ct_st := TRun |} in
                let tid' := List.length (cs_thr cs) in
                let sh2 := with_ptrs sh1 (lset (ptrs sh1) cell (VInt (Z.of_nat tid'))) in
                run_thread prog vt fuel tid false t1 {| cs_sh := sh2; cs_thr := cs_thr cs ++ [newt]; cs_mx := cs_mx cs |} evs
            | None => UB ("spawn: no function " ++ f)%string
            end
        | RJoin target =>
            if thread_done cs1 target then run_thread prog vt fuel tid false t1 cs1 evs
            else Ok (put (with_status t1 (TJoin target)) cs1, evs)
        end
      end.
Proof. reflexivity. Qed.

(* n silent steps of thread tid cost n units of run_thread's fuel and change nothing but the shared state *)
Lemma run_thread_mstar : forall t sh n t2 sh2, mstar t sh n t2 sh2 ->
  forall fuel tid first thr mx evs,
    run_thread prog vt fuel tid first t {| cs_sh := sh; cs_thr := thr; cs_mx := mx |} evs =
    if (fuel <=? n)%nat then NoFuel
    else run_thread prog vt (fuel - n) tid (match n with O => first | _ => false end) t2 {| cs_sh := sh2; cs_thr := thr; cs_mx := mx |} evs.
Proof.
  induction 1 as [t sh | t sh t1 sh1 n t2 sh2 ND NS MI MS IH]; intros fuel tid first thr mx evs.
  - destruct fuel as [|fuel]; [reflexivity|]. cbn [Nat.leb]. now rewrite Nat.sub_0_r.
  - destruct fuel as [|fuel]; [reflexivity|]. rewrite run_thread_S. cbv zeta.
    rewrite NS, andb_false_r. cbn [cs_sh cs_thr cs_mx]. rewrite MI. cbn [bind].
    rewrite IH. cbn [Nat.leb Nat.sub].
    destruct (ct_st t) eqn:ST; try (destruct n; reflexivity). now elim ND.
Qed.

(* a run that ends in a finished thread *)
Lemma run_thread_done : forall t sh n t2 sh2, mstar t sh n t2 sh2 -> ct_st t2 = TDone ->
  forall fuel tid first thr mx evs,
    run_thread prog vt fuel tid first t {| cs_sh := sh; cs_thr := thr; cs_mx := mx |} evs =
    if (fuel <=? n)%nat then NoFuel
    else Ok ({| cs_sh := sh2; cs_thr := set_nth_t tid t2 thr; cs_mx := mx |}, evs ++ [(14, 0, 0)]).
Proof.
  intros t sh n t2 sh2 MS D fuel tid first thr mx evs. rewrite (run_thread_mstar _ _ _ _ _ MS).
  destruct (fuel <=? n)%nat eqn:L; [reflexivity|]. apply Nat.leb_gt in L.
  destruct (fuel - n)%nat as [|m] eqn:Em; [lia|]. rewrite run_thread_S. cbv zeta. rewrite D. reflexivity.
Qed.

(* ---- one-step equations of micro, for a thread whose state is the sequential state s ---- *)
Lemma ts_eq : forall s st k stt, thread_state (shared_of s) (mk st k (loc s) (pre s) stt) = s.
Proof. intros [m l p f ps fr] st k stt. reflexivity. Qed.

Lemma micro_skip : forall k l p stt sh, micro prog vt (mk SSkip k l p stt) sh = Ok (cont_conf k l p stt, sh, RNone).
Proof. intros. unfold micro, cont_conf. cbn [ct_cur ct_k ct_loc ct_pre ct_st]. destruct (next_of k l p) as [[[[st' k'] l'] p']|]; reflexivity. Qed.

Lemma micro_seq : forall a b k l p stt sh, micro prog vt (mk (SSeq a b) k l p stt) sh = Ok (mk a (KSeq b k) l p stt, sh, RNone).
Proof. reflexivity. Qed.

Lemma micro_if : forall c a b k s stt cv x, eval s c = Ok cv -> as_int cv = Ok x ->
  micro prog vt (mk (SIf c a b) k (loc s) (pre s) stt) (shared_of s) = Ok (mk (if x =? 0 then b else a) k (loc s) (pre s) stt, shared_of s, RNone).
Proof. intros c a b k s stt cv x E1 E2. unfold micro. cbn [ct_cur ct_k ct_loc ct_pre ct_st]. rewrite ts_eq, E1. cbn [bind]. rewrite E2. reflexivity. Qed.

Lemma micro_loop_exit : forall c body step k s stt cv, eval s c = Ok cv -> as_int cv = Ok 0 ->
  micro prog vt (mk (SLoop c body step) k (loc s) (pre s) stt) (shared_of s) = Ok (cont_conf k (loc s) (pre s) stt, shared_of s, RNone).
Proof.
  intros c body step k s stt cv E1 E2. unfold micro, cont_conf. cbn [ct_cur ct_k ct_loc ct_pre ct_st]. rewrite ts_eq, E1. cbn [bind]. rewrite E2. cbn [bind Z.eqb].
  destruct (next_of k (loc s) (pre s)) as [[[[st' k'] l'] p']|]; reflexivity.
Qed.

Lemma micro_loop_enter : forall c body step k s stt cv x, eval s c = Ok cv -> as_int cv = Ok x -> (x =? 0) = false ->
  micro prog vt (mk (SLoop c body step) k (loc s) (pre s) stt) (shared_of s) = Ok (mk body (KLoopBody c body step k) (loc s) (pre s) stt, shared_of s, RNone).
Proof.
  intros c body step k s stt cv x E1 E2 E3. unfold micro. cbn [ct_cur ct_k ct_loc ct_pre ct_st]. rewrite ts_eq, E1. cbn [bind]. rewrite E2. cbn [bind]. rewrite E3. reflexivity.
Qed.

Lemma micro_dowhile : forall body c k l p stt sh, micro prog vt (mk (SDoWhile body c) k l p stt) sh = Ok (mk body (KDoBody body c k) l p stt, sh, RNone).
Proof. reflexivity. Qed.

Lemma micro_break : forall k k' l p stt sh, unwind_break k = Some k' -> micro prog vt (mk SBreak k l p stt) sh = Ok (mk SSkip k' l p stt, sh, RNone).
Proof. intros k k' l p stt sh E. unfold micro. cbn [ct_cur ct_k ct_loc ct_pre ct_st]. rewrite E. reflexivity. Qed.

Lemma micro_return : forall e v k s stt ret sl sp k' back,
  match e with None => Ok None | Some e' => do v' <- eval s e'; Ok (Some v') end = Ok v ->
  unwind_return k = Some (ret, sl, sp, k') ->
  set_ret {| mem := mem s; loc := sl; pre := sp; files := files s; ptrs := ptrs s; fresh := fresh s |} ret v = Ok back ->
  micro prog vt (mk (SReturn e) k (loc s) (pre s) stt) (shared_of s) = Ok (mk SSkip k' (loc back) sp stt, shared_of s, RNone).
Proof.
  intros e v k s stt ret sl sp k' back E1 E2 E3. unfold micro. cbn [ct_cur ct_k ct_loc ct_pre ct_st]. rewrite ts_eq, E1. cbn [bind]. rewrite E2.
  cbn [shared_of mem files ptrs fresh]. rewrite E3. reflexivity.
Qed.

Lemma micro_call : forall ret fname this args k s stt vs pfx f l,
  eval_list s args = Ok vs -> this_prefix s this = Ok pfx -> lget prog fname = Some f -> bind_params (f_params f) vs = Ok l ->
  micro prog vt (mk (SCall ret fname this args) k (loc s) (pre s) stt) (shared_of s) =
  Ok (mk (f_body f) (KCall ret (loc s) (pre s) k) l pfx stt, shared_of s, RNone).
Proof.
  intros ret fname this args k s stt vs pfx f l E1 E2 E3 E4. unfold micro. cbn [ct_cur ct_k ct_loc ct_pre ct_st].
  rewrite ts_eq, E1. cbn [bind]. rewrite E2. cbn [bind]. rewrite E3, E4. reflexivity.
Qed.

Lemma micro_callvirt : forall ret m this args k s stt vs pfx cls f l,
  eval_list s args = Ok vs -> this_prefix s this = Ok pfx ->
  match lget vt pfx with
  | Some c => Some c
  | None => match lget (ptrs s) (class_key pfx) with Some (VPtr c _) => Some c | _ => None end
  end = Some cls ->
  lget prog (cls ++ "::" ++ m)%string = Some f -> bind_params (f_params f) vs = Ok l ->
  micro prog vt (mk (SCallVirt ret m this args) k (loc s) (pre s) stt) (shared_of s) =
  Ok (mk (f_body f) (KCall ret (loc s) (pre s) k) l pfx stt, shared_of s, RNone).
Proof.
  intros ret m this args k s stt vs pfx cls f l E1 E2 E3 E4 E5. unfold micro. cbn [ct_cur ct_k ct_loc ct_pre ct_st].
  rewrite ts_eq, E1. cbn [bind]. rewrite E2. cbn [bind]. rewrite E3, E4, E5. reflexivity.
Qed.

Lemma micro_atomic : forall st k s stt o s1, is_atomic st = true -> exec prog vt 1 st s = Ok (o, s1) ->
  micro prog vt (mk st k (loc s) (pre s) stt) (shared_of s) = Ok (cont_conf k (loc s1) (pre s) stt, shared_of s1, RNone).
Proof.
  intros st k s stt o s1 A E.
  assert (G : (do r <- exec prog vt 1 st s;
               let '(_, s1) := r in
               match next_of k (loc s1) (pre s) with
               | Some (st', k', l', p') => Ok (mk st' k' l' p' stt, shared_of s1, RNone)
               | None => Ok (mk SSkip KStop (loc s1) (pre s) TDone, shared_of s1, RNone)
               end) = Ok (cont_conf k (loc s1) (pre s) stt, shared_of s1, RNone)).
  { rewrite E. cbn [bind]. unfold cont_conf. destruct (next_of k (loc s1) (pre s)) as [[[[st' k'] l'] p']|]; reflexivity. }
  destruct st; try discriminate A; unfold micro; cbn [ct_cur ct_k ct_loc ct_pre ct_st is_atomic]; rewrite ts_eq; exact G.
Qed.

Lemma micro_prim : forall ret name args k s stt o s1, is_sync_prim name = false -> exec prog vt 1 (SPrim ret name args) s = Ok (o, s1) ->
  micro prog vt (mk (SPrim ret name args) k (loc s) (pre s) stt) (shared_of s) = Ok (cont_conf k (loc s1) (pre s) stt, shared_of s1, RNone).
Proof.
  intros ret name args k s stt o s1 A E. unfold micro. cbn [ct_cur ct_k ct_loc ct_pre ct_st]. rewrite A, ts_eq, E. cbn [bind].
  unfold cont_conf. destruct (next_of k (loc s1) (pre s)) as [[[[st' k'] l'] p']|]; reflexivity.
Qed.

Lemma micro_newobj_none : forall x cls objs args k s stt o s1, exec prog vt 1 (SNewObj x cls objs None args) s = Ok (o, s1) ->
  micro prog vt (mk (SNewObj x cls objs None args) k (loc s) (pre s) stt) (shared_of s) = Ok (cont_conf k (loc s1) (pre s) stt, shared_of s1, RNone).
Proof.
  intros x cls objs args k s stt o s1 E. unfold micro. cbn [ct_cur ct_k ct_loc ct_pre ct_st]. rewrite ts_eq, E. cbn [bind].
  unfold cont_conf. destruct (next_of k (loc s1) (pre s)) as [[[[st' k'] l'] p']|]; reflexivity.
Qed.

Lemma micro_newobj_ctor : forall x cls objs fname args k s stt o s1 vs f name off l,
  exec prog vt 1 (SNewObj x cls objs None args) s = Ok (o, s1) -> eval_list s args = Ok vs ->
  lget prog fname = Some f -> lget (loc s1) x = Some (VPtr name off) -> bind_params (f_params f) vs = Ok l ->
  micro prog vt (mk (SNewObj x cls objs (Some fname) args) k (loc s) (pre s) stt) (shared_of s) =
  Ok (mk (f_body f) (KCall None (loc s1) (pre s) k) l name stt, shared_of s1, RNone).
Proof.
  intros x cls objs fname args k s stt o s1 vs f name off l E1 E2 E3 E4 E5. unfold micro. cbn [ct_cur ct_k ct_loc ct_pre ct_st].
  rewrite ts_eq, E1. cbn [bind]. rewrite E2. cbn [bind]. rewrite E3, E4, E5. reflexivity.
Qed.
End Machine.
