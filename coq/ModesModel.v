(* Model of kernel/multi_aes/aes/aesmode.cpp: the eight Aesmode subclasses as step
   functions on the object state (the iv register), and the factory.  Generic in the block
   functions (encryaes / decryaes objects keyed at construction). *)
From Wencry Require Import Bytes.
Local Open Scope N_scope.

Inductive mkind := ECB_Enc | ECB_Dec | CBC_Enc | CBC_Dec | CTRm | CFB_Enc | CFB_Dec | OFBm.

(* AesFactory::createCryMaster(isenc, type); None = NULL *)
Definition create (isenc : bool) (type : N) : option mkind :=
  if isenc then
    match type with 0 => Some ECB_Enc | 1 => Some CBC_Enc | 2 => Some CTRm | 3 => Some CFB_Enc | 4 => Some OFBm | _ => None end
  else
    match type with 0 => Some ECB_Dec | 1 => Some CBC_Dec | 2 => Some CTRm | 3 => Some CFB_Dec | 4 => Some OFBm | _ => None end.

(* AesCTR::ctrInc on the reversed register: for (i = 15; i >= 0; i--) { iv[i]++; if (iv[i] != 0) break; } *)
Fixpoint inc_rev (r : list N) : list N :=
  match r with
  | [] => []
  | x :: t => let y := (x + 1) mod 256 in
              if y =? 0 then y :: inc_rev t else y :: t
  end.
Definition ctrInc (iv : list N) : list N := rev (inc_rev (rev iv)).

Section Step.
Variable E D : list N -> list N.   (* encryaes::runaes_128bit / decryaes::runaes_128bit *)

(* runcry(block): (iv register, block) -> (iv register', block') *)
Definition runcry (k : mkind) (iv blk : list N) : list N * list N :=
  match k with
  | ECB_Enc => (iv, E blk)
  | ECB_Dec => (iv, D blk)
  | CBC_Enc => let c := E (xorl blk iv) in (c, c)
  | CBC_Dec => (blk, xorl (D blk) iv)
  | CTRm => (ctrInc iv, xorl blk (E iv))
  | CFB_Enc => let c := xorl blk (E iv) in (c, c)
  | CFB_Dec => (blk, xorl blk (E iv))
  | OFBm => let o := E iv in (o, xorl blk o)
  end.

(* an object processing a sequence of blocks in order *)
Fixpoint run (k : mkind) (iv : list N) (bs : list (list N)) : list N * list (list N) :=
  match bs with
  | [] => (iv, [])
  | b :: r => let (iv', b') := runcry k iv b in
              let (iv'', r') := run k iv' r in (iv'', b' :: r')
  end.
End Step.
