(* PARALLEL4 (H2), D1, step 1 (plan world): hmac::cmphmac with what it leaves alone
   (RefineFileHmac2.cmphmac_refines with the frame conclusions of getres_g carried to the end). *)
From Coq Require Import ZArith NArith List String Bool Lia PeanoNat.
From Wencry Require Import Bytes HashModel HashProofs HmacProofs ModesProofs MiniC MiniCRun MiniCLemmas SrcRun SrcRun2 RefineHashDefs RefineHashDriver RefineFileBase RefineFileHmac RefineFileHmac2.
From Wencry.Gen Require Layout Src_sha256 Src_sha1 Src_md5 Src_hashmaster Src_hashbuffer Src_hashfactory Src_fheader Src_cry.
Import ListNotations.
Local Open Scope list_scope.
Local Open Scope string_scope.
Local Open Scope Z_scope.

Section Hmac.
Variable cls : string.
Variable a : halg.
Variable objs : list (string * ity * Z).
Variable globs : memory.
Variable vt : list (string * string).
Variable F : nat.
Variable hmz : Z.
Variable hbuf : nat.
Variable pfx : string.
Hypothesis C : hctx cls a objs globs vt F hmz hbuf pfx.
Variable fpn : string.
Let lenk := pfx ++ "length".
Let hl := Z.of_nat (ha_hlen a).

Lemma cmphmac_refines' : forall fuel m l0 p0 fs ps fr0 keyo key fz f stream n st' so stored,
  (F + n + 200 <= fuel)%nat -> gpre cls objs globs hbuf pfx fpn m ps fs keyo key f stream ->
  file_loop hbuf a n (reset a) (fb_new hbuf (Some (map (fun x => N.lxor x 54) (key1_of key))) stream) = Some st' ->
  mget m so = Some (bytes_object stored) -> (ha_hlen a <= List.length stored)%nat -> bytesb stored = true ->
  file_owned so = false -> so <> lenk ->
  exists s',
    call file_prog vt fuel "hmac::cmphmac/5" pfx [VInt hmz; VPtr keyo 0; VPtr fpn 0; VPtr so 0; VInt fz] (St m l0 p0 fs ps fr0)
      = Ok (Some (VInt (if cmphmac (tag_of a key st') stored then 1 else 0)), s') /\
    loc s' = l0 /\ pre s' = p0 /\
    mget (mem s') lenk = Some (cell1 U8 hl) /\
    (forall k, file_owned k = false -> k <> lenk -> mget (mem s') k = mget m k) /\
    (forall k, k <> fpn -> lget (files s') k = lget fs k).
Proof.
  intros fuel m l0 p0 fs ps fr0 keyo key fz f stream n st' so stored Hfuel G Hfl Hso Hsl Hsb Hsoo Hsone.
  unfold call. change (lget file_prog "hmac::cmphmac/5") with (Some Src_fheader.f_hmac_cmphmac_5).
  cbn [f_params f_body Src_fheader.f_hmac_cmphmac_5 bind_params bind mem loc pre files ptrs fresh].
  set (Lg := [("hashtype", VInt hmz); ("key", VPtr keyo 0); ("fp", VPtr fpn 0); ("hmac_out", VPtr so 0); ("fsize", VInt fz)]).
  destruct fuel as [|fuel]; [lia|]. rewrite exec_seq. destruct fuel as [|fuel]; [lia|].
  destruct (getres_g cls a objs globs vt F hmz hbuf pfx C fpn fuel m Lg pfx fs ps fr0 keyo key fz f stream n st' ltac:(lia) G Hfl)
    as (s1 & nres & Ec & Hloc & Hpre & Hptr & Hnh & Hby & Htl & Hlen & Hoth & Hfl1).
  rewrite (x_scall file_prog vt fuel None "hmac::getres/4" None [EVar "hashtype"; EVar "key"; EVar "fp"; EVar "fsize"] (St m Lg pfx fs ps fr0)
             [VInt hmz; VPtr keyo 0; VPtr fpn 0; VInt fz] pfx None s1 s1 eq_refl eq_refl Ec eq_refl).
  cbn [bind]. clear Ec.
  destruct s1 as [M1 L1 P1 FS1 PS1 FR1]. cbn [mem loc pre files ptrs fresh] in Hloc, Hpre, Hptr, Hby, Hlen, Hoth, Hfl1. subst L1 P1.
  set (tag := tag_of a key st') in *.
  assert (Htb : bytesb tag = true) by (unfold tag, tag_of, getStringHash; apply (hc_out_bytes _ _ _ _ _ _ _ _ _ C)).
  pose proof (hc_hlen _ _ _ _ _ _ _ _ _ C) as Hh64.
  destruct Hby as (rob & Hgr & Htyr & _ & Hcr & Hlr). destruct rob as [tyr rc]. cbn [o_ty o_cells] in Htyr, Hcr, Hlr. subst tyr.
  change (Z.to_nat 0) with 0%nat in Hcr, Hlr. change (skipn 0 rc) with rc in Hcr. rewrite Htl in Hcr, Hlr.
  assert (Hso1 : mget M1 so = Some (bytes_object stored)) by (rewrite Hoth by assumption; exact Hso).
  (* i = 0 *)
  rewrite exec_seq. destruct fuel as [|fuel]; [lia|]. rewrite exec_set. cbn [eval bind]. unfold with_loc. cbn [mem loc pre files ptrs fresh].
  (* the loop *)
  rewrite exec_seq.
  pose proof (cmp_loop file_prog vt M1 Lg pfx FS1 PS1 FR1 so nres tag stored rc (ha_hlen a) eq_refl Hptr Hlen Hso1 Hgr Hcr Htl
                ltac:(lia) Hsl Htb Hsb Hh64 (ha_hlen a) 0%nat fuel eq_refl ltac:(lia)) as EL.
  unfold ccond, cbody, cstep in EL. change (Z.of_nat 0) with 0 in EL. rewrite EL. clear EL. cbn [bind].
  assert (Hcm : cmphmac tag stored = match fst (cmp_res tag stored (ha_hlen a) 0) with Normal => true | _ => false end).
  { unfold cmphmac. rewrite Htl.
    destruct (cmp_res_spec tag stored rc (ha_hlen a) Htl ltac:(lia) Hsl Hh64 (ha_hlen a) 0%nat eq_refl) as [[A B]|[A B]]; rewrite B.
    - apply list_eqb_eq. change (skipn 0 tag) with tag in A. change (skipn 0 stored) with stored in A.
      rewrite <- A. rewrite <- Htl. symmetry. apply firstn_all.
    - destruct (list_eqb tag (firstn (ha_hlen a) stored)) eqn:E; [|reflexivity]. apply list_eqb_eq in E. exfalso. apply A.
      change (skipn 0 tag) with tag. change (skipn 0 stored) with stored. rewrite <- E. rewrite <- Htl. apply firstn_all. }
  rewrite Hcm.
  destruct (cmp_res_spec tag stored rc (ha_hlen a) Htl ltac:(lia) Hsl Hh64 (ha_hlen a) 0%nat eq_refl) as [[A B]|[A B]]; rewrite B.
  - destruct fuel as [|fuel]; [lia|]. rewrite exec_seq. destruct fuel as [|fuel]; [lia|].
    rewrite x_delete. cbn [eval bind loc pre ptrs]. rewrite Hptr. cbn [bind]. rewrite x_return. cbn [eval bind].
    eexists. split; [reflexivity|]. cbn [mem loc pre files]. split; [reflexivity|]. split; [reflexivity|]. split; [exact Hlen|]. split; [exact Hoth|exact Hfl1].
  - eexists. split; [reflexivity|]. cbn [mem loc pre files]. split; [reflexivity|]. split; [reflexivity|]. split; [exact Hlen|]. split; [exact Hoth|exact Hfl1].
Qed.
End Hmac.
Print Assumptions cmphmac_refines'.
