(* Refinement for the concurrent part: the buffer hand-over protocol as TRANSLATED from kernel/multi_aes/multi_buffergroup.cpp and
   multicry.cpp (Gen/Src_conc.v: bufferctrl, buffergroup, iobuffer, multiruncrypt_file, run_multicry, hooks on), run under the
   thread semantics MiniCConc in the harness' pipe set-up (SrcRun4), follows the hand-written transition system PipeConc step for
   step: for EVERY schedule PipeConc accepts -- real threads and spurious wake-ups --, the translated code produces the same
   events, has the same number of enabled threads before every step, and ends with the same output.
   With C03 / C04 / C14 (theorems about PipeConc) this transfers schedule independence, termination and exclusive hand-over to
   the translated protocol code. *)
From Coq Require Import ZArith NArith List String Bool.
From Wencry Require Import Bytes FileModel PipeConc MiniC MiniCConc SrcRun SrcRun4 RefineConc.
Import ListNotations.

Definition norm_ev (e : MiniCConc.event) : PipeConc.event :=
  match e with (k, o, v) => (Z.to_nat k, if (o <? 0)%Z then NOOBJ else Z.to_nat o, Z.to_nat v) end.
Definition is_marker (e : MiniCConc.event) : bool := match e with (k, _, _) => (k =? 20)%Z || (k =? 21)%Z end.
Definition norm_log (l : list (nat * nat * list MiniCConc.event)) : list (nat * nat * list PipeConc.event) :=
  map (fun x => match x with (tid, ne, evs) => (tid, ne, map norm_ev (filter (fun e => negb (is_marker e)) evs)) end) l.

Theorem SRC_protocol_follows_PipeConc : forall c T (ispadding : bool) input sched s log,
  (1 <= c)%nat -> (N.of_nat (16 * c) < 2 ^ 32)%N -> (1 <= T <= 16)%nat -> bytesb input = true ->
  (N.of_nat (length input) < 2 ^ 36)%N ->      (* fewer than 2^32 blocks: the harness' stream object counts blocks in a u32 *)
  tag_run c T ispadding input sched = Some (s, log) ->
  exists cs log',
    conc_src_run c T ispadding input sched = SOk (cs, log') /\
    norm_log log' = log /\
    (terminal (N * N) s = true -> all_done cs = true /\ conc_output cs = concat (output (N * N) s)).
Proof. exact SRC_protocol_follows_PipeConc_proof. Qed.
Print Assumptions SRC_protocol_follows_PipeConc.
