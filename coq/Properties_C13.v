(* C13 -- an interrupted encryption never leaves a file that verifies.
   Crash states = every byte prefix of the write stream (header+IVs+body appended
   sequentially in ANY split, then the tag bytes at offset 10).  A crash state that verifies
   is either the finished file, or has an all-zero tag field whose HMAC is all zero -- the
   explicit residual event (probability 2^-8hlen under the PRF assumption). *)
From Wencry Require Import Bytes HashSpec FileModel FileSpec FileProps FileProofsSec.
Local Open Scope N_scope.

Theorem C13_interrupted_encryption_never_verifies : forall c hbuf T P key seed cm hm ws F k,
  enc_params c hbuf T P key seed cm hm ->
  enc_writes c hbuf T P key cm hm seed = Ok ws ->
  enc c hbuf T P key cm hm seed = Ok F ->
  (k <= total_written ws)%nat ->
  ver hbuf (crash_state ws k) key = Ok true ->
  crash_state ws k = F \/
  ((k <= length F)%nat /\ hmac_spec (hash_spec hm) key (skipn 48 (crash_state ws k)) = zeros (hlen hm)).
Proof. exact C13_interrupted_encryption_never_verifies_proof. Qed.
Print Assumptions C13_interrupted_encryption_never_verifies.

(* the last state is the finished file; states shorter than the 74-byte header area never verify *)
Theorem C13_complete_and_short_states : forall c hbuf T P key seed cm hm ws F,
  enc_params c hbuf T P key seed cm hm ->
  enc_writes c hbuf T P key cm hm seed = Ok ws ->
  enc c hbuf T P key cm hm seed = Ok F ->
  crash_state ws (total_written ws) = F /\
  (forall k, (k < 74)%nat -> ver hbuf (crash_state ws k) key = Ok false).
Proof. exact C13_complete_and_short_states_proof. Qed.
Print Assumptions C13_complete_and_short_states.

(* while the body is still being written the tag field is all zero *)
Theorem C13_tag_field_zero_until_the_end : forall c hbuf T P key seed cm hm ws F k,
  enc_params c hbuf T P key seed cm hm ->
  enc_writes c hbuf T P key cm hm seed = Ok ws ->
  enc c hbuf T P key cm hm seed = Ok F ->
  (74 <= k <= length F)%nat ->
  firstn (hlen hm) (skipn 10 (crash_state ws k)) = zeros (hlen hm).
Proof. exact C13_tag_field_zero_until_the_end_proof. Qed.
Print Assumptions C13_tag_field_zero_until_the_end.
