(* Stage 5: execute_encrypt end to end, CLOSED: runcrypt::execute_encrypt as translated, run on the thread machine under any scheduler seed,
   produces exactly FileModel.enc, reports success and leaves its input as it was (or one of the two budget messages).
   Assembly of: first set-up step (RefineE2EfSetup1 + prepare_IV: RefineE2EfHashA3), second set-up step (RefineE2EfSetup2: machine part;
   RefineE2EfSetup2A.gi_if_ok, RefineE2EfSetup2PA.pa_rest_ok: the sequential stretches), the concurrent phase for every schedule (RefineE2EfRun /
   WOk / Enc), the tear-down (RefineE2EfTail, hmac::writeFileHmac: RefineE2EfHashB3) and the file-level model (FileConcGlue, FileProofsDec).
   execute_decrypt (accepting path), CLOSED as well: RefineE2EfDecFinal2.decrypt_modulo_verify + RefineE2EfDecD1.dec_verify_ok. *)
From Coq Require Import ZArith NArith List String Bool.
From Wencry Require Import Bytes AesModel ModesModel HashModel FileModel FileProps MiniC MiniCRun MiniCLemmas MiniCConc SrcRun SrcRun2 SrcRun5.
From Wencry Require Import RefineE2EfLay RefineE2EfEncDefs RefineE2EfHashSpec RefineE2EfHashB3 RefineE2EfSetup2Spec.
From Wencry Require RefineE2EfSetup2A RefineE2EfSetup2PA RefineE2EfFinal4 RefineE2EfDecFinal2 RefineE2EfDecD1.
Import ListNotations.
Local Open Scope N_scope.

Lemma second_step_seq_ok : forall c hbuf T P key seed cm hm ke, RefineE2EfFinal4.second_step_seq_spec c hbuf T P key seed cm hm ke.
Proof.
  intros c hbuf T P key seed cm hm ke EP Hc32 Hke h n ivo extra pextra Hn Hivo Hty Hlen Hiv Hext Hpext Hdis Hnsz Hnal. split.
  - exact (RefineE2EfSetup2A.gi_if_ok c hbuf T P key seed cm hm h n extra pextra ke EP Hn Hext Hpext Hnsz Hnal).
  - exact (RefineE2EfSetup2PA.pa_rest_ok c hbuf T P key seed cm hm h n extra pextra ke ivo EP Hke Hn Hivo Hty Hlen Hiv Hext Hpext Hdis Hnsz Hnal).
Qed.

Theorem SRC_execute_encrypt_is_model_proof : forall c hbuf T P key seed cm hm rnd,
  enc_params c hbuf T P key seed cm hm ->
  forallb (fun b => (0 <? b) && (b <? 256)) seed = true ->
  N.of_nat (length seed) < 2 ^ 32 ->
  N.of_nat (16 * c) < 2 ^ 32 -> N.of_nat (64 * hbuf) < 2 ^ 32 ->
  match src_encrypt_file c hbuf T cm hm P key seed rnd with
  | SOk (b, o, i, _) => b = true /\ enc c hbuf T P key cm hm seed = FileModel.Ok o /\ i = P
  | SErr w => w = "out of fuel"%string \/ w = "step bound reached"%string
  end.
Proof.
  intros c hbuf T P key seed cm hm rnd EP Hseed HsL Hc32 Hh32.
  assert (Hke : exists ke, create true cm = Some ke).
  { destruct EP as [_ _ _ _ _ _ Hcm _ _ _ _]. unfold create.
    assert (E : cm = 0 \/ cm = 1 \/ cm = 2 \/ cm = 3 \/ cm = 4) by lia.
    destruct E as [-> |[-> |[-> |[-> | ->]]]]; eexists; reflexivity. }
  destruct Hke as [ke Hke].
  exact (RefineE2EfFinal4.encrypt_modulo_second_step_seq c hbuf T P key seed cm hm EP Hseed HsL Hc32 Hh32 ke Hke
           (second_step_seq_ok c hbuf T P key seed cm hm ke) rnd).
Qed.
Print Assumptions SRC_execute_encrypt_is_model_proof.

Theorem SRC_execute_decrypt_is_model_on_accepted_files_proof : forall c hbuf T F key rnd out,
  (1 <= c)%nat -> (1 <= hbuf)%nat -> N.of_nat (16 * c) < 2 ^ 32 -> N.of_nat (64 * hbuf) < 2 ^ 32 -> (1 <= T <= 16)%nat ->
  block16 key -> bytesb F = true -> N.of_nat (length F) < 2 ^ 36 ->
  dec c hbuf T F key = FileModel.Ok out ->
  match src_decrypt_file c hbuf T F key rnd with
  | SOk (b, o, i, _) => b = true /\ o = out /\ i = F
  | SErr w => w = "out of fuel"%string \/ w = "step bound reached"%string
  end.
Proof.
  intros c hbuf T F key rnd out Hc Hh Hc32 Hh32 HT Hkey HF HL Hdec.
  exact (RefineE2EfDecFinal2.decrypt_modulo_verify RefineE2EfDecD1.dec_verify_ok c hbuf T F key rnd out Hc Hh Hc32 Hh32 HT Hkey HF HL Hdec).
Qed.
Print Assumptions SRC_execute_decrypt_is_model_on_accepted_files_proof.
