(* Stage 5, corollary: the SOURCE-LEVEL ROUND TRIP.  The translated execute_encrypt, run on the thread machine under any scheduler seed, writes a file
   that the translated execute_decrypt (any other seed) accepts and turns back into the plaintext, leaving the file as it was; and the translated
   execute_verify accepts that file.  From theorems 1 and 2 (RefineE2Ef), C01 (dec (enc P) = P, ver (enc P) = true), C02 (the length of the file) and
   the byte-ness of the encrypted file (header, HMAC tag, IV chain and AES blocks are bytes). *)
From Coq Require Import NArith ZArith List Bool Arith Lia PeanoNat ZifyNat ZifyN ZifyBool String.
From Wencry Require Import Bytes AesSpec AesModel ModesSpec ModesModel HashSpec HashModel FileSpec FileModel FileProps MiniC MiniCRun MiniCConc SrcRun SrcRun2 SrcRun5.
From Wencry Require ModesProofs AesProofs FileProofsDec FileProofsEnc FileConcGlue RefineE2E RefineE2Ef RefineE2EfEnc2.
Import ListNotations.
Local Open Scope nat_scope.

Notation bytes := ModesProofs.bytes.

Lemma bytes_le32 : forall w, bytes (le32_bytes w).
Proof. intros w. unfold le32_bytes. apply ModesProofs.bytes_rev. apply FileProofsEnc.bytes_be32_bytes. Qed.
Lemma bytes_flat : forall (f : N -> list N) l, (forall w, bytes (f w)) -> bytes (flat_map f l).
Proof. intros f l H. induction l as [|w l IH]; cbn [flat_map]; [constructor|]. apply FileProofsEnc.bytes_app. split; [apply H|exact IH]. Qed.

Local Transparent hmac_model getStringHash.
Lemma hmac_model_bytes : forall hbuf hm key msg t, hmac_model hbuf hm key msg = Some t -> bytes t.
Proof.
  intros hbuf hm key msg t H. unfold hmac_model in H.
  destruct (get_hasher hm) as [a|] eqn:Ea; [|discriminate H].
  destruct (getFileHash hbuf a _ msg) as [inner|]; [|discriminate H]. injection H as <-.
  unfold getStringHash. unfold get_hasher in Ea.
  destruct hm as [|p].
  - injection Ea as <-. change (ha_out alg_sha1) with (flat_map be32_bytes). apply bytes_flat. apply FileProofsEnc.bytes_be32_bytes.
  - destruct p as [p|p|].
    + destruct p; discriminate Ea.
    + destruct p as [p|p|]; try discriminate Ea. injection Ea as <-.
      change (ha_out alg_sha256) with (flat_map be32_bytes). apply bytes_flat. apply FileProofsEnc.bytes_be32_bytes.
    + injection Ea as <-. change (ha_out alg_md5) with (flat_map le32_bytes). apply bytes_flat. apply bytes_le32.
Qed.
Local Opaque hmac_model getStringHash.

Import FileProofsDec FileProofsEnc ModesProofs AesProofs.
From Wencry Require Import HashProofs HmacProofs PipeConc PipeProps PipeProofs.
From Wencry.Gen Require Layout.

(* the encrypted file is a list of bytes *)
Lemma enc_bytes : forall c hbuf T P key seed cm hm F,
  enc_params c hbuf T P key seed cm hm -> enc c hbuf T P key cm hm seed = FileModel.Ok F -> bytesb F = true.
Proof.
  intros c hbuf T P key seed cm hm F0 [Hc Hh HT HP Hkey Hseed Hcm Hhm HsP HsT HsS] HF0.
  destruct (create_kpair cm Hcm) as [ke [kd [Hke [Hkd Hk]]]].
  destruct (iv_chain_props seed T HT) as [Hivl Hivb].
  assert (Hiv16 : block16 (firstn 16 (iv_chain seed T))).
  { apply block16_iff. split; [rewrite firstn_length; lia|apply bytes_firstn_skipn; exact Hivb]. }
  apply bytesb_bytes in HP.
  assert (Hfuel : length P < sum c * S (length P)).
  { rewrite sum_eq. nia. }
  destruct (pipe_roundtrip (aes_enc key) (aes_dec key)
              (fun b Hb => C09_decrypt_inverts_encrypt_proof key b Hkey Hb)
              (fun b Hb => proj1 (C09_outputs_are_blocks_proof key b Hkey Hb))
              ke kd T c Hk HT Hc (length P) P Hfuel HP 0
              (repeat (firstn 16 (iv_chain seed T)) T) (repeat_length _ _)
              (Forall_repeat _ _ _ _ Hiv16)) as [body [B1 [B2 [B3 B4]]]].
  assert (Hhdr : file_header cm hm (iv_chain seed T) T ++ body =
                 (magic_bytes ++ [cm; hm]) ++ zeros 38 ++ (iv_chain seed T ++ body)).
  { unfold file_header. change (N.to_nat Layout.PADDING) with 38.
    rewrite (firstn_all2 (iv_chain seed T)) by lia. rewrite <- !app_assoc. reflexivity. }
  set (ivs := iv_chain seed T) in *.
  set (A := magic_bytes ++ [cm; hm]) in *.
  assert (HA : length A = 10) by (unfold A; rewrite app_length, magic_length; reflexivity).
  assert (Hmsg : skipn 48 (file_header cm hm ivs T ++ body) = ivs ++ body).
  { rewrite Hhdr. rewrite app_assoc. apply skipn_app_exact.
    rewrite app_length, HA, zeros_length. reflexivity. }
  assert (Hmac : hmac_model hbuf hm key (ivs ++ body) =
                 Some (hmac_spec (hash_spec hm) key (ivs ++ body))).
  { apply C08_tag_is_rfc2104_hmac_proof; try assumption.
    - apply bytesb_bytes. apply FileProofsEnc.bytes_app. split; assumption.
    - rewrite app_length, Hivl, B3, pow64. rewrite pow56 in HsP. lia. }
  set (tag := hmac_spec (hash_spec hm) key (ivs ++ body)) in *.
  assert (Htl : length tag <= 32) by exact (FileProofsDec.hlen_le _ _ _ _ _ Hmac).
  set (F := patch (file_header cm hm ivs T ++ body) hmac_mark tag).
  assert (HF : F = A ++ tag ++ zeros (38 - length tag) ++ (ivs ++ body)).
  { unfold F. rewrite Hhdr. change hmac_mark with 10. rewrite <- HA.
    apply patch_in_zeros. lia. }
  assert (Henc : enc c hbuf T P key cm hm seed = FileModel.Ok F).
  { apply (enc_ok c hbuf T P key cm hm seed ke body tag Hke).
    - exact B1.
    - change iv_mark with 48. fold ivs. rewrite Hmsg. exact Hmac. }
  rewrite Henc in HF0. injection HF0 as <-.
  apply bytesb_bytes. rewrite HF.
  apply FileProofsEnc.bytes_app. split.
  - unfold A. apply FileProofsEnc.bytes_app. split; [exact RefineE2EfEnc2.magic_bytes_ok|]. repeat constructor; lia.
  - apply FileProofsEnc.bytes_app. split; [exact (hmac_model_bytes _ _ _ _ _ Hmac)|].
    apply FileProofsEnc.bytes_app. split; [apply FileProofsEnc.bytes_repeat; lia|]. apply FileProofsEnc.bytes_app. split; assumption.
Qed.

Local Open Scope N_scope.

Lemma wenc_length_bound : forall T n, (T <= 16)%nat -> N.of_nat n + 1000 < 2 ^ 36 -> N.of_nat (wenc_length T n) < 2 ^ 36.
Proof.
  intros T n HT Hn. unfold wenc_length.
  assert (16 * (n / 16) <= n)%nat by (apply Nat.mul_div_le; lia).
  change (2 ^ 36) with 68719476736 in *. lia.
Qed.

Theorem SRC_roundtrip_proof : forall c hbuf T P key seed cm hm rnd rnd',
  enc_params c hbuf T P key seed cm hm ->
  forallb (fun b => (0 <? b) && (b <? 256)) seed = true ->
  N.of_nat (length seed) < 2 ^ 32 ->
  N.of_nat (16 * c) < 2 ^ 32 -> N.of_nat (64 * hbuf) < 2 ^ 32 ->
  N.of_nat (length P) + 1000 < 2 ^ 36 ->
  match src_encrypt_file c hbuf T cm hm P key seed rnd with
  | SOk (_, o, _, _) =>
      match src_decrypt_file c hbuf T o key rnd' with
      | SOk (b, o', i', _) => b = true /\ o' = P /\ i' = o
      | SErr w => w = "out of fuel"%string \/ w = "step bound reached"%string
      end
  | SErr w => w = "out of fuel"%string \/ w = "step bound reached"%string
  end.
Proof.
  intros c hbuf T P key seed cm hm rnd rnd' EP Hseed HsL Hc32 Hh32 HPl.
  pose proof (RefineE2Ef.SRC_execute_encrypt_is_model_proof c hbuf T P key seed cm hm rnd EP Hseed HsL Hc32 Hh32) as H1.
  destruct (src_encrypt_file c hbuf T cm hm P key seed rnd) as [[[[b o] i] k]|w]; [|exact H1].
  destruct H1 as (_ & Henc & _).
  destruct (FileProofsDec.C01_roundtrip_proof c hbuf T P key seed cm hm EP) as (F & HF & Hdec & _).
  rewrite Henc in HF. injection HF as <-.
  destruct (FileProofsEnc.C02_encrypted_file_is_documented_format_proof c hbuf T P key seed cm hm EP) as (F2 & HF2 & _ & Hlen).
  rewrite Henc in HF2. injection HF2 as <-.
  pose proof (enc_bytes c hbuf T P key seed cm hm o EP Henc) as Hb.
  pose proof EP as [Hc Hh HT HP Hkey Hsd Hcm Hhm HsP HsT HsS].
  apply (RefineE2Ef.SRC_execute_decrypt_is_model_on_accepted_files_proof c hbuf T o key rnd' P Hc Hh Hc32 Hh32 ltac:(lia) Hkey Hb); [|exact Hdec].
  rewrite Hlen. apply wenc_length_bound; [exact HsT|exact HPl].
Qed.
Print Assumptions SRC_roundtrip_proof.

(* the translated execute_verify accepts the file written by the translated execute_encrypt *)
Theorem SRC_encrypted_file_verifies_proof : forall c hbuf T P key seed cm hm rnd rnd',
  enc_params c hbuf T P key seed cm hm ->
  forallb (fun b => (0 <? b) && (b <? 256)) seed = true ->
  N.of_nat (length seed) < 2 ^ 32 ->
  N.of_nat (16 * c) < 2 ^ 32 -> N.of_nat (64 * hbuf) < 2 ^ 32 ->
  N.of_nat (length P) + 1000 < 2 ^ 56 ->
  match src_encrypt_file c hbuf T cm hm P key seed rnd with
  | SOk (_, o, _, _) =>
      match src_verify_file c hbuf T o key rnd' with
      | SOk (b, o', i', _) => b = true /\ o' = [] /\ i' = o
      | SErr w => w = "out of fuel"%string
      end
  | SErr w => w = "out of fuel"%string \/ w = "step bound reached"%string
  end.
Proof.
  intros c hbuf T P key seed cm hm rnd rnd' EP Hseed HsL Hc32 Hh32 HPl.
  pose proof (RefineE2Ef.SRC_execute_encrypt_is_model_proof c hbuf T P key seed cm hm rnd EP Hseed HsL Hc32 Hh32) as H1.
  destruct (src_encrypt_file c hbuf T cm hm P key seed rnd) as [[[[b o] i] k]|w]; [|exact H1].
  destruct H1 as (_ & Henc & _).
  destruct (FileProofsDec.C01_roundtrip_proof c hbuf T P key seed cm hm EP) as (F & HF & _ & Hver).
  rewrite Henc in HF. injection HF as <-.
  destruct (FileProofsEnc.C02_encrypted_file_is_documented_format_proof c hbuf T P key seed cm hm EP) as (F2 & HF2 & _ & Hlen).
  rewrite Henc in HF2. injection HF2 as <-.
  pose proof (enc_bytes c hbuf T P key seed cm hm o EP Henc) as Hb.
  pose proof EP as [Hc Hh HT HP Hkey Hsd Hcm Hhm HsP HsT HsS].
  assert (HL56 : N.of_nat (length o) < 2 ^ 56).
  { rewrite Hlen. unfold wenc_length. assert (16 * (length P / 16) <= length P)%nat by (apply Nat.mul_div_le; lia).
    change (2 ^ 56) with 72057594037927936 in *. lia. }
  pose proof (RefineE2E.SRC_execute_verify_is_model_proof c hbuf T o key rnd' Hc Hh Hh32 ltac:(lia) Hkey Hb HL56) as HV.
  destruct (src_verify_file c hbuf T o key rnd') as [[[[b2 o2] i2] k2]|w2]; [|exact HV].
  destruct HV as (code & Hcode & -> & -> & ->).
  unfold ver in Hver. rewrite Hcode in Hver. injection Hver as ->. repeat split.
Qed.
Print Assumptions SRC_encrypted_file_verifies_proof.
