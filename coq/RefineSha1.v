(* sha1.cpp (translated: Gen/Src_sha1.v) refines the model's alg_sha1: the four method specifications of
   RefineHashDefs.class_spec (VERSION 2 of the contract).
   Helper files: RefineSha1Lib (execution rules, Z/N bridge), RefineSha1A (addtotal), RefineSha1B (getwdata),
   RefineSha1C (getHash(block)), RefineSha1D (memory predicates, statement-level calls), RefineSha1E (getHash(input,n)). *)
From Coq Require Import ZArith NArith List String Bool Lia Ascii.
From Wencry Require Import Bytes HashModel MiniC MiniCLemmas MiniCRun SrcRun RefineHashDefs
  RefineSha1Lib RefineSha1A RefineSha1B RefineSha1C RefineSha1D RefineSha1E.
From Wencry.Gen Require Import HashConst.
From Wencry.Gen Require Src_sha1.
Import ListNotations.
Local Open Scope string_scope.
Local Open Scope list_scope.
Local Open Scope Z_scope.

Definition F_sha1hash : nat := 800.

(* ---- names ---- *)
Lemma owned_heap : forall n, hash_owned (heap_name n) = true.
Proof.
  intros n. unfold hash_owned. apply orb_true_iff. right. unfold is_prefix, heap_name. cbn [String.prefix].
  destruct (ascii_dec "#" "#") as [_|Q]; [|congruence]. destruct (nat_string n); reflexivity.
Qed.
Lemma passable_ne : forall s o, passable s o ->
  o <> "s" /\ o <> "w" /\ o <> "h" /\ o <> "totalsize" /\ o <> "%temph" /\ o <> heap_name (fresh s).
Proof.
  intros s o [Hn|[n [Hlt ->]]].
  - repeat split; intro Q; subst o; try discriminate Hn. rewrite owned_heap in Hn. discriminate Hn.
  - repeat split; try (intro Q; discriminate Q). intro Q. apply heap_name_inj in Q. lia.
Qed.
Lemma not_owned_ne : forall k, hash_owned k = false ->
  k <> "s" /\ k <> "w" /\ k <> "h" /\ k <> "totalsize" /\ k <> "%temph" /\ forall n, k <> heap_name n.
Proof.
  intros k Hn. repeat split; try (intro Q; subst k; discriminate Hn).
  intros n Q. subst k. rewrite owned_heap in Hn. discriminate Hn.
Qed.
Lemma old_heap_ne : forall n fr, (n < fr)%nat ->
  heap_name n <> "s" /\ heap_name n <> "w" /\ heap_name n <> "h" /\ heap_name n <> "totalsize" /\ heap_name n <> "%temph" /\
  heap_name n <> heap_name fr.
Proof.
  intros n fr Hlt. repeat split; try (intro Q; discriminate Q). intro Q. apply heap_name_inj in Q. lia.
Qed.

Lemma call_of_body : forall prog vt fuel F f pfx vs s fn l0 s1,
  lget prog f = Some fn -> bind_params (f_params fn) vs = Ok l0 ->
  exec prog vt F (f_body fn) {| mem := mem s; loc := l0; pre := pfx; files := files s; ptrs := ptrs s; fresh := fresh s |} = Ok (Normal, s1) ->
  (F <= fuel)%nat ->
  call prog vt fuel f pfx vs s =
  Ok (None, {| mem := mem s1; loc := loc s; pre := pre s; files := files s1; ptrs := ptrs s1; fresh := fresh s1 |}).
Proof.
  intros prog vt fuel F f pfx vs s fn l0 s1 Hf Hb He Hle. unfold call. rewrite Hf, Hb. cbn [bind].
  rewrite (exec_mono prog vt _ _ _ _ He fuel Hle). reflexivity.
Qed.


(* ---- list lemmas for getres ---- *)
Lemma upd_range_snoc : forall vs n v l, upd_range n (vs ++ [v]) l = upd_nth (n + List.length vs) v (upd_range n vs l).
Proof.
  induction vs as [|a vs IH]; intros n v l; cbn [app upd_range List.length].
  - rewrite Nat.add_0_r. reflexivity.
  - rewrite IH. f_equal. lia.
Qed.
Lemma skipn_skipn_add : forall (A : Type) (l : list A) m n, skipn n (skipn m l) = skipn (m + n) l.
Proof. induction l as [|x l IH]; intros [|m] n; cbn [skipn Nat.add]; auto using skipn_nil. Qed.
Lemma upd_range_split : forall vs n l, (n + List.length vs <= List.length l)%nat ->
  upd_range n vs l = firstn n l ++ vs ++ skipn (n + List.length vs) l.
Proof.
  intros vs n l H. rewrite <- (firstn_skipn n l) at 1.
  assert (Ln : List.length (firstn n l) = n) by (rewrite firstn_length; lia).
  rewrite <- Ln at 1. rewrite upd_range_app by (rewrite skipn_length; lia).
  rewrite skipn_skipn_add. reflexivity.
Qed.
Lemma nth_firstn_lt : forall (A : Type) (l : list A) n i d, (i < n)%nat -> nth i (firstn n l) d = nth i l d.
Proof.
  induction l as [|x l IH]; intros [|n] [|i] d H; cbn; auto; try lia. apply IH. lia.
Qed.
Lemma nth_skipn_add : forall (A : Type) (l : list A) n i d, nth i (skipn n l) d = nth (n + i) l d.
Proof.
  induction l as [|x l IH]; intros [|n] i d; cbn; auto. destruct i; reflexivity.
Qed.
Lemma wrap_closed : forall z, wrap U32 z = Z.of_N (Z.to_N (wrap U32 z)).
Proof. intros z. rewrite Z2N.id; [reflexivity|]. rewrite wrapU32. apply Z.mod_pos_bound. lia. Qed.
Lemma store_u8_gen : forall cells p z, 0 <= p < Z.of_nat (List.length cells) ->
  store_obj {| o_ty := U8; o_cells := cells |} U8 p z =
  Ok {| o_ty := U8; o_cells := upd_nth (Z.to_nat p) (wrap U8 z) cells |}.
Proof.
  intros cells p z Hp. replace p with (0 + p * 1) at 1 by lia. apply store_u8_at. exact Hp.
Qed.
Lemma length_flat_be32 : forall H, List.length (flat_map be32_bytes H) = (4 * List.length H)%nat.
Proof. induction H as [|h H IH]; cbn [flat_map List.length]; [reflexivity|]. rewrite app_length, IH. cbn. lia. Qed.

Lemma getres_cells_step : forall (D : list N) cells offn k v, (k < List.length D)%nat -> v = Z.of_N (nth k D 0%N) ->
  upd_nth (offn + k) v (upd_range offn (map Z.of_N (firstn k D)) cells) = upd_range offn (map Z.of_N (firstn (S k) D)) cells.
Proof.
  intros D cells offn k v Hk ->. rewrite (firstn_S_nth _ D k 0%N Hk), map_app. cbn [map].
  rewrite upd_range_snoc, map_length, firstn_length, Nat.min_l by lia. reflexivity.
Qed.
Lemma firstn_app_len : forall (l1 l2 : list Z), firstn (List.length l1) (l1 ++ l2) = l1.
Proof. induction l1 as [|x l1 IH]; intros l2; cbn; [reflexivity|]. now rewrite IH. Qed.
Lemma skipn_app_len : forall (l1 l2 : list Z), skipn (List.length l1) (l1 ++ l2) = l2.
Proof. induction l1 as [|x l1 IH]; intros l2; cbn; auto. Qed.
Lemma nth_upd_range_out : forall vs n l i, (n + List.length vs <= List.length l)%nat -> (i < n \/ n + List.length vs <= i)%nat ->
  nth i (upd_range n vs l) 0 = nth i l 0.
Proof.
  intros vs n l i Hl Hi. rewrite upd_range_split by exact Hl.
  assert (Ln : List.length (firstn n l) = n) by (rewrite firstn_length; lia).
  destruct Hi as [Hi|Hi].
  - rewrite app_nth1 by lia. apply nth_firstn_lt. exact Hi.
  - rewrite app_nth2 by lia. rewrite app_nth2 by lia. rewrite nth_skipn_add. f_equal. lia.
Qed.

Section Spec.
Variable vt : list (string * string).
Hypothesis Hvt : lget vt "" = Some "sha1hash".

Lemma getHash_block_sha1 : forall st blk,
  getHash_block alg_sha1 st blk = {| hs_h := m_sha1_block (hs_h st) blk; hs_total := tot_add (hs_total st) 64 |}.
Proof. reflexivity. Qed.

(* ---- getHash(block) ---- *)
Lemma sha1_block_spec : spec_block "sha1hash" alg_sha1 Src_sha1.objects_sha1hash Src_sha1.globals vt F_sha1hash.
Proof.
  intros s st fuel o off blk Hf Hpre Hok Hpass Hin Hbl Hbb.
  destruct s as [m l p fs ps fr]. cbn [pre] in Hpre. subst p. cbn [mem] in *.
  destruct (passable_ne _ _ Hpass) as [O1 [O2 [O3 [O4 [O5 O6]]]]].
  pose proof (hok_mem _ _ Hok) as Hm.
  destruct (getHash1_exec vt m fs ps fr o off blk (hs_h st) (hs_total st) Hm Hin Hbl Hbb O1 O2 O3 O4 O5) as [l' E].
  eexists. split.
  { change ("sha1hash" ++ "::getHash/1")%string with "sha1hash::getHash/1".
    eapply call_of_body with (F := 300%nat); [apply lk_getHash1 | reflexivity | exact E | unfold F_sha1hash in Hf; lia]. }
  cbn [mem loc pre files ptrs fresh].
  split; [|split; [|split]].
  - rewrite getHash_block_sha1. eapply mem_hok; [exact Hok | apply gh1_mem; assumption | ].
    apply gh1_other; intro Q; discriminate Q.
  - intros k Hk. destruct (not_owned_ne k Hk) as [K1 [K2 [K3 [K4 [K5 _]]]]]. apply gh1_other; assumption.
  - intros n Hn. cbn [fresh] in Hn. destruct (old_heap_ne n fr Hn) as [K1 [K2 [K3 [K4 [K5 _]]]]]. cbn [mem]. apply gh1_other; assumption.
  - repeat split; cbn [loc pre files ptrs fresh]; auto.
Qed.

(* ---- getHash(input, n) ---- *)
Lemma sha1_final_spec : spec_final "sha1hash" alg_sha1 Src_sha1.objects_sha1hash Src_sha1.globals vt F_sha1hash.
Proof.
  intros s st fuel o off inp Hf Hpre Hok Hpass Hin Hfl Hbb.
  destruct s as [m l p fs ps fr]. cbn [pre] in Hpre. subst p. cbn [mem] in *.
  destruct (passable_ne _ _ Hpass) as [O1 [O2 [O3 [O4 [O5 O6]]]]]. cbn [fresh] in O6.
  pose proof (hok_mem _ _ Hok) as Hm.
  destruct (getHash2_body vt Hvt m fs ps fr o off inp st Hm Hin Hfl Hbb O1 O2 O3 O4 O5 O6) as [s2 [E [l' [m' [-> [Hm' Hfr]]]]]].
  eexists. split.
  { change ("sha1hash" ++ "::getHash/2")%string with "sha1hash::getHash/2".
    eapply call_of_body with (F := 700%nat); [apply lk_getHash2 | reflexivity | exact E | unfold F_sha1hash in Hf; lia]. }
  cbn [mem loc pre files ptrs fresh].
  split; [|split; [|split]].
  - destruct (getHash_final alg_sha1 st inp) as [Hf' Tf'] eqn:EF. cbn [hs_h hs_total] in Hm'.
    eapply mem_hok; [exact Hok | exact Hm' | ].
    apply Hfr; intro Q; discriminate Q.
  - intros k Hk. destruct (not_owned_ne k Hk) as [K1 [K2 [K3 [K4 [K5 K6]]]]]. apply Hfr; auto.
  - intros n Hn. cbn [fresh] in Hn. destruct (old_heap_ne n fr Hn) as [K1 [K2 [K3 [K4 [K5 K6]]]]]. cbn [mem]. apply Hfr; assumption.
  - repeat split; cbn [loc pre files ptrs fresh]; auto.
Qed.

(* ---- reset() ---- *)
Lemma sha1_reset_spec : spec_reset "sha1hash" alg_sha1 Src_sha1.objects_sha1hash Src_sha1.globals vt F_sha1hash.
Proof.
  intros s st fuel Hf Hpre Hok.
  destruct s as [m l p fs ps fr]. cbn [pre] in Hpre. subst p. cbn [mem] in *.
  pose proof (hok_mem _ _ Hok) as Hm.
  destruct Hm as [Xs [Xw [Eh [HL [HU [Et HT]]]]]].
  destruct (length5 _ HL) as [h0 [h1 [h2 [h3 [h4 EH]]]]]. rewrite EH in Eh.
  assert (E : exists m', exec hash_prog vt 20 (f_body Src_sha1.f_sha1hash_reset_0) (ST m [] fs ps fr) = Ok (Normal, ST m' [] fs ps fr) /\
              m' = mset (mset m "h" (u32_obj sha1_iv)) "totalsize" (u64_cell 0)).
  { eexists. split.
    - cbn [f_body Src_sha1.f_sha1hash_reset_0].
      eapply seq_ok with (f1 := 1%nat) (f2 := 10%nat); [ | | lia | lia].
      { eapply store_ok; [ev | ev | mg | apply store_u32; [cbn [List.length]; lia | apply wrap_closed] | lia]. }
      nrm; zt; cbn [updN].
      eapply seq_ok with (f1 := 1%nat) (f2 := 9%nat); [ | | lia | lia].
      { eapply store_ok; [ev | ev | mg | apply store_u32; [cbn [List.length]; lia | apply wrap_closed] | lia]. }
      nrm; rewrite ?mset_mset_same; zt; cbn [updN].
      eapply seq_ok with (f1 := 1%nat) (f2 := 8%nat); [ | | lia | lia].
      { eapply store_ok; [ev | ev | mg | apply store_u32; [cbn [List.length]; lia | apply wrap_closed] | lia]. }
      nrm; rewrite ?mset_mset_same; zt; cbn [updN].
      eapply seq_ok with (f1 := 1%nat) (f2 := 7%nat); [ | | lia | lia].
      { eapply store_ok; [ev | ev | mg | apply store_u32; [cbn [List.length]; lia | apply wrap_closed] | lia]. }
      nrm; rewrite ?mset_mset_same; zt; cbn [updN].
      eapply seq_ok with (f1 := 1%nat) (f2 := 6%nat); [ | | lia | lia].
      { eapply store_ok; [ev | ev | mg | apply store_u32; [cbn [List.length]; lia | apply wrap_closed] | lia]. }
      nrm; rewrite ?mset_mset_same; zt; cbn [updN].
      eapply store_ok; [ev | ev | mg | apply (store_u64 _ _ 0%N); reflexivity | lia].
    - nrm. reflexivity. }
  destruct E as [m' [E Em']].
  eexists. split.
  { change ("sha1hash" ++ "::reset/0")%string with "sha1hash::reset/0".
    eapply call_of_body with (F := 20%nat); [apply lk_reset | reflexivity | exact E | unfold F_sha1hash in Hf; lia]. }
  cbn [mem loc pre files ptrs fresh]. subst m'.
  split; [|split; [|split]].
  - change (reset alg_sha1) with {| hs_h := sha1_iv; hs_total := 0 |}.
    eapply mem_hok; [exact Hok | | ].
    + unfold sha1_mem. rewrite !mget_mset_other by (intro Q; discriminate Q).
      split; [exact Xs|]. split; [exact Xw|]. split; [rewrite mget_mset_same; reflexivity|].
      split; [reflexivity|]. split; [repeat constructor|]. split; [apply mget_mset_same|reflexivity].
    + rewrite !mget_mset_other by (intro Q; discriminate Q). reflexivity.
  - intros k Hk. destruct (not_owned_ne k Hk) as [K1 [K2 [K3 [K4 [K5 _]]]]].
    rewrite !mget_mset_other by (apply not_eq_sym; assumption). reflexivity.
  - intros n Hn. cbn [fresh] in Hn. destruct (old_heap_ne n fr Hn) as [K1 [K2 [K3 [K4 [K5 _]]]]]. cbn [mem].
    rewrite !mget_mset_other by (apply not_eq_sym; assumption). reflexivity.
  - repeat split; cbn [loc pre files ptrs fresh]; auto.
Qed.

(* ---- getres(out) ---- *)
Definition InvG (m : memory) (fs : list (string * cfile)) (ps : list (string * value)) (fr : nat) (o : string) (off : Z)
  (cells : list Z) (D : list N) (k : nat) (s : state) : Prop :=
  exists l, s = ST (mset m o {| o_ty := U8; o_cells := upd_range (Z.to_nat off) (map Z.of_N (firstn k D)) cells |}) l fs ps fr /\
            lget l "i" = Some (VInt (Z.of_nat k)) /\ lget l "hashout" = Some (VPtr o off).

Lemma sha1_getres_spec : spec_getres "sha1hash" alg_sha1 Src_sha1.objects_sha1hash Src_sha1.globals vt F_sha1hash.
Proof.
  intros s st fuel o off old Hf Hpre Hok Hpass Hin Hol.
  destruct s as [m l p fs ps fr]. cbn [pre] in Hpre. subst p. cbn [mem] in *.
  destruct (passable_ne _ _ Hpass) as [O1 [O2 [O3 [O4 [O5 O6]]]]].
  pose proof (hok_mem _ _ Hok) as Hm.
  destruct Hm as [Xs [Xw [Eh [HL [HU [Et HT]]]]]].
  destruct (length5 _ HL) as [h0 [h1 [h2 [h3 [h4 EH]]]]]. rewrite EH in Eh, HU.
  assert (Uh : u32 h0 /\ u32 h1 /\ u32 h2 /\ u32 h3 /\ u32 h4).
  { repeat match goal with X : Forall _ (_ :: _) |- _ => inversion X; clear X; subst end. auto. }
  destruct Uh as [Uh0 [Uh1 [Uh2 [Uh3 Uh4]]]].
  destruct Hin as [ob [Hob [Hobt [Hoff [_ Hlen']]]]]. change (ha_hlen alg_sha1) with 20%nat in Hol. rewrite Hol in Hlen'.
  destruct ob as [oty cells]. cbn [o_ty o_cells] in Hobt, Hlen'. subst oty.
  set (D := flat_map be32_bytes [h0; h1; h2; h3; h4]).
  assert (LD : List.length D = 20%nat) by reflexivity.
  assert (W8 : forall z, wrap U8 (wrap U8 z) = wrap U8 z) by (intro z; rewrite !wrapU8; apply Z.mod_mod; lia).
  pose (Inv := InvG m fs ps fr o off cells D).
  assert (ITG : forall c b stp, Src_sha1.f_sha1hash_getres_1 = {| f_params := ["hashout"]; f_body := SSeq (SSet "i" (EConst 0)) (SLoop c b stp) |} ->
     forall k s, (k < 20)%nat -> Inv k s ->
     exists x, eval s c = Ok (VInt x) /\ x <> 0 /\
     exists s1' s2', exec hash_prog vt 5 b s = Ok (Normal, s1') /\ exec hash_prog vt 5 stp s1' = Ok (Normal, s2') /\ Inv (S k) s2').
  { intros c b stp Eq. injection Eq as <- <- <-. intros k s Hk [l0 [-> [Hi Ho]]].
    eexists. split; [ev|]. split.
    { destruct (Z.ltb_spec (Z.of_nat k) 20); lia. }
    do 20 (destruct k as [|k];
      [ cbn [Z.of_nat Pos.of_succ_nat Pos.succ] in Hi;
        eexists; eexists; split; [|split];
        [ eapply store_ok; [ev | ev; ldt | mg | apply store_u8_gen | lia]; rewrite upd_range_length; lia
        | nrm; eapply set_ok; [ev|lia]
        | nrm; rewrite mset_mset_same; unfold Inv;
          match goal with |- InvG _ _ _ _ _ _ _ _ (S ?K) (ST (mset _ _ {| o_ty := _; o_cells := upd_nth ?a ?b ?c |}) _ _ _ _) =>
            assert (EC : upd_nth a b c = upd_range (Z.to_nat off) (map Z.of_N (firstn (S K) D)) cells) end;
          [ match goal with |- upd_nth ?a _ _ = upd_range _ (map _ (firstn (S ?K) _)) _ =>
              replace a with (Z.to_nat off + K)%nat by lia end;
            apply getres_cells_step; [rewrite LD; lia|];
            rewrite W8; zt; cbn [nth];
            match goal with
            | |- context [Z.shiftr (Z.of_N ?h) (Zpos ?p)] => change (Z.shiftr (Z.of_N h) (Zpos p)) with (Z.shiftr (Z.of_N h) (Z.of_N (Npos p)))
            | |- context [Z.shiftr (Z.of_N ?h) 0] => change (Z.shiftr (Z.of_N h) 0) with (Z.shiftr (Z.of_N h) (Z.of_N 0))
            end;
            rewrite zn_byte; reflexivity
          | rewrite EC; unfold InvG; eexists; split; [reflexivity | split; lg] ] ]
      | ]).
    lia. }
  specialize (ITG _ _ _ eq_refl).
  match type of ITG with forall k s, _ -> _ -> exists x, eval s ?c = _ /\ _ /\ exists s1' s2', _ ?b _ = _ /\ _ ?stp _ = _ /\ _ =>
    destruct (loop_inv hash_prog vt c b stp Inv 20 5 ITG) with (d := 20%nat) (k := 0%nat)
      (s := ST m [("hashout", VPtr o off); ("i", VInt 0)] fs ps fr) as [sA [EA [lA [-> [HiA HoA]]]]] end.
  { intros s [l0 [-> [Hi _]]]. ev. }
  { reflexivity. }
  { exists [("hashout", VPtr o off); ("i", VInt 0)]. split; [|split; reflexivity].
    cbn [firstn map upd_range]. rewrite (mset_same m o _ Hob). reflexivity. }
  rewrite (@firstn_all2 _ 20 D) in EA by (rewrite LD; lia).
  eexists. split.
  { change ("sha1hash" ++ "::getres/1")%string with "sha1hash::getres/1".
    eapply call_of_body with (F := 40%nat); [apply lk_getres | reflexivity | | unfold F_sha1hash in Hf; lia].
    cbn [f_body Src_sha1.f_sha1hash_getres_1]. nrm.
    eapply seq_ok with (f1 := 1%nat) (f2 := 30%nat); [ | | lia | lia].
    { eapply set_ok; [ev|lia]. }
    nrm. eapply (exec_mono hash_prog vt _ _ _ _ EA). lia. }
  cbn [mem loc pre files ptrs fresh].
  assert (Lc : (Z.to_nat off + List.length (map Z.of_N D) <= List.length cells)%nat) by (rewrite map_length, LD; lia).
  split; [|split; [|split; [|split]]].
  - change (ha_out alg_sha1 (hs_h st)) with (flat_map be32_bytes (hs_h st)). rewrite EH. fold D.
    eexists. split; [apply mget_mset_same|]. split; [reflexivity|]. split; [exact Hoff|]. cbn [o_cells].
    split; [|rewrite upd_range_length, LD; lia].
    rewrite upd_range_split by exact Lc.
    assert (Ln : List.length (firstn (Z.to_nat off) cells) = Z.to_nat off) by (rewrite firstn_length; lia).
    rewrite <- Ln at 1. rewrite skipn_app_len. rewrite <- (map_length Z.of_N D). apply firstn_app_len.
  - destruct Hok as [[Hh Ht] [Hsc [Hg [Hl5 [Hu5 HT5]]]]].
    split; [split|split; [|split; [|repeat split; assumption]]].
    + rewrite mget_mset_other by exact O3. exact Hh.
    + rewrite mget_mset_other by exact O4. exact Ht.
    + intros name t n Hin. destruct (Hsc name t n Hin) as [ob0 [E0 [S1 S2]]].
      destruct (String.eqb o name) eqn:Eo.
      * apply String.eqb_eq in Eo. subst name. rewrite Hob in E0. injection E0 as <-.
        eexists. split; [apply mget_mset_same|]. split; [exact S1|]. cbn [o_cells] in *. rewrite upd_range_length. exact S2.
      * apply String.eqb_neq in Eo. rewrite mget_mset_other by exact Eo. exists ob0. repeat split; assumption.
    + intros k ob0 Hk. discriminate Hk.
  - intros k Hk. apply mget_mset_other. apply not_eq_sym. exact Hk.
  - intros ob1 ob2 E1 E2. rewrite Hob in E1. rewrite mget_mset_same in E2.
    pose proof (f_equal (fun x => match x with Some y => y | None => ob1 end) E1) as E1'. cbv beta iota in E1'.
    pose proof (f_equal (fun x => match x with Some y => y | None => ob2 end) E2) as E2'. cbv beta iota in E2'.
    clear E1 E2. subst ob1 ob2.
    cbn [o_ty o_cells]. split; [reflexivity|]. split; [apply upd_range_length|].
    intros i Hi. change (ha_hlen alg_sha1) with 20%nat in Hi. apply nth_upd_range_out; [exact Lc|]. rewrite map_length, LD. exact Hi.
  - repeat split; cbn [loc pre files ptrs fresh]; auto.
Qed.

Lemma sha1hash_class_spec_vt : class_spec "sha1hash" alg_sha1 Src_sha1.objects_sha1hash Src_sha1.globals vt F_sha1hash.
Proof.
  constructor.
  - exact sha1_reset_spec.
  - exact sha1_block_spec.
  - exact sha1_final_spec.
  - exact sha1_getres_spec.
  - exact Hvt.
Qed.
End Spec.

Lemma sha1hash_class_spec : forall vt, lget vt "" = Some "sha1hash" ->
  class_spec "sha1hash" alg_sha1 Src_sha1.objects_sha1hash Src_sha1.globals vt F_sha1hash.
Proof. exact sha1hash_class_spec_vt. Qed.

Print Assumptions sha1hash_class_spec.

(* non-vacuity: the hypotheses of the method specifications hold for the state SrcRun builds (members of a fresh
   object after reset(), a caller's buffer "msg"), so the specifications apply to it *)
Definition ex_mem : memory :=
  mset (mset (mk_objects "" Src_sha1.objects_sha1hash ++ [("msg", bytes_object (repeat 7%N 64))]) "h" (u32_obj sha1_iv))
       "totalsize" (u64_cell 0).
Example hok_satisfiable : hasher_ok alg_sha1 Src_sha1.objects_sha1hash Src_sha1.globals (reset alg_sha1) ex_mem.
Proof.
  split; [split; reflexivity|]. split; [|split; [|split; [reflexivity|split; [|reflexivity]]]].
  - intros name t n Hin. cbn in Hin.
    destruct Hin as [E|[E|[E|[E|[E|[]]]]]]; inversion E; subst; eexists; (split; [reflexivity|split; reflexivity]).
  - intros k ob Hk. discriminate Hk.
  - repeat constructor.
Qed.
Example block_spec_applies : exists s',
  call hash_prog [("", "sha1hash")] 800 "sha1hash::getHash/1" "" [VPtr "msg" 0] (init_state ex_mem) = Ok (None, s') /\
  hasher_ok alg_sha1 Src_sha1.objects_sha1hash Src_sha1.globals (getHash_block alg_sha1 (reset alg_sha1) (repeat 7%N 64)) (mem s').
Proof.
  destruct (cs_block _ _ _ _ _ _ (sha1hash_class_spec [("", "sha1hash")] eq_refl) (init_state ex_mem) (reset alg_sha1) 800%nat
              "msg" 0 (repeat 7%N 64)) as [s' [E [Hk _]]].
  - unfold F_sha1hash. lia.
  - reflexivity.
  - exact hok_satisfiable.
  - left. reflexivity.
  - eexists. split; [reflexivity|]. split; [reflexivity|]. split; [lia|]. split; [reflexivity|]. cbn. lia.
  - reflexivity.
  - reflexivity.
  - exists s'. split; assumption.
Qed.

