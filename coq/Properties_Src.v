(* Refinement: the functions TRANSLATED FROM /repo's SOURCES (coq/Gen/Src_*.v, regenerated on
   every run by tools/cgen.py), run under the MiniC semantics (MiniC.v), compute exactly what the
   hand-written models compute -- for every input.  Together with the model = standard theorems
   (Properties_C07/C09/C10/C16) this gives "translated source = standard".
   A change to the C++ changes the left-hand sides; the proofs then have to be re-done (or fail). *)
From Coq Require Import ZArith NArith List String Bool.
From Wencry Require Import Bytes AesModel ModesModel HashModel Base64Model MiniC MiniCRun SrcRun
     RefineAes RefineModes RefineHash RefineBase64.
Import ListNotations.
Local Open Scope N_scope.

(* aes.cpp: keyhandle(key) then encryaes/decryaes::runaes_128bit(block) *)
Theorem SRC_aes_block : forall (enc : bool) key blk,
  block16 key -> block16 blk ->
  src_aes enc key blk = SOk (if enc then aes_enc key blk else aes_dec key blk).
Proof. exact SRC_aes_block_proof. Qed.
Print Assumptions SRC_aes_block.

(* aesmode.cpp: Aesmode(iv), the eight runcry methods, getXor, ctrInc -- a stream object fed any sequence of blocks *)
Theorem SRC_mode_stream : forall (isenc : bool) type kind key iv blks,
  create isenc type = Some kind -> block16 key -> block16 iv -> Forall block16 blks ->
  src_mode isenc type key iv blks =
  SOk (snd (run (aes_enc_with (genall key)) (aes_dec_with (genall key)) kind iv blks)).
Proof. exact SRC_mode_stream_proof. Qed.
Print Assumptions SRC_mode_stream.

(* hashmaster.cpp getStringHash + sha1.cpp / md5.cpp / sha256.cpp *)
Theorem SRC_hash_string : forall alg a msg,
  get_hasher alg = Some a -> bytesb msg = true -> N.of_nat (length msg) < 2 ^ 32 ->
  src_hash_string alg msg = SOk (getStringHash a msg).
Proof. exact SRC_hash_string_proof. Qed.
Print Assumptions SRC_hash_string.

(* hashbuffer.cpp filebuffer64 (constructor, read_buffer64) + hashmaster.cpp getFileHash *)
Theorem SRC_hash_file : forall hbuf alg a block stream,
  get_hasher alg = Some a -> (1 <= hbuf)%nat -> N.of_nat (64 * hbuf) < 2 ^ 32 ->
  bytesb stream = true -> N.of_nat (length stream) < 2 ^ 56 ->
  (forall b, block = Some b -> length b = 64%nat /\ bytesb b = true) ->
  exists d, getFileHash hbuf a block stream = Some d /\ src_hash_file hbuf alg block stream = SOk d.
Proof. exact SRC_hash_file_proof. Qed.
Print Assumptions SRC_hash_file.

(* base64.cpp *)
Theorem SRC_b64_encode : forall data,
  bytesb data = true -> N.of_nat (length data) < 2 ^ 28 ->
  src_b64_encode data = SOk (hex_to_base64 data).
Proof. exact SRC_b64_encode_proof. Qed.
Print Assumptions SRC_b64_encode.

Theorem SRC_b64_valid : forall text,
  bytesb text = true -> N.of_nat (length text) < 2 ^ 31 ->
  src_b64_valid text = SOk (is_valid_b64 text).
Proof. exact SRC_b64_valid_proof. Qed.
Print Assumptions SRC_b64_valid.

(* decoding into a buffer of cap bytes pre-filled with `fill`: the decoded bytes, the rest untouched *)
Theorem SRC_b64_decode : forall cap fill text out,
  forallb (fun c => c <? 128) text = true -> N.of_nat (length text) < 2 ^ 28 -> fill < 256 ->
  base64_to_hex text = DecOk out -> (length out <= cap)%nat ->
  src_b64_decode cap fill text = SOk (true, out ++ repeat fill (cap - length out)).
Proof. exact SRC_b64_decode_proof. Qed.
Print Assumptions SRC_b64_decode.
