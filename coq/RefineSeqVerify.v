(* Verification of a file is sequential: SrcRun5.src_verify_file (the translated runcrypt::execute_verify on the thread machine,
   under any scheduler seed) returns what the sequential semantics [exec] computes for SrcRun5.whole_main WVer. *)
From Coq Require Import ZArith NArith List String Bool Lia.
From Wencry Require Import Bytes MiniC MiniCLemmas MiniCRun MiniCConc SrcRun SrcRun2 SrcRun5 RefineSeqDefs RefineSeqA RefineSeqB RefineSeq.
From Wencry.Gen Require Src_whole.
Import ListNotations.
Local Open Scope Z_scope.

(* ---- the check of Properties_SrcSeq on the program of the whole-file runs ---- *)
Lemma verify_seq_ok : forall T cm hm ne fsize, seq_ok whole_prog 40 (whole_main WVer T cm hm ne fsize) = true.
Proof. intros. vm_compute. reflexivity. Qed.
(* encryption and decryption start threads and synchronise: the check says so *)
Example decrypt_not_seq_ok : seq_ok whole_prog 40 (whole_main WDec 3 (-1) (-1) true 77) = false.
Proof. vm_compute. reflexivity. Qed.
Example encrypt_not_seq_ok : seq_ok whole_prog 40 (whole_main WEnc 3 1 1 true 77) = false.
Proof. vm_compute. reflexivity. Qed.
(* every translated function body has its breaks inside loops *)
Lemma whole_prog_brk_ok : forallb (fun nf : string * func => brk_ok false (f_body (snd nf))) whole_prog = true.
Proof. vm_compute. reflexivity. Qed.

(* ---- statements that always end normally ---- *)
Section Outcomes.
Variable prog : program.
Variable vt : list (string * string).

Lemma call_normal : forall fuel ret f this args s o s', exec prog vt fuel (SCall ret f this args) s = Ok (o, s') -> o = Normal.
Proof.
  intros fuel ret f this args s o s' H. destruct fuel; [discriminate H|]. cbn [exec] in H. bo H. bo H.
  destruct (lget prog f); [|discriminate H]. bo H. bo H. destruct a2. bo H. inversion H; reflexivity.
Qed.

Fixpoint straight (st : stmt) : bool :=
  match st with
  | SSeq a b => straight a && straight b
  | SCall _ _ _ _ => true
  | _ => is_atomic st
  end.
Lemma straight_normal : forall st fuel s o s', straight st = true -> exec prog vt fuel st s = Ok (o, s') -> o = Normal.
Proof.
  induction st; intros fuel s0 o s0' ST H; cbn [straight is_atomic] in ST; try discriminate ST;
  try (destruct fuel; [discriminate H|]; rewrite atomic_fuel in H by reflexivity; apply atomic_normal_pre in H; [tauto|reflexivity]).
  - destruct fuel; [discriminate H|]. cbn [exec] in H. apply andb_prop in ST. destruct ST as [S1 S2]. bo H. destruct a as [o1 s1].
    pose proof (IHst1 _ _ _ _ S1 E) as ->. eapply IHst2; eassumption.
  - eapply call_normal; eassumption.
Qed.

(* expressions whose value is 0 or 1 *)
Definition bool_expr (e : expr) : bool :=
  match e with
  | ECast TBool _ => true
  | EBin _ op _ _ => match op with Lt | Le | Gt | Ge | Eq | Ne => true | _ => false end
  | _ => false
  end.
Lemma bool_expr_eval : forall s e v, bool_expr e = true -> eval s e = Ok v -> v = VInt 0 \/ v = VInt 1.
Proof.
  intros s e v B H. destruct e; try discriminate B.
  - destruct op; try discriminate B; cbn [eval] in H; bo H; bo H; bo H; bo H; bo H; inversion H; subst; cbn [eval_bin] in E3;
    match type of E3 with Ok (if ?c then _ else _) = _ => destruct c end; inversion E3; auto.
  - destruct t; try discriminate B. cbn [eval] in H. bo H. bo H. inversion H; subst. cbn [wrap]. destruct (a0 =? 0); auto.
Qed.

Fixpoint rets_bool (st : stmt) : bool :=
  match st with
  | SReturn (Some e) => bool_expr e
  | SSeq a b => rets_bool a && rets_bool b
  | SIf _ a b => rets_bool a && rets_bool b
  | SLoop _ a b => rets_bool a && rets_bool b
  | SDoWhile a _ => rets_bool a
  | _ => true
  end.
Lemma rets_bool_exec : forall fuel st s v s', rets_bool st = true -> exec prog vt fuel st s = Ok (Returned (Some v), s') -> v = VInt 0 \/ v = VInt 1.
Proof.
  induction fuel as [|fuel IH]; intros st s v s' B H; [discriminate H|].
  destruct (is_atomic st) eqn:A.
  { rewrite atomic_fuel in H by exact A. apply atomic_normal_pre in H; [|exact A]. destruct H as [H _]. discriminate H. }
  destruct st; try discriminate A; cbn [rets_bool] in B.
  - cbn [exec] in H. inversion H.
  - cbn [exec] in H. apply andb_prop in B. destruct B as [B1 B2]. bo H. destruct a as [o1 s1].
    destruct o1; [eapply IH; [|exact H]; assumption | discriminate H | inversion H; subst; eapply IH; [|exact E]; assumption].
  - cbn [exec] in H. apply andb_prop in B. destruct B as [B1 B2]. bo H. bo H. destruct (a0 =? 0); (eapply IH; [|exact H]; assumption).
  - cbn [exec] in H. pose proof B as B0. apply andb_prop in B. destruct B as [B1 B2]. bo H. bo H. destruct (a0 =? 0); [discriminate H|].
    bo H. destruct a1 as [o1 s1]. destruct o1; [| discriminate H | inversion H; subst; eapply IH; [|exact E1]; assumption].
    bo H. destruct a1 as [o2 s2]. destruct o2; try discriminate H. eapply IH; [|exact H]. exact B0.
  - cbn [exec] in H. bo H. destruct a as [o1 s1]. destruct o1; [| discriminate H | inversion H; subst; eapply IH; [|exact E]; assumption].
    bo H. bo H. destruct (a0 =? 0); [discriminate H|]. eapply IH; [|exact H]. exact B.
  - cbn [exec] in H. discriminate H.
  - cbn [exec] in H. destruct e as [e|]; [|discriminate H]. bo H. inversion H; subst. eapply bool_expr_eval; eassumption.
  - apply call_normal in H. discriminate H.
  - cbn [exec] in H. bo H. bo H.
    assert (CALL : forall fname, match lget prog fname with
      | None => UB ("no function " ++ fname)%string
      | Some f => do l <- bind_params (f_params f) a;
                  do r1 <- exec prog vt fuel (f_body f) {| mem := mem s; loc := l; pre := a0; files := files s; ptrs := ptrs s; fresh := fresh s |};
                  let '(o, s1) := r1 in
                  do s2 <- set_ret {| mem := mem s1; loc := loc s; pre := pre s; files := files s1; ptrs := ptrs s1; fresh := fresh s1 |} ret
                                   (match o with Returned v => v | _ => None end);
                  Ok (Normal, s2)
      end = Ok (Returned (Some v), s') -> False).
    { intros fname Hc. destruct (lget prog fname); [|discriminate Hc]. bo Hc. bo Hc. destruct a2. bo Hc. discriminate Hc. }
    exfalso. destruct (lget vt a0); [eapply CALL; exact H|].
    destruct (lget (ptrs s) (class_key a0)) as [[z|cls off|]|]; try discriminate H. eapply CALL; exact H.
  - rewrite prim_fuel in H. apply prim_normal_pre in H. destruct H as [H _]. discriminate H.
  - cbn [exec] in H. bo H.
    match type of H with (if negb ?b then _ else _) = _ => destruct (negb b); [discriminate H|] end.
    destruct ctor as [fname|]; [|discriminate H].
    destruct (lget prog fname) as [f|]; [|discriminate H].
    bo H. bo H. destruct a1 as [o1 s1]. discriminate H.
Qed.
End Outcomes.

(* ---- the sequential run of verification ends normally with a boolean in "result" ---- *)
Lemma lget_execute_verify : lget whole_prog "runcrypt::execute_verify/1" = Some Src_whole.f_runcrypt_execute_verify_1.
Proof. vm_compute. reflexivity. Qed.

Lemma verify_exec_result : forall fuel T cm hm ne fsize s out s',
  exec whole_prog [] fuel (whole_main WVer T cm hm ne fsize) s = Ok (out, s') ->
  out = Normal /\ exists b : bool, lget (loc s') "result" = Some (VInt (if b then 1 else 0)).
Proof.
  intros fuel T cm hm ne fsize s out s' H. destruct fuel as [|fuel]; [discriminate H|].
  unfold whole_main in H. rewrite exec_seq in H. bo H. destruct a as [o1 s1].
  assert (o1 = Normal) as -> by (eapply straight_normal; [|exact E]; reflexivity).
  destruct fuel as [|fuel]; [discriminate H|]. cbn [exec] in H. bo H. bo H. rewrite lget_execute_verify in H.
  bo H. bo H. destruct a2 as [o2 s2]. bo H. inversion H; subst out s'. clear H. split; [reflexivity|].
  unfold set_ret in E4. destruct o2 as [| |[v|]]; try discriminate E4.
  inversion E4; subst a2. cbn [loc with_loc]. rewrite lget_lset_same.
  destruct (rets_bool_exec whole_prog [] fuel (f_body Src_whole.f_runcrypt_execute_verify_1) _ v s2 eq_refl E3) as [-> | ->]; [exists false|exists true]; reflexivity.
Qed.

(* ---- the scheduler loop on a machine whose only thread runs to its end in one step ---- *)
Lemma auto_run_with_S : forall prog n fuel rnd cs steps,
  auto_run_with prog (S n) fuel rnd cs steps =
  match enabled_list cs with
  | [] => if forallb (fun t => match ct_st t with TDone => true | _ => false end) (cs_thr cs) then WDone cs steps else WDeadlock steps
  | l =>
      let rnd' := lcg rnd in
      let k := if N.eqb rnd 0 then O else N.to_nat ((rnd' / 4294967296) mod N.of_nat (List.length l))%N in
      let tid := nth k l O in
      match cstep prog [] fuel cs tid with
      | Ok (cs1, _) => auto_run_with prog n fuel rnd' cs1 (S steps)
      | UB w => WErr ("UB: " ++ w)
      | NoFuel => WErr "out of fuel"
      end
  end.
Proof. reflexivity. Qed.

Lemma nth_single : forall k, nth k [O] O = O.
Proof. intros [|[|k]]; reflexivity. Qed.

Lemma auto_run_single : forall prog m fuel rnd t0 sh,
  ct_st t0 = TRun -> first_is_lock t0 sh = None ->
  auto_run_with prog (S (S m)) fuel rnd {| cs_sh := sh; cs_thr := [t0]; cs_mx := [] |} O =
  match run_thread prog [] fuel 0 true t0 {| cs_sh := sh; cs_thr := [t0]; cs_mx := [] |} [] with
  | Ok (cs1, _) =>
      match enabled_list cs1 with
      | [] => if forallb (fun t => match ct_st t with TDone => true | _ => false end) (cs_thr cs1) then WDone cs1 1 else WDeadlock 1
      | _ => auto_run_with prog (S m) fuel (lcg rnd) cs1 1
      end
  | UB w => WErr ("UB: " ++ w)
  | NoFuel => WErr "out of fuel"
  end.
Proof.
  intros prog m fuel rnd t0 sh ST FL. rewrite auto_run_with_S.
  assert (EN : enabled {| cs_sh := sh; cs_thr := [t0]; cs_mx := [] |} 0 = true).
  { unfold enabled, nth_thread. cbn [cs_thr nth_error cs_sh cs_mx]. rewrite ST, FL. reflexivity. }
  assert (EL : enabled_list {| cs_sh := sh; cs_thr := [t0]; cs_mx := [] |} = [O]).
  { unfold enabled_list. cbn [cs_thr List.length seq filter]. rewrite EN. reflexivity. }
  rewrite EL. cbv zeta. rewrite nth_single.
  unfold cstep. cbn [cs_thr List.length Nat.ltb Nat.leb]. rewrite EN. cbn [negb]. unfold nth_thread. cbn [cs_thr nth_error]. rewrite ST.
  destruct (run_thread prog [] fuel 0 true t0 {| cs_sh := sh; cs_thr := [t0]; cs_mx := [] |} []) as [[cs1 evs]|w|]; try reflexivity.
  rewrite auto_run_with_S. destruct (enabled_list cs1) eqn:EL1; reflexivity.
Qed.

(* ---- the theorem ---- *)
(* the fuel SrcRun5.run_from gives one thread step *)
Definition run_fuel (c T n : nat) : nat := nat_of_N_tr (400000 + 40000 * N.of_nat T + 3000 * N.of_nat c + 400 * N.of_nat n)%N.
Definition stream_bytes (s : state) (name : string) : list N :=
  match lget (files s) name with Some f => map Z.to_N (cf_data f) | None => [] end.

(* explicit form: the answer of src_verify_file for every seed, in terms of exec's final state and the number n of machine steps *)
Lemma verify_file_run : forall c hbuf T F key fuel out s',
  exec whole_prog [] fuel (whole_main WVer T (-1) (-1) true (Z.of_nat (List.length F))) (whole_state c hbuf T (-1) (-1) true F key []) = Ok (out, s') ->
  exists (n : nat) (b : bool),
    lget (loc s') "result" = Some (VInt (if b then 1 else 0)) /\
    forall rnd, src_verify_file c hbuf T F key rnd =
                if (run_fuel c T (List.length F) <=? n)%nat then SErr "out of fuel"
                else SOk (b, stream_bytes s' "fout", stream_bytes s' "fin", 1%nat).
Proof.
  intros c hbuf T F key fuel out s' H.
  destruct (verify_exec_result _ _ _ _ _ _ _ _ _ H) as [-> [b RB]].
  pose proof (seq_ok_wf _ _ _ (verify_seq_ok T (-1) (-1) true (Z.of_nat (List.length F)))) as W.
  destruct (seq_machine_agrees_gen whole_prog [] _ _ _ _ _ _ W H eq_refl TRun ltac:(discriminate)) as [n R].
  exists n, b. split; [exact RB|]. intro rnd.
  unfold src_verify_file, src_whole, run_from. fold (run_fuel c T (List.length F)).
  set (mfuel := run_fuel c T (List.length F)).
  match goal with |- context [auto_run ?st _ _ _ _] =>
    assert (ES : exists m, st = S (S m)) by (eexists; reflexivity); destruct ES as [m ES]; rewrite ES; clear ES end.
  unfold auto_run, whole_init_from.
  rewrite auto_run_single by reflexivity.
  set (t0 := {| ct_cur := whole_main WVer T (-1) (-1) true (Z.of_nat (List.length F)); ct_k := KStop; ct_loc := []; ct_pre := ""; ct_st := TRun |}).
  assert (RT : run_thread whole_prog [] mfuel 0 true t0
                 {| cs_sh := op_layer (process_init c hbuf) F key []; cs_thr := [t0]; cs_mx := [] |} [] =
               if (mfuel <=? n)%nat then NoFuel
               else Ok ({| cs_sh := shared_of s'; cs_thr := [mk SSkip KStop (loc s') ""%string TDone]; cs_mx := [] |}, [] ++ [(14, 0, 0)])).
  { exact (R mfuel 0%nat true [t0] [] []). }
  rewrite RT. clear RT. destruct (mfuel <=? n)%nat; [reflexivity|].
  cbn [enabled_list cs_thr List.length seq filter enabled nth_thread nth_error ct_st forallb andb].
  unfold main_result. cbn [cs_thr nth_error ct_loc]. rewrite RB.
  unfold out_bytes, in_bytes, stream_bytes. cbn [cs_sh shared_of files].
  destruct b; reflexivity.
Qed.

Lemma verify_file_is_sequential_proof : forall c hbuf T F key rnd fuel out s',
  exec whole_prog [] fuel (whole_main WVer T (-1) (-1) true (Z.of_nat (List.length F))) (whole_state c hbuf T (-1) (-1) true F key []) = Ok (out, s') ->
  match src_verify_file c hbuf T F key rnd with
  | SOk (b, o, i, steps) =>
      lget (loc s') "result" = Some (VInt (if b then 1 else 0)) /\
      o = match lget (files s') "fout" with Some f => map Z.to_N (cf_data f) | None => [] end /\
      i = match lget (files s') "fin" with Some f => map Z.to_N (cf_data f) | None => [] end /\
      steps = 1%nat
  | SErr w => w = "out of fuel"%string
  end.
Proof.
  intros c hbuf T F key rnd fuel out s' H. destruct (verify_file_run _ _ _ _ _ _ _ _ H) as (n & b & RB & R).
  rewrite R. destruct (run_fuel c T (List.length F) <=? n)%nat; [reflexivity|]. repeat split. exact RB.
Qed.

(* the scheduler seed does not matter *)
Lemma verify_file_seed_independent_proof : forall c hbuf T F key fuel out s',
  exec whole_prog [] fuel (whole_main WVer T (-1) (-1) true (Z.of_nat (List.length F))) (whole_state c hbuf T (-1) (-1) true F key []) = Ok (out, s') ->
  forall rnd rnd', src_verify_file c hbuf T F key rnd = src_verify_file c hbuf T F key rnd'.
Proof.
  intros c hbuf T F key fuel out s' H rnd rnd'. destruct (verify_file_run _ _ _ _ _ _ _ _ H) as (n & b & RB & R).
  now rewrite (R rnd), (R rnd').
Qed.

(* non-vacuity: a file that is not a wencry file (rejected), sequentially and on the machine *)
Definition nv_file : list N := map N.of_nat (seq 7 60).
Definition nv_key : list N := map N.of_nat (seq 1 16).
Example verify_nonvacuous :
  (exists s', exec whole_prog [] 400 (whole_main WVer 2 (-1) (-1) true (Z.of_nat (List.length nv_file))) (whole_state 1 1 2 (-1) (-1) true nv_file nv_key [])
              = Ok (Normal, s') /\ lget (loc s') "result" = Some (VInt 0)) /\
  src_verify_file 1 1 2 nv_file nv_key 12345 = SOk (false, [], nv_file, 1%nat).
Proof. split; [eexists; split|]; vm_compute; reflexivity. Qed.
(* ... and a genuine file (what the translated source writes when encrypting 20 bytes, CBC, MD5 tag), accepted *)
Definition nv_enc : list N :=
  [195; 165; 195; 165; 195; 165; 195; 165; 1; 1; 139; 120; 82; 165; 96; 150; 240; 96; 113; 57; 127; 23; 67; 9; 103; 107; 0; 0; 0; 0; 0; 0; 0; 0; 0;
   0; 0; 0; 0; 0; 0; 0; 0; 0; 0; 0; 0; 0; 77; 116; 15; 235; 60; 84; 134; 41; 206; 169; 23; 83; 140; 26; 4; 179; 255; 31; 101; 181; 72; 41; 227; 192;
   246; 4; 194; 58; 80; 76; 230; 247; 57; 106; 51; 195; 186; 147; 93; 87; 31; 202; 174; 198; 153; 189; 206; 33; 98; 76; 25; 89]%N.
Example nv_enc_is_encrypted :
  src_encrypt_file 1 1 1 1 1 (map N.of_nat (seq 30 20)) nv_key (map N.of_nat (seq 5 8)) 0 = SOk (true, nv_enc, map N.of_nat (seq 30 20), 35%nat).
Proof. vm_compute. reflexivity. Qed.
Example verify_nonvacuous_accept :
  (exists s', exec whole_prog [] 400 (whole_main WVer 1 (-1) (-1) true (Z.of_nat (List.length nv_enc))) (whole_state 1 1 1 (-1) (-1) true nv_enc nv_key [])
              = Ok (Normal, s') /\ lget (loc s') "result" = Some (VInt 1)) /\
  src_verify_file 1 1 1 nv_enc nv_key 777 = SOk (true, [], nv_enc, 1%nat).
Proof. split; [eexists; split|]; vm_compute; reflexivity. Qed.
