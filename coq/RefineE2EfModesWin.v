(* Stage 5: the eight runcry methods of aesmode.cpp on a block that is a window of a larger byte array, for a mode object
   with an arbitrary prefix q: the generalisation of RefineModes.runcry_all the whole-program run needs. *)
From Coq Require Import ZArith NArith List String Bool Lia.
From Wencry Require Import Bytes AesModel ModesModel MiniC MiniCRun MiniCLemmas SrcRun AesProofs
     RefineAesLib RefineAesOps RefineAesKey RefineAes RefineModesOps RefineModes RefineE2EfAesWin.
From Wencry Require ModesProofs.
From Wencry.Gen Require Import AesTab AesCoef.
From Wencry.Gen Require Src_aes Src_aesmode.
Import ListNotations.
Local Open Scope Z_scope.
Local Open Scope string_scope.

Local Notation P := aes_prog.

(* what a call may write: the buffer o, members of the mode object q, local arrays *)
Section Chain.
Variables (q o : string).
Definition okkey (k : string) (v : object) : Prop :=
  (k = o /\ exists cells, v = bobj cells) \/ (exists x, k = q ++ x) \/ k = "%mask" \/ k = "%nxt_iv".
Inductive chain (m : memory) : memory -> Prop :=
| ch_nil : chain m m
| ch_set : forall m1 k v, chain m m1 -> okkey k v -> chain m (mset m1 k v).
End Chain.

Section ModesWin.
Variable ks : list (list N).
Hypothesis Hlks : List.length ks = 11%nat.
Hypothesis Bks : Forall block16 ks.
Variables (q o : string).
Hypothesis Hq : forall x, ~ is_tab (q ++ x).
Hypothesis Hqo : forall x, q ++ x <> o.
Hypothesis Hqloc : forall x y, q ++ x <> "%" ++ y.
Hypothesis Hoto : ~ is_tab o.
Hypothesis Holoc : forall y, o <> "%" ++ y.

Definition mode_rep_q (iv : list N) (m : memory) : Prop :=
  tabs_ok m /\ mget m (q ++ "iv") = Some (bytes_object iv) /\ block16 iv /\
  (exists wc, mget m (q ++ "crypt.w") = Some (bobj wc) /\ List.length wc = 16%nat) /\
  mget m (q ++ "crypt.key.key") = Some (bobj (concat (map (map Z.of_N) ks))).

Notation E := (aes_enc_with ks).
Notation D := (aes_dec_with ks).

Ltac mblocks :=
  lazymatch goal with
  | |- block16 (aes_enc_with ks _) => apply (aes_enc_with_block ks Hlks Bks); mblocks
  | |- block16 (aes_dec_with ks _) => apply (aes_dec_with_block ks Hlks Bks); mblocks
  | |- block16 (enc_state ks _) => apply (enc_state_block ks Hlks Bks); mblocks
  | |- block16 (dec_state ks _) => apply (dec_state_block ks Hlks Bks); mblocks
  | |- block16 (xorl _ _) => apply ModesProofs.block16_xorl; mblocks
  | |- block16 (ctrInc _) => apply ModesProofs.block16_ctrInc; mblocks
  | |- _ => assumption
  end.
Ltac len16 :=
  first [ eassumption
        | rewrite map_length; apply block16_length; mblocks
        | apply repeat_length
        | reflexivity ].
Ltac nrm := rewrite ?append_assoc_s; cbn [append].
Ltac neq_tac ::= nrm; first [ assumption | apply not_eq_sym; assumption | apply Hqo | apply not_eq_sym; apply Hqo
                      | apply Hqloc | apply not_eq_sym; apply Hqloc | apply (Holoc _) | apply not_eq_sym; apply (Holoc _)
                      | apply pfx_neq; discriminate | discriminate ].
Ltac mget_tac ::=
  nrm;
  first [ rewrite mget_mset_same; reflexivity
        | rewrite mget_mset_other by neq_tac; mget_tac
        | eassumption
        | match goal with H : mget ?m ?k = Some _ |- mget ?m ?k = _ => exact H end ].
Ltac st_norm_hook ::= rewrite ?append_assoc_s; cbn [append xorl map2 map].
Ltac ntq := nrm; first [apply Hq | exact Hoto | (unfold is_tab; intuition discriminate)].
Ltac mtabs := cbn [mem]; repeat (apply tabs_ok_mset; [ntq|]); assumption.

Ltac mside :=
  nrm;
  lazymatch goal with
  | |- (_ <= _)%nat => lia
  | |- tabs_ok _ => mtabs
  | |- ~ is_tab _ => ntq
  | |- _ <> _ => neq_tac
  | |- mget _ _ = _ => cbn [mem]; mget_tac
  | |- List.length ks = _ => exact Hlks
  | |- List.length _ = 16%nat => len16
  | |- Forall block16 _ => exact Bks
  | |- block16 _ => mblocks
  | |- _ = concat _ => reflexivity
  | |- Z.of_nat _ = _ => eassumption
  end.

Ltac xc_enc_w := st_norm; eapply x_call; [evl | reflexivity
  | eapply (enc_runaes_win [] _ (q ++ "crypt.") _ o _ _ _ _ _ _ ks); mside | reflexivity].
Ltac xc_dec_w := st_norm; eapply x_call; [evl | reflexivity
  | eapply (dec_runaes_win [] _ (q ++ "crypt.") _ o _ _ _ _ _ _ ks); mside | reflexivity].
Ltac xc_enc ob := st_norm; eapply x_call; [evl | reflexivity
  | eapply (enc_runaes_spec [] _ (q ++ "crypt.") _ ob _ _ _ ks); mside | reflexivity].
Ltac xc_xor_w := st_norm; eapply x_call; [evl | reflexivity
  | eapply (getXor_win []); mside | reflexivity].
Ltac xc_ctr := st_norm; eapply x_call; [evl | reflexivity
  | eapply (ctrInc_spec []); mside | reflexivity].
Ltac xm16 := st_norm; eapply x_memcpy16; [ev | ev | cbn [mem]; mget_tac | len16 | cbn [mem]; mget_tac | mblocks].
Ltac xm16_w := st_norm; eapply x_memcpy16_from_win; [ev | ev | cbn [mem]; mget_tac | len16 | eassumption | cbn [mem]; mget_tac | mblocks].

Ltac rep_tac :=
  unfold mode_rep_q; cbn [mem];
  repeat match goal with |- _ /\ _ => split end;
  lazymatch goal with
  | |- tabs_ok _ => mtabs
  | |- mget _ _ = _ => mget_tac
  | |- block16 _ => mblocks
  | |- exists _, _ => eexists; split; [mget_tac | len16]
  end.
Ltac chain_tac :=
  repeat (first [ apply ch_nil
                | apply ch_set; [| nrm; first [ left; split; [reflexivity | eexists; reflexivity]
                                            | right; left; eexists; reflexivity
                                            | right; right; left; reflexivity
                                            | right; right; right; reflexivity ] ] ]).

Ltac runcry_start Hrep :=
  let Ht := fresh "Ht" in let Hiv := fresh "Hiv" in let Biv := fresh "Biv" in
  let wc := fresh "wc" in let Hw := fresh "Hw" in let Hlw := fresh "Hlw" in let Hkk := fresh "Hkk" in
  destruct Hrep as (Ht & Hiv & Biv & (wc & Hw & Hlw) & Hkk).

Definition win_goal (cls : string) (kind : mkind) : Prop :=
  forall s fuel iv b A Zt r, (250 <= fuel)%nat ->
  mode_rep_q iv (mem s) -> Z.of_nat (List.length A) = 16 * (r - 1) ->
  mget (mem s) o = Some (bobj (A ++ map Z.of_N b ++ Zt)) -> block16 b ->
  exists m', call P [] fuel (cls ++ "::runcry/1") q [VPtr o (16 * (r - 1))] s = Ok (None, with_mem s m') /\
             mode_rep_q (fst (runcry E D kind iv b)) m' /\
             mget m' o = Some (bobj (A ++ map Z.of_N (snd (runcry E D kind iv b)) ++ Zt)) /\
             chain q o (mem s) m' /\ block16 (snd (runcry E D kind iv b)).

Lemma runcry_win_ECB_Enc : win_goal "AesECB_Enc" ECB_Enc.
Proof.
  intros s fuel iv b A Zt r Hf Hrep HA Hb Bb. runcry_start Hrep. cbn [runcry fst snd append].
  eexists. split; [|split; [|split; [|split]]].
  - eapply call_mono; [|exact Hf].
    eapply call_normal; [reflexivity | reflexivity | | | | | ].
    + cbn [f_body Src_aesmode.f_AesECB_Enc_runcry_1]. xc_enc_w.
    + reflexivity.
    + reflexivity.
    + reflexivity.
    + st_norm. reflexivity.
  - rep_tac.
  - cbn [mem]. mget_tac.
  - cbn [mem]. chain_tac.
  - mblocks.
Qed.

Lemma runcry_win_ECB_Dec : win_goal "AesECB_Dec" ECB_Dec.
Proof.
  intros s fuel iv b A Zt r Hf Hrep HA Hb Bb. runcry_start Hrep. cbn [runcry fst snd append].
  eexists. split; [|split; [|split; [|split]]].
  - eapply call_mono; [|exact Hf].
    eapply call_normal; [reflexivity | reflexivity | | | | | ].
    + cbn [f_body Src_aesmode.f_AesECB_Dec_runcry_1]. xc_dec_w.
    + reflexivity.
    + reflexivity.
    + reflexivity.
    + st_norm. reflexivity.
  - rep_tac.
  - cbn [mem]. mget_tac.
  - cbn [mem]. chain_tac.
  - mblocks.
Qed.

Lemma runcry_win_CBC_Enc : win_goal "AesCBC_Enc" CBC_Enc.
Proof.
  intros s fuel iv b A Zt r Hf Hrep HA Hb Bb. runcry_start Hrep. cbn [runcry fst snd append].
  eexists. split; [|split; [|split; [|split]]].
  - eapply call_mono; [|exact Hf].
    eapply call_normal; [reflexivity | reflexivity | | | | | ].
    + cbn [f_body Src_aesmode.f_AesCBC_Enc_runcry_1]. eapply x_seq; [xc_xor_w|]. eapply x_seq; [xc_enc_w|]. xm16_w.
    + reflexivity.
    + reflexivity.
    + reflexivity.
    + st_norm. reflexivity.
  - rep_tac.
  - cbn [mem]. mget_tac.
  - cbn [mem]. chain_tac.
  - mblocks.
Qed.

Lemma runcry_win_CBC_Dec : win_goal "AesCBC_Dec" CBC_Dec.
Proof.
  intros s fuel iv b A Zt r Hf Hrep HA Hb Bb. runcry_start Hrep. cbn [runcry fst snd append].
  eexists. split; [|split; [|split; [|split]]].
  - eapply call_mono; [|exact Hf].
    eapply call_normal; [reflexivity | reflexivity | | | | | ].
    + cbn [f_body Src_aesmode.f_AesCBC_Dec_runcry_1]. eapply x_seq; [xs|]. eapply x_seq; [xm16_w|]. eapply x_seq; [xc_dec_w|]. eapply x_seq; [xc_xor_w|]. xm16.
    + reflexivity.
    + reflexivity.
    + reflexivity.
    + st_norm. reflexivity.
  - rep_tac.
  - cbn [mem]. mget_tac.
  - cbn [mem]. chain_tac.
  - mblocks.
Qed.

Lemma runcry_win_CTRm : win_goal "AesCTR" CTRm.
Proof.
  intros s fuel iv b A Zt r Hf Hrep HA Hb Bb. runcry_start Hrep. cbn [runcry fst snd append].
  eexists. split; [|split; [|split; [|split]]].
  - eapply call_mono; [|exact Hf].
    eapply call_normal; [reflexivity | reflexivity | | | | | ].
    + cbn [f_body Src_aesmode.f_AesCTR_runcry_1]. eapply x_seq; [xs|]. eapply x_seq; [xm16|]. eapply x_seq; [xc_enc "%mask"|]. eapply x_seq; [xc_xor_w|]. xc_ctr.
    + reflexivity.
    + reflexivity.
    + reflexivity.
    + st_norm. reflexivity.
  - rep_tac.
  - cbn [mem]. mget_tac.
  - cbn [mem]. chain_tac.
  - mblocks.
Qed.

Lemma runcry_win_CFB_Enc : win_goal "AesCFB_Enc" CFB_Enc.
Proof.
  intros s fuel iv b A Zt r Hf Hrep HA Hb Bb. runcry_start Hrep. cbn [runcry fst snd append].
  eexists. split; [|split; [|split; [|split]]].
  - eapply call_mono; [|exact Hf].
    eapply call_normal; [reflexivity | reflexivity | | | | | ].
    + cbn [f_body Src_aesmode.f_AesCFB_Enc_runcry_1]. eapply x_seq; [xc_enc (q ++ "iv")|]. eapply x_seq; [xc_xor_w|]. xm16_w.
    + reflexivity.
    + reflexivity.
    + reflexivity.
    + st_norm. reflexivity.
  - rep_tac.
  - cbn [mem]. mget_tac.
  - cbn [mem]. chain_tac.
  - mblocks.
Qed.

Lemma runcry_win_CFB_Dec : win_goal "AesCFB_Dec" CFB_Dec.
Proof.
  intros s fuel iv b A Zt r Hf Hrep HA Hb Bb. runcry_start Hrep. cbn [runcry fst snd append].
  eexists. split; [|split; [|split; [|split]]].
  - eapply call_mono; [|exact Hf].
    eapply call_normal; [reflexivity | reflexivity | | | | | ].
    + cbn [f_body Src_aesmode.f_AesCFB_Dec_runcry_1]. eapply x_seq; [xs|]. eapply x_seq; [xm16_w|]. eapply x_seq; [xc_enc (q ++ "iv")|]. eapply x_seq; [xc_xor_w|]. xm16.
    + reflexivity.
    + reflexivity.
    + reflexivity.
    + st_norm. reflexivity.
  - rep_tac.
  - cbn [mem]. mget_tac.
  - cbn [mem]. chain_tac.
  - mblocks.
Qed.

Lemma runcry_win_OFBm : win_goal "AesOFB" OFBm.
Proof.
  intros s fuel iv b A Zt r Hf Hrep HA Hb Bb. runcry_start Hrep. cbn [runcry fst snd append].
  eexists. split; [|split; [|split; [|split]]].
  - eapply call_mono; [|exact Hf].
    eapply call_normal; [reflexivity | reflexivity | | | | | ].
    + cbn [f_body Src_aesmode.f_AesOFB_runcry_1]. eapply x_seq; [xc_enc (q ++ "iv")|]. xc_xor_w.
    + reflexivity.
    + reflexivity.
    + reflexivity.
    + st_norm. reflexivity.
  - rep_tac.
  - cbn [mem]. mget_tac.
  - cbn [mem]. chain_tac.
  - mblocks.
Qed.

Lemma runcry_win_all : forall kind, win_goal (cls_of kind) kind.
Proof.
  intros kind. destruct kind; cbn [cls_of].
  - exact runcry_win_ECB_Enc.
  - exact runcry_win_ECB_Dec.
  - exact runcry_win_CBC_Enc.
  - exact runcry_win_CBC_Dec.
  - exact runcry_win_CTRm.
  - exact runcry_win_CFB_Enc.
  - exact runcry_win_CFB_Dec.
  - exact runcry_win_OFBm.
Qed.
End ModesWin.
