(* The documented .wenc format as an independent executable specification, written from the
   property text (C02) and the README only, on top of the standards' specs (AesSpec, ModesSpec,
   HashSpec).  Nothing here refers to the model of the C++. *)
From Wencry Require Import Bytes AesSpec ModesSpec HashSpec.
Local Open Scope N_scope.

(* 8-byte magic C3 A5 C3 A5 C3 A5 C3 A5 *)
Definition spec_magic : list N := [0xC3; 0xA5; 0xC3; 0xA5; 0xC3; 0xA5; 0xC3; 0xA5].
Definition hlen (hm : N) : nat := match hm with 0 => 20%nat | 1 => 16%nat | _ => 32%nat end.

(* PKCS#7 to the 16-byte block: always 1..16 bytes *)
Definition pkcs7 (P : list N) : list N :=
  let p := (16 - length P mod 16)%nat in P ++ repeat (N.of_nat p) p.

(* one 20-byte IV per worker by chained SHA-1 of the seed *)
Fixpoint spec_iv_chain_from (prev : list N) (n : nat) : list N :=
  match n with O => [] | S n' => let h := sha1 prev in h ++ spec_iv_chain_from h n' end.
Definition spec_ivs (seed : list N) (T : nat) : list N := spec_iv_chain_from seed T.

Section Striping.
Variable c T : nat.                 (* chunk size in blocks (16 MiB = 2^20 blocks in production), workers *)
Variable key : list N.
Variable cm : N.
Variable iv16 : list N.             (* first 16 bytes of the first IV *)

(* successive chunks are dealt round-robin to T continuous cipher streams *)
Definition stream_input (chs : list (list N)) (i : nat) : list N :=
  concat (map (fun j => if (j mod T =? i)%nat then nth j chs [] else []) (seq 0 (length chs))).
Definition stream_output (chs : list (list N)) (i : nat) : option (list N) :=
  option_map (@concat N) (mode_enc (Cipher key) cm iv16 (chunks 16 (stream_input chs i))).
(* chunk j of the body = the piece of stream (j mod T)'s output at chunk index j / T *)
Definition spec_body (padded : list N) : option (list N) :=
  let chs := chunks (16 * c) padded in
  let outs := map (stream_output chs) (seq 0 T) in
  if forallb (fun o => match o with Some _ => true | None => false end) outs then
    Some (concat (map (fun j => firstn (length (nth j chs []))
                                        (skipn (16 * c * (j / T))
                                               (match nth (j mod T) outs None with Some o => o | None => [] end)))
                      (seq 0 (length chs))))
  else None.
End Striping.

Definition wenc_spec (c T : nat) (P key : list N) (cm hm : N) (seed : list N) : option (list N) :=
  let ivs := spec_ivs seed T in
  match spec_body c T key cm (firstn 16 ivs) (pkcs7 P) with
  | None => None
  | Some body =>
      let tag := hmac_spec (hash_spec hm) key (ivs ++ body) in
      Some (spec_magic ++ [cm; hm] ++ tag ++ zeros (38 - hlen hm) ++ ivs ++ body)
  end.

(* documented length: 48 + 20 T + 16 (floor(n/16) + 1) *)
Definition wenc_length (T n : nat) : nat := (48 + 20 * T + 16 * (n / 16 + 1))%nat.
