(* Stage 5: execute_encrypt end to end with the ONE remaining obligation as a NAMED premise:
     setup_enc_spec  : the two set-up steps of the main thread end in the canonical state of the layout instance PWenc
                       (what prepare_IV left behind: extra / pextra, with the name conditions the later allocations need).
   hmac::writeFileHmac on the state after the concurrent phase is RefineE2EfHashB3.writeFileHmac_enc_ok' (agent proof-hash).
   Everything else (concurrent phase for every schedule, tear-down, file-level model) is proved. *)
From Coq Require Import ZArith NArith List String Bool Lia Arith.
From Wencry Require Import Bytes AesModel ModesModel HashModel FileModel FileProps PipeConc MiniC MiniCRun MiniCLemmas MiniCConc SrcRun SrcRun2 SrcRun5 RefineE2EWhole.
From Wencry Require Import RefineE2EfLay RefineE2EfMach RefineE2EfMem RefineE2EfRel RefineE2EfGen RefineE2EfRun
     RefineE2EfWNames RefineE2EfWLay RefineE2EfWOk RefineE2EfEnc RefineE2EfTail RefineE2EfEncDefs RefineE2EfHashSpec RefineE2EfEnc2 RefineE2EfHashB3.
Import ListNotations.
Local Open Scope list_scope.
Local Open Scope string_scope.

(* what prepare_IV leaves behind besides the iv object: objects `extra`, pointer entries `pextra` *)
Definition left_behind_ok (c hbuf T : nat) (key seed : list N) (cm hm : N) (h n : nat) (extra : memory) (pextra : locs) : Prop :=
  (n < h)%nat /\ ext_mem_ok h extra = true /\ ext_ptr_ok h pextra = true /\
  no_sizeof_names extra = true /\ no_alloc_keys pextra = true.

Lemma wfh_enc : forall (c hbuf T : nat) (P key seed : list N) (cm hm : N) (h n : nat) (extra : memory) (pextra : locs) (ke : mkind),
    enc_params c hbuf T P key seed cm hm -> (N.of_nat (64 * hbuf) < 2 ^ 32)%N ->
    left_behind_ok c hbuf T key seed cm hm h n extra pextra ->
    writeFileHmac_spec (PWenc hbuf T P key seed cm hm h (heap_name n) extra pextra ke) c hbuf T hm key.
Proof.
  intros c hbuf T P key seed cm hm h n extra pextra ke EP Hh (Hn & Hm & Hp & Hs & Ha).
  exact (writeFileHmac_enc_ok' c hbuf T P key seed cm hm h n extra pextra ke EP Hh Hn Hm Hp Hs Ha).
Qed.

Definition setup_enc_spec (c hbuf T : nat) (P key seed : list N) (cm hm : N) (ke : mkind) : Prop :=
  exists (h n : nat) (extra : memory) (pextra : locs) (sm0 : memory),
    left_behind_ok c hbuf T key seed cm hm h n extra pextra /\
    let PW := PWenc hbuf T P key seed cm hm h (heap_name n) extra pextra ke in
    (forall i, (i < T)%nat -> w_srep PW T i (firstn 16 (iv_chain seed T)) sm0) /\
    let cs0 := whole_init WEnc c hbuf T (Z.of_N cm) (Z.of_N hm) P key seed in
    let cs2 := @cstate_md (wlayout PW) c T true P I_WaitUpdate (repeat W_New T) (@d_init0 (wlayout PW) c T sm0) (@g_init0 (wlayout PW) T) in
    forall fuel, enabled_list cs0 = [O] /\
     (cstep whole_prog [] fuel cs0 0 = NoFuel \/
      exists cs1 e1, cstep whole_prog [] fuel cs0 0 = Ok (cs1, e1) /\ enabled_list cs1 = [O] /\
        (cstep whole_prog [] fuel cs1 0 = NoFuel \/ exists e2, cstep whole_prog [] fuel cs1 0 = Ok (cs2, e2))).

Theorem encrypt_modulo_setup :
  forall (c hbuf T : nat) (P key seed : list N) (cm hm : N),
  enc_params c hbuf T P key seed cm hm -> (N.of_nat (16 * c) < 2 ^ 32)%N -> (N.of_nat (64 * hbuf) < 2 ^ 32)%N ->
  forall ke, create true cm = Some ke ->
  setup_enc_spec c hbuf T P key seed cm hm ke ->
  forall rnd,
  match src_encrypt_file c hbuf T cm hm P key seed rnd with
  | SOk (b, o, i, _) => b = true /\ enc c hbuf T P key cm hm seed = FileModel.Ok o /\ i = P
  | SErr w => w = "out of fuel"%string \/ w = "step bound reached"%string
  end.
Proof.
  intros c hbuf T P key seed cm hm EP Hc32 Hh32 ke Hke (h & n & extra & pextra & sm0 & LB & Hsm & Hpre).
  pose proof LB as (Hn & Hext & Hpext & _).
  exact (encrypt_modulo_setup_and_hmac c hbuf T P key seed cm hm EP Hc32 ke Hke h n extra pextra Hn Hext Hpext
           (wfh_enc c hbuf T P key seed cm hm h n extra pextra ke EP Hh32 LB) sm0 Hsm Hpre).
Qed.
Print Assumptions encrypt_modulo_setup.
