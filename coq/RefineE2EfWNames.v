(* Stage 5: names of heap objects "#<n>..." -- the number of a name, used to tell the objects of the buffer group,
   of the stream objects and of the frames apart. *)
From Coq Require Import ZArith NArith List String Bool Lia Ascii Arith.
From Wencry Require Import MiniC MiniCLemmas.
From Wencry Require RefineConcMem RefineConcSim.
Import ListNotations.
Local Open Scope string_scope.
Local Open Scope list_scope.

Notation is_digit := RefineConcMem.is_digit.
Notation digits := RefineConcMem.digits.
Fixpoint takedig (s : string) : string :=
  match s with String c r => if is_digit c then String c (takedig r) else EmptyString | EmptyString => EmptyString end.
Lemma takedig_app : forall u c r, digits u = true -> is_digit c = false -> takedig (u ++ String c r) = u.
Proof.
  induction u as [|a u IH]; intros c r D N; cbn [append takedig]; [rewrite N; reflexivity|].
  cbn [RefineConcMem.digits] in D. apply andb_true_iff in D. destruct D as [D1 D2]. rewrite D1. f_equal. apply IH; assumption.
Qed.
Lemma takedig_all : forall u, digits u = true -> takedig u = u.
Proof.
  induction u as [|a u IH]; intros D; cbn [takedig]; [reflexivity|].
  cbn [RefineConcMem.digits] in D. apply andb_true_iff in D. destruct D as [D1 D2]. rewrite D1. f_equal. apply IH; assumption.
Qed.

(* the number of a heap name: "#<digits><rest>" *)
Definition hnum (k : string) : option nat :=
  match k with String c r => if Ascii.eqb c "#" then Some (parse_nat 0 (takedig r)) else None | EmptyString => None end.
Definition HN (n : nat) (sep : ascii) (r : string) : string := String "#" (nat_string n ++ String sep r).
Lemma hnum_HN : forall n sep r, is_digit sep = false -> hnum (HN n sep r) = Some n.
Proof.
  intros n sep r N. unfold hnum, HN. cbn [Ascii.eqb Bool.eqb]. rewrite takedig_app by (try apply RefineConcMem.digits_nat_string; exact N).
  now rewrite parse_nat_string.
Qed.
Lemma hnum_heap : forall n, hnum (heap_name n) = Some n.
Proof. intros n. unfold hnum, heap_name. cbn [Ascii.eqb Bool.eqb]. rewrite takedig_all by apply RefineConcMem.digits_nat_string. now rewrite parse_nat_string. Qed.
Lemma hnum_neq : forall k1 k2 a b, hnum k1 = Some a -> hnum k2 = Some b -> a <> b -> String.eqb k1 k2 = false.
Proof. intros k1 k2 a b H1 H2 N. destruct (String.eqb k1 k2) eqn:E; [|reflexivity]. apply String.eqb_eq in E. subst k2. congruence. Qed.
Lemma hnum_none_neq : forall k1 k2 a, hnum k1 = Some a -> hnum k2 = None -> String.eqb k1 k2 = false.
Proof. intros k1 k2 a H1 H2. destruct (String.eqb k1 k2) eqn:E; [|reflexivity]. apply String.eqb_eq in E. subst k2. congruence. Qed.

(* the shapes of the names *)
Lemma heap_dot : forall n x, ((heap_name n ++ ".") ++ x)%string = HN n "." x.
Proof. intros. unfold heap_name, HN. cbn [append]. rewrite append_assoc_s. reflexivity. Qed.
Lemma heap_elem : forall n i x, (RefineConcSim.elem_pfx (heap_name n) i ++ x)%string = HN n "[" (z_string (Z.of_nat i) ++ "]." ++ x).
Proof. intros. unfold RefineConcSim.elem_pfx, heap_name, HN. cbn [append]. rewrite !append_assoc_s. cbn [append]. rewrite !append_assoc_s. reflexivity. Qed.
Lemma heap_key : forall n off, (0 < off)%Z -> ptr_key (heap_name n) off = HN n "@" (z_string off).
Proof. intros n off H. unfold ptr_key. destruct (off =? 0)%Z eqn:E; [apply Z.eqb_eq in E; lia|]. unfold heap_name, HN. cbn [append]. reflexivity. Qed.
Lemma heap_key0 : forall n, ptr_key (heap_name n) 0 = heap_name n.
Proof. reflexivity. Qed.

(* association lists whose heap names all lie below h *)
Definition below (h : nat) (k : string) : bool := match hnum k with Some n => (n <? h)%nat | None => true end.
Lemma mget_below : forall h (m : memory) k n, forallb (fun kv => below h (fst kv)) m = true -> hnum k = Some n -> (h <= n)%nat -> mget m k = None.
Proof.
  intros h m k n. induction m as [|[k' o] m IH]; intros F H L; cbn [mget]; [reflexivity|].
  cbn [forallb fst] in F. apply andb_true_iff in F. destruct F as [F1 F2].
  destruct (String.eqb k k') eqn:E; [|apply IH; assumption].
  apply String.eqb_eq in E. subst k'. unfold below in F1. rewrite H in F1. apply Nat.ltb_lt in F1. lia.
Qed.
Lemma lget_below : forall h A (m : list (string * A)) k n, forallb (fun kv => below h (fst kv)) m = true -> hnum k = Some n -> (h <= n)%nat -> lget m k = None.
Proof.
  intros h A m k n. induction m as [|[k' o] m IH]; intros F H L; cbn [lget]; [reflexivity|].
  cbn [forallb fst] in F. apply andb_true_iff in F. destruct F as [F1 F2].
  destruct (String.eqb k k') eqn:E; [|apply IH; assumption].
  apply String.eqb_eq in E. subst k'. unfold below in F1. rewrite H in F1. apply Nat.ltb_lt in F1. lia.
Qed.
(* ... and which do not contain a given key *)
Lemma mget_absent : forall (m : memory) k, forallb (fun kv => negb (String.eqb k (fst kv))) m = true -> mget m k = None.
Proof.
  induction m as [|[k' o] m IH]; intros k F; cbn [mget]; [reflexivity|].
  cbn [forallb fst] in F. apply andb_true_iff in F. destruct F as [F1 F2]. destruct (String.eqb k k'); [discriminate F1|apply IH; exact F2].
Qed.

(* prefix test *)
Fixpoint pfxb (p k : string) : bool :=
  match p with
  | EmptyString => true
  | String a p' => match k with String b k' => Ascii.eqb a b && pfxb p' k' | EmptyString => false end
  end.
Lemma pfxb_app : forall p r, pfxb p (p ++ r) = true.
Proof. induction p as [|a p IH]; intros r; cbn [pfxb append]; [reflexivity|]. rewrite Ascii.eqb_refl. apply IH. Qed.
Lemma lget_flat_at : forall A (f : nat -> list (string * A)) k i n a, (forall j, j <> i -> lget (f j) k = None) -> (a <= i < a + n)%nat ->
  lget (flat_map f (seq a n)) k = lget (f i) k.
Proof.
  intros A f k i. induction n as [|n IH]; intros a H R; [lia|]. cbn [seq flat_map]. rewrite RefineConcMem.lget_app.
  destruct (Nat.eq_dec a i) as [->|N].
  - destruct (lget (f i) k) eqn:E; [reflexivity|].
    assert (G : forall l, lget (flat_map f l) k = None).
    { induction l as [|x l IHl]; cbn [flat_map]; [reflexivity|]. rewrite RefineConcMem.lget_app. destruct (Nat.eq_dec x i) as [->|N]; [rewrite E|rewrite (H x N)]; exact IHl. }
    apply G.
  - rewrite (H a N). apply IH; [exact H|lia].
Qed.
Lemma lget_flat_none : forall A (f : nat -> list (string * A)) l k, (forall j, lget (f j) k = None) -> lget (flat_map f l) k = None.
Proof. induction l as [|x l IH]; intros k H; cbn [flat_map]; [reflexivity|]. rewrite RefineConcMem.lget_app, H. apply IH. exact H. Qed.
