(* PipeConc side of the transfer of C03 to executions that have not yet joined: in every reachable state in which all
   workers have returned, everything has been exported -- the output is already the sequential reference (the remaining
   steps of the I/O thread: turn_iter's exit and the joins, do not write). *)
From Coq Require Import ZArith NArith List Bool Lia Arith PeanoNat.
From Wencry Require Import Bytes FileModel PipeConc PipeProps PipeLemmas PipeInv RefineConcPipe.
Import ListNotations.
Local Open Scope nat_scope.

Section Gen.
Variable S : Type.
Variable tr : S -> list N -> S * list N.
Variable tr_event : nat -> S -> list event.
Variable c : nat.
Variable ispadding : bool.
Variable T : nat.
Variable sigma0 : list S.
Variable ls : list load.
Variable dS : S.
Hypothesis HT : 1 <= T.

Notation BufInv := (BufInv S tr c ispadding T sigma0 ls dS).
Notation InvQR := (InvQR S tr c ispadding T sigma0 ls dS).
Notation m := (m ls).

(* a worker that has returned: its buffer is not in the I/O thread's window, and the last visit on it was a NODATA one *)
Lemma BufInv_done_dead n o i b x : BufInv n o i b W_Done x ->
  is_own o = false /\ exists n', n = Datatypes.S n' /\ m <= n' * T + i.
Proof.
  intros Hb. destruct (is_own o) eqn:Eo.
  - apply BufInv_own in Hb; [|exact Eo]. destruct Hb as (p & _ & _ & Hc & _). exfalso.
    unfold own_ctl in Hc. destruct n; destruct Hc as [_ Hc]; exact Hc.
  - split; [reflexivity|]. apply BufInv_idle in Hb; [|exact Eo]. destruct Hb as [Hb _].
    unfold IdleInv in Hb. destruct n as [|n'].
    + destruct Hb as (_ & _ & _ & _ & Hf & _). contradiction.
    + exists n'. split; [reflexivity|]. destruct (Nat.ltb_spec (n' * T + i) m) as [L|L]; [|exact L].
      destruct Hb as [_ Hc]. unfold hold_ctl in Hc. destruct (b_st b); try contradiction. destruct Hc as [Hc _]. contradiction.
Qed.

Lemma all_workers_done_output q r s :
  InvQR q r s -> (forall i, i < T -> getw S s i = W_Done) ->
  all_ok (outs S tr c ispadding T sigma0 ls m) ->
  post_fin (io S s) = true /\ output S s = ok_bytes (outs S tr c ispadding T sigma0 ls m) /\ crashed S s = None.
Proof.
  intros (Lb & Lw & Lx & Hr & Ht & Hio & Hbuf) Hdone Hok.
  unfold IoInv, IoInvC in Hio. destruct Hio as (HV & _ & _ & _ & _ & Hout).
  pose proof (Hbuf r Hr) as Hbr. rewrite (Hdone r Hr) in Hbr. rewrite nvis_self, iot_self in Hbr.
  apply BufInv_done_dead in Hbr. destruct Hbr as (Hown & n' & En & Hm).
  destruct (post_fin (io S s)) eqn:Epf.
  - (* the visit on buffer r is complete *)
    injection En as En. subst n'.
    assert (HVm : q * T + r + 1 = m + T).
    { destruct (Nat.eq_dec T 1) as [E1|N1]; [lia|].
      destruct (Nat.eq_dec (r + 1) T) as [E|N].
      - (* r is the last buffer: look at buffer 0 *)
        assert (H0 : 0 < T) by lia. assert (N0 : 0 <> r) by lia.
        pose proof (Hbuf 0 H0) as Hb0. rewrite (Hdone 0 H0) in Hb0. rewrite nvis_other in Hb0 by exact N0.
        replace (0 <? r) with true in Hb0 by (symmetry; apply Nat.ltb_lt; lia).
        apply BufInv_done_dead in Hb0. destruct Hb0 as (_ & n0 & E0 & Hm0). injection E0 as E0. subst n0. nia.
      - assert (H1 : r + 1 < T) by lia. assert (N1' : r + 1 <> r) by lia.
        pose proof (Hbuf (r + 1) H1) as Hb1. rewrite (Hdone _ H1) in Hb1. rewrite nvis_other in Hb1 by exact N1'.
        replace (r + 1 <? r) with false in Hb1 by (symmetry; apply Nat.ltb_ge; lia).
        apply BufInv_done_dead in Hb1. destruct Hb1 as (_ & n1 & E1 & Hm1). subst q. nia. }
    split; [reflexivity|]. destruct (Hout Hok) as [Ho Hcr]. split; [|exact Hcr].
    rewrite Ho. f_equal. f_equal. unfold exports_done. destruct (io S s); try discriminate Epf; lia.
  - exfalso. subst q. nia.
Qed.
End Gen.

(* ---- the tagging instance ---- *)
Section Tag.
Variables (c T : nat) (pad : bool) (input0 : list N).
Hypothesis Hc : 1 <= c.
Hypothesis HT : 1 <= T.
Hypothesis Hbytes : bytesb input0 = true.
Local Notation St := (N * N)%type.
Local Notation ls := (loads_of c pad input0).

Lemma reach_all_done_output : forall s, reach c T pad input0 s -> (forall i, i < T -> getw St s i = W_Done) ->
  post_fin (io St s) = true /\
  output St s = ok_bytes (snd (seq_chunks St tag_tr c pad T (tag_init T) 0 ls)).
Proof.
  intros s Hr Hd. destruct (reach_Inv c T pad input0 Hc HT Hbytes s Hr) as (q & r & Hinv).
  destruct (all_workers_done_output St tag_tr tag_event c pad T (tag_init T) ls (0%N, 0%N) HT q r s Hinv Hd (all_ok_tag c T pad input0)) as (H1 & H2 & _).
  split; [exact H1|]. rewrite H2. unfold outs, m. rewrite firstn_all. reflexivity.
Qed.

(* from such a state the I/O thread finishes in at most one step *)
Lemma post_fin_all_done_terminal : forall s, length (wpcs St s) = T -> (forall i, i < T -> getw St s i = W_Done) ->
  io St s = I_Done -> terminal St s = true.
Proof.
  intros s Lw Hd Eio. unfold terminal. rewrite Eio. apply forallb_forall. intros p Hp.
  destruct (In_nth _ _ W_Done Hp) as (i & Hi & <-). rewrite Lw in Hi. specialize (Hd i Hi). unfold getw in Hd. rewrite Hd. reflexivity.
Qed.
End Tag.
