(* NIST SP 800-38A modes (sections 6.1-6.5 and Appendix B.1), written from the standard,
   generic in the forward / inverse block cipher. *)
From Wencry Require Import Bytes.
Local Open Scope N_scope.

Section Modes.
Variable E D : list N -> list N.   (* CIPH_K and CIPH^-1_K *)

(* 6.1 ECB *)
Definition ecb_enc (ps : list (list N)) : list (list N) := map E ps.
Definition ecb_dec (cs : list (list N)) : list (list N) := map D cs.

(* 6.2 CBC: C_1 = CIPH(P_1 xor IV), C_j = CIPH(P_j xor C_(j-1)) *)
Fixpoint cbc_enc (iv : list N) (ps : list (list N)) : list (list N) :=
  match ps with
  | [] => []
  | p :: r => let c := E (xorl p iv) in c :: cbc_enc c r
  end.
Fixpoint cbc_dec (iv : list N) (cs : list (list N)) : list (list N) :=
  match cs with
  | [] => []
  | c :: r => xorl (D c) iv :: cbc_dec c r
  end.

(* 6.3 CFB with s = 128: I_1 = IV, I_j = C_(j-1), C_j = P_j xor CIPH(I_j) *)
Fixpoint cfb_enc (iv : list N) (ps : list (list N)) : list (list N) :=
  match ps with
  | [] => []
  | p :: r => let c := xorl p (E iv) in c :: cfb_enc c r
  end.
Fixpoint cfb_dec (iv : list N) (cs : list (list N)) : list (list N) :=
  match cs with
  | [] => []
  | c :: r => xorl c (E iv) :: cfb_dec c r
  end.

(* 6.4 OFB: I_1 = IV, O_j = CIPH(I_j), I_j = O_(j-1), C_j = P_j xor O_j *)
Fixpoint ofb (iv : list N) (ps : list (list N)) : list (list N) :=
  match ps with
  | [] => []
  | p :: r => let o := E iv in xorl p o :: ofb o r
  end.

(* Appendix B.1 standard incrementing function on all b = 128 bits:
   the block is the big-endian integer, [X + 1 mod 2^128] *)
Definition be_val (b : list N) : N := fold_left (fun a x => a * 256 + x) b 0.
Fixpoint be_bytes (n : nat) (v : N) : list N :=
  match n with
  | O => []
  | S n' => be_bytes n' (v / 256) ++ [v mod 256]
  end.
Definition incr128 (b : list N) : list N := be_bytes 16 ((be_val b + 1) mod 2 ^ 128).

(* 6.5 CTR: O_j = CIPH(T_j), C_j = P_j xor O_j, T_1 = IV, T_(j+1) = incr T_j *)
Fixpoint ctr (t : list N) (ps : list (list N)) : list (list N) :=
  match ps with
  | [] => []
  | p :: r => xorl p (E t) :: ctr (incr128 t) r
  end.

(* mode numbers as documented: 0 ECB, 1 CBC, 2 CTR, 3 CFB, 4 OFB *)
Definition mode_enc (m : N) (iv : list N) (ps : list (list N)) : option (list (list N)) :=
  match m with
  | 0 => Some (ecb_enc ps)
  | 1 => Some (cbc_enc iv ps)
  | 2 => Some (ctr iv ps)
  | 3 => Some (cfb_enc iv ps)
  | 4 => Some (ofb iv ps)
  | _ => None
  end.
Definition mode_dec (m : N) (iv : list N) (cs : list (list N)) : option (list (list N)) :=
  match m with
  | 0 => Some (ecb_dec cs)
  | 1 => Some (cbc_dec iv cs)
  | 2 => Some (ctr iv cs)
  | 3 => Some (cfb_dec iv cs)
  | 4 => Some (ofb iv cs)
  | _ => None
  end.
End Modes.
