From Coq Require Import ZArith NArith List String Bool.
From Wencry Require Import Bytes HashModel AesModel ModesModel FileModel FileProps PipeConc MiniC MiniCRun MiniCLemmas MiniCConc SrcRun SrcRun2 SrcRun5 RefineE2EWhole.
From Wencry Require RefineConcSim RefineE2ENames RefineE2EfHashB3.
From Wencry Require Import RefineE2EfLay RefineE2EfWNames RefineE2EfWLay RefineE2EfGen RefineE2EfEncDefs RefineE2EfHashSpec RefineE2EfSetup1.
Import ListNotations.
Local Open Scope N_scope.
Definition key := map N.of_nat (seq 100 16).
Definition stepn (cs : cstate) (tid : nat) := match cstep whole_prog [] 2000000 cs tid with MiniC.Ok (cs', ev) => cs' | _ => cs end.
(* the premises of RefineE2EfFinal2.setup2_enc_spec on concrete runs: after the first step the state IS cs1_enc with h / extra / pextra read off it
   (n = 1), and every name condition holds; its conclusion on the same runs is evidence/T7.v (the state after the second step is the canonical one) *)
Definition check (c hbuf T : nat) (cm hm : N) (P seed : list N) :=
  let cs0 := whole_init WEnc c hbuf T (Z.of_N cm) (Z.of_N hm) P key seed in
  let cs1 := stepn cs0 0 in
  let m1 := M1e c hbuf T key seed (Z.of_N cm) (Z.of_N hm) in
  let h := fresh (cs_sh cs1) in
  let extra := skipn (List.length m1) (mem (cs_sh cs1)) in
  let pextra := skipn (List.length PS1) (ptrs (cs_sh cs1)) in
  (RefineConcSim.cstate_eqb cs1 (cs1_enc c hbuf T P key seed cm hm h 1 extra pextra),
   ext_mem_ok h extra, ext_ptr_ok h pextra, RefineE2EfHashB3.no_sizeof_names extra, RefineE2EfHashB3.no_alloc_keys pextra,
   forallb (fun kv => match mget extra (fst kv) with None => true | Some _ => false end) m1,
   match mget extra "#1" with
   | Some o => (match o_ty o with U8 => true | _ => false end) && Nat.leb 16 (List.length (o_cells o)) &&
               RefineConcSim.list_eqb Z.eqb (firstn 16 (o_cells o)) (map Z.of_N (firstn 16 (iv_chain seed T)))
   | None => false end).
Eval vm_compute in check 1 1 2 1 0 (map N.of_nat (seq 7 40)) [1;2;3].
Eval vm_compute in check 2 1 3 2 1 (map N.of_nat (seq 7 100)) [5].
Eval vm_compute in check 1 2 1 0 2 (map N.of_nat (seq 7 5)) [].
Eval vm_compute in check 3 1 4 4 0 [] [9;9].
