From Coq Require Import ZArith NArith List String Bool.
From Wencry Require Import Bytes HashModel FileModel FileProps MiniC MiniCRun MiniCConc SrcRun SrcRun2 SrcRun5 RefineE2EWhole.
From Wencry Require RefineConcSim.
From Wencry Require Import RefineE2EfLay RefineE2EfWNames RefineE2EfWLay RefineE2EfEncDefs RefineE2EfHashSpec.
Import ListNotations.
Local Open Scope N_scope.
Definition P40 := map N.of_nat (seq 7 40).
Definition key := map N.of_nat (seq 100 16).
Definition seed := [1;2;3].
Definition l0 : locs := [("fsize"%string, VInt 40); ("r_buf"%string, VPtr "seed" 0)].
Definition s1 := {| mem := M1e 1 1 2 key seed 1 0; loc := l0; pre := "rc."; files := FS0 P40; ptrs := PS1; fresh := 1 |}.
Definition r := call whole_prog [] 100000 "runcrypt::prepare_IV/1" "rc." [VPtr "seed" 0] s1.
Definition m1 := M1e 1 1 2 key seed 1 0.
Definition hdr := file_header 1 0 (iv_chain seed 2) 2.
Eval vm_compute in match r with
  | MiniC.Ok (v, s') =>
      let extra := skipn (List.length m1) (mem s') in
      let pextra := skipn (List.length PS1) (ptrs s') in
      Some (v, RefineConcSim.mem_eqb (firstn (List.length m1) (mem s')) m1, RefineConcSim.locs_eqb (firstn (List.length PS1) (ptrs s')) PS1,
            fresh s', ext_mem_ok (fresh s') extra, ext_ptr_ok (fresh s') pextra, RefineConcSim.locs_eqb (loc s') l0, pre s',
            match lget (files s') "fout" with Some f => (RefineConcSim.list_eqb Z.eqb (cf_data f) (map Z.of_N hdr), cf_pos f, cf_eof f) | None => (false, 0%nat, true) end,
            match lget (files s') "fin" with Some f => (cf_pos f, cf_eof f) | None => (99%nat, true) end,
            map fst (files s'),
            match mget extra "#1" with Some o => (o_ty o, List.length (o_cells o), RefineConcSim.list_eqb Z.eqb (firstn 16 (o_cells o)) (map Z.of_N (firstn 16 (iv_chain seed 2)))) | None => (U64, 0%nat, false) end,
            forallb (fun kv => match mget extra (fst kv) with None => true | Some _ => false end) m1)
  | _ => None end.
