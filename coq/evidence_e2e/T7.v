From Coq Require Import ZArith NArith List String Bool.
From Wencry Require Import Bytes HashModel AesModel ModesModel FileModel FileProps PipeConc MiniC MiniCRun MiniCLemmas MiniCConc SrcRun SrcRun2 SrcRun5 RefineE2EWhole.
From Wencry Require RefineConcSim RefineE2ENames RefineE2EfHashB3.
From Wencry Require Import RefineE2EfLay RefineE2EfWNames RefineE2EfWLay RefineE2EfGen RefineE2EfEncDefs RefineE2EfHashSpec.
Import ListNotations.
Local Open Scope N_scope.
Definition key := map N.of_nat (seq 100 16).
Definition stepn (cs : cstate) (tid : nat) := match cstep whole_prog [] 2000000 cs tid with MiniC.Ok (cs', ev) => cs' | _ => cs end.
(* the premise Hpre of SRC_execute_encrypt_is_model_modulo_setup_and_writeFileHmac on concrete instances, with the layout instance PWenc:
   extra / pextra / the stream memory are read off the state, everything else is PWenc's *)
Definition check (c hbuf T : nat) (cm hm : N) (P seed : list N) : bool * bool * bool * bool * (bool * bool * bool * bool) :=
  let cs0 := whole_init WEnc c hbuf T (Z.of_N cm) (Z.of_N hm) P key seed in
  let cs2 := stepn (stepn cs0 0) 0 in
  let m1 := M1e c hbuf T key seed (Z.of_N cm) (Z.of_N hm) in
  let m2 := mem (cs_sh cs2) in
  let h := (fresh (cs_sh cs2) - 4 - T)%nat in
  let nextra := (List.length (wp_memB (PWenc hbuf T P key seed cm hm h "#1" [] [] CBC_Enc) c T) - 1)%nat in
  (* memB = [#0] ++ extra ends where "#h.turn" begins *)
  let afterlive := skipn (List.length (memA_e hbuf key seed cm hm c T) + 1) m2 in
  let fix upto (l : memory) := match l with [] => [] | kv :: r => if String.eqb (fst kv) (heap_name h ++ ".turn") then [] else kv :: upto r end in
  let memB := upto afterlive in
  let extra := tl memB in
  let p2 := ptrs (cs_sh cs2) in
  let fix uptop (l : locs) := match l with [] => [] | kv :: r => if String.eqb (fst kv) ("class:" ++ heap_name h ++ ".") then [] else kv :: uptop r end in
  let pextra := skipn 5 (uptop (skipn 4 p2)) in
  let fix from (l : memory) := match l with [] => [] | kv :: r => if String.eqb (fst kv) (heap_name (h + 3)) then r else from r end in
  let sm0 := from m2 in
  let ke := match create true cm with Some k => k | None => CBC_Enc end in
  let PW := PWenc hbuf T P key seed cm hm h "#1" extra pextra ke in
  let cs2' := @cstate_md (wlayout PW) c T true P I_WaitUpdate (repeat W_New T) (@d_init0 (wlayout PW) c T sm0) (@g_init0 (wlayout PW) T) in
  (RefineConcSim.cstate_eqb cs2 cs2', ext_mem_ok h extra, ext_ptr_ok h pextra,
   forallb (fun i => match mget sm0 (wmp PW i ++ "iv") with Some o => RefineConcSim.list_eqb Z.eqb (o_cells o) (map Z.of_N (firstn 16 (iv_chain seed T))) | None => false end) (seq 0 T),
   (* the names of sm0 (sm_names_ok): heap objects below h+4+T only, no "sizeof:"; and the two extra conditions of agent proof-hash:
      no "sizeof:" name in extra, no "alloc:" key in pextra *)
   (forallb (fun kv => match hnum (fst kv) with Some n => Nat.ltb n (h + 4 + T) | None => true end &&
                       match RefineE2ENames.strip "sizeof:" (fst kv) with Some _ => false | None => true end) sm0,
    RefineE2EfHashB3.no_sizeof_names extra,
    RefineE2EfHashB3.no_alloc_keys pextra,
    (* extra is disjoint from M1e (not needed any more) *)
    forallb (fun kv => match mget extra (fst kv) with None => true | Some _ => false end) m1)).
Eval vm_compute in check 1 1 2 1 0 (map N.of_nat (seq 7 40)) [1;2;3].
Eval vm_compute in check 2 1 3 2 1 (map N.of_nat (seq 7 100)) [5].
Eval vm_compute in check 1 2 1 0 2 (map N.of_nat (seq 7 5)) [].
Eval vm_compute in check 3 1 4 4 0 [] [9;9].
