From Coq Require Import ZArith NArith List String Bool.
From Wencry Require Import Bytes HashModel FileModel FileProps MiniC MiniCRun MiniCConc SrcRun SrcRun2 SrcRun5.
Import ListNotations.
Local Open Scope N_scope.
Definition P40 := map N.of_nat (seq 7 40).
Definition key := map N.of_nat (seq 100 16).
Definition tst c hbuf T cm hm P seed rnd :=
  match src_encrypt_file c hbuf T cm hm P key seed rnd, enc c hbuf T P key cm hm seed with
  | SOk (b,o,i,k), FileModel.Ok o' => (b, list_eqb o o', list_eqb i P, k, ""%string)
  | SErr w, _ => (false,false,false,0%nat,w)
  | _, _ => (false,false,false,1%nat,"model"%string)
  end.
Time Eval vm_compute in tst 1 1 2 1 0 P40 [1;2;3] 0.
Time Eval vm_compute in tst 1 1 2 1 0 P40 [1;2;3] 7.
Time Eval vm_compute in tst 1 1 2 2 1 P40 [1;0;3] 7.
Time Eval vm_compute in tst 1 1 2 0 0 P40 [] 7.
Time Eval vm_compute in tst 2 1 1 4 2 P40 [0] 9.
