From Coq Require Import ZArith NArith List String Bool.
From Wencry Require Import Bytes HashModel AesModel ModesModel FileModel FileProps PipeConc MiniC MiniCRun MiniCLemmas MiniCConc SrcRun SrcRun2 SrcRun5 RefineE2EWhole.
From Wencry Require RefineConcSim.
From Wencry Require Import RefineE2EfLay RefineE2EfWNames RefineE2EfWLay RefineE2EfGen RefineE2EfEncDefs RefineE2EfHashSpec RefineE2EfSetup1 RefineE2EfSetup2Spec.
Import ListNotations.
Local Open Scope N_scope.
Definition key := map N.of_nat (seq 100 16).
Definition stepn (cs : cstate) (tid : nat) := match cstep whole_prog [] 2000000 cs tid with MiniC.Ok (cs', ev) => cs' | _ => cs end.
(* gi_if_spec and pa_rest_spec (RefineE2EfSetup2Spec) on concrete runs: h / extra / pextra read off the state after the first step (n = 1),
   sm0 and the final locals read off the result of the big step *)
Definition check (c hbuf T : nat) (cm hm : N) (P seed : list N) :=
  let cs0 := whole_init WEnc c hbuf T (Z.of_N cm) (Z.of_N hm) P key seed in
  let cs1 := stepn cs0 0 in
  let m1 := M1e c hbuf T key seed (Z.of_N cm) (Z.of_N hm) in
  let h := fresh (cs_sh cs1) in
  let extra := skipn (List.length m1) (mem (cs_sh cs1)) in
  let pextra := skipn (List.length PS1) (ptrs (cs_sh cs1)) in
  let ke := match create true cm with Some k => k | None => CBC_Enc end in
  let r1 := exec whole_prog [] 100000 gi_if2 (s_lock c hbuf T P key seed cm hm h extra pextra) in
  let ok1 := match r1 with MiniC.Ok (Normal, s) => RefineConcSim.state_eqb s (s_new c hbuf T P key seed cm hm h 1 extra pextra ke) | _ => false end in
  let r2 := exec whole_prog [] 1000000 pa_rest (s_pa0 c hbuf T P key seed cm hm h 1 extra pextra ke) in
  let ok2 := match r2 with
    | MiniC.Ok (Returned (Some v), s) =>
        let fix from (l : memory) := match l with [] => [] | kv :: r => if String.eqb (fst kv) (heap_name (h + 3)) then r else from r end in
        let sm0 := from (mem s) in
        RefineConcSim.value_eqb v (VPtr (heap_name (h + 3)) 0) &&
        RefineConcSim.state_eqb s (s_pa1 c hbuf T P key seed cm hm h 1 extra pextra ke sm0 (loc s))
    | _ => false end in
  (ok1, ok2).
Eval vm_compute in check 1 1 2 1 0 (map N.of_nat (seq 7 40)) [1;2;3].
Eval vm_compute in check 2 1 3 2 1 (map N.of_nat (seq 7 100)) [5].
Eval vm_compute in check 1 2 1 0 2 (map N.of_nat (seq 7 5)) [].
Eval vm_compute in check 3 1 4 4 0 [] [9;9].
