From Coq Require Import ZArith NArith List String Bool.
From Wencry Require Import Bytes HashModel AesModel ModesModel FileModel FileProps PipeConc MiniC MiniCRun MiniCConc SrcRun SrcRun2 SrcRun5.
From Wencry Require RefineConcSim.
From Wencry Require Import RefineE2EfLay RefineE2EfWLay.
Import ListNotations.
Local Open Scope N_scope.
Definition P40 := map N.of_nat (seq 7 40).
Definition key := map N.of_nat (seq 100 16).
Definition cs0 := whole_init WEnc 1 1 2 1 0 P40 key [1;2;3].
Definition stepn (cs : cstate) (tid : nat) := match cstep whole_prog [] 1000000 cs tid with MiniC.Ok (cs', ev) => cs' | _ => cs end.
Definition cs2 := stepn (stepn cs0 0) 0.
(* split an association list before the first key satisfying p *)
Fixpoint before {A} (p : string -> bool) (l : list (string * A)) := match l with [] => [] | kv :: r => if p (fst kv) then [] else kv :: before p r end.
Fixpoint from {A} (p : string -> bool) (l : list (string * A)) := match l with [] => [] | kv :: r => if p (fst kv) then l else from p r end.
Definition m2 := mem (cs_sh cs2).
Definition p2 := ptrs (cs_sh cs2).
Definition memA := before (String.eqb "live_num") m2.
Definition memB := before (String.eqb "#5.turn") (tl (from (String.eqb "live_num") m2)).
Definition dsm := tl (from (String.eqb "#8") m2).
Definition pA := before (String.eqb "instance") p2.
Definition pB := before (String.eqb "class:#5.") (tl (from (String.eqb "instance") p2)).
Definition pC := before (String.eqb "class:#9.") (from (String.eqb "rc.aesfactory.iv") p2).
Definition main2 := nth 0 (cs_thr cs2) {| ct_cur := SSkip; ct_k := KStop; ct_loc := []; ct_pre := ""; ct_st := TDone |}.
(* the frame under run_multicry: skip wait_update's frames *)
Fixpoint kcalls (k : kont) : list (list (string * value) * string * kont) :=
  match k with KStop => [] | KSeq _ k' | KLoopBody _ _ _ k' | KLoopStep _ _ _ k' | KDoBody _ _ k' => kcalls k' | KCall _ l p k' => (l, p, k') :: kcalls k' end.
Definition botf := nth 2 (kcalls (ct_k main2)) ([], ""%string, KStop).
Definition PP : wpar := {|
  wp_h := 5; wp_memA := fun _ _ => memA; wp_memB := fun _ _ => memB; wp_pA := fun _ => pA; wp_pB := fun _ => pB; wp_pC := fun _ => pC;
  wp_cp := "rc.crym."; wp_blocs := fun _ _ => fst (fst botf); wp_bpre := snd (fst botf); wp_kb := fun _ _ => snd botf;
  wp_tdone := fun _ _ => main2; wp_kind := CBC_Enc; wp_ks := genall key; wp_iv := []; wp_out0 := [] |}.
Definition mb_init (c : nat) : mbuf := {| mb_cells := repeat 0%Z (16 * c); mb_tot := 0; mb_now := 0; mb_tail := 0; mb_fin := false; mb_st := 0 |}.
Definition fout2 := match lget (files (cs_sh cs2)) "fout" with Some f => cf_data f | None => [] end.
Definition d_init (c T : nat) : mdata := {| d_turn := 0; d_over := false; d_live := T; d_sm := dsm; d_bufs := repeat (mb_init c) T; d_pos := 0; d_eof := false; d_out := fout2 |}.
Definition g_init (T : nat) : tghost := {| g_rb := []; g_bu := []; g_wl := map (@wl0 (wlayout PP)) (seq 0 T) |}.
Definition cs2' := @cstate_md (wlayout PP) 1 2 true P40 I_WaitUpdate (repeat W_New 2) (d_init 1 2) (g_init 2).
Eval vm_compute in RefineConcSim.cstate_eqb cs2 cs2'.
Eval vm_compute in (RefineConcSim.state_eqb (cs_sh cs2) (cs_sh cs2'), RefineConcSim.list_eqb RefineConcSim.cthread_eqb (cs_thr cs2) (cs_thr cs2'),
   RefineConcSim.mem_eqb (mem (cs_sh cs2)) (mem (cs_sh cs2')), RefineConcSim.locs_eqb (ptrs (cs_sh cs2)) (ptrs (cs_sh cs2')), fresh (cs_sh cs2), fresh (cs_sh cs2')).
Eval vm_compute in (mem_frame_ok PP memA, mem_frame_ok PP memB, ptr_frame_ok PP pA, ptr_frame_ok PP pB, ptr_frame_ok PP pC, List.length fout2).
