From Coq Require Import ZArith NArith List String Bool.
From Wencry Require Import Bytes ModesModel HashModel FileModel FileProps MiniC MiniCLemmas MiniCRun MiniCConc SrcRun SrcRun2 SrcRun5 RefineE2EWhole.
From Wencry Require RefineConcSim.
From Wencry Require Import RefineE2EfLay RefineE2EfMach RefineE2EfWNames RefineE2EfWLay RefineE2EfTail RefineE2EfEncDefs RefineE2EfHashSpec.
Import ListNotations.
Local Open Scope N_scope.
Definition P40 := map N.of_nat (seq 7 40).
Definition key := map N.of_nat (seq 100 16).
Definition seed := [1;2;3].
Definition hdr := file_header 1 0 (iv_chain seed 2) 2.
Definition PW extra pextra := PWenc 1 2 P40 key seed 1 0 5 (heap_name 1) extra pextra CBC_Enc.
Definition dgood (sm : memory) : mdata := {| d_turn := 0; d_over := true; d_live := 0; d_sm := sm; d_bufs := repeat mb0 2; d_pos := 40; d_eof := true;
   d_out := map Z.of_N hdr ++ repeat 7%Z 48 |}.
Definition run extra pextra (sm : memory) := call whole_prog [] 100000 "hmac::writeFileHmac/6" "rc.hmachandle."
           [VInt 0; VPtr "fout" 0; VPtr "key" 0; VInt 48; VInt 10; VInt 40] (tst (sh_fin_w (PW extra pextra) 1 2 true P40 (dgood sm)) [] "rc.").
Definition show (r : res (option value * state)) := match r with MiniC.Ok (v, s') => (Some (v, fresh s'), ""%string) | UB m => (None, m) | NoFuel => (None, "nofuel"%string) end.
Definition pex : locs := [("alloc:filebuffer64"%string, VPtr "#6[0]." 0)].
Definition mex : memory := [("sizeof:sha256hash.hashblock"%string, RefineE2EfLay.cell U32 1)].
Eval vm_compute in (ext_ptr_ok 5 pex, ext_mem_ok 5 mex, forallb (fun kv => match mget mex (fst kv) with None => true | _ => false end) (M1e 1 1 2 key seed 1 0)).
Eval vm_compute in show (run [] [] []).
Eval vm_compute in show (run [] pex []).
Eval vm_compute in show (run mex [] []).
Definition mex3 : memory := [("sizeof:sha1hash.hashblock"%string, RefineE2EfLay.cell U32 1);("sizeof:md5hash.hashblock"%string, RefineE2EfLay.cell U32 1);("sizeof:sha256hash.hashblock"%string, RefineE2EfLay.cell U32 1)].
Eval vm_compute in (ext_mem_ok 5 mex3, show (run mex3 [] [])).
