From Coq Require Import ZArith NArith List String Bool.
From Wencry Require Import Bytes HashModel AesModel ModesModel FileModel FileProps PipeConc MiniC MiniCRun MiniCLemmas MiniCConc SrcRun SrcRun2 SrcRun5 RefineE2EWhole.
From Wencry Require RefineConcSim RefineE2EfHashB3.
From Wencry Require Import RefineE2EfLay RefineE2EfWNames RefineE2EfWLay RefineE2EfGen RefineE2EfEncDefs RefineE2EfHashSpec RefineE2EfSetup1 RefineE2EfSetup2Spec RefineE2EfDecSpec.
Import ListNotations.
Local Open Scope N_scope.
Definition key := map N.of_nat (seq 100 16).
Definition stepn (cs : cstate) (tid : nat) := match cstep whole_prog [] 2000000 cs tid with MiniC.Ok (cs', ev) => cs' | _ => cs end.
(* the decrypt definitions of RefineE2EfDecSpec on concrete runs (ciphertexts made by the model): after the first step the state IS cs1_dec
   (h / extra / pextra / n read off), the name conditions hold, gi_if_spec_d / pa_rest_spec_d are exactly true, and the state after the second step
   IS the canonical state of PWdec *)
Definition check (c hbuf T : nat) (cm hm : N) (P seed : list N) :=
  let F := match enc c hbuf T P key cm hm seed with FileModel.Ok o => o | _ => [] end in
  let cs0 := whole_init WDec c hbuf T (-1) (-1) F key [] in
  let cs1 := stepn cs0 0 in
  let cs2 := stepn cs1 0 in
  let h := fresh (cs_sh cs1) in
  let n := (h - 1)%nat in
  let la := S (S (List.length (memA_d hbuf F key c T))) in
  let extra := skipn la (mem (cs_sh cs1)) in
  let pextra := skipn (List.length PS1) (ptrs (cs_sh cs1)) in
  let kd := match create false (nth 8 F 0) with Some k => k | None => CBC_Dec end in
  let ok1 := RefineConcSim.cstate_eqb cs1 (cs1_dec c hbuf T F key h n extra pextra) in
  let names := (ext_mem_ok h extra, ext_ptr_ok h pextra, RefineE2EfHashB3.no_sizeof_names extra, RefineE2EfHashB3.no_alloc_keys pextra) in
  let r1 := exec whole_prog [] 100000 gi_if2 (s_lockd c hbuf T F key h extra pextra) in
  let okg := match r1 with MiniC.Ok (Normal, s) => RefineConcSim.state_eqb s (s_newd c hbuf T F key h n extra pextra kd) | _ => false end in
  let r2 := exec whole_prog [] 1000000 pa_rest (s_pa0d c hbuf T F key h n extra pextra kd) in
  let fix from (l : memory) := match l with [] => [] | kv :: r => if String.eqb (fst kv) (heap_name (h + 3)) then r else from r end in
  let okp := match r2 with
    | MiniC.Ok (Returned (Some v), s) =>
        RefineConcSim.value_eqb v (VPtr (heap_name (h + 3)) 0) &&
        RefineConcSim.state_eqb s (s_pa1d c hbuf T F key h n extra pextra kd (from (mem s)) (loc s))
    | _ => false end in
  let PW := PWd hbuf T F key h n extra pextra kd in
  let sm0 := from (mem (cs_sh cs2)) in
  let ok2 := RefineConcSim.cstate_eqb cs2 (@cstate_md (wlayout PW) c T false F I_WaitUpdate (repeat W_New T) (@d_init0 (wlayout PW) c T sm0) (@g_init0 (wlayout PW) T)) in
  (ok1, names, okg, okp, ok2).
Eval vm_compute in check 1 1 2 1 0 (map N.of_nat (seq 7 40)) [1;2;3].
Eval vm_compute in check 2 1 3 2 1 (map N.of_nat (seq 7 100)) [5].
Eval vm_compute in check 1 2 1 0 2 (map N.of_nat (seq 7 5)) [].
Eval vm_compute in check 3 1 4 4 0 [] [9;9].
