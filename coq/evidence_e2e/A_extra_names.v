From Coq Require Import ZArith NArith List String Bool.
From Wencry Require Import Bytes HashModel FileModel FileProps MiniC MiniCRun MiniCConc SrcRun SrcRun2 SrcRun5 RefineE2EWhole.
From Wencry Require RefineConcSim.
From Wencry Require Import RefineE2EfLay RefineE2EfWNames RefineE2EfWLay RefineE2EfEncDefs RefineE2EfHashSpec.
Import ListNotations.
Local Open Scope N_scope.
Definition P40 := map N.of_nat (seq 7 40).
Definition key := map N.of_nat (seq 100 16).
Definition seed := [1;2;3].
Definition l0 : locs := [("fsize"%string, VInt 40); ("r_buf"%string, VPtr "seed" 0)].
Definition s1 := {| mem := M1e 1 1 2 key seed 1 0; loc := l0; pre := "rc."; files := FS0 P40; ptrs := PS1; fresh := 1 |}.
Definition r := call whole_prog [] 100000 "runcrypt::prepare_IV/1" "rc." [VPtr "seed" 0] s1.
Eval vm_compute in match r with MiniC.Ok (v, s') => Some (skipn 34 (map fst (mem s')), skipn 9 (ptrs s'), fresh s') | _ => None end.
