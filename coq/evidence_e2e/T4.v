From Coq Require Import ZArith NArith List String Bool.
From Wencry Require Import Bytes HashModel AesModel ModesModel FileModel FileProps PipeConc MiniC MiniCRun MiniCConc SrcRun SrcRun2 SrcRun5.
From Wencry Require RefineConcSim RefineE2ENames.
From Wencry Require Import RefineE2EfWNames.
From Wencry Require Import RefineE2EfLay RefineE2EfWLay RefineE2EfGen.
Import ListNotations.
Local Open Scope N_scope.
Definition P40 := map N.of_nat (seq 7 40).
Definition key := map N.of_nat (seq 100 16).
Definition Fenc := match enc 1 1 2 P40 key 1 0 [1;2;3] with FileModel.Ok o => o | _ => [] end.
Definition cs0 := whole_init WDec 1 1 2 (-1) (-1) Fenc key [].
Definition stepn (cs : cstate) (tid : nat) := match cstep whole_prog [] 1000000 cs tid with MiniC.Ok (cs', ev) => cs' | _ => cs end.
Definition cs2 := stepn (stepn cs0 0) 0.
Fixpoint before {A} (p : string -> bool) (l : list (string * A)) := match l with [] => [] | kv :: r => if p (fst kv) then [] else kv :: before p r end.
Fixpoint from {A} (p : string -> bool) (l : list (string * A)) := match l with [] => [] | kv :: r => if p (fst kv) then l else from p r end.
Definition m2 := mem (cs_sh cs2).
Definition p2 := ptrs (cs_sh cs2).
Eval vm_compute in (map fst (from (String.eqb "live_num") m2), map fst p2, fresh (cs_sh cs2), List.length (cs_thr cs2)).
Definition memA := before (String.eqb "live_num") m2.
Definition memB := before (String.eqb "#10.turn") (tl (from (String.eqb "live_num") m2)).
Definition dsm := tl (from (String.eqb "#13") m2).
Definition pA := before (String.eqb "instance") p2.
Definition pB := before (String.eqb "class:#10.") (tl (from (String.eqb "instance") p2)).
Definition pC := before (String.eqb "class:#14.") (from (String.eqb "rc.aesfactory.iv") p2).
Definition main2 := nth 0 (cs_thr cs2) {| ct_cur := SSkip; ct_k := KStop; ct_loc := []; ct_pre := ""; ct_st := TDone |}.
Fixpoint kcalls (k : kont) : list (list (string * value) * string * kont) :=
  match k with KStop => [] | KSeq _ k' | KLoopBody _ _ _ k' | KLoopStep _ _ _ k' | KDoBody _ _ k' => kcalls k' | KCall _ l p k' => (l, p, k') :: kcalls k' end.
Definition botf := nth 2 (kcalls (ct_k main2)) ([], ""%string, KStop).
Definition PP : wpar := {|
  wp_h := 10; wp_memA := fun _ _ => memA; wp_memB := fun _ _ => memB; wp_pA := fun _ => pA; wp_pB := fun _ => pB; wp_pC := fun _ => pC;
  wp_cp := "rc.crym."; wp_blocs := fun _ _ => fst (fst botf); wp_bpre := snd (fst botf); wp_kb := fun _ _ => snd botf;
  wp_tdone := fun _ _ => main2; wp_kind := CBC_Dec; wp_ks := genall key; wp_iv := []; wp_out0 := []; wp_pos0 := 88 |}.
Definition cs2' := @cstate_md (wlayout PP) 1 2 false Fenc I_WaitUpdate (repeat W_New 2) (@d_init0 (wlayout PP) 1 2 dsm) (@g_init0 (wlayout PP) 2).
Eval vm_compute in RefineConcSim.cstate_eqb cs2 cs2'.
Eval vm_compute in (mem_frame_ok PP memA, mem_frame_ok PP memB, ptr_frame_ok PP pA, ptr_frame_ok PP pB, ptr_frame_ok PP pC).
(* the whole run *)
Eval vm_compute in match src_decrypt_file 1 1 2 Fenc key 7 with SOk (b, o, i, k) => (b, RefineConcSim.list_eqb N.eqb o P40, RefineConcSim.list_eqb N.eqb i Fenc, k) | SErr w => (false, false, false, 0%nat) end.

(* the conditions dec_frame_ok of SRC_execute_decrypt_is_model_modulo_setup on this instance (booleans) *)
From Wencry Require Import RefineE2EfTail.
Definition blocs2 := fst (fst botf).
Eval vm_compute in
  (RefineConcSim.kont_eqb (snd botf) (kbot_of release_call dec_K1),
   snd (fst botf),
   match lget blocs2 "iv" with Some _ => true | None => false end,
   match lget blocs2 "mode" with Some v => RefineConcSim.value_eqb v (VPtr "#13" 0) | None => false end,
   match lget blocs2 "res" with Some v => RefineConcSim.value_eqb v (VInt 0) | None => false end,
   match mget memA "rc.threads_num" with Some o => RefineConcSim.object_eqb o (cell U8 2) | None => false end,
   lget pA "rc.fin", lget pA "rc.out").
(* the names of the memory of the stream objects (RefineE2EfWLay.sm_names_ok, part of w_srep): heap objects below h+4+T = 16 only, no "sizeof:" *)
Eval vm_compute in forallb (fun kv => match hnum (fst kv) with Some n => Nat.ltb n 16 | None => true end &&
                       match RefineE2ENames.strip "sizeof:" (fst kv) with Some _ => false | None => true end) dsm.
