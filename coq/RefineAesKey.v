(* Refinement, part 2: the key schedule of aes.cpp (keyhandle::genkey / genall / constructor / get_key). *)
From Coq Require Import ZArith NArith List String Bool Lia.
From Wencry Require Import Bytes AesModel MiniC MiniCRun MiniCLemmas SrcRun AesProofs RefineAesLib RefineAesOps.
From Wencry.Gen Require Import AesTab AesCoef.
From Wencry.Gen Require Src_aes Src_aesmode.
Import ListNotations.
Local Open Scope Z_scope.
Local Open Scope string_scope.

Lemma RC_bytes : Forall (fun x => (x < 256)%N) tab_RC.
Proof. apply forallb_lt256. vm_compute. reflexivity. Qed.

Local Notation P := aes_prog.

Lemma genkey_explicit : forall rn p0 p1 p2 p3 p4 p5 p6 p7 p8 p9 p10 p11 p12 p13 p14 p15,
  genkey rn [p0; p1; p2; p3; p4; p5; p6; p7; p8; p9; p10; p11; p12; p13; p14; p15] =
  [N.lxor (N.lxor (sbox p7) (nth rn tab_RC 0%N)) p0;
   N.lxor (N.lxor (N.lxor (sbox p7) (nth rn tab_RC 0%N)) p0) p1;
   N.lxor (N.lxor (N.lxor (N.lxor (sbox p7) (nth rn tab_RC 0%N)) p0) p1) p2;
   N.lxor (N.lxor (N.lxor (N.lxor (N.lxor (sbox p7) (nth rn tab_RC 0%N)) p0) p1) p2) p3;
   N.lxor (N.lxor (sbox p11) 0%N) p4;
   N.lxor (N.lxor (N.lxor (sbox p11) 0%N) p4) p5;
   N.lxor (N.lxor (N.lxor (N.lxor (sbox p11) 0%N) p4) p5) p6;
   N.lxor (N.lxor (N.lxor (N.lxor (N.lxor (sbox p11) 0%N) p4) p5) p6) p7;
   N.lxor (N.lxor (sbox p15) 0%N) p8;
   N.lxor (N.lxor (N.lxor (sbox p15) 0%N) p8) p9;
   N.lxor (N.lxor (N.lxor (N.lxor (sbox p15) 0%N) p8) p9) p10;
   N.lxor (N.lxor (N.lxor (N.lxor (N.lxor (sbox p15) 0%N) p8) p9) p10) p11;
   N.lxor (N.lxor (sbox p3) 0%N) p12;
   N.lxor (N.lxor (N.lxor (sbox p3) 0%N) p12) p13;
   N.lxor (N.lxor (N.lxor (N.lxor (sbox p3) 0%N) p12) p13) p14;
   N.lxor (N.lxor (N.lxor (N.lxor (N.lxor (sbox p3) 0%N) p12) p13) p14) p15].
Proof. reflexivity. Qed.

Ltac ev_hook ::=
  lazymatch goal with
  | |- eval _ (ELoad U8 (EPtrAdd (EGlobal "s_box") 1 _)) = _ =>
      eapply (ev_tab _ "s_box" tab_s_box); [cbn [mem]; mget_tac | exact s_box_bytes | ev | change (Z.of_nat (List.length tab_s_box)) with 256; range_tac]
  | |- eval _ (ELoad U8 (EPtrAdd (EGlobal "RC") 1 _)) = _ =>
      eapply (ev_tab _ "RC" tab_RC); [cbn [mem]; mget_tac | exact RC_bytes | ev | change (Z.of_nat (List.length tab_RC)) with 11; lia]
  end.

Ltac kbound := repeat apply lxor_lt256; first [apply sbox_lt | apply nthN_bytes; exact RC_bytes | assumption | reflexivity].

Lemma genkey_spec : forall vt s pfx fuel r A prev C rest,
  (40 <= fuel)%nat -> tabs_ok (mem s) -> ~ is_tab (pfx ++ "key") ->
  1 <= r <= 10 -> Z.of_nat (List.length A) = 16 * (r - 1) -> block16 prev -> List.length C = 16%nat ->
  mget (mem s) (pfx ++ "key") = Some (bobj (A ++ map Z.of_N prev ++ C ++ rest)) ->
  call P vt fuel "keyhandle::genkey/1" pfx [VInt r] s =
  Ok (None, with_mem s (mset (mem s) (pfx ++ "key")
        (bobj (A ++ map Z.of_N prev ++ map Z.of_N (genkey (Z.to_nat r) prev) ++ rest)))).
Proof.
  intros vt s pfx fuel r A prev C rest Hf Ht Hnt Hr HA Bp HC Hk.
  eapply call_mono; [|exact Hf]. tabs_elim Ht. nt_elim Hnt.
  do 16 (destruct C as [|? C]; [discriminate HC|]). destruct C; [|discriminate HC]. clear HC.
  revert Hk. blk prev Bp. intros Hk. cbn [map app] in Hk.
  eapply call_normal; [reflexivity | reflexivity | | | | | ].
  - cbn [f_body Src_aes.f_keyhandle_genkey_1]. xs.
  - reflexivity.
  - reflexivity.
  - reflexivity.
  - st_norm. rewrite genkey_explicit. cbn [map app].
    repeat first [ rewrite wrap_U8_B by kbound | rewrite N2Z.id | rewrite lxor_B | rewrite wrap_I32_B by kbound ].
    unfold nthN. rewrite !Z_N_nat. rewrite ?N.lxor_0_r. reflexivity.
Qed.

Lemma RC_nth_lt : forall rn, (nth rn tab_RC 0 < 256)%N.
Proof.
  intros rn. pose proof RC_bytes as Hb. rewrite Forall_forall in Hb.
  destruct (nth_in_or_default rn tab_RC 0%N) as [Hin|Hd]; [apply Hb; exact Hin|rewrite Hd; reflexivity].
Qed.
Lemma genkey_block : forall rn p, block16 p -> block16 (genkey rn p).
Proof.
  intros rn p Hp. blk p Hp. rewrite genkey_explicit.
  apply block16_intro; repeat apply lxor_lt256; first [assumption | apply sbox_lt | apply RC_nth_lt | reflexivity].
Qed.

Lemma split16 : forall (l : list Z) n, List.length l = (16 + n)%nat ->
  exists c r, l = (c ++ r)%list /\ List.length c = 16%nat /\ List.length r = n.
Proof.
  intros l n H. exists (firstn 16 l), (skipn 16 l). split; [symmetry; apply firstn_skipn|].
  split; [rewrite firstn_length; lia | rewrite skipn_length; lia].
Qed.

Lemma genkey_length : forall rn p, block16 p -> List.length (genkey rn p) = 16%nat.
Proof. intros. apply block16_length. apply genkey_block. assumption. Qed.

Lemma tabs_ok_mset' : forall m o x, ~ is_tab o -> tabs_ok m -> tabs_ok (mset m o x).
Proof.
  intros m o x Hnt (H1 & H2 & H3 & H4 & H5). unfold is_tab in Hnt.
  unfold tabs_ok. rewrite !mget_mset_other by tauto. auto.
Qed.

Ltac gk_blocks := repeat apply genkey_block; assumption.
Ltac gk_side :=
  lazymatch goal with
  | |- (_ <= _)%nat => lia
  | |- _ <= _ <= _ => lia
  | |- tabs_ok _ => cbn [mem]; repeat apply tabs_ok_mset'; assumption
  | |- ~ is_tab _ => assumption
  | |- block16 _ => gk_blocks
  | |- List.length _ = 16%nat => assumption
  | |- Z.of_nat (List.length _) = _ =>
      repeat first [ rewrite app_length | rewrite map_length | rewrite genkey_length by gk_blocks ];
      cbn [List.length]; lia
  | |- mget _ _ = _ => cbn [mem]; rewrite mget_mset_same; reflexivity
  end.
Ltac gk_iter vt :=
  st_norm;
  lazymatch goal with
  | |- exec _ _ _ (SLoop _ _ _) {| mem := mset _ _ (bobj (?A ++ map Z.of_N ?p ++ ?C ++ ?rest)); loc := _; pre := _; files := _; ptrs := _; fresh := _ |} = _ =>
     eapply x_loop_iter;
     [ solve [ev] | discriminate
     | eapply x_call; [evl | reflexivity | eapply (genkey_spec vt _ _ _ _ A p C rest); gk_side | reflexivity]
     | xs
     | ];
     st_norm; rewrite (app_assoc A (map Z.of_N p))
  end.

Lemma genall_spec : forall vt s pfx fuel key kc T,
  (100 <= fuel)%nat -> tabs_ok (mem s) -> ~ is_tab (pfx ++ "key") ->
  mget (mem s) (pfx ++ "init_key") = Some (bobj (map Z.of_N key ++ T)) -> block16 key ->
  mget (mem s) (pfx ++ "key") = Some (bobj kc) -> List.length kc = 176%nat ->
  call P vt fuel "keyhandle::genall/0" pfx [] s =
  Ok (None, with_mem s (mset (mem s) (pfx ++ "key") (bobj (concat (map (map Z.of_N) (genall key)))))).
Proof.
  intros vt s pfx fuel key kc T Hf Ht Hnt Hi Bk Hk Hlen.
  eapply call_mono; [|exact Hf]. pose proof Ht as Ht'. tabs_elim Ht. nt_elim Hnt.
  assert (Hne : pfx ++ "key" <> pfx ++ "init_key") by (apply pfx_neq; discriminate).
  destruct (split16 kc 160 Hlen) as (C0 & R0 & -> & HC0 & HR0).
  destruct (split16 R0 144 HR0) as (C1 & R1 & -> & HC1 & HR1).
  destruct (split16 R1 128 HR1) as (C2 & R2 & -> & HC2 & HR2).
  destruct (split16 R2 112 HR2) as (C3 & R3 & -> & HC3 & HR3).
  destruct (split16 R3 96 HR3) as (C4 & R4 & -> & HC4 & HR4).
  destruct (split16 R4 80 HR4) as (C5 & R5 & -> & HC5 & HR5).
  destruct (split16 R5 64 HR5) as (C6 & R6 & -> & HC6 & HR6).
  destruct (split16 R6 48 HR6) as (C7 & R7 & -> & HC7 & HR7).
  destruct (split16 R7 32 HR7) as (C8 & R8 & -> & HC8 & HR8).
  destruct (split16 R8 16 HR8) as (C9 & R9 & -> & HC9 & HR9).
  destruct (split16 R9 0 HR9) as (C10 & R10 & -> & HC10 & HR10).
  destruct R10; [|discriminate HR10].
  clear Hlen HR0 HR1 HR2 HR3 HR4 HR5 HR6 HR7 HR8 HR9 HR10.
  do 16 (destruct C0 as [|? C0]; [discriminate HC0|]). destruct C0; [|discriminate HC0]. clear HC0.
  revert Hi. blk key Bk. intros Hi. cbn [map app] in Hi, Hk.
  set (K0 := [v0; v4; v8; v12; v1; v5; v9; v13; v2; v6; v10; v14; v3; v7; v11; v15]).
  assert (BK0 : block16 K0) by (apply block16_intro; assumption).
  assert (LK0 : List.length K0 = 16%nat) by reflexivity.
  assert (EK0 : K0 = transpose (firstn 16 [v0; v1; v2; v3; v4; v5; v6; v7; v8; v9; v10; v11; v12; v13; v14; v15])) by reflexivity.
  eapply call_normal; [reflexivity | reflexivity | | | | | ].
  - cbn [f_body Src_aes.f_keyhandle_genall_0].
    eapply x_seq; [xs|]. eapply x_seq; [xs|]. eapply x_seq; [xs|]. st_norm.
    rewrite !wrap_U8_B by assumption.
    match goal with |- exec _ _ _ _ {| mem := mset _ _ (bobj ?L); loc := _; pre := _; files := _; ptrs := _; fresh := _ |} = _ =>
      change L with (@nil Z ++ map Z.of_N K0 ++ C1 ++ (C2 ++ C3 ++ C4 ++ C5 ++ C6 ++ C7 ++ C8 ++ C9 ++ C10 ++ []))%list end.
    clearbody K0.
    do 10 gk_iter vt.
    eapply x_loop_end. solve [ev].
  - reflexivity.
  - reflexivity.
  - reflexivity.
  - st_norm. unfold genall. rewrite <- EK0. change (N.to_nat key_rounds - 1)%nat with 10%nat.
    cbn [genall_from map concat]. rewrite <- !app_assoc. cbn [app]. reflexivity.
Qed.

(* keyhandle::keyhandle(initkey) *)
Lemma keyhandle_spec : forall vt s pfx fuel ok key ik kc,
  (120 <= fuel)%nat -> tabs_ok (mem s) -> ~ is_tab (pfx ++ "key") -> ~ is_tab (pfx ++ "init_key") ->
  ok <> pfx ++ "init_key" ->
  mget (mem s) ok = Some (bytes_object key) -> block16 key ->
  mget (mem s) (pfx ++ "init_key") = Some (bobj ik) -> List.length ik = 20%nat ->
  mget (mem s) (pfx ++ "key") = Some (bobj kc) -> List.length kc = 176%nat ->
  call P vt fuel "keyhandle::keyhandle/1" pfx [VPtr ok 0] s =
  Ok (None, with_mem s (mset (mset (mem s) (pfx ++ "init_key") (bobj (map Z.of_N key ++ skipn 16 ik)))
                             (pfx ++ "key") (bobj (concat (map (map Z.of_N) (genall key)))))).
Proof.
  intros vt s pfx fuel ok key ik kc Hf Ht Hnt Hnt2 Hne1 Hok Bk Hik Hlik Hkc Hlkc.
  eapply call_mono; [|exact Hf].
  assert (Hne : pfx ++ "key" <> pfx ++ "init_key") by (apply pfx_neq; discriminate).
  do 20 (destruct ik as [|? ik]; [discriminate Hlik|]). destruct ik; [|discriminate Hlik]. clear Hlik.
  revert Hok. pose proof Bk as Bk'. revert Bk'. blk key Bk. intros Bk' Hok.
  eapply call_normal; [reflexivity | reflexivity | | | | | ].
  - cbn [f_body Src_aes.f_keyhandle_keyhandle_1].
    eapply x_seq; [xs|]. st_norm.
    eapply x_call; [evl | reflexivity | | reflexivity].
    eapply (genall_spec vt _ _ _ [v0; v1; v2; v3; v4; v5; v6; v7; v8; v9; v10; v11; v12; v13; v14; v15] kc [z15; z16; z17; z18]).
    + lia.
    + cbn [mem]. apply tabs_ok_mset'; assumption.
    + assumption.
    + cbn [mem]. rewrite mget_mset_same. reflexivity.
    + assumption.
    + cbn [mem]. rewrite mget_mset_other by (apply not_eq_sym; assumption). exact Hkc.
    + assumption.
  - reflexivity.
  - reflexivity.
  - reflexivity.
  - st_norm. reflexivity.
Qed.

(* keyhandle::get_key(round) *)
Lemma get_key_spec : forall vt s pfx fuel r,
  (2 <= fuel)%nat ->
  call P vt fuel "keyhandle::get_key/1" pfx [VInt r] s = Ok (Some (VPtr (pfx ++ "key") (0 + r * 16)), with_mem s (mem s)).
Proof.
  intros vt s pfx fuel r Hf. eapply call_mono; [|exact Hf].
  eapply call_returned; [reflexivity | reflexivity | | | | | ].
  - cbn [f_body Src_aes.f_keyhandle_get_key_1]. eapply x_return_some.
    eapply ev_ptradd; [apply ev_field | apply ev_var; reflexivity | reflexivity].
  - reflexivity.
  - reflexivity.
  - reflexivity.
  - reflexivity.
Qed.
