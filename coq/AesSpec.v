(* FIPS-197 AES-128, written from the standard's text (sections 4, 5.1, 5.2, 5.3).
   Independent of the implementation: no table from /repo is used here. *)
From Wencry Require Import Bytes.
Local Open Scope N_scope.

(* 4.2.1 multiplication by x in GF(2^8), modulus x^8+x^4+x^3+x+1 *)
Definition xtime (b : N) : N :=
  if b <? 128 then 2 * b else N.lxor ((2 * b) mod 256) 27.

(* 4.2 multiplication: sum of a*x^i over the bits of b *)
Fixpoint gmul_fuel (n : nat) (a b : N) : N :=
  match n with
  | O => 0
  | S n' => N.lxor (if N.odd b then a else 0) (gmul_fuel n' (xtime a) (N.div2 b))
  end.
Definition gmul (a b : N) : N := gmul_fuel 8 a b.

Fixpoint gpow (a : N) (n : nat) : N :=
  match n with O => 1 | S n' => gmul a (gpow a n') end.
(* multiplicative inverse, 0 mapped to 0 (5.1.1) : a^254 *)
Definition ginv (a : N) : N := gpow a 254.

Definition rotl8 (b s : N) : N := N.lor ((N.shiftl b s) mod 256) (N.shiftr b (8 - s)).
(* 5.1.1 affine transformation  b'_i = b_i + b_(i+4) + b_(i+5) + b_(i+6) + b_(i+7) + c_i, c = 0x63 *)
Definition affine (b : N) : N :=
  N.lxor b (N.lxor (rotl8 b 1) (N.lxor (rotl8 b 2) (N.lxor (rotl8 b 3) (N.lxor (rotl8 b 4) 99)))).
(* 5.3.2 inverse affine transformation *)
Definition inv_affine (b : N) : N :=
  N.lxor (rotl8 b 1) (N.lxor (rotl8 b 3) (N.lxor (rotl8 b 6) 5)).

Definition sub_byte (b : N) : N := affine (ginv b).
Definition inv_sub_byte (b : N) : N := ginv (inv_affine b).

(* the S-boxes as tables computed by Coq from the definitions above (Figures 7 and 14) *)
Definition fips_sbox : list N := Eval vm_compute in map sub_byte all_bytes.
Definition fips_inv_sbox : list N := Eval vm_compute in map inv_sub_byte all_bytes.
Definition SubByte (b : N) : N := nthN fips_sbox b 0.
Definition InvSubByte (b : N) : N := nthN fips_inv_sbox b 0.

(* The state is kept as the 16-byte list in input order: s[r][c] = in[r + 4c] (3.4) *)
Definition perm (idx : list nat) (l : list N) : list N := map (fun i => nth i l 0) idx.

Definition SubBytes (s : list N) : list N := map SubByte s.
Definition InvSubBytes (s : list N) : list N := map InvSubByte s.
(* 5.1.2  s'[r][c] = s[r][(c + r) mod 4] *)
Definition ShiftRows (s : list N) : list N :=
  perm [0;5;10;15; 4;9;14;3; 8;13;2;7; 12;1;6;11]%nat s.
(* 5.3.1  s'[r][(c + r) mod 4] = s[r][c] *)
Definition InvShiftRows (s : list N) : list N :=
  perm [0;13;10;7; 4;1;14;11; 8;5;2;15; 12;9;6;3]%nat s.

Definition x3 (a b c : N) : N := N.lxor a (N.lxor b c).
Definition x4 (a b c d : N) : N := N.lxor a (N.lxor b (N.lxor c d)).

(* 5.1.3 *)
Definition mix_column (c : list N) : list N :=
  match c with
  | [a0; a1; a2; a3] =>
      [x4 (gmul 2 a0) (gmul 3 a1) a2 a3;
       x4 a0 (gmul 2 a1) (gmul 3 a2) a3;
       x4 a0 a1 (gmul 2 a2) (gmul 3 a3);
       x4 (gmul 3 a0) a1 a2 (gmul 2 a3)]
  | _ => []
  end.
(* 5.3.3 *)
Definition inv_mix_column (c : list N) : list N :=
  match c with
  | [a0; a1; a2; a3] =>
      [x4 (gmul 14 a0) (gmul 11 a1) (gmul 13 a2) (gmul 9 a3);
       x4 (gmul 9 a0) (gmul 14 a1) (gmul 11 a2) (gmul 13 a3);
       x4 (gmul 13 a0) (gmul 9 a1) (gmul 14 a2) (gmul 11 a3);
       x4 (gmul 11 a0) (gmul 13 a1) (gmul 9 a2) (gmul 14 a3)]
  | _ => []
  end.
Definition on_columns (f : list N -> list N) (s : list N) : list N :=
  match s with
  | [a0;a1;a2;a3; b0;b1;b2;b3; c0;c1;c2;c3; d0;d1;d2;d3] =>
      f [a0;a1;a2;a3] ++ f [b0;b1;b2;b3] ++ f [c0;c1;c2;c3] ++ f [d0;d1;d2;d3]
  | _ => []
  end.
Definition MixColumns := on_columns mix_column.
Definition InvMixColumns := on_columns inv_mix_column.

Definition AddRoundKey (s k : list N) : list N := xorl s k.

(* 5.2 key expansion, one round key (4 words = 16 bytes) at a time.
   Rcon[i] = x^(i-1). *)
Fixpoint rcon (i : nat) : N :=
  match i with O => 0 | S O => 1 | S i' => xtime (rcon i') end.

Definition next_round_key (i : nat) (k : list N) : list N :=
  match k with
  | [a0;a1;a2;a3; b0;b1;b2;b3; c0;c1;c2;c3; d0;d1;d2;d3] =>
      (* temp = SubWord(RotWord(w[i-1])) xor Rcon *)
      let t0 := N.lxor (SubByte d1) (rcon i) in
      let t1 := SubByte d2 in
      let t2 := SubByte d3 in
      let t3 := SubByte d0 in
      let e0 := N.lxor a0 t0 in let e1 := N.lxor a1 t1 in
      let e2 := N.lxor a2 t2 in let e3 := N.lxor a3 t3 in
      let f0 := N.lxor b0 e0 in let f1 := N.lxor b1 e1 in
      let f2 := N.lxor b2 e2 in let f3 := N.lxor b3 e3 in
      let g0 := N.lxor c0 f0 in let g1 := N.lxor c1 f1 in
      let g2 := N.lxor c2 f2 in let g3 := N.lxor c3 f3 in
      let h0 := N.lxor d0 g0 in let h1 := N.lxor d1 g1 in
      let h2 := N.lxor d2 g2 in let h3 := N.lxor d3 g3 in
      [e0;e1;e2;e3; f0;f1;f2;f3; g0;g1;g2;g3; h0;h1;h2;h3]
  | _ => []
  end.

(* round keys 0..n *)
Fixpoint expand_from (i n : nat) (k : list N) : list (list N) :=
  match n with
  | O => [k]
  | S n' => k :: expand_from (S i) n' (next_round_key i k)
  end.
Definition KeyExpansion (key : list N) : list (list N) := expand_from 1 10 key.
Definition rk (ks : list (list N)) (i : nat) : list N := nth i ks [].

Definition enc_round (ks : list (list N)) (s : list N) (i : nat) : list N :=
  AddRoundKey (MixColumns (ShiftRows (SubBytes s))) (rk ks i).

(* 5.1 Cipher *)
Definition Cipher (key input : list N) : list N :=
  let ks := KeyExpansion key in
  let s := AddRoundKey input (rk ks 0) in
  let s := fold_left (enc_round ks) (seq 1 9) s in
  AddRoundKey (ShiftRows (SubBytes s)) (rk ks 10).

Definition dec_round (ks : list (list N)) (s : list N) (i : nat) : list N :=
  InvMixColumns (AddRoundKey (InvSubBytes (InvShiftRows s)) (rk ks i)).

(* 5.3 InvCipher *)
Definition InvCipher (key input : list N) : list N :=
  let ks := KeyExpansion key in
  let s := AddRoundKey input (rk ks 10) in
  let s := fold_left (dec_round ks) (rev (seq 1 9)) s in
  AddRoundKey (InvSubBytes (InvShiftRows s)) (rk ks 0).
