(* Stage 5: the layout of the whole program (SrcRun5.whole_prog) during the concurrent phase of execute_encrypt /
   execute_decrypt: heap objects "#h." (buffergroup), "#h+1[i]." (iobuffer), "#h+2[i]." (bufferctrl), "#h+3" (the array of
   stream pointers), "#h+4+i." (the mode objects); everything else of the memory and of the pointer table is a frame
   (parameters), constrained only in its NAMES. *)
From Coq Require Import ZArith NArith List String Bool Lia Ascii Arith.
From Wencry Require Import Bytes AesModel ModesModel FileModel PipeConc MiniC MiniCLemmas MiniCRun MiniCConc SrcRun SrcRun5 PipeLemmas.
From Wencry Require Import RefineAesLib RefineModes.
From Wencry Require RefineConcMem RefineConcSim RefineE2ENames.
From Wencry Require Import RefineE2EfLay RefineE2EfMach RefineE2EfMem RefineE2EfWNames.
Import ListNotations.
Local Open Scope list_scope.
Local Open Scope string_scope.

Record wpar := {
  wp_h : nat;                                  (* heap index of the buffergroup object *)
  wp_memA : nat -> nat -> memory;              (* c T: the memory before live_num ... *)
  wp_memB : nat -> nat -> memory;              (* ... and between live_num and the buffergroup object *)
  wp_pA : nat -> locs;                         (* T: the pointer table before "instance", ... *)
  wp_pB : nat -> locs;                         (* ... between "instance" and the entries of the buffergroup, ... *)
  wp_pC : nat -> locs;                         (* ... between those and the entries of the mode objects *)
  wp_cp : string;                              (* prefix of the multicry_master object *)
  wp_blocs : nat -> bool -> locs; wp_bpre : string; wp_kb : nat -> bool -> kont;
  wp_tdone : nat -> bool -> cthread;
  wp_kind : mkind; wp_ks : list (list N); wp_iv : list N; wp_out0 : list Z; wp_pos0 : nat }.

Section WL.
Variable P : wpar.
Notation h := (wp_h P).

Definition wGP : string := heap_name h ++ ".".
Definition wBL : string := heap_name (h + 1).
Definition wCT : string := heap_name (h + 2).
Definition wMA : string := heap_name (h + 3).
Definition wmp (i : nat) : string := heap_name (h + 4 + i) ++ ".".
Definition wbp (i : nat) : string := elem_pfx wBL i.
Definition wcp (i : nat) : string := elem_pfx wCT i.

Definition w_seg3 (T : nat) (pad : bool) (d : mdata) : memory :=
  [(wGP ++ "turn", cell U32 (Z.of_nat (d_turn d))); (wGP ++ "size", cell U32 (Z.of_nat T));
   (wGP ++ "ispadding", cell TBool (b2z pad)); (wGP ++ "over", cell TBool (b2z (d_over d)))].
Definition w_iob (bs : list mbuf) (i : nat) : memory :=
  let b := nth i bs mb0 in
  [(wbp i ++ "b", {| o_ty := U8; o_cells := mb_cells b |});
   (wbp i ++ "total", cell U32 (mb_tot b));
   (wbp i ++ "now", cell U32 (mb_now b));
   (wbp i ++ "tail", cell U32 (mb_tail b));
   (wbp i ++ "isfinal", cell TBool (b2z (mb_fin b)))].
Definition w_ctrl (bs : list mbuf) (i : nat) : memory :=
  [(wcp i ++ "state", cell U32 (Z.of_nat (mb_st (nth i bs mb0))));
   (wcp i ++ "lock._M_mutex", zeros_obj 40);
   (wcp i ++ "cv_ready._M_cond._M_cond", zeros_obj 48);
   (wcp i ++ "cv_update._M_cond._M_cond", zeros_obj 48)].
Definition w_core (T : nat) (pad : bool) (d : mdata) : memory :=
  (w_seg3 T pad d ++ flat_map (w_iob (d_bufs d)) (seq 0 T) ++ flat_map (w_ctrl (d_bufs d)) (seq 0 T)
  ++ [(wMA, {| o_ty := U64; o_cells := repeat 0%Z T |})] ++ d_sm d)%list.
Definition w_mem_of (c T : nat) (pad : bool) (d : mdata) : memory :=
  (wp_memA P c T ++ [("live_num", cell U8 (Z.of_nat (d_live d)))] ++ wp_memB P c T ++ w_core T pad d)%list.

Definition w_cls : string := cls_of (wp_kind P).
Definition core5 : locs :=
  [(class_key wGP, VPtr "buffergroup" 0); ((wGP ++ "buflst")%string, VPtr wBL 0); ((wGP ++ "ctrl")%string, VPtr wCT 0);
   ((wGP ++ "fin")%string, VPtr "fin" 0); ((wGP ++ "fout")%string, VPtr "fout" 0)].
Definition stream_ptrs (i : nat) : locs := [(class_key (wmp i), VPtr w_cls 0); (ptr_key wMA (8 * Z.of_nat i), VPtr (wmp i) 0)].
Definition w_ptrs_of (T : nat) : locs :=
  (wp_pA P T ++ [("instance", VPtr wGP 0)] ++ wp_pB P T
  ++ core5
  ++ map (fun i => (class_key (wbp i), VPtr "iobuffer" 0)) (seq 0 T)
  ++ map (fun i => (class_key (wcp i), VPtr "bufferctrl" 0)) (seq 0 T)
  ++ wp_pC P T
  ++ flat_map stream_ptrs (seq 0 T)
  ++ map (fun i => (ptr_key (wp_cp P ++ "threads")%string (8 * Z.of_nat i), VInt (Z.of_nat (S i)))) (seq 0 T))%list.

(* the names of the memory of the stream objects: none of a later heap object (what the next allocations of the main thread need),
   no "sizeof:" override *)
Definition sm_names_ok (T : nat) (sm : memory) : Prop :=
  (forall n y, (h + 4 + T <= n)%nat -> mget sm (RefineE2ENames.hobj n ++ y) = None) /\
  (forall r, mget sm ("sizeof:" ++ r) = None).

(* stream object i represents the register iv *)
Definition w_srep (T i : nat) (iv : list N) (sm : memory) : Prop :=
  mget sm (wmp i ++ "iv") = Some (bytes_object iv) /\ block16 iv /\
  (exists wc, mget sm (wmp i ++ "crypt.w") = Some (bobj wc) /\ List.length wc = 16%nat) /\
  mget sm (wmp i ++ "crypt.key.key") = Some (bobj (concat (map (map Z.of_N) (wp_ks P)))) /\
  sm_names_ok T sm.

Definition wlayout : Layout := {|
  LS := list N;
  Ltr := runcry (aes_enc_with (wp_ks P)) (aes_dec_with (wp_ks P)) (wp_kind P);
  Lev := fun _ _ => [];
  LdS := [];
  Lsig0 := fun T => repeat (wp_iv P) T;
  Lprog := whole_prog;
  GP := wGP; BL := wBL; CT := wCT; MA := wMA; CP := wp_cp P; mp := wmp;
  bot_locs := wp_blocs P; bot_pre := wp_bpre P; Kbot := wp_kb P; Tdone := wp_tdone P;
  ev_done := fun _ => [];
  Lfresh := fun T => (h + 4 + T)%nat;
  Lpos0 := wp_pos0 P;
  Lout0 := wp_out0 P;
  mem_of := w_mem_of; ptrs_of := w_ptrs_of;
  srep := w_srep |}.

(* ================= the conditions on the frames ================= *)
Definition mem_frame_ok (m : memory) : bool :=
  forallb (fun kv => below h (fst kv) && negb (String.eqb "live_num" (fst kv)) &&
                     negb (String.eqb "%mask" (fst kv)) && negb (String.eqb "%nxt_iv" (fst kv))) m.
Definition pkey_ok (k : string) : bool :=
  below h k && match RefineE2ENames.strip "class:" k with Some r => below h r | None => true end &&
  negb (String.eqb "instance" k) && negb (pfxb (wp_cp P ++ "threads") k).
Definition ptr_frame_ok (l : locs) : bool := forallb (fun kv => pkey_ok (fst kv)) l.

Record wpar_ok : Prop := {
  wo_memA : forall c T, mem_frame_ok (wp_memA P c T) = true;
  wo_memB : forall c T, mem_frame_ok (wp_memB P c T) = true;
  wo_sum : forall c T, mget (wp_memA P c T) "sum" = Some (cell U32 (16 * Z.of_nat c));
  wo_thr : forall c T, mget (wp_memA P c T) (wp_cp P ++ "THREADS_NUM") = Some (cell U8 (Z.of_nat T));
  wo_pA : forall T, ptr_frame_ok (wp_pA P T) = true;
  wo_pB : forall T, ptr_frame_ok (wp_pB P T) = true;
  wo_pC : forall T, ptr_frame_ok (wp_pC P T) = true;
  wo_cp : exists r, wp_cp P = String "r" r;
  wo_tabs : forall c T, RefineAesOps.tabs_ok (wp_memA P c T);
  wo_ks_len : List.length (wp_ks P) = 11%nat;
  wo_ks_blocks : Forall block16 (wp_ks P);
  wo_iv : block16 (wp_iv P);
  wo_out0 : Forall (fun z => 0 <= z < 256)%Z (wp_out0 P) }.

Hypothesis OK : wpar_ok.

(* ---- names ---- *)
Lemma hnum_GP : forall x, hnum (wGP ++ x) = Some h.
Proof. intros. unfold wGP. rewrite heap_dot. apply hnum_HN. reflexivity. Qed.
Lemma hnum_bp : forall i x, hnum (wbp i ++ x) = Some (h + 1)%nat.
Proof. intros. unfold wbp, wBL. rewrite heap_elem. apply hnum_HN. reflexivity. Qed.
Lemma hnum_cp : forall i x, hnum (wcp i ++ x) = Some (h + 2)%nat.
Proof. intros. unfold wcp, wCT. rewrite heap_elem. apply hnum_HN. reflexivity. Qed.
Lemma hnum_MA : hnum wMA = Some (h + 3)%nat.
Proof. apply hnum_heap. Qed.
Lemma hnum_mp : forall i x, hnum (wmp i ++ x) = Some (h + 4 + i)%nat.
Proof. intros. unfold wmp. rewrite heap_dot. apply hnum_HN. reflexivity. Qed.

Lemma frame_none : forall m k n, mem_frame_ok m = true -> hnum k = Some n -> (h <= n)%nat -> mget m k = None.
Proof.
  intros m k n F H L. apply (mget_below h m k n); [|exact H|exact L].
  unfold mem_frame_ok in F. rewrite forallb_forall in *. intros x Hx. specialize (F x Hx). rewrite !andb_true_iff in F. tauto.
Qed.
Lemma frame_live : forall m, mem_frame_ok m = true -> mget m "live_num" = None.
Proof.
  intros m F. apply mget_absent. unfold mem_frame_ok in F. rewrite forallb_forall in *. intros x Hx. specialize (F x Hx). rewrite !andb_true_iff in F. tauto.
Qed.
Lemma frame_loc : forall m k, mem_frame_ok m = true -> k = "%mask" \/ k = "%nxt_iv" -> mget m k = None.
Proof.
  intros m k F [-> | ->]; apply mget_absent; unfold mem_frame_ok in F; rewrite forallb_forall in *; intros x Hx; specialize (F x Hx); rewrite !andb_true_iff in F; tauto.
Qed.

(* lists of objects with one and the same number *)
Definition allnum (n : nat) (m : memory) : Prop := Forall (fun kv => hnum (fst kv) = Some n) m.
Lemma allnum_none : forall n m k a, allnum n m -> hnum k = Some a -> a <> n -> mget m k = None.
Proof.
  intros n m k a. induction m as [|[k' o] m IH]; intros F H N; cbn [mget]; [reflexivity|].
  inversion F as [|? ? F1 F2]; subst. cbn [fst] in F1. rewrite (hnum_neq k k' a n H F1 N). apply IH; assumption.
Qed.
Lemma allnum_none' : forall n m k, allnum n m -> hnum k = None -> mget m k = None.
Proof.
  intros n m k. induction m as [|[k' o] m IH]; intros F H; cbn [mget]; [reflexivity|].
  inversion F as [|? ? F1 F2]; subst. cbn [fst] in F1. rewrite String.eqb_sym. rewrite (hnum_none_neq k' k n F1 H). apply IH; assumption.
Qed.
Lemma allnum_flat : forall n (f : nat -> memory) l, (forall j, allnum n (f j)) -> allnum n (flat_map f l).
Proof. intros n f l H. induction l as [|x l IH]; cbn [flat_map]; [constructor|]. apply Forall_app. split; [apply H|exact IH]. Qed.
Lemma allnum_seg3 : forall T pad d, allnum h (w_seg3 T pad d).
Proof. intros. unfold w_seg3. repeat constructor; cbn [fst]; apply hnum_GP. Qed.
Lemma allnum_iob : forall bs j, allnum (h + 1) (w_iob bs j).
Proof. intros. unfold w_iob. repeat constructor; cbn [fst]; apply hnum_bp. Qed.
Lemma allnum_ctrl : forall bs j, allnum (h + 2) (w_ctrl bs j).
Proof. intros. unfold w_ctrl. repeat constructor; cbn [fst]; apply hnum_cp. Qed.
Lemma allnum_MA : forall o, allnum (h + 3) [(wMA, o)].
Proof. intros. repeat constructor. cbn [fst]. apply hnum_MA. Qed.

Notation mget_app := RefineConcMem.mget_app.
Notation mset_app_l := RefineConcMem.mset_app_l.
Notation mset_app_r := RefineConcMem.mset_app_r.

(* a lookup / an update of a heap name >= h passes the frames *)
Lemma mget_to_core : forall c T pad d k n, hnum k = Some n -> (h <= n)%nat -> mget (w_mem_of c T pad d) k = mget (w_core T pad d) k.
Proof.
  intros c T pad d k n H L. unfold w_mem_of. rewrite !mget_app.
  rewrite (frame_none _ k n (wo_memA OK c T) H L). cbn [mget].
  rewrite (hnum_none_neq k "live_num" n H eq_refl).
  rewrite (frame_none _ k n (wo_memB OK c T) H L). reflexivity.
Qed.
Lemma mset_to_core : forall c T pad d k n o, hnum k = Some n -> (h <= n)%nat ->
  mset (w_mem_of c T pad d) k o = (wp_memA P c T ++ [("live_num", cell U8 (Z.of_nat (d_live d)))] ++ wp_memB P c T ++ mset (w_core T pad d) k o)%list.
Proof.
  intros c T pad d k n o H L. unfold w_mem_of.
  rewrite mset_app_r by (apply (frame_none _ k n (wo_memA OK c T) H L)). f_equal.
  rewrite mset_app_r by (cbn [mget]; rewrite (hnum_none_neq k "live_num" n H eq_refl); reflexivity). f_equal.
  rewrite mset_app_r by (apply (frame_none _ k n (wo_memB OK c T) H L)). reflexivity.
Qed.

Lemma iob_other : forall bs i j a, j <> i -> mget (w_iob bs j) (wbp i ++ a) = None.
Proof. intros bs i j a N. unfold w_iob, wbp. cbn [mget]. rewrite !elem_pfx_eqb_other by congruence. reflexivity. Qed.
Lemma ctrl_other : forall bs i j a, j <> i -> mget (w_ctrl bs j) (wcp i ++ a) = None.
Proof. intros bs i j a N. unfold w_ctrl, wcp. cbn [mget]. rewrite !elem_pfx_eqb_other by congruence. reflexivity. Qed.

Lemma mget_iob : forall c T pad d i a, (i < T)%nat -> mget (w_iob (d_bufs d) i) (wbp i ++ a) <> None ->
  mget (w_mem_of c T pad d) (wbp i ++ a) = mget (w_iob (d_bufs d) i) (wbp i ++ a).
Proof.
  intros c T pad d i a Hi S. rewrite (mget_to_core c T pad d _ _ (hnum_bp i a)) by lia. unfold w_core. rewrite !mget_app.
  rewrite (allnum_none h _ _ _ (allnum_seg3 T pad d) (hnum_bp i a)) by lia.
  rewrite (RefineConcMem.mget_flat_at _ _ i) by (try lia; intros; apply iob_other; assumption).
  destruct (mget (w_iob (d_bufs d) i) (wbp i ++ a)); [reflexivity|congruence].
Qed.
Lemma mget_ctrl : forall c T pad d i a, (i < T)%nat -> mget (w_ctrl (d_bufs d) i) (wcp i ++ a) <> None ->
  mget (w_mem_of c T pad d) (wcp i ++ a) = mget (w_ctrl (d_bufs d) i) (wcp i ++ a).
Proof.
  intros c T pad d i a Hi S. rewrite (mget_to_core c T pad d _ _ (hnum_cp i a)) by lia. unfold w_core. rewrite !mget_app.
  rewrite (allnum_none h _ _ _ (allnum_seg3 T pad d) (hnum_cp i a)) by lia.
  rewrite (allnum_none (h + 1) _ _ _ (allnum_flat _ _ _ (allnum_iob (d_bufs d))) (hnum_cp i a)) by lia.
  rewrite (RefineConcMem.mget_flat_at _ _ i) by (try lia; intros; apply ctrl_other; assumption).
  destruct (mget (w_ctrl (d_bufs d) i) (wcp i ++ a)); [reflexivity|congruence].
Qed.
Lemma mget_seg3 : forall c T pad d a, mget (w_seg3 T pad d) (wGP ++ a) <> None ->
  mget (w_mem_of c T pad d) (wGP ++ a) = mget (w_seg3 T pad d) (wGP ++ a).
Proof.
  intros c T pad d a S. rewrite (mget_to_core c T pad d _ _ (hnum_GP a)) by lia. unfold w_core. rewrite !mget_app.
  destruct (mget (w_seg3 T pad d) (wGP ++ a)); [reflexivity|congruence].
Qed.
(* the stream objects *)
Lemma mget_sm : forall c T pad d i a, mget (w_mem_of c T pad d) (wmp i ++ a) = mget (d_sm d) (wmp i ++ a).
Proof.
  intros c T pad d i a. rewrite (mget_to_core c T pad d _ _ (hnum_mp i a)) by lia. unfold w_core. rewrite !mget_app.
  rewrite (allnum_none h _ _ _ (allnum_seg3 T pad d) (hnum_mp i a)) by lia.
  rewrite (allnum_none (h + 1) _ _ _ (allnum_flat _ _ _ (allnum_iob (d_bufs d))) (hnum_mp i a)) by lia.
  rewrite (allnum_none (h + 2) _ _ _ (allnum_flat _ _ _ (allnum_ctrl (d_bufs d))) (hnum_mp i a)) by lia.
  rewrite (allnum_none (h + 3) _ _ _ (allnum_MA _) (hnum_mp i a)) by lia. reflexivity.
Qed.
Lemma mset_sm : forall c T pad d i a o, mset (w_mem_of c T pad d) (wmp i ++ a) o = w_mem_of c T pad (with_sm d (mset (d_sm d) (wmp i ++ a) o)).
Proof.
  intros c T pad d i a o. rewrite (mset_to_core c T pad d _ _ o (hnum_mp i a)) by lia. unfold w_mem_of, w_core.
  cbn [with_sm d_sm d_bufs d_live d_turn d_over w_seg3]. do 3 f_equal.
  rewrite mset_app_r by (apply (allnum_none h _ _ _ (allnum_seg3 T pad d) (hnum_mp i a)); lia). f_equal.
  rewrite mset_app_r by (apply (allnum_none (h + 1) _ _ _ (allnum_flat _ _ _ (allnum_iob (d_bufs d))) (hnum_mp i a)); lia). f_equal.
  rewrite mset_app_r by (apply (allnum_none (h + 2) _ _ _ (allnum_flat _ _ _ (allnum_ctrl (d_bufs d))) (hnum_mp i a)); lia). f_equal.
  rewrite mset_app_r by (apply (allnum_none (h + 3) _ _ _ (allnum_MA _) (hnum_mp i a)); lia). reflexivity.
Qed.
(* a local array: not in the frames, it lives behind the stream objects *)
Lemma mset_loc : forall c T pad d k o, k = "%mask" \/ k = "%nxt_iv" -> mset (w_mem_of c T pad d) k o = w_mem_of c T pad (with_sm d (mset (d_sm d) k o)).
Proof.
  intros c T pad d k o Hk. assert (Hn : hnum k = None) by (destruct Hk as [-> | ->]; reflexivity).
  assert (Hl : String.eqb k "live_num" = false) by (destruct Hk as [-> | ->]; reflexivity).
  unfold w_mem_of, w_core. cbn [with_sm d_sm d_bufs d_live d_turn d_over w_seg3].
  rewrite mset_app_r by (apply frame_loc; [apply (wo_memA OK)|exact Hk]). f_equal.
  rewrite mset_app_r by (cbn [mget]; rewrite Hl; reflexivity). f_equal.
  rewrite mset_app_r by (apply frame_loc; [apply (wo_memB OK)|exact Hk]). f_equal.
  rewrite mset_app_r by (apply (allnum_none' h _ _ (allnum_seg3 T pad d) Hn)). f_equal.
  rewrite mset_app_r by (apply (allnum_none' (h + 1) _ _ (allnum_flat _ _ _ (allnum_iob (d_bufs d))) Hn)). f_equal.
  rewrite mset_app_r by (apply (allnum_none' (h + 2) _ _ (allnum_flat _ _ _ (allnum_ctrl (d_bufs d))) Hn)). f_equal.
  rewrite mset_app_r by (apply (allnum_none' (h + 3) _ _ (allnum_MA _) Hn)). reflexivity.
Qed.
Lemma mget_tab : forall c T pad d k, RefineAesOps.is_tab k -> mget (w_mem_of c T pad d) k = mget (wp_memA P c T) k.
Proof.
  intros c T pad d k Hk. destruct (wo_tabs OK c T) as (T1 & T2 & T3 & T4 & T5). unfold w_mem_of. rewrite mget_app.
  destruct Hk as [-> |[-> |[-> |[-> | ->]]]]; [rewrite T1|rewrite T2|rewrite T3|rewrite T4|rewrite T5]; reflexivity.
Qed.
Lemma w_tabs_ok : forall c T pad d, RefineAesOps.tabs_ok (w_mem_of c T pad d).
Proof.
  intros. destruct (wo_tabs OK c T) as (T1 & T2 & T3 & T4 & T5). unfold RefineAesOps.tabs_ok.
  rewrite !mget_tab by (unfold RefineAesOps.is_tab; tauto). auto.
Qed.

(* names without a heap number: only the frames *)
Lemma mget_plain : forall c T pad d k, hnum k = None -> k <> "live_num" -> mget (wp_memA P c T) k <> None ->
  mget (w_mem_of c T pad d) k = mget (wp_memA P c T) k.
Proof. intros c T pad d k H N S. unfold w_mem_of. rewrite mget_app. destruct (mget (wp_memA P c T) k); [reflexivity|congruence]. Qed.

(* ================= the reads ================= *)
Lemma hnum_cpname : forall x, hnum (wp_cp P ++ x) = None.
Proof. intros x. destruct (wo_cp OK) as [r ->]. reflexivity. Qed.
Lemma w_mget_sum : forall c T pad d, mget (w_mem_of c T pad d) "sum" = Some (cell U32 (16 * Z.of_nat c)).
Proof. intros. rewrite mget_plain; [apply (wo_sum OK)|reflexivity|discriminate|rewrite (wo_sum OK); discriminate]. Qed.
Lemma w_mget_threads : forall c T pad d, mget (w_mem_of c T pad d) (wp_cp P ++ "THREADS_NUM") = Some (cell U8 (Z.of_nat T)).
Proof.
  intros. rewrite mget_plain; [apply (wo_thr OK)|apply hnum_cpname| |rewrite (wo_thr OK); discriminate].
  destruct (wo_cp OK) as [r ->]. discriminate.
Qed.
Lemma w_mget_live : forall c T pad d, mget (w_mem_of c T pad d) "live_num" = Some (cell U8 (Z.of_nat (d_live d))).
Proof. intros. unfold w_mem_of. rewrite mget_app. rewrite (frame_live _ (wo_memA OK c T)). reflexivity. Qed.

Ltac seg_get := unfold w_seg3; cbn [mget]; rewrite ?append_eqb_l; cbn [String.eqb Ascii.eqb Bool.eqb]; try reflexivity; try discriminate.
Lemma w_mget_turn : forall c T pad d, mget (w_mem_of c T pad d) (wGP ++ "turn") = Some (cell U32 (Z.of_nat (d_turn d))).
Proof. intros. rewrite mget_seg3; seg_get. Qed.
Lemma w_mget_size : forall c T pad d, mget (w_mem_of c T pad d) (wGP ++ "size") = Some (cell U32 (Z.of_nat T)).
Proof. intros. rewrite mget_seg3; seg_get. Qed.
Lemma w_mget_pad : forall c T pad d, mget (w_mem_of c T pad d) (wGP ++ "ispadding") = Some (cell TBool (b2z pad)).
Proof. intros. rewrite mget_seg3; seg_get. Qed.
Lemma w_mget_over : forall c T pad d, mget (w_mem_of c T pad d) (wGP ++ "over") = Some (cell TBool (b2z (d_over d))).
Proof. intros. rewrite mget_seg3; seg_get. Qed.

Ltac fam_get := unfold w_iob, w_ctrl, wbp, wcp; cbn [mget]; rewrite ?elem_pfx_eqb_same; cbn [String.eqb Ascii.eqb Bool.eqb andb]; try reflexivity; try discriminate.
Lemma w_mget_b : forall c T pad d i, (i < T)%nat -> mget (w_mem_of c T pad d) (wbp i ++ "b") = Some {| o_ty := U8; o_cells := mb_cells (nth i (d_bufs d) mb0) |}.
Proof. intros. rewrite mget_iob by (try assumption; fam_get). fam_get. Qed.
Lemma w_mget_tot : forall c T pad d i, (i < T)%nat -> mget (w_mem_of c T pad d) (wbp i ++ "total") = Some (cell U32 (mb_tot (nth i (d_bufs d) mb0))).
Proof. intros. rewrite mget_iob by (try assumption; fam_get). fam_get. Qed.
Lemma w_mget_now : forall c T pad d i, (i < T)%nat -> mget (w_mem_of c T pad d) (wbp i ++ "now") = Some (cell U32 (mb_now (nth i (d_bufs d) mb0))).
Proof. intros. rewrite mget_iob by (try assumption; fam_get). fam_get. Qed.
Lemma w_mget_tail : forall c T pad d i, (i < T)%nat -> mget (w_mem_of c T pad d) (wbp i ++ "tail") = Some (cell U32 (mb_tail (nth i (d_bufs d) mb0))).
Proof. intros. rewrite mget_iob by (try assumption; fam_get). fam_get. Qed.
Lemma w_mget_fin : forall c T pad d i, (i < T)%nat -> mget (w_mem_of c T pad d) (wbp i ++ "isfinal") = Some (cell TBool (b2z (mb_fin (nth i (d_bufs d) mb0)))).
Proof. intros. rewrite mget_iob by (try assumption; fam_get). fam_get. Qed.
Lemma w_mget_st : forall c T pad d i, (i < T)%nat -> mget (w_mem_of c T pad d) (wcp i ++ "state") = Some (cell U32 (Z.of_nat (mb_st (nth i (d_bufs d) mb0)))).
Proof. intros. rewrite mget_ctrl by (try assumption; fam_get). fam_get. Qed.

(* ================= the writes ================= *)
Lemma w_mem_out : forall c T pad d v, w_mem_of c T pad (with_out d v) = w_mem_of c T pad d.
Proof. reflexivity. Qed.
Lemma w_mem_fin : forall c T pad d p e, w_mem_of c T pad (with_fin d p e) = w_mem_of c T pad d.
Proof. reflexivity. Qed.
Lemma w_mset_live : forall c T pad d v, mset (w_mem_of c T pad d) "live_num" (cell U8 (Z.of_nat v)) = w_mem_of c T pad (with_live d v).
Proof. intros. unfold w_mem_of. rewrite mset_app_r by (apply frame_live, (wo_memA OK)). reflexivity. Qed.
Lemma w_mset_seg3 : forall c T pad d a o, mget (w_seg3 T pad d) (wGP ++ a) <> None ->
  mset (w_mem_of c T pad d) (wGP ++ a) o =
  (wp_memA P c T ++ [("live_num", cell U8 (Z.of_nat (d_live d)))] ++ wp_memB P c T ++ mset (w_seg3 T pad d) (wGP ++ a) o ++ flat_map (w_iob (d_bufs d)) (seq 0 T) ++ flat_map (w_ctrl (d_bufs d)) (seq 0 T)
  ++ [(wMA, {| o_ty := U64; o_cells := repeat 0%Z T |})] ++ d_sm d)%list.
Proof. intros c T pad d a o S. rewrite (mset_to_core c T pad d _ _ o (hnum_GP a)) by lia. unfold w_core. rewrite mset_app_l by exact S. reflexivity. Qed.
Ltac seg_set := unfold w_seg3; cbn [mset mget]; rewrite ?append_eqb_l; cbn [String.eqb Ascii.eqb Bool.eqb]; try reflexivity; try discriminate.
Lemma w_mset_turn : forall c T pad d v, mset (w_mem_of c T pad d) (wGP ++ "turn") (cell U32 (Z.of_nat v)) = w_mem_of c T pad (with_turn d v).
Proof. intros. rewrite w_mset_seg3 by seg_get. unfold w_mem_of, w_core. cbn [with_turn d_sm d_bufs d_live d_turn d_over]. do 3 f_equal. seg_set. Qed.
Lemma w_mset_over : forall c T pad d v, mset (w_mem_of c T pad d) (wGP ++ "over") (cell TBool (b2z v)) = w_mem_of c T pad (with_over d v).
Proof. intros. rewrite w_mset_seg3 by seg_get. unfold w_mem_of, w_core. cbn [with_over d_sm d_bufs d_live d_turn d_over]. do 3 f_equal. seg_set. Qed.

Lemma w_mset_iob : forall c T pad d i a o f, (i < T)%nat -> List.length (d_bufs d) = T ->
  mset (w_iob (d_bufs d) i) (wbp i ++ a) o = w_iob (upd_buf i f (d_bufs d)) i ->
  mget (w_iob (d_bufs d) i) (wbp i ++ a) <> None ->
  (forall b, mb_st (f b) = mb_st b) ->
  mset (w_mem_of c T pad d) (wbp i ++ a) o = w_mem_of c T pad (with_bufs d (upd_buf i f (d_bufs d))).
Proof.
  intros c T pad d i a o f Hi HL E S St. rewrite (mset_to_core c T pad d _ _ o (hnum_bp i a)) by lia. unfold w_mem_of, w_core.
  cbn [with_bufs d_sm d_bufs d_live d_turn d_over w_seg3]. do 3 f_equal.
  rewrite mset_app_r by (apply (allnum_none h _ _ _ (allnum_seg3 T pad d) (hnum_bp i a)); lia). f_equal.
  rewrite mset_app_l by (rewrite (RefineConcMem.mget_flat_at _ _ i) by (try lia; intros; apply iob_other; assumption); exact S).
  f_equal.
  - rewrite (RefineConcMem.mset_flat_at _ _ _ i) by (try lia; try exact S; intros; apply iob_other; assumption).
    apply RefineConcMem.flat_map_ext_seq. intros j Hj. destruct (Nat.eqb_spec j i) as [->|N]; [exact E|].
    unfold w_iob. rewrite nth_upd_buf_other by congruence. reflexivity.
  - f_equal. apply RefineConcMem.flat_map_ext_seq. intros j Hj. unfold w_ctrl. destruct (Nat.eq_dec j i) as [->|N].
    + rewrite nth_upd_buf_same by lia. rewrite St. reflexivity.
    + rewrite nth_upd_buf_other by congruence. reflexivity.
Qed.
Ltac fam_set := unfold w_iob, w_ctrl, wbp, wcp; cbn [mset mget]; rewrite ?elem_pfx_eqb_same;
  cbn [String.eqb Ascii.eqb Bool.eqb andb]; rewrite ?nth_upd_buf_same by lia; try reflexivity; try discriminate.
Lemma w_mset_b : forall c T pad d i v, (i < T)%nat -> List.length (d_bufs d) = T ->
  mset (w_mem_of c T pad d) (wbp i ++ "b") {| o_ty := U8; o_cells := v |} = w_mem_of c T pad (with_bufs d (upd_buf i (mb_with_cells v) (d_bufs d))).
Proof. intros. apply w_mset_iob; try assumption; try reflexivity; fam_set. Qed.
Lemma w_mset_tot : forall c T pad d i v, (i < T)%nat -> List.length (d_bufs d) = T ->
  mset (w_mem_of c T pad d) (wbp i ++ "total") (cell U32 v) = w_mem_of c T pad (with_bufs d (upd_buf i (mb_with_tot v) (d_bufs d))).
Proof. intros. apply w_mset_iob; try assumption; try reflexivity; fam_set. Qed.
Lemma w_mset_now : forall c T pad d i v, (i < T)%nat -> List.length (d_bufs d) = T ->
  mset (w_mem_of c T pad d) (wbp i ++ "now") (cell U32 v) = w_mem_of c T pad (with_bufs d (upd_buf i (mb_with_now v) (d_bufs d))).
Proof. intros. apply w_mset_iob; try assumption; try reflexivity; fam_set. Qed.
Lemma w_mset_tail : forall c T pad d i v, (i < T)%nat -> List.length (d_bufs d) = T ->
  mset (w_mem_of c T pad d) (wbp i ++ "tail") (cell U32 v) = w_mem_of c T pad (with_bufs d (upd_buf i (mb_with_tail v) (d_bufs d))).
Proof. intros. apply w_mset_iob; try assumption; try reflexivity; fam_set. Qed.
Lemma w_mset_fin : forall c T pad d i v, (i < T)%nat -> List.length (d_bufs d) = T ->
  mset (w_mem_of c T pad d) (wbp i ++ "isfinal") (cell TBool (b2z v)) = w_mem_of c T pad (with_bufs d (upd_buf i (mb_with_fin v) (d_bufs d))).
Proof. intros. apply w_mset_iob; try assumption; try reflexivity; fam_set. Qed.
Lemma w_mset_st : forall c T pad d i v, (i < T)%nat -> List.length (d_bufs d) = T ->
  mset (w_mem_of c T pad d) (wcp i ++ "state") (cell U32 (Z.of_nat v)) = w_mem_of c T pad (with_bufs d (upd_buf i (mb_with_st v) (d_bufs d))).
Proof.
  intros c T pad d i v Hi HL. rewrite (mset_to_core c T pad d _ _ _ (hnum_cp i "state")) by lia. unfold w_mem_of, w_core.
  cbn [with_bufs d_sm d_bufs d_live d_turn d_over w_seg3]. do 3 f_equal.
  rewrite mset_app_r by (apply (allnum_none h _ _ _ (allnum_seg3 T pad d) (hnum_cp i "state")); lia). f_equal.
  rewrite mset_app_r by (apply (allnum_none (h + 1) _ _ _ (allnum_flat _ _ _ (allnum_iob (d_bufs d))) (hnum_cp i "state")); lia). f_equal.
  - apply RefineConcMem.flat_map_ext_seq. intros j Hj. unfold w_iob. destruct (Nat.eq_dec j i) as [->|N].
    + rewrite nth_upd_buf_same by lia. reflexivity.
    + rewrite nth_upd_buf_other by congruence. reflexivity.
  - assert (S : mget (w_ctrl (d_bufs d) i) (wcp i ++ "state") <> None) by fam_set.
    rewrite mset_app_l by (rewrite (RefineConcMem.mget_flat_at _ _ i) by (try lia; intros; apply ctrl_other; assumption); exact S).
    f_equal. rewrite (RefineConcMem.mset_flat_at _ _ _ i) by (try lia; try exact S; intros; apply ctrl_other; assumption).
    apply RefineConcMem.flat_map_ext_seq. intros j Hj. destruct (Nat.eqb_spec j i) as [->|N]; [fam_set|].
    unfold w_ctrl. rewrite nth_upd_buf_other by congruence. reflexivity.
Qed.

(* ================= the pointer table ================= *)
Notation lget_app := RefineConcMem.lget_app.
Lemma pframe_num : forall l k n, ptr_frame_ok l = true -> hnum k = Some n -> (h <= n)%nat -> lget l k = None.
Proof.
  intros l k n F H L. apply (lget_below h _ l k n); [|exact H|exact L].
  unfold ptr_frame_ok, pkey_ok in F. rewrite forallb_forall in *. intros x Hx. specialize (F x Hx). rewrite !andb_true_iff in F. tauto.
Qed.
Lemma pframe_key : forall l k, ptr_frame_ok l = true -> (forall k', pkey_ok k' = true -> String.eqb k k' = false) -> lget l k = None.
Proof.
  induction l as [|[k' v] l IH]; intros k F H; cbn [lget]; [reflexivity|].
  unfold ptr_frame_ok in F. cbn [forallb fst] in F. apply andb_true_iff in F. destruct F as [F1 F2].
  rewrite (H k' F1). apply IH; assumption.
Qed.
Lemma pframe_instance : forall l, ptr_frame_ok l = true -> lget l "instance" = None.
Proof. intros l F. apply pframe_key; [exact F|]. intros k' K. unfold pkey_ok in K. rewrite !andb_true_iff in K. destruct K as [[_ K] _]. apply negb_true_iff in K. exact K. Qed.
Lemma pframe_class : forall l r n, ptr_frame_ok l = true -> hnum r = Some n -> (h <= n)%nat -> lget l (class_key r) = None.
Proof.
  intros l r n F H L. apply pframe_key; [exact F|]. intros k' K. unfold pkey_ok in K. rewrite !andb_true_iff in K. destruct K as [[[_ K] _] _].
  destruct (String.eqb (class_key r) k') eqn:E; [|reflexivity]. apply String.eqb_eq in E. subst k'. unfold class_key in K.
  rewrite RefineE2ENames.strip_app in K. unfold below in K. rewrite H in K. apply Nat.ltb_lt in K. lia.
Qed.
Lemma pframe_thr : forall l x, ptr_frame_ok l = true -> lget l ((wp_cp P ++ "threads") ++ x) = None.
Proof.
  intros l x F. apply pframe_key; [exact F|]. intros k' K. unfold pkey_ok in K. rewrite !andb_true_iff in K. destruct K as [_ K]. apply negb_true_iff in K.
  destruct (String.eqb ((wp_cp P ++ "threads") ++ x) k') eqn:E; [|reflexivity]. apply String.eqb_eq in E. subst k'. rewrite pfxb_app in K. discriminate.
Qed.

Lemma hnum_class : forall r, hnum (class_key r) = None.
Proof. reflexivity. Qed.
Lemma w_lget_instance : forall T, lget (w_ptrs_of T) "instance" = Some (VPtr wGP 0).
Proof. intros T. unfold w_ptrs_of. rewrite lget_app, (pframe_instance _ (wo_pA OK T)). reflexivity. Qed.
Lemma w_lget_core : forall T a, lget core5 (wGP ++ a) <> None -> lget (w_ptrs_of T) (wGP ++ a) = lget core5 (wGP ++ a).
Proof.
  intros T a S. unfold w_ptrs_of. rewrite !lget_app.
  rewrite (pframe_num _ _ _ (wo_pA OK T) (hnum_GP a)) by lia. cbn [lget].
  rewrite (hnum_none_neq (wGP ++ a) "instance" h (hnum_GP a) eq_refl).
  rewrite (pframe_num _ _ _ (wo_pB OK T) (hnum_GP a)) by lia.
  destruct (lget core5 (wGP ++ a)); [reflexivity|congruence].
Qed.
Ltac core_get := unfold core5; cbn [lget]; rewrite ?(hnum_none_neq _ (class_key wGP) h (hnum_GP _) (hnum_class _)), ?append_eqb_l; cbn [String.eqb Ascii.eqb Bool.eqb]; try reflexivity; try discriminate.
Lemma w_lget_buflst : forall T, lget (w_ptrs_of T) (wGP ++ "buflst") = Some (VPtr wBL 0).
Proof. intros. rewrite w_lget_core; core_get. Qed.
Lemma w_lget_ctrl : forall T, lget (w_ptrs_of T) (wGP ++ "ctrl") = Some (VPtr wCT 0).
Proof. intros. rewrite w_lget_core; core_get. Qed.
Lemma w_lget_fin : forall T, lget (w_ptrs_of T) (wGP ++ "fin") = Some (VPtr "fin" 0).
Proof. intros. rewrite w_lget_core; core_get. Qed.
Lemma w_lget_fout : forall T, lget (w_ptrs_of T) (wGP ++ "fout") = Some (VPtr "fout" 0).
Proof. intros. rewrite w_lget_core; core_get. Qed.

Lemma class_eqb : forall a b, String.eqb (class_key a) (class_key b) = String.eqb a b.
Proof. intros. unfold class_key. apply append_eqb_l. Qed.
Lemma hnum_MAkey : forall off, (0 <= off)%Z -> hnum (ptr_key wMA off) = Some (h + 3)%nat.
Proof.
  intros off H. destruct (Z.eq_dec off 0) as [->|N]; [apply hnum_MA|]. unfold wMA. rewrite heap_key by lia. apply hnum_HN. reflexivity.
Qed.
Lemma w_lget_class_mode : forall T i, (i < T)%nat -> lget (w_ptrs_of T) (class_key (wmp i)) = Some (VPtr w_cls 0).
Proof.
  intros T i Hi. unfold w_ptrs_of. rewrite !lget_app.
  pose proof (hnum_mp i "") as Hm. rewrite RefineE2ENames.append_nil_r in Hm.
  rewrite (pframe_class _ _ _ (wo_pA OK T) Hm) by lia. cbn [lget]. change (String.eqb (class_key (wmp i)) "instance") with false. cbv iota.
  rewrite (pframe_class _ _ _ (wo_pB OK T) Hm) by lia.
  assert (C5 : lget core5 (class_key (wmp i)) = None).
  { unfold core5. cbn [lget]. rewrite class_eqb. pose proof (hnum_GP "") as Hg. rewrite RefineE2ENames.append_nil_r in Hg.
    rewrite (hnum_neq _ _ _ _ Hm Hg) by lia.
    rewrite (String.eqb_sym (class_key (wmp i)) (wGP ++ "buflst")), (hnum_none_neq _ _ _ (hnum_GP "buflst") (hnum_class (wmp i))).
    rewrite (String.eqb_sym (class_key (wmp i)) (wGP ++ "ctrl")), (hnum_none_neq _ _ _ (hnum_GP "ctrl") (hnum_class (wmp i))).
    rewrite (String.eqb_sym (class_key (wmp i)) (wGP ++ "fin")), (hnum_none_neq _ _ _ (hnum_GP "fin") (hnum_class (wmp i))).
    rewrite (String.eqb_sym (class_key (wmp i)) (wGP ++ "fout")), (hnum_none_neq _ _ _ (hnum_GP "fout") (hnum_class (wmp i))). reflexivity. }
  rewrite C5.
  rewrite (RefineConcMem.lget_map_none _ (fun i => class_key (wbp i))).
  2:{ intros j. rewrite class_eqb. pose proof (hnum_bp j "") as Hb. rewrite RefineE2ENames.append_nil_r in Hb. apply (hnum_neq _ _ _ _ Hm Hb). lia. }
  rewrite (RefineConcMem.lget_map_none _ (fun i => class_key (wcp i))).
  2:{ intros j. rewrite class_eqb. pose proof (hnum_cp j "") as Hb. rewrite RefineE2ENames.append_nil_r in Hb. apply (hnum_neq _ _ _ _ Hm Hb). lia. }
  rewrite (pframe_class _ _ _ (wo_pC OK T) Hm) by lia.
  rewrite (lget_flat_at _ stream_ptrs _ i).
  - unfold stream_ptrs. cbn [lget]. rewrite String.eqb_refl. reflexivity.
  - intros j N. unfold stream_ptrs. cbn [lget]. rewrite class_eqb.
    pose proof (hnum_mp j "") as Hb. rewrite RefineE2ENames.append_nil_r in Hb. rewrite (hnum_neq _ _ _ _ Hm Hb) by lia.
    rewrite String.eqb_sym, (hnum_none_neq _ _ _ (hnum_MAkey (8 * Z.of_nat j) ltac:(lia)) (hnum_class (wmp i))). reflexivity.
  - lia.
Qed.

Lemma thr_key_shape : forall off, exists r, ptr_key (wp_cp P ++ "threads") off = String "r" r /\ ptr_key (wp_cp P ++ "threads") off = (wp_cp P ++ "threads") ++ RefineConcMem.key_sfx off.
Proof. intros off. rewrite RefineConcMem.ptr_key_app. destruct (wo_cp OK) as [r0 E]. rewrite E. cbn [append]. eexists. split; reflexivity. Qed.
Lemma w_lget_thread_cell : forall T k, (k < T)%nat -> lget (w_ptrs_of T) (ptr_key (wp_cp P ++ "threads") (8 * Z.of_nat k)) = Some (VInt (Z.of_nat (S k))).
Proof.
  intros T k Hk. destruct (thr_key_shape (8 * Z.of_nat k)) as (r & E1 & E2).
  assert (Hn : hnum (ptr_key (wp_cp P ++ "threads") (8 * Z.of_nat k)) = None) by (rewrite E1; reflexivity).
  assert (Hc : forall x, String.eqb (ptr_key (wp_cp P ++ "threads") (8 * Z.of_nat k)) (class_key x) = false) by (intros x; rewrite E1; reflexivity).
  unfold w_ptrs_of. rewrite !lget_app.
  rewrite E2 at 1. rewrite (pframe_thr _ _ (wo_pA OK T)). cbn [lget].
  replace (String.eqb (ptr_key (wp_cp P ++ "threads") (8 * Z.of_nat k)) "instance") with false by (rewrite E1; reflexivity).
  rewrite E2 at 1. rewrite (pframe_thr _ _ (wo_pB OK T)).
  assert (C5 : lget core5 (ptr_key (wp_cp P ++ "threads") (8 * Z.of_nat k)) = None).
  { unfold core5. cbn [lget]. rewrite Hc.
    rewrite !(String.eqb_sym (ptr_key (wp_cp P ++ "threads") (8 * Z.of_nat k)) (wGP ++ _)).
    rewrite !(hnum_none_neq _ _ _ (hnum_GP _) Hn). reflexivity. }
  rewrite C5.
  rewrite (RefineConcMem.lget_map_none _ (fun i => class_key (wbp i))) by (intros; apply Hc).
  rewrite (RefineConcMem.lget_map_none _ (fun i => class_key (wcp i))) by (intros; apply Hc).
  rewrite E2 at 1. rewrite (pframe_thr _ _ (wo_pC OK T)).
  rewrite lget_flat_none.
  2:{ intros j. unfold stream_ptrs. cbn [lget]. rewrite Hc. rewrite String.eqb_sym, (hnum_none_neq _ _ _ (hnum_MAkey (8 * Z.of_nat j) ltac:(lia)) Hn). reflexivity. }
  apply (RefineConcMem.lget_map_at _ (fun i => ptr_key (wp_cp P ++ "threads") (8 * Z.of_nat i)) (fun i => VInt (Z.of_nat (S i)))); try lia.
  - intros j N. rewrite RefineConcMem.ptr_key_eqb by lia. apply Z.eqb_neq. lia.
  - apply String.eqb_refl.
Qed.
(* the cells of the array of stream pointers *)
Lemma w_lget_mode_cell : forall T i, (i < T)%nat -> lget (w_ptrs_of T) (ptr_key wMA (8 * Z.of_nat i)) = Some (VPtr (wmp i) 0).
Proof.
  intros T i Hi. pose proof (hnum_MAkey (8 * Z.of_nat i) ltac:(lia)) as Hm.
  unfold w_ptrs_of. rewrite !lget_app.
  rewrite (pframe_num _ _ _ (wo_pA OK T) Hm) by lia. cbn [lget]. rewrite (hnum_none_neq _ "instance" _ Hm eq_refl).
  rewrite (pframe_num _ _ _ (wo_pB OK T) Hm) by lia.
  assert (C5 : lget core5 (ptr_key wMA (8 * Z.of_nat i)) = None).
  { unfold core5. cbn [lget]. rewrite (hnum_none_neq _ _ _ Hm (hnum_class wGP)).
    rewrite !(hnum_neq _ _ _ _ Hm (hnum_GP _)) by lia. reflexivity. }
  rewrite C5.
  rewrite (RefineConcMem.lget_map_none _ (fun i => class_key (wbp i))) by (intros; apply (hnum_none_neq _ _ _ Hm (hnum_class _))).
  rewrite (RefineConcMem.lget_map_none _ (fun i => class_key (wcp i))) by (intros; apply (hnum_none_neq _ _ _ Hm (hnum_class _))).
  rewrite (pframe_num _ _ _ (wo_pC OK T) Hm) by lia.
  rewrite (lget_flat_at _ stream_ptrs _ i).
  - unfold stream_ptrs. cbn [lget]. rewrite (hnum_none_neq _ _ _ Hm (hnum_class _)). rewrite String.eqb_refl. reflexivity.
  - intros j N. unfold stream_ptrs. cbn [lget]. rewrite (hnum_none_neq _ _ _ Hm (hnum_class _)).
    rewrite RefineConcMem.ptr_key_eqb by lia. replace (8 * Z.of_nat i =? 8 * Z.of_nat j)%Z with false by (symmetry; apply Z.eqb_neq; lia). reflexivity.
  - lia.
Qed.

End WL.
