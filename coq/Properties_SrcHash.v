(* Refinement: the functions TRANSLATED FROM /repo's SOURCES (coq/Gen/Src_*.v, regenerated on
   every run by tools/cgen.py), run under the MiniC semantics (MiniC.v), compute exactly what the
   hand-written models compute -- for every input.  Together with the model = standard theorems
   (Properties_C07/C09/C10/C16) this gives "translated source = standard".
   A change to the C++ changes the left-hand sides; the proofs then have to be re-done (or fail). *)
From Coq Require Import ZArith NArith List String Bool.
From Wencry Require Import Bytes AesModel ModesModel HashModel Base64Model MiniC MiniCRun SrcRun RefineHash.
Import ListNotations.
Local Open Scope N_scope.

(* hashmaster.cpp getStringHash + sha1.cpp / md5.cpp / sha256.cpp *)
Theorem SRC_hash_string : forall alg a msg,
  get_hasher alg = Some a -> bytesb msg = true -> N.of_nat (length msg) < 2 ^ 32 ->
  src_hash_string alg msg = SOk (getStringHash a msg).
Proof. exact SRC_hash_string_proof. Qed.
Print Assumptions SRC_hash_string.

(* hashbuffer.cpp filebuffer64 (constructor, read_buffer64) + hashmaster.cpp getFileHash *)
Theorem SRC_hash_file : forall hbuf alg a block stream,
  get_hasher alg = Some a -> (1 <= hbuf)%nat -> N.of_nat (64 * hbuf) < 2 ^ 32 ->
  bytesb stream = true -> N.of_nat (length stream) < 2 ^ 56 ->
  (forall b, block = Some b -> length b = 64%nat /\ bytesb b = true) ->
  exists d, getFileHash hbuf a block stream = Some d /\ src_hash_file hbuf alg block stream = SOk d.
Proof. exact SRC_hash_file_proof. Qed.
Print Assumptions SRC_hash_file.

