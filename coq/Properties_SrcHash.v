(* Refinement: the functions TRANSLATED FROM /repo's SOURCES (coq/Gen/Src_*.v, regenerated on
   every run by tools/cgen.py), run under the MiniC semantics (MiniC.v), compute exactly what the
   hand-written models compute -- for every input.  Together with the model = standard theorems
   (Properties_C07/C09/C10/C16) this gives "translated source = standard".
   A change to the C++ changes the left-hand sides; the proofs then have to be re-done (or fail). *)
From Coq Require Import ZArith NArith List String Bool.
From Wencry Require Import Bytes AesModel ModesModel HashModel Base64Model MiniC MiniCRun SrcRun RefineHash.
Import ListNotations.
Local Open Scope N_scope.

(* hashmaster.cpp getStringHash + sha1.cpp / md5.cpp / sha256.cpp *)
Theorem SRC_hash_string : forall alg a msg,
  get_hasher alg = Some a -> bytesb msg = true -> N.of_nat (length msg) < 2 ^ 32 ->
  src_hash_string alg msg = SOk (getStringHash a msg).
Proof. exact SRC_hash_string_proof. Qed.
Print Assumptions SRC_hash_string.

(* hashbuffer.cpp filebuffer64 (constructor, read_buffer64) + hashmaster.cpp getFileHash *)
Theorem SRC_hash_file : forall hbuf alg a block stream,
  get_hasher alg = Some a -> (1 <= hbuf)%nat -> N.of_nat (64 * hbuf) < 2 ^ 32 ->
  bytesb stream = true -> N.of_nat (length stream) < 2 ^ 56 ->
  (forall b, block = Some b -> length b = 64%nat /\ bytesb b = true) ->
  exists d, getFileHash hbuf a block stream = Some d /\ src_hash_file hbuf alg block stream = SOk d.
Proof. exact SRC_hash_file_proof. Qed.
Print Assumptions SRC_hash_file.


(* ---- composed with C07 (model = FIPS 180-4 / RFC 1321): what clang reads in sha1.cpp / md5.cpp / sha256.cpp,
        hashmaster.cpp and hashbuffer.cpp computes the standard digest ---- *)
From Wencry Require Import HashSpec HashProofs.

Theorem SRC_hash_string_is_standard : forall alg a msg,
  get_hasher alg = Some a -> bytesb msg = true -> N.of_nat (length msg) < 2 ^ 32 ->
  src_hash_string alg msg = SOk (hash_spec alg msg).
Proof.
  intros alg a msg Ha Hb Hl. rewrite (SRC_hash_string alg a msg Ha Hb Hl). f_equal.
  apply C07_string_digest_is_standard_proof; auto.
  apply N.lt_trans with (8 * 2 ^ 32); [apply N.mul_lt_mono_pos_l; [reflexivity|exact Hl]|reflexivity].
Qed.
Print Assumptions SRC_hash_string_is_standard.

Theorem SRC_hash_file_is_standard : forall hbuf alg a block stream,
  get_hasher alg = Some a -> (1 <= hbuf)%nat -> N.of_nat (64 * hbuf) < 2 ^ 32 ->
  bytesb stream = true -> N.of_nat (length stream) < 2 ^ 56 ->
  (forall b, block = Some b -> length b = 64%nat /\ bytesb b = true) ->
  src_hash_file hbuf alg block stream = SOk (hash_spec alg (match block with None => [] | Some p => p end ++ stream)).
Proof.
  intros hbuf alg a block stream Ha Hh Hh2 Hb Hl Hblk.
  destruct (SRC_hash_file hbuf alg a block stream Ha Hh Hh2 Hb Hl Hblk) as [d [Hm Hs]].
  rewrite Hs. f_equal.
  assert (Hstd : getFileHash hbuf a block stream = Some (hash_spec alg (match block with None => [] | Some p => p end ++ stream))).
  { apply C07_file_digest_is_standard_proof; auto.
    - destruct block as [b|]; [apply Hblk; reflexivity|exact I].
    - rewrite Nat2N.inj_add. apply N.lt_trans with (8 * (64 + 2 ^ 56)); [|reflexivity].
      apply N.mul_lt_mono_pos_l; [reflexivity|]. apply N.add_lt_mono_l. exact Hl. }
  rewrite Hm in Hstd. injection Hstd; auto.
Qed.
Print Assumptions SRC_hash_file_is_standard.
