(* C09: the model of aes.cpp (AesModel) computes FIPS-197 AES-128 (AesSpec) on every
   well-formed key/block, decryption inverts encryption, outputs are blocks, and the
   generated tables are the FIPS-197 ones.

   Part A (helper lemmas): finite sweeps over bytes, table facts about the generated constants
   (always by computation, never by assuming their values), byte-closure of the FIPS-197
   operations, the column-level and block-level inverse laws, and the commutation of every
   model step with the transposition of the state.
   Part B: round loops, the six C09 statements, known-answer tests. *)
From Coq Require Import NArith List Bool Arith Lia Btauto.
From Wencry Require Import Bytes AesSpec AesModel.
From Wencry.Gen Require Import AesTab AesCoef.
Import ListNotations.
Local Open Scope N_scope.

(* ------------------------------------------------------------------ *)
(* 1. exhaustive sweeps                                                *)
(* ------------------------------------------------------------------ *)

Lemma in_all_bytes : forall b, b < 256 -> In b all_bytes.
Proof.
  intros b Hb. unfold all_bytes. rewrite <- (N2Nat.id b).
  apply in_map. apply in_seq. lia.
Qed.

Lemma sweep : forall P : N -> bool,
  forallb P all_bytes = true -> forall b, b < 256 -> P b = true.
Proof.
  intros P H b Hb. rewrite forallb_forall in H. apply H. apply in_all_bytes. exact Hb.
Qed.

(* prove  [L a = R a]  for a byte [a] (hypothesis [H : a < 256]) by running all 256 cases *)
Ltac byte_sweep a H :=
  revert a H;
  match goal with
  | |- forall a', a' < 256 -> @?L a' = @?R a' =>
      intros a H; apply N.eqb_eq;
      change ((fun x => L x =? R x) a = true);
      apply sweep; [ vm_compute; reflexivity | exact H ]
  end.

(* same for  [L a < 256] *)
Ltac byte_sweep_lt a H :=
  revert a H;
  match goal with
  | |- forall a', a' < 256 -> @?L a' < 256 =>
      intros a H; apply N.ltb_lt;
      change ((fun x => L x <? 256) a = true);
      apply sweep; [ vm_compute; reflexivity | exact H ]
  end.

(* ------------------------------------------------------------------ *)
(* 2. xor on bytes                                                     *)
(* ------------------------------------------------------------------ *)

Lemma log2_byte : forall a, a < 256 -> N.log2 a < 8.
Proof.
  intros a Ha. destruct (N.eq_dec a 0) as [E|E].
  - rewrite E. reflexivity.
  - apply N.log2_lt_pow2; [lia | exact Ha].
Qed.

Lemma lxor_lt256 : forall a b, a < 256 -> b < 256 -> N.lxor a b < 256.
Proof.
  intros a b Ha Hb.
  destruct (N.eq_dec (N.lxor a b) 0) as [E|E]; [rewrite E; reflexivity|].
  change 256 with (2 ^ 8). apply N.log2_lt_pow2; [lia|].
  eapply N.le_lt_trans; [apply N.log2_lxor|].
  apply N.max_lub_lt; apply log2_byte; assumption.
Qed.

Lemma lxor_cancel_r : forall a b, N.lxor (N.lxor a b) b = a.
Proof. intros a b. rewrite N.lxor_assoc, N.lxor_nilpotent, N.lxor_0_r. reflexivity. Qed.

Lemma x4_lt256 : forall a b c d, a < 256 -> b < 256 -> c < 256 -> d < 256 -> x4 a b c d < 256.
Proof. intros a b c d Ha Hb Hc Hd. unfold x4. repeat apply lxor_lt256; assumption. Qed.

Lemma x4_transpose : forall a0 a1 a2 a3 b0 b1 b2 b3 c0 c1 c2 c3 d0 d1 d2 d3,
  x4 (x4 a0 a1 a2 a3) (x4 b0 b1 b2 b3) (x4 c0 c1 c2 c3) (x4 d0 d1 d2 d3) =
  x4 (x4 a0 b0 c0 d0) (x4 a1 b1 c1 d1) (x4 a2 b2 c2 d2) (x4 a3 b3 c3 d3).
Proof.
  intros. unfold x4. apply N.bits_inj. intro n. rewrite !N.lxor_spec. btauto.
Qed.

Lemma x4_a000 : forall a, x4 a 0 0 0 = a.
Proof. intro a. unfold x4. rewrite !N.lxor_0_r. reflexivity. Qed.
Lemma x4_0a00 : forall a, x4 0 a 0 0 = a.
Proof. intro a. unfold x4. rewrite !N.lxor_0_r. apply N.lxor_0_l. Qed.
Lemma x4_00a0 : forall a, x4 0 0 a 0 = a.
Proof. intro a. unfold x4. rewrite !N.lxor_0_r. rewrite !N.lxor_0_l. reflexivity. Qed.
Lemma x4_000a : forall a, x4 0 0 0 a = a.
Proof. intro a. unfold x4. rewrite !N.lxor_0_l. reflexivity. Qed.

(* ------------------------------------------------------------------ *)
(* 3. GF(2^8) multiplication of the specification                      *)
(* ------------------------------------------------------------------ *)

Lemma odd_lxor : forall x y, N.odd (N.lxor x y) = xorb (N.odd x) (N.odd y).
Proof. intros x y. rewrite <- !N.bit0_odd. apply N.lxor_spec. Qed.

Lemma div2_lxor : forall x y, N.div2 (N.lxor x y) = N.lxor (N.div2 x) (N.div2 y).
Proof. intros x y. rewrite !N.div2_spec. apply N.shiftr_lxor. Qed.

Lemma if_xorb : forall (p q : bool) (a : N),
  (if xorb p q then a else 0) = N.lxor (if p then a else 0) (if q then a else 0).
Proof.
  intros p q a. destruct p, q; cbn [xorb];
    rewrite ?N.lxor_0_r, ?N.lxor_0_l, ?N.lxor_nilpotent; reflexivity.
Qed.

Lemma lxor_swap4 : forall a b c d,
  N.lxor (N.lxor a b) (N.lxor c d) = N.lxor (N.lxor a c) (N.lxor b d).
Proof. intros. apply N.bits_inj. intro n. rewrite !N.lxor_spec. btauto. Qed.

(* multiplication distributes over xor in its second argument (no range condition needed) *)
Lemma gmul_fuel_lin : forall n a x y,
  gmul_fuel n a (N.lxor x y) = N.lxor (gmul_fuel n a x) (gmul_fuel n a y).
Proof.
  induction n as [|n IH]; intros a x y; cbn [gmul_fuel].
  - reflexivity.
  - rewrite odd_lxor, div2_lxor, IH, if_xorb. apply lxor_swap4.
Qed.

Lemma gmul_lxor : forall c x y, gmul c (N.lxor x y) = N.lxor (gmul c x) (gmul c y).
Proof. intros. unfold gmul. apply gmul_fuel_lin. Qed.

Lemma gmul_x4 : forall k a b c d,
  gmul k (x4 a b c d) = x4 (gmul k a) (gmul k b) (gmul k c) (gmul k d).
Proof. intros. unfold x4. rewrite !gmul_lxor. reflexivity. Qed.

Lemma gmul2_byte : forall a, a < 256 -> gmul 2 a < 256.
Proof. intros a H. byte_sweep_lt a H. Qed.
Lemma gmul3_byte : forall a, a < 256 -> gmul 3 a < 256.
Proof. intros a H. byte_sweep_lt a H. Qed.
Lemma gmul9_byte : forall a, a < 256 -> gmul 9 a < 256.
Proof. intros a H. byte_sweep_lt a H. Qed.
Lemma gmul11_byte : forall a, a < 256 -> gmul 11 a < 256.
Proof. intros a H. byte_sweep_lt a H. Qed.
Lemma gmul13_byte : forall a, a < 256 -> gmul 13 a < 256.
Proof. intros a H. byte_sweep_lt a H. Qed.
Lemma gmul14_byte : forall a, a < 256 -> gmul 14 a < 256.
Proof. intros a H. byte_sweep_lt a H. Qed.

Lemma SubByte_byte : forall a, a < 256 -> SubByte a < 256.
Proof. intros a H. byte_sweep_lt a H. Qed.
Lemma InvSubByte_byte : forall a, a < 256 -> InvSubByte a < 256.
Proof. intros a H. byte_sweep_lt a H. Qed.
Lemma InvSubByte_SubByte : forall a, a < 256 -> InvSubByte (SubByte a) = a.
Proof. intros a H. byte_sweep a H. Qed.
Lemma SubByte_InvSubByte : forall a, a < 256 -> SubByte (InvSubByte a) = a.
Proof. intros a H. byte_sweep a H. Qed.

Lemma xtime_byte : forall a, a < 256 -> xtime a < 256.
Proof. intros a H. byte_sweep_lt a H. Qed.

Lemma rcon_byte : forall i, rcon i < 256.
Proof.
  induction i as [|i IH]; [reflexivity|].
  destruct i as [|i]; [reflexivity|].
  change (rcon (S (S i))) with (xtime (rcon (S i))). apply xtime_byte. exact IH.
Qed.

#[global] Hint Resolve lxor_lt256 x4_lt256 gmul2_byte gmul3_byte gmul9_byte gmul11_byte
  gmul13_byte gmul14_byte SubByte_byte InvSubByte_byte rcon_byte : bytes.

(* ------------------------------------------------------------------ *)
(* 4. the generated tables (always by computation on the Gen constants) *)
(* ------------------------------------------------------------------ *)

Lemma tab_s_box_fips : tab_s_box = fips_sbox.
Proof. vm_compute. reflexivity. Qed.

Lemma tab_rs_box_fips : tab_rs_box = fips_inv_sbox.
Proof. vm_compute. reflexivity. Qed.

Lemma sbox_SubByte : forall b, sbox b = SubByte b.
Proof. intro b. unfold sbox, SubByte. rewrite tab_s_box_fips. reflexivity. Qed.

Lemma rsbox_InvSubByte : forall b, rsbox b = InvSubByte b.
Proof. intro b. unfold rsbox, InvSubByte. rewrite tab_rs_box_fips. reflexivity. Qed.

Lemma Gmul_25 : forall v, v < 256 -> Gmul 25 v = gmul 2 v.
Proof. intros v H. byte_sweep v H. Qed.
Lemma Gmul_1 : forall v, v < 256 -> Gmul 1 v = gmul 3 v.
Proof. intros v H. byte_sweep v H. Qed.
Lemma Gmul_0 : forall v, v < 256 -> Gmul 0 v = v.
Proof. intros v H. byte_sweep v H. Qed.
Lemma Gmul_223 : forall v, v < 256 -> Gmul 223 v = gmul 14 v.
Proof. intros v H. byte_sweep v H. Qed.
Lemma Gmul_104 : forall v, v < 256 -> Gmul 104 v = gmul 11 v.
Proof. intros v H. byte_sweep v H. Qed.
Lemma Gmul_238 : forall v, v < 256 -> Gmul 238 v = gmul 13 v.
Proof. intros v H. byte_sweep v H. Qed.
Lemma Gmul_199 : forall v, v < 256 -> Gmul 199 v = gmul 9 v.
Proof. intros v H. byte_sweep v H. Qed.

Lemma tab_RC_rcon : forall i, (1 <= i <= 10)%nat -> nth i tab_RC 0 = rcon i.
Proof.
  intros i Hi.
  do 11 (destruct i as [|i]; [try lia; vm_compute; reflexivity|]). lia.
Qed.

Lemma key_rounds_val : (N.to_nat key_rounds - 1)%nat = 10%nat.
Proof. vm_compute. reflexivity. Qed.
Lemma enc_round_struct_val : enc_round_struct = [9; 9; 10].
Proof. vm_compute. reflexivity. Qed.
Lemma dec_round_struct_val : dec_round_struct = [9; 10; 8].
Proof. vm_compute. reflexivity. Qed.

(* ------------------------------------------------------------------ *)
(* 5. blocks as explicit 16-element lists                              *)
(* ------------------------------------------------------------------ *)

Lemma block16_elim : forall P : list N -> Prop,
  (forall v0 v1 v2 v3 v4 v5 v6 v7 v8 v9 v10 v11 v12 v13 v14 v15,
     v0 < 256 -> v1 < 256 -> v2 < 256 -> v3 < 256 -> v4 < 256 -> v5 < 256 -> v6 < 256 -> v7 < 256 -> v8 < 256 -> v9 < 256 -> v10 < 256 -> v11 < 256 -> v12 < 256 -> v13 < 256 -> v14 < 256 -> v15 < 256 ->
     P [v0;v1;v2;v3;v4;v5;v6;v7;v8;v9;v10;v11;v12;v13;v14;v15]) ->
  forall s, block16 s -> P s.
Proof.
  intros P H s [Hlen Hb].
  do 16 (destruct s as [|? s]; [discriminate Hlen|]).
  destruct s; [|discriminate Hlen].
  unfold bytesb in Hb. cbn [forallb] in Hb.
  repeat (apply andb_true_iff in Hb; destruct Hb as [? Hb]).
  unfold byte_ok in *.
  apply H; apply N.ltb_lt; assumption.
Qed.

Lemma block16_intro : forall v0 v1 v2 v3 v4 v5 v6 v7 v8 v9 v10 v11 v12 v13 v14 v15,
  v0 < 256 -> v1 < 256 -> v2 < 256 -> v3 < 256 -> v4 < 256 -> v5 < 256 -> v6 < 256 -> v7 < 256 -> v8 < 256 -> v9 < 256 -> v10 < 256 -> v11 < 256 -> v12 < 256 -> v13 < 256 -> v14 < 256 -> v15 < 256 ->
  block16 [v0;v1;v2;v3;v4;v5;v6;v7;v8;v9;v10;v11;v12;v13;v14;v15].
Proof.
  intros. split; [reflexivity|].
  unfold bytesb. cbn [forallb]. unfold byte_ok.
  repeat (apply andb_true_iff; split); try reflexivity; apply N.ltb_lt; assumption.
Qed.

Lemma block16_length : forall s, block16 s -> length s = 16%nat.
Proof. intros s [H _]. exact H. Qed.

(* destruct a block hypothesis into 16 byte variables; the goal must mention nothing else
   that depends on [s] *)
Ltac blk s Hs :=
  revert s Hs;
  match goal with |- forall s', block16 s' -> @?P s' => apply (block16_elim P) end;
  intros ? ? ? ? ? ? ? ? ? ? ? ? ? ? ? ? ? ? ? ? ? ? ? ? ? ? ? ? ? ? ? ?.
Ltac blk_intro := apply block16_intro; auto 10 with bytes.

(* ------------------------------------------------------------------ *)
(* 6. FIPS-197 steps keep blocks well formed                           *)
(* ------------------------------------------------------------------ *)

Lemma SubBytes_block : forall s, block16 s -> block16 (SubBytes s).
Proof. intros s Hs. blk s Hs. cbv [SubBytes map]. blk_intro. Qed.

Lemma InvSubBytes_block : forall s, block16 s -> block16 (InvSubBytes s).
Proof. intros s Hs. blk s Hs. cbv [InvSubBytes map]. blk_intro. Qed.

Lemma ShiftRows_block : forall s, block16 s -> block16 (ShiftRows s).
Proof. intros s Hs. blk s Hs. cbv [ShiftRows perm map nth]. blk_intro. Qed.

Lemma InvShiftRows_block : forall s, block16 s -> block16 (InvShiftRows s).
Proof. intros s Hs. blk s Hs. cbv [InvShiftRows perm map nth]. blk_intro. Qed.

Lemma MixColumns_block : forall s, block16 s -> block16 (MixColumns s).
Proof. intros s Hs. blk s Hs. cbv [MixColumns on_columns mix_column app]. blk_intro. Qed.

Lemma InvMixColumns_block : forall s, block16 s -> block16 (InvMixColumns s).
Proof. intros s Hs. blk s Hs. cbv [InvMixColumns on_columns inv_mix_column app]. blk_intro. Qed.

Lemma AddRoundKey_block : forall s k, block16 s -> block16 k -> block16 (AddRoundKey s k).
Proof.
  intros s k Hs Hk. revert k Hk. blk s Hs. intros k Hk. blk k Hk.
  cbv [AddRoundKey xorl map2]. blk_intro.
Qed.

Lemma next_round_key_block : forall i k, block16 k -> block16 (next_round_key i k).
Proof. intros i k Hk. blk k Hk. cbv [next_round_key]. blk_intro. Qed.

#[global] Hint Resolve SubBytes_block InvSubBytes_block ShiftRows_block InvShiftRows_block
  MixColumns_block InvMixColumns_block AddRoundKey_block next_round_key_block : b16.

(* ------------------------------------------------------------------ *)
(* 7. inverse laws of the FIPS-197 steps                               *)
(* ------------------------------------------------------------------ *)

Lemma InvSubBytes_SubBytes : forall s, block16 s -> InvSubBytes (SubBytes s) = s.
Proof.
  intros s Hs. blk s Hs. cbv [InvSubBytes SubBytes map].
  rewrite !InvSubByte_SubByte by assumption. reflexivity.
Qed.

Lemma SubBytes_InvSubBytes : forall s, block16 s -> SubBytes (InvSubBytes s) = s.
Proof.
  intros s Hs. blk s Hs. cbv [InvSubBytes SubBytes map].
  rewrite !SubByte_InvSubByte by assumption. reflexivity.
Qed.

Lemma InvShiftRows_ShiftRows : forall s, block16 s -> InvShiftRows (ShiftRows s) = s.
Proof. intros s Hs. blk s Hs. reflexivity. Qed.

Lemma ShiftRows_InvShiftRows : forall s, block16 s -> ShiftRows (InvShiftRows s) = s.
Proof. intros s Hs. blk s Hs. reflexivity. Qed.

Lemma AddRoundKey_involutive : forall s k, block16 s -> block16 k ->
  AddRoundKey (AddRoundKey s k) k = s.
Proof.
  intros s k Hs Hk. revert k Hk. blk s Hs. intros k Hk. blk k Hk.
  cbv [AddRoundKey xorl map2]. rewrite !lxor_cancel_r. reflexivity.
Qed.

Lemma list4_eq : forall a b c d a' b' c' d' : N,
  a = a' -> b = b' -> c = c' -> d = d' -> [a; b; c; d] = [a'; b'; c'; d'].
Proof. intros. subst. reflexivity. Qed.

Lemma x4_eq : forall a b c d a' b' c' d' : N,
  a = a' -> b = b' -> c = c' -> d = d' -> x4 a b c d = x4 a' b' c' d'.
Proof. intros. subst. reflexivity. Qed.

(* the two 4x4 coefficient matrices of 5.1.3 / 5.3.3 are inverse to each other:
   16 + 16 coefficient identities, each one a 256-case sweep *)
Lemma inv_mix_mix_column : forall a0 a1 a2 a3,
  a0 < 256 -> a1 < 256 -> a2 < 256 -> a3 < 256 ->
  inv_mix_column (mix_column [a0; a1; a2; a3]) = [a0; a1; a2; a3].
Proof.
  intros a0 a1 a2 a3 H0 H1 H2 H3. cbv [mix_column inv_mix_column].
  apply list4_eq; rewrite !gmul_x4, x4_transpose.
  - transitivity (x4 a0 0 0 0); [|apply x4_a000].
    apply x4_eq; [byte_sweep a0 H0|byte_sweep a1 H1|byte_sweep a2 H2|byte_sweep a3 H3].
  - transitivity (x4 0 a1 0 0); [|apply x4_0a00].
    apply x4_eq; [byte_sweep a0 H0|byte_sweep a1 H1|byte_sweep a2 H2|byte_sweep a3 H3].
  - transitivity (x4 0 0 a2 0); [|apply x4_00a0].
    apply x4_eq; [byte_sweep a0 H0|byte_sweep a1 H1|byte_sweep a2 H2|byte_sweep a3 H3].
  - transitivity (x4 0 0 0 a3); [|apply x4_000a].
    apply x4_eq; [byte_sweep a0 H0|byte_sweep a1 H1|byte_sweep a2 H2|byte_sweep a3 H3].
Qed.

Lemma mix_inv_mix_column : forall a0 a1 a2 a3,
  a0 < 256 -> a1 < 256 -> a2 < 256 -> a3 < 256 ->
  mix_column (inv_mix_column [a0; a1; a2; a3]) = [a0; a1; a2; a3].
Proof.
  intros a0 a1 a2 a3 H0 H1 H2 H3. cbv [mix_column inv_mix_column].
  apply list4_eq; rewrite !gmul_x4, x4_transpose.
  - transitivity (x4 a0 0 0 0); [|apply x4_a000].
    apply x4_eq; [byte_sweep a0 H0|byte_sweep a1 H1|byte_sweep a2 H2|byte_sweep a3 H3].
  - transitivity (x4 0 a1 0 0); [|apply x4_0a00].
    apply x4_eq; [byte_sweep a0 H0|byte_sweep a1 H1|byte_sweep a2 H2|byte_sweep a3 H3].
  - transitivity (x4 0 0 a2 0); [|apply x4_00a0].
    apply x4_eq; [byte_sweep a0 H0|byte_sweep a1 H1|byte_sweep a2 H2|byte_sweep a3 H3].
  - transitivity (x4 0 0 0 a3); [|apply x4_000a].
    apply x4_eq; [byte_sweep a0 H0|byte_sweep a1 H1|byte_sweep a2 H2|byte_sweep a3 H3].
Qed.

Lemma InvMixColumns_MixColumns : forall s, block16 s -> InvMixColumns (MixColumns s) = s.
Proof.
  intros s Hs. blk s Hs.
  pose proof (inv_mix_mix_column v0 v1 v2 v3) as E0.
  pose proof (inv_mix_mix_column v4 v5 v6 v7) as E1.
  pose proof (inv_mix_mix_column v8 v9 v10 v11) as E2.
  pose proof (inv_mix_mix_column v12 v13 v14 v15) as E3.
  cbv [mix_column inv_mix_column] in E0, E1, E2, E3.
  cbv [InvMixColumns MixColumns on_columns mix_column inv_mix_column app].
  injection (E0 ltac:(assumption) ltac:(assumption) ltac:(assumption) ltac:(assumption)) as E00 E01 E02 E03.
  injection (E1 ltac:(assumption) ltac:(assumption) ltac:(assumption) ltac:(assumption)) as E10 E11 E12 E13.
  injection (E2 ltac:(assumption) ltac:(assumption) ltac:(assumption) ltac:(assumption)) as E20 E21 E22 E23.
  injection (E3 ltac:(assumption) ltac:(assumption) ltac:(assumption) ltac:(assumption)) as E30 E31 E32 E33.
  rewrite E00, E01, E02, E03, E10, E11, E12, E13, E20, E21, E22, E23, E30, E31, E32, E33.
  reflexivity.
Qed.

Lemma MixColumns_InvMixColumns : forall s, block16 s -> MixColumns (InvMixColumns s) = s.
Proof.
  intros s Hs. blk s Hs.
  pose proof (mix_inv_mix_column v0 v1 v2 v3) as E0.
  pose proof (mix_inv_mix_column v4 v5 v6 v7) as E1.
  pose proof (mix_inv_mix_column v8 v9 v10 v11) as E2.
  pose proof (mix_inv_mix_column v12 v13 v14 v15) as E3.
  cbv [mix_column inv_mix_column] in E0, E1, E2, E3.
  cbv [InvMixColumns MixColumns on_columns mix_column inv_mix_column app].
  injection (E0 ltac:(assumption) ltac:(assumption) ltac:(assumption) ltac:(assumption)) as E00 E01 E02 E03.
  injection (E1 ltac:(assumption) ltac:(assumption) ltac:(assumption) ltac:(assumption)) as E10 E11 E12 E13.
  injection (E2 ltac:(assumption) ltac:(assumption) ltac:(assumption) ltac:(assumption)) as E20 E21 E22 E23.
  injection (E3 ltac:(assumption) ltac:(assumption) ltac:(assumption) ltac:(assumption)) as E30 E31 E32 E33.
  rewrite E00, E01, E02, E03, E10, E11, E12, E13, E20, E21, E22, E23, E30, E31, E32, E33.
  reflexivity.
Qed.

(* ------------------------------------------------------------------ *)
(* 8. every model step is the FIPS-197 step conjugated by [transpose]  *)
(* ------------------------------------------------------------------ *)

Lemma transpose_block : forall s, block16 s -> block16 (transpose s).
Proof. intros s Hs. blk s Hs. cbv [transpose mperm map nth]. blk_intro. Qed.
#[global] Hint Resolve transpose_block : b16.

Lemma transpose_involutive : forall s, block16 s -> transpose (transpose s) = s.
Proof. intros s Hs. blk s Hs. reflexivity. Qed.

Lemma enc_subbytes_transpose : forall s, block16 s ->
  enc_subbytes (transpose s) = transpose (SubBytes s).
Proof.
  intros s Hs. unfold enc_subbytes. rewrite (map_ext _ _ sbox_SubByte).
  blk s Hs. reflexivity.
Qed.

Lemma dec_subbytes_transpose : forall s, block16 s ->
  dec_subbytes (transpose s) = transpose (InvSubBytes s).
Proof.
  intros s Hs. unfold dec_subbytes. rewrite (map_ext _ _ rsbox_InvSubByte).
  blk s Hs. reflexivity.
Qed.

Lemma enc_rowshift_transpose : forall s, block16 s ->
  enc_rowshift (transpose s) = transpose (ShiftRows s).
Proof. intros s Hs. blk s Hs. reflexivity. Qed.

Lemma dec_rowshift_transpose : forall s, block16 s ->
  dec_rowshift (transpose s) = transpose (InvShiftRows s).
Proof. intros s Hs. blk s Hs. reflexivity. Qed.

Lemma addroundkey_transpose : forall s k, block16 s -> block16 k ->
  addroundkey (transpose s) (transpose k) = transpose (AddRoundKey s k).
Proof.
  intros s k Hs Hk. revert k Hk. blk s Hs. intros k Hk. blk k Hk. reflexivity.
Qed.

Lemma mumline_x4 : forall p q r s a b c d,
  mumline [p; q; r; s] a b c d = x4 (Gmul p a) (Gmul q b) (Gmul r c) (Gmul s d).
Proof.
  intros. unfold mumline, x4. cbn [nth]. rewrite !N.lxor_assoc. reflexivity.
Qed.

Lemma enc_columnmix_transpose : forall s, block16 s ->
  columnmix enc_mix_rows (transpose s) = transpose (MixColumns s).
Proof.
  intros s Hs. blk s Hs.
  cbv -[Gmul gmul mumline x4 N.lxor].
  rewrite !mumline_x4.
  rewrite !Gmul_25, !Gmul_1, !Gmul_0 by assumption.
  reflexivity.
Qed.

Lemma dec_columnmix_transpose : forall s, block16 s ->
  columnmix dec_mix_rows (transpose s) = transpose (InvMixColumns s).
Proof.
  intros s Hs. blk s Hs.
  cbv -[Gmul gmul mumline x4 N.lxor].
  rewrite !mumline_x4.
  rewrite !Gmul_223, !Gmul_104, !Gmul_238, !Gmul_199 by assumption.
  reflexivity.
Qed.

(* the four round functions *)
Lemma enc_commonround_transpose : forall p k, block16 p -> block16 k ->
  enc_commonround (transpose p) (transpose k) =
  transpose (MixColumns (ShiftRows (SubBytes (AddRoundKey p k)))).
Proof.
  intros p k Hp Hk. unfold enc_commonround.
  rewrite addroundkey_transpose, enc_subbytes_transpose, enc_rowshift_transpose,
    enc_columnmix_transpose by auto with b16.
  reflexivity.
Qed.

Lemma enc_specround_transpose : forall p k1 k2, block16 p -> block16 k1 -> block16 k2 ->
  enc_specround (transpose p) (transpose k1) (transpose k2) =
  transpose (AddRoundKey (ShiftRows (SubBytes (AddRoundKey p k1))) k2).
Proof.
  intros p k1 k2 Hp Hk1 Hk2. unfold enc_specround.
  rewrite (addroundkey_transpose p k1), enc_subbytes_transpose, enc_rowshift_transpose,
    addroundkey_transpose by auto with b16.
  reflexivity.
Qed.

Lemma dec_commonround_transpose : forall q k, block16 q -> block16 k ->
  dec_commonround (transpose q) (transpose k) =
  transpose (AddRoundKey (InvSubBytes (InvShiftRows (InvMixColumns q))) k).
Proof.
  intros q k Hq Hk. unfold dec_commonround.
  rewrite dec_columnmix_transpose, dec_rowshift_transpose, dec_subbytes_transpose,
    addroundkey_transpose by auto with b16.
  reflexivity.
Qed.

Lemma dec_specround_transpose : forall c k1 k2, block16 c -> block16 k1 -> block16 k2 ->
  dec_specround (transpose c) (transpose k1) (transpose k2) =
  transpose (AddRoundKey (InvSubBytes (InvShiftRows (AddRoundKey c k2))) k1).
Proof.
  intros c k1 k2 Hc Hk1 Hk2. unfold dec_specround.
  rewrite (addroundkey_transpose c k2), dec_rowshift_transpose, dec_subbytes_transpose,
    addroundkey_transpose by auto with b16.
  reflexivity.
Qed.

(* ------------------------------------------------------------------ *)
(* 9. key schedule                                                     *)
(* ------------------------------------------------------------------ *)

Lemma cons_eq : forall (a a' : N) l l', a = a' -> l = l' -> a :: l = a' :: l'.
Proof. intros. subst. reflexivity. Qed.

Ltac xor_ac := apply N.bits_inj; intro; rewrite ?N.lxor_spec; btauto.

Lemma genkey_transpose : forall i k, block16 k -> nth i tab_RC 0 = rcon i ->
  genkey i (transpose k) = transpose (next_round_key i k).
Proof.
  intros i k Hk Hrc. revert Hrc. blk k Hk. intro Hrc.
  unfold genkey. rewrite Hrc.
  cbv -[sbox SubByte rcon N.lxor].
  rewrite (sbox_SubByte v12), (sbox_SubByte v13), (sbox_SubByte v14), (sbox_SubByte v15).
  rewrite !N.lxor_0_r.
  repeat (apply cons_eq; [xor_ac|]). reflexivity.
Qed.

Lemma genall_from_transpose : forall n i k, block16 k ->
  (forall j, (i <= j < i + n)%nat -> nth j tab_RC 0 = rcon j) ->
  genall_from i n (transpose k) = map transpose (expand_from i n k).
Proof.
  induction n as [|n IH]; intros i k Hk Hrc; cbn [genall_from expand_from map].
  - reflexivity.
  - rewrite genkey_transpose by (auto; apply Hrc; lia).
    rewrite IH; [reflexivity | auto with b16 | intros j Hj; apply Hrc; lia].
Qed.

Lemma firstn16_block : forall k, block16 k -> firstn 16 k = k.
Proof. intros k Hk. blk k Hk. reflexivity. Qed.

Lemma genall_KeyExpansion : forall key, block16 key ->
  genall key = map transpose (KeyExpansion key).
Proof.
  intros key Hk. unfold genall, KeyExpansion.
  rewrite key_rounds_val, firstn16_block by exact Hk.
  apply genall_from_transpose; [exact Hk|].
  intros j Hj. apply tab_RC_rcon. lia.
Qed.

Lemma expand_from_length : forall n i k, length (expand_from i n k) = S n.
Proof. induction n as [|n IH]; intros i k; cbn [expand_from length]; [|rewrite IH]; reflexivity. Qed.

Lemma expand_from_blocks : forall n i k, block16 k -> Forall block16 (expand_from i n k).
Proof.
  induction n as [|n IH]; intros i k Hk; cbn [expand_from].
  - constructor; [exact Hk|constructor].
  - constructor; [exact Hk|]. apply IH. auto with b16.
Qed.

Lemma rk_block : forall key i, block16 key -> (i <= 10)%nat -> block16 (rk (KeyExpansion key) i).
Proof.
  intros key i Hk Hi. unfold rk, KeyExpansion.
  pose proof (expand_from_blocks 10 1 key Hk) as HF. rewrite Forall_forall in HF.
  apply HF. apply nth_In. rewrite expand_from_length. lia.
Qed.

Lemma getkey_rk : forall key i, block16 key -> (i <= 10)%nat ->
  getkey (genall key) (N.of_nat i) = transpose (rk (KeyExpansion key) i).
Proof.
  intros key i Hk Hi. unfold getkey, rk. rewrite Nat2N.id, genall_KeyExpansion by exact Hk.
  rewrite (nth_indep _ [] (transpose [])).
  - apply map_nth.
  - rewrite map_length. unfold KeyExpansion. rewrite expand_from_length. lia.
Qed.

(* ================================================================== *)
(* Part B                                                              *)
(* ================================================================== *)

(* ------------------------------------------------------------------ *)
(* 1. folds of round functions keep blocks well formed                 *)
(* ------------------------------------------------------------------ *)

Lemma fold_block : forall (f : list N -> nat -> list N) (l : list nat),
  (forall s i, block16 s -> In i l -> block16 (f s i)) ->
  forall s, block16 s -> block16 (fold_left f l s).
Proof.
  intros f l. induction l as [|a l IH]; intros Hf s Hs; cbn [fold_left].
  - exact Hs.
  - apply IH.
    + intros s' i Hs' Hi. apply Hf; [exact Hs' | right; exact Hi].
    + apply Hf; [exact Hs | left; reflexivity].
Qed.

Lemma enc_round_block : forall ks s i, block16 s -> block16 (rk ks i) ->
  block16 (enc_round ks s i).
Proof. intros ks s i Hs Hk. unfold enc_round. auto 10 with b16. Qed.

Lemma dec_round_block : forall ks s i, block16 s -> block16 (rk ks i) ->
  block16 (dec_round ks s i).
Proof. intros ks s i Hs Hk. unfold dec_round. auto 10 with b16. Qed.

(* the same rounds bracketed the way the C++ brackets them: AddRoundKey first (encryption),
   AddRoundKey last (decryption) *)
Definition enc_round' (ks : list (list N)) (p : list N) (i : nat) : list N :=
  MixColumns (ShiftRows (SubBytes (AddRoundKey p (rk ks i)))).
Definition dec_round' (ks : list (list N)) (q : list N) (i : nat) : list N :=
  AddRoundKey (InvSubBytes (InvShiftRows (InvMixColumns q))) (rk ks i).

Lemma enc_round'_block : forall ks s i, block16 s -> block16 (rk ks i) ->
  block16 (enc_round' ks s i).
Proof. intros ks s i Hs Hk. unfold enc_round'. auto 10 with b16. Qed.

Lemma dec_round'_block : forall ks s i, block16 s -> block16 (rk ks i) ->
  block16 (dec_round' ks s i).
Proof. intros ks s i Hs Hk. unfold dec_round'. auto 10 with b16. Qed.

#[local] Hint Resolve enc_round_block dec_round_block enc_round'_block dec_round'_block : b16.

(* ------------------------------------------------------------------ *)
(* 2. re-bracketing Cipher / InvCipher (pure rearrangement)            *)
(* ------------------------------------------------------------------ *)

Lemma enc_rebracket : forall ks n b,
  fold_left (enc_round ks) (seq 1 n) (AddRoundKey b (rk ks 0)) =
  AddRoundKey (fold_left (enc_round' ks) (seq 0 n) b) (rk ks n).
Proof.
  intros ks n b. induction n as [|n IH].
  - reflexivity.
  - rewrite !seq_S, !fold_left_app. cbn [fold_left]. rewrite IH. reflexivity.
Qed.

Lemma Cipher_rebracket : forall key b,
  Cipher key b =
  let ks := KeyExpansion key in
  AddRoundKey (ShiftRows (SubBytes (AddRoundKey (fold_left (enc_round' ks) (seq 0 9) b) (rk ks 9))))
              (rk ks 10).
Proof. intros key b. unfold Cipher. cbv zeta. rewrite enc_rebracket. reflexivity. Qed.

Lemma dec_rebracket : forall ks n t,
  AddRoundKey (InvSubBytes (InvShiftRows (fold_left (dec_round ks) (rev (seq 1 n)) t))) (rk ks 0) =
  fold_left (dec_round' ks) (rev (seq 0 n)) (AddRoundKey (InvSubBytes (InvShiftRows t)) (rk ks n)).
Proof.
  intros ks n. induction n as [|n IH]; intro t.
  - reflexivity.
  - rewrite !seq_S, !rev_app_distr. cbn [rev app fold_left]. rewrite IH. reflexivity.
Qed.

Lemma InvCipher_rebracket : forall key c,
  InvCipher key c =
  let ks := KeyExpansion key in
  fold_left (dec_round' ks) (rev (seq 0 9))
    (AddRoundKey (InvSubBytes (InvShiftRows (AddRoundKey c (rk ks 10)))) (rk ks 9)).
Proof. intros key c. unfold InvCipher. cbv zeta. rewrite dec_rebracket. reflexivity. Qed.

(* ------------------------------------------------------------------ *)
(* 3. the model's round loops are the re-bracketed loops, transposed   *)
(* ------------------------------------------------------------------ *)

Lemma getkey_rkN : forall key n, block16 key -> n <= 10 ->
  getkey (genall key) n = transpose (rk (KeyExpansion key) (N.to_nat n)).
Proof.
  intros key n Hk Hn. rewrite <- (N2Nat.id n) at 1. apply getkey_rk; [exact Hk | lia].
Qed.

Lemma enc_fold_transpose : forall key l, block16 key ->
  (forall i, In i l -> (i <= 10)%nat) ->
  forall p, block16 p ->
  fold_left (fun w i => enc_commonround w (getkey (genall key) i)) (map N.of_nat l) (transpose p) =
  transpose (fold_left (enc_round' (KeyExpansion key)) l p).
Proof.
  intros key l Hk. induction l as [|a l IH]; intros Hl p Hp; cbn [map fold_left].
  - reflexivity.
  - assert (Ha : (a <= 10)%nat) by (apply Hl; left; reflexivity).
    rewrite getkey_rk by assumption.
    rewrite enc_commonround_transpose by (auto using rk_block).
    apply IH.
    + intros i Hi. apply Hl. right. exact Hi.
    + apply enc_round'_block; auto using rk_block.
Qed.

Lemma dec_fold_transpose : forall key l, block16 key ->
  (forall i, In i l -> (i <= 10)%nat) ->
  forall q, block16 q ->
  fold_left (fun w i => dec_commonround w (getkey (genall key) i)) (map N.of_nat l) (transpose q) =
  transpose (fold_left (dec_round' (KeyExpansion key)) l q).
Proof.
  intros key l Hk. induction l as [|a l IH]; intros Hl q Hq; cbn [map fold_left].
  - reflexivity.
  - assert (Ha : (a <= 10)%nat) by (apply Hl; left; reflexivity).
    rewrite getkey_rk by assumption.
    rewrite dec_commonround_transpose by (auto using rk_block).
    apply IH.
    + intros i Hi. apply Hl. right. exact Hi.
    + apply dec_round'_block; auto using rk_block.
Qed.

Lemma seq09_le10 : forall i, In i (seq 0 9) -> (i <= 10)%nat.
Proof. intros i Hi. apply in_seq in Hi. lia. Qed.

Lemma rev_seq09_le10 : forall i, In i (rev (seq 0 9)) -> (i <= 10)%nat.
Proof. intros i Hi. apply in_rev in Hi. apply seq09_le10. exact Hi. Qed.

Lemma enc_fold'_block : forall key b, block16 key -> block16 b ->
  block16 (fold_left (enc_round' (KeyExpansion key)) (seq 0 9) b).
Proof.
  intros key b Hk Hb. apply fold_block; [|exact Hb].
  intros s i Hs Hi. apply enc_round'_block; [exact Hs|].
  apply rk_block; [exact Hk | apply seq09_le10; exact Hi].
Qed.

Lemma dec_fold'_block : forall key q, block16 key -> block16 q ->
  block16 (fold_left (dec_round' (KeyExpansion key)) (rev (seq 0 9)) q).
Proof.
  intros key q Hk Hq. apply fold_block; [|exact Hq].
  intros s i Hs Hi. apply dec_round'_block; [exact Hs|].
  apply rk_block; [exact Hk | apply rev_seq09_le10; exact Hi].
Qed.

(* ------------------------------------------------------------------ *)
(* 4. model = FIPS-197                                                 *)
(* ------------------------------------------------------------------ *)

Theorem C09_encrypt_is_fips197_proof : forall k b,
  block16 k -> block16 b -> aes_enc k b = Cipher k b.
Proof.
  intros k b Hk Hb.
  rewrite Cipher_rebracket. cbv zeta.
  unfold aes_enc, aes_enc_with. rewrite enc_round_struct_val. cbn [nth]. unfold Nseq.
  change (N.to_nat 9) with 9%nat.
  rewrite enc_fold_transpose by (auto using seq09_le10).
  rewrite (getkey_rkN k 9), (getkey_rkN k 10) by (auto; lia).
  change (N.to_nat 9) with 9%nat. change (N.to_nat 10) with 10%nat.
  pose proof (enc_fold'_block k b Hk Hb) as Hf.
  assert (H9 : block16 (rk (KeyExpansion k) 9)) by (apply rk_block; [exact Hk|lia]).
  assert (H10 : block16 (rk (KeyExpansion k) 10)) by (apply rk_block; [exact Hk|lia]).
  rewrite enc_specround_transpose by assumption.
  apply transpose_involutive. auto 10 with b16.
Qed.

Theorem C09_decrypt_is_fips197_proof : forall k b,
  block16 k -> block16 b -> aes_dec k b = InvCipher k b.
Proof.
  intros k b Hk Hb.
  rewrite InvCipher_rebracket. cbv zeta.
  unfold aes_dec, aes_dec_with. rewrite dec_round_struct_val. cbn [nth]. unfold Nseq.
  change (N.to_nat (8 + 1)) with 9%nat.
  rewrite (getkey_rkN k 9), (getkey_rkN k 10) by (auto; lia).
  change (N.to_nat 9) with 9%nat. change (N.to_nat 10) with 10%nat.
  assert (H9 : block16 (rk (KeyExpansion k) 9)) by (apply rk_block; [exact Hk|lia]).
  assert (H10 : block16 (rk (KeyExpansion k) 10)) by (apply rk_block; [exact Hk|lia]).
  rewrite dec_specround_transpose by assumption.
  rewrite <- map_rev.
  assert (Hq : block16 (AddRoundKey (InvSubBytes (InvShiftRows (AddRoundKey b (rk (KeyExpansion k) 10))))
                                    (rk (KeyExpansion k) 9))) by auto 10 with b16.
  rewrite dec_fold_transpose by (auto using rev_seq09_le10).
  apply transpose_involutive. apply dec_fold'_block; assumption.
Qed.

(* ------------------------------------------------------------------ *)
(* 5. InvCipher and Cipher are mutually inverse (FIPS-197 level)       *)
(* ------------------------------------------------------------------ *)

Lemma dec_enc_round : forall ks s i, block16 s -> block16 (rk ks i) ->
  dec_round ks (ShiftRows (SubBytes (enc_round ks s i))) i = ShiftRows (SubBytes s).
Proof.
  intros ks s i Hs Hk. unfold dec_round, enc_round.
  rewrite InvShiftRows_ShiftRows, InvSubBytes_SubBytes, AddRoundKey_involutive,
    InvMixColumns_MixColumns by auto 12 with b16.
  reflexivity.
Qed.

Lemma enc_dec_round : forall ks t i, block16 t -> block16 (rk ks i) ->
  enc_round ks (InvSubBytes (InvShiftRows (dec_round ks t i))) i = InvSubBytes (InvShiftRows t).
Proof.
  intros ks t i Ht Hk. unfold dec_round, enc_round.
  rewrite SubBytes_InvSubBytes, ShiftRows_InvShiftRows, MixColumns_InvMixColumns,
    AddRoundKey_involutive by auto 12 with b16.
  reflexivity.
Qed.

Lemma fold_dec_enc : forall ks l, (forall i, In i l -> block16 (rk ks i)) ->
  forall s, block16 s ->
  fold_left (dec_round ks) (rev l) (ShiftRows (SubBytes (fold_left (enc_round ks) l s))) =
  ShiftRows (SubBytes s).
Proof.
  intros ks l. induction l as [|i l IH] using rev_ind; intros Hks s Hs.
  - reflexivity.
  - rewrite rev_app_distr, !fold_left_app. cbn [rev app fold_left].
    assert (Hl : forall j, In j l -> block16 (rk ks j))
      by (intros j Hj; apply Hks; apply in_or_app; left; exact Hj).
    assert (Hi : block16 (rk ks i))
      by (apply Hks; apply in_or_app; right; left; reflexivity).
    rewrite dec_enc_round.
    + apply IH; assumption.
    + apply fold_block; [|exact Hs]. intros s' j Hs' Hj. apply enc_round_block; auto.
    + exact Hi.
Qed.

Lemma fold_enc_dec : forall ks l, (forall i, In i l -> block16 (rk ks i)) ->
  forall t, block16 t ->
  fold_left (enc_round ks) l (InvSubBytes (InvShiftRows (fold_left (dec_round ks) (rev l) t))) =
  InvSubBytes (InvShiftRows t).
Proof.
  intros ks l. induction l as [|i l IH] using rev_ind; intros Hks t Ht.
  - reflexivity.
  - rewrite rev_app_distr, !fold_left_app. cbn [rev app fold_left].
    assert (Hl : forall j, In j l -> block16 (rk ks j))
      by (intros j Hj; apply Hks; apply in_or_app; left; exact Hj).
    assert (Hi : block16 (rk ks i))
      by (apply Hks; apply in_or_app; right; left; reflexivity).
    rewrite IH by auto with b16.
    apply enc_dec_round; assumption.
Qed.

Lemma seq19_rk_block : forall key, block16 key ->
  forall i, In i (seq 1 9) -> block16 (rk (KeyExpansion key) i).
Proof. intros key Hk i Hi. apply in_seq in Hi. apply rk_block; [exact Hk|lia]. Qed.

Lemma enc_fold_block : forall key s, block16 key -> block16 s ->
  block16 (fold_left (enc_round (KeyExpansion key)) (seq 1 9) s).
Proof.
  intros key s Hk Hs. apply fold_block; [|exact Hs].
  intros s' i Hs' Hi. apply enc_round_block; [exact Hs'|]. apply seq19_rk_block; assumption.
Qed.

Lemma dec_fold_block : forall key s, block16 key -> block16 s ->
  block16 (fold_left (dec_round (KeyExpansion key)) (rev (seq 1 9)) s).
Proof.
  intros key s Hk Hs. apply fold_block; [|exact Hs].
  intros s' i Hs' Hi. apply dec_round_block; [exact Hs'|].
  apply seq19_rk_block; [exact Hk|]. apply in_rev. exact Hi.
Qed.

Lemma Cipher_block : forall key b, block16 key -> block16 b -> block16 (Cipher key b).
Proof.
  intros key b Hk Hb. unfold Cipher. cbv zeta.
  assert (H0 : block16 (rk (KeyExpansion key) 0)) by (apply rk_block; [exact Hk|lia]).
  assert (H10 : block16 (rk (KeyExpansion key) 10)) by (apply rk_block; [exact Hk|lia]).
  pose proof (enc_fold_block key (AddRoundKey b (rk (KeyExpansion key) 0)) Hk) as Hf.
  auto 10 with b16.
Qed.

Lemma InvCipher_block : forall key c, block16 key -> block16 c -> block16 (InvCipher key c).
Proof.
  intros key c Hk Hc. unfold InvCipher. cbv zeta.
  assert (H0 : block16 (rk (KeyExpansion key) 0)) by (apply rk_block; [exact Hk|lia]).
  assert (H10 : block16 (rk (KeyExpansion key) 10)) by (apply rk_block; [exact Hk|lia]).
  pose proof (dec_fold_block key (AddRoundKey c (rk (KeyExpansion key) 10)) Hk) as Hf.
  auto 10 with b16.
Qed.

Theorem InvCipher_Cipher : forall key b, block16 key -> block16 b ->
  InvCipher key (Cipher key b) = b.
Proof.
  intros key b Hk Hb. unfold InvCipher, Cipher. cbv zeta.
  set (ks := KeyExpansion key).
  assert (H0 : block16 (rk ks 0)) by (apply rk_block; [exact Hk|lia]).
  assert (H10 : block16 (rk ks 10)) by (apply rk_block; [exact Hk|lia]).
  assert (Hs0 : block16 (AddRoundKey b (rk ks 0))) by auto with b16.
  pose proof (enc_fold_block key _ Hk Hs0) as Hf. fold ks in Hf.
  rewrite AddRoundKey_involutive by auto 10 with b16.
  rewrite fold_dec_enc by (auto; apply seq19_rk_block; exact Hk).
  rewrite InvShiftRows_ShiftRows, InvSubBytes_SubBytes by auto 10 with b16.
  apply AddRoundKey_involutive; assumption.
Qed.

Theorem Cipher_InvCipher : forall key c, block16 key -> block16 c ->
  Cipher key (InvCipher key c) = c.
Proof.
  intros key c Hk Hc. unfold InvCipher, Cipher. cbv zeta.
  set (ks := KeyExpansion key).
  assert (H0 : block16 (rk ks 0)) by (apply rk_block; [exact Hk|lia]).
  assert (H10 : block16 (rk ks 10)) by (apply rk_block; [exact Hk|lia]).
  assert (Ht0 : block16 (AddRoundKey c (rk ks 10))) by auto with b16.
  pose proof (dec_fold_block key _ Hk Ht0) as Hf. fold ks in Hf.
  rewrite AddRoundKey_involutive by auto 10 with b16.
  rewrite fold_enc_dec by (auto; apply seq19_rk_block; exact Hk).
  rewrite SubBytes_InvSubBytes, ShiftRows_InvShiftRows by auto 10 with b16.
  apply AddRoundKey_involutive; assumption.
Qed.

(* ------------------------------------------------------------------ *)
(* 6. the remaining C09 statements                                     *)
(* ------------------------------------------------------------------ *)

Theorem C09_decrypt_inverts_encrypt_proof : forall k b,
  block16 k -> block16 b -> aes_dec k (aes_enc k b) = b.
Proof.
  intros k b Hk Hb.
  rewrite (C09_encrypt_is_fips197_proof k b Hk Hb).
  rewrite C09_decrypt_is_fips197_proof by (auto using Cipher_block).
  apply InvCipher_Cipher; assumption.
Qed.

Theorem C09_encrypt_inverts_decrypt_proof : forall k b,
  block16 k -> block16 b -> aes_enc k (aes_dec k b) = b.
Proof.
  intros k b Hk Hb.
  rewrite (C09_decrypt_is_fips197_proof k b Hk Hb).
  rewrite C09_encrypt_is_fips197_proof by (auto using InvCipher_block).
  apply Cipher_InvCipher; assumption.
Qed.

Theorem C09_outputs_are_blocks_proof : forall k b,
  block16 k -> block16 b -> block16 (aes_enc k b) /\ block16 (aes_dec k b).
Proof.
  intros k b Hk Hb. split.
  - rewrite C09_encrypt_is_fips197_proof by assumption. apply Cipher_block; assumption.
  - rewrite C09_decrypt_is_fips197_proof by assumption. apply InvCipher_block; assumption.
Qed.

Theorem C09_tables_are_fips197_proof :
  tab_s_box = fips_sbox /\ tab_rs_box = fips_inv_sbox /\
  (forall v, (v < 256)%N ->
     Gmul 25 v = gmul 2 v /\ Gmul 1 v = gmul 3 v /\ Gmul 0 v = v /\
     Gmul 223 v = gmul 14 v /\ Gmul 104 v = gmul 11 v /\ Gmul 238 v = gmul 13 v /\ Gmul 199 v = gmul 9 v).
Proof.
  split; [exact tab_s_box_fips|]. split; [exact tab_rs_box_fips|].
  intros v Hv.
  repeat split;
    [ apply Gmul_25 | apply Gmul_1 | apply Gmul_0 | apply Gmul_223
    | apply Gmul_104 | apply Gmul_238 | apply Gmul_199 ]; exact Hv.
Qed.

(* ------------------------------------------------------------------ *)
(* 7. known-answer tests and non-vacuity of the hypotheses             *)
(* ------------------------------------------------------------------ *)

(* FIPS-197 Appendix B *)
Definition kat_B_key : list N :=
  [0x2b;0x7e;0x15;0x16;0x28;0xae;0xd2;0xa6;0xab;0xf7;0x15;0x88;0x09;0xcf;0x4f;0x3c].
Definition kat_B_pt : list N :=
  [0x32;0x43;0xf6;0xa8;0x88;0x5a;0x30;0x8d;0x31;0x31;0x98;0xa2;0xe0;0x37;0x07;0x34].
Definition kat_B_ct : list N :=
  [0x39;0x25;0x84;0x1d;0x02;0xdc;0x09;0xfb;0xdc;0x11;0x85;0x97;0x19;0x6a;0x0b;0x32].
(* FIPS-197 Appendix C.1 *)
Definition kat_C1_key : list N :=
  [0x00;0x01;0x02;0x03;0x04;0x05;0x06;0x07;0x08;0x09;0x0a;0x0b;0x0c;0x0d;0x0e;0x0f].
Definition kat_C1_pt : list N :=
  [0x00;0x11;0x22;0x33;0x44;0x55;0x66;0x77;0x88;0x99;0xaa;0xbb;0xcc;0xdd;0xee;0xff].
Definition kat_C1_ct : list N :=
  [0x69;0xc4;0xe0;0xd8;0x6a;0x7b;0x04;0x30;0xd8;0xcd;0xb7;0x80;0x70;0xb4;0xc5;0x5a].

Example kat_B_blocks : block16 kat_B_key /\ block16 kat_B_pt /\ block16 kat_B_ct.
Proof. repeat split. Qed.
Example kat_C1_blocks : block16 kat_C1_key /\ block16 kat_C1_pt /\ block16 kat_C1_ct.
Proof. repeat split. Qed.

Example kat_B_spec : Cipher kat_B_key kat_B_pt = kat_B_ct /\ InvCipher kat_B_key kat_B_ct = kat_B_pt.
Proof. vm_compute. split; reflexivity. Qed.
Example kat_B_model : aes_enc kat_B_key kat_B_pt = kat_B_ct /\ aes_dec kat_B_key kat_B_ct = kat_B_pt.
Proof. vm_compute. split; reflexivity. Qed.
Example kat_C1_spec : Cipher kat_C1_key kat_C1_pt = kat_C1_ct /\ InvCipher kat_C1_key kat_C1_ct = kat_C1_pt.
Proof. vm_compute. split; reflexivity. Qed.
Example kat_C1_model : aes_enc kat_C1_key kat_C1_pt = kat_C1_ct /\ aes_dec kat_C1_key kat_C1_ct = kat_C1_pt.
Proof. vm_compute. split; reflexivity. Qed.

(* the hypotheses [block16 k], [block16 b] of the C09 statements are satisfiable on a
   non-trivial value, and the conclusions instantiate to the known answers *)
Example C09_nonvacuous :
  block16 kat_B_key /\ block16 kat_B_pt /\
  aes_enc kat_B_key kat_B_pt = Cipher kat_B_key kat_B_pt /\
  aes_dec kat_B_key kat_B_pt = InvCipher kat_B_key kat_B_pt /\
  aes_dec kat_B_key (aes_enc kat_B_key kat_B_pt) = kat_B_pt /\
  aes_enc kat_B_key (aes_dec kat_B_key kat_B_pt) = kat_B_pt /\
  (block16 (aes_enc kat_B_key kat_B_pt) /\ block16 (aes_dec kat_B_key kat_B_pt)).
Proof.
  assert (Hk : block16 kat_B_key) by (repeat split).
  assert (Hb : block16 kat_B_pt) by (repeat split).
  split; [exact Hk|]. split; [exact Hb|].
  split; [apply C09_encrypt_is_fips197_proof; assumption|].
  split; [apply C09_decrypt_is_fips197_proof; assumption|].
  split; [apply C09_decrypt_inverts_encrypt_proof; assumption|].
  split; [apply C09_encrypt_inverts_decrypt_proof; assumption|].
  apply C09_outputs_are_blocks_proof; assumption.
Qed.

Print Assumptions C09_encrypt_is_fips197_proof.
Print Assumptions C09_decrypt_is_fips197_proof.
Print Assumptions C09_decrypt_inverts_encrypt_proof.
Print Assumptions C09_encrypt_inverts_decrypt_proof.
Print Assumptions C09_outputs_are_blocks_proof.
Print Assumptions C09_tables_are_fips197_proof.
