(* Refinement of md5.cpp: the translated methods of class md5hash (Gen/Src_md5.v) run under the MiniC
   semantics satisfy the class contract of RefineHashDefs.v (version 2) for the model alg_md5.

   Structure:
   1. 32-bit arithmetic: Z images of the N operations of the model (and/or/xor/not/add/rotl), little-endian words.
   2. One MD5 step: the three statements `a += F(b,c,d) + x[k] + ac; a = lrot(a, s); a += b` on symbolic
      register names (step3), the four register orders (step_exec), a list of steps by induction (steps_exec);
      the body of getHash/1 is syntactically prefix ; flat_map step_stmts md5_steps ; suffix (body1_shape).
   3. getHash/1 for an arbitrary source object different from s, h, totalsize (g1_body), spec_block.
   4. reset, getres (counted loop), getHash/2 (padding, both branches, length bytes little-endian), the class spec. *)
From Coq Require Import ZArith NArith List String Bool Lia.
From Wencry Require Import Bytes HashSpec HashModel HashProofs Base64Proofs MiniC MiniCLemmas MiniCRun SrcRun RefineHashDefs.
From Wencry.Gen Require Import HashConst.
From Wencry.Gen Require Src_md5.
Import ListNotations.
Local Open Scope Z_scope.
Local Open Scope string_scope.

(* ==================== part arith ==================== *)
Local Notation M32 := (2 ^ 32).
Lemma w32_Z : Z.of_N w32 = M32. Proof. reflexivity. Qed.

(* ---- N-level bounds ---- *)
Lemma log2_lt32 : forall a, (a < 2 ^ 32)%N -> (a = 0 \/ N.log2 a < 32)%N.
Proof.
  intros a Ha. destruct (N.eq_dec a 0) as [->|Hn]; [left; reflexivity|right].
  apply N.log2_lt_pow2; [lia|exact Ha].
Qed.
Lemma lt32_of_log2 : forall a, (N.log2 a < 32)%N -> (a < 2 ^ 32)%N.
Proof.
  intros a H. destruct (N.eq_dec a 0) as [->|Hn]; [reflexivity|].
  apply N.log2_lt_pow2; [lia|exact H].
Qed.
Lemma log2_lt32' : forall a, (a < 2 ^ 32)%N -> (N.log2 a < 32)%N.
Proof. intros a Ha. destruct (log2_lt32 a Ha) as [->|H]; [reflexivity|exact H]. Qed.
Lemma lor_lt32 : forall a b, (a < 2 ^ 32 -> b < 2 ^ 32 -> N.lor a b < 2 ^ 32)%N.
Proof.
  intros a b Ha Hb. apply lt32_of_log2. rewrite N.log2_lor.
  apply N.max_lub_lt; apply log2_lt32'; assumption.
Qed.
Lemma land_lt32 : forall a b, (a < 2 ^ 32 -> b < 2 ^ 32 -> N.land a b < 2 ^ 32)%N.
Proof.
  intros a b Ha Hb. apply lt32_of_log2.
  pose proof (N.log2_land a b). pose proof (log2_lt32' a Ha). pose proof (log2_lt32' b Hb). lia.
Qed.
Lemma lxor_lt32 : forall a b, (a < 2 ^ 32 -> b < 2 ^ 32 -> N.lxor a b < 2 ^ 32)%N.
Proof.
  intros a b Ha Hb. apply lt32_of_log2.
  pose proof (N.log2_lxor a b). pose proof (log2_lt32' a Ha). pose proof (log2_lt32' b Hb). lia.
Qed.
Lemma not32_lt32 : forall a, (a < 2 ^ 32 -> not32 a < 2 ^ 32)%N.
Proof. intros a Ha. unfold not32. apply lxor_lt32; [exact Ha|reflexivity]. Qed.
Lemma not32_sub : forall a, (a < 2 ^ 32 -> not32 a = 4294967295 - a)%N.
Proof.
  intros a Ha. unfold not32.
  change (N.lxor a 4294967295) with (N.lnot a 32).
  rewrite N.lnot_sub_low by (apply log2_lt32'; exact Ha). reflexivity.
Qed.

(* ---- Z images of the 32-bit operations ---- *)
Lemma ofN_lt32 : forall a, (a < 2 ^ 32)%N -> 0 <= Z.of_N a < M32.
Proof. intros a H. change M32 with 4294967296. change (2 ^ 32)%N with 4294967296%N in H. lia. Qed.
Lemma z_and : forall a b, (a < 2 ^ 32)%N -> (b < 2 ^ 32)%N ->
  Z.land (Z.of_N a) (Z.of_N b) mod M32 = Z.of_N (N.land a b).
Proof. intros a b Ha Hb. rewrite <- of_N_land. apply Z.mod_small, ofN_lt32, land_lt32; assumption. Qed.
Lemma z_or : forall a b, (a < 2 ^ 32)%N -> (b < 2 ^ 32)%N ->
  Z.lor (Z.of_N a) (Z.of_N b) mod M32 = Z.of_N (N.lor a b).
Proof. intros a b Ha Hb. rewrite <- of_N_lor. apply Z.mod_small, ofN_lt32, lor_lt32; assumption. Qed.
Lemma z_xor : forall a b, (a < 2 ^ 32)%N -> (b < 2 ^ 32)%N ->
  Z.lxor (Z.of_N a) (Z.of_N b) mod M32 = Z.of_N (N.lxor a b).
Proof. intros a b Ha Hb. rewrite <- of_N_lxor. apply Z.mod_small, ofN_lt32, lxor_lt32; assumption. Qed.
Lemma z_not : forall a, (a < 2 ^ 32)%N -> Z.lnot (Z.of_N a) mod M32 = Z.of_N (not32 a).
Proof.
  intros a Ha. rewrite not32_sub by exact Ha. pose proof (ofN_lt32 a Ha) as B.
  change M32 with 4294967296 in *. unfold Z.lnot. rewrite N2Z.inj_sub by (change (2 ^ 32)%N with 4294967296%N in Ha; lia).
  change (Z.of_N 4294967295) with 4294967295.
  replace (Z.pred (- Z.of_N a)) with ((4294967295 - Z.of_N a) + (-1) * 4294967296) by lia.
  rewrite Z.mod_add by lia. apply Z.mod_small. lia.
Qed.
Lemma z_add32 : forall a b, (Z.of_N a + Z.of_N b) mod M32 = Z.of_N (add32 a b).
Proof. intros a b. unfold add32. rewrite N2Z.inj_mod, N2Z.inj_add. reflexivity. Qed.
Lemma add32_lt : forall a b, (add32 a b < 2 ^ 32)%N.
Proof. intros. unfold add32. apply N.mod_lt. discriminate. Qed.


(* ---- little-endian words ---- *)
Definition bytes (l : list N) : Prop := Forall (fun b => (b < 256)%N) l.
Lemma bytesb_bytes : forall l, bytesb l = true -> bytes l.
Proof.
  induction l as [|x l IH]; intros H; [constructor|].
  cbn in H. apply andb_true_iff in H. destruct H as [H1 H2].
  constructor; [apply N.ltb_lt; exact H1|apply IH; exact H2].
Qed.
Lemma le32_word : forall b0 b1 b2 b3, (b0 < 256)%N -> (b1 < 256)%N -> (b2 < 256)%N -> (b3 < 256)%N ->
  Z.of_N b0 + 256 * (Z.of_N b1 + 256 * (Z.of_N b2 + 256 * (Z.of_N b3 + 256 * 0))) = Z.of_N (le32 b0 b1 b2 b3).
Proof.
  intros b0 b1 b2 b3 H0 H1 H2 H3. unfold le32, be32.
  rewrite !N.shiftl_mul_pow2.
  rewrite (lor_disj_add (b1 * 2 ^ 8) b0 8) by (try apply N.mod_mul; try discriminate; exact H0).
  rewrite (lor_disj_add (b2 * 2 ^ 16) _ 16) by (try apply N.mod_mul; try discriminate; change (2 ^ 16)%N with 65536%N; change (2 ^ 8)%N with 256%N; lia).
  rewrite (lor_disj_add (b3 * 2 ^ 24) _ 24) by (try apply N.mod_mul; try discriminate; change (2 ^ 24)%N with 16777216%N; change (2 ^ 16)%N with 65536%N; change (2 ^ 8)%N with 256%N; lia).
  change (2 ^ 24)%N with 16777216%N; change (2 ^ 16)%N with 65536%N; change (2 ^ 8)%N with 256%N. lia.
Qed.
Lemma le32_lt : forall b0 b1 b2 b3, (b0 < 256)%N -> (b1 < 256)%N -> (b2 < 256)%N -> (b3 < 256)%N -> (le32 b0 b1 b2 b3 < 2 ^ 32)%N.
Proof.
  intros b0 b1 b2 b3 H0 H1 H2 H3. pose proof (le32_word b0 b1 b2 b3 H0 H1 H2 H3) as E.
  change (2 ^ 32)%N with 4294967296%N. lia.
Qed.
Lemma load_word_gen : forall k blk, bytes blk -> (4 * k + 4 <= List.length blk)%nat ->
  le_val (firstn 4 (skipn (4 * k) (map Z.of_N blk))) = Z.of_N (nth k (words_of le32 blk) 0%N) /\
  (nth k (words_of le32 blk) 0 < 2 ^ 32)%N.
Proof.
  induction k as [|k IH]; intros blk Hb Hl.
  - destruct blk as [|b0 [|b1 [|b2 [|b3 r]]]]; cbn in Hl; try lia.
    inversion Hb as [|? ? H0 Hb1]; subst. inversion Hb1 as [|? ? H1 Hb2]; subst.
    inversion Hb2 as [|? ? H2 Hb3]; subst. inversion Hb3 as [|? ? H3 Hb4]; subst.
    cbn [Nat.mul skipn map firstn le_val words_of nth]. split; [apply le32_word|apply le32_lt]; assumption.
  - destruct blk as [|b0 [|b1 [|b2 [|b3 r]]]]; cbn in Hl; try lia.
    inversion Hb as [|? ? H0 Hb1]; subst. inversion Hb1 as [|? ? H1 Hb2]; subst.
    inversion Hb2 as [|? ? H2 Hb3]; subst. inversion Hb3 as [|? ? H3 Hb4]; subst.
    replace (4 * S k)%nat with (S (S (S (S (4 * k)))))%nat by lia.
    cbn [skipn map words_of nth]. apply IH; [exact Hb4|lia].
Qed.

Lemma z_rotl : forall a s, (0 < s < 32)%N ->
  Z.lor (Z.shiftl (Z.of_N a) (Z.of_N s) mod M32) (Z.shiftr (Z.of_N a) (32 - Z.of_N s)) = Z.of_N (rotl32 a s).
Proof.
  intros a s Hs. unfold rotl32, shl32.
  rewrite of_N_lor, of_N_mod, of_N_shiftl, of_N_shiftr, N2Z.inj_sub by (try discriminate; lia).
  reflexivity.
Qed.

(* a += F + x + ac; a = rotl a s; a += b *)
Lemma z_step : forall A Fv Xk ac s B,
  let a1 := (Z.of_N A + ((Z.of_N Fv + Z.of_N Xk) mod M32 + Z.of_N ac) mod M32) mod M32 in
  (0 < s < 32)%N ->
  exists a1N, a1 = Z.of_N a1N /\
  (Z.lor (Z.shiftl a1 (Z.of_N s) mod M32) (Z.shiftr a1 (32 - Z.of_N s)) mod M32 + Z.of_N B) mod M32 =
  Z.of_N (add32 (rotl32 (sum32 [A; Fv; Xk; ac]) s) B).
Proof.
  intros A Fv Xk ac s B a1 Hs. exists (sum32 [A; Fv; Xk; ac]).
  assert (E : a1 = Z.of_N (sum32 [A; Fv; Xk; ac])).
  { assert (L : a1 = (Z.of_N A + Z.of_N Fv + Z.of_N Xk + Z.of_N ac) mod M32).
    { unfold a1. rewrite Zplus_mod_idemp_l, Zplus_mod_idemp_r. f_equal. ring. }
    rewrite L. rewrite sum32_4.
    rewrite <- (z_add32 _ ac), <- (z_add32 _ Xk), Zplus_mod_idemp_l, <- (z_add32 A Fv).
    rewrite <- (Z.add_assoc (_ mod _)), Zplus_mod_idemp_l.
    f_equal. ring. }
  split; [exact E|]. rewrite E, z_rotl by exact Hs.
  rewrite Zplus_mod_idemp_l. apply z_add32.
Qed.

(* ==================== part step ==================== *)
Definition step := (N * list N * N * N * N)%type.

Definition rname (r : N) : string := match r with 0%N => "a" | 1%N => "b" | 2%N => "c" | _ => "d" end.
Definition fexpr (f : N) (x y z : expr) : expr :=
  match f with
  | 0%N => EBin U32 BOr (EBin U32 BAnd x y) (EBin U32 BAnd (EUn U32 BNot x) z)
  | 1%N => EBin U32 BOr (EBin U32 BAnd x z) (EBin U32 BAnd y (EUn U32 BNot z))
  | 2%N => EBin U32 BXor (EBin U32 BXor x y) z
  | _ => EBin U32 BXor y (EBin U32 BOr x (EUn U32 BNot z))
  end.
Definition cexpr (ac : N) : expr :=
  if (ac <? 2147483648)%N then ECast U32 (EConst (Z.of_N ac)) else EConst (Z.of_N ac).
Definition step_stmts (st : step) : list stmt :=
  match st with
  | (f, regs, k, s, ac) =>
    let a := rname (nth 0 regs 0%N) in let b := rname (nth 1 regs 0%N) in
    let c := rname (nth 2 regs 0%N) in let d := rname (nth 3 regs 0%N) in
    [SSet a (EBin U32 Add (EVar a) (EBin U32 Add (EBin U32 Add (fexpr f (EVar b) (EVar c) (EVar d))
             (ELoad U32 (EPtrAdd (EField "s") 4 (EConst (Z.of_N k))))) (cexpr ac)));
     SSet a (EBin U32 BOr (EBin U32 Shl (EVar a) (EConst (Z.of_N s)))
                          (EBin U32 Shr (EVar a) (EBin I32 Sub (EConst 32) (EConst (Z.of_N s)))));
     SSet a (EBin U32 Add (EVar a) (EVar b))]
  end.
Fixpoint chain (l : list stmt) (last : stmt) : stmt :=
  match l with [] => last | x :: r => SSeq x (chain r last) end.
Lemma chain_app : forall l1 l2 last, chain (l1 ++ l2) last = chain l1 (chain l2 last).
Proof. induction l1; intros; cbn; [reflexivity|now rewrite IHl1]. Qed.

Definition hidx (i : Z) : expr := EPtrAdd (EField "h") 4 (EConst i).
Definition pre7 : list stmt :=
  [SMemset (EField "s") (EConst 0) (EConst 64); SMemcpy (EField "s") (EVar "input") (EConst 64);
   SCall None "Hashmaster::addtotal/1" None [ECast U32 (EConst 64)];
   SSet "a" (ELoad U32 (hidx 0)); SSet "b" (ELoad U32 (hidx 1)); SSet "c" (ELoad U32 (hidx 2)); SSet "d" (ELoad U32 (hidx 3))].
Definition hadd (i : Z) (x : string) : stmt := SStore U32 (hidx i) (EBin U32 Add (ELoad U32 (hidx i)) (EVar x)).
Definition suffix4 : stmt := SSeq (hadd 0 "a") (SSeq (hadd 1 "b") (SSeq (hadd 2 "c") (hadd 3 "d"))).

Lemma body1_shape : f_body Src_md5.f_md5hash_getHash_1 = chain (pre7 ++ flat_map step_stmts md5_steps) suffix4.
Proof. vm_compute. reflexivity. Qed.

Create HintDb b32.
#[local] Hint Resolve not32_lt32 land_lt32 lor_lt32 lxor_lt32 add32_lt : b32.

Section Md5.
Variable vt : list (string * string).
Local Notation ex := (exec hash_prog vt).

Lemma eval_fexpr : forall f s x y z X Y Z, (f < 4)%N ->
  (X < 2 ^ 32)%N -> (Y < 2 ^ 32)%N -> (Z < 2 ^ 32)%N ->
  eval s x = Ok (VInt (Z.of_N X)) -> eval s y = Ok (VInt (Z.of_N Y)) -> eval s z = Ok (VInt (Z.of_N Z)) ->
  eval s (fexpr f x y z) = Ok (VInt (Z.of_N (md5_fn f X Y Z))) /\ (md5_fn f X Y Z < 2 ^ 32)%N.
Proof.
  intros f s x y z X Y Z Hf HX HY HZ Hx Hy Hz.
  assert (C : f = 0%N \/ f = 1%N \/ f = 2%N \/ f = 3%N) by lia.
  destruct C as [->|[->|[->| ->]]]; cbn [fexpr eval md5_fn]; rewrite ?Hx, ?Hy, ?Hz; cbn [bind as_int eval_bin eval_un];
    rewrite ?wrap_U32_mod;
    repeat first [rewrite z_not by auto with b32 | rewrite z_and by auto with b32
                 | rewrite z_or by auto with b32 | rewrite z_xor by auto with b32].
  - unfold md5_F. split; [reflexivity|auto with b32].
  - unfold md5_G. split; [reflexivity|auto with b32].
  - unfold md5_H. rewrite N.lxor_assoc. split; [reflexivity|auto with b32].
  - unfold md5_I. split; [reflexivity|auto with b32].
Qed.

Lemma load_word : forall blk k, List.length blk = 64%nat -> bytes blk -> (k < 16)%N ->
  load_obj (bytes_object blk) U32 (0 + Z.of_N k * 4) = Ok (Z.of_N (nthN (words_of le32 blk) k 0%N)) /\ (nthN (words_of le32 blk) k 0 < 2 ^ 32)%N.
Proof.
  intros blk k Hl Hb Hk. unfold load_obj, bytes_object. cbn [o_ty o_cells].
  change (ity_bytes U32) with 4. change (ity_bytes U8) with 1. rewrite map_length, Hl.
  destruct (Z.ltb_spec (0 + Z.of_N k * 4) 0) as [L|_]; [lia|].
  change (1 =? 4)%Z with false. change (1 =? 1)%Z with true. cbv iota.
  destruct (Z.leb_spec (0 + Z.of_N k * 4 + 4) (Z.of_nat 64)) as [_|L]; [|lia].
  replace (Z.to_nat (0 + Z.of_N k * 4)) with (4 * N.to_nat k)%nat by lia.
  change (Z.to_nat 4) with 4%nat.
  destruct (load_word_gen (N.to_nat k) blk Hb ltac:(lia)) as [E B].
  rewrite E. unfold nthN. split; [|exact B].
  rewrite wrap_U32_small; [reflexivity|]. apply ofN_lt32. exact B.
Qed.

Lemma eval_cexpr : forall s ac, (ac < 2 ^ 32)%N -> eval s (cexpr ac) = Ok (VInt (Z.of_N ac)).
Proof.
  intros s ac H. unfold cexpr. destruct (ac <? 2147483648)%N; cbn [eval bind as_int]; [|reflexivity].
  rewrite wrap_U32_small; [reflexivity|apply ofN_lt32; exact H].
Qed.

Lemma shl_u32 : forall a b, 0 <= b < 32 -> eval_bin U32 Shl a b = Ok (Z.shiftl a b mod 2 ^ 32).
Proof.
  intros a b H. unfold eval_bin. change (ity_bits U32) with 32. change (ity_signed U32) with false.
  destruct (Z.ltb_spec b 0); [lia|]. destruct (Z.leb_spec 32 b); [lia|]. reflexivity.
Qed.
Lemma shr_u32 : forall a b, 0 <= b < 32 -> eval_bin U32 Shr a b = Ok (Z.shiftr a b).
Proof.
  intros a b H. unfold eval_bin. change (ity_bits U32) with 32.
  destruct (Z.ltb_spec b 0); [lia|]. destruct (Z.leb_spec 32 b); [lia|]. reflexivity.
Qed.

Lemma eval_rot : forall s x v sh, eval s x = Ok (VInt v) -> (0 < sh < 32)%N ->
  eval s (EBin U32 BOr (EBin U32 Shl x (EConst (Z.of_N sh))) (EBin U32 Shr x (EBin I32 Sub (EConst 32) (EConst (Z.of_N sh))))) =
  Ok (VInt (Z.lor (Z.shiftl v (Z.of_N sh) mod 2 ^ 32) (Z.shiftr v (32 - Z.of_N sh)) mod 2 ^ 32)).
Proof.
  intros s x v sh H Hs. cbn [eval]. rewrite H. cbn [bind as_int].
  rewrite shl_u32 by lia. cbn [bind as_int].
  change (eval_bin I32 Sub 32 (Z.of_N sh)) with (arith I32 (32 - Z.of_N sh)).
  rewrite arith_I32_small by lia. cbn [bind as_int]. rewrite shr_u32 by lia. cbn [bind as_int eval_bin].
  rewrite wrap_U32_mod. reflexivity.
Qed.

Definition step_stmts_n (ra rb rc rd : string) (f k sh ac : N) : list stmt :=
    [SSet ra (EBin U32 Add (EVar ra) (EBin U32 Add (EBin U32 Add (fexpr f (EVar rb) (EVar rc) (EVar rd))
             (ELoad U32 (EPtrAdd (EField "s") 4 (EConst (Z.of_N k))))) (cexpr ac)));
     SSet ra (EBin U32 BOr (EBin U32 Shl (EVar ra) (EConst (Z.of_N sh)))
                          (EBin U32 Shr (EVar ra) (EBin I32 Sub (EConst 32) (EConst (Z.of_N sh)))));
     SSet ra (EBin U32 Add (EVar ra) (EVar rb))].

Lemma step3 : forall fuel rest s ra rb rc rd f k sh ac A B C D blk,
  ra <> rb ->
  lget (loc s) ra = Some (VInt (Z.of_N A)) -> lget (loc s) rb = Some (VInt (Z.of_N B)) ->
  lget (loc s) rc = Some (VInt (Z.of_N C)) -> lget (loc s) rd = Some (VInt (Z.of_N D)) ->
  (A < 2 ^ 32)%N -> (B < 2 ^ 32)%N -> (C < 2 ^ 32)%N -> (D < 2 ^ 32)%N ->
  (f < 4)%N -> (k < 16)%N -> (0 < sh < 32)%N -> (ac < 2 ^ 32)%N ->
  pre s = "" -> mget (mem s) "s" = Some (bytes_object blk) -> List.length blk = 64%nat -> bytes blk ->
  exists l',
    ex (S (S (S (S fuel)))) (chain (step_stmts_n ra rb rc rd f k sh ac) rest) s = ex (S fuel) rest (with_loc s l') /\ lget l' ra = Some (VInt (Z.of_N (add32 (rotl32 (sum32 [A; md5_fn f B C D; nthN (words_of le32 blk) k 0%N; ac]) sh) B))) /\ (forall x, x <> ra -> lget l' x = lget (loc s) x).
Proof.
  intros fuel rest s ra rb rc rd f k sh ac A B C D blk Hab Ha Hb Hc Hd BA BB BC BD Hf Hk Hsh Hac Hpre Hs Hl Hby.
  destruct (eval_fexpr f s (EVar rb) (EVar rc) (EVar rd) B C D Hf BB BC BD) as [EF BF];
    try (cbn [eval]; rewrite ?Hb, ?Hc, ?Hd; reflexivity).
  destruct (load_word blk k Hl Hby Hk) as [EL BL].
  unfold step_stmts_n. cbn [chain].
  rewrite exec_seq, exec_set. cbn [eval]. rewrite Ha, EF, (eval_cexpr s ac Hac). cbn [bind as_int].
  rewrite Hpre. cbn [append]. rewrite Hs. rewrite EL. cbn [eval_bin]. repeat progress (cbn [bind as_int]; rewrite ?arith_U32).
  destruct (z_step A (md5_fn f B C D) (nthN (words_of le32 blk) k 0%N) ac sh B Hsh) as [a1N [E1 E2]].
  rewrite exec_seq, exec_set.
  rewrite (eval_rot _ (EVar ra) _ sh) by (try exact Hsh; cbn [eval loc with_loc]; rewrite lget_lset_same; reflexivity).
  cbn [bind].
  rewrite exec_seq, exec_set. cbn [eval loc with_loc]. rewrite lget_lset_same.
  rewrite !(lget_lset_other _ _ ra rb) by exact Hab. rewrite Hb. cbn [bind as_int eval_bin]. rewrite arith_U32. cbn [bind].
  rewrite E2.
  eexists. split; [reflexivity|]. split.
  - apply lget_lset_same.
  - intros x Hx. rewrite !lget_lset_other by (intro; apply Hx; congruence). reflexivity.
Qed.

Definition regs_ok (l : list (string * value)) (v : list N) : Prop :=
  exists a b c d, v = [a; b; c; d] /\ ((a < 2 ^ 32)%N /\ (b < 2 ^ 32)%N /\ (c < 2 ^ 32)%N /\ (d < 2 ^ 32)%N) /\
    lget l "a" = Some (VInt (Z.of_N a)) /\ lget l "b" = Some (VInt (Z.of_N b)) /\
    lget l "c" = Some (VInt (Z.of_N c)) /\ lget l "d" = Some (VInt (Z.of_N d)).

Definition regs_okb (regs : list N) : bool :=
  match regs with
  | [0; 1; 2; 3]%N | [3; 0; 1; 2]%N | [2; 3; 0; 1]%N | [1; 2; 3; 0]%N => true
  | _ => false
  end.
Definition step_okb (st : step) : bool :=
  match st with
  | (f, regs, k, sh, ac) => (f <? 4)%N && regs_okb regs && (k <? 16)%N && (0 <? sh)%N && (sh <? 32)%N && (ac <? 2 ^ 32)%N
  end.
Lemma md5_steps_ok : forallb step_okb md5_steps = true.
Proof. vm_compute. reflexivity. Qed.

Lemma regs_okb_cases : forall regs, regs_okb regs = true ->
  regs = [0; 1; 2; 3]%N \/ regs = [3; 0; 1; 2]%N \/ regs = [2; 3; 0; 1]%N \/ regs = [1; 2; 3; 0]%N.
Proof.
  intros regs H.
  destruct regs as [|r0 [|r1 [|r2 [|r3 [|r4 r]]]]]; try discriminate;
  destruct r0 as [|[[?|?|]|[?|?|]|]]; try discriminate;
  destruct r1 as [|[[?|?|]|[?|?|]|]]; try discriminate;
  destruct r2 as [|[[?|?|]|[?|?|]|]]; try discriminate;
  destruct r3 as [|[[?|?|]|[?|?|]|]]; try discriminate; tauto.
Qed.

Ltac red_step :=
  unfold md5_step; cbn [nth];
  change (N.to_nat 0) with 0%nat; change (N.to_nat 1) with 1%nat;
  change (N.to_nat 2) with 2%nat; change (N.to_nat 3) with 3%nat; cbn [nth set_nth].

Lemma step_exec : forall fuel rest s v stp blk,
  step_okb stp = true -> regs_ok (loc s) v ->
  pre s = "" -> mget (mem s) "s" = Some (bytes_object blk) -> List.length blk = 64%nat -> bytes blk ->
  exists l', ex (S (S (S (S fuel)))) (chain (step_stmts stp) rest) s = ex (S fuel) rest (with_loc s l') /\
             regs_ok l' (md5_step (words_of le32 blk) v stp).
Proof.
  intros fuel rest s v [[[[f regs] k] sh] ac] blk Hok [a [b [c [d [-> [[Ba [Bb [Bc Bd]]] [Ha [Hb [Hc Hd]]]]]]]]] Hpre Hs Hl Hby.
  unfold step_okb in Hok. rewrite !andb_true_iff in Hok.
  destruct Hok as [[[[[Hf Hr] Hk] Hs0] Hs1] Hac].
  apply N.ltb_lt in Hf, Hk, Hs0, Hs1, Hac.
  destruct (regs_okb_cases regs Hr) as [->|[->|[->| ->]]].
  - destruct (step3 fuel rest s "a" "b" "c" "d" f k sh ac a b c d blk) as [l' [E [Hn Ho]]]; auto; try discriminate; try lia.
    exists l'. split; [exact E|]. red_step.
    eexists _, _, _, _. split; [reflexivity|]. split; [auto with b32|].
    rewrite ?(Ho "a"), ?(Ho "b"), ?(Ho "c"), ?(Ho "d") by discriminate. auto.
  - destruct (step3 fuel rest s "d" "a" "b" "c" f k sh ac d a b c blk) as [l' [E [Hn Ho]]]; auto; try discriminate; try lia.
    exists l'. split; [exact E|]. red_step.
    eexists _, _, _, _. split; [reflexivity|]. split; [auto with b32|].
    rewrite ?(Ho "a"), ?(Ho "b"), ?(Ho "c"), ?(Ho "d") by discriminate. auto.
  - destruct (step3 fuel rest s "c" "d" "a" "b" f k sh ac c d a b blk) as [l' [E [Hn Ho]]]; auto; try discriminate; try lia.
    exists l'. split; [exact E|]. red_step.
    eexists _, _, _, _. split; [reflexivity|]. split; [auto with b32|].
    rewrite ?(Ho "a"), ?(Ho "b"), ?(Ho "c"), ?(Ho "d") by discriminate. auto.
  - destruct (step3 fuel rest s "b" "c" "d" "a" f k sh ac b c d a blk) as [l' [E [Hn Ho]]]; auto; try discriminate; try lia.
    exists l'. split; [exact E|]. red_step.
    eexists _, _, _, _. split; [reflexivity|]. split; [auto with b32|].
    rewrite ?(Ho "a"), ?(Ho "b"), ?(Ho "c"), ?(Ho "d") by discriminate. auto.
Qed.

Lemma steps_exec : forall steps fuel rest s v blk,
  forallb step_okb steps = true -> regs_ok (loc s) v ->
  pre s = "" -> mget (mem s) "s" = Some (bytes_object blk) -> List.length blk = 64%nat -> bytes blk ->
  exists l', ex (S (List.length steps * 3 + fuel)) (chain (flat_map step_stmts steps) rest) s = ex (S fuel) rest (with_loc s l') /\
             regs_ok l' (fold_left (md5_step (words_of le32 blk)) steps v).
Proof.
  induction steps as [|stp steps IH]; intros fuel rest s v blk Hok Hr Hpre Hs Hl Hby.
  - exists (loc s). split; [destruct s; reflexivity|exact Hr].
  - cbn [forallb] in Hok. apply andb_true_iff in Hok. destruct Hok as [Hok1 Hok2].
    cbn [flat_map List.length Nat.mul Nat.add fold_left]. rewrite chain_app.
    destruct (step_exec (List.length steps * 3 + fuel) (chain (flat_map step_stmts steps) rest) s v stp blk Hok1 Hr Hpre Hs Hl Hby)
      as [l1 [E1 R1]].
    rewrite E1.
    destruct (IH fuel rest (with_loc s l1) _ blk Hok2 R1 Hpre Hs Hl Hby) as [l2 [E2 R2]].
    exists l2. split; [exact E2|exact R2].
Qed.

(* ---------------- calls ---------------- *)
Lemma exec_scall : forall fuel ret fname args s vs f l,
  eval_list s args = Ok vs -> lget hash_prog fname = Some f -> bind_params (f_params f) vs = Ok l ->
  ex (S fuel) (SCall ret fname None args) s =
   (do r <- ex fuel (f_body f) {| mem := mem s; loc := l; pre := pre s; files := files s; ptrs := ptrs s; fresh := fresh s |};
    let '(o, s1) := r in
    do s2 <- set_ret {| mem := mem s1; loc := loc s; pre := pre s; files := files s1; ptrs := ptrs s1; fresh := fresh s1 |} ret
                     (match o with Returned v => v | _ => None end);
    Ok (Normal, s2)).
Proof. intros fuel ret fname args s vs f l H H0 H1. cbn [exec]. rewrite H. cbn [bind this_prefix]. rewrite H0, H1. reflexivity. Qed.

Lemma exec_scallvirt : forall fuel ret m args s vs cls f l,
  eval_list s args = Ok vs -> lget vt (pre s) = Some cls -> lget hash_prog (cls ++ "::" ++ m) = Some f ->
  bind_params (f_params f) vs = Ok l ->
  ex (S fuel) (SCallVirt ret m None args) s =
   (do r <- ex fuel (f_body f) {| mem := mem s; loc := l; pre := pre s; files := files s; ptrs := ptrs s; fresh := fresh s |};
    let '(o, s1) := r in
    do s2 <- set_ret {| mem := mem s1; loc := loc s; pre := pre s; files := files s1; ptrs := ptrs s1; fresh := fresh s1 |} ret
                     (match o with Returned v => v | _ => None end);
    Ok (Normal, s2)).
Proof.
  intros fuel ret m args s vs cls f l H Hv H0 H1. cbn [exec]. rewrite H. cbn [bind this_prefix]. rewrite Hv, H0, H1. reflexivity.
Qed.
End Md5.

Lemma lk_addtotal : lget hash_prog "Hashmaster::addtotal/1" = Some Src_md5.f_Hashmaster_addtotal_1.
Proof. vm_compute. reflexivity. Qed.
Lemma lk_getHash1 : lget hash_prog "md5hash::getHash/1" = Some Src_md5.f_md5hash_getHash_1.
Proof. vm_compute. reflexivity. Qed.
Lemma lk_getHash2 : lget hash_prog "md5hash::getHash/2" = Some Src_md5.f_md5hash_getHash_2.
Proof. vm_compute. reflexivity. Qed.
Lemma lk_getres : lget hash_prog "md5hash::getres/1" = Some Src_md5.f_md5hash_getres_1.
Proof. vm_compute. reflexivity. Qed.
Lemma lk_reset : lget hash_prog "md5hash::reset/0" = Some Src_md5.f_md5hash_reset_0.
Proof. vm_compute. reflexivity. Qed.
Lemma lk_getblen : lget hash_prog "md5hash::getblen/0" = Some Src_md5.f_md5hash_getblen_0.
Proof. vm_compute. reflexivity. Qed.

(* ---------------- memory helpers ---------------- *)
Lemma mset_mset_same : forall m k a b, mset (mset m k a) k b = mset m k b.
Proof.
  induction m as [|[k' o'] r IH]; intros k a b; cbn.
  - now rewrite String.eqb_refl.
  - destruct (String.eqb k k') eqn:E; cbn; rewrite ?String.eqb_refl, ?E; [reflexivity|]. now rewrite IH.
Qed.
Lemma upd_range_full : forall vs l, List.length vs = List.length l -> upd_range 0 vs l = vs.
Proof.
  intros vs l H. pose proof (upd_range_app vs [] l ltac:(lia)) as E. cbn [List.length app] in E.
  rewrite E, H, skipn_all, app_nil_r. reflexivity.
Qed.
Lemma memset_u8 : forall s name ob n, mget (mem s) name = Some ob -> o_ty ob = U8 -> 0 <= n ->
  n <= Z.of_nat (List.length (o_cells ob)) ->
  do_memset s (VPtr name 0) 0 n =
  Ok (with_mem s (mset (mem s) name {| o_ty := U8; o_cells := upd_range 0 (repeat 0 (Z.to_nat n)) (o_cells ob) |})).
Proof.
  intros s name ob n H Ht Hn Hl. unfold do_memset. rewrite H, Ht. change (ity_bytes U8) with 1.
  rewrite Z.mod_1_r, !Z.div_1_r. change (0 mod 1) with 0. change (0 / 1) with 0. change (0 mod 256) with 0.
  destruct (Z.ltb_spec n 0); [lia|].
  destruct (Z.ltb_spec (Z.of_nat (List.length (o_cells ob))) (0 + n)); [lia|]. reflexivity.
Qed.
Lemma memcpy_u8 : forall s d offd sr offs n bd bs, mget (mem s) d = Some bd -> mget (mem s) sr = Some bs ->
  o_ty bd = U8 -> o_ty bs = U8 -> 0 <= n -> 0 <= offd -> 0 <= offs ->
  offs + n <= Z.of_nat (List.length (o_cells bs)) -> offd + n <= Z.of_nat (List.length (o_cells bd)) ->
  do_memcpy s (VPtr d offd) (VPtr sr offs) n =
  Ok (with_mem s (mset (mem s) d {| o_ty := U8; o_cells := upd_range (Z.to_nat offd) (firstn (Z.to_nat n) (skipn (Z.to_nat offs) (o_cells bs))) (o_cells bd) |})).
Proof.
  intros s d offd sr offs n bd bs Hd Hs Td Ts Hn Hod Hos Hls Hld. unfold do_memcpy. rewrite Hd, Hs, Td, Ts.
  change (ity_bytes U8) with 1. rewrite !Z.mod_1_r, !Z.div_1_r. change (negb (1 =? 1)%Z) with false. change (negb (0 =? 0)%Z) with false.
  cbv iota.
  destruct (Z.ltb_spec n 0); [lia|]. destruct (Z.ltb_spec offd 0); [lia|]. destruct (Z.ltb_spec offs 0); [lia|].
  cbn [orb].
  destruct (Z.ltb_spec (Z.of_nat (List.length (o_cells bs))) (offs + n)); [lia|].
  destruct (Z.ltb_spec (Z.of_nat (List.length (o_cells bd))) (offd + n)); [lia|]. reflexivity.
Qed.

(* ==================== part g1 ==================== *)
Ltac ev := cbn [exec eval eval_list bind as_int this_prefix bind_params f_params f_body loc mem pre files ptrs fresh
                with_loc with_mem lget lset String.eqb Ascii.eqb Bool.eqb append set_ret].

Definition tot_add (t len : N) : N := ((t + (len * 8) mod w32) mod 2 ^ totalsize_bits)%N.

Lemma z_tot_add : forall t len,
  wrap U64 ((wrap U64 (Z.of_N t) + wrap U64 (Z.shiftl (Z.of_N len) 3 mod 2 ^ 32)) mod 2 ^ 64) = Z.of_N (tot_add t len).
Proof.
  intros t len. unfold tot_add. rewrite !N2Z.inj_mod, N2Z.inj_add, N2Z.inj_mod, N2Z.inj_mul.
  change (Z.of_N (2 ^ totalsize_bits)) with (2 ^ 64). change (Z.of_N w32) with (2 ^ 32). change (Z.of_N 8) with 8.
  rewrite Z.shiftl_mul_pow2 by lia. change (2 ^ 3) with 8.
  unfold wrap. cbn [ity_bits ity_signed].
  rewrite Z.mod_mod by (change (2 ^ 64) with 18446744073709551616; lia).
  rewrite Zplus_mod_idemp_l.
  assert (E : ((Z.of_N len * 8) mod 2 ^ 32) mod 2 ^ 64 = (Z.of_N len * 8) mod 2 ^ 32).
  { apply Z.mod_small. pose proof (Z.mod_pos_bound (Z.of_N len * 8) (2 ^ 32) ltac:(reflexivity)).
    change (2 ^ 64) with 18446744073709551616. change (2 ^ 32) with 4294967296 in *. lia. }
  rewrite E. reflexivity.
Qed.

#[local] Hint Resolve not32_lt32 land_lt32 lor_lt32 lxor_lt32 add32_lt : b32.

Section G1.
Variable vt : list (string * string).
Local Notation ex := (exec hash_prog vt).

Lemma exec_addtotal : forall fuel s e len t,
  eval s e = Ok (VInt (Z.of_N len)) -> pre s = "" ->
  mget (mem s) "totalsize" = Some (u64_cell t) ->
  ex (S (S fuel)) (SCall None "Hashmaster::addtotal/1" None [e]) s =
    Ok (Normal, with_mem s (mset (mem s) "totalsize" (u64_cell (tot_add t len)))).
Proof.
  intros fuel s e len t He Hpre Ht. destruct s as [m l p fi pt fr]. cbn [pre mem] in Hpre, Ht. subst p.
  rewrite (exec_scall vt (S fuel) None _ [e] _ [VInt (Z.of_N len)] _ [("len", VInt (Z.of_N len))] ltac:(cbn [eval_list]; rewrite He; reflexivity) lk_addtotal eq_refl).
  cbn [Src_md5.f_Hashmaster_addtotal_1 f_body]. ev. rewrite Ht.
  change (load_obj (u64_cell t) U64 0) with (Ok (wrap U64 (Z.of_N t))). ev.
  rewrite shl_u32 by lia. ev. change (eval_bin U64 Add ?x ?y) with (arith U64 (x + y)). rewrite arith_U64. ev.
  match goal with |- context [store_obj (u64_cell t) U64 0 ?z] =>
    change (store_obj (u64_cell t) U64 0 z) with (Ok {| o_ty := U64; o_cells := [wrap U64 z] |}) end.
  ev. rewrite z_tot_add. reflexivity.
Qed.

Lemma exec_seq_normal : forall fuel a b s s1, ex fuel a s = Ok (Normal, s1) -> ex (S fuel) (SSeq a b) s = ex fuel b s1.
Proof. intros fuel a b s s1 H. rewrite exec_seq, H. reflexivity. Qed.

Lemma upd_nth_map : forall ws i y, upd_nth i (Z.of_N y) (map Z.of_N ws) = map Z.of_N (set_nth i y ws).
Proof. induction ws as [|w ws IH]; intros [|i] y; cbn; try reflexivity. now rewrite IH. Qed.

Lemma load_u32 : forall ws i, (i < List.length ws)%nat -> Forall (fun x => (x < 2 ^ 32)%N) ws ->
  load_obj (u32_obj ws) U32 (0 + Z.of_nat i * 4) = Ok (Z.of_N (nth i ws 0%N)).
Proof.
  intros ws i Hi Hb. unfold load_obj, u32_obj. cbn [o_ty o_cells]. change (ity_bytes U32) with 4.
  rewrite Z.add_0_l, Z.mod_mul, Z.div_mul, map_length by lia.
  destruct (Z.ltb_spec (Z.of_nat i * 4) 0); [lia|]. change (4 =? 4)%Z with true. change (0 =? 0)%Z with true. cbv iota.
  destruct (Z.ltb_spec (Z.of_nat i) (Z.of_nat (List.length ws))); [|lia].
  rewrite Nat2Z.id. change 0 with (Z.of_N 0) at 1. rewrite map_nth.
  rewrite wrap_U32_small; [reflexivity|]. apply ofN_lt32. rewrite Forall_forall in Hb. apply Hb, nth_In, Hi.
Qed.
Lemma store_u32 : forall ws i v, (i < List.length ws)%nat ->
  store_obj (u32_obj ws) U32 (0 + Z.of_nat i * 4) v = Ok {| o_ty := U32; o_cells := upd_nth i (wrap U32 v) (map Z.of_N ws) |}.
Proof.
  intros ws i v Hi. unfold store_obj, u32_obj. cbn [o_ty o_cells]. change (ity_bytes U32) with 4.
  rewrite Z.add_0_l, Z.mod_mul, Z.div_mul, map_length by lia.
  destruct (Z.ltb_spec (Z.of_nat i * 4) 0); [lia|]. change (4 =? 4)%Z with true. change (0 =? 0)%Z with true. cbv iota.
  destruct (Z.ltb_spec (Z.of_nat i) (Z.of_nat (List.length ws))); [|lia].
  rewrite Nat2Z.id. reflexivity.
Qed.

Lemma hadd_exec : forall fuel s iz i x ws X, iz = Z.of_nat i ->
  mget (mem s) "h" = Some (u32_obj ws) -> pre s = "" -> lget (loc s) x = Some (VInt (Z.of_N X)) ->
  Forall (fun x => (x < 2 ^ 32)%N) ws -> (i < List.length ws)%nat ->
  ex (S fuel) (hadd iz x) s = Ok (Normal, with_mem s (mset (mem s) "h" (u32_obj (set_nth i (add32 (nth i ws 0%N) X) ws)))).
Proof.
  intros fuel s iz i x ws X -> Hh Hpre Hx Hb Hi. destruct s as [m l p fi pt fr]. cbn [pre mem loc] in *. subst p.
  unfold hadd, hidx. ev. rewrite Hh, Hx. rewrite load_u32 by assumption. ev.
  change (eval_bin U32 Add ?x ?y) with (arith U32 (x + y)). rewrite arith_U32. ev.
  rewrite store_u32 by assumption. ev.
  rewrite wrap_U32_mod, Z.mod_mod by (change (2 ^ 32) with 4294967296; lia). rewrite z_add32, upd_nth_map. reflexivity.
Qed.

Lemma suffix_exec : forall fuel s h0 h1 h2 h3 v,
  mget (mem s) "h" = Some (u32_obj [h0; h1; h2; h3]) -> pre s = "" -> regs_ok (loc s) v ->
  (h0 < 2 ^ 32)%N -> (h1 < 2 ^ 32)%N -> (h2 < 2 ^ 32)%N -> (h3 < 2 ^ 32)%N ->
  ex (S (S (S (S fuel)))) suffix4 s = Ok (Normal, with_mem s (mset (mem s) "h" (u32_obj (map2 add32 [h0; h1; h2; h3] v)))).
Proof.
  intros fuel s h0 h1 h2 h3 v Hh Hpre [a [b [c [d [-> [[Ba [Bb [Bc Bd]]] [Ha [Hb [Hc Hd]]]]]]]]] B0 B1 B2 B3.
  destruct s as [m l p fi pt fr]. cbn [pre mem loc] in *. subst p. unfold suffix4.
  assert (side : forall x y z w : N, (x < 2 ^ 32)%N -> (y < 2 ^ 32)%N -> (z < 2 ^ 32)%N -> (w < 2 ^ 32)%N ->
            Forall (fun x => (x < 2 ^ 32)%N) [x; y; z; w]) by (intros; repeat constructor; assumption).
  erewrite exec_seq_normal;
    [|eapply (hadd_exec _ _ 0 0%nat "a"); [reflexivity|eassumption|reflexivity|eassumption|apply side; assumption|cbn; lia]].
  cbn [set_nth nth with_mem mem loc pre files ptrs fresh].
  erewrite exec_seq_normal;
    [|eapply (hadd_exec _ _ 1 1%nat "b"); [reflexivity|apply mget_mset_same|reflexivity|eassumption|apply side; auto with b32|cbn; lia]].
  cbn [set_nth nth with_mem mem loc pre files ptrs fresh]. rewrite mset_mset_same.
  erewrite exec_seq_normal;
    [|eapply (hadd_exec _ _ 2 2%nat "c"); [reflexivity|apply mget_mset_same|reflexivity|eassumption|apply side; auto with b32|cbn; lia]].
  cbn [set_nth nth with_mem mem loc pre files ptrs fresh]. rewrite mset_mset_same.
  erewrite (hadd_exec _ _ 3 3%nat "d"); [|reflexivity|apply mget_mset_same|reflexivity|eassumption|apply side; auto with b32|cbn; lia].
  cbn [set_nth nth with_mem mem loc pre files ptrs fresh]. rewrite mset_mset_same. reflexivity.
Qed.

Definition g1_pre (m : memory) (H : list N) (t : N) : Prop :=
  mget m "h" = Some (u32_obj H) /\ List.length H = 4%nat /\ Forall (fun x => (x < 2 ^ 32)%N) H /\
  mget m "totalsize" = Some (u64_cell t) /\ (exists so, mget m "s" = Some so /\ shaped U8 64 so).

Definition F1 : nat := 8 + (@List.length step md5_steps * 3 + 4).

Lemma exec_memset : forall fuel d v n s,
  ex (S fuel) (SMemset d v n) s =
  (do dv <- eval s d; do vv <- eval s v; do x <- as_int vv; do nv <- eval s n; do k <- as_int nv;
   do s' <- do_memset s dv x k; Ok (Normal, s')).
Proof. reflexivity. Qed.
Lemma exec_memcpy : forall fuel d sr n s,
  ex (S fuel) (SMemcpy d sr n) s =
  (do dv <- eval s d; do sv <- eval s sr; do nv <- eval s n; do k <- as_int nv; do s' <- do_memcpy s dv sv k; Ok (Normal, s')).
Proof. reflexivity. Qed.

Lemma g1_body : forall m fi pt fr o off blk H t,
  g1_pre m H t -> o <> "s" -> o <> "h" -> o <> "totalsize" ->
  bytes_at m o off blk -> List.length blk = 64%nat -> bytesb blk = true ->
  exists s',
    ex F1 (f_body Src_md5.f_md5hash_getHash_1)
       {| mem := m; loc := [("input", VPtr o off)]; pre := ""; files := fi; ptrs := pt; fresh := fr |} = Ok (Normal, s') /\
    files s' = fi /\ ptrs s' = pt /\ fresh s' = fr /\
    mget (mem s') "h" = Some (u32_obj (m_md5_block H blk)) /\
    mget (mem s') "totalsize" = Some (u64_cell (tot_add t 64)) /\
    mget (mem s') "s" = Some (bytes_object blk) /\
    (forall k, k <> "s" -> k <> "h" -> k <> "totalsize" -> mget (mem s') k = mget m k).
Proof.
  intros m fi pt fr o off blk H t [Hh [HlH [HbH [Ht [so [Hs [Tso Lso]]]]]]] Nos Noh Not [ob [Hob [Tob [Hoff [Hcells Hlen]]]]] Hl Hby.
  destruct H as [|h0 [|h1 [|h2 [|h3 [|h4 H]]]]]; try discriminate HlH.
  inversion HbH as [|? ? B0 HbH1]; subst. inversion HbH1 as [|? ? B1 HbH2]; subst.
  inversion HbH2 as [|? ? B2 HbH3]; subst. inversion HbH3 as [|? ? B3 _]; subst.
  apply bytesb_bytes in Hby.
  rewrite body1_shape, chain_app. unfold F1. cbn [Nat.add pre7 chain].
  (* memset *)
  erewrite exec_seq_normal;
    [|rewrite exec_memset; ev; erewrite memset_u8; [reflexivity|exact Hs|exact Tso|lia|lia]].
  (* memcpy *)
  assert (Es : upd_range (Z.to_nat 0) (firstn (Z.to_nat 64) (skipn (Z.to_nat off) (o_cells ob)))
                 (upd_range 0 (repeat 0 (Z.to_nat 64)) (o_cells so)) = map Z.of_N blk).
  { change (Z.to_nat 64) with 64%nat. change (Z.to_nat 0) with 0%nat. rewrite <- Hl, Hcells.
    apply upd_range_full. rewrite map_length, upd_range_length. lia. }
  erewrite exec_seq_normal;
    [|rewrite exec_memcpy; ev;
      erewrite (memcpy_u8 _ "s" 0 o off 64); [reflexivity|apply mget_mset_same|cbn [mem with_mem]; rewrite mget_mset_other by congruence; exact Hob
                                              |reflexivity|exact Tob|lia|lia|exact Hoff|lia|cbn [o_cells]; rewrite upd_range_length; lia]].
  unfold with_mem. cbn [mem loc pre files ptrs fresh o_cells]. rewrite mset_mset_same, Es.
  change {| o_ty := U8; o_cells := map Z.of_N blk |} with (bytes_object blk).
  (* addtotal *)
  erewrite exec_seq_normal;
    [|apply (exec_addtotal _ _ _ 64%N t); [reflexivity|reflexivity|cbn [mem with_mem]; rewrite mget_mset_other by discriminate; exact Ht]].
  unfold with_mem. cbn [mem loc pre files ptrs fresh].
  (* a b c d *)
  unfold hidx.
  erewrite exec_seq_normal;
    [|rewrite exec_set; ev; rewrite !mget_mset_other by discriminate; rewrite Hh;
      change (0 + 0 * 4) with (0 + Z.of_nat 0 * 4); rewrite (load_u32 [h0; h1; h2; h3] 0%nat) by (cbn; (lia || assumption)); ev; reflexivity].
  erewrite exec_seq_normal;
    [|rewrite exec_set; ev; rewrite !mget_mset_other by discriminate; rewrite Hh;
      change (0 + 1 * 4) with (0 + Z.of_nat 1 * 4); rewrite (load_u32 [h0; h1; h2; h3] 1%nat) by (cbn; (lia || assumption)); ev; reflexivity].
  erewrite exec_seq_normal;
    [|rewrite exec_set; ev; rewrite !mget_mset_other by discriminate; rewrite Hh;
      change (0 + 2 * 4) with (0 + Z.of_nat 2 * 4); rewrite (load_u32 [h0; h1; h2; h3] 2%nat) by (cbn; (lia || assumption)); ev; reflexivity].
  erewrite exec_seq_normal;
    [|rewrite exec_set; ev; rewrite !mget_mset_other by discriminate; rewrite Hh;
      change (0 + 3 * 4) with (0 + Z.of_nat 3 * 4); rewrite (load_u32 [h0; h1; h2; h3] 3%nat) by (cbn; (lia || assumption)); ev; reflexivity].
  cbn [nth]. unfold with_loc. cbn [mem loc pre files ptrs fresh].
  match goal with |- context [ex _ _ ?s7] =>
    destruct (steps_exec vt md5_steps 4 suffix4 s7 [h0; h1; h2; h3] blk md5_steps_ok) as [l' [E R]] end;
    [exists h0, h1, h2, h3; cbn [loc lget String.eqb Ascii.eqb Bool.eqb]; auto 10
    |reflexivity|cbn [mem]; rewrite mget_mset_other by discriminate; apply mget_mset_same|exact Hl|exact Hby|].
  eexists. split.
  { rewrite E. unfold with_loc. cbn [mem loc pre files ptrs fresh].
    erewrite suffix_exec;
      [|cbn [mem]; rewrite !mget_mset_other by discriminate; exact Hh|reflexivity|cbn [loc]; exact R|assumption..].
    unfold with_mem. cbn [mem loc pre files ptrs fresh]. reflexivity. }
  cbn [mem files ptrs fresh].
  split; [reflexivity|]. split; [reflexivity|]. split; [reflexivity|].
  split; [unfold m_md5_block, md5_block_with; apply mget_mset_same|].
  split; [rewrite mget_mset_other by discriminate; apply mget_mset_same|].
  split; [rewrite !mget_mset_other by discriminate; apply mget_mset_same|].
  intros k K1 K2 K3. rewrite !mget_mset_other by congruence. reflexivity.
Qed.
End G1.

(* ==================== part blk ==================== *)
Notation md5_ok := (hasher_ok alg_md5 Src_md5.objects_md5hash Src_md5.globals).

Lemma map2_add32_lt : forall a b, Forall (fun x => (x < 2 ^ 32)%N) (map2 add32 a b).
Proof.
  induction a as [|x a IH]; intros [|y b]; cbn [map2]; try constructor; [apply add32_lt|apply IH].
Qed.

Lemma hash_owned_false : forall k, hash_owned k = false ->
  k <> "h" /\ k <> "totalsize" /\ k <> "s" /\ is_prefix "#" k = false.
Proof.
  intros k H. unfold hash_owned in H. apply orb_false_iff in H. destruct H as [H H3].
  apply orb_false_iff in H. destruct H as [H H2]. cbn [existsb] in H.
  repeat (apply orb_false_iff in H; let X := fresh "X" in destruct H as [X H]).
  repeat split; try (intros ->; discriminate). exact H3.
Qed.

Lemma heap_name_prefix : forall n, is_prefix "#" (heap_name n) = true.
Proof.
  intros n. unfold is_prefix, heap_name. cbn [String.prefix].
  match goal with |- context [Ascii.ascii_dec ?a ?b] => destruct (Ascii.ascii_dec a b) as [_|E] end; [destruct (nat_string n); reflexivity|congruence].
Qed.
Lemma passable_names : forall s o, passable s o ->
  o <> "h" /\ o <> "totalsize" /\ o <> "s" /\ o <> heap_name (fresh s).
Proof.
  intros s o [H|[n [Hn ->]]].
  - destruct (hash_owned_false o H) as [A [B [C D]]]. repeat split; auto.
    intros ->. rewrite heap_name_prefix in D. discriminate.
  - repeat split; try discriminate. intro E. apply heap_name_inj in E. lia.
Qed.

(* from the contract's hasher_ok to the raw precondition of getHash/1 *)
Lemma ok_g1_pre : forall st m, md5_ok st m -> g1_pre m (hs_h st) (hs_total st).
Proof.
  intros st m [[Hh Ht] [Hsc [_ [Hl [Hb _]]]]]. unfold g1_pre.
  repeat split; try assumption.
  apply (Hsc "s" U8 64). cbn. tauto.
Qed.

(* from the raw postcondition of getHash/1 back to hasher_ok *)
Lemma g1_post_ok : forall m m' H t blk,
  scratch_ok Src_md5.objects_md5hash m -> List.length H = 4%nat -> (t < 2 ^ 64)%N ->
  mget m' "h" = Some (u32_obj (m_md5_block H blk)) ->
  mget m' "totalsize" = Some (u64_cell (tot_add t 64)) ->
  mget m' "s" = Some (bytes_object blk) -> List.length blk = 64%nat ->
  mget m' "hashblock" = mget m "hashblock" ->
  md5_ok {| hs_h := m_md5_block H blk; hs_total := tot_add t 64 |} m'.
Proof.
  intros m m' H t blk Hsc HlH Ht Hh Htt Hs Hl Hfr.
  assert (L4 : List.length (m_md5_block H blk) = 4%nat) by (apply (len_ok_md5 H blk); exact HlH).
  unfold hasher_ok. cbn [hs_h hs_total]. split; [split; assumption|].
  split.
  { intros name ty n Hin. cbn in Hin.
    destruct Hin as [E|[E|[E|[E|[]]]]]; inversion E; subst; clear E.
    - rewrite Hfr. apply Hsc. cbn. tauto.
    - eexists. split; [exact Htt|]. split; reflexivity.
    - eexists. split; [exact Hh|]. split; [reflexivity|]. cbn [u32_obj o_cells]. rewrite map_length, L4. reflexivity.
    - eexists. split; [exact Hs|]. split; [reflexivity|]. cbn [bytes_object o_cells]. rewrite map_length, Hl. reflexivity. }
  split; [intros k ob Hk; discriminate Hk|].
  split; [exact L4|].
  split; [apply map2_add32_lt|].
  unfold tot_add. apply N.mod_lt. discriminate.
Qed.

Definition F_md5hash : nat := 260.

Section Blk.
Variable vt : list (string * string).
Local Notation ex := (exec hash_prog vt).

Lemma F1_le : (F1 <= 230)%nat.
Proof. vm_compute. repeat constructor. Qed.

Lemma md5_spec_block : spec_block "md5hash" alg_md5 Src_md5.objects_md5hash Src_md5.globals vt F_md5hash.
Proof.
  intros s st fuel o off blk Hfuel Hpre Hok Hown Hat Hl Hby.
  destruct (passable_names _ o Hown) as [No1 [No2 [No3 _]]].
  destruct s as [m l p fi pt fr]. cbn [pre mem] in *. subst p.
  destruct (g1_body vt m fi pt fr o off blk (hs_h st) (hs_total st) (ok_g1_pre st m Hok) No3 No1 No2 Hat Hl Hby)
    as [s' [E [Efi [Ept [Efr [Hh [Ht [Hs Hfr]]]]]]]].
  exists {| mem := mem s'; loc := l; pre := ""; files := fi; ptrs := pt; fresh := fr |}.
  split.
  { unfold call. change ("md5hash" ++ "::getHash/1") with "md5hash::getHash/1". rewrite lk_getHash1.
    cbn [Src_md5.f_md5hash_getHash_1 f_params bind_params bind mem loc pre files ptrs fresh].
    rewrite (exec_mono _ _ _ _ _ _ E fuel) by (pose proof F1_le; unfold F_md5hash in Hfuel; lia).
    cbn [bind]. rewrite Efi, Ept, Efr. reflexivity. }
  cbn [mem].
  destruct Hok as [[Hh0 Ht0] [Hsc [_ [HlH [HbH HtB]]]]].
  split; [apply (g1_post_ok m (mem s') (hs_h st) (hs_total st) blk); try assumption; apply Hfr; discriminate|].
  split.
  { intros k Hk. destruct (hash_owned_false k Hk) as [K1 [K2 [K3 _]]]. apply Hfr; assumption. }
  split; [intros n Hn; cbn [mem]; apply Hfr; discriminate|].
  unfold same_io. cbn. repeat split; auto.
Qed.
End Blk.

(* ==================== part rst ==================== *)
Section Rst.
Variable vt : list (string * string).
Local Notation ex := (exec hash_prog vt).

Lemma hstore_exec : forall fuel s iz i e v ws, iz = Z.of_nat i ->
  mget (mem s) "h" = Some (u32_obj ws) -> pre s = "" -> eval s e = Ok (VInt (Z.of_N v)) -> (v < 2 ^ 32)%N ->
  (i < List.length ws)%nat ->
  ex (S fuel) (SStore U32 (hidx iz) e) s = Ok (Normal, with_mem s (mset (mem s) "h" (u32_obj (set_nth i v ws)))).
Proof.
  intros fuel s iz i e v ws -> Hh Hpre He Hv Hi. destruct s as [m l p fi pt fr]. cbn [pre mem loc] in *. subst p.
  unfold hidx. ev. rewrite He. ev. rewrite Hh. rewrite store_u32 by assumption. ev.
  rewrite wrap_U32_small by (apply ofN_lt32; exact Hv). rewrite upd_nth_map. reflexivity.
Qed.

Lemma reset_shape : f_body Src_md5.f_md5hash_reset_0 =
  SSeq (SStore U32 (hidx 0) (ECast U32 (EConst 1732584193))) (SSeq (SStore U32 (hidx 1) (EConst 4023233417))
  (SSeq (SStore U32 (hidx 2) (EConst 2562383102)) (SSeq (SStore U32 (hidx 3) (ECast U32 (EConst 271733878)))
  (SStore U64 (EField "totalsize") (ECast U64 (EConst 0)))))).
Proof. reflexivity. Qed.

Lemma md5_spec_reset : spec_reset "md5hash" alg_md5 Src_md5.objects_md5hash Src_md5.globals vt F_md5hash.
Proof.
  intros s st fuel Hfuel Hpre Hok.
  destruct s as [m l p fi pt fr]. cbn [pre mem] in *. subst p.
  destruct Hok as [[Hh Ht] [Hsc [_ [HlH [HbH HtB]]]]].
  change (List.length (ha_init alg_md5)) with 4%nat in HlH.
  destruct (hs_h st) as [|h0 [|h1 [|h2 [|h3 [|h4 H]]]]]; try discriminate HlH.
  set (m' := mset (mset m "h" (u32_obj md5_iv)) "totalsize" (u64_cell 0)).
  assert (E : ex 6 (f_body Src_md5.f_md5hash_reset_0) {| mem := m; loc := []; pre := ""; files := fi; ptrs := pt; fresh := fr |} =
              Ok (Normal, {| mem := m'; loc := []; pre := ""; files := fi; ptrs := pt; fresh := fr |})).
  { rewrite reset_shape.
    erewrite exec_seq_normal;
      [|eapply (hstore_exec _ _ 0 0%nat _ 1732584193%N); [reflexivity|exact Hh|reflexivity|reflexivity|reflexivity|cbn; lia]].
    unfold with_mem. cbn [mem loc pre files ptrs fresh set_nth].
    erewrite exec_seq_normal;
      [|eapply (hstore_exec _ _ 1 1%nat _ 4023233417%N); [reflexivity|apply mget_mset_same|reflexivity|reflexivity|reflexivity|cbn; lia]].
    unfold with_mem. cbn [mem loc pre files ptrs fresh set_nth]. rewrite mset_mset_same.
    erewrite exec_seq_normal;
      [|eapply (hstore_exec _ _ 2 2%nat _ 2562383102%N); [reflexivity|apply mget_mset_same|reflexivity|reflexivity|reflexivity|cbn; lia]].
    unfold with_mem. cbn [mem loc pre files ptrs fresh set_nth]. rewrite mset_mset_same.
    erewrite exec_seq_normal;
      [|eapply (hstore_exec _ _ 3 3%nat _ 271733878%N); [reflexivity|apply mget_mset_same|reflexivity|reflexivity|reflexivity|cbn; lia]].
    unfold with_mem. cbn [mem loc pre files ptrs fresh set_nth]. rewrite mset_mset_same.
    ev. rewrite mget_mset_other by discriminate. rewrite Ht.
    match goal with |- context [store_obj (u64_cell ?t) U64 0 ?z] =>
      change (store_obj (u64_cell t) U64 0 z) with (Ok {| o_ty := U64; o_cells := [wrap U64 z] |}) end.
    ev. reflexivity. }
  exists {| mem := m'; loc := l; pre := ""; files := fi; ptrs := pt; fresh := fr |}.
  split.
  { unfold call. change ("md5hash" ++ "::reset/0") with "md5hash::reset/0". rewrite lk_reset.
    cbn [Src_md5.f_md5hash_reset_0 f_params bind_params bind mem loc pre files ptrs fresh].
    change (f_body _) with (f_body Src_md5.f_md5hash_reset_0).
    rewrite (exec_mono _ _ _ _ _ _ E fuel) by (unfold F_md5hash in Hfuel; lia).
    reflexivity. }
  cbn [mem]. split.
  { unfold hasher_ok, reset. cbn [hs_h hs_total ha_init alg_md5].
    split; [split; [unfold m'; rewrite mget_mset_other by discriminate; apply mget_mset_same|apply mget_mset_same]|].
    split.
    { intros name ty n Hin. cbn in Hin.
      destruct Hin as [E1|[E1|[E1|[E1|[]]]]]; inversion E1; subst; clear E1.
      - unfold m'. rewrite !mget_mset_other by discriminate. apply Hsc. cbn. tauto.
      - eexists. split; [apply mget_mset_same|]. split; reflexivity.
      - eexists. split; [unfold m'; rewrite mget_mset_other by discriminate; apply mget_mset_same|]. split; reflexivity.
      - unfold m'. rewrite !mget_mset_other by discriminate. apply Hsc. cbn. tauto. }
    split; [intros k ob Hk; discriminate Hk|].
    split; [reflexivity|].
    split; [repeat constructor|reflexivity]. }
  split.
  { intros k Hk. destruct (hash_owned_false k Hk) as [K1 [K2 [K3 _]]]. unfold m'.
    rewrite !mget_mset_other by congruence. reflexivity. }
  split; [intros n Hn; cbn [mem]; unfold m'; rewrite !mget_mset_other by discriminate; reflexivity|].
  unfold same_io. cbn. repeat split; auto.
Qed.
End Rst.

(* ==================== part res ==================== *)
Local Open Scope list_scope.

(* ---------------- list helpers ---------------- *)
Lemma upd_range_snoc : forall vs n v l, upd_range n (vs ++ [v]) l = upd_nth (n + List.length vs) v (upd_range n vs l).
Proof.
  induction vs as [|x vs IH]; intros n v l; cbn [app upd_range List.length].
  - rewrite Nat.add_0_r. reflexivity.
  - rewrite IH. f_equal. lia.
Qed.
Lemma firstn_S_nth : forall (l : list Z) k d, (k < List.length l)%nat -> firstn (S k) l = firstn k l ++ [nth k l d].
Proof.
  induction l as [|x l IH]; intros [|k] d H; cbn [List.length] in H; try lia; cbn [firstn nth app]; [reflexivity|].
  f_equal. apply IH. lia.
Qed.
Lemma upd_range_at : forall n vs l, (n + List.length vs <= List.length l)%nat ->
  upd_range n vs l = firstn n l ++ vs ++ skipn (n + List.length vs) l.
Proof.
  intros n vs l H. rewrite <- (firstn_skipn n l) at 1.
  assert (Ln : List.length (firstn n l) = n) by (rewrite firstn_length; lia).
  rewrite <- Ln at 1. rewrite upd_range_app by (rewrite skipn_length; lia).
  rewrite <- skipn_add. do 3 f_equal. lia.
Qed.
Lemma nth_upd_range_out : forall n vs l i d, (n + List.length vs <= List.length l)%nat ->
  (i < n \/ n + List.length vs <= i)%nat -> nth i (upd_range n vs l) d = nth i l d.
Proof.
  intros n vs l i d H Hi. rewrite upd_range_at by exact H.
  assert (Ln : List.length (firstn n l) = n) by (rewrite firstn_length; lia).
  destruct Hi as [Hi|Hi].
  - rewrite app_nth1 by lia. rewrite <- (firstn_skipn n l) at 2. rewrite app_nth1 by lia. reflexivity.
  - rewrite app_nth2 by lia. rewrite app_nth2 by lia. rewrite Ln.
    rewrite <- (firstn_skipn (n + List.length vs) l) at 2.
    rewrite app_nth2 by (rewrite firstn_length; lia). rewrite firstn_length. f_equal. lia.
Qed.
Lemma firstn_skipn_upd_range : forall n vs l, (n + List.length vs <= List.length l)%nat ->
  firstn (List.length vs) (skipn n (upd_range n vs l)) = vs.
Proof.
  intros n vs l H. rewrite upd_range_at by exact H.
  assert (Ln : List.length (firstn n l) = n) by (rewrite firstn_length; lia).
  rewrite skipn_app, Ln, Nat.sub_diag. rewrite (skipn_all2 (firstn n l)) by lia. cbn [skipn app].
  rewrite firstn_app, Nat.sub_diag, firstn_all. cbn [firstn]. apply app_nil_r.
Qed.

(* ---------------- operators ---------------- *)
Lemma shr_i32 : forall a b, 0 <= b < 32 -> eval_bin I32 Shr a b = Ok (Z.shiftr a b).
Proof.
  intros a b H. unfold eval_bin. change (ity_bits I32) with 32.
  destruct (Z.ltb_spec b 0); [lia|]. destruct (Z.leb_spec 32 b); [lia|]. reflexivity.
Qed.
Lemma shl_i32 : forall a b, 0 <= b < 32 -> 0 <= a -> Z.shiftl a b < 2 ^ 31 -> eval_bin I32 Shl a b = Ok (Z.shiftl a b).
Proof.
  intros a b H Ha Hs. unfold eval_bin. change (ity_bits I32) with 32. change (ity_signed I32) with true.
  destruct (Z.ltb_spec b 0); [lia|]. destruct (Z.leb_spec 32 b); [lia|]. cbn [orb].
  destruct (Z.ltb_spec a 0); [lia|]. apply arith_I32_small.
  split; [|exact Hs]. pose proof (Z.shiftl_nonneg a b). change (2 ^ 31) with 2147483648. lia.
Qed.
Lemma shr_u64 : forall a b, 0 <= b < 64 -> eval_bin U64 Shr a b = Ok (Z.shiftr a b).
Proof.
  intros a b H. unfold eval_bin. change (ity_bits U64) with 64.
  destruct (Z.ltb_spec b 0); [lia|]. destruct (Z.leb_spec 64 b); [lia|]. reflexivity.
Qed.
Lemma store_u8 : forall ob off v, o_ty ob = U8 -> 0 <= off < Z.of_nat (List.length (o_cells ob)) ->
  store_obj ob U8 off v = Ok {| o_ty := U8; o_cells := upd_nth (Z.to_nat off) (wrap U8 v) (o_cells ob) |}.
Proof.
  intros ob off v Ht Ho. unfold store_obj. rewrite Ht. change (ity_bytes U8) with 1.
  rewrite Z.mod_1_r, Z.div_1_r. destruct (Z.ltb_spec off 0); [lia|]. change (1 =? 1)%Z with true. change (0 =? 0)%Z with true.
  cbv iota. destruct (Z.ltb_spec off (Z.of_nat (List.length (o_cells ob)))); [|lia]. reflexivity.
Qed.

Lemma wrap_U8_idem : forall x, wrap U8 (wrap U8 x) = wrap U8 x.
Proof. intros x. rewrite !wrap_U8_mod. apply Z.mod_mod. lia. Qed.

Lemma getres_byte : forall h0 h1 h2 h3 q r, (q < 4)%nat -> (r < 4)%nat ->
  wrap U8 (Z.shiftr (Z.of_N (nth q [h0; h1; h2; h3] 0%N)) (8 * Z.of_nat r)) =
  nth (4 * q + r) (map Z.of_N (flat_map le32_bytes [h0; h1; h2; h3])) 0.
Proof.
  intros h0 h1 h2 h3 q r Hq Hr. rewrite wrap_U8_mod.
  assert (Cq : (q = 0 \/ q = 1 \/ q = 2 \/ q = 3)%nat) by lia.
  assert (Cr : (r = 0 \/ r = 1 \/ r = 2 \/ r = 3)%nat) by lia.
  destruct Cq as [->|[->|[->| ->]]]; destruct Cr as [->|[->|[->| ->]]];
    cbn [nth flat_map le32_bytes be32_bytes rev app map Nat.mul Nat.add];
    rewrite of_N_mod by discriminate; rewrite ?of_N_shiftr; try reflexivity;
    rewrite Z.shiftr_0_r; reflexivity.
Qed.

Definition gr_cond : expr := EBin TBool Lt (EVar "i") (EConst 16).
Definition gr_body : stmt :=
  SStore U8 (EPtrAdd (EVar "hashout") 1 (EVar "i"))
    (ECast U8 (EBin U32 Shr (ELoad U32 (EPtrAdd (EField "h") 4 (EBin I32 Shr (EVar "i") (EConst 2))))
                            (EBin I32 Shl (EBin I32 BAnd (EVar "i") (EConst 3)) (EConst 3)))).
Definition gr_step : stmt := SSet "i" (EBin I32 Add (EVar "i") (EConst 1)).
Lemma getres_shape : f_body Src_md5.f_md5hash_getres_1 = SSeq (SSet "i" (EConst 0)) (SLoop gr_cond gr_body gr_step).
Proof. reflexivity. Qed.

Section Res.
Variable vt : list (string * string).
Local Notation ex := (exec hash_prog vt).

Section Loop.
Variables (m : memory) (o : string) (off : Z) (ob : object) (fi : list (string * cfile)) (pt : list (string * value)) (fr : nat).
Variables h0 h1 h2 h3 : N.
Let H := [h0; h1; h2; h3].
Let outZ := map Z.of_N (flat_map le32_bytes H).
Hypothesis Hob : mget m o = Some ob.
Hypothesis Tob : o_ty ob = U8.
Hypothesis Hoff : 0 <= off.
Hypothesis Hlen : (Z.to_nat off + 16 <= List.length (o_cells ob))%nat.
Hypothesis No : o <> "h".
Hypothesis Hh : mget m "h" = Some (u32_obj H).
Hypothesis HbH : Forall (fun x => (x < 2 ^ 32)%N) H.

Definition gr_obj (k : nat) : object :=
  {| o_ty := U8; o_cells := upd_range (Z.to_nat off) (firstn k outZ) (o_cells ob) |}.
Fixpoint gr_mem (k : nat) : memory := match k with O => m | S k' => mset (gr_mem k') o (gr_obj (S k')) end.
Definition gr_state (k : nat) : state :=
  {| mem := gr_mem k; loc := [("hashout", VPtr o off); ("i", VInt (Z.of_nat k))]; pre := ""; files := fi; ptrs := pt; fresh := fr |}.

Lemma gr_mem_o : forall k, mget (gr_mem k) o = Some (gr_obj k).
Proof.
  intros [|k]; cbn [gr_mem]; [|apply mget_mset_same].
  rewrite Hob. unfold gr_obj. cbn [firstn upd_range]. destruct ob as [t c]. cbn [o_ty o_cells] in *. now subst t.
Qed.
Lemma gr_mem_other : forall k x, x <> o -> mget (gr_mem k) x = mget m x.
Proof.
  induction k as [|k IH]; intros x Hx; cbn [gr_mem]; [reflexivity|].
  rewrite mget_mset_other by congruence. apply IH, Hx.
Qed.
Lemma outZ_length : List.length outZ = 16%nat.
Proof. reflexivity. Qed.

Lemma gr_iter : forall k, (k < 16)%nat ->
  exists x, eval (gr_state k) gr_cond = Ok (VInt x) /\ x <> 0 /\
  exists s1, ex 1 gr_body (gr_state k) = Ok (Normal, s1) /\ ex 1 gr_step s1 = Ok (Normal, gr_state (S k)).
Proof.
  intros k Hk. exists 1. split.
  { unfold gr_cond, gr_state. ev. unfold eval_bin. destruct (Z.ltb_spec (Z.of_nat k) 16); [reflexivity|lia]. }
  split; [discriminate|].
  eexists. split.
  - unfold gr_body, gr_state. ev.
    rewrite shr_i32 by lia. ev.
    rewrite (gr_mem_other k "h") by (intro E; apply No; congruence). rewrite Hh.
    assert (Eq : Z.shiftr (Z.of_nat k) 2 = Z.of_nat (k / 4)).
    { rewrite Z.shiftr_div_pow2 by lia. change (2 ^ 2) with (Z.of_nat 4). symmetry. apply Nat2Z.inj_div. }
    assert (Er : Z.land (Z.of_nat k) 3 = Z.of_nat (k mod 4)).
    { change 3 with (Z.ones 2). rewrite Z.land_ones by lia. change (2 ^ 2) with (Z.of_nat 4). symmetry. apply Nat2Z.inj_mod. }
    assert (Bq : (k / 4 < 4)%nat) by (apply Nat.div_lt_upper_bound; lia).
    assert (Br : (k mod 4 < 4)%nat) by (apply Nat.mod_upper_bound; lia).
    rewrite Eq. rewrite (load_u32 H (k / 4)) by (try exact HbH; change (List.length H) with 4%nat; lia). ev.
    change (eval_bin I32 BAnd (Z.of_nat k) 3) with (Ok (wrap I32 (Z.land (Z.of_nat k) 3))). rewrite Er.
    rewrite wrap_I32_small by (change (2 ^ 31) with 2147483648; lia). ev.
    assert (Es : Z.shiftl (Z.of_nat (k mod 4)) 3 = 8 * Z.of_nat (k mod 4)).
    { rewrite Z.shiftl_mul_pow2 by lia. change (2 ^ 3) with 8. lia. }
    rewrite shl_i32 by (rewrite ?Es; change (2 ^ 31) with 2147483648; lia). rewrite Es. ev.
    rewrite shr_u32 by lia. ev.
    rewrite gr_mem_o.
    rewrite store_u8 by (try reflexivity; cbn [gr_obj o_cells]; rewrite upd_range_length; lia). ev.
    rewrite wrap_U8_idem. unfold H at 1. rewrite getres_byte by assumption. fold H. fold outZ.
    reflexivity.
  - unfold gr_step, with_mem. cbn [mem loc pre files ptrs fresh]. ev.
    change (eval_bin I32 Add (Z.of_nat k) 1) with (arith I32 (Z.of_nat k + 1)).
    rewrite arith_I32_small by (change (2 ^ 31) with 2147483648; lia). ev.
    unfold gr_state, with_loc. cbn [gr_mem mem loc pre files ptrs fresh]. repeat f_equal.
    + unfold gr_obj. cbn [o_cells]. f_equal.
      rewrite (firstn_S_nth outZ k 0) by (rewrite outZ_length; exact Hk).
      rewrite upd_range_snoc. rewrite firstn_length, outZ_length.
      replace (Z.to_nat (off + Z.of_nat k * 1)) with (Z.to_nat off + Nat.min k 16)%nat by lia.
      rewrite <- (Nat.div_mod k 4) by lia. rewrite Nat.min_l by lia. reflexivity.
    + lia.
Qed.

Lemma gr_end : eval (gr_state 16) gr_cond = Ok (VInt 0).
Proof. reflexivity. Qed.

Lemma gr_run : ex 19 (f_body Src_md5.f_md5hash_getres_1)
    {| mem := m; loc := [("hashout", VPtr o off)]; pre := ""; files := fi; ptrs := pt; fresh := fr |} = Ok (Normal, gr_state 16).
Proof.
  rewrite getres_shape.
  erewrite exec_seq_normal; [|rewrite exec_set; ev; reflexivity].
  exact (loop_count hash_prog vt gr_cond gr_body gr_step gr_state 16 1 gr_iter gr_end 0%nat ltac:(lia)).
Qed.
End Loop.

Lemma md5_spec_getres : spec_getres "md5hash" alg_md5 Src_md5.objects_md5hash Src_md5.globals vt F_md5hash.
Proof.
  intros s st fuel o off old Hfuel Hpre Hok Hown Hat Hl.
  destruct (passable_names _ o Hown) as [No1 [No2 [No3 _]]].
  destruct s as [m l p fi pt fr]. cbn [pre mem] in *. subst p.
  destruct Hat as [ob [Hob [Tob [Hoff [_ Hlen]]]]]. change (ha_hlen alg_md5) with 16%nat in *. rewrite Hl in Hlen.
  destruct Hok as [[Hh Ht] [Hsc [Hgl [HlH [HbH HtB]]]]].
  change (List.length (ha_init alg_md5)) with 4%nat in HlH.
  destruct (hs_h st) as [|h0 [|h1 [|h2 [|h3 [|h4 H]]]]] eqn:EH; try discriminate HlH.
  pose proof (gr_run m o off ob fi pt fr h0 h1 h2 h3 Hob Tob Hoff Hlen No1 Hh HbH) as E.
  set (m' := gr_mem m o off ob h0 h1 h2 h3 16) in *.
  assert (Ho' : mget m' o = Some (gr_obj off ob h0 h1 h2 h3 16)) by (apply gr_mem_o; assumption).
  assert (Hfr : forall x, x <> o -> mget m' x = mget m x) by (intros x Hx; apply gr_mem_other; exact Hx).
  exists {| mem := m'; loc := l; pre := ""; files := fi; ptrs := pt; fresh := fr |}.
  split.
  { unfold call. change ("md5hash" ++ "::getres/1")%string with "md5hash::getres/1". rewrite lk_getres.
    cbn [Src_md5.f_md5hash_getres_1 f_params bind_params bind mem loc pre files ptrs fresh].
    change (f_body _) with (f_body Src_md5.f_md5hash_getres_1).
    rewrite (exec_mono _ _ _ _ _ _ E fuel) by (unfold F_md5hash in Hfuel; lia).
    reflexivity. }
  cbn [mem].
  split.
  { exists (gr_obj off ob h0 h1 h2 h3 16). split; [exact Ho'|]. split; [reflexivity|]. split; [exact Hoff|].
    unfold gr_obj. cbn [o_cells]. change (ha_out alg_md5 [h0; h1; h2; h3]) with (flat_map le32_bytes [h0; h1; h2; h3]).
    change (firstn 16 (map Z.of_N (flat_map le32_bytes [h0; h1; h2; h3]))) with (map Z.of_N (flat_map le32_bytes [h0; h1; h2; h3])).
    change (List.length (flat_map le32_bytes [h0; h1; h2; h3])) with (List.length (map Z.of_N (flat_map le32_bytes [h0; h1; h2; h3]))).
    split; [apply firstn_skipn_upd_range; cbn [List.length map flat_map le32_bytes be32_bytes rev app]; lia|].
    rewrite upd_range_length. cbn [List.length map flat_map le32_bytes be32_bytes rev app]. lia. }
  split.
  { unfold hasher_ok, hasher_rep. rewrite EH.
    split; [split; rewrite Hfr by congruence; assumption|].
    split.
    { intros name ty n Hin. destruct (string_dec name o) as [->|Hne].
      - destruct (Hsc o ty n Hin) as [ob0 [Hob0 [T0 L0]]]. rewrite Hob in Hob0. injection Hob0 as <-.
        eexists. split; [exact Ho'|]. split; [cbn [gr_obj o_ty]; congruence|].
        cbn [gr_obj o_cells]. rewrite upd_range_length. exact L0.
      - rewrite Hfr by exact Hne. apply Hsc, Hin. }
    split; [intros k ob0 Hk; discriminate Hk|].
    repeat split; assumption. }
  split; [exact Hfr|].
  split.
  { intros ob0 ob' Hob0 Hob'. rewrite Hob in Hob0. injection Hob0 as <-. rewrite Ho' in Hob'. injection Hob' as <-.
    cbn [gr_obj o_ty o_cells]. split; [congruence|]. split; [apply upd_range_length|].
    intros i Hi. apply nth_upd_range_out; cbn [List.length map flat_map le32_bytes be32_bytes rev app firstn]; lia. }
  unfold same_io. cbn. repeat split; auto.
Qed.

End Res.

(* ==================== part fin ==================== *)
Lemma lset_lset_same : forall A (l : list (string * A)) k a b, lset (lset l k a) k b = lset l k b.
Proof.
  induction l as [|[k' o'] r IH]; intros k a b; cbn.
  - now rewrite String.eqb_refl.
  - destruct (String.eqb k k') eqn:E; cbn; rewrite ?String.eqb_refl, ?E; [reflexivity|]. now rewrite IH.
Qed.
Lemma skipn_repeat : forall (A : Type) (x : A) n k, skipn k (repeat x n) = repeat x (n - k).
Proof.
  intros A x. induction n as [|n IH]; intros [|k]; cbn [repeat skipn Nat.sub]; try reflexivity. apply IH.
Qed.
Lemma upd_nth_app : forall (a : list Z) v x r, upd_nth (List.length a) v (a ++ x :: r) = a ++ v :: r.
Proof. induction a as [|y a IH]; intros v x r; cbn; [reflexivity|]. now rewrite IH. Qed.
Lemma map_zeros : forall n, map Z.of_N (zeros n) = repeat 0 n.
Proof. intros n. unfold zeros. induction n; cbn; [reflexivity|]. now f_equal. Qed.

Definition final_temp (inp : list N) : list N := inp ++ [128%N] ++ zeros (63 - List.length inp).
Lemma final_temp_length : forall inp, (List.length inp < 64)%nat -> List.length (final_temp inp) = 64%nat.
Proof. intros inp H. unfold final_temp. rewrite !app_length, zeros_length. cbn [List.length]. lia. Qed.
Lemma bytes_app : forall a b, bytes a -> bytes b -> bytes (a ++ b).
Proof. intros a b Ha Hb. apply Forall_app. split; assumption. Qed.
Lemma bytes_firstn : forall n l, bytes l -> bytes (firstn n l).
Proof.
  induction n as [|n IH]; intros [|x l] H; cbn [firstn]; try constructor.
  - inversion H; assumption.
  - apply IH. inversion H; assumption.
Qed.
Lemma bytes_zeros : forall n, bytes (zeros n).
Proof. intros n. unfold zeros. induction n; cbn; constructor; [reflexivity|assumption]. Qed.
Lemma final_temp_bytes : forall inp, bytes inp -> bytes (final_temp inp).
Proof.
  intros inp H. unfold final_temp. apply bytes_app; [exact H|]. apply bytes_app; [|apply bytes_zeros].
  constructor; [reflexivity|constructor].
Qed.
Lemma bytes_bytesb : forall l, bytes l -> bytesb l = true.
Proof.
  induction l as [|x l IH]; intros H; [reflexivity|]. inversion H as [|? ? H1 H2]; subst.
  cbn. apply andb_true_iff. split; [apply N.ltb_lt; exact H1|apply IH; exact H2].
Qed.

Definition fin_pre8 : list stmt :=
  [SCall None "Hashmaster::addtotal/1" None [EVar "final_loadsize"];
   SSet "bitlen" (ELoad U64 (EField "totalsize"));
   SCallVirt (Some "$t1") "getblen/0" None [];
   SNew "temp" U8 (ECast U64 (EVar "$t1"));
   SCallVirt (Some "$t2") "getblen/0" None [];
   SMemset (EVar "temp") (EConst 0) (ECast U64 (EVar "$t2"));
   SMemcpy (EVar "temp") (EVar "input") (ECast U64 (EVar "final_loadsize"));
   SStore U8 (EPtrAdd (EVar "temp") 1 (EVar "final_loadsize")) (ECast U8 (EConst 128))].
Definition fin_then : stmt :=
  SSeq (SCallVirt None "getHash/1" None [EVar "temp"])
       (SSeq (SCallVirt (Some "$t3") "getblen/0" None []) (SMemset (EVar "temp") (EConst 0) (ECast U64 (EVar "$t3")))).
Definition fin_if : stmt := SIf (EBin TBool Ge (EVar "final_loadsize") (ECast U32 (EConst 56))) fin_then SSkip.
Definition fl_cond : expr := EBin TBool Lt (EVar "i") (EConst 8).
Definition fl_body : stmt :=
  SStore U8 (EPtrAdd (EVar "temp") 1 (EBin I32 Add (EConst 56) (EVar "i")))
            (ECast U8 (EBin U64 Shr (EVar "bitlen") (EBin I32 Shl (EVar "i") (EConst 3)))).
Definition fl_step : stmt := SSet "i" (EBin I32 Add (EVar "i") (EConst 1)).
Definition fin_tail : stmt :=
  SSeq (SSet "i" (EConst 0)) (SSeq (SLoop fl_cond fl_body fl_step)
       (SSeq (SCallVirt None "getHash/1" None [EVar "temp"]) (SDelete (EVar "temp")))).
Lemma body2_shape : f_body Src_md5.f_md5hash_getHash_2 = chain fin_pre8 (SSeq fin_if fin_tail).
Proof. reflexivity. Qed.

Section Fin.
Variable vt : list (string * string).
Hypothesis Hvt : lget vt "" = Some "md5hash".
Local Notation ex := (exec hash_prog vt).

Lemma exec_new : forall fuel x t n s,
  ex (S fuel) (SNew x t n) s =
  (do nv <- eval s n; do k <- as_int nv;
   if (k <? 0)%Z then UB "new[] of negative size" else
   Ok (Normal, {| mem := mset (mem s) (heap_name (fresh s)) {| o_ty := t; o_cells := repeat 0 (Z.to_nat k) |};
                  loc := lset (loc s) x (VPtr (heap_name (fresh s)) 0); pre := pre s; files := files s; ptrs := ptrs s; fresh := S (fresh s) |})).
Proof. reflexivity. Qed.

Lemma exec_getblen : forall fuel s x, pre s = "" ->
  ex (S (S fuel)) (SCallVirt (Some x) "getblen/0" None []) s = Ok (Normal, with_loc s (lset (loc s) x (VInt 64))).
Proof.
  intros fuel s x Hpre. destruct s as [m l p fi pt fr]. cbn [pre] in Hpre. subst p.
  erewrite exec_scallvirt; [|reflexivity|exact Hvt|exact lk_getblen|reflexivity].
  reflexivity.
Qed.

(* getHash(temp): the virtual call, from the body lemma *)
Lemma exec_call_g1 : forall fuel s e o off blk H t,
  pre s = "" -> eval s e = Ok (VPtr o off) -> g1_pre (mem s) H t ->
  o <> "s" -> o <> "h" -> o <> "totalsize" ->
  bytes_at (mem s) o off blk -> List.length blk = 64%nat -> bytesb blk = true -> (F1 <= fuel)%nat ->
  exists m',
    ex (S fuel) (SCallVirt None "getHash/1" None [e]) s = Ok (Normal, with_mem s m') /\
    mget m' "h" = Some (u32_obj (m_md5_block H blk)) /\
    mget m' "totalsize" = Some (u64_cell (tot_add t 64)) /\
    mget m' "s" = Some (bytes_object blk) /\
    (forall k, k <> "s" -> k <> "h" -> k <> "totalsize" -> mget m' k = mget (mem s) k).
Proof.
  intros fuel s e o off blk H t Hpre He Hg N1 N2 N3 Hat Hl Hby Hf.
  destruct s as [m l p fi pt fr]. cbn [pre mem] in *. subst p.
  destruct (g1_body vt m fi pt fr o off blk H t Hg N1 N2 N3 Hat Hl Hby) as [s' [E [Efi [Ept [Efr [Hh [Ht [Hs Hfr]]]]]]]].
  exists (mem s'). split; [|auto].
  erewrite exec_scallvirt; [|cbn [eval_list]; rewrite He; reflexivity|exact Hvt|exact lk_getHash1|reflexivity].
  cbn [mem loc pre files ptrs fresh].
  rewrite (exec_mono _ _ _ _ _ _ E fuel Hf). cbn [bind set_ret]. rewrite Efi, Ept, Efr. reflexivity.
Qed.

Lemma phaseA : forall fuel rest m fi pt fr o off inp t ob,
  mget m "totalsize" = Some (u64_cell t) -> mget m o = Some ob -> o_ty ob = U8 -> 0 <= off ->
  firstn (List.length inp) (skipn (Z.to_nat off) (o_cells ob)) = map Z.of_N inp ->
  (Z.to_nat off + List.length inp <= List.length (o_cells ob))%nat -> (List.length inp < 64)%nat ->
  o <> "totalsize" -> o <> heap_name fr ->
  ex (S (S (S (S (S (S (S (S (S (S fuel)))))))))) (chain fin_pre8 rest)
     {| mem := m; loc := [("input", VPtr o off); ("final_loadsize", VInt (Z.of_N (N.of_nat (List.length inp))))];
        pre := ""; files := fi; ptrs := pt; fresh := fr |} =
  ex (S (S fuel)) rest
     {| mem := mset (mset m "totalsize" (u64_cell (tot_add t (N.of_nat (List.length inp)))))
                    (heap_name fr) {| o_ty := U8; o_cells := map Z.of_N (final_temp inp) |};
        loc := [("input", VPtr o off); ("final_loadsize", VInt (Z.of_N (N.of_nat (List.length inp))));
                ("bitlen", VInt (Z.of_N (tot_add t (N.of_nat (List.length inp))))); ("$t1", VInt 64);
                ("temp", VPtr (heap_name fr) 0); ("$t2", VInt 64)];
        pre := ""; files := fi; ptrs := pt; fresh := S fr |}.
Proof.
  intros fuel rest m fi pt fr o off inp t ob Ht Hob Tob Hoff Hcells Hlen Hfl No1 No2.
  set (fl := List.length inp) in *. set (t1 := tot_add t (N.of_nat fl)). set (tn := heap_name fr) in *.
  unfold fin_pre8. cbn [chain].
  (* addtotal *)
  erewrite exec_seq_normal; [|apply (exec_addtotal _ _ _ _ (N.of_nat fl) t); [reflexivity|reflexivity|exact Ht]].
  unfold with_mem. cbn [mem loc pre files ptrs fresh]. fold t1.
  (* bitlen *)
  erewrite exec_seq_normal;
    [|rewrite exec_set; ev; rewrite mget_mset_same;
      change (load_obj (u64_cell t1) U64 0) with (Ok (wrap U64 (Z.of_N t1))); ev; reflexivity].
  assert (Bt1 : 0 <= Z.of_N t1 < 2 ^ 64).
  { unfold t1, tot_add. pose proof (N.mod_lt (t + (N.of_nat fl * 8) mod w32) (2 ^ totalsize_bits) ltac:(discriminate)) as B.
    change (2 ^ totalsize_bits)%N with 18446744073709551616%N in *. change (2 ^ 64) with 18446744073709551616. lia. }
  rewrite (wrap_U64_small _ Bt1).
  unfold with_loc. cbn [mem loc pre files ptrs fresh].
  (* getblen, new *)
  erewrite exec_seq_normal; [|apply exec_getblen; reflexivity].
  unfold with_loc. cbn [mem loc pre files ptrs fresh lset String.eqb Ascii.eqb Bool.eqb].
  erewrite exec_seq_normal; [|rewrite exec_new; ev; change (wrap U64 64) with 64; reflexivity].
  cbn [mem loc pre files ptrs fresh lset String.eqb Ascii.eqb Bool.eqb]. fold tn. change (Z.to_nat 64) with 64%nat.
  erewrite exec_seq_normal; [|apply exec_getblen; reflexivity].
  unfold with_loc. cbn [mem loc pre files ptrs fresh lset String.eqb Ascii.eqb Bool.eqb].
  (* memset *)
  erewrite exec_seq_normal;
    [|rewrite exec_memset; ev; change (wrap U64 64) with 64;
      erewrite memset_u8; [reflexivity|apply mget_mset_same|reflexivity|lia|cbn [o_cells]; rewrite repeat_length; lia]].
  unfold with_mem. cbn [mem loc pre files ptrs fresh o_cells]. rewrite mset_mset_same.
  change (Z.to_nat 64) with 64%nat. rewrite upd_range_full by (rewrite !repeat_length; reflexivity).
  (* memcpy *)
  assert (Bfl : 0 <= Z.of_N (N.of_nat fl) < 64) by lia.
  erewrite exec_seq_normal;
    [|rewrite exec_memcpy; ev; rewrite wrap_U64_small by (change (2 ^ 64) with 18446744073709551616; lia);
      erewrite (memcpy_u8 _ tn 0 o off);
        [reflexivity|apply mget_mset_same|cbn [mem]; rewrite !mget_mset_other by congruence; exact Hob
        |reflexivity|exact Tob|lia|lia|exact Hoff|lia|cbn [o_cells]; rewrite repeat_length; lia]].
  unfold with_mem. cbn [mem loc pre files ptrs fresh o_cells]. rewrite mset_mset_same.
  replace (Z.to_nat (Z.of_N (N.of_nat fl))) with fl by lia. change (Z.to_nat 0) with 0%nat. rewrite Hcells.
  rewrite upd_range_at by (rewrite map_length, repeat_length; fold fl; lia).
  cbn [firstn app Nat.add]. rewrite map_length. fold fl. rewrite skipn_repeat.
  (* store 0x80 *)
  erewrite exec_seq_normal;
    [|cbn [exec]; ev; rewrite mget_mset_same;
      rewrite store_u8 by (try reflexivity; cbn [o_cells]; rewrite app_length, map_length, repeat_length; fold fl; lia);
      ev; reflexivity].
  unfold with_mem. cbn [mem loc pre files ptrs fresh o_cells]. rewrite mset_mset_same.
  replace (Z.to_nat (0 + Z.of_N (N.of_nat fl) * 1)) with (List.length (map Z.of_N inp)) by (rewrite map_length; fold fl; lia).
  replace (64 - fl)%nat with (S (63 - fl)) by lia. cbn [repeat]. rewrite upd_nth_app.
  change (wrap U8 (wrap U8 128)) with 128.
  replace (map Z.of_N inp ++ 128 :: repeat 0 (63 - fl)) with (map Z.of_N (final_temp inp)); [reflexivity|].
  unfold final_temp. rewrite !map_app, map_zeros. reflexivity.
Qed.

Lemma len_byte : forall bl k, (k < 8)%nat ->
  wrap U8 (Z.shiftr (Z.of_N bl) (Z.shiftl (Z.of_nat k) 3)) = nth k (map Z.of_N (le64_bytes bl)) 0.
Proof.
  intros bl k Hk. rewrite wrap_U8_mod.
  do 8 (destruct k as [|k]; [cbn [le64_bytes map nth]; rewrite of_N_mod by discriminate; rewrite of_N_shiftr; reflexivity|]).
  lia.
Qed.

Section Tail.
Variables (m : memory) (L : list (string * value)) (fi : list (string * cfile)) (pt : list (string * value)) (fr : nat).
Variables (tn : string) (bl : N) (tempB : list N).
Let lenZ := map Z.of_N (le64_bytes bl).
Hypothesis Htemp : lget L "temp" = Some (VPtr tn 0).
Hypothesis Hbl : lget L "bitlen" = Some (VInt (Z.of_N bl)).
Hypothesis Htn : mget m tn = Some {| o_ty := U8; o_cells := map Z.of_N tempB |}.
Hypothesis HlB : List.length tempB = 64%nat.

Definition c_obj (k : nat) : object := {| o_ty := U8; o_cells := upd_range 56 (firstn k lenZ) (map Z.of_N tempB) |}.
Fixpoint c_mem (k : nat) : memory := match k with O => m | S k' => mset (c_mem k') tn (c_obj (S k')) end.
Definition c_state (k : nat) : state :=
  {| mem := c_mem k; loc := lset L "i" (VInt (Z.of_nat k)); pre := ""; files := fi; ptrs := pt; fresh := fr |}.

Lemma c_mem_tn : forall k, mget (c_mem k) tn = Some (c_obj k).
Proof. intros [|k]; cbn [c_mem]; [exact Htn|apply mget_mset_same]. Qed.
Lemma c_mem_other : forall k x, x <> tn -> mget (c_mem k) x = mget m x.
Proof.
  induction k as [|k IH]; intros x Hx; cbn [c_mem]; [reflexivity|].
  rewrite mget_mset_other by congruence. apply IH, Hx.
Qed.

Lemma c_iter : forall k, (k < 8)%nat ->
  exists x, eval (c_state k) fl_cond = Ok (VInt x) /\ x <> 0 /\
  exists s1, ex 1 fl_body (c_state k) = Ok (Normal, s1) /\ ex 1 fl_step s1 = Ok (Normal, c_state (S k)).
Proof.
  intros k Hk. exists 1. split.
  { unfold fl_cond, c_state. cbn [eval loc]. rewrite lget_lset_same. cbn [bind as_int]. unfold eval_bin.
    destruct (Z.ltb_spec (Z.of_nat k) 8); [reflexivity|lia]. }
  split; [discriminate|].
  eexists. split.
  - unfold fl_body, c_state. cbn [exec eval loc mem pre]. rewrite lget_lset_same.
    rewrite !lget_lset_other by discriminate. rewrite Htemp, Hbl. cbn [bind as_int].
    change (eval_bin I32 Add 56 (Z.of_nat k)) with (arith I32 (56 + Z.of_nat k)).
    rewrite arith_I32_small by (change (2 ^ 31) with 2147483648; lia). cbn [bind as_int].
    assert (Es : Z.shiftl (Z.of_nat k) 3 = 8 * Z.of_nat k).
    { rewrite Z.shiftl_mul_pow2 by lia. change (2 ^ 3) with 8. lia. }
    rewrite shl_i32 by (rewrite ?Es; change (2 ^ 31) with 2147483648; lia). cbn [bind as_int].
    rewrite shr_u64 by (rewrite Es; lia). cbn [bind as_int].
    rewrite c_mem_tn.
    rewrite store_u8 by (try reflexivity; cbn [c_obj o_cells]; rewrite upd_range_length, map_length, HlB; lia).
    cbn [bind]. rewrite wrap_U8_idem, len_byte by exact Hk. fold lenZ. reflexivity.
  - unfold fl_step, with_mem. cbn [exec eval mem loc pre files ptrs fresh]. rewrite lget_lset_same. cbn [bind as_int].
    change (eval_bin I32 Add (Z.of_nat k) 1) with (arith I32 (Z.of_nat k + 1)).
    rewrite arith_I32_small by (change (2 ^ 31) with 2147483648; lia). cbn [bind].
    unfold c_state, with_loc. cbn [c_mem mem loc pre files ptrs fresh]. rewrite lset_lset_same. repeat f_equal.
    + unfold c_obj. cbn [o_cells]. f_equal.
      rewrite (firstn_S_nth lenZ k 0) by (unfold lenZ; cbn [le64_bytes map List.length]; lia).
      rewrite upd_range_snoc. rewrite firstn_length.
      replace (Nat.min k (List.length lenZ)) with k by (unfold lenZ; cbn [le64_bytes map List.length]; lia).
      f_equal. lia.
    + lia.
Qed.

Lemma c_end : eval (c_state 8) fl_cond = Ok (VInt 0).
Proof. unfold fl_cond, c_state. cbn [eval loc]. rewrite lget_lset_same. reflexivity. Qed.

Lemma c_loop : ex 10 (SLoop fl_cond fl_body fl_step) (c_state 0) = Ok (Normal, c_state 8).
Proof. exact (loop_count hash_prog vt fl_cond fl_body fl_step c_state 8 1 c_iter c_end 0%nat ltac:(lia)). Qed.

Lemma c_final_cells : o_cells (c_obj 8) = map Z.of_N (firstn 56 tempB ++ le64_bytes bl).
Proof.
  unfold c_obj. cbn [o_cells]. change (firstn 8 lenZ) with lenZ.
  rewrite upd_range_at by (rewrite map_length, HlB; unfold lenZ; cbn [le64_bytes map List.length]; lia).
  rewrite (skipn_all2 (map Z.of_N tempB)) by (rewrite map_length, HlB; unfold lenZ; cbn [le64_bytes map List.length]; lia).
  rewrite app_nil_r, map_app, firstn_map. reflexivity.
Qed.
End Tail.

Lemma exec_delete : forall fuel p s v, eval s p = Ok v -> ex (S fuel) (SDelete p) s = Ok (Normal, s).
Proof. intros fuel p s v H. cbn [exec]. rewrite H. reflexivity. Qed.

Lemma phaseCD : forall fuel m L fi pt fr tn bl tempB H t,
  lget L "temp" = Some (VPtr tn 0) -> lget L "bitlen" = Some (VInt (Z.of_N bl)) ->
  mget m tn = Some {| o_ty := U8; o_cells := map Z.of_N tempB |} -> List.length tempB = 64%nat -> bytes tempB ->
  g1_pre m H t -> tn <> "s" -> tn <> "h" -> tn <> "totalsize" -> (F1 + 13 <= fuel)%nat ->
  let blk := firstn 56 tempB ++ le64_bytes bl in
  exists s',
    ex fuel fin_tail {| mem := m; loc := L; pre := ""; files := fi; ptrs := pt; fresh := fr |} = Ok (Normal, s') /\
    files s' = fi /\ ptrs s' = pt /\ fresh s' = fr /\
    mget (mem s') "h" = Some (u32_obj (m_md5_block H blk)) /\
    mget (mem s') "totalsize" = Some (u64_cell (tot_add t 64)) /\
    mget (mem s') "s" = Some (bytes_object blk) /\ List.length blk = 64%nat /\
    (forall k, k <> "s" -> k <> "h" -> k <> "totalsize" -> k <> tn -> mget (mem s') k = mget m k).
Proof.
  intros fuel m L fi pt fr tn bl tempB H t Htemp Hbl Htn HlB HbB Hg N1 N2 N3 Hf blk.
  assert (Lblk : List.length blk = 64%nat).
  { unfold blk. rewrite app_length, firstn_length, HlB. reflexivity. }
  assert (Bblk : bytes blk).
  { unfold blk. apply bytes_app.
    - apply bytes_firstn, HbB.
    - unfold le64_bytes. apply Forall_forall. intros x Hx. apply in_map_iff in Hx. destruct Hx as [i [<- _]].
      apply N.mod_lt. discriminate. }
  destruct Hg as [Hh [HlH [HbH [Ht [so [Hs Sso]]]]]].
  set (m8 := c_mem m tn bl tempB 8).
  assert (Hat : bytes_at m8 tn 0 blk).
  { exists (c_obj bl tempB 8). split; [apply c_mem_tn; exact Htn|]. split; [reflexivity|]. split; [lia|].
    rewrite (c_final_cells bl tempB HlB). fold blk. change (Z.to_nat 0) with 0%nat. cbn [skipn].
    rewrite map_length. split; [|lia]. rewrite <- (map_length Z.of_N blk). apply firstn_all. }
  assert (Hg8 : g1_pre m8 H t).
  { unfold g1_pre, m8. rewrite !c_mem_other by congruence. repeat split; try assumption. exists so. split; assumption. }
  destruct (exec_call_g1 (fuel - 4) {| mem := m8; loc := lset L "i" (VInt (Z.of_nat 8)); pre := ""; files := fi; ptrs := pt; fresh := fr |}
              (EVar "temp") tn 0 blk H t eq_refl) as [m' [E [Hh' [Ht' [Hs' Hfr']]]]]; try assumption.
  { cbn [eval loc]. rewrite lget_lset_other by discriminate. rewrite Htemp. reflexivity. }
  { apply bytes_bytesb, Bblk. }
  { lia. }
  do 4 (destruct fuel as [|fuel]; [lia|]).
  replace (S (S (S (S fuel))) - 4)%nat with fuel in E by lia.
  exists {| mem := m'; loc := lset L "i" (VInt (Z.of_nat 8)); pre := ""; files := fi; ptrs := pt; fresh := fr |}.
  split.
  { unfold fin_tail.
    erewrite exec_seq_normal; [|rewrite exec_set; reflexivity].
    unfold with_loc. cbn [mem loc pre files ptrs fresh].
    erewrite exec_seq_normal;
      [|apply (exec_mono _ _ _ _ _ _ (c_loop m L fi pt fr tn bl tempB Htemp Hbl Htn HlB)); lia].
    erewrite exec_seq_normal; [|exact E].
    unfold with_mem. cbn [mem loc pre files ptrs fresh].
    eapply exec_delete. cbn [eval loc]. rewrite lget_lset_other by discriminate. rewrite Htemp. reflexivity. }
  cbn [mem files ptrs fresh]. repeat split; try assumption.
  intros k K1 K2 K3 K4. rewrite Hfr' by assumption. cbn [mem]. unfold m8. apply c_mem_other. exact K4.
Qed.

Lemma getHash_block_md5 : forall X blk,
  getHash_block alg_md5 X blk = {| hs_h := m_md5_block (hs_h X) blk; hs_total := tot_add (hs_total X) 64 |}.
Proof. reflexivity. Qed.

Lemma final_model : forall st inp,
  getHash_final alg_md5 st inp =
  let st1 := addtotal st (N.of_nat (List.length inp)) in
  if (56 <=? List.length inp)%nat
  then getHash_block alg_md5 (getHash_block alg_md5 st1 (final_temp inp)) (firstn 56 (zeros 64) ++ le64_bytes (hs_total st1))
  else getHash_block alg_md5 st1 (firstn 56 (final_temp inp) ++ le64_bytes (hs_total st1)).
Proof.
  intros st inp. unfold getHash_final. cbv zeta.
  change (N.to_nat (nth 0 (ha_final alg_md5) 0%N)) with 56%nat.
  change (N.to_nat (nth 1 (ha_final alg_md5) 0%N)) with 56%nat.
  change (nth 2 (ha_final alg_md5) 0 =? 0)%N with false. cbv iota.
  fold (final_temp inp). destruct (56 <=? List.length inp)%nat; reflexivity.
Qed.

Lemma exec_fin_if : forall fuel s x, lget (loc s) "final_loadsize" = Some (VInt x) ->
  ex (S (S fuel)) fin_if s = if (56 <=? x)%Z then ex (S fuel) fin_then s else Ok (Normal, s).
Proof.
  intros fuel s x H. unfold fin_if. rewrite exec_if. cbn [eval]. rewrite H. cbn [bind as_int].
  change (wrap U32 56) with 56. unfold eval_bin. cbn [bind as_int].
  destruct (56 <=? x)%Z; reflexivity.
Qed.

Lemma F1_val : F1 = 204%nat.
Proof. vm_compute. reflexivity. Qed.

Lemma md5_spec_final : spec_final "md5hash" alg_md5 Src_md5.objects_md5hash Src_md5.globals vt F_md5hash.
Proof.
  intros s st fuel o off inp Hfuel Hpre Hok Hown Hat Hfl Hby.
  destruct (passable_names _ o Hown) as [No1 [No2 [No3 No4]]].
  destruct s as [m l p fi pt fr]. cbn [pre mem fresh] in *. subst p.
  destruct Hat as [ob [Hob [Tob [Hoff [Hcells Hlen]]]]].
  pose proof (ok_g1_pre st m Hok) as Hg.
  destruct Hok as [[Hh Ht] [Hsc [_ [HlH [HbH HtB]]]]].
  change (List.length (ha_init alg_md5)) with 4%nat in HlH.
  apply bytesb_bytes in Hby.
  set (fl := List.length inp) in *. set (tn := heap_name fr) in *.
  set (t1 := tot_add (hs_total st) (N.of_nat fl)).
  set (mA := mset (mset m "totalsize" (u64_cell t1)) tn {| o_ty := U8; o_cells := map Z.of_N (final_temp inp) |}).
  set (LA := [("input", VPtr o off); ("final_loadsize", VInt (Z.of_N (N.of_nat fl)));
              ("bitlen", VInt (Z.of_N t1)); ("$t1", VInt 64); ("temp", VPtr tn 0); ("$t2", VInt 64)]).
  assert (Bt1 : (t1 < 2 ^ 64)%N) by (unfold t1, tot_add; apply N.mod_lt; discriminate).
  assert (TN : tn <> "s" /\ tn <> "h" /\ tn <> "totalsize" /\ tn <> "hashblock") by (repeat split; discriminate).
  destruct TN as [T1 [T2 [T3 T4]]].
  assert (HgA : g1_pre mA (hs_h st) t1).
  { destruct Hg as [G1 [G2 [G3 [G4 [so [G5 G6]]]]]]. unfold g1_pre, mA.
    repeat split; try assumption.
    - rewrite !mget_mset_other by (discriminate || congruence). exact G1.
    - rewrite mget_mset_other by congruence. apply mget_mset_same.
    - exists so. rewrite !mget_mset_other by (discriminate || congruence). split; assumption. }
  assert (HtnA : mget mA tn = Some {| o_ty := U8; o_cells := map Z.of_N (final_temp inp) |}) by apply mget_mset_same.
  (* the rest of the body after the first eight statements, from the state sA *)
  assert (REST : exists s',
    ex 252 (SSeq fin_if fin_tail) {| mem := mA; loc := LA; pre := ""; files := fi; ptrs := pt; fresh := S fr |} = Ok (Normal, s') /\
    files s' = fi /\ ptrs s' = pt /\ fresh s' = S fr /\
    md5_ok (getHash_final alg_md5 st inp) (mem s') /\
    (forall k, k <> "s" -> k <> "h" -> k <> "totalsize" -> k <> tn -> mget (mem s') k = mget m k)).
  { rewrite final_model. cbv zeta. fold fl.
    change (addtotal st (N.of_nat fl)) with {| hs_h := hs_h st; hs_total := t1 |}. cbn [hs_total].
    destruct (Nat.leb_spec 56 fl) as [Hge|Hlt].
    - (* two blocks *)
      destruct (exec_call_g1 240 {| mem := mA; loc := LA; pre := ""; files := fi; ptrs := pt; fresh := S fr |}
                  (EVar "temp") tn 0 (final_temp inp) (hs_h st) t1 eq_refl eq_refl HgA T1 T2 T3)
        as [m1 [E1 [Hh1 [Ht1 [Hs1 Hfr1]]]]].
      { eexists. split; [exact HtnA|]. split; [reflexivity|]. split; [lia|]. change (Z.to_nat 0) with 0%nat. cbn [skipn o_cells].
        rewrite map_length. split; [|lia]. rewrite <- (map_length Z.of_N (final_temp inp)). apply firstn_all. }
      { apply final_temp_length. exact Hfl. }
      { apply bytes_bytesb, final_temp_bytes, Hby. }
      { pose proof F1_val. lia. }
      cbn [mem] in Hfr1.
      set (blk1 := final_temp inp) in *.
      set (m2 := mset m1 tn {| o_ty := U8; o_cells := map Z.of_N (zeros 64) |}).
      assert (L1 : List.length (m_md5_block (hs_h st) blk1) = 4%nat) by (apply (len_ok_md5 (hs_h st) blk1); exact HlH).
      destruct (phaseCD 240 m2 (lset LA "$t3" (VInt 64)) fi pt (S fr) tn t1 (zeros 64) (m_md5_block (hs_h st) blk1) (tot_add t1 64))
        as [s' [E2 [Efi [Ept [Efr [Hh2 [Ht2 [Hs2 [Lb2 Hfr2]]]]]]]]]; try assumption; try reflexivity.
      { apply mget_mset_same. }
      { apply bytes_zeros. }
      { unfold g1_pre, m2. rewrite !mget_mset_other by congruence.
        repeat split; try assumption; [apply map2_add32_lt|].
        eexists. split; [exact Hs1|]. split; [reflexivity|]. cbn [bytes_object o_cells]. rewrite map_length.
        unfold blk1. rewrite final_temp_length by exact Hfl. reflexivity. }
      { pose proof F1_val. lia. }
      exists s'. split.
      { erewrite exec_seq_normal; [|rewrite (exec_fin_if _ _ (Z.of_N (N.of_nat fl))) by reflexivity;
          destruct (Z.leb_spec 56 (Z.of_N (N.of_nat fl))) as [_|C]; [|lia];
          unfold fin_then; erewrite exec_seq_normal; [|apply (exec_mono _ _ _ _ _ _ E1); lia]].
        2:{ unfold with_mem. cbn [mem loc pre files ptrs fresh].
            erewrite exec_seq_normal; [|apply exec_getblen; reflexivity].
            unfold with_loc. cbn [mem loc pre files ptrs fresh].
            rewrite exec_memset. cbn [eval loc]. rewrite lget_lset_same.
            rewrite lget_lset_other by discriminate. unfold LA at 1. cbn [lget String.eqb Ascii.eqb Bool.eqb bind as_int].
            change (wrap U64 64) with 64.
            erewrite memset_u8; [reflexivity|cbn [mem]; rewrite Hfr1 by assumption; exact HtnA|reflexivity|lia
                                |cbn [o_cells]; rewrite map_length; unfold blk1; rewrite final_temp_length by exact Hfl; lia]. }
        unfold with_mem. cbn [mem loc pre files ptrs fresh o_cells].
        change (Z.to_nat 64) with 64%nat.
        rewrite upd_range_full by (rewrite repeat_length, map_length; unfold blk1; rewrite final_temp_length by exact Hfl; reflexivity).
        rewrite <- map_zeros. apply (exec_mono _ _ _ _ _ _ E2). lia. }
      split; [exact Efi|]. split; [exact Ept|]. split; [exact Efr|].
      split.
      { rewrite !getHash_block_md5. cbn [hs_h hs_total].
        apply (g1_post_ok m (mem s')); try assumption.
        - unfold tot_add. apply N.mod_lt. discriminate.
        - rewrite Hfr2 by (discriminate || congruence). unfold m2. rewrite mget_mset_other by congruence.
          rewrite Hfr1 by discriminate. unfold mA. rewrite !mget_mset_other by (discriminate || congruence). reflexivity. }
      intros k K1 K2 K3 K4. rewrite Hfr2 by assumption. unfold m2. rewrite mget_mset_other by congruence.
      rewrite Hfr1 by assumption. unfold mA. rewrite !mget_mset_other by congruence. reflexivity.
    - (* one block *)
      destruct (phaseCD 240 mA LA fi pt (S fr) tn t1 (final_temp inp) (hs_h st) t1)
        as [s' [E2 [Efi [Ept [Efr [Hh2 [Ht2 [Hs2 [Lb2 Hfr2]]]]]]]]]; try assumption; try reflexivity.
      { apply final_temp_length. exact Hfl. }
      { apply final_temp_bytes, Hby. }
      { pose proof F1_val. lia. }
      exists s'. split.
      { erewrite exec_seq_normal; [apply (exec_mono _ _ _ _ _ _ E2); lia|]. rewrite (exec_fin_if _ _ (Z.of_N (N.of_nat fl))) by reflexivity.
        destruct (Z.leb_spec 56 (Z.of_N (N.of_nat fl))) as [C|_]; [lia|]. reflexivity. }
      split; [exact Efi|]. split; [exact Ept|]. split; [exact Efr|].
      split.
      { rewrite getHash_block_md5. cbn [hs_h hs_total].
        apply (g1_post_ok m (mem s')); try assumption.
        rewrite Hfr2 by (discriminate || congruence). unfold mA. rewrite !mget_mset_other by (discriminate || congruence). reflexivity. }
      intros k K1 K2 K3 K4. rewrite Hfr2 by assumption. unfold mA. rewrite !mget_mset_other by congruence. reflexivity. }
  destruct REST as [s' [E [Efi [Ept [Efr [Hok' Hfr]]]]]].
  exists {| mem := mem s'; loc := l; pre := ""; files := fi; ptrs := pt; fresh := S fr |}.
  split.
  { unfold call. change ("md5hash" ++ "::getHash/2")%string with "md5hash::getHash/2". rewrite lk_getHash2.
    cbn [Src_md5.f_md5hash_getHash_2 f_params bind_params bind mem loc pre files ptrs fresh].
    change (f_body _) with (f_body Src_md5.f_md5hash_getHash_2).
    assert (E0 : ex F_md5hash (f_body Src_md5.f_md5hash_getHash_2)
                   {| mem := m; loc := [("input", VPtr o off); ("final_loadsize", VInt (Z.of_nat fl))]; pre := ""; files := fi; ptrs := pt; fresh := fr |}
                 = Ok (Normal, s')).
    { rewrite body2_shape. rewrite <- (nat_N_Z fl). unfold F_md5hash.
      etransitivity; [|exact E].
      exact (phaseA 250 (SSeq fin_if fin_tail) m fi pt fr o off inp (hs_total st) ob Ht Hob Tob Hoff Hcells Hlen Hfl No2 No4). }
    rewrite (exec_mono _ _ _ _ _ _ E0 fuel Hfuel). cbn [bind]. rewrite Efi, Ept, Efr. reflexivity. }
  cbn [mem]. split; [exact Hok'|].
  split.
  { intros k Hk. destruct (hash_owned_false k Hk) as [K1 [K2 [K3 K4]]]. apply Hfr; try assumption.
    intros ->. unfold tn in K4. rewrite heap_name_prefix in K4. discriminate. }
  split.
  { intros n Hn. cbn [mem fresh] in *. apply Hfr; try discriminate. intro E1. apply heap_name_inj in E1. lia. }
  unfold same_io. cbn. repeat split; auto.
Qed.
End Fin.

(* ==================== the class specification ==================== *)
Lemma md5hash_class_spec : forall vt, lget vt "" = Some "md5hash"%string ->
  class_spec "md5hash" alg_md5 Src_md5.objects_md5hash Src_md5.globals vt F_md5hash.
Proof.
  intros vt Hvt. constructor.
  - apply md5_spec_reset.
  - apply md5_spec_block.
  - apply md5_spec_final. exact Hvt.
  - apply md5_spec_getres.
  - exact Hvt.
Qed.
Print Assumptions md5hash_class_spec.

(* non-vacuity: a memory satisfying the precondition of every method specification *)
Example md5_ok_example :
  hasher_ok alg_md5 Src_md5.objects_md5hash Src_md5.globals (reset alg_md5)
    (mset (mset (mk_objects "" Src_md5.objects_md5hash) "h" (u32_obj md5_iv)) "totalsize" (u64_cell 0)).
Proof.
  unfold hasher_ok. split; [split; reflexivity|]. split.
  { intros name ty n Hin. cbn in Hin. destruct Hin as [E|[E|[E|[E|[]]]]]; inversion E; subst; eexists; (split; [reflexivity|split; reflexivity]). }
  split; [intros k ob Hk; discriminate Hk|]. split; [reflexivity|]. split; [repeat constructor|reflexivity].
Qed.

Example md5_vt_example : lget [("", "md5hash")] "" = Some "md5hash".
Proof. reflexivity. Qed.

(* the fuel bound on a concrete run: getHash("abc", 3) then getres, against the model *)
Example md5_run_example :
  let m0 := mset (mset (mk_objects "" Src_md5.objects_md5hash) "h" (u32_obj md5_iv)) "totalsize" (u64_cell 0)
            ++ [("msg", bytes_object [97; 98; 99]%N); ("out", mk_object U8 16)] in
  match call hash_prog [("", "md5hash")] F_md5hash "md5hash::getHash/2" "" [VPtr "msg" 0; VInt 3] (init_state m0) with
  | Ok (None, s1) =>
      match call hash_prog [("", "md5hash")] F_md5hash "md5hash::getres/1" "" [VPtr "out" 0] s1 with
      | Ok (None, s2) => get_bytes s2 "out" = Some (getStringHash alg_md5 [97; 98; 99]%N)
      | _ => False
      end
  | _ => False
  end.
Proof. vm_compute. reflexivity. Qed.
