(* Helper library for RefineSha1.v: composition rules for MiniC executions (explicit fuel,
   combined with exec_mono), evaluation rules used by the [ev] tactic, memcpy/memset on the
   shapes that occur in sha1.cpp, and the bridge between the Z arithmetic of MiniC and the N
   arithmetic of the model (32-bit words). *)
From Coq Require Import ZArith NArith List String Bool Lia.
From Wencry Require Import Bytes HashModel MiniC MiniCLemmas MiniCRun SrcRun RefineHashDefs.
Import ListNotations.
Local Open Scope string_scope.
Local Open Scope list_scope.
Local Open Scope Z_scope.

Notation ST m l fs ps fr := {| mem := m; loc := l; pre := ""; files := fs; ptrs := ps; fresh := fr |}.

(* ------------------------------------------------------------------ *)
(* composition rules                                                   *)
(* ------------------------------------------------------------------ *)
Section ExecRules.
Variable prog : program.
Variable vt : list (string * string).
Notation exec := (MiniC.exec prog vt).

Lemma seq_ok : forall f1 f2 f a b s s1 r,
  exec f1 a s = Ok (Normal, s1) -> exec f2 b s1 = Ok r -> (f1 < f)%nat -> (f2 < f)%nat ->
  exec f (SSeq a b) s = Ok r.
Proof.
  intros f1 f2 f a b s s1 r H H0 L1 L2. destruct f as [|f]; [lia|]. rewrite exec_seq.
  rewrite (exec_mono prog vt _ _ _ _ H f ltac:(lia)). cbn [bind].
  apply (exec_mono prog vt _ _ _ _ H0). lia.
Qed.

Lemma skip_ok : forall f s, (0 < f)%nat -> exec f SSkip s = Ok (Normal, s).
Proof. intros f s L. destruct f; [lia|]. reflexivity. Qed.

Lemma set_ok : forall f x e s v, eval s e = Ok v -> (0 < f)%nat ->
  exec f (SSet x e) s = Ok (Normal, with_loc s (lset (loc s) x v)).
Proof. intros f x e s v H L. destruct f; [lia|]. rewrite exec_set, H. reflexivity. Qed.

Lemma store_ok : forall f t p e s o off z ob ob',
  eval s p = Ok (VPtr o off) -> eval s e = Ok (VInt z) -> mget (mem s) o = Some ob ->
  store_obj ob t off z = Ok ob' -> (0 < f)%nat ->
  exec f (SStore t p e) s = Ok (Normal, with_mem s (mset (mem s) o ob')).
Proof.
  intros f t p e s o off z ob ob' H H0 H1 H2 L. destruct f; [lia|]. cbn [MiniC.exec].
  rewrite H, H0. cbn [bind as_int]. rewrite H1, H2. reflexivity.
Qed.

Lemma if_ok : forall f f1 c a b s x r, eval s c = Ok (VInt x) ->
  exec f1 (if x =? 0 then b else a) s = Ok r -> (f1 < f)%nat -> exec f (SIf c a b) s = Ok r.
Proof.
  intros f f1 c a b s x r H H0 L. destruct f; [lia|]. rewrite exec_if, H. cbn [bind as_int].
  destruct (x =? 0); apply (exec_mono prog vt _ _ _ _ H0); lia.
Qed.

Lemma loop_inv : forall c body step (Inv : nat -> state -> Prop) (n F : nat),
  (forall k s, (k < n)%nat -> Inv k s ->
     exists x, eval s c = Ok (VInt x) /\ x <> 0 /\
     exists s1 s2, exec F body s = Ok (Normal, s1) /\ exec F step s1 = Ok (Normal, s2) /\ Inv (S k) s2) ->
  (forall s, Inv n s -> eval s c = Ok (VInt 0)) ->
  forall d k s, (k + d = n)%nat -> Inv k s ->
    exists s', exec (S (F + d)) (SLoop c body step) s = Ok (Normal, s') /\ Inv n s'.
Proof.
  intros c body step Inv n F Hit Hend. induction d as [|d IH]; intros k s Hk HI.
  - assert (k = n) by lia. subst k. exists s. split; auto. rewrite exec_loop, (Hend _ HI). reflexivity.
  - destruct (Hit k s ltac:(lia) HI) as [x [Hc [Hx [s1 [s2 [Hb [Hs HI2]]]]]]].
    destruct (IH (S k) s2 ltac:(lia) HI2) as [s' [He HI']]. exists s'. split; auto.
    rewrite exec_loop, Hc. cbn [bind as_int]. destruct (x =? 0) eqn:E; [apply Z.eqb_eq in E; contradiction|].
    rewrite (exec_mono prog vt _ _ _ _ Hb (F + S d)%nat ltac:(lia)). cbn [bind].
    rewrite (exec_mono prog vt _ _ _ _ Hs (F + S d)%nat ltac:(lia)). cbn [bind].
    replace (F + S d)%nat with (S (F + d)) by lia. exact He.
Qed.

Lemma call_ok : forall f f1 ret fname this args s vs pfx fn l o s1 s2,
  eval_list s args = Ok vs -> this_prefix s this = Ok pfx -> lget prog fname = Some fn ->
  bind_params (f_params fn) vs = Ok l ->
  exec f1 (f_body fn) {| mem := mem s; loc := l; pre := pfx; files := files s; ptrs := ptrs s; fresh := fresh s |} = Ok (o, s1) ->
  set_ret {| mem := mem s1; loc := loc s; pre := pre s; files := files s1; ptrs := ptrs s1; fresh := fresh s1 |} ret
          (match o with Returned v => v | _ => None end) = Ok s2 ->
  (f1 < f)%nat ->
  exec f (SCall ret fname this args) s = Ok (Normal, s2).
Proof.
  intros f f1 ret fname this args s vs pfx fn l o s1 s2 Ha Hp Hf Hb He Hr L.
  destruct f; [lia|]. cbn [MiniC.exec]. rewrite Ha. cbn [bind]. rewrite Hp. cbn [bind].
  rewrite Hf, Hb. cbn [bind]. rewrite (exec_mono prog vt _ _ _ _ He f ltac:(lia)). cbn [bind].
  rewrite Hr. reflexivity.
Qed.

Lemma callvirt_ok : forall f f1 ret m this args s vs pfx cls fn l o s1 s2,
  eval_list s args = Ok vs -> this_prefix s this = Ok pfx -> lget vt pfx = Some cls ->
  lget prog (cls ++ "::" ++ m)%string = Some fn ->
  bind_params (f_params fn) vs = Ok l ->
  exec f1 (f_body fn) {| mem := mem s; loc := l; pre := pfx; files := files s; ptrs := ptrs s; fresh := fresh s |} = Ok (o, s1) ->
  set_ret {| mem := mem s1; loc := loc s; pre := pre s; files := files s1; ptrs := ptrs s1; fresh := fresh s1 |} ret
          (match o with Returned v => v | _ => None end) = Ok s2 ->
  (f1 < f)%nat ->
  exec f (SCallVirt ret m this args) s = Ok (Normal, s2).
Proof.
  intros f f1 ret m this args s vs pfx cls fn l o s1 s2 Ha Hp Hv Hf Hb He Hr L.
  destruct f; [lia|]. cbn [MiniC.exec]. rewrite Ha. cbn [bind]. rewrite Hp. cbn [bind]. rewrite Hv.
  rewrite Hf, Hb. cbn [bind]. rewrite (exec_mono prog vt _ _ _ _ He f ltac:(lia)). cbn [bind].
  rewrite Hr. reflexivity.
Qed.

Lemma memset_ok : forall f d v n s dv x k s',
  eval s d = Ok dv -> eval s v = Ok (VInt x) -> eval s n = Ok (VInt k) -> do_memset s dv x k = Ok s' ->
  (0 < f)%nat -> exec f (SMemset d v n) s = Ok (Normal, s').
Proof.
  intros f d v n s dv x k s' H1 H2 H3 H4 L. destruct f; [lia|]. cbn [MiniC.exec].
  rewrite H1, H2. cbn [bind as_int]. rewrite H3. cbn [bind as_int]. rewrite H4. reflexivity.
Qed.

Lemma memcpy_ok : forall f d sr n s dv sv k s',
  eval s d = Ok dv -> eval s sr = Ok sv -> eval s n = Ok (VInt k) -> do_memcpy s dv sv k = Ok s' ->
  (0 < f)%nat -> exec f (SMemcpy d sr n) s = Ok (Normal, s').
Proof.
  intros f d sr n s dv sv k s' H1 H2 H3 H4 L. destruct f; [lia|]. cbn [MiniC.exec].
  rewrite H1, H2, H3. cbn [bind as_int]. rewrite H4. reflexivity.
Qed.

Lemma localarr_ok : forall f x t n s, (0 < f)%nat ->
  exec f (SLocalArr x t n) s = Ok (Normal, with_mem s (mset (mem s) ("%" ++ x)%string {| o_ty := t; o_cells := repeat 0 (Z.to_nat n) |})).
Proof. intros f x t n s L. destruct f; [lia|]. reflexivity. Qed.

Lemma new_ok : forall f x t n s k, eval s n = Ok (VInt k) -> 0 <= k -> (0 < f)%nat ->
  exec f (SNew x t n) s =
  Ok (Normal, {| mem := mset (mem s) ("#" ++ nat_string (fresh s))%string {| o_ty := t; o_cells := repeat 0 (Z.to_nat k) |};
                 loc := lset (loc s) x (VPtr ("#" ++ nat_string (fresh s))%string 0); pre := pre s; files := files s; ptrs := ptrs s;
                 fresh := S (fresh s) |}).
Proof.
  intros f x t n s k H Hk L. destruct f; [lia|]. cbn [MiniC.exec]. rewrite H. cbn [bind as_int].
  destruct (k <? 0) eqn:E; [apply Z.ltb_lt in E; lia|]. reflexivity.
Qed.

Lemma delete_ok : forall f p s v, eval s p = Ok v -> (0 < f)%nat -> exec f (SDelete p) s = Ok (Normal, s).
Proof. intros f p s v H L. destruct f; [lia|]. cbn [MiniC.exec]. rewrite H. reflexivity. Qed.

Lemma return_ok : forall f e s v, eval s e = Ok v -> (0 < f)%nat -> exec f (SReturn (Some e)) s = Ok (Returned (Some v), s).
Proof. intros f e s v H L. destruct f; [lia|]. cbn [MiniC.exec]. rewrite H. reflexivity. Qed.
End ExecRules.

(* ------------------------------------------------------------------ *)
(* evaluation rules                                                    *)
(* ------------------------------------------------------------------ *)
Lemma eval_var : forall s x v, lget (loc s) x = Some v -> eval s (EVar x) = Ok v.
Proof. intros s x v H. cbn [eval]. rewrite H. reflexivity. Qed.
Lemma eval_cast : forall s t a x, eval s a = Ok (VInt x) -> eval s (ECast t a) = Ok (VInt (wrap t x)).
Proof. intros s t a x H. cbn [eval]. rewrite H. reflexivity. Qed.
Lemma eval_binop : forall s t op a b x y z, eval s a = Ok (VInt x) -> eval s b = Ok (VInt y) ->
  eval_bin t op x y = Ok z -> eval s (EBin t op a b) = Ok (VInt z).
Proof. intros s t op a b x y z H1 H2 H3. cbn [eval]. rewrite H1. cbn [bind as_int]. rewrite H2. cbn [bind as_int]. rewrite H3. reflexivity. Qed.
Lemma eval_unop : forall s t op a x z, eval s a = Ok (VInt x) -> eval_un t op x = Ok z -> eval s (EUn t op a) = Ok (VInt z).
Proof. intros s t op a x z H1 H3. cbn [eval]. rewrite H1. cbn [bind as_int]. rewrite H3. reflexivity. Qed.
Lemma eval_ptradd : forall s p sc i o off n, eval s p = Ok (VPtr o off) -> eval s i = Ok (VInt n) ->
  eval s (EPtrAdd p sc i) = Ok (VPtr o (off + n * sc)).
Proof. intros s p sc i o off n H1 H2. cbn [eval]. rewrite H1. cbn [bind]. rewrite H2. reflexivity. Qed.
Lemma eval_load : forall s t p o off ob z, eval s p = Ok (VPtr o off) -> mget (mem s) o = Some ob ->
  load_obj ob t off = Ok z -> eval s (ELoad t p) = Ok (VInt z).
Proof. intros s t p o off ob z H1 H2 H3. cbn [eval]. rewrite H1. cbn [bind]. rewrite H2, H3. reflexivity. Qed.

(* eval_bin at the types that occur *)
Lemma eb_u32 : forall op x y,
  match op with Add | Sub | BAnd | BOr | BXor => True | _ => False end ->
  eval_bin U32 op x y = Ok (wrap U32 (match op with Add => x + y | Sub => x - y | BAnd => Z.land x y | BOr => Z.lor x y | _ => Z.lxor x y end)).
Proof. intros op x y H. destruct op; try contradiction; reflexivity. Qed.
Lemma eb_add32 : forall x y, eval_bin U32 Add x y = Ok (wrap U32 (x + y)). Proof. reflexivity. Qed.
Lemma eb_sub32 : forall x y, eval_bin U32 Sub x y = Ok (wrap U32 (x - y)). Proof. reflexivity. Qed.
Lemma eb_and32 : forall x y, eval_bin U32 BAnd x y = Ok (wrap U32 (Z.land x y)). Proof. reflexivity. Qed.
Lemma eb_or32 : forall x y, eval_bin U32 BOr x y = Ok (wrap U32 (Z.lor x y)). Proof. reflexivity. Qed.
Lemma eb_xor32 : forall x y, eval_bin U32 BXor x y = Ok (wrap U32 (Z.lxor x y)). Proof. reflexivity. Qed.
Lemma eb_shl32 : forall x y, 0 <= y < 32 -> eval_bin U32 Shl x y = Ok (wrap U32 (Z.shiftl x y)).
Proof.
  intros x y H. unfold eval_bin. cbn [ity_bits ity_signed].
  destruct (y <? 0) eqn:A; [apply Z.ltb_lt in A; lia|]. destruct (32 <=? y) eqn:B; [apply Z.leb_le in B; lia|]. reflexivity.
Qed.
Lemma eb_shr32 : forall x y, 0 <= y < 32 -> eval_bin U32 Shr x y = Ok (Z.shiftr x y).
Proof.
  intros x y H. unfold eval_bin. cbn [ity_bits ity_signed].
  destruct (y <? 0) eqn:A; [apply Z.ltb_lt in A; lia|]. destruct (32 <=? y) eqn:B; [apply Z.leb_le in B; lia|]. reflexivity.
Qed.
Lemma eb_shr64 : forall x y, 0 <= y < 64 -> eval_bin U64 Shr x y = Ok (Z.shiftr x y).
Proof.
  intros x y H. unfold eval_bin. cbn [ity_bits ity_signed].
  destruct (y <? 0) eqn:A; [apply Z.ltb_lt in A; lia|]. destruct (64 <=? y) eqn:B; [apply Z.leb_le in B; lia|]. reflexivity.
Qed.
Lemma eb_add64 : forall x y, eval_bin U64 Add x y = Ok (wrap U64 (x + y)). Proof. reflexivity. Qed.
Lemma eb_lt : forall x y, eval_bin TBool Lt x y = Ok (if x <? y then 1 else 0). Proof. reflexivity. Qed.
Lemma eb_ge : forall x y, eval_bin TBool Ge x y = Ok (if y <=? x then 1 else 0). Proof. reflexivity. Qed.
Lemma eb_not32 : forall x, eval_un U32 BNot x = Ok (wrap U32 (Z.lnot x)). Proof. reflexivity. Qed.
Lemma eb_i32 : forall op x y z, eval_bin I32 op x y = Ok z -> eval_bin I32 op x y = Ok z.
Proof. auto. Qed.

(* ------------------------------------------------------------------ *)
(* tactics                                                             *)
(* ------------------------------------------------------------------ *)
Ltac nrm := unfold with_mem, with_loc; cbn [mem loc pre files ptrs fresh append].
Ltac strne := first [ assumption | apply not_eq_sym; assumption | (let H := fresh in intro H; discriminate H) ].
Ltac mg := nrm; repeat first [ rewrite mget_mset_same | rewrite mget_mset_other by strne ]; try eassumption; try reflexivity.
Ltac lg := nrm; repeat first [ rewrite lget_lset_same | rewrite lget_lset_other by strne ]; first [ eassumption | reflexivity ].
Ltac is_lit z := lazymatch z with Z0 => idtac | Zpos _ => idtac | Zneg _ => idtac end.
Ltac ebin_closed := lazymatch goal with |- eval_bin _ _ ?x ?y = _ => is_lit x; is_lit y; cbv; reflexivity end.
Ltac ebin :=
  lazymatch goal with
  | |- eval_bin I32 _ _ _ = _ => try ebin_closed
  | |- eval_bin U32 Add _ _ = _ => apply eb_add32
  | |- eval_bin U32 Sub _ _ = _ => apply eb_sub32
  | |- eval_bin U32 BAnd _ _ = _ => apply eb_and32
  | |- eval_bin U32 BOr _ _ = _ => apply eb_or32
  | |- eval_bin U32 BXor _ _ = _ => apply eb_xor32
  | |- eval_bin U32 Shl _ _ = _ => apply eb_shl32; lia
  | |- eval_bin U32 Shr _ _ = _ => apply eb_shr32; lia
  | |- eval_bin U64 Shr _ _ = _ => apply eb_shr64; lia
  | |- eval_bin U64 Add _ _ = _ => apply eb_add64
  | |- eval_bin TBool Lt _ _ = _ => apply eb_lt
  | |- eval_bin TBool Ge _ _ = _ => apply eb_ge
  | |- _ => idtac
  end.
(* evaluates an expression; loads (object lookup excepted) and unusual operators are left as subgoals *)
Ltac ev :=
  lazymatch goal with
  | |- eval _ (EConst _) = _ => reflexivity
  | |- eval _ (EVar _) = _ => apply eval_var; lg
  | |- eval _ (EField _) = _ => nrm; reflexivity
  | |- eval _ (ELocalArr _) = _ => nrm; reflexivity
  | |- eval _ (EGlobal _) = _ => reflexivity
  | |- eval _ (ECast _ _) = _ => eapply eval_cast; ev
  | |- eval _ (EBin _ _ _ _) = _ => eapply eval_binop; [ ev | ev | ebin ]
  | |- eval _ (EUn U32 BNot _) = _ => eapply eval_unop; [ ev | apply eb_not32 ]
  | |- eval _ (EPtrAdd _ _ _) = _ => eapply eval_ptradd; [ ev | ev ]
  | |- eval _ (ELoad _ _) = _ => eapply eval_load; [ ev | mg | ]
  | |- _ => idtac
  end.

(* ------------------------------------------------------------------ *)
(* lists of cells                                                      *)
(* ------------------------------------------------------------------ *)
Lemma upd_range_all : forall vs l, List.length vs = List.length l -> upd_range 0 vs l = vs.
Proof.
  intros vs l H. change (upd_range 0 vs l) with (upd_range (List.length (@nil Z)) vs ([] ++ l)).
  rewrite upd_range_app by lia. cbn [app]. rewrite H, skipn_all. apply app_nil_r.
Qed.
Lemma upd_range_prefix : forall vs l, (List.length vs <= List.length l)%nat -> upd_range 0 vs l = vs ++ skipn (List.length vs) l.
Proof.
  intros vs l H. change (upd_range 0 vs l) with (upd_range (List.length (@nil Z)) vs ([] ++ l)).
  rewrite upd_range_app by lia. reflexivity.
Qed.
Lemma upd_nth_app : forall (pre post : list Z) v x, upd_nth (List.length pre) v (pre ++ x :: post) = pre ++ v :: post.
Proof. induction pre as [|a pre IH]; intros; cbn; auto. now rewrite IH. Qed.
Lemma nth_map_ofN : forall l i, nth i (map Z.of_N l) 0 = Z.of_N (nth i l 0%N).
Proof. intros l i. change 0 with (Z.of_N 0). apply map_nth. Qed.

Fixpoint updN (n : nat) (v : N) (l : list N) : list N :=
  match l, n with
  | [], _ => []
  | _ :: r, O => v :: r
  | x :: r, S n' => x :: updN n' v r
  end.
Lemma map_updN : forall l n v, map Z.of_N (updN n v l) = upd_nth n (Z.of_N v) (map Z.of_N l).
Proof. induction l as [|x r IH]; intros [|n] v; cbn; auto. now rewrite IH. Qed.
Lemma updN_length : forall l n v, List.length (updN n v l) = List.length l.
Proof. induction l as [|x r IH]; intros [|n] v; cbn; auto. Qed.
Lemma updN_app : forall (pre post : list N) v x, updN (List.length pre) v (pre ++ x :: post) = pre ++ v :: post.
Proof. induction pre as [|a pre IH]; intros; cbn; auto. now rewrite IH. Qed.

(* ------------------------------------------------------------------ *)
(* 32-bit words: N model vs Z cells                                    *)
(* ------------------------------------------------------------------ *)
Definition u32 (x : N) : Prop := (x < 2 ^ 32)%N.
Definition u8 (x : N) : Prop := (x < 256)%N.

Lemma pow32N : (2 ^ 32 = 4294967296)%N. Proof. reflexivity. Qed.
Lemma wrapU32 : forall z, wrap U32 z = z mod 4294967296. Proof. reflexivity. Qed.
Lemma wrapU64 : forall z, wrap U64 z = z mod 18446744073709551616. Proof. reflexivity. Qed.
Lemma wrapU8 : forall z, wrap U8 z = z mod 256. Proof. reflexivity. Qed.

Lemma u32_range : forall x, u32 x -> 0 <= Z.of_N x < 4294967296.
Proof. unfold u32. intros x H. rewrite pow32N in H. lia. Qed.
Lemma u32_mod : forall x, u32 (x mod w32).
Proof. intros x. unfold u32. rewrite pow32N. apply N.mod_lt. discriminate. Qed.
Lemma u32_small : forall x, u32 x -> (x mod w32 = x)%N.
Proof. intros x H. apply N.mod_small. exact H. Qed.
Lemma u32_land_ones : forall x, u32 x <-> N.land x (N.ones 32) = x.
Proof.
  intros x. rewrite N.land_ones. split; intro H.
  - apply N.mod_small. exact H.
  - rewrite <- H. apply N.mod_lt. discriminate.
Qed.
Lemma land_lxor_distr_l : forall a b c, N.land (N.lxor a b) c = N.lxor (N.land a c) (N.land b c).
Proof.
  intros a b c. apply N.bits_inj. intro i. rewrite N.land_spec, !N.lxor_spec, !N.land_spec.
  destruct (N.testbit a i), (N.testbit b i), (N.testbit c i); reflexivity.
Qed.
Lemma u32_lor : forall a b, u32 a -> u32 b -> u32 (N.lor a b).
Proof. intros a b Ha Hb. apply u32_land_ones in Ha, Hb. apply u32_land_ones. rewrite N.land_lor_distr_l. congruence. Qed.
Lemma u32_lxor : forall a b, u32 a -> u32 b -> u32 (N.lxor a b).
Proof. intros a b Ha Hb. apply u32_land_ones in Ha, Hb. apply u32_land_ones. rewrite land_lxor_distr_l. congruence. Qed.
Lemma u32_land_l : forall a b, u32 a -> u32 (N.land a b).
Proof.
  intros a b Ha. apply u32_land_ones in Ha. apply u32_land_ones.
  rewrite <- N.land_assoc, (N.land_comm b), N.land_assoc, Ha. reflexivity.
Qed.
Lemma u32_land_r : forall a b, u32 b -> u32 (N.land a b).
Proof. intros a b Hb. rewrite N.land_comm. now apply u32_land_l. Qed.
Lemma u32_shiftr : forall a k, u32 a -> u32 (N.shiftr a k).
Proof.
  intros a k Ha. unfold u32 in *. rewrite N.shiftr_div_pow2. eapply N.le_lt_trans; [|exact Ha].
  apply N.div_le_upper_bound. apply N.pow_nonzero. discriminate.
  assert (1 <= 2 ^ k)%N. { change 1%N with (2 ^ 0)%N. apply N.pow_le_mono_r; [discriminate|lia]. } nia.
Qed.
Lemma u32_add32 : forall a b, u32 (add32 a b). Proof. intros. apply u32_mod. Qed.
Lemma u32_shl32 : forall a k, u32 (shl32 a k). Proof. intros. apply u32_mod. Qed.
Lemma u32_rotl32 : forall a k, u32 a -> u32 (rotl32 a k).
Proof. intros a k H. unfold rotl32. apply u32_lor. apply u32_shl32. now apply u32_shiftr. Qed.
Lemma log2_u32 : forall a, u32 a -> (N.log2 a < 32)%N.
Proof.
  intros a H. destruct (N.eq_dec a 0) as [->|Hn]. reflexivity.
  apply N.log2_lt_pow2. lia. exact H.
Qed.
Lemma not32_sub : forall a, u32 a -> not32 a = (4294967295 - a)%N.
Proof. intros a H. unfold not32. change 4294967295%N with (N.ones 32). fold (N.lnot a 32). apply N.lnot_sub_low. now apply log2_u32. Qed.
Lemma u32_not32 : forall a, u32 a -> u32 (not32 a).
Proof. intros a H. rewrite not32_sub by exact H. unfold u32 in *. rewrite pow32N in *. lia. Qed.

Lemma zn_wrap : forall a, u32 a -> wrap U32 (Z.of_N a) = Z.of_N a.
Proof. intros a H. rewrite wrapU32. apply Z.mod_small. now apply u32_range. Qed.
Lemma zn_add : forall a b, wrap U32 (Z.of_N a + Z.of_N b) = Z.of_N (add32 a b).
Proof. intros. rewrite wrapU32. unfold add32, w32. rewrite N2Z.inj_mod, N2Z.inj_add. reflexivity. Qed.
Lemma zn_land : forall a b, u32 a -> u32 b -> wrap U32 (Z.land (Z.of_N a) (Z.of_N b)) = Z.of_N (N.land a b).
Proof. intros a b Ha Hb. rewrite <- of_N_land. apply zn_wrap. now apply u32_land_l. Qed.
Lemma zn_lor : forall a b, u32 a -> u32 b -> wrap U32 (Z.lor (Z.of_N a) (Z.of_N b)) = Z.of_N (N.lor a b).
Proof. intros a b Ha Hb. rewrite <- of_N_lor. apply zn_wrap. now apply u32_lor. Qed.
Lemma zn_lxor : forall a b, u32 a -> u32 b -> wrap U32 (Z.lxor (Z.of_N a) (Z.of_N b)) = Z.of_N (N.lxor a b).
Proof. intros a b Ha Hb. rewrite <- of_N_lxor. apply zn_wrap. now apply u32_lxor. Qed.
Lemma zn_lnot : forall a, u32 a -> wrap U32 (Z.lnot (Z.of_N a)) = Z.of_N (not32 a).
Proof.
  intros a H. rewrite not32_sub by exact H. pose proof (u32_range _ H) as R. rewrite wrapU32.
  unfold Z.lnot. rewrite N2Z.inj_sub by (unfold u32 in H; rewrite pow32N in H; lia).
  change (Z.of_N 4294967295) with 4294967295.
  replace (Z.pred (- Z.of_N a)) with ((4294967295 - Z.of_N a) + (-1) * 4294967296) by lia.
  rewrite Z.mod_add by lia. apply Z.mod_small. lia.
Qed.
Lemma zn_shl : forall a k, wrap U32 (Z.shiftl (Z.of_N a) (Z.of_N k)) = Z.of_N (shl32 a k).
Proof. intros. rewrite wrapU32, <- of_N_shiftl. unfold shl32, w32. rewrite N2Z.inj_mod. reflexivity. Qed.
Lemma zn_shr : forall a k, Z.shiftr (Z.of_N a) (Z.of_N k) = Z.of_N (N.shiftr a k).
Proof. intros. now rewrite of_N_shiftr. Qed.
Lemma zn_rotl : forall a k k', u32 a -> (k' = 32 - k)%N ->
  wrap U32 (Z.lor (wrap U32 (Z.shiftl (Z.of_N a) (Z.of_N k))) (Z.shiftr (Z.of_N a) (Z.of_N k'))) = Z.of_N (rotl32 a k).
Proof.
  intros a k k' H ->. rewrite zn_shl, zn_shr, zn_lor. reflexivity. apply u32_shl32. now apply u32_shiftr.
Qed.

(* objects of 32-bit words *)
Lemma load_u32 : forall ws j, 0 <= j < Z.of_nat (List.length ws) -> Forall u32 ws ->
  load_obj (u32_obj ws) U32 (0 + j * 4) = Ok (Z.of_N (nth (Z.to_nat j) ws 0%N)).
Proof.
  intros ws j Hj Hall. unfold load_obj, u32_obj. cbn [o_ty o_cells]. change (ity_bytes U32) with 4. rewrite Z.eqb_refl.
  destruct (0 + j * 4 <? 0) eqn:A; [apply Z.ltb_lt in A; lia|].
  replace (0 + j * 4) with (j * 4) by lia. rewrite Z.mod_mul by lia. cbn [Z.eqb].
  rewrite Z.div_mul by lia. rewrite map_length.
  destruct (j <? Z.of_nat (List.length ws)) eqn:B; [|apply Z.ltb_ge in B; lia].
  rewrite nth_map_ofN. rewrite zn_wrap; [reflexivity|].
  rewrite Forall_forall in Hall. apply Hall. apply nth_In. lia.
Qed.
Lemma store_u32 : forall ws j z x, 0 <= j < Z.of_nat (List.length ws) -> wrap U32 z = Z.of_N x ->
  store_obj (u32_obj ws) U32 (0 + j * 4) z = Ok (u32_obj (updN (Z.to_nat j) x ws)).
Proof.
  intros ws j z x Hj Hz. unfold store_obj, u32_obj. cbn [o_ty o_cells]. change (ity_bytes U32) with 4. rewrite Z.eqb_refl.
  destruct (0 + j * 4 <? 0) eqn:A; [apply Z.ltb_lt in A; lia|].
  replace (0 + j * 4) with (j * 4) by lia. rewrite Z.mod_mul by lia. cbn [Z.eqb].
  rewrite Z.div_mul by lia. rewrite map_length.
  destruct (j <? Z.of_nat (List.length ws)) eqn:B; [|apply Z.ltb_ge in B; lia].
  rewrite Hz, map_updN. reflexivity.
Qed.
Lemma Forall_updN : forall (P : N -> Prop) l n v, Forall P l -> P v -> Forall P (updN n v l).
Proof.
  intros P l. induction l as [|x r IH]; intros [|n] v Hl Hv; cbn; auto; inversion Hl; subst; constructor; auto.
Qed.
