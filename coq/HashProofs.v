(* Proofs for C07: the model of kernel/hash (HashModel.v) computes the standard digests of
   HashSpec.v (FIPS 180-4 SHA-1 / SHA-256, RFC 1321 MD5) for every message, through both the
   in-memory entry point and the file entry point (filebuffer64, every refill size >= 1).
   No axioms; constants of Gen/HashConst.v are compared with the standards' by computation. *)
From Coq Require Import NArith List Bool Arith Lia Btauto PeanoNat.
From Wencry Require Import Bytes HashSpec HashModel.
From Wencry.Gen Require Import HashConst.
Import ListNotations.
Local Open Scope N_scope.

(* ------------------------------------------------------------------------------------ *)
(** * 1. Generic list facts                                                              *)
(* ------------------------------------------------------------------------------------ *)

Lemma fold_left_ext {A B} (f g : A -> B -> A) (l : list B) :
  (forall a b, f a b = g a b) -> forall a, fold_left f l a = fold_left g l a.
Proof.
  intro Hfg. induction l as [|x l IH]; intro a; cbn [fold_left]; [reflexivity|].
  rewrite Hfg. apply IH.
Qed.

Lemma fold_left_inv {A B} (P : A -> Prop) (f : A -> B -> A) (l : list B) :
  (forall a b, P a -> P (f a b)) -> forall a, P a -> P (fold_left f l a).
Proof.
  intro Hf. induction l as [|x l IH]; intros a Ha; cbn [fold_left]; [exact Ha|].
  apply IH, Hf, Ha.
Qed.

Lemma firstn_app_exact {A} (x y : list A) (k : nat) : length x = k -> firstn k (x ++ y) = x.
Proof.
  intro Hk. rewrite firstn_app, Hk, Nat.sub_diag. cbn [firstn].
  rewrite app_nil_r. apply firstn_all2. lia.
Qed.

Lemma skipn_app_exact {A} (x y : list A) (k : nat) : length x = k -> skipn k (x ++ y) = y.
Proof.
  intro Hk. rewrite skipn_app, Hk, Nat.sub_diag. cbn [skipn].
  rewrite skipn_all2 by lia. reflexivity.
Qed.

Lemma firstn_app_ge {A} (x y : list A) (k : nat) : (k <= length x)%nat -> firstn k (x ++ y) = firstn k x.
Proof.
  intro Hk. rewrite firstn_app. replace (k - length x)%nat with 0%nat by lia.
  cbn [firstn]. apply app_nil_r.
Qed.

Lemma skipn_app_ge {A} (x y : list A) (k : nat) : (k <= length x)%nat -> skipn k (x ++ y) = skipn k x ++ y.
Proof.
  intro Hk. rewrite skipn_app. replace (k - length x)%nat with 0%nat by lia. reflexivity.
Qed.

Lemma skipn_add {A} (a b : nat) (l : list A) : skipn (a + b) l = skipn a (skipn b l).
Proof.
  revert l. induction b as [|b IH]; intro l.
  - rewrite Nat.add_0_r. reflexivity.
  - rewrite Nat.add_succ_r. destruct l as [|x l].
    + rewrite !skipn_nil. reflexivity.
    + cbn [skipn]. apply IH.
Qed.

(** chunks *)
Lemma chunks_fuel_enough {A} (n : nat) : (1 <= n)%nat -> forall f1 f2 (l : list A),
  (length l <= f1)%nat -> (length l <= f2)%nat -> chunks_fuel f1 n l = chunks_fuel f2 n l.
Proof.
  intro Hn. induction f1 as [|f1 IH]; intros f2 l H1 H2.
  - destruct l; [|cbn [length] in H1; lia]. destruct f2; reflexivity.
  - destruct l as [|x l]; [destruct f2; reflexivity|].
    destruct f2 as [|f2]; [cbn [length] in H2; lia|].
    cbn [chunks_fuel]. f_equal. apply IH; rewrite skipn_length; cbn [length] in *; lia.
Qed.

Lemma chunks_nil {A} (n : nat) : chunks n (@nil A) = [].
Proof. reflexivity. Qed.

Lemma chunks_fuel_S {A} (f n : nat) (l : list A) :
  l <> [] -> chunks_fuel (S f) n l = firstn n l :: chunks_fuel f n (skipn n l).
Proof. destruct l; [congruence|reflexivity]. Qed.

Lemma chunks_app_exact {A} (n : nat) (x r : list A) :
  (1 <= n)%nat -> length x = n -> chunks n (x ++ r) = x :: chunks n r.
Proof.
  intros Hn Hx. unfold chunks. rewrite app_length.
  assert (Hne : x ++ r <> []) by (destruct x; [cbn [length] in Hx; lia|discriminate]).
  replace (length x + length r)%nat with (S (length x - 1 + length r)) by lia.
  rewrite chunks_fuel_S by exact Hne.
  rewrite firstn_app_exact by exact Hx. rewrite skipn_app_exact by exact Hx.
  f_equal. apply chunks_fuel_enough; lia.
Qed.

Lemma chunks_single {A} (n : nat) (x : list A) : (1 <= n)%nat -> length x = n -> chunks n x = [x].
Proof.
  intros Hn Hx. rewrite <- (app_nil_r x) at 1. rewrite chunks_app_exact by assumption. reflexivity.
Qed.

(* ------------------------------------------------------------------------------------ *)
(** * 2. 32-bit arithmetic and bitwise facts                                             *)
(* ------------------------------------------------------------------------------------ *)

Lemma w32_nz : w32 <> 0.
Proof. discriminate. Qed.

Lemma add32_mod_l a b : add32 (a mod w32) b = add32 a b.
Proof. unfold add32. apply N.add_mod_idemp_l, w32_nz. Qed.

Lemma add32_mod_r a b : add32 a (b mod w32) = add32 a b.
Proof. unfold add32. apply N.add_mod_idemp_r, w32_nz. Qed.

Lemma add32_0_l a b : add32 (add32 0 a) b = add32 a b.
Proof. unfold add32 at 2. rewrite N.add_0_l. apply add32_mod_l. Qed.

Lemma add32_congr_l x y k : x mod w32 = y mod w32 -> add32 x k = add32 y k.
Proof. intro E. rewrite <- (add32_mod_l x), <- (add32_mod_l y), E. reflexivity. Qed.

(* the SHA-1 additions: temp = lrot(a,5) + (f + K) + e + w   vs   T = ROTL5(a) + f + e + K + W *)
Lemma add32_shuffle r F K e w :
  add32 (add32 (add32 r (add32 F K)) e) w = add32 (add32 (add32 (add32 r F) e) K) w.
Proof.
  unfold add32.
  rewrite (N.add_mod_idemp_r r (F + K) _ w32_nz).
  rewrite (N.add_mod_idemp_l (r + (F + K)) e _ w32_nz).
  rewrite (N.add_mod_idemp_l (r + (F + K) + e) w _ w32_nz).
  rewrite (N.add_mod_idemp_l (r + F) e _ w32_nz).
  rewrite (N.add_mod_idemp_l (r + F + e) K _ w32_nz).
  rewrite (N.add_mod_idemp_l (r + F + e + K) w _ w32_nz).
  f_equal. lia.
Qed.

Lemma sum32_4 a b c d : sum32 [a; b; c; d] = add32 (add32 (add32 a b) c) d.
Proof. unfold sum32. cbn [fold_left]. rewrite add32_0_l. reflexivity. Qed.

Lemma sum32_5 a b c d e : sum32 [a; b; c; d; e] = add32 (add32 (add32 (add32 a b) c) d) e.
Proof. unfold sum32. cbn [fold_left]. rewrite add32_0_l. reflexivity. Qed.

(* sha1.cpp writes Ch and Maj with OR; FIPS 180-4 with XOR.  Ch: the operands are disjoint on the
   low 32 bits (above bit 31 [not32] is the identity, so the claim is modulo 2^32, which is all the
   following addition sees); Maj: equal on every bit. *)
Lemma HASH_A_mod x y z : HASH_A x y z mod w32 = Ch x y z mod w32.
Proof.
  apply N.bits_inj; intro n. change w32 with (2 ^ 32).
  destruct (N.ltb_spec n 32) as [Hn|Hn].
  - rewrite !N.mod_pow2_bits_low by exact Hn.
    unfold HASH_A, Ch, not32.
    rewrite N.lor_spec, N.lxor_spec, !N.land_spec, N.lxor_spec.
    change 4294967295 with (N.ones 32). rewrite N.ones_spec_low by exact Hn.
    btauto.
  - rewrite !N.mod_pow2_bits_high by exact Hn. reflexivity.
Qed.

Lemma HASH_C_eq x y z : HASH_C x y z = Maj x y z.
Proof.
  apply N.bits_inj; intro n. unfold HASH_C, Maj.
  rewrite !N.lor_spec, !N.lxor_spec, !N.land_spec. btauto.
Qed.

Lemma HASH_B_eq x y z : HASH_B x y z = Parity x y z.
Proof. unfold HASH_B, Parity. apply N.lxor_assoc. Qed.

Lemma MAJORITY_eq x y z : MAJORITY x y z = Maj x y z.
Proof. unfold MAJORITY, Maj. apply N.lxor_assoc. Qed.

Lemma CHOOSE_eq x y z : CHOOSE x y z = Ch x y z.
Proof. reflexivity. Qed.

Lemma N_ltb_of_nat t k : (N.of_nat t <? N.of_nat k) = (t <? k)%nat.
Proof.
  destruct (N.ltb_spec (N.of_nat t) (N.of_nat k)), (Nat.ltb_spec t k); try reflexivity; lia.
Qed.

(* ------------------------------------------------------------------------------------ *)
(** * 3. The generated constants are the standards' (by computation)                     *)
(* ------------------------------------------------------------------------------------ *)

Lemma sha256_k_eq : sha256_k = sha256_K.          Proof. vm_compute. reflexivity. Qed.
Lemma sha256_iv_eq : sha256_iv = sha256_H0.       Proof. vm_compute. reflexivity. Qed.
Lemma sha1_iv_eq : sha1_iv = sha1_H0.             Proof. vm_compute. reflexivity. Qed.
Lemma md5_iv_eq : md5_iv = md5_H0.                Proof. vm_compute. reflexivity. Qed.
Lemma md5_steps_eq : md5_steps = md5_rfc_steps.   Proof. vm_compute. reflexivity. Qed.
Lemma sha1_k_eq : sha1_k = [0x5a827999; 0x6ed9eba1; 0x8f1bbcdc; 0xca62c1d6].
Proof. vm_compute. reflexivity. Qed.
Lemma sha1_bounds_eq : sha1_bounds = [20; 40; 60]. Proof. vm_compute. reflexivity. Qed.
Lemma sha1_rots_eq : sha1_rots = [5; 30; 1].       Proof. vm_compute. reflexivity. Qed.
Lemma finals_eq : sha1_final = [56; 56; 0] /\ md5_final = [56; 56; 1] /\ sha256_final = [56; 56; 0].
Proof. vm_compute. repeat split. Qed.
Lemma C07_counter_is_64_bit_proof : totalsize_bits = 64.
Proof. vm_compute. reflexivity. Qed.

Lemma rs3_rot a b c x :
  rs3 [a; b; c; 0] x = N.lxor (rotr32 x a) (N.lxor (rotr32 x b) (rotr32 x c)).
Proof. unfold rs3. cbn [nth]. change (0 =? 0) with true. cbv iota. apply N.lxor_assoc. Qed.
Lemma rs3_shr a b c x :
  rs3 [a; b; c; 1] x = N.lxor (rotr32 x a) (N.lxor (rotr32 x b) (N.shiftr x c)).
Proof. unfold rs3. cbn [nth]. change (1 =? 0) with false. cbv iota. apply N.lxor_assoc. Qed.

Lemma rs3_SIGMA0 x : rs3 sha256_SIGMA0 x = Sigma0 x.
Proof. change sha256_SIGMA0 with [2; 13; 22; 0]. apply rs3_rot. Qed.
Lemma rs3_SIGMA1 x : rs3 sha256_SIGMA1 x = Sigma1 x.
Proof. change sha256_SIGMA1 with [6; 11; 25; 0]. apply rs3_rot. Qed.
Lemma rs3_GAMMA0 x : rs3 sha256_GAMMA0 x = sigma0 x.
Proof. change sha256_GAMMA0 with [7; 18; 3; 1]. apply rs3_shr. Qed.
Lemma rs3_GAMMA1 x : rs3 sha256_GAMMA1 x = sigma1 x.
Proof. change sha256_GAMMA1 with [17; 19; 10; 1]. apply rs3_shr. Qed.

(* ------------------------------------------------------------------------------------ *)
(** * 4. The compression functions agree                                                 *)
(* ------------------------------------------------------------------------------------ *)

(** SHA-256 *)
Lemma sha256_sched_eq n : forall w, m_sha256_sched n w = sha256_sched n w.
Proof.
  induction n as [|n IH]; intro w; [reflexivity|].
  cbn [m_sha256_sched sha256_sched].
  rewrite sum32_4, rs3_GAMMA0, rs3_GAMMA1. apply IH.
Qed.

Lemma sha256_round_eq W v i : m_sha256_round W v i = sha256_round W v i.
Proof.
  destruct v as [|a [|b [|c [|d [|e [|f [|g [|h [|x v]]]]]]]]];
    [reflexivity|reflexivity|reflexivity|reflexivity|reflexivity|reflexivity|reflexivity|reflexivity| |reflexivity].
  unfold m_sha256_round, sha256_round. cbv zeta.
  rewrite sum32_5, rs3_SIGMA0, rs3_SIGMA1, MAJORITY_eq, sha256_k_eq. reflexivity.
Qed.

Lemma sha256_block_eq H blk : m_sha256_block H blk = sha256_block H blk.
Proof.
  unfold m_sha256_block, sha256_block, m_sha256_W, sha256_W. cbv zeta.
  rewrite sha256_sched_eq. f_equal. apply fold_left_ext. intros; apply sha256_round_eq.
Qed.

(** SHA-1 *)
Lemma sha1_sched_eq n : forall w, m_sha1_sched n w = sha1_sched n w.
Proof.
  induction n as [|n IH]; intro w; [reflexivity|].
  cbn [m_sha1_sched sha1_sched]. rewrite sha1_rots_eq. cbn [nth].
  rewrite <- !N.lxor_assoc. apply IH.
Qed.

Lemma sha1_round_eq W v t : m_sha1_round W v t = sha1_round W v t.
Proof.
  destruct v as [|a [|b [|c [|d [|e [|x v]]]]]];
    [reflexivity|reflexivity|reflexivity|reflexivity|reflexivity| |reflexivity].
  unfold m_sha1_round, sha1_round. cbv zeta.
  rewrite sha1_rots_eq, sha1_bounds_eq, sha1_k_eq. cbn [nth].
  rewrite sum32_5. f_equal.
  change 20 with (N.of_nat 20). change 40 with (N.of_nat 40). change 60 with (N.of_nat 60).
  rewrite !N_ltb_of_nat. unfold sha1_f, sha1_K.
  destruct (t <? 20)%nat; [|destruct (t <? 40)%nat; [|destruct (t <? 60)%nat]].
  - rewrite (add32_congr_l _ _ _ (HASH_A_mod b c d)). apply add32_shuffle.
  - rewrite HASH_B_eq. apply add32_shuffle.
  - rewrite HASH_C_eq. apply add32_shuffle.
  - rewrite HASH_B_eq. apply add32_shuffle.
Qed.

Lemma sha1_block_eq H blk : m_sha1_block H blk = sha1_block H blk.
Proof.
  unfold m_sha1_block, sha1_block, m_sha1_W, sha1_W. cbv zeta.
  rewrite sha1_sched_eq. f_equal. apply fold_left_ext. intros; apply sha1_round_eq.
Qed.

(** MD5: the interpreter is shared; the 64 step descriptions extracted from md5.cpp are RFC 1321's *)
Lemma md5_block_eq H blk : m_md5_block H blk = md5_block H blk.
Proof. unfold m_md5_block, md5_block. rewrite md5_steps_eq. reflexivity. Qed.

(* ------------------------------------------------------------------------------------ *)
(** * 5. Hashmaster::getStringHash = pad, parse into blocks, fold the compression function *)
(* ------------------------------------------------------------------------------------ *)

(* the length encoding selected by the third entry of ha_final *)
Definition lenb (a : halg) (x : N) : list N :=
  if nth 2 (ha_final a) 0 =? 0 then be64_bytes x else le64_bytes x.
Definition wf_final (a : halg) : Prop :=
  nth 0 (ha_final a) 0 = 56 /\ nth 1 (ha_final a) 0 = 56.

Lemma lenb_length a x : length (lenb a x) = 8%nat.
Proof. unfold lenb. destruct (_ =? _); reflexivity. Qed.

(* what the standard appends to a message of L bytes *)
Definition tail_of (a : halg) (L : nat) : list N :=
  [128] ++ zeros (pad_zeros L) ++ lenb a (8 * N.of_nat L).
Definition spec_tail (a : halg) (n : nat) (s : list N) : list N := s ++ tail_of a (n + length s).

Lemma pad_with_spec_tail a s : pad_with (lenb a) s = spec_tail a 0 s.
Proof. reflexivity. Qed.

Lemma pow64 : 2 ^ 64 = 18446744073709551616.
Proof. reflexivity. Qed.

Lemma addtotal_h st len : hs_h (addtotal st len) = hs_h st.
Proof. reflexivity. Qed.

Lemma addtotal_total st len :
  len <= 64 -> hs_total st + 8 * len < 2 ^ 64 ->
  hs_total (addtotal st len) = hs_total st + 8 * len.
Proof.
  intros Hl Hs. rewrite pow64 in Hs. unfold addtotal. cbn [hs_total].
  rewrite (N.mod_small (len * 8) w32) by (unfold w32; lia).
  change (2 ^ totalsize_bits) with 18446744073709551616.
  rewrite N.mod_small by lia. lia.
Qed.

Lemma getHash_block_h a st blk : hs_h (getHash_block a st blk) = ha_compress a (hs_h st) blk.
Proof. reflexivity. Qed.

Lemma getHash_block_total a st blk :
  hs_total st + 512 < 2 ^ 64 -> hs_total (getHash_block a st blk) = hs_total st + 512.
Proof.
  intro Hs. unfold getHash_block. rewrite addtotal_total; cbn [hs_total]; lia.
Qed.

Lemma zeros_app n m : zeros (n + m) = zeros n ++ zeros m.
Proof. apply repeat_app. Qed.
Lemma zeros_length n : length (zeros n) = n.
Proof. apply repeat_length. Qed.

Lemma pad_zeros_lt56 n fl : (n mod 64 = 0)%nat -> (fl < 56)%nat -> pad_zeros (n + fl) = (55 - fl)%nat.
Proof.
  intros Hn Hf. unfold pad_zeros.
  assert (E : ((n + fl) mod 64 = fl)%nat).
  { rewrite <- Nat.add_mod_idemp_l, Hn by discriminate. cbn [Nat.add]. apply Nat.mod_small. lia. }
  rewrite E. replace (119 - fl)%nat with (55 - fl + 1 * 64)%nat by lia.
  rewrite Nat.mod_add by discriminate. apply Nat.mod_small. lia.
Qed.

Lemma pad_zeros_ge56 n fl :
  (n mod 64 = 0)%nat -> (56 <= fl < 64)%nat -> pad_zeros (n + fl) = (119 - fl)%nat.
Proof.
  intros Hn Hf. unfold pad_zeros.
  assert (E : ((n + fl) mod 64 = fl)%nat).
  { rewrite <- Nat.add_mod_idemp_l, Hn by discriminate. cbn [Nat.add]. apply Nat.mod_small. lia. }
  rewrite E. apply Nat.mod_small. lia.
Qed.

(* the final-block routine *)
Lemma getHash_final_h a st s n :
  wf_final a -> (length s < 64)%nat ->
  hs_total st = 8 * N.of_nat n -> (n mod 64 = 0)%nat ->
  8 * N.of_nat (n + length s) < 2 ^ 64 ->
  hs_h (getHash_final a st s) =
  fold_left (ha_compress a) (chunks 64 (spec_tail a n s)) (hs_h st).
Proof.
  intros [Hthr Hpos] Hlen Htot Hn Hsz.
  unfold getHash_final. cbv zeta. rewrite Hthr, Hpos.
  change (N.to_nat 56) with 56%nat.
  set (fl := length s) in *.
  set (st1 := addtotal st (N.of_nat fl)).
  assert (Ht1 : hs_total st1 = 8 * N.of_nat (n + fl)).
  { unfold st1. rewrite addtotal_total; lia. }
  assert (Hh1 : hs_h st1 = hs_h st) by reflexivity.
  fold (lenb a (hs_total st1)). rewrite Ht1.
  unfold spec_tail, tail_of. fold fl.
  destruct (Nat.leb_spec 56 fl) as [Hge|Hlt].
  - (* two blocks *)
    rewrite getHash_block_h, getHash_block_h, Hh1.
    rewrite pad_zeros_ge56 by (try assumption; lia).
    replace (119 - fl)%nat with ((63 - fl) + 56)%nat by lia.
    rewrite zeros_app.
    change (firstn 56 (zeros 64)) with (zeros 56).
    set (L := lenb a _).
    replace (s ++ [128] ++ (zeros (63 - fl) ++ zeros 56) ++ L)
      with ((s ++ [128] ++ zeros (63 - fl)) ++ ((zeros 56 ++ L) ++ []))
      by (rewrite app_nil_r, <- !app_assoc; reflexivity).
    assert (Hl1 : length (s ++ [128] ++ zeros (63 - fl)) = 64%nat).
    { rewrite !app_length, zeros_length. cbn [length]. fold fl. lia. }
    assert (Hl2 : length (zeros 56 ++ L) = 64%nat).
    { rewrite app_length, zeros_length. unfold L. rewrite lenb_length. reflexivity. }
    rewrite chunks_app_exact by (try exact Hl1; lia).
    rewrite chunks_app_exact by (try exact Hl2; lia).
    reflexivity.
  - (* one block *)
    rewrite getHash_block_h, Hh1.
    rewrite pad_zeros_lt56 by assumption.
    set (L := lenb a _).
    replace (63 - fl)%nat with ((55 - fl) + 8)%nat by lia.
    rewrite zeros_app.
    assert (Hl1 : length (s ++ [128] ++ zeros (55 - fl)) = 56%nat).
    { rewrite !app_length, zeros_length. cbn [length]. fold fl. lia. }
    replace (s ++ [128] ++ zeros (55 - fl) ++ zeros 8)
      with ((s ++ [128] ++ zeros (55 - fl)) ++ zeros 8)
      by (rewrite <- !app_assoc; reflexivity).
    rewrite firstn_app_exact by exact Hl1.
    replace (s ++ [128] ++ zeros (55 - fl) ++ L) with ((s ++ [128] ++ zeros (55 - fl)) ++ L)
      by (rewrite <- !app_assoc; reflexivity).
    rewrite chunks_single; [reflexivity|lia|].
    rewrite app_length, Hl1. unfold L. rewrite lenb_length. reflexivity.
Qed.

Lemma string_loop_spec a : wf_final a -> forall fuel st s n,
  (length s / 64 < fuel)%nat ->
  hs_total st = 8 * N.of_nat n -> (n mod 64 = 0)%nat ->
  8 * N.of_nat (n + length s) < 2 ^ 64 ->
  hs_h (string_loop a fuel st s) =
  fold_left (ha_compress a) (chunks 64 (spec_tail a n s)) (hs_h st).
Proof.
  intro Hwf. induction fuel as [|f IH]; intros st s n Hfuel Htot Hn Hsz; [lia|].
  cbn [string_loop]. destruct (Nat.leb_spec 64 (length s)) as [Hge|Hlt].
  - assert (Hsk : length (skipn 64 s) = (length s - 64)%nat) by apply skipn_length.
    assert (Hfi : length (firstn 64 s) = 64%nat) by (apply firstn_length_le; exact Hge).
    rewrite (IH _ _ (n + 64)%nat).
    + rewrite getHash_block_h. unfold spec_tail.
      replace (n + 64 + length (skipn 64 s))%nat with (n + length s)%nat by lia.
      set (T := tail_of a _).
      assert (E : s ++ T = firstn 64 s ++ (skipn 64 s ++ T))
        by (rewrite app_assoc, firstn_skipn; reflexivity).
      rewrite E, (chunks_app_exact 64 (firstn 64 s)) by (try exact Hfi; lia). reflexivity.
    + rewrite Hsk.
      assert (E : (length s = 64 + (length s - 64))%nat) by lia.
      rewrite E in Hfuel.
      replace (64 + (length s - 64))%nat with ((length s - 64) + 1 * 64)%nat in Hfuel by lia.
      rewrite Nat.div_add in Hfuel by discriminate. lia.
    + rewrite getHash_block_total; rewrite Htot; rewrite ?pow64 in *; lia.
    + replace (n + 64)%nat with (n + 1 * 64)%nat by lia.
      rewrite Nat.mod_add by discriminate. exact Hn.
    + rewrite Hsk. replace (n + 64 + (length s - 64))%nat with (n + length s)%nat by lia. exact Hsz.
  - apply getHash_final_h; assumption.
Qed.

Lemma getStringHash_spec a s : wf_final a -> 8 * N.of_nat (length s) < 2 ^ 64 ->
  getStringHash a s =
  ha_out a (fold_left (ha_compress a) (chunks 64 (pad_with (lenb a) s)) (ha_init a)).
Proof.
  intros Hwf Hsz. unfold getStringHash. f_equal.
  rewrite pad_with_spec_tail.
  apply (string_loop_spec a Hwf _ (reset a) s 0%nat); [lia|reflexivity|reflexivity|exact Hsz].
Qed.

(** the three algorithms *)
Lemma wf_sha1 : wf_final alg_sha1.   Proof. split; reflexivity. Qed.
Lemma wf_md5 : wf_final alg_md5.     Proof. split; reflexivity. Qed.
Lemma wf_sha256 : wf_final alg_sha256. Proof. split; reflexivity. Qed.

Lemma get_hasher_cases alg a : get_hasher alg = Some a ->
  (alg = 0 /\ a = alg_sha1) \/ (alg = 1 /\ a = alg_md5) \/ (alg = 2 /\ a = alg_sha256).
Proof.
  intro H.
  destruct alg as [|[p|[p|p|]|]]; cbn in H; try discriminate H; injection H as <-; auto.
Qed.

Lemma get_hasher_wf alg a : get_hasher alg = Some a -> wf_final a.
Proof.
  intro H. destruct (get_hasher_cases _ _ H) as [[_ ->]|[[_ ->]|[_ ->]]];
    [apply wf_sha1|apply wf_md5|apply wf_sha256].
Qed.

(* the model's fold = the standard's digest *)
Lemma fold_std alg a m : get_hasher alg = Some a ->
  ha_out a (fold_left (ha_compress a) (chunks 64 (pad_with (lenb a) m)) (ha_init a)) = hash_spec alg m.
Proof.
  intro H. destruct (get_hasher_cases _ _ H) as [[-> ->]|[[-> ->]|[-> ->]]].
  - change (flat_map be32_bytes (fold_left m_sha1_block (chunks 64 (pad_with be64_bytes m)) sha1_iv) = sha1 m).
    unfold sha1. rewrite sha1_iv_eq. rewrite (fold_left_ext m_sha1_block sha1_block _ sha1_block_eq). reflexivity.
  - change (flat_map le32_bytes (fold_left m_md5_block (chunks 64 (pad_with le64_bytes m)) md5_iv) = md5 m).
    unfold md5. rewrite md5_iv_eq. rewrite (fold_left_ext m_md5_block md5_block _ md5_block_eq). reflexivity.
  - change (flat_map be32_bytes (fold_left m_sha256_block (chunks 64 (pad_with be64_bytes m)) sha256_iv) = sha256 m).
    unfold sha256. rewrite sha256_iv_eq. rewrite (fold_left_ext m_sha256_block sha256_block _ sha256_block_eq). reflexivity.
Qed.

(* string entry point, without the (unneeded) byte-range hypothesis *)
Lemma string_std alg a m :
  get_hasher alg = Some a -> 8 * N.of_nat (length m) < 2 ^ 64 -> getStringHash a m = hash_spec alg m.
Proof.
  intros H Hsz. rewrite getStringHash_spec by (try exact Hsz; exact (get_hasher_wf _ _ H)).
  apply fold_std, H.
Qed.

Lemma C07_string_digest_is_standard_proof : forall alg a m,
  get_hasher alg = Some a -> bytesb m = true ->
  8 * N.of_nat (length m) < 2 ^ 64 ->
  getStringHash a m = hash_spec alg m.
Proof. intros alg a m H _ Hsz. apply string_std; assumption. Qed.

Example C07_string_nonvacuous :
  get_hasher 2 = Some alg_sha256 /\ bytesb [97; 98; 99] = true /\
  8 * N.of_nat (length [97; 98; 99]) < 2 ^ 64.
Proof. repeat split. Qed.

Lemma C07_hasher_domain_proof : forall alg, get_hasher alg = None <-> 2 < alg.
Proof.
  intro alg. destruct alg as [|[p|[p|p|]|]]; cbn [get_hasher]; split; intro H;
    try reflexivity; try discriminate H; try lia.
Qed.

(* ------------------------------------------------------------------------------------ *)
(** * 6. filebuffer64 hands out the stream in order; getFileHash = getStringHash          *)
(* ------------------------------------------------------------------------------------ *)

(* the part of the stream that has not been handed out yet *)
Definition unread (b : fbuf) : list N := skipn (64 * fb_now b) (fb_b b) ++ fb_rest b.

Record fb_inv (hbuf : nat) (b : fbuf) : Prop := {
  inv_extra : fb_extra b = None;
  inv_total : fb_total b = (length (fb_b b) / 64)%nat;
  inv_tail : fb_tail b = (length (fb_b b) mod 64)%nat;
  inv_now : (fb_now b <= fb_total b)%nat;
  inv_len : (length (fb_b b) <= 64 * hbuf)%nat;
  inv_rest : (length (fb_b b) < 64 * hbuf)%nat -> fb_rest b = [] }.

Lemma fb_fill_inv hbuf rest : fb_inv hbuf (fb_fill hbuf None rest).
Proof.
  unfold fb_fill. cbv zeta.
  constructor; cbn [fb_extra fb_total fb_tail fb_now fb_b fb_rest]; try reflexivity.
  - lia.
  - rewrite firstn_length. lia.
  - rewrite firstn_length. intro H. apply skipn_all2. lia.
Qed.

Lemma fb_fill_unread hbuf rest : unread (fb_fill hbuf None rest) = rest.
Proof.
  unfold unread, fb_fill. cbv zeta. cbn [fb_now fb_b fb_rest].
  rewrite Nat.mul_0_r. cbn [skipn]. apply firstn_skipn.
Qed.

(* read_buffer64 after the refill test *)
Definition read_core (b : fbuf) : list N * fbuf :=
  let load_size := if (fb_total b <=? fb_now b)%nat then fb_tail b else 64%nat in
  let tail' := if (fb_now b =? fb_total b)%nat then 0%nat else fb_tail b in
  (firstn load_size (skipn (64 * fb_now b) (fb_b b)),
   {| fb_extra := None; fb_b := fb_b b; fb_total := fb_total b; fb_now := S (fb_now b);
      fb_tail := tail'; fb_rest := fb_rest b |}).

Definition refill (hbuf : nat) (b : fbuf) : fbuf :=
  if (fb_now b =? hbuf)%nat then fb_fill hbuf None (fb_rest b) else b.

Lemma fb_read_core hbuf b : fb_extra b = None -> fb_read hbuf b = read_core (refill hbuf b).
Proof. intro H. unfold fb_read. rewrite H. reflexivity. Qed.

Lemma div64_bounds L : (64 * (L / 64) <= L < 64 * (L / 64) + 64)%nat /\ (L mod 64 = L - 64 * (L / 64))%nat.
Proof.
  pose proof (Nat.div_mod L 64 ltac:(discriminate)) as E.
  pose proof (Nat.mod_upper_bound L 64 ltac:(discriminate)) as U. lia.
Qed.

Lemma refill_spec hbuf b : (1 <= hbuf)%nat -> fb_inv hbuf b ->
  fb_inv hbuf (refill hbuf b) /\ unread (refill hbuf b) = unread b /\ (fb_now (refill hbuf b) < hbuf)%nat.
Proof.
  intros Hh I. unfold refill.
  pose proof (div64_bounds (length (fb_b b))) as [D _].
  pose proof (inv_total _ _ I) as Ht. pose proof (inv_now _ _ I) as Hn. pose proof (inv_len _ _ I) as Hl.
  destruct (Nat.eqb_spec (fb_now b) hbuf) as [E|E].
  - split; [apply fb_fill_inv|]. split.
    + rewrite fb_fill_unread. unfold unread.
      rewrite skipn_all2 by nia. reflexivity.
    + unfold fb_fill. cbv zeta. cbn [fb_now]. lia.
  - split; [exact I|]. split; [reflexivity|]. nia.
Qed.

Lemma read_core_spec hbuf b : fb_inv hbuf b -> (fb_now b < hbuf)%nat ->
  (64 <= length (unread b) ->
     fst (read_core b) = firstn 64 (unread b) /\ fb_inv hbuf (snd (read_core b)) /\
     unread (snd (read_core b)) = skipn 64 (unread b))%nat /\
  (length (unread b) < 64 -> fst (read_core b) = unread b)%nat.
Proof.
  intros I Hnow.
  pose proof (div64_bounds (length (fb_b b))) as [D M].
  pose proof (inv_total _ _ I) as Ht. pose proof (inv_now _ _ I) as Hn. pose proof (inv_len _ _ I) as Hl.
  pose proof (inv_tail _ _ I) as Hta. pose proof (inv_rest _ _ I) as Hr.
  unfold read_core. cbv zeta. cbn [fst snd].
  assert (Hsk : length (skipn (64 * fb_now b) (fb_b b)) = (length (fb_b b) - 64 * fb_now b)%nat)
    by apply skipn_length.
  destruct (Nat.leb_spec (fb_total b) (fb_now b)) as [Hle|Hlt].
  - (* all full blocks consumed, the buffer was short: end of stream *)
    assert (En : fb_now b = fb_total b) by lia.
    assert (Hrest : fb_rest b = []) by (apply Hr; nia).
    assert (Hu : unread b = skipn (64 * fb_now b) (fb_b b))
      by (unfold unread; rewrite Hrest; apply app_nil_r).
    split.
    + intro H. rewrite Hu, Hsk in H. nia.
    + intros _. rewrite Hu. apply firstn_all2. rewrite Hsk, Hta, M. nia.
  - assert (Hge : (64 <= length (skipn (64 * fb_now b) (fb_b b)))%nat) by (rewrite Hsk; nia).
    split.
    + intros _. split; [|split].
      * unfold unread. rewrite firstn_app_ge by exact Hge. reflexivity.
      * destruct (Nat.eqb_spec (fb_now b) (fb_total b)) as [E|E]; [lia|].
        constructor; cbn [fb_extra fb_total fb_tail fb_now fb_b fb_rest];
          [reflexivity|exact Ht|exact Hta|lia|exact Hl|exact Hr].
      * unfold unread. cbn [fb_now fb_b fb_rest].
        rewrite skipn_app_ge by exact Hge.
        replace (64 * S (fb_now b))%nat with (64 + 64 * fb_now b)%nat by lia.
        rewrite skipn_add. reflexivity.
    + intro H. unfold unread in H. rewrite app_length in H. lia.
Qed.

Lemma fb_read_spec hbuf b : (1 <= hbuf)%nat -> fb_inv hbuf b ->
  (64 <= length (unread b) ->
     fst (fb_read hbuf b) = firstn 64 (unread b) /\ fb_inv hbuf (snd (fb_read hbuf b)) /\
     unread (snd (fb_read hbuf b)) = skipn 64 (unread b))%nat /\
  (length (unread b) < 64 -> fst (fb_read hbuf b) = unread b)%nat.
Proof.
  intros Hh I. rewrite fb_read_core by (apply (inv_extra _ _ I)).
  destruct (refill_spec hbuf b Hh I) as (I1 & U1 & N1).
  rewrite <- U1. apply (read_core_spec hbuf); assumption.
Qed.

(* getFileHash's loop is getStringHash's loop over the unread stream *)
Lemma file_loop_spec hbuf a : (1 <= hbuf)%nat -> forall fuel st b,
  fb_inv hbuf b -> (length (unread b) / 64 < fuel)%nat ->
  file_loop hbuf a fuel st b = Some (string_loop a fuel st (unread b)).
Proof.
  intro Hh. induction fuel as [|f IH]; intros st b I Hfuel; [lia|].
  cbn [file_loop string_loop].
  destruct (fb_read_spec hbuf b Hh I) as [Hfull Hshort].
  destruct (fb_read hbuf b) as [blk b']. cbn [fst snd] in *.
  destruct (Nat.leb_spec 64 (length (unread b))) as [Hge|Hlt].
  - destruct (Hfull Hge) as (Eb & I' & U').
    assert (Hl : length blk = 64%nat) by (rewrite Eb; apply firstn_length_le; exact Hge).
    rewrite Hl. cbn [Nat.eqb]. change (64 =? 64)%nat with true. cbv iota.
    rewrite IH by (try exact I'; rewrite U', skipn_length;
                   pose proof (div64_bounds (length (unread b))); 
                   pose proof (div64_bounds (length (unread b) - 64)); nia).
    rewrite U', Eb. reflexivity.
  - rewrite (Hshort Hlt). destruct (Nat.eqb_spec (length (unread b)) 64) as [E|E]; [lia|reflexivity].
Qed.

Lemma fb_read_extra hbuf e m : fb_read hbuf (fb_fill hbuf (Some e) m) = (e, fb_fill hbuf None m).
Proof. reflexivity. Qed.

Definition pre_bytes (pre : option (list N)) : list N := match pre with None => [] | Some p => p end.

Lemma getFileHash_string hbuf a pre m :
  (1 <= hbuf)%nat -> match pre with None => True | Some p => length p = 64%nat end ->
  getFileHash hbuf a pre m =
  Some (ha_out a (hs_h (string_loop a (length m / 64 + 3) (reset a) (pre_bytes pre ++ m)))).
Proof.
  intros Hh Hp. unfold getFileHash, fb_new.
  destruct pre as [p|]; cbn [option_map pre_bytes].
  - replace (length m / 64 + 3)%nat with (S (length m / 64 + 2)) by lia.
    cbn [file_loop string_loop]. rewrite fb_read_extra.
    rewrite (firstn_all2 p) by lia. rewrite Hp. change (64 =? 64)%nat with true. cbv iota.
    rewrite file_loop_spec by (try apply fb_fill_inv; try exact Hh; rewrite fb_fill_unread; lia).
    rewrite fb_fill_unread. cbn [option_map].
    rewrite app_length, Hp.
    destruct (Nat.leb_spec 64 (64 + length m)) as [_|H]; [|lia].
    rewrite firstn_app_exact, skipn_app_exact by exact Hp. reflexivity.
  - rewrite file_loop_spec by (try apply fb_fill_inv; try exact Hh; rewrite fb_fill_unread; lia).
    rewrite fb_fill_unread. reflexivity.
Qed.

Lemma file_std hbuf alg a pre m :
  (1 <= hbuf)%nat -> get_hasher alg = Some a ->
  match pre with None => True | Some p => length p = 64%nat end ->
  8 * N.of_nat (64 + length m) < 2 ^ 64 ->
  getFileHash hbuf a pre m = Some (hash_spec alg (pre_bytes pre ++ m)).
Proof.
  intros Hh H Hp Hsz. rewrite getFileHash_string by assumption. f_equal.
  rewrite <- (fold_std alg a _ H). f_equal.
  rewrite pad_with_spec_tail.
  assert (Hl : (length (pre_bytes pre ++ m) <= 64 + length m)%nat).
  { rewrite app_length. destruct pre as [p|]; cbn [pre_bytes length]; lia. }
  apply (string_loop_spec a (get_hasher_wf _ _ H) _ (reset a) _ 0%nat);
    [|reflexivity|reflexivity|cbn [Nat.add]; rewrite pow64 in *; lia].
  pose proof (div64_bounds (length (pre_bytes pre ++ m))).
  pose proof (div64_bounds (length m)). nia.
Qed.

Lemma C07_file_digest_is_standard_proof : forall hbuf alg a pre m,
  (1 <= hbuf)%nat -> get_hasher alg = Some a -> bytesb m = true ->
  match pre with None => True | Some p => length p = 64%nat /\ bytesb p = true end ->
  8 * N.of_nat (64 + length m) < 2 ^ 64 ->
  getFileHash hbuf a pre m = Some (hash_spec alg (match pre with None => [] | Some p => p end ++ m)).
Proof.
  intros hbuf alg a pre m Hh H _ Hp Hsz.
  apply (file_std hbuf alg a pre m); try assumption.
  destruct pre as [p|]; [apply Hp|exact I].
Qed.

Example C07_file_nonvacuous :
  (1 <= 2)%nat /\ get_hasher 0 = Some alg_sha1 /\ bytesb (zeros 200) = true /\
  (length (zeros 64) = 64%nat /\ bytesb (zeros 64) = true) /\
  8 * N.of_nat (64 + length (zeros 200)) < 2 ^ 64.
Proof. repeat split. auto. Qed.

(* ------------------------------------------------------------------------------------ *)
(** * 7. Digest lengths (used by the HMAC proofs)                                         *)
(* ------------------------------------------------------------------------------------ *)

Lemma map2_length {A B C} (f : A -> B -> C) : forall a b,
  length a = length b -> length (map2 f a b) = length a.
Proof.
  induction a as [|x a IH]; intros [|y b] H; cbn [map2 length] in *; try reflexivity; try discriminate H.
  f_equal. apply IH. injection H as H. exact H.
Qed.

Lemma set_nth_length n x : forall l, length (set_nth n x l) = length l.
Proof.
  induction n as [|n IH]; intros [|y l]; cbn [set_nth length]; try reflexivity.
  f_equal. apply IH.
Qed.

Lemma m_sha1_round_length W v i : length v = 5%nat -> length (m_sha1_round W v i) = 5%nat.
Proof.
  intro H. destruct v as [|a [|b [|c [|d [|e [|x v]]]]]]; try discriminate H. reflexivity.
Qed.

Lemma m_sha256_round_length W v i : length v = 8%nat -> length (m_sha256_round W v i) = 8%nat.
Proof.
  intro H. destruct v as [|a [|b [|c [|d [|e [|f [|g [|h [|x v]]]]]]]]]; try discriminate H. reflexivity.
Qed.

Lemma md5_step_length X v st : length (md5_step X v st) = length v.
Proof. destruct st as [[[[f regs] k] s] ac]. unfold md5_step. apply set_nth_length. Qed.

(* each compression function keeps the number of state words *)
Definition len_ok (a : halg) : Prop :=
  forall H blk, length H = length (ha_init a) -> length (ha_compress a H blk) = length (ha_init a).

Lemma len_ok_sha1 : len_ok alg_sha1.
Proof.
  intros H blk HH. change (length (ha_init alg_sha1)) with 5%nat in *.
  change (ha_compress alg_sha1 H blk) with (m_sha1_block H blk). unfold m_sha1_block. cbv zeta.
  rewrite map2_length; [exact HH|]. rewrite HH. symmetry.
  apply (fold_left_inv (fun v => length v = 5%nat)); [|exact HH].
  intros v i Hv. apply m_sha1_round_length, Hv.
Qed.

Lemma len_ok_sha256 : len_ok alg_sha256.
Proof.
  intros H blk HH. change (length (ha_init alg_sha256)) with 8%nat in *.
  change (ha_compress alg_sha256 H blk) with (m_sha256_block H blk). unfold m_sha256_block. cbv zeta.
  rewrite map2_length; [exact HH|]. rewrite HH. symmetry.
  apply (fold_left_inv (fun v => length v = 8%nat)); [|exact HH].
  intros v i Hv. apply m_sha256_round_length, Hv.
Qed.

Lemma len_ok_md5 : len_ok alg_md5.
Proof.
  intros H blk HH. change (length (ha_init alg_md5)) with 4%nat in *.
  change (ha_compress alg_md5 H blk) with (md5_block_with md5_steps H blk). unfold md5_block_with.
  rewrite map2_length; [exact HH|]. rewrite HH. symmetry.
  apply (fold_left_inv (fun v => length v = 4%nat)); [|exact HH].
  intros v i Hv. rewrite md5_step_length. exact Hv.
Qed.

Lemma getHash_final_length a st s : len_ok a ->
  length (hs_h st) = length (ha_init a) -> length (hs_h (getHash_final a st s)) = length (ha_init a).
Proof.
  intros Hok Hst. unfold getHash_final. cbv zeta.
  destruct (_ <=? _)%nat; rewrite !getHash_block_h; repeat apply Hok; exact Hst.
Qed.

Lemma string_loop_length a : len_ok a -> forall fuel st s,
  length (hs_h st) = length (ha_init a) -> length (hs_h (string_loop a fuel st s)) = length (ha_init a).
Proof.
  intro Hok. induction fuel as [|f IH]; intros st s Hst; cbn [string_loop]; [exact Hst|].
  destruct (_ <=? _)%nat.
  - apply IH. rewrite getHash_block_h. apply Hok, Hst.
  - apply getHash_final_length; assumption.
Qed.

Lemma flat_map_length4 (f : N -> list N) : (forall w, length (f w) = 4%nat) ->
  forall l, length (flat_map f l) = (4 * length l)%nat.
Proof.
  intro Hf. induction l as [|x l IH]; [reflexivity|].
  cbn [flat_map]. rewrite app_length, Hf, IH. cbn [length]. lia.
Qed.

(* every result of getStringHash has the algorithm's digest length, for every input *)
Lemma getStringHash_length alg a s : get_hasher alg = Some a ->
  length (getStringHash a s) = ha_hlen a /\
  ha_hlen a = match alg with 0 => 20%nat | 1 => 16%nat | _ => 32%nat end.
Proof.
  intro H. unfold getStringHash.
  destruct (get_hasher_cases _ _ H) as [[-> ->]|[[-> ->]|[-> ->]]]; (split; [|reflexivity]).
  - change (ha_out alg_sha1) with (flat_map be32_bytes).
    rewrite flat_map_length4 by reflexivity.
    rewrite (string_loop_length alg_sha1 len_ok_sha1) by reflexivity. reflexivity.
  - change (ha_out alg_md5) with (flat_map le32_bytes).
    rewrite flat_map_length4 by reflexivity.
    rewrite (string_loop_length alg_md5 len_ok_md5) by reflexivity. reflexivity.
  - change (ha_out alg_sha256) with (flat_map be32_bytes).
    rewrite flat_map_length4 by reflexivity.
    rewrite (string_loop_length alg_sha256 len_ok_sha256) by reflexivity. reflexivity.
Qed.

(* ------------------------------------------------------------------------------------ *)
(** * 8. Standard test vectors through the model and the specification (sanity)           *)
(* ------------------------------------------------------------------------------------ *)

(* "abc": FIPS 180-4 examples, RFC 1321 A.5 *)
Example sha1_abc :
  getStringHash alg_sha1 [97; 98; 99] =
    [0xa9;0x99;0x3e;0x36;0x47;0x06;0x81;0x6a;0xba;0x3e;0x25;0x71;0x78;0x50;0xc2;0x6c;0x9c;0xd0;0xd8;0x9d]
  /\ sha1 [97; 98; 99] = getStringHash alg_sha1 [97; 98; 99].
Proof. vm_compute. split; reflexivity. Qed.
Example md5_abc :
  getStringHash alg_md5 [97; 98; 99] =
    [0x90;0x01;0x50;0x98;0x3c;0xd2;0x4f;0xb0;0xd6;0x96;0x3f;0x7d;0x28;0xe1;0x7f;0x72]
  /\ md5 [97; 98; 99] = getStringHash alg_md5 [97; 98; 99].
Proof. vm_compute. split; reflexivity. Qed.
Example sha256_abc :
  getStringHash alg_sha256 [97; 98; 99] =
    [0xba;0x78;0x16;0xbf;0x8f;0x01;0xcf;0xea;0x41;0x41;0x40;0xde;0x5d;0xae;0x22;0x23;
     0xb0;0x03;0x61;0xa3;0x96;0x17;0x7a;0x9c;0xb4;0x10;0xff;0x61;0xf2;0x00;0x15;0xad]
  /\ sha256 [97; 98; 99] = getStringHash alg_sha256 [97; 98; 99].
Proof. vm_compute. split; reflexivity. Qed.

(* the file path with a prefix block, a one-block buffer (three refills) and a 57..63-byte tail
   (two final blocks), against the specification *)
Example file_refill_vector :
  let m := map N.of_nat (seq 0 190) in
  getFileHash 1 alg_sha256 (Some (zeros 64)) m = Some (sha256 (zeros 64 ++ m)) /\
  getFileHash 2 alg_md5 None m = Some (md5 m) /\
  getFileHash 3 alg_sha1 None (firstn 128 m) = Some (sha1 (firstn 128 m)).
Proof. vm_compute. repeat split. Qed.
