(* Layer M, the I/O thread (3): I_Load -- load_buffer, case by case, up to the lock of set_ready. *)
From Coq Require Import ZArith NArith List String Bool Lia Arith.
From Wencry Require Import Bytes FileModel PipeConc PipeLemmas MiniC MiniCLemmas MiniCConc SrcRun RefineSeqDefs RefineSeqA RefineSeqB.
From Wencry Require RefineIobuffer.
From Wencry Require Import RefineE2EfLay RefineE2EfMach RefineE2EfMem RefineE2EfTac RefineE2EfStepW RefineE2EfStepW2 RefineE2EfStepI RefineE2EfStepI2.
From Wencry.Gen Require Src_conc.
Import ListNotations.
Local Open Scope string_scope.
Local Open Scope list_scope.

Lemma tail_val : forall k, (0 <= k < 2 ^ 32)%Z -> wrap U32 (wrap U32 (Z.land k 15)) = (k mod 16)%Z.
Proof. intros k H. rewrite RefineIobuffer.land15 by lia. pose proof (Z.mod_pos_bound k 16 ltac:(lia)). rewrite !(wrap_U32_small (k mod 16)) by lia. reflexivity. Qed.
Lemma total_val : forall k, (0 <= k < 2 ^ 32)%Z -> wrap U32 (Z.shiftr k 4) = (k / 16)%Z.
Proof. intros k H. rewrite RefineIobuffer.shiftr4. apply wrap_U32_small. split; [apply Z.div_pos; lia|]. apply Z.div_lt_upper_bound; lia. Qed.

Lemma upd_dset_fin : forall d t B p e f, (t < List.length (d_bufs d))%nat ->
  with_bufs (with_fin (dset d t B) p e) (upd_buf t f (d_bufs (with_fin (dset d t B) p e))) = with_fin (dset d t (f B)) p e.
Proof.
  intros d t B p e f H. unfold upd_buf, dset, with_fin, with_bufs. cbn [d_bufs d_turn d_over d_live d_sm d_pos d_eof d_out].
  rewrite nth_set_nth_eq by exact H. rewrite set_nth_set_nth. reflexivity.
Qed.
(* a store into a one-cell member of buffer t, in a state of the form with_fin (dset d t B) p e *)
Ltac bstore mg ms Ht Lb :=
  mstep; [rewrite mg by exact Ht; reflexivity | apply store_cell | ];
  match goal with |- context [sh_of _ _ _ _ (with_fin (dset ?d ?t ?B) ?p ?e)] =>
    erewrite (sho_mset _ _ _ _ (with_fin (dset d t B) p e)); [ | apply ms; [exact Ht | cbn [with_fin d_bufs]; rewrite dset_length; exact Lb] | reflexivity];
    rewrite upd_dset_fin by (rewrite Lb; exact Ht) end.

Ltac mprim_some lem := eapply r_none; [discriminate | fo | eapply m_prim; [reflexivity | eapply exec_prim_some; [ev | lem]] | ].
Ltac mprim_none lem := eapply r_none; [discriminate | fo | eapply m_prim; [reflexivity | eapply exec_prim_none; [ev | lem]] | ].
Ltac after_prim :=
  repeat match goal with
  | |- context [shared_of (with_loc (tst (sh_of ?a ?b ?c ?d ?e) ?l ?p) ?l')] =>
      change (shared_of (with_loc (tst (sh_of a b c d e) l p) l')) with (sh_of a b c d e)
  | |- context [shared_of (tst (sh_of ?a ?b ?c ?d ?e) ?l ?p)] =>
      change (shared_of (tst (sh_of a b c d e) l p)) with (sh_of a b c d e)
  end;
  cbn [with_loc loc tst cont_conf next_of pre].


Section I3.
Context {LY : Layout} {LO : LayoutOk}.
Variables (c T : nat) (input0 : list N).
Notation cst pad := (cstate_md c T pad input0).
Notation sho pad := (sh_of c T pad input0).

(* ---- from the event 7 to the lock of set_ready ---- *)
Lemma load_tail : forall pad ws d g L ls evs R turn0,
  (d_turn d < T)%nat -> (T <= 255)%nat -> (ls = 0 \/ ls = 1 \/ ls = 2)%Z -> lget L "loadstate" = Some (VInt ls) ->
  let t := d_turn d in
  R = (cst pad (I_SetReady (Z.to_nat ls)) ws (with_over d (negb (ls =? 0)%Z)) (with_bu g L), evs ++ [(7, Z.of_nat t, ls)]%Z) ->
  exr 0 30 false (mk2 (seq_at 9 B_bu (F_bu T pad (g_rb g))) L GP TRun) (C (sho pad d) (threads_of T pad I_Load ws turn0 g) []) evs R.
Proof.
  intros pad ws d g L ls evs R turn0 Ht HT Hls HL t HR. fold t in Ht.
  pose proof (fun l => rd_turn c T pad input0 d l Ht ltac:(lia)) as RTu. fold t in RTu.
  unf. destruct Hls as [E|[E|E]]; subst ls; cbn [Z.eqb negb Z.to_nat Pos.to_nat Pos.iter_op Nat.add] in *.
  all: msteps; rewrite ?(wrap_I64_nat (Z.of_nat t)) by lia;
    (mstep; [rewrite mget_over; reflexivity | apply store_cell | ]).
  - erewrite (sho_mset _ _ _ _ d); [ | change (wrap TBool 0) with (b2z false); apply mset_over | reflexivity].
    pose proof (fun l => rd_turn c T pad input0 (with_over d false) l Ht ltac:(lia)) as RTu2. cbn [with_over d_turn] in RTu2. fold t in RTu2. clear RTu.
    msteps. subst R. stop_io (I_SetReady 0) (with_bu g L). reflexivity.
  - erewrite (sho_mset _ _ _ _ d); [ | change (wrap TBool 1) with (b2z true); apply mset_over | reflexivity].
    pose proof (fun l => rd_turn c T pad input0 (with_over d true) l Ht ltac:(lia)) as RTu2. cbn [with_over d_turn] in RTu2. fold t in RTu2. clear RTu.
    msteps. subst R. stop_io (I_SetReady 1) (with_bu g L). reflexivity.
  - erewrite (sho_mset _ _ _ _ d); [ | change (wrap TBool 1) with (b2z true); apply mset_over | reflexivity].
    pose proof (fun l => rd_turn c T pad input0 (with_over d true) l Ht ltac:(lia)) as RTu2. cbn [with_over d_turn] in RTu2. fold t in RTu2. clear RTu.
    msteps. subst R. stop_io (I_SetReady 2) (with_bu g L). reflexivity.
Qed.
(* ... and from the return of load_buffer *)
Lemma load_ret_tail : forall pad ws d g x y ls R turn0,
  (d_turn d < T)%nat -> (T <= 255)%nat -> (ls = 0 \/ ls = 1 \/ ls = 2)%Z ->
  let t := d_turn d in
  R = (cst pad (I_SetReady (Z.to_nat ls)) ws (with_over d (negb (ls =? 0)%Z))
           (with_bu g [("loadstate", VInt ls); ("$t1", x); ("$t2", y); ("$t3", VInt ls)]), [(7, Z.of_nat t, ls)]%Z) ->
  exr 0 35 false (RefineSeqB.mk SSkip (KSeq (SSet "loadstate" (EVar "$t3")) (snd (seq_at 8 B_bu (F_bu T pad (g_rb g)))))
                    [("loadstate", VInt 2); ("$t1", x); ("$t2", y); ("$t3", VInt ls)] GP TRun)
      (C (sho pad d) (threads_of T pad I_Load ws turn0 g) []) [] R.
Proof.
  intros pad ws d g x y ls R turn0 Ht HT Hls t HR. unf. mstep. mstep. mstep.
  eapply exr_weaken; [eapply (load_tail pad ws d g _ ls []); [exact Ht | exact HT | exact Hls | reflexivity | exact HR] | lia].
Qed.

(* ---- I_Load when loading is over: no call of load_buffer ---- *)
Lemma M_io_load_over : forall pad ws d g tl,
  dwf c T d -> List.length ws = T -> g_bu g = ("loadstate", VInt 2) :: tl -> d_over d = true ->
  let t := d_turn d in
  exists n, (n <= 100)%nat /\ cstep prog vt n (cst pad I_Load ws d g) 0 =
     Ok (cst pad (I_SetReady 2) ws (with_over d true) g, [(7, Z.of_nat t, 2)]%Z).
Proof.
  intros pad ws d g tl Hd Lw Hg Hov t.
  pose proof Hd as (Lb & Ln & Ht & Hlv & HT & Hc1 & Hc & Hb & Hn). fold t in Ht.
  pose proof (fun l => rd_turn c T pad input0 d l Ht ltac:(lia)) as RTu. pose proof (rd_over c T pad input0 d) as RO. fold t in RTu. rewrite Hov in RO. cbn [b2z] in RO.
  start_io 100. rewrite Hg. do 5 mstep.
  eapply exr_weaken; [eapply (load_tail pad ws d g (("loadstate", VInt 2) :: tl) 2 []); [exact Ht | lia | lia | reflexivity | ] | lia].
  cbn [Z.eqb negb app Z.to_nat Pos.to_nat Pos.iter_op Nat.add]. fold t. f_equal. f_equal. destruct g as [rb bu wl]. simpl in Hg. subst bu. reflexivity.
Qed.


(* ---- the effect of the stream primitives on the canonical shared state ---- *)
Lemma sho_fread : forall pad d l p t cells1 pos1 eof1, (t < T)%nat -> List.length (d_bufs d) = T ->
  with_files (with_mem (tst (sho pad d) l p) (mset (mem (tst (sho pad d) l p)) (bpfx t ++ "b") {| o_ty := U8; o_cells := cells1 |}))
             (lset (files (tst (sho pad d) l p)) "fin" {| cf_data := map Z.of_N input0; cf_pos := pos1; cf_eof := eof1 |})
  = tst (sho pad (with_fin (dset d t (mb_with_cells cells1 (nth t (d_bufs d) mb0))) pos1 eof1)) l p.
Proof.
  intros pad d l p t cells1 pos1 eof1 Ht Lb. unfold with_files, with_mem, tst. cbn [mem loc pre files ptrs fresh sh_of].
  rewrite mset_b by assumption. rewrite dset_upd. rewrite mem_fin. reflexivity.
Qed.
Lemma sho_fin : forall pad d l p pos1 eof1,
  with_files (tst (sho pad d) l p) (lset (files (tst (sho pad d) l p)) "fin" {| cf_data := map Z.of_N input0; cf_pos := pos1; cf_eof := eof1 |})
  = tst (sho pad (with_fin d pos1 eof1)) l p.
Proof. intros. unfold with_files, tst. cbn [mem loc pre files ptrs fresh sh_of]. rewrite mem_fin. reflexivity. Qed.
Lemma lget_fin_file : forall pad d l p, lget (files (tst (sho pad d) l p)) "fin" = Some {| cf_data := map Z.of_N input0; cf_pos := d_pos d; cf_eof := d_eof d |}.
Proof. reflexivity. Qed.

(* ---- load_buffer, padding on, a full chunk was read ---- *)
Lemma M_io_load_enc_full : forall ws d g x y,
  dwf c T d -> List.length ws = T -> g_bu g = [("loadstate", VInt 2); ("$t1", x); ("$t2", y)] -> d_over d = false -> d_eof d = false ->
  let t := d_turn d in
  let b := nth t (d_bufs d) mb0 in
  let got := firstn (16 * c) (skipn (d_pos d) (map Z.of_N input0)) in
  let k := List.length got in
  k = (16 * c)%nat ->
  let B' := {| mb_cells := upd_range 0 got (mb_cells b); mb_tot := Z.of_nat k / 16; mb_now := 0; mb_tail := Z.of_nat k mod 16; mb_fin := mb_fin b; mb_st := mb_st b |} in
  exists n, (n <= 150)%nat /\ cstep prog vt n (cst true I_Load ws d g) 0 =
     Ok (cst true (I_SetReady 0) ws (with_over (with_fin (dset d t B') (d_pos d + k) false) false)
             (with_bu g [("loadstate", VInt 0); ("$t1", x); ("$t2", y); ("$t3", VInt 0)]), [(7, Z.of_nat t, 0)]%Z).
Proof.
  intros ws d g x y Hd Lw Hg Hov Heof t b got k Hk B'.
  pose proof Hd as (Lb & Ln & Ht & Hlv & HT & Hc1 & Hc & Hb & Hn). destruct (Hb _ Ht) as (Hst & Htot & Hnow & Hlen & Hbytes). fold t b in Ht, Hst, Htot, Hnow, Hlen, Hbytes.
  pose proof (fun l => rd_turn c T true input0 d l Ht ltac:(lia)) as RTu. pose proof (rd_over c T true input0 d) as RO. pose proof (rd_pad c T true input0 d) as RP.
  fold t in RTu. rewrite Hov in RO. cbn [b2z] in RO, RP.
  pose proof (fun l => rd_sum c T input0 true d l (bpfx t) Hc) as RS.
  start_io 150. rewrite Hg. msteps. change (elem_pfx BL t) with (bpfx t). msteps.
  assert (Hgot : got = firstn (Z.to_nat (16 * Z.of_nat c)) (skipn (d_pos d) (map Z.of_N input0))) by (unfold got; f_equal; lia).
  mprim_some ltac:(idtac; change (wrap U64 1) with 1%Z; rewrite (wrap_U64_small (16 * Z.of_nat c)) by lia;
                   eapply (RefineIobuffer.prim_fread _ _ _ _ _ _ (lget_fin_file _ _ _ _)); [evs; rewrite mget_b by exact Ht; reflexivity | lia | exact Hgot | fold b k; rewrite Hlen; lia]).
  cbn [cf_data cf_pos cf_eof]. rewrite Heof. fold b k. rewrite sho_fread by assumption. after_prim. fold b.
  assert (Hklt : (Z.of_nat k <? 16 * Z.of_nat c)%Z = false) by (apply Z.ltb_ge; lia).
  assert (Hks : (Z.of_nat k =? 16 * Z.of_nat c)%Z = true) by (apply Z.eqb_eq; lia).
  assert (Hk0 : (Z.of_nat k =? 0)%Z = false) by (apply Z.eqb_neq; lia).
  rewrite Hklt. cbn [orb].
  set (d1 := with_fin (dset d t (mb_with_cells (upd_range 0 got (mb_cells b)) b)) (d_pos d + k) false).
  pose proof (fun l => rd_sum c T input0 true d1 l (bpfx t) Hc) as RS1. clear RS.
  msteps. rewrite (wrap_U32_small (Z.of_nat k)) by lia.
  mprim_some ltac:(idtac; eapply RefineIobuffer.prim_feof; apply lget_fin_file). after_prim. cbn [cf_eof d1 with_fin d_eof].
  msteps. unfold d1.
  bstore mget_tail mset_tail Ht Lb. rewrite tail_val by lia.
  msteps. bstore mget_tot mset_tot Ht Lb. rewrite total_val by lia.
  msteps. bstore mget_now mset_now Ht Lb. change (wrap U32 (wrap U32 0)) with 0%Z.
  cbn [mb_with_tail mb_with_tot mb_with_now mb_with_cells mb_cells mb_tot mb_now mb_tail mb_fin mb_st].
  clear RS1. match goal with |- context [C (sh_of _ _ ?pd _ ?dd) _ _] => pose proof (fun l => rd_sum c T input0 pd dd l (bpfx t) Hc) as RS2 end.
  msteps_ret.
  eapply exr_weaken; [eapply load_ret_tail; [exact Ht | lia | left; reflexivity | ] | lia].
  cbn [Z.eqb negb Z.to_nat]. reflexivity.
Qed.


Lemma exec_memset : forall s dp v n dv x k s', eval s dp = Ok dv -> eval s v = Ok (VInt x) -> eval s n = Ok (VInt k) ->
  do_memset s dv x k = Ok s' -> exec prog vt 1 (SMemset dp v n) s = Ok (Normal, s').
Proof. intros s dp v n dv x k s' H1 H2 H3 H4. cbn [exec]. rewrite H1. cbn [bind]. rewrite H2. cbn [bind as_int]. rewrite H3. cbn [bind as_int]. rewrite H4. reflexivity. Qed.
Lemma sho_memb : forall pad d l p t B pos e cells2, (t < T)%nat -> List.length (d_bufs d) = T ->
  with_mem (tst (sho pad (with_fin (dset d t B) pos e)) l p)
           (mset (mem (tst (sho pad (with_fin (dset d t B) pos e)) l p)) (bpfx t ++ "b") {| o_ty := U8; o_cells := cells2 |})
  = tst (sho pad (with_fin (dset d t (mb_with_cells cells2 B)) pos e)) l p.
Proof.
  intros pad d l p t B pos e cells2 Ht Lb. unfold with_mem, tst. cbn [mem loc pre files ptrs fresh sh_of].
  rewrite mset_b by (try exact Ht; cbn [with_fin d_bufs]; rewrite dset_length; exact Lb).
  rewrite upd_dset_fin by (rewrite Lb; exact Ht). reflexivity.
Qed.
Lemma pad_val : forall k, (0 <= k)%Z -> wrap U8 ((wrap U32 16 - k mod 16) mod 2 ^ 32) = (16 - k mod 16)%Z.
Proof.
  intros k H. pose proof (Z.mod_pos_bound k 16 ltac:(lia)). change (wrap U32 16) with 16%Z.
  rewrite (Z.mod_small (16 - k mod 16)) by lia. apply wrap_U8_small. lia.
Qed.

Lemma rd_tail : forall pad d i l, (i < T)%nat -> (0 <= mb_tail (nth i (d_bufs d) mb0) < 2 ^ 32)%Z ->
  eval (tst (sho pad d) l (bpfx i)) (ELoad U32 (EField "tail")) = Ok (VInt (mb_tail (nth i (d_bufs d) mb0))).
Proof. intros pad d i l Hi H. evs. rewrite mget_tail by exact Hi. rewrite load_cell. rewrite wrap_U32_small by lia. reflexivity. Qed.
Lemma rd_tot' : forall pad d i l, (i < T)%nat -> (0 <= mb_tot (nth i (d_bufs d) mb0) < 2 ^ 32)%Z ->
  eval (tst (sho pad d) l (bpfx i)) (ELoad U32 (EField "total")) = Ok (VInt (mb_tot (nth i (d_bufs d) mb0))).
Proof. intros pad d i l Hi H. evs. rewrite mget_tot by exact Hi. rewrite load_cell. rewrite wrap_U32_small by lia. reflexivity. Qed.
Lemma nth_dset_fin : forall d t B p e, (t < List.length (d_bufs d))%nat -> nth t (d_bufs (with_fin (dset d t B) p e)) mb0 = B.
Proof. intros. cbn [with_fin d_bufs]. apply nth_dset. exact H. Qed.

(* ---- load_buffer, padding on, the end of the input: the last chunk is padded ---- *)
Lemma M_io_load_enc_final : forall ws d g x y,
  dwf c T d -> List.length ws = T -> g_bu g = [("loadstate", VInt 2); ("$t1", x); ("$t2", y)] -> d_over d = false -> d_eof d = false ->
  let t := d_turn d in
  let b := nth t (d_bufs d) mb0 in
  let got := firstn (16 * c) (skipn (d_pos d) (map Z.of_N input0)) in
  let k := List.length got in
  (k < 16 * c)%nat ->
  let padv := (16 - Z.of_nat k mod 16)%Z in
  let B' := {| mb_cells := upd_range k (repeat padv (Z.to_nat padv)) (upd_range 0 got (mb_cells b));
               mb_tot := Z.of_nat k / 16 + 1; mb_now := 0; mb_tail := Z.of_nat k mod 16; mb_fin := true; mb_st := mb_st b |} in
  exists n, (n <= 150)%nat /\ cstep prog vt n (cst true I_Load ws d g) 0 =
     Ok (cst true (I_SetReady 1) ws (with_over (with_fin (dset d t B') (d_pos d + k) true) true)
             (with_bu g [("loadstate", VInt 1); ("$t1", x); ("$t2", y); ("$t3", VInt 1)]), [(7, Z.of_nat t, 1)]%Z).
Proof.
  intros ws d g x y Hd Lw Hg Hov Heof t b got k Hk padv B'. subst B' padv.
  pose proof Hd as (Lb & Ln & Ht & Hlv & HT & Hc1 & Hc & Hb & Hn). destruct (Hb _ Ht) as (Hst & Htot & Hnow & Hlen & Hbytes). fold t b in Ht, Hst, Htot, Hnow, Hlen, Hbytes.
  pose proof (fun l => rd_turn c T true input0 d l Ht ltac:(lia)) as RTu. pose proof (rd_over c T true input0 d) as RO. pose proof (rd_pad c T true input0 d) as RP.
  fold t in RTu. rewrite Hov in RO. cbn [b2z] in RO, RP.
  pose proof (fun l => rd_sum c T input0 true d l (bpfx t) Hc) as RS.
  start_io 150. rewrite Hg. msteps. change (elem_pfx BL t) with (bpfx t). msteps.
  assert (Hgot : got = firstn (Z.to_nat (16 * Z.of_nat c)) (skipn (d_pos d) (map Z.of_N input0))) by (unfold got; f_equal; lia).
  mprim_some ltac:(idtac; change (wrap U64 1) with 1%Z; rewrite (wrap_U64_small (16 * Z.of_nat c)) by lia;
                   eapply (RefineIobuffer.prim_fread _ _ _ _ _ _ (lget_fin_file _ _ _ _)); [evs; rewrite mget_b by exact Ht; reflexivity | lia | exact Hgot | fold b k; rewrite Hlen; lia]).
  cbn [cf_data cf_pos cf_eof]. rewrite Heof. fold b k. rewrite sho_fread by assumption. after_prim. fold b.
  set (padv := (16 - Z.of_nat k mod 16)%Z).
  assert (Hklt : (Z.of_nat k <? 16 * Z.of_nat c)%Z = true) by (apply Z.ltb_lt; lia).
  assert (Hks : (Z.of_nat k =? 16 * Z.of_nat c)%Z = false) by (apply Z.eqb_neq; lia).
  rewrite Hklt. cbn [orb].
  set (d1 := with_fin (dset d t (mb_with_cells (upd_range 0 got (mb_cells b)) b)) (d_pos d + k) true).
  pose proof (fun l => rd_sum c T input0 true d1 l (bpfx t) Hc) as RS1. clear RS.
  msteps. rewrite (wrap_U32_small (Z.of_nat k)) by lia.
  mprim_some ltac:(idtac; eapply RefineIobuffer.prim_feof; apply lget_fin_file). after_prim. cbn [cf_eof d1 with_fin d_eof].
  msteps. unfold d1.
  bstore mget_tail mset_tail Ht Lb. rewrite tail_val by lia.
  msteps. bstore mget_tot mset_tot Ht Lb. rewrite total_val by lia.
  msteps. bstore mget_now mset_now Ht Lb. change (wrap U32 (wrap U32 0)) with 0%Z.
  cbn [mb_with_tail mb_with_tot mb_with_now mb_with_cells mb_cells mb_tot mb_now mb_tail mb_fin mb_st].
  clear RS1. match goal with |- context [C (sh_of _ _ ?pd _ ?dd) _ _] => pose proof (fun l => rd_sum c T input0 pd dd l (bpfx t) Hc) as RS2 end.
  msteps.
  assert (Hm16 : (0 <= Z.of_nat k mod 16 < 16)%Z) by (apply Z.mod_pos_bound; lia).
  assert (Hd16 : (0 <= Z.of_nat k / 16 < Z.of_nat c)%Z) by (split; [apply Z.div_pos; lia | apply Z.div_lt_upper_bound; lia]).
  match goal with |- context [C (sh_of _ _ ?pd _ ?dd) _ _] =>
    pose proof (fun l => rd_tail pd dd t l Ht) as RT2; pose proof (fun l => rd_tot' pd dd t l Ht) as RT3 end.
  rewrite nth_dset_fin in RT2, RT3 by (rewrite Lb; exact Ht). cbn [mb_tail mb_tot mb_with_tail mb_with_tot mb_with_now mb_with_cells] in RT2, RT3.
  specialize (fun l => RT2 l ltac:(lia)). specialize (fun l => RT3 l ltac:(lia)).
  mstep. rewrite pad_val by lia. fold padv. msteps.
  bstore mget_tot mset_tot Ht Lb. cbn [mb_with_tot mb_tot mb_cells mb_now mb_tail mb_fin mb_st]. cbn [ity_bits].
  rewrite (Z.mod_small (Z.of_nat k / 16 + 1)) by lia. rewrite (wrap_U32_small (Z.of_nat k / 16 + 1)) by lia.
  msteps. clear RT2 RT3 RS2.
  match goal with |- context [C (sh_of _ _ ?pd _ ?dd) _ _] =>
    pose proof (fun l => rd_tail pd dd t l Ht) as RT2 end.
  rewrite nth_dset_fin in RT2 by (rewrite Lb; exact Ht). cbn [mb_tail mb_tot mb_with_tail mb_with_tot mb_with_now mb_with_cells] in RT2. specialize (fun l => RT2 l ltac:(lia)).
  assert (Hoff : (0 + Z.of_nat k / 16 * 16 + Z.of_nat k mod 16 * 1 = Z.of_nat k)%Z) by (pose proof (Z.div_mod (Z.of_nat k) 16 ltac:(lia)); lia).
  eapply r_none; [discriminate | fo | eapply m_atomic; [reflexivity | eapply exec_memset; [ev | ev | ev | ]] | ].
  { rewrite Hoff. rewrite (wrap_I32_small padv), (wrap_U64_small padv) by (unfold padv; change (2 ^ 31)%Z with 2147483648%Z; lia).
    eapply RefineIobuffer.memset_bytes; [evs; rewrite mget_b by exact Ht; rewrite nth_dset_fin by (rewrite Lb; exact Ht); reflexivity | lia | unfold padv; lia | ].
    cbn [mb_cells mb_with_tot mb_with_now mb_with_tail mb_with_cells]. rewrite upd_range_length, Hlen. unfold padv.
    pose proof (Z.div_mod (Z.of_nat k) 16 ltac:(lia)). lia. }
  rewrite sho_memb by assumption. after_prim. rewrite Nat2Z.id. rewrite (Z.mod_small padv) by (unfold padv; lia).
  cbn [mb_with_cells mb_cells mb_tot mb_now mb_tail mb_fin mb_st].
  msteps.
  mstep; [rewrite mget_fin by exact Ht; reflexivity | apply store_cell | ].
  match goal with |- context [sh_of _ _ _ _ (with_fin (dset ?d ?t ?B) ?p ?e)] =>
    erewrite (sho_mset _ _ _ _ (with_fin (dset d t B) p e)); [ | change (wrap TBool 1) with (b2z true); apply mset_fin; [exact Ht | cbn [with_fin d_bufs]; rewrite dset_length; exact Lb] | reflexivity];
    rewrite upd_dset_fin by (rewrite Lb; exact Ht) end.
  cbn [mb_with_fin mb_with_tot mb_with_now mb_with_tail mb_with_cells mb_cells mb_tot mb_now mb_tail mb_fin mb_st].
  msteps_ret.
  eapply exr_weaken; [eapply load_ret_tail; [exact Ht | lia | right; left; reflexivity | ] | lia].
  cbn [Z.eqb negb Z.to_nat Pos.to_nat Pos.iter_op Nat.add]. reflexivity.
Qed.

End I3.
