(* Tools for the hash calls of execute_encrypt / execute_decrypt in the whole-program world:
   - worlds without planned objects at any heap counter (tau = identity);
   - call_sim that keeps the relation of the final states;
   - the frame theorem of RefineE2EFrame for symbolic keys that end in a digit ("#<n>@<off>");
   - fwrite at an inner position = FileModel.patch. *)
From Coq Require Import ZArith NArith List String Bool Lia PeanoNat Ascii.
From Wencry Require Import Bytes FileModel MiniC MiniCRun MiniCLemmas SrcRun SrcRun2 SrcRun5 RefineCliLib
     RefineE2ENames RefineE2ERel RefineE2EEval RefineE2EAlloc RefineE2ESim RefineE2EFrame RefineE2EWhole RefineE2EBridge RefineE2E.
Import ListNotations.
Local Open Scope list_scope.
Local Open Scope string_scope.

(* ---------------- the world with nothing planned, heap counter f ---------------- *)
Definition Wf (f : nat) : world := {| wa := None; wb := None; wf := f |}.
Lemma tau_Wf : forall f k, tau (Wf f) k = k.
Proof.
  intros f k. unfold tau. destruct k as [|ch k]; [reflexivity|]. unfold hp, bp. cbn [wa wb Wf].
  destruct (inb (String ch k) RefineE2ENames.five); [reflexivity|].
  destruct (strip "buf." (String ch k)) as [r|] eqn:E1; [symmetry; apply strip_Some, E1|].
  destruct (strip "class:" (String ch k)) as [r|] eqn:E2; [|reflexivity].
  apply strip_Some in E2. rewrite E2. f_equal. unfold t1, hp, bp. cbn [wa wb Wf].
  destruct (String.eqb_spec r "") as [->|]; [reflexivity|]. destruct (String.eqb_spec r "buf.") as [->|]; reflexivity.
Qed.
Lemma rv_Wf : forall f v, rv (Wf f) v = v.
Proof. intros f [z|o off|]; cbn [rv]; [reflexivity| |reflexivity]. now rewrite tau_Wf. Qed.
Lemma lmap_Wf : forall f l, lmap (Wf f) l = l.
Proof. intros f. induction l as [|[k v] r IH]; [reflexivity|]. unfold lmap in *. cbn [map fst snd]. now rewrite rv_Wf, IH. Qed.
Lemma map_rv_Wf : forall f vs, map (rv (Wf f)) vs = vs.
Proof. intros f. induction vs as [|v vs IH]; [reflexivity|]. cbn [map]. now rewrite rv_Wf, IH. Qed.
Lemma wf_Wf : forall f, wfW (Wf f).
Proof. intro f. unfold wfW, Wf. cbn. repeat split; intros; discriminate. Qed.
Lemma nmb_nm_f : forall f k, nmb k = true -> nm (Wf f) k.
Proof.
  intros f k H. unfold nmb in H. apply orb_prop in H. destruct H as [H|H]; [apply orb_prop in H; destruct H as [H|H]|].
  - left. exact H.
  - right. left. apply prefix_sz, H.
  - apply String.eqb_eq in H. subst k. right. right. left. exists 0%nat. reflexivity.
Qed.
Lemma nm_Wf_cases : forall f k, nm (Wf f) k -> nmb k = true \/ (exists r, k = String "#"%char r).
Proof.
  intros f k [H|[[r ->]|[[n ->]|[(n & x & -> & _)|[[Ha _]|[Hb _]]]]]].
  - left. unfold nmb. rewrite H. reflexivity.
  - left. unfold nmb. rewrite RefineFileBase.sizeof_prefix. rewrite orb_true_r. reflexivity.
  - right. unfold heap_name. eauto.
  - right. rewrite hobj_app. eauto.
  - exfalso. apply Ha. reflexivity.
  - exfalso. apply Hb. reflexivity.
Qed.

(* ---------------- call_sim, keeping the relation between the final states ---------------- *)
Section SimR.
Variable prog prog' : program.
Variable cls0 : string.
Variable E : list string.
Variable OKL UL : list string.
Hypothesis HE : forall e, In e E -> exists r, e = "sizeof:" ++ r.
Hypothesis Hcls0 : In cls0 hashcls.
Hypothesis HOK : forall g, In g OKL -> exists fn, lget prog g = Some fn /\ lget prog' g = Some fn /\ oks prog E OKL UL (inb g UL) (f_body fn) = true.

Lemma call_simR : forall fuel g pfx vs s S W v s',
  In g OKL -> preok W pfx -> (pfx = "" -> inb g UL = true) -> Forall (gv W) vs -> Rel cls0 E W s S ->
  call prog (vt0 cls0) fuel g pfx vs s = Ok (v, s') ->
  exists W' S' s1 S1, ext W W' /\ call prog' [] fuel g (tau W pfx) (map (rv W) vs) S = Ok (option_map (rv W') v, S') /\
    Rel cls0 E W' s1 S1 /\
    mem s1 = mem s' /\ ptrs s1 = ptrs s' /\ files s1 = files s' /\ fresh s1 = fresh s' /\
    mem S1 = mem S' /\ ptrs S1 = ptrs S' /\ files S1 = files S' /\ fresh S1 = fresh S'.
Proof.
  intros fuel g pfx vs s S W v s' Hg Hp Hpu Gvs R H. unfold call in *.
  destruct (HOK g Hg) as (fn & L1 & L2 & Kf). rewrite L1 in H. rewrite L2.
  bo H as l El. destruct (bind_params_sim W _ _ _ El Gvs) as [El' Gl]. rewrite El'. cbn [bind].
  bo H as r1 E1. destruct r1 as [o1 s1]. injection H as <- <-.
  destruct (exec_sim prog prog' cls0 E OKL UL HE Hcls0 HOK fuel (f_body fn) (inb g UL)
              {| mem := mem s; loc := l; pre := pfx; files := files s; ptrs := ptrs s; fresh := fresh s |}
              {| mem := mem S; loc := lmap W l; pre := tau W pfx; files := files S; ptrs := ptrs S; fresh := fresh S |}
              W o1 s1 Kf Hpu (rel_enter cls0 E W s S pfx l R Hp Gl) E1) as (W1 & S1 & X1 & Ex1 & R1 & G1 & P1).
  exists W1. eexists. exists s1, S1. split; [exact X1|]. rewrite Ex1. cbn [bind].
  split; [destruct o1 as [| |[w|]]; reflexivity|]. split; [exact R1|]. cbn [mem ptrs files fresh]. repeat split; reflexivity.
Qed.
End SimR.

(* ---------------- the frame theorem for other keys ---------------- *)
Fixpoint sfields (st : stmt) : list string :=
  match st with
  | SSeq a b | SIf _ a b | SLoop _ a b => sfields a ++ sfields b
  | SDoWhile a _ => sfields a
  | SSetPtr (EField f) _ => [f]
  | _ => []
  end.
Lemma fok_keys : forall prog FL Keys st, fok prog FL [] st = true ->
  (forall f k, In f (sfields st) -> In k Keys -> has_suffix f k = false) -> fok prog FL Keys st = true.
Proof.
  intros prog FL Keys. induction st; intros K H; cbn [fok sfields] in *; try exact K;
    try (apply andb_prop in K; destruct K as [K1 K2]; apply andb_true_iff; split;
         [apply IHst1; [exact K1|intros f k Hf Hk; apply H; [apply in_or_app; left; exact Hf|exact Hk]]
         |apply IHst2; [exact K2|intros f k Hf Hk; apply H; [apply in_or_app; right; exact Hf|exact Hk]]]).
  - apply IHst; assumption.
  - destruct p; try discriminate K. apply forallb_forall. intros k Hk. rewrite (H f k (or_introl eq_refl) Hk). reflexivity.
Qed.

Fixpoint lastc (s : string) : option ascii :=
  match s with EmptyString => None | String c r => match r with EmptyString => Some c | _ => lastc r end end.
Lemma lastc_app : forall p f, f <> "" -> lastc (p ++ f) = lastc f.
Proof.
  induction p as [|c p IH]; intros f Hf; cbn [append]; [reflexivity|].
  cbn [lastc]. rewrite IH by exact Hf. destruct (p ++ f) eqn:E; [|reflexivity]. destruct p; cbn in E; [congruence|discriminate].
Qed.
Lemma has_suffix_split : forall f k, has_suffix f k = true -> exists p, k = p ++ f.
Proof.
  intros f. induction k as [|c k IH]; intro H; cbn [has_suffix] in H.
  - rewrite orb_false_r in H. apply String.eqb_eq in H. exists "". now subst.
  - apply orb_prop in H. destruct H as [H|H]; [apply String.eqb_eq in H; exists ""; now subst|].
    destruct (IH H) as [p ->]. exists (String c p). reflexivity.
Qed.
Lemma lastc_dig : forall d, lastc (dig d) = Some (ascii_of_nat (48 + d)).
Proof. reflexivity. Qed.
Lemma lastc_nat_string : forall n, lastc (nat_string n) = Some (ascii_of_nat (48 + n mod 10)).
Proof.
  intros n. destruct (Nat.lt_ge_cases n 10) as [H|H].
  - rewrite ns_small by exact H. rewrite Nat.mod_small by exact H. reflexivity.
  - rewrite ns_big by exact H. rewrite lastc_app by discriminate. reflexivity.
Qed.
Lemma isd_digit : forall d, (d < 10)%nat -> isd (ascii_of_nat (48 + d)) = true.
Proof.
  intros d H. unfold isd. rewrite nat_ascii_embedding by lia. apply andb_true_iff. split; apply Nat.leb_le; lia.
Qed.
Lemma lastc_key : forall m off, (0 <= off)%Z -> exists c, lastc (ptr_key (heap_name m) off) = Some c /\ isd c = true.
Proof.
  intros m off H. unfold ptr_key. destruct (off =? 0)%Z eqn:E.
  - unfold heap_name. exists (ascii_of_nat (48 + m mod 10)). split; [|apply isd_digit, Nat.mod_upper_bound; lia].
    pose proof (lastc_nat_string m) as L. cbn [lastc]. destruct (nat_string m); [discriminate L|exact L].
  - apply Z.eqb_neq in E. unfold z_string. destruct (off <? 0)%Z eqn:E2; [apply Z.ltb_lt in E2; lia|].
    exists (ascii_of_nat (48 + Z.to_nat off mod 10)). split; [|apply isd_digit, Nat.mod_upper_bound; lia].
    rewrite <- append_assoc_s. rewrite lastc_app; [apply lastc_nat_string|].
    intro E0. pose proof (lastc_nat_string (Z.to_nat off)) as L. rewrite E0 in L. discriminate L.
Qed.
Lemma key_nosuffix : forall m off f c, (0 <= off)%Z -> lastc f = Some c -> isd c = false -> has_suffix f (ptr_key (heap_name m) off) = false.
Proof.
  intros m off f c H Lf Hc. destruct (has_suffix f (ptr_key (heap_name m) off)) eqn:E; [|reflexivity]. exfalso.
  apply has_suffix_split in E. destruct E as [p E]. destruct (lastc_key m off H) as (c' & L & D).
  rewrite E in L. rewrite lastc_app in L by (intro E0; subst f; discriminate Lf). congruence.
Qed.

(* the checked functions of the verification / hash code against any key ending in a digit *)
Definition Fields0 : list string := ["fp"; "hmac_res"; "buf"].
Lemma HFL0_nil : forall g fn, In g FL0 -> lget whole_prog g = Some fn ->
  fok whole_prog FL0 [] (f_body fn) = true /\ (forall f, In f (sfields (f_body fn)) -> In f Fields0).
Proof.
  assert (C : forallb (fun g => match lget whole_prog g with
                                | Some fn => fok whole_prog FL0 [] (f_body fn) && forallb (fun f => inb f Fields0) (sfields (f_body fn))
                                | None => true end) FL0 = true) by (vm_compute; reflexivity).
  intros g fn Hg L. rewrite forallb_forall in C. specialize (C g Hg). rewrite L in C. apply andb_prop in C. destruct C as [C1 C2].
  split; [exact C1|]. intros f Hf. rewrite forallb_forall in C2. apply inb_In, C2, Hf.
Qed.
Definition KeysD (m : nat) (off : Z) : list string := ["rc.fin"; "rc.out"; ptr_key (heap_name m) off].
Lemma HFLD : forall m off, (0 <= off)%Z -> forall g fn, In g FL0 -> lget whole_prog g = Some fn -> fok whole_prog FL0 (KeysD m off) (f_body fn) = true.
Proof.
  intros m off Ho g fn Hg L. destruct (HFL0_nil g fn Hg L) as [K F]. apply fok_keys; [exact K|].
  intros f k Hf Hk. apply F in Hf. cbn [Fields0 In] in Hf. cbn [KeysD In] in Hk.
  destruct Hk as [<-|[<-|[<-|[]]]]; destruct Hf as [<-|[<-|[<-|[]]]]; try reflexivity;
    (eapply key_nosuffix; [exact Ho|reflexivity|reflexivity]).
Qed.
Lemma HKD : forall m off k, In k (KeysD m off) -> strip "class:" k = None.
Proof.
  intros m off k [<-|[<-|[<-|[]]]]; try reflexivity. unfold ptr_key, heap_name. destruct (off =? 0)%Z; reflexivity.
Qed.
Lemma call_frameD : forall m off, (0 <= off)%Z -> forall fuel g pfx vs s v s', In g FL0 -> call whole_prog [] fuel g pfx vs s = Ok (v, s') -> Fr (KeysD m off) s s'.
Proof.
  intros m off Ho fuel g pfx vs s v s' Hg H. unfold call in H. destruct (lget whole_prog g) as [fn|] eqn:L; [|discriminate H].
  bo H as l El. bo H as r1 E1. destruct r1 as [o1 s1]. injection H as _ <-.
  pose proof (frame whole_prog [] FL0 (KeysD m off) (HFLD m off Ho) (HKD m off) fuel _ _ _ _ (HFLD m off Ho g fn Hg L) E1) as [A B].
  split; [exact A|exact B].
Qed.

(* ---------------- fwrite inside a stream = patch ---------------- *)
Local Open Scope list_scope.
Lemma map_of_to_N : forall l : list Z, Forall (fun z => 0 <= z < 256)%Z l -> map Z.of_N (map Z.to_N l) = l.
Proof. induction 1 as [|z l Hz Hl IH]; [reflexivity|]. cbn [map]. rewrite Z2N.id by lia. now rewrite IH. Qed.
Lemma map_repeat0 : forall n, map Z.of_N (zeros n) = repeat 0%Z n.
Proof. intro n. unfold zeros. induction n as [|n IH]; [reflexivity|]. cbn [repeat map]. now rewrite IH. Qed.
Lemma fwrite_patch : forall (d : list Z) (off : nat) (tag : list N), Forall (fun z => 0 <= z < 256)%Z d ->
  (if Nat.eqb off (List.length d) then d ++ map Z.of_N tag
   else let d0 := d ++ repeat 0%Z (off - List.length d) in
        firstn off d0 ++ map Z.of_N tag ++ skipn (off + List.length (map Z.of_N tag)) d0) =
  map Z.of_N (patch (map Z.to_N d) off tag).
Proof.
  intros d off tag Hd. unfold patch. rewrite !map_app, <- firstn_map, <- skipn_map, map_app, map_repeat0, (map_of_to_N d Hd), !map_length.
  destruct (Nat.eqb_spec off (List.length d)) as [->|N]; [|reflexivity].
  rewrite Nat.sub_diag. cbn [repeat]. rewrite app_nil_r. rewrite firstn_all. rewrite skipn_all2 by lia. now rewrite app_nil_r.
Qed.
