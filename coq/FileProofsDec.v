(* Proofs for C01: execute_decrypt (execute_encrypt P) = P and execute_verify accepts, for every
   length, mode, hash, key, seed, thread count and chunk size (model of FileModel.v).

   Layout:
   1. list / byte helpers;
   2. a Section generic over the block functions E D: after every block the decryptor's register
      equals the encryptor's register (all five modes), lifted to [run], to one chunk, and by
      induction over the chunk list to the whole pipeline ([pipe_roundtrip]);
   3. the shape of the loads performed by encryption and by decryption;
   4. header / patch / verify facts and the assembly of [C01_roundtrip_proof]. *)
From Coq Require Import NArith ZArith List Bool Arith Lia PeanoNat ZifyNat ZifyN ZifyBool.
From Wencry Require Import Bytes AesSpec AesModel ModesSpec ModesModel HashSpec HashModel
  FileModel FileSpec FileProps AesProofs ModesProofs HashProofs HmacProofs.
From Wencry.Gen Require Layout.
Import ListNotations.
Local Open Scope N_scope.
Local Ltac Zify.zify_post_hook ::= Z.to_euclidean_division_equations.

(* ------------------------------------------------------------------------------------------ *)
(* 1. helpers                                                                                  *)
(* ------------------------------------------------------------------------------------------ *)

Lemma bytes_app : forall a b, bytes a -> bytes b -> bytes (a ++ b).
Proof. intros a b Ha Hb. apply Forall_app. split; assumption. Qed.

Lemma bytes_firstn_skipn : forall n l, bytes l -> bytes (firstn n l) /\ bytes (skipn n l).
Proof.
  intros n l H. unfold bytes in *. rewrite <- (firstn_skipn n l) in H.
  apply Forall_app in H. exact H.
Qed.

Lemma bytes_repeat : forall x n, x < 256 -> bytes (repeat x n).
Proof. intros x n Hx. induction n as [|n IH]; cbn [repeat]; constructor; assumption. Qed.

Lemma bytes_concat : forall bs, Forall bytes bs -> bytes (concat bs).
Proof.
  induction bs as [|b r IH]; intro H; cbn [concat]; [constructor|].
  inversion H; subst. apply bytes_app; [assumption|apply IH; assumption].
Qed.

Lemma blocks16_bytes : forall bs, blocks16 bs -> Forall bytes bs.
Proof.
  intros bs H. induction H as [|b r Hb Hr IH]; constructor; [|exact IH].
  apply block16_iff in Hb. exact (proj2 Hb).
Qed.

Lemma blocks16_len : forall bs, blocks16 bs -> Forall (fun b => length b = 16%nat) bs.
Proof. intros bs H. induction H as [|b r Hb Hr IH]; constructor; [exact (proj1 Hb)|exact IH]. Qed.

Lemma split_at : forall n (l : list N), (n <= length l)%nat ->
  exists A R, l = A ++ R /\ length A = n /\ length R = (length l - n)%nat.
Proof.
  intros n l H. exists (firstn n l), (skipn n l).
  rewrite firstn_skipn, firstn_length, skipn_length. repeat split; lia.
Qed.

Lemma chunks16_concat : forall bs : list (list N), Forall (fun b => length b = 16%nat) bs -> chunks 16 (concat bs) = bs.
Proof.
  induction bs as [|b r IH]; intro H; [reflexivity|].
  inversion H; subst. cbn [concat]. rewrite chunks_app_exact by (try assumption; lia).
  f_equal. apply IH. assumption.
Qed.

Lemma concat_len16 : forall bs : list (list N), Forall (fun b => length b = 16%nat) bs ->
  length (concat bs) = (16 * length bs)%nat.
Proof.
  induction bs as [|b r IH]; intro H; [reflexivity|].
  inversion H; subst. cbn [concat length]. rewrite app_length, IH by assumption. lia.
Qed.

Lemma chunks16_of_mul : forall t l, length l = (16 * t)%nat -> bytes l ->
  blocks16 (chunks 16 l) /\ concat (chunks 16 l) = l /\ length (chunks 16 l) = t.
Proof.
  induction t as [|t IH]; intros l Hl Hb.
  - destruct l; [|discriminate Hl]. repeat split. constructor.
  - destruct (split_at 16 l) as [A [R [-> [HA HR]]]]; [lia|].
    rewrite app_length in HR, Hl.
    apply Forall_app in Hb. destruct Hb as [HbA HbR].
    destruct (IH R) as [I1 [I2 I3]]; [lia|exact HbR|].
    rewrite chunks_app_exact by (try exact HA; lia).
    split; [|split].
    + constructor; [|exact I1]. apply block16_iff. split; assumption.
    + cbn [concat]. rewrite I2. reflexivity.
    + cbn [length]. rewrite I3. reflexivity.
Qed.

Lemma run_length : forall E D k bs iv, length (snd (run E D k iv bs)) = length bs.
Proof.
  intros E D k. induction bs as [|b r IH]; intro iv; [reflexivity|].
  rewrite snd_run_cons. cbn [length]. rewrite IH. reflexivity.
Qed.

Lemma Forall_nth_lt : forall (A : Type) (P : A -> Prop) l i d, Forall P l -> (i < length l)%nat -> P (nth i l d).
Proof. intros A P l i d H Hi. rewrite Forall_forall in H. apply H, nth_In, Hi. Qed.

Lemma fset_nth_length : forall (A : Type) n (x : A) l, length (FileModel.set_nth n x l) = length l.
Proof.
  intros A. induction n as [|n IH]; intros x [|y l]; cbn [FileModel.set_nth length]; try reflexivity.
  f_equal. apply IH.
Qed.

Lemma Forall_set_nth : forall (A : Type) (P : A -> Prop) n x l, Forall P l -> P x -> Forall P (FileModel.set_nth n x l).
Proof.
  intros A P. induction n as [|n IH]; intros x [|y l] H Hx; cbn [FileModel.set_nth]; try constructor;
    inversion H; subst; try assumption.
  apply IH; assumption.
Qed.

(* ------------------------------------------------------------------------------------------ *)
(* 2. the pipeline, generic in the block functions                                             *)
(* ------------------------------------------------------------------------------------------ *)

Inductive kpair : mkind -> mkind -> Prop :=
| kp_ecb : kpair ECB_Enc ECB_Dec
| kp_cbc : kpair CBC_Enc CBC_Dec
| kp_ctr : kpair CTRm CTRm
| kp_cfb : kpair CFB_Enc CFB_Dec
| kp_ofb : kpair OFBm OFBm.

Lemma create_kpair : forall m, m <= 4 ->
  exists ke kd, create true m = Some ke /\ create false m = Some kd /\ kpair ke kd.
Proof.
  intros m Hm. assert (H : m = 0 \/ m = 1 \/ m = 2 \/ m = 3 \/ m = 4) by lia.
  destruct H as [-> | [-> | [-> | [-> | ->]]]]; cbn [create]; do 2 eexists;
    (split; [reflexivity|]); (split; [reflexivity|]); constructor.
Qed.

Section GenericPipe.
Variables E D : list N -> list N.
Hypothesis D_E     : forall b, block16 b -> D (E b) = b.
Hypothesis E_block : forall b, block16 b -> block16 (E b).

(* after one block the decryptor's register equals the encryptor's register *)
Lemma runcry_inv : forall ke kd iv b, kpair ke kd -> block16 iv -> block16 b ->
  runcry E D kd iv (snd (runcry E D ke iv b)) = (fst (runcry E D ke iv b), b) /\
  block16 (fst (runcry E D ke iv b)) /\ block16 (snd (runcry E D ke iv b)).
Proof.
  intros ke kd iv b Hk Hiv Hb.
  assert (He : block16 (E iv)) by (apply E_block; exact Hiv).
  destruct Hk; cbn [runcry fst snd].
  - rewrite D_E by exact Hb. split; [reflexivity|]. split; [exact Hiv|apply E_block; exact Hb].
  - assert (Hx : block16 (xorl b iv)) by (apply block16_xorl; assumption).
    rewrite D_E by exact Hx. rewrite xorl_cancel16 by assumption.
    split; [reflexivity|]. split; apply E_block; exact Hx.
  - rewrite xorl_cancel16 by assumption.
    split; [reflexivity|]. split; [apply block16_ctrInc; exact Hiv|apply block16_xorl; assumption].
  - rewrite xorl_cancel16 by assumption.
    split; [reflexivity|]. split; apply block16_xorl; assumption.
  - rewrite xorl_cancel16 by assumption.
    split; [reflexivity|]. split; [exact He|apply block16_xorl; assumption].
Qed.

Lemma run_inv : forall ke kd, kpair ke kd -> forall bs iv, block16 iv -> blocks16 bs ->
  run E D kd iv (snd (run E D ke iv bs)) = (fst (run E D ke iv bs), bs) /\
  block16 (fst (run E D ke iv bs)) /\ blocks16 (snd (run E D ke iv bs)).
Proof.
  intros ke kd Hk. induction bs as [|b r IH]; intros iv Hiv Hbs.
  - cbn [run fst snd]. split; [reflexivity|]. split; [exact Hiv|constructor].
  - apply blocks16_cons in Hbs. destruct Hbs as [Hb Hr].
    destruct (runcry_inv ke kd iv b Hk Hiv Hb) as [H1 [H2 H3]].
    rewrite fst_run_cons, snd_run_cons.
    destruct (IH _ H2 Hr) as [I1 [I2 I3]].
    split; [|split; [exact I2|constructor; assumption]].
    cbn [run]. rewrite H1. rewrite I1. reflexivity.
Qed.

(* one chunk of t blocks *)
Lemma chunk_inv : forall ke kd, kpair ke kd -> forall t A iv, block16 iv -> bytes A -> length A = (16 * t)%nat ->
  block16 (fst (run E D ke iv (blocks16_of A))) /\
  bytes (concat (snd (run E D ke iv (blocks16_of A)))) /\
  length (concat (snd (run E D ke iv (blocks16_of A)))) = (16 * t)%nat /\
  run E D kd iv (blocks16_of (concat (snd (run E D ke iv (blocks16_of A))))) =
    (fst (run E D ke iv (blocks16_of A)), blocks16_of A) /\
  concat (blocks16_of A) = A.
Proof.
  intros ke kd Hk t A iv Hiv HbA HlA. unfold blocks16_of.
  destruct (chunks16_of_mul t A HlA HbA) as [C1 [C2 C3]].
  destruct (run_inv ke kd Hk (chunks 16 A) iv Hiv C1) as [R1 [R2 R3]].
  split; [exact R2|]. split; [apply bytes_concat, blocks16_bytes, R3|].
  split; [rewrite concat_len16 by (apply blocks16_len, R3); rewrite run_length, C3; reflexivity|].
  split; [|exact C2].
  rewrite chunks16_concat by (apply blocks16_len, R3). exact R1.
Qed.

End GenericPipe.

(* ------------------------------------------------------------------------------------------ *)
(* 3. shape of the loads                                                                       *)
(* ------------------------------------------------------------------------------------------ *)

Lemma sum_eq : forall c, sum c = (16 * c)%nat.
Proof. reflexivity. Qed.

Definition padlen (n : nat) : nat := (16 - n mod 16)%nat.
Definition padded (P : list N) : list N := P ++ repeat (N.of_nat (padlen (length P))) (padlen (length P)).

Lemma padlen_range : forall n, (1 <= padlen n <= 16)%nat.
Proof. intro n. unfold padlen. lia. Qed.

Lemma padded_length : forall P, length (padded P) = (16 * S (length P / 16))%nat.
Proof. intro P. unfold padded, padlen. rewrite app_length, repeat_length. lia. Qed.

Lemma padded_bytes : forall P, bytes P -> bytes (padded P).
Proof.
  intros P H. unfold padded. apply bytes_app; [exact H|]. apply bytes_repeat.
  pose proof (padlen_range (length P)). lia.
Qed.

Lemma load_enc_full : forall c P, (sum c <= length P)%nat ->
  load_enc c P = ({| ld_data := firstn (sum c) P; ld_total := c; ld_final := false |}, skipn (sum c) P).
Proof.
  intros c P H. unfold load_enc. cbv zeta. rewrite firstn_length, Nat.min_l by exact H.
  rewrite Nat.eqb_refl. reflexivity.
Qed.

Lemma load_enc_last : forall c P, (length P < sum c)%nat ->
  load_enc c P = ({| ld_data := padded P; ld_total := S (length P / 16); ld_final := true |}, []).
Proof.
  intros c P H. unfold load_enc. cbv zeta. rewrite firstn_all2 by lia.
  destruct (Nat.eqb_spec (length P) (sum c)) as [Heq|_]; [lia|]. reflexivity.
Qed.

Lemma load_dec_full : forall c A R, length A = sum c -> R <> [] ->
  load_dec c (A ++ R) = ({| ld_data := A; ld_total := c; ld_final := false |}, R).
Proof.
  intros c A R HA HR. unfold load_dec. cbv zeta.
  rewrite firstn_app_exact by exact HA. rewrite skipn_app_exact by exact HA.
  rewrite HA. rewrite Nat.ltb_irrefl.
  assert (Hd : (sum c / 16 = c)%nat) by (rewrite sum_eq; lia).
  rewrite Hd. rewrite firstn_all2 by (rewrite HA, sum_eq; lia).
  destruct R; [congruence|]. reflexivity.
Qed.

Lemma load_dec_last : forall c B t, length B = (16 * t)%nat -> (t <= c)%nat ->
  load_dec c B = ({| ld_data := B; ld_total := t; ld_final := true |}, []).
Proof.
  intros c B t HB Ht. unfold load_dec. cbv zeta.
  rewrite skipn_all2 by (rewrite sum_eq; lia). rewrite orb_true_r.
  rewrite (firstn_all2 B) by (rewrite sum_eq; lia). rewrite HB.
  assert (Hd : (16 * t / 16 = t)%nat) by lia. rewrite Hd.
  rewrite firstn_all2 by lia. reflexivity.
Qed.

Lemma div_sub_sum : forall s n, (1 <= s)%nat -> (s <= n)%nat -> (n / s = S ((n - s) / s))%nat.
Proof.
  intros s n Hs Hn. replace n with (n - s + 1 * s)%nat at 1 by lia.
  rewrite Nat.div_add by lia. lia.
Qed.

Lemma loads_of_enc_full : forall c P, (1 <= c)%nat -> (sum c <= length P)%nat ->
  loads_of c true P =
  {| ld_data := firstn (sum c) P; ld_total := c; ld_final := false |} :: loads_of c true (skipn (sum c) P).
Proof.
  intros c P Hc H. unfold loads_of. rewrite skipn_length.
  rewrite (div_sub_sum (sum c) (length P)) by (try exact H; rewrite sum_eq; lia).
  set (f := S ((length P - sum c) / sum c)).
  cbn [loads]. rewrite load_enc_full by exact H. cbn [ld_final]. reflexivity.
Qed.

Lemma loads_of_enc_last : forall c P, (length P < sum c)%nat ->
  loads_of c true P = [{| ld_data := padded P; ld_total := S (length P / 16); ld_final := true |}].
Proof.
  intros c P H. unfold loads_of. cbn [loads]. rewrite load_enc_last by exact H. reflexivity.
Qed.

Lemma loads_of_dec_full : forall c A R, (1 <= c)%nat -> length A = sum c -> R <> [] ->
  loads_of c false (A ++ R) = {| ld_data := A; ld_total := c; ld_final := false |} :: loads_of c false R.
Proof.
  intros c A R Hc HA HR. unfold loads_of. rewrite app_length.
  rewrite (div_sub_sum (sum c) (length A + length R)) by (rewrite sum_eq in *; lia).
  replace (length A + length R - sum c)%nat with (length R) by lia.
  set (f := S (length R / sum c)).
  cbn [loads]. rewrite load_dec_full by assumption. cbn [ld_final]. reflexivity.
Qed.

Lemma loads_of_dec_last : forall c B t, length B = (16 * t)%nat -> (1 <= t)%nat -> (t <= c)%nat ->
  loads_of c false B = [{| ld_data := B; ld_total := t; ld_final := true |}].
Proof.
  intros c B t HB Ht1 Ht. unfold loads_of. cbn [loads]. rewrite (load_dec_last c B t) by assumption.
  cbn [ld_final ld_total]. destruct t as [|t']; [lia|]. reflexivity.
Qed.

(* export *)
Lemma export_nonfinal : forall c isp d tot data, length data = sum c ->
  export c isp {| ld_data := d; ld_total := tot; ld_final := false |} data = Ok data.
Proof. intros c isp d tot data H. unfold export. cbn [ld_final]. rewrite firstn_all2 by lia. reflexivity. Qed.

Lemma export_enc_final : forall c d t data, length data = (16 * t)%nat ->
  export c true {| ld_data := d; ld_total := t; ld_final := true |} data = Ok data.
Proof. intros c d t data H. unfold export. cbn [ld_final ld_total]. rewrite firstn_all2 by lia. reflexivity. Qed.

Lemma nth_repeat_lt : forall (x d : N) n i, (i < n)%nat -> nth i (repeat x n) d = x.
Proof.
  intros x d. induction n as [|n IH]; intros i Hi; [lia|].
  destruct i as [|i]; cbn [repeat nth]; [reflexivity|]. apply IH. lia.
Qed.

Lemma export_dec_final : forall c d P,
  export c false {| ld_data := d; ld_total := S (length P / 16); ld_final := true |} (padded P) = Ok P.
Proof.
  intros c d P. unfold export. cbn [ld_final ld_total]. cbv zeta.
  change (S (length P / 16) =? 0)%nat with false. cbv iota.
  pose proof (padlen_range (length P)) as Hp.
  assert (Hn : nth (16 * S (length P / 16) - 1) (padded P) 0 = N.of_nat (padlen (length P))).
  { unfold padded. rewrite app_nth2 by (unfold padlen in *; lia).
    apply nth_repeat_lt. unfold padlen in *. lia. }
  rewrite Hn, Nat2N.id.
  destruct (Nat.ltb_spec (16 * S (length P / 16)) (padlen (length P))) as [Hlt|_]; [lia|].
  f_equal. unfold padded. rewrite firstn_app.
  replace (16 * S (length P / 16) - padlen (length P))%nat with (length P) by (unfold padlen; lia).
  rewrite Nat.sub_diag, firstn_all. cbn [firstn]. apply app_nil_r.
Qed.

(* ------------------------------------------------------------------------------------------ *)
(* 4. the whole pipeline: decryption of the encrypted stream restores the input                 *)
(* ------------------------------------------------------------------------------------------ *)

Lemma pipe_chunks_cons_ok : forall E D kind T c isp ivs j l r iv' out bytes_ rest,
  ld_final l && (ld_total l =? 0)%nat = false ->
  run E D kind (nth (j mod T) ivs []) (blocks16_of (ld_data l)) = (iv', out) ->
  export c isp l (concat out) = Ok bytes_ ->
  pipe_chunks E D kind T c isp (FileModel.set_nth (j mod T) iv' ivs) (S j) r = Ok rest ->
  pipe_chunks E D kind T c isp ivs j (l :: r) = Ok (bytes_ ++ rest).
Proof.
  intros E D kind T c isp ivs j l r iv' out bytes_ rest H1 H2 H3 H4.
  cbn [pipe_chunks]. rewrite H1, H2, H3, H4. reflexivity.
Qed.

Lemma pipe_chunks_single_ok : forall E D kind T c isp ivs j l iv' out bytes_,
  ld_final l && (ld_total l =? 0)%nat = false ->
  run E D kind (nth (j mod T) ivs []) (blocks16_of (ld_data l)) = (iv', out) ->
  export c isp l (concat out) = Ok bytes_ ->
  pipe_chunks E D kind T c isp ivs j [l] = Ok bytes_.
Proof.
  intros E D kind T c isp ivs j l iv' out bytes_ H1 H2 H3.
  cbn [pipe_chunks]. rewrite H1, H2, H3, app_nil_r. reflexivity.
Qed.

Section GenericPipe2.
Variables E D : list N -> list N.
Hypothesis D_E     : forall b, block16 b -> D (E b) = b.
Hypothesis E_block : forall b, block16 b -> block16 (E b).

Lemma pipe_roundtrip : forall ke kd T c, kpair ke kd -> (1 <= T)%nat -> (1 <= c)%nat ->
  forall n P, (length P < sum c * S n)%nat -> bytes P ->
  forall j ivs, length ivs = T -> Forall block16 ivs ->
  exists body,
    pipe_chunks E D ke T c true ivs j (loads_of c true P) = Ok body /\
    pipe_chunks E D kd T c false ivs j (loads_of c false body) = Ok P /\
    length body = (16 * (length P / 16 + 1))%nat /\ bytes body.
Proof.
  intros ke kd T c Hk HT Hc.
  assert (Hlast : forall P, (length P < sum c)%nat -> bytes P ->
    forall j ivs, length ivs = T -> Forall block16 ivs ->
    exists body,
      pipe_chunks E D ke T c true ivs j (loads_of c true P) = Ok body /\
      pipe_chunks E D kd T c false ivs j (loads_of c false body) = Ok P /\
      length body = (16 * (length P / 16 + 1))%nat /\ bytes body).
  { intros P HP HbP j ivs Hl Hivs.
    assert (Hiv : block16 (nth (j mod T) ivs [])).
    { apply Forall_nth_lt; [exact Hivs|]. rewrite Hl. apply Nat.mod_upper_bound. lia. }
    set (t := S (length P / 16)).
    assert (Ht : (t <= c)%nat) by (unfold t; rewrite sum_eq in HP; lia).
    destruct (chunk_inv E D D_E E_block ke kd Hk t (padded P) _ Hiv (padded_bytes P HbP) (padded_length P))
      as [C1 [C2 [C3 [C4 C5]]]].
    set (r := run E D ke (nth (j mod T) ivs []) (blocks16_of (padded P))) in *.
    exists (concat (snd r)).
    rewrite loads_of_enc_last by exact HP. fold t.
    rewrite (loads_of_dec_last c (concat (snd r)) t C3 (le_n_S _ _ (Nat.le_0_l _)) Ht).
    split; [|split; [|split; [rewrite C3; unfold t; lia|exact C2]]].
    - apply (pipe_chunks_single_ok E D ke T c true ivs j _ (fst r) (snd r)).
      + reflexivity.
      + cbn [ld_data]. fold r. destruct r; reflexivity.
      + apply export_enc_final. exact C3.
    - apply (pipe_chunks_single_ok E D kd T c false ivs j _ (fst r) (blocks16_of (padded P))).
      + reflexivity.
      + cbn [ld_data]. exact C4.
      + rewrite C5. apply export_dec_final. }
  induction n as [|n IH]; intros P HP HbP j ivs Hl Hivs.
  - apply Hlast; try assumption. lia.
  - destruct (Nat.lt_ge_cases (length P) (sum c)) as [Hlt|Hge]; [apply Hlast; assumption|].
    assert (Hiv : block16 (nth (j mod T) ivs [])).
    { apply Forall_nth_lt; [exact Hivs|]. rewrite Hl. apply Nat.mod_upper_bound. lia. }
    destruct (split_at (sum c) P Hge) as [A [R [-> [HA HR]]]].
    rewrite app_length in HR, HP.
    apply Forall_app in HbP. destruct HbP as [HbA HbR].
    destruct (chunk_inv E D D_E E_block ke kd Hk c A _ Hiv HbA HA) as [C1 [C2 [C3 [C4 C5]]]].
    set (r := run E D ke (nth (j mod T) ivs []) (blocks16_of A)) in *.
    destruct (IH R) with (j := S j) (ivs := FileModel.set_nth (j mod T) (fst r) ivs) as [bodyR [I1 [I2 [I3 I4]]]].
    + rewrite (Nat.mul_succ_r _ (S n)) in HP. lia.
    + exact HbR.
    + rewrite fset_nth_length. exact Hl.
    + apply Forall_set_nth; assumption.
    + exists (concat (snd r) ++ bodyR).
      assert (HneR : bodyR <> []) by (intro He; rewrite He in I3; cbn [length] in I3; lia).
      rewrite loads_of_enc_full by (try exact Hc; rewrite app_length; lia).
      rewrite firstn_app_exact by exact HA. rewrite skipn_app_exact by exact HA.
      rewrite loads_of_dec_full by (try assumption; rewrite C3; reflexivity).
      split; [|split; [|split]].
      * apply (pipe_chunks_cons_ok E D ke T c true ivs j _ _ (fst r) (snd r)).
        -- reflexivity.
        -- cbn [ld_data]. fold r. destruct r; reflexivity.
        -- apply export_nonfinal. rewrite C3. reflexivity.
        -- exact I1.
      * apply (pipe_chunks_cons_ok E D kd T c false ivs j _ _ (fst r) (blocks16_of A)).
        -- reflexivity.
        -- cbn [ld_data]. exact C4.
        -- rewrite C5. apply export_nonfinal. exact HA.
        -- exact I2.
      * rewrite !app_length. rewrite sum_eq in HA. lia.
      * apply bytes_app; assumption.
Qed.

End GenericPipe2.

(* ------------------------------------------------------------------------------------------ *)
(* 5. header, tag patch, verify                                                                *)
(* ------------------------------------------------------------------------------------------ *)

Lemma be32_bytes_bytes : forall w, bytes (be32_bytes w).
Proof.
  intro w. unfold be32_bytes. repeat constructor; apply N.mod_lt; discriminate.
Qed.

Lemma sha1_digest_bytes : forall m, bytes (getStringHash alg_sha1 m).
Proof.
  intro m. unfold getStringHash. change (ha_out alg_sha1) with (flat_map be32_bytes).
  generalize (hs_h (string_loop alg_sha1 (S (length m / 64)) (reset alg_sha1) m)). intro l.
  induction l as [|w l IH]; cbn [flat_map]; [constructor|].
  apply bytes_app; [apply be32_bytes_bytes|exact IH].
Qed.

Lemma sha1_digest_length : forall m, length (getStringHash alg_sha1 m) = 20%nat.
Proof. intro m. exact (proj1 (getStringHash_length 0 alg_sha1 m eq_refl)). Qed.

Lemma iv_chain_from_props : forall n prev,
  length (iv_chain_from prev n) = (20 * n)%nat /\ bytes (iv_chain_from prev n).
Proof.
  induction n as [|n IH]; intro prev; cbn [iv_chain_from]; [split; [reflexivity|constructor]|].
  destruct (IH (getStringHash alg_sha1 prev)) as [I1 I2]. split.
  - rewrite app_length, I1, sha1_digest_length. lia.
  - apply bytes_app; [apply sha1_digest_bytes|exact I2].
Qed.

Lemma iv_chain_props : forall seed T, (1 <= T)%nat ->
  length (iv_chain seed T) = (20 * T)%nat /\ bytes (iv_chain seed T).
Proof.
  intros seed T HT. destruct T as [|n]; [lia|]. unfold iv_chain.
  destruct (iv_chain_from_props n (getStringHash alg_sha1 seed)) as [I1 I2]. split.
  - rewrite app_length, I1, sha1_digest_length. lia.
  - apply bytes_app; [apply sha1_digest_bytes|exact I2].
Qed.

Lemma magic_length : length magic_bytes = 8%nat.
Proof. reflexivity. Qed.

Lemma skipn_zeros : forall k n, skipn k (zeros n) = zeros (n - k).
Proof.
  induction k as [|k IH]; intro n; [rewrite Nat.sub_0_r; reflexivity|].
  destruct n as [|n]; [reflexivity|]. cbn [zeros repeat skipn Nat.sub]. apply IH.
Qed.

(* overwriting inside a zero field that follows a prefix A *)
Lemma patch_in_zeros : forall A n R w, (length w <= n)%nat ->
  patch (A ++ zeros n ++ R) (length A) w = A ++ w ++ zeros (n - length w) ++ R.
Proof.
  intros A n R w Hw. unfold patch.
  replace (length A - length (A ++ zeros n ++ R))%nat with 0%nat by (rewrite app_length; lia).
  cbn [zeros repeat]. rewrite app_nil_r.
  rewrite firstn_app_exact by reflexivity. f_equal. f_equal.
  rewrite Nat.add_comm, skipn_add. rewrite skipn_app_exact by reflexivity.
  rewrite skipn_app_ge by (rewrite zeros_length; exact Hw).
  rewrite skipn_zeros. reflexivity.
Qed.

Lemma patch_nil_0 : forall X, patch [] 0 X = X.
Proof.
  intro X. unfold patch. cbn [length Nat.sub zeros repeat app firstn Nat.add].
  rewrite skipn_nil. apply app_nil_r.
Qed.

Lemma bytes_zeros : forall n, bytes (zeros n).
Proof. intro n. apply bytes_repeat. reflexivity. Qed.

Lemma hlen_le : forall hbuf hm key msg t, hmac_model hbuf hm key msg = Some t -> (length t <= 32)%nat.
Proof.
  intros hbuf hm key msg t H. rewrite (C08_tag_length_proof hbuf hm key msg t H).
  destruct hm as [|[p|p|]]; lia.
Qed.

Lemma pow56 : 2 ^ 56 = 72057594037927936.
Proof. reflexivity. Qed.

(* ------------------------------------------------------------------------------------------ *)
(* 6. enc / verify / dec under their success conditions                                        *)
(* ------------------------------------------------------------------------------------------ *)

Opaque aes_enc_with aes_dec_with genall hmac_model getStringHash magic_bytes.

Lemma enc_ok : forall c hbuf T P key cm hm seed ke body tag,
  create true cm = Some ke ->
  pipe_seq (aes_enc_with (genall key)) (aes_dec_with (genall key)) ke T c true
           (firstn 16 (iv_chain seed T)) P = Ok body ->
  hmac_model hbuf hm key (skipn iv_mark (file_header cm hm (iv_chain seed T) T ++ body)) = Some tag ->
  enc c hbuf T P key cm hm seed = Ok (patch (file_header cm hm (iv_chain seed T) T ++ body) hmac_mark tag).
Proof.
  intros c hbuf T P key cm hm seed ke body tag H1 H2 H3.
  unfold enc, enc_writes. cbv zeta. rewrite H1, H2, H3.
  unfold apply_writes. cbn [fold_left fst snd]. rewrite patch_nil_0. reflexivity.
Qed.

Lemma verify_ok : forall hbuf F key tag,
  firstn 8 F = magic_bytes -> (74 <= length F)%nat -> nth 8 F 0 <= 4 -> nth 9 F 0 <= 2 ->
  hmac_model hbuf (nth 9 F 0) key (skipn 48 F) = Some tag ->
  firstn (length tag) (skipn 10 F) = tag -> (length tag <= 64)%nat ->
  verify hbuf F key = Ok 0.
Proof.
  intros hbuf F key tag Hm Hl Hc Hh Hmac Htag Htl. unfold verify.
  change hmac_mark with 10%nat. change iv_mark with 48%nat. cbv zeta.
  destruct (Nat.ltb_spec (length F) 8) as [H|_]; [lia|].
  rewrite Hm. rewrite (proj2 (list_eqb_eq magic_bytes magic_bytes) eq_refl). cbn [negb].
  destruct (Nat.ltb_spec (length F) (10 + 64)) as [H|_]; [lia|].
  destruct (N.ltb_spec 4 (nth 8 F 0)) as [H|_]; [lia|].
  destruct (N.ltb_spec 2 (nth 9 F 0)) as [H|_]; [lia|].
  cbn [orb]. rewrite Hmac.
  rewrite (proj2 (C08_compare_all_bytes_proof tag (firstn 64 (skipn 10 F)))); [reflexivity|].
  rewrite firstn_firstn, Nat.min_l by exact Htl. exact Htag.
Qed.

Lemma dec_ok : forall c hbuf T F key kd,
  verify hbuf F key = Ok 0 -> create false (nth 8 F 0) = Some kd ->
  dec c hbuf T F key =
  pipe_seq (aes_enc_with (genall key)) (aes_dec_with (genall key)) kd T c false
           (firstn 16 (skipn 48 F)) (skipn (text_mark T) F).
Proof.
  intros c hbuf T F key kd Hv Hk. unfold dec. rewrite Hv.
  rewrite Hk. reflexivity.
Qed.

Lemma text_mark_eq : forall T, text_mark T = (48 + 20 * T)%nat.
Proof. reflexivity. Qed.

(* ------------------------------------------------------------------------------------------ *)
(* 7. C01                                                                                      *)
(* ------------------------------------------------------------------------------------------ *)

Lemma Forall_repeat : forall (A : Type) (P : A -> Prop) x n, P x -> Forall P (repeat x n).
Proof. intros A P x n H. induction n as [|n IH]; cbn [repeat]; constructor; assumption. Qed.

Lemma C01_roundtrip_proof : forall c hbuf T P key seed cm hm,
  enc_params c hbuf T P key seed cm hm ->
  exists F, enc c hbuf T P key cm hm seed = Ok F /\
            dec c hbuf T F key = Ok P /\
            ver hbuf F key = Ok true.
Proof.
  intros c hbuf T P key seed cm hm [Hc Hh HT HP Hkey Hseed Hcm Hhm HsP HsT HsS].
  destruct (create_kpair cm Hcm) as [ke [kd [Hke [Hkd Hk]]]].
  destruct (iv_chain_props seed T HT) as [Hivl Hivb].
  assert (Hiv16 : block16 (firstn 16 (iv_chain seed T))).
  { apply block16_iff. split; [rewrite firstn_length; lia|apply bytes_firstn_skipn; exact Hivb]. }
  apply bytesb_bytes in HP.
  assert (Hfuel : (length P < sum c * S (length P))%nat).
  { rewrite sum_eq. nia. }
  destruct (pipe_roundtrip (aes_enc key) (aes_dec key)
              (fun b Hb => C09_decrypt_inverts_encrypt_proof key b Hkey Hb)
              (fun b Hb => proj1 (C09_outputs_are_blocks_proof key b Hkey Hb))
              ke kd T c Hk HT Hc (length P) P Hfuel HP 0%nat
              (repeat (firstn 16 (iv_chain seed T)) T) (repeat_length _ _)
              (Forall_repeat _ _ _ _ Hiv16)) as [body [B1 [B2 [B3 B4]]]].
  (* the written stream *)
  assert (Hhdr : file_header cm hm (iv_chain seed T) T ++ body =
                 (magic_bytes ++ [cm; hm]) ++ zeros 38 ++ (iv_chain seed T ++ body)).
  { unfold file_header. change (N.to_nat Layout.PADDING) with 38%nat.
    rewrite (firstn_all2 (iv_chain seed T)) by lia. rewrite <- !app_assoc. reflexivity. }
  set (ivs := iv_chain seed T) in *.
  set (A := magic_bytes ++ [cm; hm]) in *.
  assert (HA : length A = 10%nat) by (unfold A; rewrite app_length, magic_length; reflexivity).
  assert (Hmsg : skipn 48 (file_header cm hm ivs T ++ body) = ivs ++ body).
  { rewrite Hhdr. rewrite app_assoc. apply skipn_app_exact.
    rewrite app_length, HA, zeros_length. reflexivity. }
  (* the tag *)
  assert (Hmac : hmac_model hbuf hm key (ivs ++ body) =
                 Some (hmac_spec (hash_spec hm) key (ivs ++ body))).
  { apply C08_tag_is_rfc2104_hmac_proof; try assumption.
    - apply bytesb_bytes. apply bytes_app; assumption.
    - rewrite app_length, Hivl, B3, pow64. rewrite pow56 in HsP. lia. }
  set (tag := hmac_spec (hash_spec hm) key (ivs ++ body)) in *.
  assert (Htl : (length tag <= 32)%nat) by exact (hlen_le _ _ _ _ _ Hmac).
  (* the file *)
  set (F := patch (file_header cm hm ivs T ++ body) hmac_mark tag).
  assert (HF : F = A ++ tag ++ zeros (38 - length tag) ++ (ivs ++ body)).
  { unfold F. rewrite Hhdr. change hmac_mark with 10%nat. rewrite <- HA.
    apply patch_in_zeros. lia. }
  assert (Henc : enc c hbuf T P key cm hm seed = Ok F).
  { apply (enc_ok c hbuf T P key cm hm seed ke body tag Hke).
    - exact B1.
    - change iv_mark with 48%nat. fold ivs. rewrite Hmsg. exact Hmac. }
  assert (HlF : length F = (48 + 20 * T + length body)%nat).
  { rewrite HF, !app_length, HA, zeros_length, Hivl. lia. }
  assert (Hsk48 : skipn 48 F = ivs ++ body).
  { rewrite HF. rewrite (app_assoc tag), (app_assoc A). apply skipn_app_exact.
    rewrite !app_length, HA, zeros_length. lia. }
  assert (HF8 : F = magic_bytes ++ cm :: hm :: tag ++ zeros (38 - length tag) ++ (ivs ++ body)).
  { rewrite HF. unfold A. rewrite <- app_assoc. reflexivity. }
  assert (Hn8 : nth 8 F 0 = cm).
  { rewrite HF8. rewrite app_nth2 by (rewrite magic_length; lia). rewrite magic_length. reflexivity. }
  assert (Hn9 : nth 9 F 0 = hm).
  { rewrite HF8. rewrite app_nth2 by (rewrite magic_length; lia). rewrite magic_length. reflexivity. }
  assert (Hver : verify hbuf F key = Ok 0).
  { apply (verify_ok hbuf F key tag).
    - rewrite HF8. apply firstn_app_exact. exact magic_length.
    - lia.
    - rewrite Hn8. exact Hcm.
    - rewrite Hn9. exact Hhm.
    - rewrite Hn9, Hsk48. exact Hmac.
    - rewrite HF. rewrite skipn_app_exact by exact HA. apply firstn_app_exact. reflexivity.
    - lia. }
  exists F. split; [exact Henc|]. split.
  - rewrite (dec_ok c hbuf T F key kd Hver); [| rewrite Hn8; exact Hkd].
    rewrite Hsk48. rewrite firstn_app_ge by lia.
    assert (Hbody : skipn (text_mark T) F = body).
    { rewrite text_mark_eq, HF. rewrite !app_assoc.
      apply skipn_app_exact. rewrite !app_length, HA, zeros_length, Hivl. lia. }
    rewrite Hbody. exact B2.
  - unfold ver. rewrite Hver. reflexivity.
Qed.
Print Assumptions C01_roundtrip_proof.

(* non-vacuity: the hypotheses hold on a concrete non-trivial instance (CBC, SHA-256, 3 streams,
   40 plaintext bytes, 2-block chunks) *)
Example C01_nonvacuous :
  enc_params 2 1 3 (map N.of_nat (seq 0 40)) (repeat 11 16) [1; 2; 3] 1 2.
Proof.
  constructor; try (vm_compute; lia); try reflexivity; try (split; reflexivity);
    try (vm_compute; discriminate).
Qed.

(* concrete runs, including the look-ahead case (the padded input fills the last chunk exactly) *)
Example C01_run_lookahead :
  let P := map N.of_nat (seq 0 16) in let key := repeat 11 16 in
  match enc 2 1 2 P key 1 0 [7] with
  | Ok F => dec 2 1 2 F key = Ok P /\ ver 1 F key = Ok true /\ length F = (48 + 40 + 32)%nat
  | _ => False
  end.
Proof. vm_compute. repeat split. Qed.
