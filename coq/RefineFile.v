(* Refinement, second tier: hmac (fheader.cpp), FileHeader (fheader.cpp), HashFactory (hashmaster.cpp), runcrypt::verify /
   prepare_IV (cry.cpp) as translated into MiniC vs the hand models hmac_model / cmphmac / verify / file_header / iv_chain.
     RefineFileBase.v    file_prog = hash_prog ++ ..., one-step equations, SNewObj allocation, HashFactory (factory_spec)
     RefineFileHmac.v    hmac::getres for any class satisfying class_spec (getres_refines / getres_ctx)
     RefineFileHmac2.v   hmac::gethmac, hmac::cmphmac (gethmac_refines, cmphmac_refines)
     RefineFileHmac3.v   the three classes; SRC_hmac_proof, SRC_cmphmac_proof
     RefineFileVerify.v  FileHeader::checkMn / checkType / getHmac / getctype / gethtype, the constructor
     RefineFileVerifyCall.v runcrypt::verify (verify_call)
     RefineFileVerify2.v SRC_verify_proof
     RefineFileHeader.v  FileHeader::getIV, getFileHeader, runcrypt::prepare_IV; SRC_header_proof *)
From Wencry Require Export RefineFileBase RefineFileHmac RefineFileHmac2 RefineFileHmac3 RefineFileVerify RefineFileVerifyCall RefineFileVerify2 RefineFileHeader.
