(* Model of kernel/hash: Hashmaster::getStringHash / getFileHash, the three getHash pairs,
   the totalsize counter and filebuffer64, written from the C++.  Constants, rotation
   amounts, round boundaries, MD5 step table and the counter width come from Gen
   (regenerated from /repo); the u32 message words i[]/x[] alias the byte block s[] on a
   little-endian machine (union) -- modelled, tied by the correspondence check. *)
From Wencry Require Import Bytes HashSpec.
From Wencry.Gen Require Import HashConst.
From Wencry.Gen Require Layout.
Local Open Scope N_scope.

(* ---- sha1.cpp ---- *)
Definition HASH_A (h1 h2 h3 : N) : N := N.lor (N.land h1 h2) (N.land (not32 h1) h3).
Definition HASH_B (h1 h2 h3 : N) : N := N.lxor (N.lxor h1 h2) h3.
Definition HASH_C (h1 h2 h3 : N) : N := N.lor (N.lor (N.land h1 h2) (N.land h1 h3)) (N.land h2 h3).

(* getwdata: w[i] = lrot(w[i-3] ^ w[i-8] ^ w[i-14] ^ w[i-16], r); array kept newest-first *)
Fixpoint m_sha1_sched (n : nat) (w : list N) : list N :=
  match n with
  | O => w
  | S n' => m_sha1_sched n'
              (rotl32 (N.lxor (N.lxor (N.lxor (nth 2 w 0) (nth 7 w 0)) (nth 13 w 0)) (nth 15 w 0))
                      (nth 2 sha1_rots 0) :: w)
  end.
Definition m_sha1_W (M : list N) : list N := rev (m_sha1_sched 64 (rev M)).
Definition m_sha1_round (W : list N) (v : list N) (i : nat) : list N :=
  match v with
  | [t0; t1; t2; t3; t4] =>
      let i' := N.of_nat i in
      let f := if i' <? nth 0 sha1_bounds 0 then add32 (HASH_A t1 t2 t3) (nth 0 sha1_k 0)
               else if i' <? nth 1 sha1_bounds 0 then add32 (HASH_B t1 t2 t3) (nth 1 sha1_k 0)
               else if i' <? nth 2 sha1_bounds 0 then add32 (HASH_C t1 t2 t3) (nth 2 sha1_k 0)
               else add32 (HASH_B t1 t2 t3) (nth 3 sha1_k 0) in
      let temp := add32 (add32 (add32 (rotl32 t0 (nth 0 sha1_rots 0)) f) t4) (nth i W 0) in
      [temp; t0; rotl32 t1 (nth 1 sha1_rots 0); t2; t3]
  | _ => []
  end.
Definition m_sha1_block (H blk : list N) : list N :=
  let W := m_sha1_W (words_of be32 blk) in
  map2 add32 H (fold_left (m_sha1_round W) (seq 0 80) H).

(* ---- sha256.cpp ---- *)
Definition rs3 (p : list N) (x : N) : N :=
  N.lxor (N.lxor (rotr32 x (nth 0 p 0)) (rotr32 x (nth 1 p 0)))
         (if nth 3 p 0 =? 0 then rotr32 x (nth 2 p 0) else N.shiftr x (nth 2 p 0)).
Definition CHOOSE (e f g : N) : N := N.lxor (N.land e f) (N.land (not32 e) g).
Definition MAJORITY (a b c : N) : N := N.lxor (N.lxor (N.land a b) (N.land a c)) (N.land b c).
Fixpoint m_sha256_sched (n : nat) (w : list N) : list N :=
  match n with
  | O => w
  | S n' => m_sha256_sched n'
              (add32 (add32 (add32 (rs3 sha256_GAMMA1 (nth 1 w 0)) (nth 6 w 0))
                            (rs3 sha256_GAMMA0 (nth 14 w 0))) (nth 15 w 0) :: w)
  end.
Definition m_sha256_W (M : list N) : list N := rev (m_sha256_sched 48 (rev M)).
Definition m_sha256_round (W : list N) (v : list N) (i : nat) : list N :=
  match v with
  | [a; b; c; d; e; f; g; h] =>
      let t1 := add32 (add32 (add32 (add32 h (rs3 sha256_SIGMA1 e)) (CHOOSE e f g)) (nth i sha256_k 0)) (nth i W 0) in
      let t2 := add32 (rs3 sha256_SIGMA0 a) (MAJORITY a b c) in
      [add32 t1 t2; a; b; c; add32 d t1; e; f; g]
  | _ => []
  end.
Definition m_sha256_block (H blk : list N) : list N :=
  let W := m_sha256_W (words_of be32 blk) in
  map2 add32 H (fold_left (m_sha256_round W) (seq 0 64) H).

(* ---- md5.cpp: the 64 macro lines, interpreted ---- *)
Definition m_md5_block : list N -> list N -> list N := md5_block_with md5_steps.

(* ---- Hashmaster and its three subclasses ---- *)
Record halg := {
  ha_init : list N;                         (* reset() *)
  ha_compress : list N -> list N -> list N; (* getHash(input) without the counter *)
  ha_final : list N;                        (* threshold, length offset, byte order *)
  ha_out : list N -> list N;                (* getres *)
  ha_hlen : nat }.
Definition alg_sha1 := {| ha_init := sha1_iv; ha_compress := m_sha1_block; ha_final := sha1_final;
                          ha_out := flat_map be32_bytes; ha_hlen := 20 |}.
Definition alg_md5 := {| ha_init := md5_iv; ha_compress := m_md5_block; ha_final := md5_final;
                         ha_out := flat_map le32_bytes; ha_hlen := 16 |}.
Definition alg_sha256 := {| ha_init := sha256_iv; ha_compress := m_sha256_block; ha_final := sha256_final;
                            ha_out := flat_map be32_bytes; ha_hlen := 32 |}.
(* HashFactory::getHasher(getType(t)); None = NULL *)
Definition get_hasher (t : N) : option halg :=
  match t with 0 => Some alg_sha1 | 1 => Some alg_md5 | 2 => Some alg_sha256 | _ => None end.

Record hstate := { hs_h : list N; hs_total : N }.
(* void addtotal(u32_t len) { totalsize += (len << 3); } *)
Definition addtotal (st : hstate) (len : N) : hstate :=
  {| hs_h := hs_h st; hs_total := (hs_total st + (len * 8) mod w32) mod 2 ^ totalsize_bits |}.
Definition reset (a : halg) : hstate := {| hs_h := ha_init a; hs_total := 0 |}.
(* getHash(const u8_t *input): one 64-byte block *)
Definition getHash_block (a : halg) (st : hstate) (blk : list N) : hstate :=
  addtotal {| hs_h := ha_compress a (hs_h st) blk; hs_total := hs_total st |} 64.
(* getHash(const u8_t *input, u32_t final_loadsize) *)
Definition getHash_final (a : halg) (st : hstate) (input : list N) : hstate :=
  let fl := length input in
  let st := addtotal st (N.of_nat fl) in
  let bitlen := hs_total st in
  let temp := input ++ [128] ++ zeros (63 - fl) in
  let thr := N.to_nat (nth 0 (ha_final a) 0) in
  let pos := N.to_nat (nth 1 (ha_final a) 0) in
  let lenb := if nth 2 (ha_final a) 0 =? 0 then be64_bytes bitlen else le64_bytes bitlen in
  let '(st, temp) := if (thr <=? fl)%nat then (getHash_block a st temp, zeros 64) else (st, temp) in
  getHash_block a st (firstn pos temp ++ lenb).

(* Hashmaster::getStringHash(string, length, hashres) *)
Fixpoint string_loop (a : halg) (fuel : nat) (st : hstate) (s : list N) : hstate :=
  match fuel with
  | O => st
  | S f => if (64 <=? length s)%nat
           then string_loop a f (getHash_block a st (firstn 64 s)) (skipn 64 s)
           else getHash_final a st s
  end.
Definition getStringHash (a : halg) (s : list N) : list N :=
  ha_out a (hs_h (string_loop a (S (length s / 64)) (reset a) s)).

(* ---- hashbuffer.cpp: filebuffer64 over the not-yet-read part of the stream ---- *)
Record fbuf := {
  fb_extra : option (list N);  (* has_extra / extra_entry *)
  fb_b : list N;               (* the bytes delivered by the last fread *)
  fb_total : nat; fb_now : nat; fb_tail : nat;
  fb_rest : list N }.          (* stream content after the file position *)
Section FileBuf.
Variable hbuf : nat.           (* HBUF_SZ, in 64-byte units *)
Definition fb_fill (extra : option (list N)) (rest : list N) : fbuf :=
  let got := firstn (hbuf * 64) rest in
  {| fb_extra := extra; fb_b := got; fb_total := length got / 64; fb_now := 0;
     fb_tail := length got mod 64; fb_rest := skipn (hbuf * 64) rest |}.
(* constructor *)
Definition fb_new (block : option (list N)) (stream : list N) : fbuf :=
  fb_fill (option_map (firstn 64) block) stream.
(* read_buffer64: returns the bytes copied into block (their number is the return value) *)
Definition fb_read (b : fbuf) : list N * fbuf :=
  match fb_extra b with
  | Some e => (e, {| fb_extra := None; fb_b := fb_b b; fb_total := fb_total b; fb_now := fb_now b;
                     fb_tail := fb_tail b; fb_rest := fb_rest b |})
  | None =>
      let b := if (fb_now b =? hbuf)%nat then fb_fill None (fb_rest b) else b in
      let load_size := if (fb_total b <=? fb_now b)%nat then fb_tail b else 64%nat in
      let tail' := if (fb_now b =? fb_total b)%nat then 0%nat else fb_tail b in
      (firstn load_size (skipn (64 * fb_now b) (fb_b b)),
       {| fb_extra := None; fb_b := fb_b b; fb_total := fb_total b; fb_now := S (fb_now b);
          fb_tail := tail'; fb_rest := fb_rest b |})
  end.

(* Hashmaster::getFileHash; None = the loop did not finish within the fuel *)
Fixpoint file_loop (a : halg) (fuel : nat) (st : hstate) (b : fbuf) : option hstate :=
  match fuel with
  | O => None
  | S f => let (blk, b') := fb_read b in
           if (length blk =? 64)%nat then file_loop a f (getHash_block a st blk) b'
           else Some (getHash_final a st blk)
  end.
Definition getFileHash (a : halg) (block : option (list N)) (stream : list N) : option (list N) :=
  option_map (fun st => ha_out a (hs_h st))
             (file_loop a (length stream / 64 + 3) (reset a) (fb_new block stream)).
End FileBuf.

(* ---- fheader.cpp: hmac::getres ---- *)
Definition hmac_model (hbuf : nat) (hashtype : N) (key : list N) (stream : list N) : option (list N) :=
  match get_hasher hashtype with
  | None => None                                   (* NULL dereference in the C++ *)
  | Some a =>
      let key1 := firstn 16 key ++ zeros 48 in     (* block = 64 for all three *)
      let h1 := map (fun x => N.lxor x Layout.hmac_ipad) key1 in
      match getFileHash hbuf a (Some h1) stream with
      | None => None
      | Some inner =>
          let h2 := map (fun x => N.lxor x Layout.hmac_opad) key1 ++ inner in
          Some (getStringHash a h2)
      end
  end.
(* cmphmac: for (i < length) if (hmac_out[i] != hmac_res[i]) return false *)
Definition cmphmac (computed stored : list N) : bool :=
  list_eqb computed (firstn (length computed) stored).
