(* Helper library for RefineSha256.v: "terminates in" judgments over MiniC's exec, evaluation
   lemmas with N-valued 32-bit results, bit/range facts. *)
From Coq Require Import ZArith NArith List String Bool Lia Btauto.
From Wencry Require Import Bytes HashModel MiniC MiniCLemmas.
From Wencry.Gen Require Import HashConst.
Import ListNotations.
Local Open Scope string_scope.

(* ------------------------------------------------------------------ *)
(* exec with "enough fuel"                                             *)
(* ------------------------------------------------------------------ *)
Section TI.
Variable prog : program.
Variable vt : list (string * string).

Definition ti (N : nat) (st : stmt) (s : state) (r : outcome * state) : Prop :=
  forall fuel, (N <= fuel)%nat -> exec prog vt fuel st s = Ok r.

Lemma ti_weaken : forall N N' st s r, (N <= N')%nat -> ti N st s r -> ti N' st s r.
Proof. intros N N' st s r H T fuel Hf. apply T. lia. Qed.

Lemma ti_seq : forall Na Nb a b s s1 r,
  ti Na a s (Normal, s1) -> ti Nb b s1 r -> ti (S (Nat.max Na Nb)) (SSeq a b) s r.
Proof.
  intros Na Nb a b s s1 r Ha Hb fuel Hf. destruct fuel as [|fuel]; [lia|].
  rewrite exec_seq. rewrite Ha by lia. cbn [bind]. apply Hb. lia.
Qed.

Lemma ti_skip : forall s, ti 1 SSkip s (Normal, s).
Proof. intros s fuel Hf. destruct fuel; [lia|]. reflexivity. Qed.

Lemma ti_set : forall x e s v, eval s e = Ok v -> ti 1 (SSet x e) s (Normal, with_loc s (lset (loc s) x v)).
Proof. intros x e s v H fuel Hf. destruct fuel; [lia|]. rewrite exec_set, H. reflexivity. Qed.

Lemma ti_store : forall t p e s o off z ob ob',
  eval s p = Ok (VPtr o off) -> eval s e = Ok (VInt z) -> mget (mem s) o = Some ob ->
  store_obj ob t off z = Ok ob' ->
  ti 1 (SStore t p e) s (Normal, with_mem s (mset (mem s) o ob')).
Proof.
  intros t p e s o off z ob ob' Hp He Hm Hs fuel Hf. destruct fuel; [lia|].
  cbn [exec]. rewrite Hp, He. cbn [bind as_int]. rewrite Hm, Hs. reflexivity.
Qed.

Lemma ti_if_true : forall N c a b s x r,
  eval s c = Ok (VInt x) -> x <> 0%Z -> ti N a s r -> ti (S N) (SIf c a b) s r.
Proof.
  intros N c a b s x r Hc Hx Ha fuel Hf. destruct fuel; [lia|].
  rewrite exec_if, Hc. cbn [bind as_int]. destruct (Z.eqb_spec x 0); [contradiction|]. apply Ha. lia.
Qed.
Lemma ti_if_false : forall N c a b s r,
  eval s c = Ok (VInt 0) -> ti N b s r -> ti (S N) (SIf c a b) s r.
Proof.
  intros N c a b s r Hc Hb fuel Hf. destruct fuel; [lia|].
  rewrite exec_if, Hc. cbn [bind as_int Z.eqb]. apply Hb. lia.
Qed.

Lemma ti_return : forall e s v, eval s e = Ok v -> ti 1 (SReturn (Some e)) s (Returned (Some v), s).
Proof. intros e s v H fuel Hf. destruct fuel; [lia|]. cbn [exec]. rewrite H. reflexivity. Qed.

Lemma ti_memset : forall d v n s dv x k s',
  eval s d = Ok dv -> eval s v = Ok (VInt x) -> eval s n = Ok (VInt k) -> do_memset s dv x k = Ok s' ->
  ti 1 (SMemset d v n) s (Normal, s').
Proof.
  intros d v n s dv x k s' Hd Hv Hn Hm fuel Hf. destruct fuel; [lia|].
  cbn [exec]. rewrite Hd, Hv, Hn. cbn [bind as_int]. rewrite Hm. reflexivity.
Qed.
Lemma ti_memcpy : forall d sr n s dv sv k s',
  eval s d = Ok dv -> eval s sr = Ok sv -> eval s n = Ok (VInt k) -> do_memcpy s dv sv k = Ok s' ->
  ti 1 (SMemcpy d sr n) s (Normal, s').
Proof.
  intros d sr n s dv sv k s' Hd Hs Hn Hm fuel Hf. destruct fuel; [lia|].
  cbn [exec]. rewrite Hd, Hs, Hn. cbn [bind as_int]. rewrite Hm. reflexivity.
Qed.
Lemma ti_localarr : forall x t n s,
  ti 1 (SLocalArr x t n) s (Normal, with_mem s (mset (mem s) ("%" ++ x) {| o_ty := t; o_cells := repeat 0%Z (Z.to_nat n) |})).
Proof. intros x t n s fuel Hf. destruct fuel; [lia|]. reflexivity. Qed.
Lemma ti_new : forall x t n s k,
  eval s n = Ok (VInt k) -> (0 <= k)%Z ->
  ti 1 (SNew x t n) s
     (Normal, {| mem := mset (mem s) ("#" ++ nat_string (fresh s)) {| o_ty := t; o_cells := repeat 0%Z (Z.to_nat k) |};
                 loc := lset (loc s) x (VPtr ("#" ++ nat_string (fresh s)) 0); pre := pre s; files := files s;
                 ptrs := ptrs s; fresh := S (fresh s) |}).
Proof.
  intros x t n s k Hn Hk fuel Hf. destruct fuel; [lia|]. cbn [exec]. rewrite Hn. cbn [bind as_int].
  destruct (Z.ltb_spec k 0); [lia|]. reflexivity.
Qed.
Lemma ti_delete : forall p s v, eval s p = Ok v -> ti 1 (SDelete p) s (Normal, s).
Proof. intros p s v H fuel Hf. destruct fuel; [lia|]. cbn [exec]. rewrite H. reflexivity. Qed.

Definition callee_state (s : state) (l : list (string * value)) (pfx : string) : state :=
  {| mem := mem s; loc := l; pre := pfx; files := files s; ptrs := ptrs s; fresh := fresh s |}.
Definition back_state (s s1 : state) : state :=
  {| mem := mem s1; loc := loc s; pre := pre s; files := files s1; ptrs := ptrs s1; fresh := fresh s1 |}.

Lemma ti_call : forall N ret fname this args s vs pfx f l o s1 s2,
  eval_list s args = Ok vs -> this_prefix s this = Ok pfx -> lget prog fname = Some f ->
  bind_params (f_params f) vs = Ok l ->
  ti N (f_body f) (callee_state s l pfx) (o, s1) ->
  set_ret (back_state s s1) ret (match o with Returned v => v | _ => None end) = Ok s2 ->
  ti (S N) (SCall ret fname this args) s (Normal, s2).
Proof.
  intros N ret fname this args s vs pfx f l o s1 s2 Hvs Hp Hf Hl Hb Hr fuel Hfu.
  destruct fuel; [lia|]. cbn [exec]. rewrite Hvs, Hp. cbn [bind]. rewrite Hf, Hl. cbn [bind].
  unfold callee_state in Hb. rewrite Hb by lia. cbn [bind]. unfold back_state in Hr. rewrite Hr. reflexivity.
Qed.
Lemma ti_callvirt : forall N ret m this args s vs pfx cls f l o s1 s2,
  eval_list s args = Ok vs -> this_prefix s this = Ok pfx -> lget vt pfx = Some cls ->
  lget prog (cls ++ "::" ++ m) = Some f ->
  bind_params (f_params f) vs = Ok l ->
  ti N (f_body f) (callee_state s l pfx) (o, s1) ->
  set_ret (back_state s s1) ret (match o with Returned v => v | _ => None end) = Ok s2 ->
  ti (S N) (SCallVirt ret m this args) s (Normal, s2).
Proof.
  intros N ret m this args s vs pfx cls f l o s1 s2 Hvs Hp Hc Hf Hl Hb Hr fuel Hfu.
  destruct fuel; [lia|]. cbn [exec]. rewrite Hvs, Hp. cbn [bind]. rewrite Hc, Hf, Hl. cbn [bind].
  unfold callee_state in Hb. rewrite Hb by lia. cbn [bind]. unfold back_state in Hr. rewrite Hr. reflexivity.
Qed.

(* call from ti of the body *)
Lemma call_of_ti : forall N fname pfx vs s f l o s1,
  lget prog fname = Some f -> bind_params (f_params f) vs = Ok l ->
  ti N (f_body f) (callee_state s l pfx) (o, s1) ->
  forall fuel, (N <= fuel)%nat ->
  call prog vt fuel fname pfx vs s = Ok (match o with Returned v => v | _ => None end, back_state s s1).
Proof.
  intros N fname pfx vs s f l o s1 Hf Hl Hb fuel Hfu. unfold call. rewrite Hf, Hl. cbn [bind].
  unfold callee_state in Hb. rewrite Hb by lia. reflexivity.
Qed.

(* loops with an invariant *)
Lemma ti_loop_inv : forall c body step (P : nat -> state -> Prop) (n F : nat),
  (forall k s, (k < n)%nat -> P k s ->
     exists x, eval s c = Ok (VInt x) /\ x <> 0%Z /\
     exists s1 s2, ti F body s (Normal, s1) /\ ti F step s1 (Normal, s2) /\ P (S k) s2) ->
  (forall s, P n s -> eval s c = Ok (VInt 0)) ->
  forall s, P 0%nat s -> exists s', ti (S (F + n)) (SLoop c body step) s (Normal, s') /\ P n s'.
Proof.
  intros c body step P n F Hit Hend.
  assert (G : forall d k s, (n - k = d)%nat -> (k <= n)%nat -> P k s ->
              exists s', ti (S (F + d)) (SLoop c body step) s (Normal, s') /\ P n s').
  { induction d as [|d IH]; intros k s Hd Hk HP.
    - assert (k = n) by lia. subst k. exists s. split; auto.
      intros fuel Hf. destruct fuel; [lia|]. rewrite exec_loop, (Hend _ HP). reflexivity.
    - destruct (Hit k s ltac:(lia) HP) as [x [Hc [Hx [s1 [s2 [Hb [Hs HP2]]]]]]].
      destruct (IH (S k) s2 ltac:(lia) ltac:(lia) HP2) as [s' [Hl HP']].
      exists s'. split; auto. intros fuel Hf. destruct fuel; [lia|].
      rewrite exec_loop, Hc. cbn [bind as_int]. destruct (Z.eqb_spec x 0); [contradiction|].
      rewrite Hb by lia. cbn [bind]. rewrite Hs by lia. cbn [bind]. apply Hl. lia. }
  intros s HP. destruct (G n 0%nat s ltac:(lia) ltac:(lia) HP) as [s' [H1 H2]]. exists s'. split; auto.
Qed.
End TI.

(* ------------------------------------------------------------------ *)
(* generic list update                                                 *)
(* ------------------------------------------------------------------ *)
Fixpoint lupd {A} (n : nat) (v : A) (l : list A) : list A :=
  match l, n with
  | [], _ => []
  | _ :: r, O => v :: r
  | x :: r, S n' => x :: lupd n' v r
  end.
Lemma map_lupd : forall n (v : N) l, map Z.of_N (lupd n v l) = upd_nth n (Z.of_N v) (map Z.of_N l).
Proof. induction n as [|n IH]; intros v [|x l]; cbn; auto. now rewrite IH. Qed.
Lemma lupd_length : forall A n (v : A) l, List.length (lupd n v l) = List.length l.
Proof. induction n as [|n IH]; intros v [|x l]; cbn; auto. Qed.

(* ------------------------------------------------------------------ *)
(* 32-bit range facts                                                  *)
(* ------------------------------------------------------------------ *)
Definition lt32 (x : N) : Prop := (x < 4294967296)%N.

Lemma lt32_iff : forall z, lt32 z <-> N.land z (N.ones 32) = z.
Proof.
  intro z. unfold lt32. rewrite N.land_ones. change (2 ^ 32)%N with 4294967296%N. split.
  - intro H. apply N.mod_small. exact H.
  - intro H. rewrite <- H. apply N.mod_lt. discriminate.
Qed.
Lemma lt32_bit : forall z n, lt32 z -> (N.testbit z n && N.testbit (N.ones 32) n = N.testbit z n)%bool.
Proof. intros z n H. apply lt32_iff in H. rewrite <- N.land_spec, H. reflexivity. Qed.
Lemma lt32_lxor : forall x y, lt32 x -> lt32 y -> lt32 (N.lxor x y).
Proof.
  intros x y Hx Hy. apply lt32_iff. apply N.bits_inj. intro n.
  rewrite N.land_spec, N.lxor_spec. pose proof (lt32_bit x n Hx). pose proof (lt32_bit y n Hy).
  destruct (N.testbit x n), (N.testbit y n), (N.testbit (N.ones 32) n); cbn in *; congruence.
Qed.
Lemma lt32_lor : forall x y, lt32 x -> lt32 y -> lt32 (N.lor x y).
Proof.
  intros x y Hx Hy. apply lt32_iff. apply N.bits_inj. intro n.
  rewrite N.land_spec, N.lor_spec. pose proof (lt32_bit x n Hx). pose proof (lt32_bit y n Hy).
  destruct (N.testbit x n), (N.testbit y n), (N.testbit (N.ones 32) n); cbn in *; congruence.
Qed.
Lemma lt32_land : forall x y, lt32 x -> lt32 (N.land x y).
Proof.
  intros x y Hx. apply lt32_iff. apply N.bits_inj. intro n.
  rewrite !N.land_spec. pose proof (lt32_bit x n Hx).
  destruct (N.testbit x n), (N.testbit y n), (N.testbit (N.ones 32) n); cbn in *; congruence.
Qed.
Lemma lt32_shiftr : forall x n, lt32 x -> lt32 (N.shiftr x n).
Proof.
  intros x n H. unfold lt32 in *. rewrite N.shiftr_div_pow2.
  apply N.le_lt_trans with x; auto.
  assert (2 ^ n <> 0)%N by (apply N.pow_nonzero; discriminate).
  rewrite <- (N.div_1_r x) at 2. apply N.div_le_compat_l. lia.
Qed.
Lemma lt32_mod : forall x, lt32 (x mod w32).
Proof. intro x. apply N.mod_lt. discriminate. Qed.
Lemma lt32_add32 : forall x y, lt32 (add32 x y).
Proof. intros. apply lt32_mod. Qed.
Lemma lt32_not32 : forall x, lt32 x -> lt32 (not32 x).
Proof. intros x H. apply lt32_lxor; auto. reflexivity. Qed.

Lemma not32_sub : forall x, lt32 x -> not32 x = (4294967295 - x)%N.
Proof.
  intros x H. unfold not32.
  assert (E : (x + N.lxor x 4294967295 = 4294967295)%N).
  { rewrite N.add_nocarry_lxor.
    - rewrite <- N.lxor_assoc, N.lxor_nilpotent, N.lxor_0_l. reflexivity.
    - apply N.bits_inj. intro n. rewrite N.land_spec, N.lxor_spec, N.bits_0.
      pose proof (lt32_bit x n H). change 4294967295%N with (N.ones 32).
      destruct (N.testbit x n), (N.testbit (N.ones 32) n); cbn in *; congruence. }
  lia.
Qed.

(* ------------------------------------------------------------------ *)
(* expression evaluation                                               *)
(* ------------------------------------------------------------------ *)
Local Open Scope Z_scope.

Lemma ev_ptradd : forall s p sc i o off n,
  eval s p = Ok (VPtr o off) -> eval s i = Ok (VInt n) -> eval s (EPtrAdd p sc i) = Ok (VPtr o (off + n * sc)).
Proof. intros s p sc i o off n Hp Hi. cbn [eval]. rewrite Hp, Hi. reflexivity. Qed.
Lemma ev_field : forall s f, pre s = "" -> eval s (EField f) = Ok (VPtr f 0).
Proof. intros s f H. cbn [eval]. rewrite H. reflexivity. Qed.
Lemma ev_var : forall s x v, lget (loc s) x = Some v -> eval s (EVar x) = Ok v.
Proof. intros s x v H. cbn [eval]. rewrite H. reflexivity. Qed.

Definition evN (s : state) (e : expr) (n : N) : Prop := eval s e = Ok (VInt (Z.of_N n)) /\ lt32 n.

Lemma lt32_Z : forall n, lt32 n -> 0 <= Z.of_N n < 2 ^ 32.
Proof. unfold lt32. intros n H. change (2 ^ 32) with 4294967296. lia. Qed.

Lemma evN_const : forall s z, 0 <= z < 4294967296 -> evN s (EConst z) (Z.to_N z).
Proof. intros s z H. split. - cbn [eval]. rewrite Z2N.id by lia. reflexivity. - unfold lt32. lia. Qed.
Lemma evN_var : forall s x n, lget (loc s) x = Some (VInt (Z.of_N n)) -> lt32 n -> evN s (EVar x) n.
Proof. intros s x n H L. split; auto. now apply ev_var. Qed.
Lemma evN_cast32 : forall s a x, evN s a x -> evN s (ECast U32 a) x.
Proof.
  intros s a x [Ha Hx]. split; auto. cbn [eval]. rewrite Ha. cbn [bind as_int].
  rewrite wrap_U32_small by (apply lt32_Z; auto). reflexivity.
Qed.
Lemma evN_cast8 : forall s a x, evN s a x -> evN s (ECast U8 a) (x mod 256)%N.
Proof.
  intros s a x [Ha Hx]. split.
  - cbn [eval]. rewrite Ha. cbn [bind as_int]. rewrite wrap_U8_mod. rewrite of_N_mod by discriminate. reflexivity.
  - unfold lt32. assert (x mod 256 < 256)%N by (apply N.mod_lt; discriminate). lia.
Qed.
Lemma evN_add : forall s a b x y, evN s a x -> evN s b y -> evN s (EBin U32 Add a b) (add32 x y).
Proof.
  intros s a b x y [Ha Hx] [Hb Hy]. split; [|apply lt32_add32].
  cbn [eval]. rewrite Ha, Hb. cbn [bind as_int eval_bin]. rewrite arith_U32. cbn [bind].
  unfold add32, w32. rewrite of_N_mod by discriminate. rewrite N2Z.inj_add. reflexivity.
Qed.
Lemma evN_sub : forall s a b x y, evN s a x -> evN s b y -> (y <= x)%N -> evN s (EBin U32 Sub a b) (x - y)%N.
Proof.
  intros s a b x y [Ha Hx] [Hb Hy] Hle. split; [|unfold lt32 in *; lia].
  cbn [eval]. rewrite Ha, Hb. cbn [bind as_int eval_bin]. rewrite arith_U32. cbn [bind].
  rewrite N2Z.inj_sub by auto. rewrite Z.mod_small; [reflexivity|].
  change (2 ^ 32) with 4294967296. unfold lt32 in *. lia.
Qed.
Lemma evN_xor : forall s a b x y, evN s a x -> evN s b y -> evN s (EBin U32 BXor a b) (N.lxor x y).
Proof.
  intros s a b x y [Ha Hx] [Hb Hy]. split; [|apply lt32_lxor; auto].
  cbn [eval]. rewrite Ha, Hb. cbn [bind as_int eval_bin]. rewrite <- of_N_lxor.
  rewrite wrap_U32_small by (apply lt32_Z, lt32_lxor; auto). reflexivity.
Qed.
Lemma evN_or : forall s a b x y, evN s a x -> evN s b y -> evN s (EBin U32 BOr a b) (N.lor x y).
Proof.
  intros s a b x y [Ha Hx] [Hb Hy]. split; [|apply lt32_lor; auto].
  cbn [eval]. rewrite Ha, Hb. cbn [bind as_int eval_bin]. rewrite <- of_N_lor.
  rewrite wrap_U32_small by (apply lt32_Z, lt32_lor; auto). reflexivity.
Qed.
Lemma evN_and : forall s a b x y, evN s a x -> evN s b y -> evN s (EBin U32 BAnd a b) (N.land x y).
Proof.
  intros s a b x y [Ha Hx] [Hb Hy]. split; [|apply lt32_land; auto].
  cbn [eval]. rewrite Ha, Hb. cbn [bind as_int eval_bin]. rewrite <- of_N_land.
  rewrite wrap_U32_small by (apply lt32_Z, lt32_land; auto). reflexivity.
Qed.
Lemma evN_not : forall s a x, evN s a x -> evN s (EUn U32 BNot a) (not32 x).
Proof.
  intros s a x [Ha Hx]. split; [|apply lt32_not32; auto].
  cbn [eval]. rewrite Ha. cbn [bind as_int eval_un]. rewrite not32_sub by auto.
  rewrite wrap_U32_mod. unfold Z.lnot. f_equal. f_equal.
  unfold lt32 in Hx. rewrite N2Z.inj_sub by lia. change (2 ^ 32) with 4294967296.
  change (Z.of_N 4294967295) with 4294967295.
  symmetry. apply Z.mod_unique with (q := -1); lia.
Qed.
Lemma evN_shr : forall s a b x r, evN s a x -> eval s b = Ok (VInt r) -> 0 <= r < 32 ->
  evN s (EBin U32 Shr a b) (N.shiftr x (Z.to_N r)).
Proof.
  intros s a b x r [Ha Hx] Hb Hr. split; [|apply lt32_shiftr; auto].
  cbn [eval]. rewrite Ha, Hb. cbn [bind as_int eval_bin ity_bits].
  destruct (Z.ltb_spec r 0); [lia|]. destruct (Z.leb_spec 32 r); [lia|]. cbn [orb bind].
  rewrite of_N_shiftr, Z2N.id by lia. reflexivity.
Qed.
Lemma evN_shl : forall s a b x r, evN s a x -> eval s b = Ok (VInt r) -> 0 <= r < 32 ->
  evN s (EBin U32 Shl a b) (shl32 x (Z.to_N r)).
Proof.
  intros s a b x r [Ha Hx] Hb Hr. split; [|apply lt32_mod].
  cbn [eval]. rewrite Ha, Hb. cbn [bind as_int eval_bin ity_bits ity_signed].
  destruct (Z.ltb_spec r 0); [lia|]. destruct (Z.leb_spec 32 r); [lia|]. cbn [orb bind].
  unfold shl32, w32. rewrite of_N_mod by discriminate. rewrite of_N_shiftl, Z2N.id by lia. reflexivity.
Qed.

Lemma to_nat_of_N : forall i, Z.to_nat (Z.of_N i) = N.to_nat i.
Proof. intro i. lia. Qed.
(* load of cell i of a U32 object through base + 4*i *)
Lemma evN_load32 : forall s base idx o i ob x,
  eval s base = Ok (VPtr o 0) -> evN s idx i -> mget (mem s) o = Some ob -> o_ty ob = U32 ->
  (N.to_nat i < List.length (o_cells ob))%nat -> nth (N.to_nat i) (o_cells ob) 0 = Z.of_N x -> lt32 x ->
  evN s (ELoad U32 (EPtrAdd base 4 idx)) x.
Proof.
  intros s base idx o i ob x Hb [Hi Hil] Hm Ht Hlen Hn Hx. split; auto.
  cbn [eval]. rewrite Hb, Hi. cbn [bind as_int]. rewrite Hm. unfold load_obj. rewrite Ht.
  change (ity_bytes U32) with 4. replace (0 + Z.of_N i * 4) with (Z.of_N i * 4) by lia.
  destruct (Z.ltb_spec (Z.of_N i * 4) 0); [lia|]. cbn [Z.eqb Pos.eqb].
  rewrite Z.mod_mul by lia. cbn [Z.eqb]. rewrite Z.div_mul by lia.
  destruct (Z.ltb_spec (Z.of_N i) (Z.of_nat (List.length (o_cells ob)))); [|lia].
  rewrite to_nat_of_N, Hn. cbn [bind]. rewrite wrap_U32_small by (apply lt32_Z; auto). reflexivity.
Qed.

(* store into cell i of a U32 object *)
Lemma store32_ok : forall ob i x, o_ty ob = U32 -> (N.to_nat i < List.length (o_cells ob))%nat -> lt32 x ->
  store_obj ob U32 (0 + Z.of_N i * 4) (Z.of_N x) =
  Ok {| o_ty := U32; o_cells := upd_nth (N.to_nat i) (Z.of_N x) (o_cells ob) |}.
Proof.
  intros ob i x Ht Hlen Hx. unfold store_obj. rewrite Ht.
  change (ity_bytes U32) with 4. replace (0 + Z.of_N i * 4) with (Z.of_N i * 4) by lia.
  destruct (Z.ltb_spec (Z.of_N i * 4) 0); [lia|]. cbn [Z.eqb Pos.eqb].
  rewrite Z.mod_mul by lia. cbn [Z.eqb]. rewrite Z.div_mul by lia.
  destruct (Z.ltb_spec (Z.of_N i) (Z.of_nat (List.length (o_cells ob)))); [|lia].
  rewrite to_nat_of_N. rewrite wrap_U32_small by (apply lt32_Z; auto). reflexivity.
Qed.

Section TI2.
Variable prog : program.
Variable vt : list (string * string).
Lemma ti_store32 : forall s base idx e o i ob x,
  eval s base = Ok (VPtr o 0) -> evN s idx i -> evN s e x -> mget (mem s) o = Some ob -> o_ty ob = U32 ->
  (N.to_nat i < List.length (o_cells ob))%nat ->
  ti prog vt 1 (SStore U32 (EPtrAdd base 4 idx) e) s
     (Normal, with_mem s (mset (mem s) o {| o_ty := U32; o_cells := upd_nth (N.to_nat i) (Z.of_N x) (o_cells ob) |})).
Proof.
  intros s base idx e o i ob x Hb [Hi Hil] [He Hx] Hm Ht Hlen.
  eapply ti_store; [eapply ev_ptradd; eauto | eauto | eauto |]. apply store32_ok; auto.
Qed.
End TI2.

Local Open Scope N_scope.
Local Open Scope list_scope.
(* ---------------- message schedule ---------------- *)
Definition sched_step (w : list N) : N :=
  add32 (add32 (add32 (rs3 sha256_GAMMA1 (nth 1 w 0)) (nth 6 w 0)) (rs3 sha256_GAMMA0 (nth 14 w 0))) (nth 15 w 0).

Lemma sched_add : forall a b w, m_sha256_sched (a + b) w = m_sha256_sched b (m_sha256_sched a w).
Proof. induction a as [|a IH]; intros b w; cbn [Nat.add m_sha256_sched]; auto. Qed.
Lemma sched_S : forall a w, m_sha256_sched (S a) w = sched_step (m_sha256_sched a w) :: m_sha256_sched a w.
Proof. intros a w. replace (S a) with (a + 1)%nat by lia. rewrite sched_add. reflexivity. Qed.
Lemma sched_suffix : forall n w, exists p, m_sha256_sched n w = p ++ w /\ List.length p = n.
Proof.
  induction n as [|n IH]; intros w.
  - exists []. split; reflexivity.
  - rewrite sched_S. destruct (IH w) as [p [Hp Hl]]. exists (sched_step (m_sha256_sched n w) :: p).
    split; [rewrite Hp at 2; reflexivity | cbn; lia].
Qed.
Lemma sched_length : forall n w, List.length (m_sha256_sched n w) = (n + List.length w)%nat.
Proof. intros n w. destruct (sched_suffix n w) as [p [Hp Hl]]. rewrite Hp, app_length. lia. Qed.

Lemma W_length : forall M, List.length M = 16%nat -> List.length (m_sha256_W M) = 64%nat.
Proof. intros M H. unfold m_sha256_W. rewrite rev_length, sched_length, rev_length, H. reflexivity. Qed.

Lemma W_prefix : forall M a j, (a <= 48)%nat -> (j < a + List.length M)%nat ->
  nth j (m_sha256_W M) 0 = nth j (rev (m_sha256_sched a (rev M))) 0.
Proof.
  intros M a j Ha Hj. unfold m_sha256_W. replace 48%nat with (a + (48 - a))%nat by lia.
  rewrite sched_add. destruct (sched_suffix (48 - a) (m_sha256_sched a (rev M))) as [p [Hp Hl]].
  rewrite Hp, rev_app_distr. apply app_nth1. rewrite rev_length, sched_length, rev_length. lia.
Qed.
Lemma W_init : forall M i, (i < List.length M)%nat -> nth i (m_sha256_W M) 0 = nth i M 0.
Proof. intros M i H. rewrite (W_prefix M 0 i) by lia. cbn [m_sha256_sched]. now rewrite rev_involutive. Qed.
Lemma W_back : forall M a j, List.length M = 16%nat -> (a <= 48)%nat -> (j < a + 16)%nat ->
  nth j (m_sha256_sched a (rev M)) 0 = nth (a + 16 - S j) (m_sha256_W M) 0.
Proof.
  intros M a j HM Ha Hj. rewrite (W_prefix M a) by lia.
  rewrite rev_nth by (rewrite sched_length, rev_length; lia).
  rewrite sched_length, rev_length, HM. f_equal. lia.
Qed.
Lemma W_rec : forall M i, List.length M = 16%nat -> (16 <= i < 64)%nat ->
  nth i (m_sha256_W M) 0 =
  add32 (add32 (add32 (rs3 sha256_GAMMA1 (nth (i - 2) (m_sha256_W M) 0)) (nth (i - 7) (m_sha256_W M) 0))
               (rs3 sha256_GAMMA0 (nth (i - 15) (m_sha256_W M) 0))) (nth (i - 16) (m_sha256_W M) 0).
Proof.
  intros M i HM Hi. rewrite (W_prefix M (S (i - 16))) by lia.
  rewrite rev_nth by (rewrite sched_length, rev_length; lia).
  rewrite sched_length, rev_length, HM. replace (S (i - 16) + 16 - S i)%nat with 0%nat by lia.
  rewrite sched_S. cbn [nth]. unfold sched_step.
  rewrite !(W_back M (i - 16)) by lia.
  repeat (f_equal; try lia).
Qed.
Lemma W_lt32 : forall M i, List.length M = 16%nat -> Forall lt32 M -> lt32 (nth i (m_sha256_W M) 0).
Proof.
  intros M i HM HF. destruct (Nat.lt_ge_cases i 16) as [H|H].
  - rewrite W_init by lia. rewrite Forall_forall in HF. apply HF. apply nth_In. lia.
  - destruct (Nat.lt_ge_cases i 64) as [H2|H2].
    + rewrite W_rec by lia. apply lt32_add32.
    + rewrite nth_overflow by (rewrite W_length; auto). reflexivity.
Qed.

(* ---------------- rounds ---------------- *)
Lemma round_shape : forall W v i, List.length v = 8%nat -> Forall lt32 v ->
  List.length (m_sha256_round W v i) = 8%nat /\ Forall lt32 (m_sha256_round W v i).
Proof.
  intros W v i Hl HF.
  destruct v as [|a [|b [|c [|d [|e [|f [|g [|h [|]]]]]]]]]; try discriminate.
  split; [reflexivity|]. unfold m_sha256_round.
  repeat match goal with H : Forall _ (_ :: _) |- _ => inversion H; clear H; subst end.
  repeat constructor; auto; apply lt32_add32.
Qed.
Lemma rounds_shape : forall W l v, List.length v = 8%nat -> Forall lt32 v ->
  List.length (fold_left (m_sha256_round W) l v) = 8%nat /\ Forall lt32 (fold_left (m_sha256_round W) l v).
Proof.
  induction l as [|i l IH]; intros v Hl HF; cbn [fold_left]; auto.
  destruct (round_shape W v i Hl HF). apply IH; auto.
Qed.
Lemma rounds_S : forall W k v, fold_left (m_sha256_round W) (seq 0 (S k)) v =
  m_sha256_round W (fold_left (m_sha256_round W) (seq 0 k) v) k.
Proof. intros. rewrite seq_S, fold_left_app. reflexivity. Qed.

(* ---------------- bytes and big-endian words ---------------- *)
Lemma skipn_plus : forall A (a b : nat) (l : list A), skipn (a + b) l = skipn a (skipn b l).
Proof.
  intros A a b. revert a. induction b as [|b IH]; intros a l.
  - now rewrite Nat.add_0_r.
  - rewrite Nat.add_succ_r. destruct l as [|x l]; [now rewrite !skipn_nil|]. cbn [skipn]. apply IH.
Qed.
Lemma words_of_skipn : forall i l, skipn i (words_of be32 l) = words_of be32 (skipn (4 * i) l).
Proof.
  induction i as [|i IH]; intros l; [reflexivity|].
  replace (4 * S i)%nat with (4 * i + 4)%nat by lia. rewrite skipn_plus, <- IH.
  replace (S i) with (i + 1)%nat by lia. rewrite skipn_plus. f_equal.
  destruct l as [|b0 [|b1 [|b2 [|b3 r]]]]; reflexivity.
Qed.
Lemma nth_hd_skipn : forall A (l : list A) i d, nth i l d = hd d (skipn i l).
Proof. induction l as [|x l IH]; intros [|i] d; cbn; auto. Qed.
Lemma nth_words_of : forall l i, (4 * i + 4 <= List.length l)%nat ->
  nth i (words_of be32 l) 0 = be32 (nth (4 * i) l 0) (nth (4 * i + 1) l 0) (nth (4 * i + 2) l 0) (nth (4 * i + 3) l 0).
Proof.
  intros l i H. rewrite nth_hd_skipn, words_of_skipn.
  rewrite !(nth_hd_skipn _ l). 
  replace (4 * i + 1)%nat with (1 + 4 * i)%nat by lia. replace (4 * i + 2)%nat with (2 + 4 * i)%nat by lia.
  replace (4 * i + 3)%nat with (3 + 4 * i)%nat by lia.
  rewrite !skipn_plus.
  assert (L : (4 <= List.length (skipn (4 * i) l))%nat) by (rewrite skipn_length; lia).
  destruct (skipn (4 * i) l) as [|b0 [|b1 [|b2 [|b3 r]]]]; cbn in L; try lia. reflexivity.
Qed.
Lemma words_of_length : forall l, List.length (words_of be32 l) = (List.length l / 4)%nat.
Proof.
  assert (G : forall n l, (List.length l < 4 * n)%nat -> List.length (words_of be32 l) = (List.length l / 4)%nat).
  { induction n as [|n IH]; intros l H; [lia|].
    destruct l as [|b0 [|b1 [|b2 [|b3 r]]]]; try reflexivity.
    cbn [words_of List.length]. rewrite IH by (cbn in H; lia).
    change (S (S (S (S (List.length r))))) with (4 + List.length r)%nat.
    replace (4 + List.length r)%nat with (List.length r + 1 * 4)%nat by lia. rewrite Nat.div_add by lia. lia. }
  intro l. apply (G (S (List.length l))). lia.
Qed.

Definition byte (b : N) := b < 256.
Lemma be32_lt32 : forall b0 b1 b2 b3, byte b0 -> byte b1 -> byte b2 -> byte b3 -> lt32 (be32 b0 b1 b2 b3).
Proof.
  unfold byte. intros b0 b1 b2 b3 H0 H1 H2 H3. unfold be32.
  assert (S : forall b k, b < 256 -> k <= 24 -> lt32 (N.shiftl b k)).
  { intros b k Hb Hk. unfold lt32. rewrite N.shiftl_mul_pow2.
    apply N.lt_le_trans with (256 * 2 ^ k).
    - apply N.mul_lt_mono_pos_r; auto. apply N.neq_0_lt_0, N.pow_nonzero. discriminate.
    - change 4294967296 with (256 * 2 ^ 24). apply N.mul_le_mono_l. apply N.pow_le_mono_r; [discriminate|auto]. }
  repeat apply lt32_lor; try (apply S; auto; lia). unfold lt32; lia.
Qed.

(* ---------------- little-endian load of a word from a byte object, and the byte swap ---------------- *)
Definition le32n (b0 b1 b2 b3 : N) : N := b0 + 256 * b1 + 65536 * b2 + 16777216 * b3.

Local Ltac Zify.zify_post_hook ::= Z.to_euclidean_division_equations.

Lemma bswap_be32 : forall b0 b1 b2 b3, byte b0 -> byte b1 -> byte b2 -> byte b3 ->
  N.lor (N.lor (N.lor ((N.shiftr (le32n b0 b1 b2 b3) 24) mod 256) (shl32 ((N.shiftr (le32n b0 b1 b2 b3) 16) mod 256) 8))
               (shl32 ((N.shiftr (le32n b0 b1 b2 b3) 8) mod 256) 16)) (shl32 (le32n b0 b1 b2 b3) 24)
  = be32 b0 b1 b2 b3.
Proof.
  unfold byte, le32n, shl32, w32, be32. intros b0 b1 b2 b3 H0 H1 H2 H3.
  rewrite !N.shiftr_div_pow2, !N.shiftl_mul_pow2.
  change (2 ^ 24) with 16777216. change (2 ^ 16) with 65536. change (2 ^ 8) with 256.
  assert (E3 : (b0 + 256 * b1 + 65536 * b2 + 16777216 * b3) / 16777216 mod 256 = b3) by lia.
  assert (E2 : ((b0 + 256 * b1 + 65536 * b2 + 16777216 * b3) / 65536 mod 256 * 256) mod 4294967296 = b2 * 256) by lia.
  assert (E1 : ((b0 + 256 * b1 + 65536 * b2 + 16777216 * b3) / 256 mod 256 * 65536) mod 4294967296 = b1 * 65536) by lia.
  assert (E0 : ((b0 + 256 * b1 + 65536 * b2 + 16777216 * b3) * 16777216) mod 4294967296 = b0 * 16777216) by lia.
  rewrite E3, E2, E1, E0.
  rewrite (N.lor_comm (N.lor (N.lor b3 (b2 * 256)) (b1 * 65536))). f_equal.
  rewrite (N.lor_comm (N.lor b3 (b2 * 256))). f_equal. apply N.lor_comm.
Qed.

Lemma bytesb_nth : forall l i, bytesb l = true -> byte (nth i l 0).
Proof.
  intros l i H. unfold byte. destruct (Nat.lt_ge_cases i (List.length l)) as [L|L].
  - unfold bytesb in H. rewrite forallb_forall in H. specialize (H _ (nth_In l 0 L)).
    unfold byte_ok in H. now apply N.ltb_lt in H.
  - rewrite nth_overflow by auto. reflexivity.
Qed.

Local Open Scope Z_scope.
Lemma le_val4 : forall (l : list N) i, (4 * i + 4 <= List.length l)%nat ->
  le_val (firstn 4 (skipn (4 * i) (map Z.of_N l))) =
  Z.of_N (le32n (nth (4 * i) l 0%N) (nth (4 * i + 1) l 0%N) (nth (4 * i + 2) l 0%N) (nth (4 * i + 3) l 0%N)).
Proof.
  intros l i H. rewrite !(nth_hd_skipn _ l).
  replace (4 * i + 1)%nat with (1 + 4 * i)%nat by lia. replace (4 * i + 2)%nat with (2 + 4 * i)%nat by lia.
  replace (4 * i + 3)%nat with (3 + 4 * i)%nat by lia.
  rewrite !skipn_plus. rewrite skipn_map.
  assert (L : (4 <= List.length (skipn (4 * i) l))%nat) by (rewrite skipn_length; lia).
  destruct (skipn (4 * i) l) as [|b0 [|b1 [|b2 [|b3 r]]]]; cbn in L; try lia.
  cbn [map firstn le_val skipn hd]. unfold le32n. lia.
Qed.

Lemma evN_load_le32 : forall s base idx o i ob bs,
  eval s base = Ok (VPtr o 0) -> evN s idx i -> mget (mem s) o = Some ob -> o_ty ob = U8 ->
  o_cells ob = map Z.of_N bs -> bytesb bs = true -> (4 * N.to_nat i + 4 <= List.length bs)%nat ->
  evN s (ELoad U32 (EPtrAdd base 4 idx))
      (le32n (nth (4 * N.to_nat i) bs 0%N) (nth (4 * N.to_nat i + 1) bs 0%N) (nth (4 * N.to_nat i + 2) bs 0%N) (nth (4 * N.to_nat i + 3) bs 0%N)).
Proof.
  intros s base idx o i ob bs Hb [Hi Hil] Hm Ht Hc Hby Hlen.
  assert (LT : lt32 (le32n (nth (4 * N.to_nat i) bs 0%N) (nth (4 * N.to_nat i + 1) bs 0%N) (nth (4 * N.to_nat i + 2) bs 0%N) (nth (4 * N.to_nat i + 3) bs 0%N))).
  { pose proof (bytesb_nth bs (4 * N.to_nat i) Hby). pose proof (bytesb_nth bs (4 * N.to_nat i + 1) Hby).
    pose proof (bytesb_nth bs (4 * N.to_nat i + 2) Hby). pose proof (bytesb_nth bs (4 * N.to_nat i + 3) Hby).
    unfold byte, lt32, le32n in *. lia. }
  split; auto.
  cbn [eval]. rewrite Hb, Hi. cbn [bind as_int]. rewrite Hm. unfold load_obj. rewrite Ht.
  change (ity_bytes U32) with 4. change (ity_bytes U8) with 1. cbn [Z.eqb Pos.eqb].
  destruct (Z.ltb_spec (0 + Z.of_N i * 4) 0); [lia|].
  rewrite Hc, map_length.
  destruct (Z.leb_spec (0 + Z.of_N i * 4 + 4) (Z.of_nat (List.length bs))); [|lia].
  replace (Z.to_nat (0 + Z.of_N i * 4)) with (4 * N.to_nat i)%nat by lia.
  change (Z.to_nat 4) with 4%nat. rewrite le_val4 by lia. cbn [bind].
  rewrite wrap_U32_small by (apply lt32_Z; auto). reflexivity.
Qed.

(* ---------------- Z-level evaluation steps ---------------- *)
Lemma ev_bin : forall s t op a b x y z, eval s a = Ok (VInt x) -> eval s b = Ok (VInt y) -> eval_bin t op x y = Ok z ->
  eval s (EBin t op a b) = Ok (VInt z).
Proof. intros s t op a b x y z Ha Hb Hz. cbn [eval]. rewrite Ha, Hb. cbn [bind as_int]. rewrite Hz. reflexivity. Qed.
Lemma ev_cast : forall s t a x, eval s a = Ok (VInt x) -> eval s (ECast t a) = Ok (VInt (wrap t x)).
Proof. intros s t a x Ha. cbn [eval]. rewrite Ha. reflexivity. Qed.
Lemma ev_load : forall s t p o off ob z, eval s p = Ok (VPtr o off) -> mget (mem s) o = Some ob -> load_obj ob t off = Ok z ->
  eval s (ELoad t p) = Ok (VInt z).
Proof. intros s t p o off ob z Hp Hm Hl. cbn [eval]. rewrite Hp. cbn [bind]. rewrite Hm, Hl. reflexivity. Qed.

(* ---------------- arrays of 32-bit words held as lists of N ---------------- *)
Definition u32o (ws : list N) : object := {| o_ty := U32; o_cells := map Z.of_N ws |}.

Lemma Forall_lupd : forall A (P : A -> Prop) j x v, Forall P v -> P x -> Forall P (lupd j x v).
Proof.
  intros A P j x v H. revert j. induction H as [|y v Hy Hv IH]; intros [|j] Hx; cbn; auto.
Qed.
Lemma Forall_nth_lt32 : forall v i, Forall lt32 v -> lt32 (nth i v 0%N).
Proof.
  intros v i H. destruct (Nat.lt_ge_cases i (List.length v)) as [L|L].
  - rewrite Forall_forall in H. apply H. now apply nth_In.
  - rewrite nth_overflow by auto. reflexivity.
Qed.

Lemma ld_arr : forall st base o v idx i,
  eval st base = Ok (VPtr o 0) -> evN st idx i -> mget (mem st) o = Some (u32o v) ->
  (N.to_nat i < List.length v)%nat -> Forall lt32 v ->
  evN st (ELoad U32 (EPtrAdd base 4 idx)) (nth (N.to_nat i) v 0%N).
Proof.
  intros st base o v idx i Hb Hi Hm Hl HF.
  eapply evN_load32 with (o := o) (ob := u32o v) (i := i); [exact Hb | exact Hi | exact Hm | reflexivity | | |].
  - cbn [u32o o_cells]. now rewrite map_length.
  - cbn [u32o o_cells]. change 0 with (Z.of_N 0). apply map_nth.
  - now apply Forall_nth_lt32.
Qed.

Section TI3.
Variable prog : program.
Variable vt : list (string * string).
Lemma st_arr : forall st base o v idx i e x,
  eval st base = Ok (VPtr o 0) -> evN st idx i -> evN st e x -> mget (mem st) o = Some (u32o v) ->
  (N.to_nat i < List.length v)%nat ->
  ti prog vt 1 (SStore U32 (EPtrAdd base 4 idx) e) st
     (Normal, with_mem st (mset (mem st) o (u32o (lupd (N.to_nat i) x v)))).
Proof.
  intros st base o v idx i e x Hb Hi He Hm Hl.
  unfold u32o. rewrite map_lupd.
  eapply ti_store32 with (ob := u32o v); [exact Hb | exact Hi | exact He | exact Hm | reflexivity |].
  cbn [u32o o_cells]. now rewrite map_length.
Qed.
End TI3.

(* ---------------- list facts for the final additions ---------------- *)
Lemma nth_map2_add32 : forall (A B : list N) k, (k < List.length A)%nat -> (k < List.length B)%nat ->
  nth k (map2 add32 A B) 0%N = add32 (nth k A 0%N) (nth k B 0%N).
Proof.
  induction A as [|a A IH]; intros [|b B] k HA HB; cbn in *; try lia.
  destruct k; [reflexivity|]. apply IH; lia.
Qed.
Lemma map2_length : forall (A B : list N), List.length B = List.length A -> List.length (map2 add32 A B) = List.length A.
Proof. induction A as [|a A IH]; intros [|b B] H; cbn in *; try lia. f_equal. apply IH. lia. Qed.
Lemma lupd_firstn_skipn : forall (k : nat) (A H : list N) x, (k < List.length A)%nat -> (k < List.length H)%nat -> x = nth k A 0%N ->
  lupd k x (firstn k A ++ skipn k H) = firstn (S k) A ++ skipn (S k) H.
Proof.
  induction k as [|k IH]; intros [|a A] [|h H] x HA HH Hx; cbn in *; try lia.
  - now subst.
  - f_equal. apply IH; auto; lia.
Qed.
Lemma nth_firstn_skipn : forall (k : nat) (A H : list N), (k <= List.length A)%nat ->
  nth k (firstn k A ++ skipn k H) 0%N = nth k H 0%N.
Proof.
  intros k A H HA. rewrite app_nth2 by (rewrite firstn_length; lia).
  rewrite firstn_length. replace (k - Nat.min k (List.length A))%nat with 0%nat by lia.
  rewrite (nth_hd_skipn _ H k). destruct (skipn k H); reflexivity.
Qed.

(* ---------------- memset / memcpy on byte objects (destination offset 0) ---------------- *)
Local Open Scope Z_scope.
Lemma upd_range_0 : forall (vs post : list Z), (List.length vs <= List.length post)%nat ->
  upd_range 0 vs post = vs ++ skipn (List.length vs) post.
Proof. intros vs post H. exact (upd_range_app vs [] post H). Qed.
Lemma memset_u8 : forall s o ob n, mget (mem s) o = Some ob -> o_ty ob = U8 -> 0 <= n ->
  n <= Z.of_nat (List.length (o_cells ob)) ->
  do_memset s (VPtr o 0) 0 n =
  Ok (with_mem s (mset (mem s) o {| o_ty := U8; o_cells := repeat 0 (Z.to_nat n) ++ skipn (Z.to_nat n) (o_cells ob) |})).
Proof.
  intros s o ob n Hm Ht Hn Hl. unfold do_memset. rewrite Hm, Ht. change (ity_bytes U8) with 1.
  rewrite Z.mod_1_r, !Z.div_1_r. cbn [Z.eqb negb orb Z.ltb Z.compare Z.modulo Z.div_eucl Z.add].
  destruct (Z.ltb_spec n 0); [lia|]. cbn [orb].
  destruct (Z.ltb_spec (Z.of_nat (List.length (o_cells ob))) n); [lia|].
  do 4 f_equal. change (Z.to_nat 0) with 0%nat.
  rewrite upd_range_0 by (rewrite repeat_length; lia).
  rewrite repeat_length. reflexivity.
Qed.
Lemma memcpy_u8 : forall s od bd os bs offs n,
  mget (mem s) od = Some bd -> o_ty bd = U8 -> mget (mem s) os = Some bs -> o_ty bs = U8 ->
  0 <= offs -> 0 <= n -> offs + n <= Z.of_nat (List.length (o_cells bs)) -> n <= Z.of_nat (List.length (o_cells bd)) ->
  do_memcpy s (VPtr od 0) (VPtr os offs) n =
  Ok (with_mem s (mset (mem s) od {| o_ty := U8;
        o_cells := firstn (Z.to_nat n) (skipn (Z.to_nat offs) (o_cells bs)) ++ skipn (Z.to_nat n) (o_cells bd) |})).
Proof.
  intros s od bd os bs offs n Hd Htd Hs Hts Ho Hn Hls Hld. unfold do_memcpy. rewrite Hd, Hs, Htd, Hts.
  change (ity_bytes U8) with 1. rewrite !Z.mod_1_r, !Z.div_1_r. cbn [Z.eqb negb orb Z.ltb Z.compare Z.add].
  destruct (Z.ltb_spec n 0); [lia|]. destruct (Z.ltb_spec offs 0); [lia|]. cbn [orb].
  destruct (Z.ltb_spec (Z.of_nat (List.length (o_cells bs))) (offs + n)); [lia|].
  destruct (Z.ltb_spec (Z.of_nat (List.length (o_cells bd))) n); [lia|].
  do 4 f_equal. change (Z.to_nat 0) with 0%nat.
  assert (L : List.length (firstn (Z.to_nat n) (skipn (Z.to_nat offs) (o_cells bs))) = Z.to_nat n).
  { rewrite firstn_length, skipn_length. lia. }
  rewrite upd_range_0 by (rewrite L; lia).
  rewrite L. reflexivity.
Qed.
(* whole-object copy between two U32 objects of k cells *)
Lemma memcpy_u32_all : forall s od bd os bs k,
  mget (mem s) od = Some bd -> o_ty bd = U32 -> mget (mem s) os = Some bs -> o_ty bs = U32 ->
  List.length (o_cells bd) = k -> List.length (o_cells bs) = k ->
  do_memcpy s (VPtr od 0) (VPtr os 0) (4 * Z.of_nat k) =
  Ok (with_mem s (mset (mem s) od {| o_ty := U32; o_cells := o_cells bs |})).
Proof.
  intros s od bd os bs k Hd Htd Hs Hts Hld Hls. unfold do_memcpy. rewrite Hd, Hs, Htd, Hts.
  change (ity_bytes U32) with 4. rewrite (Z.mul_comm 4), Z.mod_mul, Z.div_mul by lia.
  cbn [Z.eqb Pos.eqb negb orb Z.ltb Z.compare Z.add Z.modulo Z.div Z.div_eucl].
  destruct (Z.ltb_spec (Z.of_nat k * 4) 0); [lia|]. cbn [orb].
  rewrite Hld, Hls. destruct (Z.ltb_spec (Z.of_nat k) (Z.of_nat k)); [lia|].
  do 4 f_equal. rewrite Nat2Z.id. change (Z.to_nat 0) with 0%nat. cbn [skipn].
  rewrite <- Hls, firstn_all. rewrite upd_range_0 by lia.
  rewrite Hls, <- Hld, skipn_all. apply app_nil_r.
Qed.

Lemma Forall_firstn_ : forall A (P : A -> Prop) k l, Forall P l -> Forall P (firstn k l).
Proof. intros A P k l H. revert k. induction H; intros [|k]; cbn; auto. Qed.
Lemma Forall_skipn_ : forall A (P : A -> Prop) k l, Forall P l -> Forall P (skipn k l).
Proof. intros A P k l H. revert k. induction H; intros [|k]; cbn; auto. Qed.
Lemma Forall_map2_add32 : forall A B, Forall lt32 (map2 add32 A B).
Proof. induction A as [|a A IH]; intros [|b B]; cbn; auto. constructor; auto. apply lt32_add32. Qed.

(* ---------------- byte stores, digest bytes ---------------- *)
Lemma store8_ok : forall ob p v, o_ty ob = U8 -> 0 <= p < Z.of_nat (List.length (o_cells ob)) -> 0 <= v < 256 ->
  store_obj ob U8 p v = Ok {| o_ty := U8; o_cells := upd_nth (Z.to_nat p) v (o_cells ob) |}.
Proof.
  intros ob p v Ht Hp Hv. unfold store_obj. rewrite Ht. change (ity_bytes U8) with 1.
  rewrite Z.mod_1_r, Z.div_1_r. cbn [Z.eqb].
  destruct (Z.ltb_spec p 0); [lia|]. destruct (Z.ltb_spec p (Z.of_nat (List.length (o_cells ob)))); [|lia].
  rewrite wrap_U8_small by lia. reflexivity.
Qed.
Lemma nth_skipn_ : forall A (l : list A) a j d, nth j (skipn a l) d = nth (a + j) l d.
Proof. intros A l a. revert l. induction a as [|a IH]; intros [|x l] j d; cbn [skipn Nat.add nth]; auto. destruct j; reflexivity. Qed.
Lemma nth_firstn_ : forall A (l : list A) n j d, (j < n)%nat -> nth j (firstn n l) d = nth j l d.
Proof. intros A l n. revert l. induction n as [|n IH]; intros [|x l] j d H; cbn [firstn nth]; try lia; auto. destruct j; auto. apply IH. lia. Qed.

Lemma flat_be32_length : forall H, List.length (flat_map be32_bytes H) = (4 * List.length H)%nat.
Proof. induction H as [|a H IH]; [reflexivity|]. cbn [flat_map]. rewrite app_length, IH. cbn [be32_bytes List.length]. lia. Qed.

Require Import ZifyNat.
Local Open Scope N_scope.
Lemma nth_flat_be32 : forall H k, (k < 4 * List.length H)%nat ->
  nth k (flat_map be32_bytes H) 0 = N.shiftr (nth (k / 4) H 0) (N.of_nat (8 * (3 - k mod 4))) mod 256.
Proof.
  induction H as [|a H IH]; intros k Hk; [cbn in Hk; lia|].
  cbn [flat_map]. destruct (Nat.lt_ge_cases k 4) as [L|L].
  - destruct k as [|[|[|[|k]]]]; try lia; reflexivity.
  - rewrite app_nth2 by (cbn [be32_bytes List.length]; lia). cbn [be32_bytes List.length].
    rewrite IH by (cbn [List.length] in Hk; lia).
    replace (k / 4)%nat with (S ((k - 4) / 4)) by lia. cbn [nth].
    replace ((k - 4) mod 4)%nat with (k mod 4)%nat by lia. reflexivity.
Qed.

(* ---------------- padding helpers ---------------- *)
Lemma skipn_repeat : forall A (x : A) n k, skipn k (repeat x n) = repeat x (n - k).
Proof. intros A x n. induction n as [|n IH]; intros [|k]; cbn; auto. Qed.
Lemma upd_nth_app_exact : forall (a : list Z) x r v, upd_nth (List.length a) v (a ++ x :: r) = a ++ v :: r.
Proof. induction a as [|y a IH]; intros; cbn; auto. now rewrite IH. Qed.
Lemma map_repeat_ : forall A B (f : A -> B) x n, map f (repeat x n) = repeat (f x) n.
Proof. induction n as [|n IH]; cbn; auto. now rewrite IH. Qed.
Lemma bytesb_app : forall a b, bytesb (a ++ b) = (bytesb a && bytesb b)%bool.
Proof. intros. apply forallb_app. Qed.
Lemma bytesb_zeros : forall n, bytesb (zeros n) = true.
Proof. induction n as [|n IH]; cbn; auto. Qed.
Lemma bytesb_firstn : forall k l, bytesb l = true -> bytesb (firstn k l) = true.
Proof.
  intros k l H. unfold bytesb in *. rewrite forallb_forall in *. intros x Hx. apply H.
  rewrite <- (firstn_skipn k l). apply in_or_app. now left.
Qed.
Lemma bytesb_be64 : forall w, bytesb (be64_bytes w) = true.
Proof.
  intro w. unfold be64_bytes, bytesb. rewrite forallb_forall. intros x Hx. apply in_map_iff in Hx.
  destruct Hx as [i [<- _]]. unfold byte_ok. apply N.ltb_lt. apply N.mod_lt. discriminate.
Qed.
Lemma nth_be64 : forall w k, (k < 8)%nat -> nth k (be64_bytes w) 0 = N.shiftr w (N.of_nat (8 * (7 - k))) mod 256.
Proof. intros w k H. do 8 (destruct k as [|k]; [reflexivity|]). lia. Qed.
