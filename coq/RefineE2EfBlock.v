(* Stage 5: the bytes of a buffer against the blocks of the model, for one block replaced (generic form of RefineConcTagBlock.tag_cells_data). *)
From Coq Require Import ZArith NArith List Bool Lia Arith.
From Wencry Require Import Bytes FileModel.
From Wencry Require RefineConcTagBlock.
Import ListNotations.
Local Open Scope list_scope.

Definition set_nth_split := RefineConcTagBlock.set_nth_split.
Definition concat_len16' := RefineConcTagBlock.concat_len16'.

Lemma skipn_skipn_l : forall (A : Type) x y (l : list A), skipn x (skipn y l) = skipn (y + x) l.
Proof. intros A x y. revert x. induction y as [|y IH]; intros x l; [reflexivity|]. destruct l as [|a l]; [now rewrite !skipn_nil|]. cbn [skipn Nat.add]. apply IH. Qed.

Section Block.
Variables (cells : list Z) (data : list (list N)) (tot now : nat).
Hypothesis Hlen : (16 * tot <= List.length cells)%nat.
Hypothesis Hld : List.length data = tot.
Hypothesis H16 : Forall (fun blk => List.length blk = 16%nat) data.
Hypothesis Hnow : (now < tot)%nat.
Hypothesis Hrel : map Z.to_N (firstn (16 * tot) cells) = concat data.

Let d1 := firstn now data.
Let d2 := skipn (S now) data.
Let blk := nth now data [].
Let pre := firstn (16 * now) cells.
Let rest := skipn (16 * now) cells.
Let z := firstn 16 rest.
Let post := skipn 16 rest.

Lemma block_split :
  map Z.to_N pre = concat d1 /\ map Z.to_N z = blk /\ map Z.to_N (firstn (16 * tot - 16 * now - 16) post) = concat d2 /\
  List.length pre = (16 * now)%nat /\ List.length z = 16%nat /\ cells = pre ++ z ++ post /\
  data = d1 ++ blk :: d2.
Proof.
  destruct (set_nth_split _ data now blk [] ltac:(lia)) as [Ed _]. fold d1 d2 blk in Ed.
  assert (H16' : Forall (fun b => List.length b = 16%nat) d1 /\ List.length blk = 16%nat /\ Forall (fun b => List.length b = 16%nat) d2).
  { pose proof H16 as H. rewrite Ed in H. apply Forall_app in H. destruct H as [A B]. apply Forall_cons_iff in B. destruct B as [B1 B2]. auto. }
  destruct H16' as (Hd1 & Hblk & Hd2).
  assert (Ld1 : List.length d1 = now) by (unfold d1; rewrite firstn_length; lia).
  assert (Ec : cells = pre ++ rest) by (unfold pre, rest; symmetry; apply firstn_skipn).
  assert (Lpre : List.length pre = (16 * now)%nat) by (unfold pre; rewrite firstn_length; lia).
  assert (Lrest : (16 <= List.length rest)%nat) by (unfold rest; rewrite skipn_length; lia).
  assert (Er : rest = z ++ post) by (unfold z, post; symmetry; apply firstn_skipn).
  assert (Lz : List.length z = 16%nat) by (unfold z; rewrite firstn_length; lia).
  assert (Hrel' : map Z.to_N pre ++ map Z.to_N z ++ map Z.to_N (firstn (16 * tot - 16 * now - 16) post) = concat d1 ++ blk ++ concat d2).
  { rewrite <- !map_app. pose proof Hrel as Hr. rewrite Ed in Hr. rewrite concat_app in Hr. cbn [concat] in Hr. rewrite <- Hr. f_equal.
    rewrite Ec, Er. rewrite firstn_app, Lpre. rewrite (firstn_all2 pre) by lia. f_equal.
    replace (16 * tot - 16 * now)%nat with (16 + (16 * tot - 16 * now - 16))%nat by lia.
    rewrite firstn_app, Lz. rewrite (firstn_all2 z) by lia. repeat f_equal; lia. }
  assert (E1 : map Z.to_N pre = concat d1).
  { apply (f_equal (firstn (16 * now))) in Hrel'. rewrite !firstn_app in Hrel'.
    rewrite map_length, Lpre, Nat.sub_diag in Hrel'. rewrite concat_len16', Ld1, Nat.sub_diag in Hrel' by exact Hd1.
    cbn [firstn] in Hrel'. rewrite !app_nil_r in Hrel'. rewrite !firstn_all2 in Hrel' by (rewrite ?map_length, ?concat_len16' by exact Hd1; lia). exact Hrel'. }
  rewrite E1 in Hrel'. apply app_inv_head in Hrel'.
  assert (E2 : map Z.to_N z = blk).
  { apply (f_equal (firstn 16)) in Hrel'. rewrite !firstn_app in Hrel'. rewrite map_length, Lz, Hblk, Nat.sub_diag in Hrel'.
    rewrite !firstn_O in Hrel'. rewrite !app_nil_r in Hrel'. rewrite !firstn_all2 in Hrel' by (rewrite ?map_length; lia). exact Hrel'. }
  rewrite E2 in Hrel'. apply app_inv_head in Hrel'.
  repeat split; try assumption. rewrite Ec at 1. rewrite Er at 1. reflexivity.
Qed.

(* the block the worker takes is block now of the model *)
Lemma cells_block : map Z.to_N (firstn 16 (skipn (16 * now) cells)) = nth now data [].
Proof. destruct block_split as (_ & E & _). exact E. Qed.

(* replacing it *)
Lemma cells_update : forall out, List.length out = 16%nat ->
  map Z.to_N (firstn (16 * tot) (firstn (16 * now) cells ++ map Z.of_N out ++ skipn (16 * now + 16) cells)) = concat (set_nth now out data).
Proof.
  intros out Lo. destruct block_split as (E1 & E2 & E3 & Lpre & Lz & Ec & Ed).
  destruct (set_nth_split _ data now out [] ltac:(lia)) as [_ Es]. rewrite Es. fold d1 d2 pre.
  assert (Epost : skipn (16 * now + 16) cells = post).
  { unfold post, rest. rewrite skipn_skipn_l. reflexivity. }
  rewrite Epost.
  rewrite firstn_app, Lpre. rewrite (firstn_all2 pre) by lia.
  replace (16 * tot - 16 * now)%nat with (16 + (16 * tot - 16 * now - 16))%nat by lia.
  rewrite firstn_app, map_length, Lo. rewrite (firstn_all2 (map Z.of_N out)) by (rewrite map_length; lia).
  replace (16 + (16 * tot - 16 * now - 16) - 16)%nat with (16 * tot - 16 * now - 16)%nat by lia.
  rewrite !map_app, E1, E3. rewrite map_map. rewrite (map_ext _ (fun x => x)) by (intros; apply N2Z.id). rewrite map_id.
  rewrite concat_app. cbn [concat]. reflexivity.
Qed.
End Block.
