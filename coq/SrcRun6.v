(* The whole program from translated source: main(argc, argv) = get_v_opt (Gen/Src_cli.v: option loop, key decoding, checks, fopen of
   input / output, random key and seed buffer) followed by the operation it asks for (Gen/Src_whole.v and everything SrcRun5 links),
   run under the thread semantics with the seeded scheduler function.  The environment is explicit: what getopt_long delivers and,
   for every fopen in call order, whether it succeeds and which bytes the stream holds.  rand() and time() return 0 (MiniC.do_prim),
   so an encryption through this entry point uses the all-zero seed buffer and the key identity 0: exit status and output LENGTH are
   comparable with the real binary, encrypted BYTES are not (they are compared through SrcRun5's entry points, which take key and
   seed as inputs).

   main() itself is the one hand-written piece: it builds two LOCAL class objects (Settings, runcrypt), which MiniC does not
   express; [main_stmt] transcribes its 25 lines, calling the translated constructors on two global objects (text pinned: Gen/CliText.v "main/2", CliGlueText.cli_text_unchanged). *)
From Coq Require Import ZArith NArith List String Bool.
From Wencry Require Import Bytes MiniC MiniCRun MiniCConc SrcRun SrcRun2 SrcRun3 SrcRun5.
From Wencry.Gen Require Src_cli Src_base64 Src_cry Src_whole.
Import ListNotations.
Local Open Scope Z_scope.
Local Open Scope string_scope.
Local Open Scope list_scope.

Definition main_prog : program := whole_prog ++ cli_prog.

Definition field (off : Z) : expr := EPtrAdd (EVar "vals") 1 (EConst off).
Definition pk_mode : expr := ECast I32 (ELoad I8 (field 288)).
Definition is_mode (c : Z) : expr := EBin TBool Eq (EVar "mode") (EConst c).
Definition set_exit_from_flag : stmt := SIf (EVar "flag") (SSet "exit" (EConst 0)) (SSet "exit" (EConst (-1))).
Definition store_g (name : string) (t : ity) (e : expr) : stmt := SStore t (EGlobal name) e.

(* Settings settings(ctype, htype, no_echo); runcrypt runner(fp, out, key, settings);  -- both constructors are translated
   (Gen/Src_whole.v); threads_num defaults to THREAD_NUM = 4 *)
Definition make_runner (T : Z) : stmt :=
  SSeq (SCall None "Settings::Settings/3" (Some (EField "st.")) [ECast I8 (EVar "ct"); ECast I8 (EVar "ht"); ELoad TBool (field 291)])
       (SCall None "runcrypt::runcrypt/5" (Some (EField "rc."))
              [EPtrCell (field 0); EPtrCell (field 8); EPtrCell (field 16); EField "st."; EConst T]).

Definition main_stmt : stmt :=
  SSeq (SCall (Some "vals") "get_v_opt/2" None [EConst 2; ENull])
  (SIf (EIsNull (EVar "vals")) (SSet "exit" (EConst 1))
  (SSeq (SSet "mode" pk_mode)
  (SIf (is_mode 86) (SSet "exit" (EConst 0))
  (SIf (is_mode 104) (SSet "exit" (EConst 0))
  (SSeq (SSet "ct" (ECast I32 (ELoad I8 (field 289))))
  (SSeq (SSet "ht" (ECast I32 (ELoad I8 (field 290))))
  (SSeq (make_runner 4)
  (SSeq (SSet "size" (ELoad U64 (field 280)))
  (SIf (EOr (is_mode 101) (is_mode 69))
       (SSeq (SCall (Some "flag") "runcrypt::execute_encrypt/2" (Some (EField "rc.")) [EVar "size"; field 24]) set_exit_from_flag)
  (SIf (EOr (is_mode 100) (is_mode 68))
       (SSeq (SCall (Some "flag") "runcrypt::execute_decrypt/1" (Some (EField "rc.")) [EVar "size"]) set_exit_from_flag)
  (SIf (is_mode 118)
       (SSeq (SCall (Some "flag") "runcrypt::execute_verify/1" (Some (EField "rc.")) [EVar "size"]) set_exit_from_flag)
       (SSet "exit" (EConst (-2)))))))))))))).

(* the k-th fopen (call order) : None = fails; Some bytes = succeeds, the stream holds these bytes *)
Definition stream_name (k : nat) : string := "@stream" ++ nat_string k.
Definition main_state (c hbuf : nat) (opts : list opt) (fopens : list (option (list N))) : state :=
  let p := process_init c hbuf in
  {| mem := mem p ++ Src_base64.globals ++ mk_objects "rc." Src_cry.objects_runcrypt ++ mk_objects "st." Src_whole.objects_Settings
            ++ [("fout", mk_object U8 128); ("fout_too_long", mk_object TBool 1); ("optind", {| o_ty := I32; o_cells := [1] |})];
     loc := []; pre := "";
     files := [("@getopt", {| cf_data := flat_map opt_record opts; cf_pos := 0; cf_eof := false |});
               ("@fopen", {| cf_data := map (fun o : option (list N) => match o with Some _ => 1 | None => 0 end) fopens; cf_pos := 0; cf_eof := false |})]
              ++ flat_map (fun ko : nat * option (list N) =>
                             match snd ko with Some b => [(stream_name (fst ko), stream b 0)] | None => [] end)
                          (combine (seq 0 (List.length fopens)) fopens);
     ptrs := ptrs p ++ [("optarg", VNull)]; fresh := 0 |}.

(* what the program leaves: exit status (as the shell sees it, 0..255) and, for every stream that was offered, its final bytes *)
Definition exit_of_ub (w : string) : option Z :=
  if String.prefix "UB: exit:" w then
    let d := substring 9 (String.length w) w in
    if String.eqb d "0" then Some 0 else if String.eqb d "1" then Some 1 else if String.eqb d "2" then Some 2 else None
  else None.

Definition src_main (c hbuf : nat) (opts : list opt) (fopens : list (option (list N))) (rnd : N) : sres (Z * list (list N)) :=
  let total := fold_left (fun a (o : option (list N)) => match o with Some b => (a + List.length b)%nat | None => a end) fopens O in
  let fuel := nat_of_N_tr (600000 + 3000 * N.of_nat c + 400 * N.of_nat total + 2000 * N.of_nat (List.length opts))%N in
  let steps := (3000 + 40 * (total / (16 * c) + 1) * 6)%nat in
  let cs0 := {| cs_sh := main_state c hbuf opts fopens;
                cs_thr := [{| ct_cur := main_stmt; ct_k := KStop; ct_loc := []; ct_pre := ""; ct_st := TRun |}]; cs_mx := [] |} in
  let streams (cs : cstate) :=
    map (fun k => match lget (files (cs_sh cs)) (stream_name k) with Some f => map Z.to_N (cf_data f) | None => [] end)
        (seq 0 (List.length fopens)) in
  match auto_run_with main_prog steps fuel rnd cs0 O with
  | WDone cs _ =>
      match nth_error (cs_thr cs) 0 with
      | Some t => match lget (ct_loc t) "exit" with
                  | Some (VInt z) => SOk (z mod 256, streams cs)
                  | _ => SErr "no exit status"
                  end
      | None => SErr "no main thread"
      end
  | WDeadlock _ => SErr "DEADLOCK"
  | WSteps => SErr "step bound reached"
  | WErr w => match exit_of_ub w with Some z => SOk (z, []) | None => SErr w end
  end.
