(* Stage 5: execute_decrypt end to end modulo the set-up only: the tear-down (del_instance, release, over, return) is proved
   (RefineE2EfTail.dec_last_step), so is wdone_ok for the frame of execute_decrypt. *)
From Coq Require Import ZArith NArith List String Bool Lia Arith.
From Wencry Require Import Bytes AesModel ModesModel HashModel FileModel FileProps PipeConc MiniC MiniCRun MiniCConc SrcRun SrcRun2 SrcRun5.
From Wencry Require Import RefineE2EfLay RefineE2EfMach RefineE2EfMem RefineE2EfRel RefineE2EfGen RefineE2EfRun
     RefineE2EfWLay RefineE2EfWOk RefineE2EfDec RefineE2EfTail.
Import ListNotations.
Local Open Scope list_scope.
Local Open Scope string_scope.

(* the conditions on the frame of execute_decrypt around run_multicry *)
Record dec_frame_ok (P : wpar) : Prop := {
  df_kb : forall T pad, wp_kb P T pad = kbot_of release_call dec_K1;
  df_td : forall T pad, wp_tdone P T pad = tdone_of release_call dec_K1 (wp_blocs P T pad) (wp_bpre P);
  df_bp : wp_bpre P = "rc.";
  df_iv : forall T pad, exists v, lget (wp_blocs P T pad) "iv" = Some v;
  df_mode : forall T pad, lget (wp_blocs P T pad) "mode" = Some (VPtr (wMA P) 0);
  df_res : forall T pad, lget (wp_blocs P T pad) "res" = Some (VInt 0);
  df_thr : forall c T, mget (wp_memA P c T) "rc.threads_num" = Some (cell U8 (Z.of_nat T));
  df_fin : forall T, lget (wp_pA P T) "rc.fin" = Some (VPtr "fin" 0);
  df_fout : forall T, lget (wp_pA P T) "rc.out" = Some (VPtr "fout" 0);
  df_out0 : wp_out0 P = [] }.

Theorem decrypt_modulo_setup :
  forall (c hbuf T : nat) (F key out : list N),
  (1 <= c)%nat -> (N.of_nat (16 * c) < 2 ^ 32)%N -> (1 <= T <= 16)%nat -> bytesb F = true ->
  dec c hbuf T F key = FileModel.Ok out ->
  forall kd, create false (nth 8 F 0%N) = Some kd ->
  forall (PW : wpar),
  wp_kind PW = kd -> wp_ks PW = genall key -> wp_iv PW = firstn 16 (skipn 48 F) -> wp_pos0 PW = text_mark T ->
  forall (OKW : wpar_ok PW) (DF : dec_frame_ok PW) (sm0 : memory),
  (forall i, (i < T)%nat -> w_srep PW T i (firstn 16 (skipn 48 F)) sm0) ->
  let cs0 := whole_init WDec c hbuf T (-1) (-1) F key [] in
  let cs2 := @cstate_md (wlayout PW) c T false F I_WaitUpdate (repeat W_New T) (@d_init0 (wlayout PW) c T sm0) (@g_init0 (wlayout PW) T) in
  (forall fuel, enabled_list cs0 = [O] /\
     (cstep whole_prog [] fuel cs0 0 = NoFuel \/
      exists cs1 e1, cstep whole_prog [] fuel cs0 0 = Ok (cs1, e1) /\ enabled_list cs1 = [O] /\
        (cstep whole_prog [] fuel cs1 0 = NoFuel \/ exists e2, cstep whole_prog [] fuel cs1 0 = Ok (cs2, e2)))) ->
  forall rnd,
  match src_decrypt_file c hbuf T F key rnd with
  | SOk (b, o, i, _) => b = true /\ o = out /\ i = F
  | SErr w => w = "out of fuel"%string \/ w = "step bound reached"%string
  end.
Proof.
  intros c hbuf T F key out Hc Hc32 HT HF Hdec kd Hkd PW E1 E2 E3 E5 OKW DF sm0 Hsm cs0 cs2 Hpre.
  destruct DF as [D1 D2 D3 D4 D5 D6 D7 D8 D9 D10].
  apply (decrypt_from_parts c hbuf T F key out Hc Hc32 HT HF Hdec kd Hkd PW E1 E2 E3 E5 OKW (DKT PW OKW D1 D2) sm0 Hsm Hpre).
  intros s cs Hsim Hterm fuel.
  exact (dec_last_step PW OKW D1 D2 D3 D4 D5 D6 D7 D8 D9 D10 c T F HT s cs Hsim Hterm fuel).
Qed.
Print Assumptions decrypt_modulo_setup.
