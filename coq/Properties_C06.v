(* C06 -- a wrong key is always rejected and yields no plaintext.
   Theorem part: decryption is gated on verification; acceptance under another key is a tag
   collision between two keys (explicit event); all 16 key bytes enter the MAC. *)
From Wencry Require Import Bytes HashSpec FileModel FileSpec FileProps FileProofsSec.
Local Open Scope N_scope.

Theorem C06_wrong_key_acceptance_is_a_tag_collision : forall c hbuf T P key seed cm hm F key',
  enc_params c hbuf T P key seed cm hm ->
  enc c hbuf T P key cm hm seed = Ok F ->
  block16 key' ->
  ver hbuf F key' = Ok true ->
  hmac_spec (hash_spec hm) key' (skipn 48 F) = hmac_spec (hash_spec hm) key (skipn 48 F).
Proof. exact C06_wrong_key_acceptance_is_a_tag_collision_proof. Qed.
Print Assumptions C06_wrong_key_acceptance_is_a_tag_collision.

(* a rejected decryption has no output at all (Fail carries no bytes), for any file and key;
   and whenever verification rejects, decryption rejects with the same code *)
Theorem C06_rejected_means_no_output : forall c hbuf T F key code,
  verify hbuf F key = Ok code -> code <> 0 ->
  dec c hbuf T F key = Fail code /\ ver hbuf F key = Ok false.
Proof. exact C06_rejected_means_no_output_proof. Qed.
Print Assumptions C06_rejected_means_no_output.

(* every key byte enters the MAC: different keys give different inner and outer pad blocks *)
Theorem C06_all_key_bytes_enter_the_mac : forall key key',
  block16 key -> block16 key' -> key <> key' ->
  map (N.lxor 54) (key ++ zeros 48) <> map (N.lxor 54) (key' ++ zeros 48) /\
  map (N.lxor 92) (key ++ zeros 48) <> map (N.lxor 92) (key' ++ zeros 48).
Proof. exact C06_all_key_bytes_enter_the_mac_proof. Qed.
Print Assumptions C06_all_key_bytes_enter_the_mac.
