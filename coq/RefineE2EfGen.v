(* The translated buffer hand-over protocol (MiniCConc machine on Gen/Src_conc.v) follows PipeConc:
   SRC_protocol_follows_PipeConc_proof.  Layers: RefineConcStep*.v (machine side), RefineE2EfRel*.v (relation), this file (assembly). *)
From Coq Require Import ZArith NArith List String Bool Lia Arith.
From Wencry Require Import Bytes FileModel ModesProofs PipeConc PipeProps PipeLemmas MiniC MiniCLemmas MiniCConc SrcRun.
From Wencry Require Import RefineConcPipe RefineE2EfPipe RefineConcDone.
From Wencry Require Import RefineE2EfLay RefineE2EfMach RefineE2EfMem RefineE2EfTac RefineE2EfStepW RefineE2EfStepI5
  RefineE2EfRel RefineE2EfRelW RefineE2EfRelI RefineE2EfRelIO.
Import ListNotations.
Local Open Scope list_scope.

Section Main.
Context {LY : Layout} {LO : LayoutOk}.
Variables (c T : nat) (pad : bool) (input0 : list N).
Hypothesis Hc : (1 <= c)%nat.
Hypothesis Hc32 : (16 * Z.of_nat c < 2 ^ 32)%Z.
Hypothesis HT : (1 <= T <= 16)%nat.
Hypothesis Hbytes : bytesb input0 = true.

Notation sim := (sim c T pad input0).
Notation step := (pstep c pad).
Notation cst := (cstate_md c T pad input0).

(* ---- one step ---- *)
Theorem sim_step : forall s cs tid s' evs, sim s cs -> step s tid = Some (s', evs) ->
  exists n cs' evs', bnd n /\ cstep prog vt n cs tid = Ok (cs', evs') /\ nev evs' = evs /\ sim s' cs'.
Proof.
  intros s cs tid s' evs Hsim Hst.
  assert (Lb : nT _ s = T) by (destruct Hsim as (d & g & _ & (L & _) & _); exact L).
  unfold PipeConc.step in Hst. rewrite Lb in Hst. destruct (Nat.leb_spec tid T) as [Le|Gt].
  - unfold step_real in Hst. destruct tid as [|i].
    + (* the I/O thread *)
      destruct (io _ s) eqn:Eio.
      * pose proof (sim_io_wait c T pad input0 Hc Hc32 HT Hbytes s cs false Hsim Eio) as G.
        unfold step_io in Hst. rewrite Eio in Hst. injection Hst as E. rewrite E in G. exact G.
      * unfold step_io in Hst. rewrite Eio in Hst. discriminate Hst.
      * pose proof (sim_io_wait c T pad input0 Hc Hc32 HT Hbytes s cs true Hsim Eio) as G.
        unfold step_io in Hst. rewrite Eio in Hst. injection Hst as E. rewrite E in G. exact G.
      * eapply sim_io_cmp; eassumption.
      * eapply sim_io_export; eassumption.
      * eapply sim_io_load; eassumption.
      * eapply sim_io_setready; eassumption.
      * eapply sim_io_turn; eassumption.
      * eapply sim_io_join; eassumption.
      * unfold step_io in Hst. rewrite Eio in Hst. discriminate Hst.
    + rewrite Lb in Hst. destruct (Nat.ltb_spec i T) as [Hi|Hi]; [|discriminate Hst].
      eapply sim_worker; eassumption.
  - replace tid with (S T + (tid - T - 1))%nat by lia.
    destruct (sim_spurious c T pad input0 Hc HT Hbytes s cs (tid - T - 1) s' evs Hsim Hst) as (cs' & evs' & H1 & H2 & H3).
    exists 0%nat, cs', evs'. split; [exact I|]. split; [exact H1|]. split; assumption.
Qed.

(* ---- the enabled threads ---- *)
Lemma enabled_pt : forall s cs tid, sim s cs -> io _ s <> I_Done -> (tid <= T)%nat ->
  MiniCConc.enabled cs tid = PipeConc.enabled LS Ltr Lev c pad s tid.
Proof.
  intros s cs tid (d & g & -> & Hdr & Htg & Hre) Hnd Hin.
  pose proof Hdr as (Lb & Lw & Lx & _).
  unfold MiniCConc.enabled, nth_thread, PipeConc.enabled, step_real. cbn [cstate_md cs_thr cs_mx cs_sh].
  destruct tid as [|i].
  - rewrite nth_thread_io. unfold step_io. cbv zeta.
    destruct (io _ s) eqn:Eio; cbn [io_thread mk2 RefineE2EfLay.mk ct_st].
    + destruct (i_wait St s false). destruct (first_is_lock _ _); reflexivity.
    + reflexivity.
    + destruct (i_wait St s true). reflexivity.
    + destruct (b_st _); destruct (first_is_lock _ _); reflexivity.
    + destruct (first_is_lock _ _); reflexivity.
    + destruct (over _ s); [destruct (first_is_lock _ _); reflexivity|]. destruct (input _ s); destruct (first_is_lock _ _); reflexivity.
    + destruct (first_is_lock _ _); reflexivity.
    + destruct (live _ s =? 0)%nat; destruct (first_is_lock _ _); reflexivity.
    + pose proof (reach_join c T pad input0 Hc HT Hbytes s k Hre Eio) as Hk.
      unfold thread_done, nth_thread. cbn [cs_thr cstate_md]. rewrite nth_thread_worker by exact Hk. unfold getw. destruct (nth k (wpcs _ s) W_Done); reflexivity.
    + congruence.
  - assert (Hi : (i < T)%nat) by lia. rewrite nth_thread_worker by exact Hi. unfold nT. rewrite Lb.
    replace (i <? T)%nat with true by (symmetry; apply Nat.ltb_lt; exact Hi).
    unfold step_worker. fold (getw _ s i).
    assert (Hx : nth_error (wsts _ s) i = Some (nth i (wsts _ s) LdS)) by (apply nth_error_some_nth; lia).
    destruct (getw _ s i) eqn:Ew; cbn [worker_thread mk2 RefineE2EfLay.mk ct_st].
    + destruct (first_is_lock _ _); reflexivity.
    + destruct (w_wait St s i true false). destruct (first_is_lock _ _); reflexivity.
    + rewrite Hx. destruct (take_entry _ _ _ _ _ _) as [[[? ?] ?]|]; destruct (first_is_lock _ _); reflexivity.
    + destruct (first_is_lock _ _); reflexivity.
    + destruct (w_wait St s i false false). destruct (first_is_lock _ _); reflexivity.
    + reflexivity.
    + destruct (w_wait St s i from_start true). reflexivity.
    + rewrite Hx. destruct (b_st _); try (destruct (first_is_lock _ _); reflexivity).
      destruct (take_entry _ _ _ _ _ _) as [[[? ?] ?]|]; destruct (first_is_lock _ _); reflexivity.
    + reflexivity.
Qed.
Lemma threads_sim : forall s cs, sim s cs -> List.length (cs_thr cs) = S T /\ nT _ s = T.
Proof. intros s cs (d & g & -> & Hdr & _). destruct Hdr as (Lb & _). split; [apply threads_length|exact Lb]. Qed.
Lemma enabled_agree : forall s cs, sim s cs -> io _ s <> I_Done ->
  MiniCConc.enabled_count cs = PipeConc.enabled_count LS Ltr Lev c pad s.
Proof.
  intros s cs Hsim Hnd. destruct (threads_sim s cs Hsim) as [L1 L2].
  unfold MiniCConc.enabled_count, PipeConc.enabled_count. rewrite L1, L2. f_equal.
  apply filter_ext_in. intros tid Hin. apply in_seq in Hin. apply enabled_pt; [exact Hsim|exact Hnd|lia].
Qed.

(* ---- no step from a state whose I/O thread is done ---- *)
Notation inv_done := (inv_done St).
Lemma step_not_done : forall s tid s' evs, inv_done s -> List.length (wpcs _ s) = T -> List.length (bufs _ s) = T ->
  step s tid = Some (s', evs) -> io _ s <> I_Done.
Proof.
  intros s tid s' evs Hinv Lw Lb Hst Eio. unfold RefineConcDone.inv_done in Hinv. rewrite Eio in Hinv.
  unfold PipeConc.step, nT in Hst. rewrite Lb in Hst. destruct (tid <=? T)%nat.
  - unfold step_real in Hst. destruct tid as [|i].
    + unfold step_io in Hst. rewrite Eio in Hst. discriminate Hst.
    + unfold nT in Hst. rewrite Lb in Hst. destruct (Nat.ltb_spec i T) as [Hi|Hi]; [|discriminate Hst].
      unfold step_worker in Hst. rewrite (Hinv i) in Hst by lia. discriminate Hst.
  - unfold spurious in Hst. destruct (tid - T - 1)%nat as [|i].
    + rewrite Eio in Hst. discriminate Hst.
    + unfold nT in Hst. rewrite Lb in Hst. destruct (Nat.ltb_spec i T) as [Hi|Hi]; [|discriminate Hst].
      rewrite (Hinv i) in Hst by lia. discriminate Hst.
Qed.

(* ---- the whole schedule ---- *)
Definition norm_log (l : list (nat * nat * list MiniCConc.event)) : list (nat * nat * list PipeConc.event) :=
  map (fun x => match x with (tid, ne, evs) => (tid, ne, map norm_ev (filter (fun e => negb (is_marker e)) evs)) end) l.

Lemma run_sim : forall sched s cs s' log, sim s cs -> inv_done s ->
  run_events St Ltr Lev c pad s sched = Some (s', log) ->
  exists F cs' log', (forall F', (F <= F')%nat -> crun prog vt F' cs sched = Ok (cs', log')) /\ norm_log log' = log /\ sim s' cs' /\ inv_done s'.
Proof.
  induction sched as [|tid sched IH]; intros s cs s' log Hsim Hinv Hrun.
  - cbn [run_events] in Hrun. injection Hrun as <- <-. exists 0%nat, cs, []. repeat split; try assumption. 
  - cbn [run_events] in Hrun. destruct (step s tid) as [[s1 evs]|] eqn:Est; [|discriminate Hrun].
    destruct (run_events St Ltr Lev c pad s1 sched) as [[s2 l]|] eqn:Er; [|discriminate Hrun]. injection Hrun as <- <-.
    destruct (sim_step s cs tid s1 evs Hsim Est) as (n & cs1 & evs1 & Hn & Hcs & Hev & Hsim1).
    assert (Hsh : List.length (wpcs _ s) = T /\ List.length (bufs _ s) = T /\ List.length (wsts _ s) = T).
    { destruct Hsim as (d & g & _ & (L1 & L2 & L3 & _) & _). auto. }
    destruct Hsh as (Lw & Lb & Lx).
    assert (Hinv1 : inv_done s1) by (eapply (inv_done_step St Ltr Lev c pad LdS); [| |exact Hinv|exact Est]; lia).
    destruct (IH s1 cs1 s2 l Hsim1 Hinv1 Er) as (F & cs2 & l2 & Hcr & Hl & Hsim2 & Hinv2).
    exists (Nat.max n F), cs2, ((tid, MiniCConc.enabled_count cs, evs1) :: l2).
    split.
    + intros F' HF'. cbn [crun]. rewrite (cstep_mono n cs tid _ Hcs) by lia. cbn [bind]. rewrite Hcr by lia. reflexivity.
    + split; [|split; assumption]. cbn [norm_log map]. fold (nev evs1). rewrite Hev. fold (norm_log l2). rewrite Hl.
      rewrite (enabled_agree s cs Hsim (step_not_done s tid s1 evs Hinv Lw Lb Est)). reflexivity.
Qed.

(* ---- the initial states are related ---- *)
Definition mb_init (c : nat) : mbuf := {| mb_cells := repeat 0%Z (16 * c); mb_tot := 0; mb_now := 0; mb_tail := 0; mb_fin := false; mb_st := 0 |}.
Definition d_init0 (c T : nat) (sm : memory) : mdata :=
  {| d_turn := 0; d_over := false; d_live := T; d_sm := sm; d_bufs := repeat (mb_init c) T; d_pos := Lpos0; d_eof := false; d_out := Lout0 |}.
Definition g_init0 (T : nat) : tghost := {| g_rb := []; g_bu := []; g_wl := map wl0 (seq 0 T) |}.

Lemma sim_init : forall sm, (forall i, (i < T)%nat -> srep T i (nth i (Lsig0 T) LdS) sm) ->
  sim (init St T (Lsig0 T) (loads_of c pad (skipn Lpos0 input0)))
      (cstate_md c T pad input0 I_WaitUpdate (repeat W_New T) (d_init0 c T sm) (g_init0 T)).
Proof.
  intros sm Hsm. exists (d_init0 c T sm), (g_init0 T). split; [reflexivity|]. split; [|split].
  - unfold drel, d_init0, init. cbn [bufs wpcs wsts turn over live crashed output input io d_bufs d_sm d_turn d_over d_live d_out d_pos d_eof].
    rewrite !repeat_length. rewrite sig0_length.
    split; [reflexivity|]. split; [reflexivity|]. split; [reflexivity|]. split; [reflexivity|]. split; [exact out0_bytes|]. split; [reflexivity|].
    split; [lia|]. split; [reflexivity|]. split; [reflexivity|]. split; [lia|]. split; [reflexivity|]. split; [cbn [concat map]; rewrite app_nil_r; reflexivity|].
    split; [|split].
    + intros i Hi. unfold getb. cbn [bufs]. rewrite !nth_repeat_lt by exact Hi.
      unfold brel, mb_init, empty_buf. cbn [mb_st mb_fin mb_cells mb_tot mb_now b_st b_total b_now b_final b_data bst_code].
      split; [reflexivity|]. split; [reflexivity|]. split; [rewrite repeat_length; lia|].
      split; [apply Forall_forall; intros z Hz; apply repeat_spec in Hz; subst z; unfold byteZ; lia|].
      left. repeat split; try reflexivity; try lia. constructor.
    + exact Hsm.
    + intros _. cbn [skipn]. split; [reflexivity|]. split; [lia|reflexivity].
  - unfold tg_ok, g_init0. cbn [g_wl g_rb g_bu init io]. rewrite map_length, seq_length.
    split; [reflexivity|]. split; [left; reflexivity|]. split; [exact I|].
    intros i Hi. unfold getw. cbn [init wpcs]. rewrite nth_repeat_lt by exact Hi. cbn [wl_ok].
    rewrite (nth_indep _ [] (wl0 0)) by (rewrite map_length, seq_length; exact Hi). rewrite (map_nth wl0), seq_nth by exact Hi. reflexivity.
  - apply (reach_init c T pad (skipn Lpos0 input0) Hc (proj1 HT) (bskip Lpos0 input0 Hbytes) LS Ltr Lev LdS (Lsig0 T) (sig0_length T)).
Qed.

End Main.
