(* The text of main() that CliModel.cli's dispatch and SrcRun6.main_stmt were written from.  main builds two LOCAL class objects
   (Settings, runcrypt), which MiniC does not express, so it is the one function of the program that is transcribed by hand; its
   canonical text is regenerated on every run (Gen/CliText.v) and an edit breaks [cli_text_unchanged] and with it CliProofs.vo /
   Properties_C17 (and C15).  Everything main calls is translated: get_v_opt, parseOpts, parseModeNumber, getArgsKey,
   getRandomBuffer, check_ctype / check_htype, getRandomKey (Gen/Src_cli.v; refinement theorem SRC_cli_parse), the constructors and
   the three operations (Gen/Src_whole.v). *)
From Coq Require Import List String.
From Wencry.Gen Require Import CliText.
Import ListNotations.
Local Open Scope string_scope.

Definition expected_cli_text : list (string * string) :=
  [("main/2",
    "(int argc, char ** argv) { unsigned char * vals = NULL; if (argc == 1) vals = get_v_mod1() else { vals = get_v_opt(argc, argv); if (vals == NULL) return 1; if (((vpak_t *)vals)->.mode == 86) { version(); return 0; } else if (((vpak_t *)vals)->.mode == 104) { help(); return 0; } } Settings settings = Settings(((vpak_t *)vals)->.ctype, ((vpak_t *)vals)->.htype, ((vpak_t *)vals)->.no_echo); bool flag; runcrypt runner = runcrypt(((vpak_t *)vals)->.fp, ((vpak_t *)vals)->.out, ((vpak_t *)vals)->.key, Settings(settings), CXXDefaultArgExpr<>); if (((vpak_t *)vals)->.mode == 101 || ((vpak_t *)vals)->.mode == 69) flag = runner.execute_encrypt(((vpak_t *)vals)->.size, ((vpak_t *)vals)->.r_buf) else if (((vpak_t *)vals)->.mode == 100 || ((vpak_t *)vals)->.mode == 68) flag = runner.execute_decrypt(((vpak_t *)vals)->.size) else if (((vpak_t *)vals)->.mode == 118) flag = runner.execute_verify(((vpak_t *)vals)->.size) else return -2; return flag ? 0 : -1; }")].

Lemma cli_text_unchanged : cli_text = expected_cli_text.
Proof. reflexivity. Qed.
