(* Stage 5: the scheduler loop SrcRun5.auto_run_with on a machine state that is related to a PipeConc state: whatever the
   seed, the run follows PipeConc until the protocol has ended (generic layout), then the main thread takes its last step. *)
From Coq Require Import ZArith NArith List String Bool Lia Arith ZifyN ZifyNat.
From Wencry Require Import Bytes FileModel ModesProofs PipeConc PipeProps PipeLemmas PipeProofs MiniC MiniCLemmas MiniCConc SrcRun SrcRun5.
From Wencry Require Import RefineConcPipe RefineE2EfPipe RefineConcDone RefineSeqVerify.
From Wencry Require Import RefineE2EfLay RefineE2EfMach RefineE2EfMem RefineE2EfTac RefineE2EfRel RefineE2EfRelW RefineE2EfGen.
Import ListNotations.
Local Open Scope list_scope.

Definition goodres (Q : cstate -> Prop) (r : whole_res) : Prop :=
  match r with WDone cs _ => Q cs | WSteps => True | WErr w => w = "out of fuel"%string | WDeadlock _ => False end.
Definition all_tdone (cs : cstate) : bool := forallb (fun t => match ct_st t with TDone => true | _ => false end) (cs_thr cs).

Section Run.
Context {LY : Layout} {LO : LayoutOk}.
Variables (c T : nat) (pad : bool) (input0 : list N).
Hypothesis Hc : (1 <= c)%nat.
Hypothesis Hc32 : (16 * Z.of_nat c < 2 ^ 32)%Z.
Hypothesis HT : (1 <= T <= 16)%nat.
Hypothesis Hbytes : bytesb input0 = true.

Notation sim := (sim c T pad input0).
Notation step := (pstep c pad).
Notation reach := (reach c T pad (skipn Lpos0 input0) LS Ltr Lev (Lsig0 T)).
Notation inv_done := (inv_done LS).

(* the last step of the main thread, from the lock of del_instance to its end *)
Variable Qfin : pstate -> cstate -> Prop.
Hypothesis Hsuf : forall s cs, sim s cs -> terminal LS s = true -> forall fuel,
  cstep prog vt fuel cs 0 = NoFuel \/
  exists cs' evs, cstep prog vt fuel cs 0 = Ok (cs', evs) /\ Qfin s cs' /\ enabled_list cs' = [] /\ all_tdone cs' = true.

Lemma nth_in_list : forall (l : list nat) k, l <> [] -> (k < List.length l)%nat \/ k = O -> In (nth k l O) l.
Proof. intros l k NE [H| ->]; [apply nth_In; exact H|]. destruct l; [congruence|left; reflexivity]. Qed.

Lemma enabled_list_sim : forall s cs, sim s cs -> io _ s <> I_Done ->
  enabled_list cs = filter (PipeConc.enabled LS Ltr Lev c pad s) (seq 0 (S T)).
Proof.
  intros s cs Hsim Hnd. destruct (threads_sim c T pad input0 s cs Hsim) as [L1 L2]. unfold enabled_list. rewrite L1.
  apply filter_ext_in. intros tid Hin. apply in_seq in Hin. eapply enabled_pt; eauto; lia.
Qed.

Lemma enabled_list_done : forall s cs, sim s cs -> terminal LS s = true -> enabled_list cs = [O].
Proof.
  intros s cs (d & g & -> & Hdr & Htg & Hre) Hterm. unfold terminal in Hterm. destruct (io _ s) eqn:Eio; try discriminate Hterm.
  pose proof Hdr as (Lb & Lw & _).
  unfold enabled_list. cbn [cstate_md cs_thr]. rewrite threads_length. cbn [seq filter].
  assert (E0 : enabled (cstate_md c T pad input0 I_Done (wpcs _ s) d g) 0 = true).
  { unfold enabled, nth_thread. cbn [cstate_md cs_thr cs_mx cs_sh]. rewrite nth_thread_io. cbn [io_thread]. rewrite Tdone_st.
    destruct (first_is_lock _ _); reflexivity. }
  rewrite E0. f_equal.
  assert (G : forall l, (forall i, In i l -> (1 <= i <= T)%nat) -> filter (enabled (cstate_md c T pad input0 I_Done (wpcs _ s) d g)) l = []).
  { induction l as [|i l IH]; intros H; [reflexivity|]. cbn [filter].
    assert (Hi : (1 <= i <= T)%nat) by (apply H; left; reflexivity). destruct i as [|i]; [lia|].
    unfold enabled at 1, nth_thread. cbn [cstate_md cs_thr cs_mx cs_sh]. rewrite nth_thread_worker by lia.
    assert (Hd : nth i (wpcs _ s) W_Done = W_Done).
    { assert (In (nth i (wpcs _ s) W_Done) (wpcs _ s)) by (apply nth_In; lia).
      pose proof (proj1 (forallb_forall _ _) Hterm _ H0) as Q. destruct (nth i (wpcs _ s) W_Done); try discriminate Q; reflexivity. }
    rewrite Hd. cbn [worker_thread RefineE2EfLay.mk ct_st]. apply IH. intros j Hj. apply H. right. exact Hj. }
  apply G. intros i Hi. apply in_seq in Hi. lia.
Qed.

Theorem auto_run_middle : forall n fuel rnd s cs k, sim s cs -> inv_done s ->
  goodres (fun cs' => exists s', reach s' /\ terminal LS s' = true /\ Qfin s' cs') (auto_run_with prog n fuel rnd cs k).
Proof.
  induction n as [|n IH]; intros fuel rnd s cs k Hsim Hinv; [exact I|].
  rewrite auto_run_with_S.
  assert (Hre : reach s) by (destruct Hsim as (d & g & _ & _ & _ & R); exact R).
  pose proof (threads_sim c T pad input0 s cs Hsim) as [L1 L2].
  assert (Hsh : List.length (wpcs _ s) = T /\ List.length (bufs _ s) = T /\ List.length (wsts _ s) = T).
  { destruct Hsim as (d & g & _ & (L1' & L2' & L3' & _) & _). auto. }
  destruct Hsh as (Lw & Lb & Lx).
  destruct (terminal LS s) eqn:Eterm.
  - (* the protocol has ended: the last step of the main thread *)
    rewrite (enabled_list_done s cs Hsim Eterm). cbv zeta. rewrite nth_single.
    destruct (Hsuf s cs Hsim Eterm fuel) as [E|(cs' & evs & E & HQ & HL & HD)]; rewrite E; [reflexivity|].
    destruct n as [|n]; [exact I|]. rewrite auto_run_with_S. rewrite HL. unfold all_tdone in HD. rewrite HD.
    exists s. auto.
  - assert (Hnd : io _ s <> I_Done).
    { intros Eio. unfold terminal in Eterm. rewrite Eio in Eterm. unfold RefineConcDone.inv_done in Hinv. rewrite Eio in Hinv.
      assert (F : forallb (fun p => match p with W_Done => true | _ => false end) (wpcs _ s) = true).
      { apply forallb_forall. intros p Hp. apply (In_nth _ _ W_Done) in Hp. destruct Hp as (j & Hj & <-). fold (getw _ s j). rewrite (Hinv j Hj). reflexivity. }
      congruence. }
    rewrite (enabled_list_sim s cs Hsim Hnd).
    destruct (C04_deadlock_free_proof LS Ltr Lev c pad T (Lsig0 T) (loads_of c pad (skipn Lpos0 input0)) s (proj1 HT) (sig0_length T)
                (wf_loads_of c pad (skipn Lpos0 input0) Hc (bskip Lpos0 input0 Hbytes)) Hre Eterm) as (tid0 & Hen0).
    assert (Hin0 : In tid0 (filter (PipeConc.enabled LS Ltr Lev c pad s) (seq 0 (S T)))).
    { apply filter_In. split; [|exact Hen0]. apply in_seq. unfold PipeConc.enabled, step_real in Hen0. destruct tid0 as [|i]; [lia|].
      rewrite L2 in Hen0. destruct (Nat.ltb_spec i T); [lia|discriminate Hen0]. }
    set (l := filter (PipeConc.enabled LS Ltr Lev c pad s) (seq 0 (S T))) in *.
    destruct l as [|a l'] eqn:El; [contradiction|]. rewrite <- El in *. cbv zeta.
    set (kk := if (rnd =? 0)%N then 0%nat else N.to_nat ((lcg rnd / 4294967296) mod N.of_nat (List.length l))).
    assert (Hkk : In (nth kk l 0%nat) l).
    { apply nth_in_list; [rewrite El; discriminate|]. unfold kk. destruct (rnd =? 0)%N; [right; reflexivity|left].
      assert (Z : N.of_nat (List.length l) <> 0%N) by (rewrite El; cbn [List.length]; lia).
      pose proof (N.mod_upper_bound (lcg rnd / 4294967296) (N.of_nat (List.length l)) Z) as Hm.
      lia. }
    set (tid := nth kk l 0%nat) in *.
    unfold l in Hkk. apply filter_In in Hkk. destruct Hkk as [Hrange Hen]. apply in_seq in Hrange.
    assert (Hst : exists s' evs, step s tid = Some (s', evs)).
    { unfold PipeConc.step. rewrite L2. replace (tid <=? T)%nat with true by (symmetry; apply Nat.leb_le; lia).
      unfold PipeConc.enabled in Hen. destruct (step_real LS Ltr Lev c pad s tid) as [[s' evs]|]; [eauto|discriminate Hen]. }
    destruct Hst as (s' & evs & Hst).
    destruct (sim_step c T pad input0 Hc Hc32 HT Hbytes s cs tid s' evs Hsim Hst) as (n0 & cs1 & evs1 & _ & Hcs & _ & Hsim1).
    destruct (cstep_total n0 cs tid _ Hcs fuel) as [E|E]; rewrite E; [reflexivity|].
    apply (IH fuel (lcg rnd) s' cs1 (S k) Hsim1).
    eapply (inv_done_step LS Ltr Lev c pad LdS); [| |exact Hinv|exact Hst]; lia.
Qed.
End Run.
