(* Stage 5, execute_decrypt, second set-up step: the front of buffergroup::set_buffergroup for the layout instance PWd: decrypt copy of RefineE2EfSetup2B1
   (build_arr / x_newobjarr / alloc_objs_app are imported from there / from RefineE2EfSetup2A). *)
From Coq Require Import ZArith NArith List String Bool Lia Ascii Arith.
From Wencry Require Import Bytes AesModel ModesModel HashModel FileSpec FileModel FileProps PipeConc MiniC MiniCLemmas MiniCRun MiniCConc SrcRun SrcRun2 SrcRun5 PipeLemmas RefineE2EWhole.
From Wencry Require RefineConcMem RefineE2ENames RefineAesLib.
From Wencry Require Import RefineE2EfLay RefineE2EfTac RefineE2EfGen RefineE2EfWNames RefineE2EfWLay RefineE2EfTail RefineE2EfEncDefs RefineE2EfHashSpec RefineE2EfEnc2 RefineE2EfHashB3
     RefineE2EfSetup1 RefineE2EfSetup2Spec RefineE2EfSetup2A RefineE2EfDecSpec RefineE2EfDecInst RefineE2EfSetup2AD.
From Wencry Require RefineE2EfSetup2B1.
From Wencry.Gen Require Src_conc Src_whole.
Import ListNotations.
Local Open Scope list_scope.
Local Open Scope string_scope.

Notation build_arr := RefineE2EfSetup2B1.build_arr.
Notation x_newobjarr := RefineE2EfSetup2B1.x_newobjarr.
Notation lset_app_r := RefineE2EfSetup2B1.lset_app_r.

Section B1D.
Variables (c hbuf T : nat) (F key : list N) (h n : nat) (extra : memory) (pextra : locs) (kd : mkind).
Hypothesis HT : (1 <= T <= 16)%nat.
Hypothesis Hkey : block16 key.
Hypothesis Hiv : block16 (firstn 16 (skipn 48 F)).
Hypothesis Hn : (n < h)%nat.
Hypothesis Hext : ext_mem_ok h extra = true.
Hypothesis Hpext : ext_ptr_ok h pextra = true.
Hypothesis Hnsz : no_sizeof_names extra = true.
Hypothesis Hnal : no_alloc_keys pextra = true.
Notation PW := (PWd hbuf T F key h n extra pextra kd).
Let OKW : wpar_ok PW := PWdec_ok hbuf T F key HT Hkey Hiv h n extra pextra kd Hn Hext Hpext.

Definition bufs0 : list mbuf := repeat (mb_init c) T.
Definition iobjs : list (string * ity * Z) := [("b", U8, 16777216%Z); ("total", U32, 1%Z); ("now", U32, 1%Z); ("tail", U32, 1%Z); ("isfinal", TBool, 1%Z)].
Definition iob_sz_ok (m : memory) : Prop :=
  mget m "sizeof:iobuffer.b" = Some (RefineE2EfLay.cell U32 (16 * Z.of_nat c)) /\
  mget m "sizeof:iobuffer.total" = None /\ mget m "sizeof:iobuffer.now" = None /\ mget m "sizeof:iobuffer.tail" = None /\ mget m "sizeof:iobuffer.isfinal" = None.

Lemma sizeof_not_bp : forall j y r, String.eqb ("sizeof:" ++ r) (wbp PW j ++ y) = false.
Proof. intros. reflexivity. Qed.

Lemma alloc_iob : forall m j, (j < T)%nat -> iob_sz_ok m -> (forall a, mget m (wbp PW j ++ a) = None) ->
  alloc_objs "iobuffer" (wbp PW j) iobjs m = (m ++ w_iob PW bufs0 j)%list.
Proof.
  intros m j Hj (S1 & S2 & S3 & S4 & S5) Hfree.
  rewrite (alloc_objs_app _ _ _ _ (fun x => if String.eqb (fld x) "b" then (16 * Z.of_nat c)%Z else 1%Z)).
  - unfold iobjs, w_iob, bufs0. rewrite nth_repeat_lt by exact Hj. cbn [map fld fst snd String.eqb Ascii.eqb Bool.eqb mb_init mb_cells mb_tot mb_now mb_tail mb_fin b2z].
    unfold zobj. replace (Z.to_nat (16 * Z.of_nat c)) with (16 * c)%nat by lia. reflexivity.
  - intros x [<-|[<-|[<-|[<-|[<-|[]]]]]]; cbn [fld fst snd append String.eqb Ascii.eqb Bool.eqb].
    + change ("sizeof:iobuffer.b") with "sizeof:iobuffer.b". rewrite S1. reflexivity.
    + rewrite S2. reflexivity.
    + rewrite S3. reflexivity.
    + rewrite S4. reflexivity.
    + rewrite S5. reflexivity.
  - intros y r. apply sizeof_not_bp.
  - intros x _. apply Hfree.
  - cbn [map fld fst iobjs]. repeat constructor; cbn [In]; intuition discriminate.
Qed.

Lemma iob_sz_app : forall m j, iob_sz_ok m -> iob_sz_ok (m ++ w_iob PW bufs0 j)%list.
Proof.
  intros m j (S1 & S2 & S3 & S4 & S5). unfold iob_sz_ok. rewrite !RefineConcMem.mget_app, S1, S2, S3, S4, S5.
  repeat split; reflexivity.
Qed.

Lemma build_iob : forall k i m ps, (i + k <= T)%nat -> iob_sz_ok m ->
  (forall j a, (i <= j)%nat -> mget m (wbp PW j ++ a) = None) ->
  (forall j, (i <= j)%nat -> lget ps (class_key (wbp PW j)) = None) ->
  build_arr "iobuffer" iobjs (wBL PW) k (Z.of_nat i) m ps =
  ((m ++ flat_map (w_iob PW bufs0) (seq i k))%list, (ps ++ map (fun j => (class_key (wbp PW j), VPtr "iobuffer" 0)) (seq i k))%list).
Proof.
  induction k as [|k IH]; intros i m ps Hik Hsz Hm Hp.
  - cbn [build_arr seq flat_map map]. rewrite !app_nil_r. reflexivity.
  - cbn [build_arr].
    change (wBL PW ++ "[" ++ z_string (Z.of_nat i) ++ "].") with (wbp PW i).
    rewrite alloc_iob by (try lia; try assumption; intros a; apply Hm; lia).
    rewrite lset_absent by (apply Hp; lia).
    replace (Z.of_nat i + 1)%Z with (Z.of_nat (S i)) by lia.
    rewrite (IH (S i)).
    + cbn [seq flat_map map]. rewrite <- !app_assoc. reflexivity.
    + lia.
    + apply iob_sz_app. exact Hsz.
    + intros j a Hj. rewrite RefineConcMem.mget_app, Hm by lia. apply (iob_other PW). lia.
    + intros j Hj. rewrite RefineConcMem.lget_app, Hp by lia. cbn [lget]. rewrite class_eqb.
      unfold wbp. rewrite <- (RefineE2ENames.append_nil_r (RefineConcSim.elem_pfx (wBL PW) j)), <- (RefineE2ENames.append_nil_r (RefineConcSim.elem_pfx (wBL PW) i)).
      rewrite RefineConcMem.elem_pfx_eqb_other by lia. reflexivity.
Qed.

(* ---------------- statements 1..6 of set_buffergroup ---------------- *)
Notation A0 := (A0d c hbuf T F key extra).
Notation Pt0 := (Pt0d pextra).
Notation g := (wGP PW).
Let A0n := A0_none c hbuf T F key h n extra pextra kd HT Hkey Hiv Hn Hext Hpext.
Let A0sz := A0_sizeof c hbuf T F key extra Hnsz.
Let Pt0n := Pt0_num hbuf T F key h n extra pextra kd HT Hkey Hiv Hn Hext Hpext.
Let Pt0c := Pt0_class hbuf T F key h n extra pextra kd HT Hkey Hiv Hn Hext Hpext.
Definition sb_body : stmt := f_body Src_conc.f_buffergroup_set_buffergroup_4.
Definition sb_rest6 : stmt := s_snd (s_snd (s_snd (s_snd (s_snd (s_snd sb_body))))).
Definition sb_l0 : locs := [("size", VInt (Z.of_nat T)); ("fin", VPtr "fin" 0); ("fout", VPtr "fout" 0); ("ispadding", VInt 0)].
Definition sb_l6 : locs := lset (lset sb_l0 "$t3" (VInt (Z.of_nat T))) "$t1" (VPtr (wBL PW) 0).
Definition seg3T : memory :=
  [((g ++ "turn")%string, RefineE2EfLay.cell U32 0); ((g ++ "size")%string, RefineE2EfLay.cell U32 (Z.of_nat T));
   ((g ++ "ispadding")%string, RefineE2EfLay.cell TBool 0); ((g ++ "over")%string, RefineE2EfLay.cell TBool 0)].
Definition M6 : memory := (A0 ++ seg3T ++ flat_map (w_iob PW bufs0) (seq 0 T))%list.
Definition core5n : locs :=
  [(class_key g, VPtr "buffergroup" 0); ((g ++ "buflst")%string, VNull); ((g ++ "ctrl")%string, VNull);
   ((g ++ "fin")%string, VPtr "fin" 0); ((g ++ "fout")%string, VPtr "fout" 0)].
Definition Pt6 : locs :=
  (wp_pA PW T ++ [("instance", VPtr g 0)] ++ wp_pB PW T ++ core5n ++ map (fun i => (class_key (wbp PW i), VPtr "iobuffer" 0)) (seq 0 T))%list.
Definition s_sb0 (fs : list (string * cfile)) : state :=
  {| mem := (A0 ++ seg3zd hbuf T F key h n extra pextra kd)%list; loc := sb_l0; pre := g; files := fs;
     ptrs := PtGd hbuf T F key h n extra pextra kd; fresh := S h |}.
Definition s_sb6 (fs : list (string * cfile)) : state :=
  {| mem := M6; loc := sb_l6; pre := g; files := fs; ptrs := Pt6; fresh := h + 2 |}.

Lemma PtG_eq : PtGd hbuf T F key h n extra pextra kd =
  (wp_pA PW T ++ [("instance", VPtr g 0)] ++ wp_pB PW T ++ [(class_key g, VPtr "buffergroup" 0); ((g ++ "buflst")%string, VNull); ((g ++ "ctrl")%string, VNull)])%list.
Proof.
  unfold PtGd. rewrite (Pt0_split hbuf T F key h n extra pextra kd). rewrite <- !app_assoc.
  rewrite lset_app_r by (apply (pframe_instance PW); apply (wo_pA PW OKW T)). reflexivity.
Qed.

Lemma sb_front_ok_d : forall fs fuel r, (10 <= fuel)%nat ->
  exec whole_prog [] fuel sb_rest6 (s_sb6 fs) = Ok r -> exec whole_prog [] (fuel + 6) sb_body (s_sb0 fs) = Ok r.
Proof.
    intros fs fuel r Hf HR.
  replace (fuel + 6)%nat with (S (S (S (S (S (S fuel)))))) by lia.
  unfold sb_body. cbv [f_body Src_conc.f_buffergroup_set_buffergroup_4].
  destruct fuel as [|f']; [lia|].
  assert (Hg0 : hnum g = Some h).
  { pose proof (hnum_GP PW "") as Hg0. rewrite RefineE2ENames.append_nil_r in Hg0. exact Hg0. }
  (* 1: size := T *)
  eapply RefineAesLib.x_seq.
  { eapply (RefineAesLib.x_store whole_prog [] _ U32 _ _ _ (g ++ "size") 0%Z (Z.of_nat T) (RefineE2EfLay.cell U32 0) (RefineE2EfLay.cell U32 (Z.of_nat T))); [reflexivity | reflexivity | | ].
    - cbn [mem s_sb0]. rewrite RefineConcMem.mget_app, (A0n _ h (hnum_GP PW _)) by lia. unfold seg3zd. cbn [mget]. rewrite !append_eqb_l. reflexivity.
    - rewrite store_cell. rewrite wrap_U32_small by lia. reflexivity. }
  unfold with_mem. cbn [mem loc pre files ptrs fresh s_sb0].
  rewrite RefineConcMem.mset_app_r by (apply (A0n _ h (hnum_GP PW _)); lia).
  unfold seg3zd. cbn [mset]. rewrite !append_eqb_l. cbn [String.eqb Ascii.eqb Bool.eqb].
  (* 2, 3: pointer members fin, fout *)
  rewrite PtG_eq.
  set (PG := (wp_pA PW T ++ [("instance", VPtr g 0)] ++ wp_pB PW T ++ [(class_key g, VPtr "buffergroup" 0); ((g ++ "buflst")%string, VNull); ((g ++ "ctrl")%string, VNull)])%list).
  assert (PGn : forall a, lget PG (g ++ a) = lget [((g ++ "buflst")%string, VNull); ((g ++ "ctrl")%string, VNull)] (g ++ a)).
  { intros a. unfold PG. rewrite !RefineConcMem.lget_app.
    rewrite (pframe_num PW _ _ _ (wo_pA PW OKW T) (hnum_GP PW a)) by lia. cbn [lget].
    rewrite (hnum_none_neq (g ++ a) "instance" h (hnum_GP PW a) eq_refl).
    rewrite (pframe_num PW _ _ _ (wo_pB PW OKW T) (hnum_GP PW a)) by lia.
    rewrite (hnum_none_neq (g ++ a) (class_key g) h (hnum_GP PW a) (hnum_class g)). reflexivity. }
  eapply RefineAesLib.x_seq; [eapply x_setptr; reflexivity|]. unfold with_ptrs. cbn [mem loc pre files ptrs fresh].
  rewrite lset_absent by (rewrite PGn; cbn [lget]; rewrite !append_eqb_l; reflexivity).
  eapply RefineAesLib.x_seq; [eapply x_setptr; reflexivity|]. unfold with_ptrs. cbn [mem loc pre files ptrs fresh].
  rewrite lset_absent by (rewrite RefineConcMem.lget_app, PGn; cbn [lget]; rewrite !append_eqb_l; reflexivity).
  (* 4: ispadding := 1 *)
  eapply RefineAesLib.x_seq.
  { eapply (RefineAesLib.x_store whole_prog [] _ TBool _ _ _ (g ++ "ispadding") 0%Z 0%Z (RefineE2EfLay.cell TBool 0) (RefineE2EfLay.cell TBool 0)); [reflexivity | reflexivity | | reflexivity].
    cbn [mem]. rewrite RefineConcMem.mget_app, (A0n _ h (hnum_GP PW _)) by lia. cbn [mget]. rewrite !append_eqb_l. reflexivity. }
  unfold with_mem. cbn [mem loc pre files ptrs fresh].
  rewrite RefineConcMem.mset_app_r by (apply (A0n _ h (hnum_GP PW _)); lia).
  cbn [mset]. rewrite !append_eqb_l. cbn [String.eqb Ascii.eqb Bool.eqb].
  fold seg3T.
  (* 5: $t3 *)
  eapply RefineAesLib.x_seq.
  { eapply RefineAesLib.x_set with (v := VInt (Z.of_nat T)). cbn [eval loc sb_l0 lget String.eqb Ascii.eqb Bool.eqb bind as_int]. rewrite wrap_U64_small by lia. reflexivity. }
  unfold with_loc. cbn [mem loc pre files ptrs fresh].
  (* 6: the array of T iobuffer objects *)
  set (P5 := ((PG ++ [((g ++ "fin")%string, VPtr "fin" 0)]) ++ [((g ++ "fout")%string, VPtr "fout" 0)])%list).
  assert (Esz : iob_sz_ok (A0 ++ seg3T)%list).
  { unfold iob_sz_ok. rewrite !RefineConcMem.mget_app.
    replace (mget A0 "sizeof:iobuffer.b") with (Some (RefineE2EfLay.cell U32 (16 * Z.of_nat c))) by (rewrite (A0_M1d c hbuf T F key extra); rewrite RefineConcMem.mget_app; reflexivity).
    replace (mget A0 "sizeof:iobuffer.total") with (@None object) by (symmetry; apply (A0sz "iobuffer.total" eq_refl)).
    replace (mget A0 "sizeof:iobuffer.now") with (@None object) by (symmetry; apply (A0sz "iobuffer.now" eq_refl)).
    replace (mget A0 "sizeof:iobuffer.tail") with (@None object) by (symmetry; apply (A0sz "iobuffer.tail" eq_refl)).
    replace (mget A0 "sizeof:iobuffer.isfinal") with (@None object) by (symmetry; apply (A0sz "iobuffer.isfinal" eq_refl)).
    repeat split; reflexivity. }
  assert (Ebuild : build_arr "iobuffer" iobjs ("#" ++ nat_string (S h)) (Z.to_nat (Z.of_nat T)) 0 (A0 ++ seg3T)%list P5 = (M6, Pt6)).
  { rewrite Nat2Z.id. replace (S h) with (h + 1)%nat by lia. change ("#" ++ nat_string (h + 1)) with (wBL PW). change 0%Z with (Z.of_nat 0).
    rewrite build_iob.
    - unfold M6, Pt6, P5, PG, core5n. rewrite <- !app_assoc. reflexivity.
    - lia.
    - exact Esz.
    - intros j a _. rewrite RefineConcMem.mget_app, (A0n _ (h + 1)%nat (hnum_bp PW j a)) by lia.
      unfold seg3T. cbn [mget]. rewrite !(hnum_neq _ _ _ _ (hnum_bp PW j a) (hnum_GP PW _)) by lia. reflexivity.
    - intros j _. pose proof (hnum_bp PW j "") as Hb. rewrite RefineE2ENames.append_nil_r in Hb.
      unfold P5, PG. rewrite !RefineConcMem.lget_app.
      rewrite (pframe_class PW _ _ _ (wo_pA PW OKW T) Hb) by lia. cbn [lget]. change (String.eqb (class_key (wbp PW j)) "instance") with false. cbv iota.
      rewrite (pframe_class PW _ _ _ (wo_pB PW OKW T) Hb) by lia.
      rewrite class_eqb. rewrite (hnum_neq _ _ _ _ Hb Hg0) by (cbn [wp_h PWd PWdec]; lia).
      rewrite !(String.eqb_sym (class_key (wbp PW j)) (g ++ _)), !(hnum_none_neq _ _ _ (hnum_GP PW _) (hnum_class (wbp PW j))). reflexivity. }
  eapply RefineAesLib.x_seq.
  { eapply (x_newobjarr whole_prog [] f' "$t1" "iobuffer" _ (EVar "$t3") _ (Z.of_nat T) M6 Pt6); [reflexivity | lia | exact Ebuild]. }
  cbn [mem loc pre files ptrs fresh].
  replace (S (S h)) with (h + 2)%nat by lia. replace (S h) with (h + 1)%nat by lia. exact HR.
Qed.
End B1D.

Check sb_front_ok_d.
Print Assumptions sb_front_ok_d.
