(* Stage 5: the accepting path of execute_decrypt end to end, assembled like RefineE2EfEnc: the set-up steps of the main
   thread (hypothesis Hpre), the concurrent phase (auto_run_middle with the real modes), the last step (hypothesis Hsuf),
   and FileConcGlue.decrypt_under_every_schedule_proof. *)
From Coq Require Import ZArith NArith List String Bool Lia Arith ZifyN ZifyNat.
From Wencry Require Import Bytes AesModel ModesModel HashModel FileModel FileProps FileProofsDec FileConcGlue PipeConc PipeProps PipeLemmas
     MiniC MiniCLemmas MiniCRun MiniCConc SrcRun SrcRun2 SrcRun5.
From Wencry Require Import RefineConcPipe RefineE2EfPipe RefineConcDone RefineSeqVerify.
From Wencry Require ModesProofs.
From Wencry Require Import RefineE2EfLay RefineE2EfMach RefineE2EfMem RefineE2EfRel RefineE2EfGen RefineE2EfRun
     RefineE2EfWLay RefineE2EfWOk.
Import ListNotations.
Local Open Scope list_scope.

Section Dec.
Variables (c hbuf T : nat) (F key out : list N).
Hypothesis Hc : (1 <= c)%nat.
Hypothesis Hc32 : (N.of_nat (16 * c) < 2 ^ 32)%N.
Hypothesis HT : (1 <= T <= 16)%nat.
Hypothesis HF : bytesb F = true.
Hypothesis Hdec : dec c hbuf T F key = FileModel.Ok out.
Variable kd : mkind.
Hypothesis Hkd : create false (nth 8 F 0%N) = Some kd.

Let iv16 := firstn 16 (skipn 48 F).

Variable PW : wpar.
Hypothesis Ekind : wp_kind PW = kd.
Hypothesis Eks : wp_ks PW = genall key.
Hypothesis Eiv : wp_iv PW = iv16.
Hypothesis Eout : wp_out0 PW = [].
Hypothesis Epos : wp_pos0 PW = text_mark T.
Hypothesis OKW : wpar_ok PW.
Hypothesis DKW : wdone_ok PW.
Variable sm0 : memory.
Hypothesis Hsm0 : forall i, (i < T)%nat -> w_srep PW T i iv16 sm0.

Local Instance LYD : Layout := wlayout PW.
Local Instance LOD : LayoutOk := wlayout_ok PW OKW DKW.

Let cs0 := whole_init WDec c hbuf T (-1) (-1) F key [].
Let cs2 := cstate_md c T false F I_WaitUpdate (repeat W_New T) (d_init0 c T sm0) (g_init0 T).

Hypothesis Hpre : forall fuel, enabled_list cs0 = [O] /\
  (cstep whole_prog [] fuel cs0 0 = NoFuel \/
   exists cs1 e1, cstep whole_prog [] fuel cs0 0 = Ok (cs1, e1) /\ enabled_list cs1 = [O] /\
     (cstep whole_prog [] fuel cs1 0 = NoFuel \/ exists e2, cstep whole_prog [] fuel cs1 0 = Ok (cs2, e2))).

Definition QfinD (s : pstate) (cs' : cstate) : Prop :=
  out_bytes cs' = concat (output _ s) /\ main_result cs' = Some 1%Z /\ in_bytes cs' = F.
Hypothesis Hsuf : forall s cs, sim c T false F s cs -> terminal LS s = true -> forall fuel,
  cstep whole_prog [] fuel cs 0 = NoFuel \/
  exists cs' evs, cstep whole_prog [] fuel cs 0 = Ok (cs', evs) /\ QfinD s cs' /\ enabled_list cs' = [] /\ all_tdone cs' = true.

Theorem decrypt_from_parts : forall rnd,
  match src_decrypt_file c hbuf T F key rnd with
  | SOk (b, o, i, _) => b = true /\ o = out /\ i = F
  | SErr w => w = "out of fuel"%string \/ w = "step bound reached"%string
  end.
Proof.
  intros rnd.
  assert (Hc32' : (16 * Z.of_nat c < 2 ^ 32)%Z) by lia.
  unfold src_decrypt_file, src_whole, run_from.
  set (fuel := nat_of_N_tr _). set (steps := (2000 + 200 * T + 40 * (List.length F / (16 * c) + 1) * (T + 2))%nat).
  assert (Hsteps : exists n, steps = S (S n)).
  { exists (steps - 2)%nat. unfold steps. set (z := (40 * _ * _)%nat). lia. }
  destruct Hsteps as [n ->]. unfold auto_run.
  change (whole_init_from (process_init c hbuf) WDec T (-1) (-1) F key []) with cs0.
  destruct (Hpre fuel) as [EL0 H0].
  rewrite auto_run_with_S, EL0. cbv zeta. rewrite nth_single.
  destruct H0 as [E0|(cs1 & e1 & E0 & EL1 & H1)]; rewrite E0; [left; reflexivity|].
  rewrite auto_run_with_S, EL1. cbv zeta. rewrite nth_single.
  destruct H1 as [E1|(e2 & E1)]; rewrite E1; [left; reflexivity|].
  assert (Hsim : sim c T false F (init LS T (Lsig0 T) (loads_of c false (skipn Lpos0 F))) cs2).
  { apply (sim_init c T false F Hc HT HF). intros i Hi. change (Lsig0 T) with (repeat (wp_iv PW) T). rewrite nth_repeat_lt by exact Hi.
    rewrite Eiv. apply Hsm0. exact Hi. }
  pose proof (auto_run_middle c T false F Hc Hc32' HT HF QfinD Hsuf n fuel (lcg (lcg rnd)) _ cs2 2%nat Hsim I) as G.
  destruct (auto_run_with prog n fuel (lcg (lcg rnd)) cs2 2) as [csf k| k| |w] eqn:ER.
  - cbn [goodres] in G. destruct G as (s' & Hre & Hterm & (Hout & Hres & Hin)).
    change (auto_run_with whole_prog n fuel (lcg (lcg rnd)) cs2 2) with (auto_run_with prog n fuel (lcg (lcg rnd)) cs2 2). rewrite ER.
    rewrite Hres. split; [reflexivity|]. split; [|exact Hin].
    rewrite Hout.
    destruct (decrypt_under_every_schedule_proof c hbuf T F key out Hc (proj1 HT) (proj1 (ModesProofs.bytesb_bytes F) HF) Hdec) as (kd' & Hkd' & Hall).
    rewrite Hkd in Hkd'. injection Hkd' as <-. cbv zeta in Hall. destruct Hall as [_ Hall].
    destruct Hre as [sched Hrun]. change Lpos0 with (wp_pos0 PW) in Hrun. rewrite Epos in Hrun.
    change (Lsig0 T) with (repeat (wp_iv PW) T) in Hrun. rewrite Eiv in Hrun.
    change LS with (list N) in Hrun. change Ltr with (runcry (aes_enc_with (wp_ks PW)) (aes_dec_with (wp_ks PW)) (wp_kind PW)) in Hrun.
    rewrite Eks, Ekind in Hrun.
    destruct (Hall sched s' Hrun Hterm) as [Hbody _]. exact Hbody.
  - cbn [goodres] in G. contradiction.
  - change (auto_run_with whole_prog n fuel (lcg (lcg rnd)) cs2 2) with (auto_run_with prog n fuel (lcg (lcg rnd)) cs2 2). rewrite ER. right. reflexivity.
  - cbn [goodres] in G. subst w.
    change (auto_run_with whole_prog n fuel (lcg (lcg rnd)) cs2 2) with (auto_run_with prog n fuel (lcg (lcg rnd)) cs2 2). rewrite ER. left. reflexivity.
Qed.
End Dec.
