(* Extraction of the executable models and specs used by the correspondence check.
   Only ExtrOcamlBasic: bool, option, unit, list, prod, sumbool/sumor; N, positive and nat
   stay the extracted inductive types. *)
From Coq Require Import Extraction ExtrOcamlBasic.
From Wencry Require Import Bytes AesSpec AesModel ModesSpec ModesModel HashSpec HashModel
     Base64Spec Base64Model FileModel FileSpec PipeConc CliModel SrcRun SrcRun2 SrcRun3 SrcRun4 SrcRun5 SrcRun6 CliConc RefineConcSim.
Extraction Language OCaml.
Set Extraction Optimize.
Extraction "model.ml"
  N.of_nat N.to_nat bytesb
  AesSpec.Cipher AesSpec.InvCipher AesModel.aes_enc AesModel.aes_dec AesModel.genall
  AesModel.aes_enc_with AesModel.aes_dec_with
  ModesSpec.mode_enc ModesSpec.mode_dec ModesModel.create ModesModel.run ModesModel.runcry
  HashSpec.hash_spec HashSpec.hmac_spec HashModel.get_hasher HashModel.getStringHash
  HashModel.getFileHash HashModel.hmac_model HashModel.cmphmac
  Base64Spec.encode Base64Spec.decode Base64Model.hex_to_base64 Base64Model.base64_to_hex
  Base64Model.is_valid_b64 Base64Model.get_key
  FileModel.enc FileModel.enc_writes FileModel.dec FileModel.ver FileModel.verify FileModel.loads_of FileModel.pipe_seq
  FileSpec.wenc_spec FileSpec.wenc_length
  CliModel.cli
  SrcRun.src_hash_string SrcRun.src_hash_file SrcRun.src_aes SrcRun.src_mode SrcRun.src_b64_encode SrcRun.src_b64_decode
  SrcRun.src_b64_valid SrcRun.iob_state SrcRun.src_load SrcRun.src_export
  SrcRun2.src_hmac SrcRun2.src_cmphmac SrcRun2.src_verify SrcRun2.src_header SrcRun2.src_mode_factory
  CliConc.src_cli_parse CliConc.cli_parse CliConc.abs_pak
  SrcRun5.src_encrypt_file SrcRun5.src_decrypt_file SrcRun5.src_verify_file SrcRun5.src_history SrcRun5.src_encrypt_snapshots SrcRun6.src_main
  RefineConcSim.sim_run_full SrcRun4.conc_src_run SrcRun4.conc_output SrcRun4.all_done MiniCConc.enabled_count
  PipeConc.tag_run PipeConc.tag_tr PipeConc.tag_event PipeConc.terminal PipeConc.output PipeConc.crashed PipeConc.enabled_count.
