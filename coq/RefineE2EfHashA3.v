(* (A) of PARALLEL2, part 3: runcrypt::prepare_IV(r_buf) on the state after the constructors (RefineE2EfEncDefs.M1e), with the
   spine of the final memory / pointer table and the conditions on the new names: the statement
   RefineE2EfSetup1.prepare_IV_enc_spec2 of the consumer (copied below; = RefineE2EfHashSpec.prepare_IV_enc_spec with the premise
   |seed| < 2^32 and the two name conditions of RefineE2EfHashB3 as additional conjuncts). *)
From Coq Require Import ZArith NArith List String Bool Lia PeanoNat Ascii.
From Wencry Require Import Bytes HashModel HashProofs HmacProofs FileModel FileProps MiniC MiniCRun MiniCLemmas SrcRun SrcRun2 SrcRun5
     RefineHashDefs RefineHashDriver RefineSha1 RefineHash RefineFileBase RefineFileHmac RefineFileHmac2 RefineFileHmac3 RefineFileVerify RefineFileHeader
     RefineE2ENames RefineE2EFrame RefineE2EWhole RefineE2EBridge.
From Wencry Require RefineConcMem.
From Wencry Require Import RefineE2EfLay RefineE2EfWNames RefineE2EfEncDefs RefineE2EfHashSpec RefineE2EfHashMono RefineE2EfHashKeys RefineE2EfHashB2 RefineE2EfHashB3
     RefineE2EfHashA1 RefineE2EfHashA2.
From Wencry.Gen Require Layout Src_sha1 Src_md5 Src_sha256 Src_hashmaster Src_hashfactory Src_fheader Src_cry.
Import ListNotations.
Local Open Scope list_scope.
Local Open Scope string_scope.

(* ---------------- the functions of this run, for the two general theorems ---------------- *)
Definition FLK : list string :=
  names Src_sha1.functions ++ names Src_md5.functions ++ names Src_sha256.functions ++
  ["Hashmaster::getStringHash/3"; "sha1hash::sha1hash/0"; "md5hash::md5hash/0"; "sha256hash::sha256hash/0"] ++ names Src_hashfactory.functions ++
  ["runcrypt::prepare_IV/1"; "FileHeader::getIV/2@u8_t"; "FileHeader::getFileHeader/1"].
Definition LNK : list string := ["temph"; "padding"; "mn"].
Definition SZA : list string := ["sizeof:iobuffer.b"].
Lemma HFLK : forall g fn, In g FLK -> lget whole_prog g = Some fn -> mokK whole_prog FLK LNK (f_body fn) = true.
Proof.
  assert (C : forallb (fun g => match lget whole_prog g with Some fn => mokK whole_prog FLK LNK (f_body fn) | None => true end) FLK = true)
    by (vm_compute; reflexivity).
  intros g fn Hg L. rewrite forallb_forall in C. specialize (C g Hg). rewrite L in C. exact C.
Qed.
Lemma HFLmK : forall g fn, In g FLK -> lget whole_prog g = Some fn -> mok whole_prog FLK SZA (f_body fn) = true.
Proof.
  assert (C : forallb (fun g => match lget whole_prog g with Some fn => mok whole_prog FLK SZA (f_body fn) | None => true end) FLK = true)
    by (vm_compute; reflexivity).
  intros g fn Hg L. rewrite forallb_forall in C. specialize (C g Hg). rewrite L in C. exact C.
Qed.
Lemma Hg_prep : In "runcrypt::prepare_IV/1" FLK.
Proof. unfold FLK. repeat (apply in_or_app; right). left. reflexivity. Qed.

(* ---------------- small facts ---------------- *)
Fixpoint nodupb (l : list string) : bool := match l with [] => true | x :: r => negb (RefineE2ENames.inb x r) && nodupb r end.
Lemma nodupb_NoDup : forall l, nodupb l = true -> NoDup l.
Proof.
  induction l as [|x r IH]; intro H; [constructor|]. cbn [nodupb] in H. apply andb_prop in H. destruct H as [H1 H2].
  constructor; [|apply IH, H2]. intro Hin. apply RefineE2ENames.inb_In in Hin. rewrite Hin in H1. discriminate.
Qed.
Lemma mget_notin : forall (m : memory) k, ~ In k (map fst m) -> mget m k = None.
Proof.
  intros m k H. destruct (mget m k) as [o|] eqn:E; [|reflexivity]. exfalso. apply H. eapply mget_in', E.
Qed.
Lemma in_mget : forall (m : memory) k, In k (map fst m) -> mget m k <> None.
Proof.
  induction m as [|[k' o] m IH]; intros k H; cbn [map fst In mget] in *; [contradiction|].
  destruct (String.eqb_spec k k') as [->|N]; [discriminate|]. destruct H as [H|H]; [congruence|apply IH, H].
Qed.
Lemma hnum_hash : forall k n, hnum k = Some n -> exists r, k = String "#"%char r.
Proof.
  intros [|ch r] n H; cbn [hnum] in H; [discriminate|]. destruct (Ascii.eqb_spec ch "#"%char) as [->|]; [eauto|discriminate].
Qed.

(* the statement of the consumer (RefineE2EfSetup1.v of proof-conc) *)
Definition prepare_IV_enc_spec2 : Prop :=
  forall (c hbuf T : nat) (P key seed : list N) (cm hm : N) (l : locs),
    enc_params c hbuf T P key seed cm hm ->
    forallb (fun b => (0 <? b)%N && (b <? 256)%N) seed = true -> (N.of_nat (List.length seed) < 2 ^ 32)%N ->
    (N.of_nat (64 * hbuf) < 2 ^ 32)%N ->
    let hdr := file_header cm hm (iv_chain seed T) T in
    let m1 := M1e c hbuf T key seed (Z.of_N cm) (Z.of_N hm) in
    exists (fuel h n : nat) (ivo : object) (extra : memory) (pextra : locs),
      call whole_prog [] fuel "runcrypt::prepare_IV/1" "rc." [VPtr "seed" 0]
           {| mem := m1; loc := l; pre := "rc."; files := FS0 P; ptrs := PS1; fresh := 1 |} =
      Ok (Some (VPtr (heap_name n) 0),
          {| mem := (m1 ++ extra)%list; loc := l; pre := "rc.";
             files := [("fin", stream P 0); ("fout", {| cf_data := map Z.of_N hdr; cf_pos := List.length hdr; cf_eof := false |})];
             ptrs := (PS1 ++ pextra)%list; fresh := h |}) /\
      (n < h)%nat /\ mget extra (heap_name n) = Some ivo /\ o_ty ivo = U8 /\ (16 <= List.length (o_cells ivo))%nat /\
      firstn 16 (o_cells ivo) = map Z.of_N (firstn 16 (iv_chain seed T)) /\
      ext_mem_ok h extra = true /\ ext_ptr_ok h pextra = true /\
      (forall k o, mget m1 k = Some o -> mget extra k = None) /\
      no_sizeof_names extra = true /\ no_alloc_keys pextra = true.

Theorem prepare_IV_enc_ok2 : prepare_IV_enc_spec2.
Proof.
  intros c hbuf T P key seed cm hm l EP Hseed HseedL Hh32 hdr m1.
  pose proof EP as [Hc Hh1 HT1 HP Hkey Hsd Hcm Hhm HsP HsT HsS].
  assert (HT : (1 <= T <= 16)%nat) by lia.
  pose proof (keys1 c hbuf T key seed (Z.of_N cm) (Z.of_N hm)) as K1. fold m1 in K1.
  destruct (prep_small c hbuf T P key seed cm hm HT Hcm Hhm Hseed HseedL) as (fuel & W' & S' & M' & Ec & HNA & Hfiles & Hfr & Hmem & Hiv & Hoth & Hptrs & _).
  set (msm := Msm c hbuf T key seed (Z.of_N cm) (Z.of_N hm)) in *.
  set (jmm := Jmm c hbuf T key seed (Z.of_N cm) (Z.of_N hm)).
  assert (Emsm : forall k, mget msm k = if keepA k then mget m1 k else None) by (intro k; apply mget_Msm).
  assert (Ejmm : forall k, mget jmm k = if keepA k then None else mget m1 k) by (intro k; apply mget_Jmm).
  (* ---- the run on the full state ---- *)
  assert (HXf : forall n y, (1 <= n)%nat -> mget jmm (RefineE2ENames.hobj n ++ y) = None).
  { intros n y Hn. rewrite Ejmm. destruct (keepA (RefineE2ENames.hobj n ++ y)) eqn:Ek; [reflexivity|]. exfalso.
    unfold keepA in Ek. apply andb_false_iff in Ek. destruct Ek as [Ek|Ek]; apply negb_false_iff, String.eqb_eq in Ek.
    - apply (RefineE2ENames.heap_not_hobj 0 n y). symmetry. exact Ek.
    - rewrite RefineE2ENames.hobj_app in Ek. discriminate Ek. }
  assert (HXs : forall r, ~ In ("sizeof:" ++ r) SZA -> mget jmm ("sizeof:" ++ r) = None).
  { intros r Hr. rewrite Ejmm. destruct (keepA ("sizeof:" ++ r)) eqn:Ek; [reflexivity|]. exfalso.
    unfold keepA in Ek. apply andb_false_iff in Ek. destruct Ek as [Ek|Ek]; apply negb_false_iff, String.eqb_eq in Ek.
    - discriminate Ek.
    - apply Hr. rewrite Ek. left. reflexivity. }
  assert (HYa : forall c0, lget (@nil (string * value)) ("alloc:" ++ c0) = None) by reflexivity.
  assert (R : MR jmm [] 1 (St msm [] "rc." (FS0 P) PS1 1%nat) (St m1 [] "rc." (FS0 P) PS1 1%nat)).
  { constructor; cbn [mem loc pre files ptrs fresh]; try reflexivity; try lia.
    - intro k. rewrite Emsm, Ejmm. destruct (keepA k); [destruct (mget m1 k); reflexivity|reflexivity].
    - intro k. destruct (lget PS1 k); reflexivity. }
  destruct (call_more whole_prog [] FLK SZA HFLmK jmm [] 1%nat HXf HXs HYa fuel "runcrypt::prepare_IV/1" "rc." _ _ _ _ _ Hg_prep Ec HNA R) as (Sb & EcB & Rb).
  assert (NAb : NA Sb).
  { intro c0. rewrite (mrp_none _ _ _ _ (mr_p _ _ _ _ _ Rb) (HNA c0)). reflexivity. }
  (* ---- the names of the two final states ---- *)
  destruct (call_keys whole_prog [] FLK LNK HFLK _ _ _ _ _ _ _ Hg_prep Ec HNA) as (_ & (ks' & Ek' & Fk') & _).
  destruct (call_keys whole_prog [] FLK LNK HFLK _ _ _ _ _ _ _ Hg_prep EcB NAb) as (Hf1 & (ks & Ek & Fk) & (pks & Ep & Fp)).
  cbn [mem ptrs fresh] in Ek', Fk', Hf1, Ek, Fk, Ep, Fp.
  assert (Hfb : fresh Sb = fresh S') by (apply (mr_fresh _ _ _ _ _ Rb)).
  set (h := fresh Sb) in *.
  assert (Hh2 : (2 <= h)%nat) by (rewrite Hfb; exact Hfr).
  (* ---- the old objects keep their values ---- *)
  assert (Hnew : forall k, In k KEYS1 -> forall f', ~ newk LNK 1 f' k).
  { assert (C : forallb (fun k => match k with String "%"%char _ => false | _ => true end && match hnum k with Some n => (n <? 1)%nat | None => true end) KEYS1 = true) by (vm_compute; reflexivity).
    intros k Hk f' Hn. rewrite forallb_forall in C. specialize (C k Hk). apply andb_prop in C. destruct C as [C1 C2].
    destruct Hn as [(x & -> & _)|(n & En & Hn)]; [discriminate C1|]. rewrite En in C2. apply Nat.ltb_lt in C2. lia. }
  assert (Hvals : forall k o, mget m1 k = Some o -> mget (mem Sb) k = Some o).
  { intros k o Hk. rewrite (mr_m _ _ _ _ _ Rb k).
    assert (Hin : In k KEYS1) by (rewrite <- K1; eapply mget_in', Hk).
    destruct (keepA k) eqn:Ekk.
    - pose proof (keys1_all c hbuf T key seed (Z.of_N cm) (Z.of_N hm) (fun k => negb (keepA k) || (nmbX k && negb (file_owned k) && negb (String.eqb k "sizeof:iobuffer.b"))) k o eq_refl Hk) as X.
      cbn beta in X. rewrite Ekk in X. cbn [negb orb] in X. apply andb_prop in X. destruct X as [X X3]. apply andb_prop in X. destruct X as [X1 X2].
      apply negb_true_iff in X2. apply negb_true_iff, String.eqb_neq in X3.
      rewrite (Hmem k (or_introl X1)) by (intros [E0|[]]; congruence).
      rewrite (Hoth k X2), Emsm, Ekk, Hk. reflexivity.
    - assert (En : mget (mem S') k = None).
      { apply mget_notin. rewrite Ek'. intro Hi. apply in_app_or in Hi. destruct Hi as [Hi|Hi].
        - apply in_mget in Hi. rewrite Emsm, Ekk in Hi. apply Hi. reflexivity.
        - apply (Hnew k Hin (fresh S')). apply (proj1 (Forall_forall _ _) Fk' k Hi). }
      rewrite En, Ejmm, Ekk. exact Hk. }
  assert (Hpv : forall k v, lget PS1 k = Some v -> lget (ptrs Sb) k = Some v).
  { intros k v Hk. apply (mrp_some _ _ _ _ _ (mr_p _ _ _ _ _ Rb)). apply Hptrs, Hk. }
  assert (Hnd1 : NoDup (map fst m1)).
  { rewrite K1. apply nodupb_NoDup. vm_compute. reflexivity. }
  assert (Hnd2 : NoDup (map fst PS1)) by (apply nodupb_NoDup; vm_compute; reflexivity).
  pose proof (spine_mem m1 (mem Sb) ks Ek Hnd1 Hvals) as Espine.
  pose proof (spine_locs _ PS1 (ptrs Sb) pks Ep Hnd2 Hpv) as Espinep.
  set (extra := skipn (List.length m1) (mem Sb)) in *.
  set (pextra := skipn (List.length PS1) (ptrs Sb)) in *.
  assert (Eke : map fst extra = ks) by (apply (skipn_keys _ m1 (mem Sb) ks Ek)).
  assert (Ekp : map fst pextra = pks) by (apply (skipn_keys _ PS1 (ptrs Sb) pks Ep)).
  (* ---- the iv array ---- *)
  assert (Hivb : mget (mem Sb) (heap_name 1) = Some (ivobj seed T)).
  { apply (mrm_some _ _ _ _ _ (mr_m _ _ _ _ _ Rb)). rewrite (Hmem (heap_name 1)); [exact Hiv|right; eauto|].
    intros [E0|[]]. discriminate E0. }
  assert (Hive : mget extra (heap_name 1) = Some (ivobj seed T)).
  { rewrite Espine in Hivb. rewrite RefineConcMem.mget_app in Hivb.
    assert (E1 : mget m1 (heap_name 1) = None).
    { apply mget_notin. rewrite K1. intro Hi. apply (Hnew _ Hi 2%nat). right. exists 1%nat. split; [apply hnum_heap|lia]. }
    rewrite E1 in Hivb. exact Hivb. }
  (* ---- the statement ---- *)
  exists fuel, h, 1%nat, (ivobj seed T), extra, pextra.
  split.
  { pose proof (call_caller_indep whole_prog [] fuel "runcrypt::prepare_IV/1" "rc." [VPtr "seed" 0] _ l "rc." _ _ EcB) as Q.
    cbn [mem files ptrs fresh] in Q. rewrite Q. do 2 f_equal.
    rewrite <- Espine, <- Espinep. rewrite (mr_files _ _ _ _ _ Rb), Hfiles. reflexivity. }
  split; [lia|]. split; [exact Hive|]. split; [reflexivity|].
  assert (Hcl : List.length (map Z.of_N (RefineFileHeader.chain seed T)) = (20 * T)%nat) by (rewrite map_length; apply chain_len).
  split.
  { unfold ivobj. cbn [o_cells]. rewrite app_length, Hcl, repeat_length. lia. }
  split.
  { unfold ivobj. cbn [o_cells]. rewrite firstn_app, Hcl. replace (16 - 20 * T)%nat with 0%nat by lia. rewrite firstn_O, app_nil_r.
    rewrite firstn_map, iv_chain_chain by lia. reflexivity. }
  split.
  { unfold ext_mem_ok. apply forallb_forall. intros kv Hkv.
    assert (Hi : In (fst kv) ks) by (rewrite <- Eke; apply in_map, Hkv).
    pose proof (proj1 (Forall_forall _ _) Fk _ Hi) as [(x & Ex & Hx)|(n & En & Hn)].
    - rewrite Ex. cbn [LNK In] in Hx. destruct Hx as [<-|[<-|[<-|[]]]]; reflexivity.
    - unfold below. rewrite En. assert (E1 : (n <? h)%nat = true) by (apply Nat.ltb_lt; lia). rewrite E1. cbn [andb].
      destruct (hnum_hash _ _ En) as [r Er]. rewrite Er. reflexivity. }
  split.
  { unfold ext_ptr_ok. apply forallb_forall. intros kv Hkv.
    assert (Hi : In (fst kv) pks) by (rewrite <- Ekp; apply in_map, Hkv).
    pose proof (proj1 (Forall_forall _ _) Fp _ Hi) as (n & En & Hn). rewrite En. unfold class_key.
    rewrite RefineE2ENames.strip_app. unfold below.
    change (hnum ("class:" ++ RefineE2ENames.hobj n)) with (@None nat).
    pose proof (hnum_hobj' n "") as Hh. rewrite RefineE2ENames.append_nil_r in Hh. rewrite Hh.
    assert (E1 : (n <? h)%nat = true) by (apply Nat.ltb_lt; lia). rewrite E1. reflexivity. }
  split.
  { intros k o Hk. apply mget_notin. rewrite Eke. intro Hi.
    assert (Hin : In k KEYS1) by (rewrite <- K1; eapply mget_in', Hk).
    apply (Hnew k Hin h). apply (proj1 (Forall_forall _ _) Fk k Hi). }
  split.
  { unfold no_sizeof_names. apply forallb_forall. intros kv Hkv.
    assert (Hi : In (fst kv) ks) by (rewrite <- Eke; apply in_map, Hkv).
    pose proof (proj1 (Forall_forall _ _) Fk _ Hi) as [(x & Ex & Hx)|(n & En & Hn)].
    - rewrite Ex. reflexivity.
    - destruct (hnum_hash _ _ En) as [r Er]. rewrite Er. reflexivity. }
  unfold no_alloc_keys. apply forallb_forall. intros kv Hkv.
  assert (Hi : In (fst kv) pks) by (rewrite <- Ekp; apply in_map, Hkv).
  pose proof (proj1 (Forall_forall _ _) Fp _ Hi) as (n & En & Hn). rewrite En. reflexivity.
Qed.
Print Assumptions prepare_IV_enc_ok2.


(* non-vacuity: the premises hold for the instance of evidence/T6.v (c = 1, hbuf = 1, T = 2, cm = 1, hm = 0, seed [1;2;3]) *)
Example prepare_IV_premises_nonvacuous :
  enc_params 1 1 2 (map N.of_nat (seq 7 40)) (map N.of_nat (seq 100 16)) [1; 2; 3]%N 1 0 /\
  forallb (fun b => (0 <? b)%N && (b <? 256)%N) [1; 2; 3]%N = true /\ (N.of_nat (List.length [1; 2; 3]%N) < 2 ^ 32)%N /\ (N.of_nat (64 * 1) < 2 ^ 32)%N.
Proof.
  split; [|repeat split; vm_compute; reflexivity].
  constructor; try lia; try (vm_compute; reflexivity).
  apply ModesProofs.block16_iff. split; [reflexivity|]. unfold ModesProofs.bytes. repeat constructor; vm_compute; reflexivity.
Qed.
