(* Stage 5: the layout instance of execute_decrypt (RefineE2EfDecSpec.PWdec) satisfies wpar_ok and dec_frame_ok. *)
From Coq Require Import ZArith NArith List String Bool Lia Arith ZifyN ZifyNat.
From Wencry Require Import Bytes AesModel ModesModel HashModel FileSpec FileModel FileProps FileProofsDec PipeConc MiniC MiniCRun MiniCLemmas MiniCConc SrcRun SrcRun2 SrcRun5 RefineE2EWhole.
From Wencry Require ModesProofs RefineAes RefineAesOps.
From Wencry Require Import RefineE2EfLay RefineE2EfMach RefineE2EfMem RefineE2EfRel RefineE2EfGen RefineE2EfRun
     RefineE2EfWNames RefineE2EfWLay RefineE2EfWOk RefineE2EfTail RefineE2EfDec2 RefineE2EfEncDefs RefineE2EfHashSpec RefineE2EfEnc2 RefineE2EfDecSpec.
Import ListNotations.
Local Open Scope list_scope.
Local Open Scope string_scope.

Section DecInst.
Variables (c hbuf T : nat) (F key : list N).
Hypothesis HT : (1 <= T <= 16)%nat.
Hypothesis Hkey : block16 key.
Hypothesis Hiv : block16 (firstn 16 (skipn 48 F)).
Variables (h n : nat) (extra : memory) (pextra : locs) (kd : mkind).
Hypothesis Hn : (n < h)%nat.
Hypothesis Hext : ext_mem_ok h extra = true.
Hypothesis Hpext : ext_ptr_ok h pextra = true.
Notation PW := (PWdec hbuf T F key h (heap_name n) extra pextra kd).

Lemma PWdec_ok : wpar_ok PW.
Proof.
  constructor.
  - intros c1 T1. reflexivity.
  - intros c1 T1. unfold mem_frame_ok. cbn [wp_memB PWdec]. rewrite forallb_app. apply andb_true_iff. split.
    + cbn [forallb fst]. cbn [wp_h PWdec]. unfold below. change (hnum "#0") with (Some 0%nat). cbv beta iota. assert (E0 : (0 <? h)%nat = true) by (apply Nat.ltb_lt; lia). rewrite E0. reflexivity.
    + unfold ext_mem_ok in Hext. cbn [wp_h PWdec]. exact Hext.
  - intros c1 T1. reflexivity.
  - intros c1 T1. cbn [wp_memA PWdec wp_cp]. unfold memA_d. cbn [mget app String.eqb Ascii.eqb Bool.eqb append]. reflexivity.
  - intros T1. reflexivity.
  - intros T1. unfold ptr_frame_ok. cbn [wp_pB PWdec]. rewrite forallb_app. apply andb_true_iff. split.
    + cbn [forallb fst]. unfold pkey_ok. cbn [wp_h wp_cp PWdec]. unfold below.
      repeat match goal with |- context [hnum ?k] => let v := eval vm_compute in (hnum k) in change (hnum k) with v end.
      cbn [RefineE2ENames.strip String.eqb Ascii.eqb Bool.eqb pfxb append andb negb]. reflexivity.
    + unfold ext_ptr_ok in Hpext. rewrite forallb_forall in *. intros x Hx. specialize (Hpext x Hx). unfold pkey_ok. cbn [wp_h wp_cp PWdec append].
      rewrite !andb_true_iff in *. tauto.
  - intros T1. unfold ptr_frame_ok. cbn [wp_pC PWdec forallb fst]. unfold pkey_ok. cbn [wp_h wp_cp PWdec]. unfold below.
    change (hnum "rc.aesfactory.iv") with (@None nat). cbn [RefineE2ENames.strip String.eqb Ascii.eqb Bool.eqb pfxb append andb negb]. reflexivity.
  - exists "c.crym.". reflexivity.
  - intros c1 T1. cbn [wp_memA PWdec]. unfold memA_d, RefineAesOps.tabs_ok. repeat split; reflexivity.
  - apply RefineAes.genall_length.
  - apply RefineAes.genall_blocks. exact Hkey.
  - cbn [wp_iv PWdec]. exact Hiv.
  - cbn [wp_out0 PWdec]. constructor.
Qed.

Lemma PWdec_frame : dec_frame_ok PW.
Proof.
  constructor; try reflexivity.
  - intros T1 pad. eexists. reflexivity.
Qed.
End DecInst.
