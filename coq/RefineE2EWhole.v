(* The whole-file verification run of SrcRun5 in the sequential semantics: the two constructors, then runcrypt::execute_verify. *)
From Coq Require Import ZArith NArith List String Bool Lia PeanoNat.
From Wencry Require Import Bytes HashModel HashProofs HmacProofs FileModel MiniC MiniCRun MiniCLemmas SrcRun SrcRun2 SrcRun5
     RefineHashDefs RefineHashDriver RefineFileBase RefineFileHmac RefineFileHmac2 RefineFileVerify RefineE2ENames RefineE2EFrame.
From Wencry.Gen Require Layout Src_sha256 Src_sha1 Src_md5 Src_hashmaster Src_hashbuffer Src_hashfactory Src_fheader Src_cry Src_whole Src_conc Src_aes Src_aesmode.
Import ListNotations.
Local Open Scope list_scope.
Local Open Scope string_scope.
Local Open Scope Z_scope.

(* ---------------- whole_prog = front ++ file_prog ---------------- *)
Definition front_prog : program := (Src_whole.functions ++ Src_conc.functions ++ Src_aes.functions ++ Src_aesmode.functions)%list.
Lemma whole_prog_eq : whole_prog = (front_prog ++ file_prog)%list.
Proof. unfold whole_prog, front_prog. repeat rewrite <- app_assoc. reflexivity. Qed.
Lemma front_disj : forall g fn, lget file_prog g = Some fn -> lget front_prog g = None.
Proof.
  assert (C : forallb (fun nf : string * func => match lget front_prog (fst nf) with None => true | Some _ => false end) file_prog = true)
    by (vm_compute; reflexivity).
  intros g fn H. rewrite forallb_forall in C. specialize (C _ (lget_In _ _ _ _ H)). cbn [fst] in C.
  destruct (lget front_prog g); [discriminate|reflexivity].
Qed.
Lemma call_W : forall vt fuel f pfx vs s r, call file_prog vt fuel f pfx vs s = Ok r -> call whole_prog vt fuel f pfx vs s = Ok r.
Proof. intros. rewrite whole_prog_eq. apply call_prog_front; [exact front_disj|assumption]. Qed.
Lemma exec_W : forall vt fuel st s r, exec file_prog vt fuel st s = Ok r -> exec whole_prog vt fuel st s = Ok r.
Proof. intros. rewrite whole_prog_eq. apply exec_prog_front; [exact front_disj|assumption]. Qed.
Lemma lget_W : forall g fn, lget file_prog g = Some fn -> lget whole_prog g = Some fn.
Proof. intros. rewrite whole_prog_eq. apply lget_front; [exact front_disj|assumption]. Qed.

(* ---------------- the state after the two constructors ---------------- *)
Definition oc (t : ity) (x : Z) : object := {| o_ty := t; o_cells := [x] |}.
Definition M1 (c hbuf T : nat) (key : list N) : memory :=
  ([("rc.settings.ctype", oc I8 (-1)); ("rc.settings.htype", oc I8 (-1)); ("rc.settings.no_echo", oc TBool 1);
   ("rc.threads_num", oc U8 (wrap U8 (Z.of_nat T))); ("rc.mode", oc TBool 0); ("rc.header.hash", mk_object U8 64);
   ("rc.header.num", oc U8 (wrap U8 (Z.of_nat T))); ("rc.header.ctype", oc U8 255); ("rc.header.htype", oc U8 255);
   ("rc.crym.THREADS_NUM", oc U8 (wrap U8 (Z.of_nat T))); ("rc.hmachandle.length", oc U8 0);
   ("st.ctype", oc I8 (-1)); ("st.htype", oc I8 (-1)); ("st.no_echo", oc TBool 1);
   ("key", bytes_object key); ("seed", bytes_object [0%N])]
  ++ file_globals hbuf ++ Src_aes.globals
  ++ [("sum", cell U32 (16 * Z.of_nat c)); ("sizeof:iobuffer.b", cell U32 (16 * Z.of_nat c)); ("live_num", cell U8 0); ("#0", mk_object U8 32)])%list.
Definition PS1 : list (string * value) :=
  [("rc.fin", VPtr "fin" 0); ("rc.out", VPtr "fout" 0); ("rc.key", VPtr "key" 0); ("instance", VNull);
   ("rc.header.key", VPtr "key" 0); ("rc.header.fp", VPtr "fin" 0); ("rc.header.out", VPtr "fout" 0);
   ("rc.aesfactory.key", VPtr "key" 0); ("rc.resultprint", VPtr "#0" 0)].
Definition FS0 (F : list N) : list (string * cfile) := [("fin", stream F 0); ("fout", stream [] 0)].
Definition S1 (c hbuf T : nat) (F key : list N) : state :=
  {| mem := M1 c hbuf T key; loc := []; pre := ""; files := FS0 F; ptrs := PS1; fresh := 1 |}.

Lemma construct_run : forall c hbuf T F key,
  exec whole_prog [] 30 (construct T (-1) (-1) true) (whole_state c hbuf T (-1) (-1) true F key []) = Ok (Normal, S1 c hbuf T F key).
Proof. intros. vm_compute. reflexivity. Qed.

(* ---------------- runcrypt::verify on that state (the proof of RefineFileVerifyCall.verify_call, on whole_prog) ---------------- *)
Notation FS D pos e fo := [("fin", {| cf_data := D; cf_pos := pos; cf_eof := e |}); ("fout", fo)].
Ltac cfuel tac := match goal with |- context [exec whole_prog _ (S ?f) (SCall _ _ _ _) _] => tac f end.

Section VerifyW.
Variables cc hbuf T : nat.
Variables F key : list N.
Variable fsize : Z.
Variable fo : cfile.
Hypothesis HFb : bytesb F = true.
Let D := map Z.of_N F.
Let m1 := M1 cc hbuf T key.
Let stored := firstn 64 (skipn 10 F).

Definition Mem4 (mn : object) : memory :=
  mset (mset (mset (mset m1 "%mn" mn) "rc.header.ctype" (u8cell (Z.of_N (nth 8 F 0%N)))) "rc.header.htype" (u8cell (Z.of_N (nth 9 F 0%N))))
       "rc.header.hash" (bytes_object stored).

Hypothesis Hcmp : (74 <= List.length F)%nat -> (nth 9 F 0 <= 2)%N -> forall fuel mn l0,
  (2800 + List.length F / 64 <= fuel)%nat ->
  exists tag s', hmac_model hbuf (nth 9 F 0%N) key (skipn 48 F) = Some tag /\
    call whole_prog [] fuel "hmac::cmphmac/5" "rc.hmachandle." [VInt (Z.of_N (nth 9 F 0%N)); VPtr "key" 0; VPtr "fin" 0; VPtr "rc.header.hash" 0; VInt fsize]
      (St (Mem4 mn) l0 "rc." (FS D 48 false fo) PS1 1%nat) = Ok (Some (VInt (if cmphmac tag stored then 1 else 0)), s').

Lemma verify_W : forall fuel, (2900 + List.length F / 64 <= fuel)%nat ->
  exists code s', verify hbuf F key = FileModel.Ok code /\
    call whole_prog [] fuel "runcrypt::verify/1" "rc." [VInt fsize] (St m1 [] "" (FS D 0 false fo) PS1 1%nat) = Ok (Some (VInt (Z.of_N code)), s').
Proof.
  intros fuel Hfuel.
  assert (E : exists f, fuel = (40 + f)%nat) by (exists (fuel - 40)%nat; clear - Hfuel; lia).
  destruct E as [f0 ->].
  change (40 + f0)%nat with (S (S (S (S (S (S (S (S (S (S (S (S (S (S (S (S (S (S (S (S (S (S (S (S (S (S (S (S (S (S (S (S (S (S (S (S (S (S (S (S f0)))))))))))))))))))))))))))))))))))))))).
  unfold call. rewrite (lget_W _ _ (eq_refl : lget file_prog "runcrypt::verify/1" = Some Src_cry.f_runcrypt_verify_1)).
  cbn [f_params f_body Src_cry.f_runcrypt_verify_1 bind_params bind mem loc pre files ptrs fresh].
  (* 1. header.checkMn() *)
  rewrite exec_seq.
  cfuel ltac:(fun f =>
    destruct (checkMn_call [] f m1 [("fsize", VInt fsize)] "rc." F 0 false fo PS1 1%nat ltac:(clear - Hfuel; lia) eq_refl eq_refl HFb) as (mn & pos1 & e1 & E1);
    fold D in E1; apply call_W in E1;
    rewrite (x_scall whole_prog [] f (Some "$t1") "FileHeader::checkMn/0" (Some (EField "header.")) []
               (St m1 [("fsize", VInt fsize)] "rc." (FS D 0 false fo) PS1 1%nat) [] "rc.header." _ _ _ eq_refl eq_refl E1 eq_refl); clear E1).
  cbn [bind]. unfold with_loc. cbn [mem loc pre files ptrs fresh lset String.eqb Ascii.eqb Bool.eqb].
  rewrite exec_seq. rewrite exec_if. cbn [eval bind as_int loc lget String.eqb Ascii.eqb Bool.eqb eval_un].
  unfold verify. change hmac_mark with 10%nat. change iv_mark with 48%nat. cbn [Nat.add].
  destruct (magic_ok F) eqn:Emg.
  2:{ (* wrong magic number or too short: 4 *)
    change (1 =? 0) with false. change (0 =? 0) with true. cbv iota. change (1 =? 0) with false. cbv iota.
    rewrite x_return. cbn [eval bind as_int]. change (wrap U8 4) with (Z.of_N 4).
    exists 4%N. eexists. split; [|reflexivity].
    unfold magic_ok in Emg. destruct (Nat.leb_spec 8 (List.length F)) as [H8|H8].
    - destruct (Nat.ltb_spec (List.length F) 8); [lia|]. cbn [andb] in Emg. rewrite Emg. reflexivity.
    - destruct (Nat.ltb_spec (List.length F) 8); [reflexivity|lia]. }
  unfold magic_ok in Emg. apply andb_true_iff in Emg. destruct Emg as [Em1 Em2]. apply Nat.leb_le in Em1.
  destruct (Nat.ltb_spec (List.length F) 8) as [|_]; [lia|]. rewrite Em2. cbn [negb].
  change (1 =? 0) with false. cbv iota. change (0 =? 0) with true. cbv iota.
  rewrite exec_skip. cbn [bind].
  set (L1 := [("fsize", VInt fsize); ("$t1", VInt 1)]).
  (* 3. header.checkType() *)
  rewrite exec_seq.
  cfuel ltac:(fun f =>
    destruct (checkType_call [] f (mset m1 "%mn" mn) L1 "rc." F pos1 e1 fo PS1 1%nat 255 255 ltac:(clear - Hfuel; lia) eq_refl eq_refl eq_refl)
      as (c & h & pos2 & e2 & E2 & Hch); fold D in E2; apply call_W in E2;
    rewrite (x_scall whole_prog [] f None "FileHeader::checkType/0" (Some (EField "header.")) []
               (St (mset m1 "%mn" mn) L1 "rc." (FS D pos1 e1 fo) PS1 1%nat) [] "rc.header." _ _ _ eq_refl eq_refl E2 eq_refl); clear E2).
  cbn [bind].
  set (m3 := mset (mset (mset m1 "%mn" mn) "rc.header.ctype" {| o_ty := U8; o_cells := [c] |}) "rc.header.htype" {| o_ty := U8; o_cells := [h] |}).
  (* 4. hash = header.getHmac(64) *)
  rewrite exec_seq.
  cfuel ltac:(fun f =>
    destruct (getHmac_call [] f m3 L1 "rc." F pos2 e2 fo PS1 1%nat (repeat 0 64) ltac:(clear - Hfuel; lia) eq_refl eq_refl eq_refl)
      as (ho & pos3 & e3 & E3 & Hho); fold D in E3; apply call_W in E3;
    rewrite (x_scall whole_prog [] f (Some "$t2") "FileHeader::getHmac/1" (Some (EField "header.")) [ECast U8 (EConst 64)]
               (St m3 L1 "rc." (FS D pos2 e2 fo) PS1 1%nat) [VInt 64] "rc.header." _ _ _ eq_refl eq_refl E3 eq_refl); clear E3).
  cbn [bind]. unfold with_loc. cbn [mem loc pre files ptrs fresh L1 lset String.eqb Ascii.eqb Bool.eqb].
  rewrite exec_seq. rewrite exec_set. cbn [eval bind loc lget String.eqb Ascii.eqb Bool.eqb].
  unfold with_loc. cbn [mem loc pre files ptrs fresh lset String.eqb Ascii.eqb Bool.eqb].
  (* 5. if (hash == NULL) return 1 *)
  rewrite exec_seq. rewrite exec_if. cbn [eval bind as_int loc lget String.eqb Ascii.eqb Bool.eqb].
  destruct (Nat.leb_spec 74 (List.length F)) as [H74|H74].
  2:{ cbn [bind as_int]. change (1 =? 0) with false. cbv iota. rewrite x_return. cbn [eval bind as_int]. change (wrap U8 1) with (Z.of_N 1).
      destruct (Nat.ltb_spec (List.length F) 74); [|lia]. exists 1%N. eexists. split; reflexivity. }
  destruct (Nat.ltb_spec (List.length F) 74) as [|_]; [lia|].
  cbn [bind as_int]. change (0 =? 0) with true. cbv iota. rewrite exec_skip. cbn [bind].
  destruct (Hch ltac:(lia)) as [Ec Eh]. subst c h. rewrite (Hho H74). clear Hch Hho. fold stored.
  set (ct := nth 8 F 0%N) in *. set (ht := nth 9 F 0%N) in *.
  assert (Hct : (ct < 256)%N) by apply (bytesb_nth F 8 HFb). assert (Hht : (ht < 256)%N) by apply (bytesb_nth F 9 HFb).
  change (mset m3 "rc.header.hash" (bytes_object stored)) with (Mem4 mn). clear m3.
  (* 6. if (getctype() > 4 || gethtype() > 2) return 3 *)
  rewrite exec_seq.
  match goal with |- context [exec whole_prog [] (S ?f) (SCall (Some "$t3") "FileHeader::getctype/0" _ _) (St _ ?L _ ?fs _ _)] =>
    rewrite (x_scall whole_prog [] f (Some "$t3") "FileHeader::getctype/0" (Some (EField "header.")) []
               (St (Mem4 mn) L "rc." fs PS1 1%nat) [] "rc.header." _ _ _ eq_refl eq_refl
               (call_W _ _ _ _ _ _ _ (getctype_call [] f (Mem4 mn) L "rc." fs PS1 1%nat (Z.of_N ct) ltac:(clear - Hfuel; lia) eq_refl)) eq_refl)
  end.
  cbn [bind]. unfold with_loc. cbn [mem loc pre files ptrs fresh lset String.eqb Ascii.eqb Bool.eqb].
  rewrite (wrap_U8_small (Z.of_N ct)) by lia.
  rewrite exec_seq. rewrite exec_set. cbn [eval bind as_int loc lget String.eqb Ascii.eqb Bool.eqb eval_bin].
  rewrite (wrap_I32_small (Z.of_N ct)) by lia.
  unfold with_loc. cbn [mem loc pre files ptrs fresh lset String.eqb Ascii.eqb Bool.eqb].
  rewrite exec_seq. rewrite exec_if. cbn [eval bind as_int loc lget String.eqb Ascii.eqb Bool.eqb].
  assert (Hgh : forall f L fs, (2 <= f)%nat ->
            call whole_prog [] f "FileHeader::gethtype/0" "rc.header." [] (St (Mem4 mn) L "rc." fs PS1 1%nat) = Ok (Some (VInt (Z.of_N ht)), St (Mem4 mn) L "rc." fs PS1 1%nat)).
  { intros f L fs Hf. rewrite (call_W _ _ _ _ _ _ _ (gethtype_call [] f (Mem4 mn) L "rc." fs PS1 1%nat (Z.of_N ht) Hf eq_refl)). rewrite wrap_U8_small by lia. reflexivity. }
  destruct (N.ltb_spec 4 ct) as [Hc|Hc].
  - (* ctype > 4: 3 *)
    destruct (Z.ltb_spec 4 (Z.of_N ct)); [|lia]. change (wrap TBool 1) with 1. cbn [bind as_int]. change (1 =? 0) with false. cbv iota.
    rewrite exec_skip. cbn [bind]. rewrite exec_seq. rewrite exec_if. cbn [eval bind as_int loc lget String.eqb Ascii.eqb Bool.eqb].
    change (1 =? 0) with false. cbv iota. rewrite x_return. cbn [eval bind as_int orb]. change (wrap U8 3) with (Z.of_N 3).
    exists 3%N. eexists. split; reflexivity.
  - destruct (Z.ltb_spec 4 (Z.of_N ct)); [lia|]. change (wrap TBool 0) with 0. cbn [bind as_int orb]. change (0 =? 0) with true. cbv iota.
    rewrite exec_seq.
    match goal with |- context [exec whole_prog [] (S ?f) (SCall (Some "$t4") "FileHeader::gethtype/0" _ _) (St _ ?L _ ?fs _ _)] =>
      rewrite (x_scall whole_prog [] f (Some "$t4") "FileHeader::gethtype/0" (Some (EField "header.")) []
                 (St (Mem4 mn) L "rc." fs PS1 1%nat) [] "rc.header." _ _ _ eq_refl eq_refl (Hgh f L fs ltac:(clear - Hfuel; lia)) eq_refl)
    end.
    cbn [bind]. unfold with_loc. cbn [mem loc pre files ptrs fresh lset String.eqb Ascii.eqb Bool.eqb].
    rewrite exec_set. cbn [eval bind as_int loc lget String.eqb Ascii.eqb Bool.eqb eval_bin]. rewrite (wrap_I32_small (Z.of_N ht)) by lia.
    unfold with_loc. cbn [bind mem loc pre files ptrs fresh lset String.eqb Ascii.eqb Bool.eqb].
    rewrite exec_seq. rewrite exec_if. cbn [eval bind as_int loc lget String.eqb Ascii.eqb Bool.eqb].
    destruct (N.ltb_spec 2 ht) as [Hh|Hh].
    + (* htype > 2: 3 *)
      destruct (Z.ltb_spec 2 (Z.of_N ht)); [|lia]. change (wrap TBool 1) with 1. cbn [bind as_int]. change (1 =? 0) with false. cbv iota.
      rewrite x_return. cbn [eval bind as_int]. change (wrap U8 3) with (Z.of_N 3). exists 3%N. eexists. split; reflexivity.
    + destruct (Z.ltb_spec 2 (Z.of_N ht)); [lia|]. change (wrap TBool 0) with 0. cbn [bind as_int]. change (0 =? 0) with true. cbv iota.
      rewrite exec_skip. cbn [bind].
      (* 7. fseek(fin, 48) *)
      rewrite exec_seq. rewrite x_prim. cbn [eval_list eval bind pre ptrs append as_int].
      change (lget PS1 "rc.fin") with (Some (VPtr "fin" 0)). cbn [bind as_int]. change (wrap I64 48) with 48.
      rewrite fseek_fin by lia. cbn [bind set_ret]. change (Z.to_nat 48) with 48%nat.
      (* 8. $t7 = gethtype() *)
      rewrite exec_seq.
      match goal with |- context [exec whole_prog [] (S ?f) (SCall (Some "$t7") "FileHeader::gethtype/0" _ _) (St _ ?L _ ?fs _ _)] =>
        rewrite (x_scall whole_prog [] f (Some "$t7") "FileHeader::gethtype/0" (Some (EField "header.")) []
                   (St (Mem4 mn) L "rc." fs PS1 1%nat) [] "rc.header." _ _ _ eq_refl eq_refl (Hgh f L fs ltac:(clear - Hfuel; lia)) eq_refl)
      end.
      cbn [bind]. unfold with_loc. cbn [mem loc pre files ptrs fresh lset String.eqb Ascii.eqb Bool.eqb].
      (* 9. cmphmac *)
      rewrite exec_seq.
      match goal with |- context [exec whole_prog [] (S ?f) (SCall (Some "$t6") "hmac::cmphmac/5" ?th ?args) (St _ ?L _ ?fs _ _)] =>
        destruct (Hcmp H74 Hh f mn L ltac:(clear - Hfuel; lia)) as (tag & s6 & Hmodel & E6);
        rewrite (x_scall whole_prog [] f (Some "$t6") "hmac::cmphmac/5" th args (St (Mem4 mn) L "rc." fs PS1 1%nat)
                   [VInt (Z.of_N ht); VPtr "key" 0; VPtr "fin" 0; VPtr "rc.header.hash" 0; VInt fsize] "rc.hmachandle." _ _ _ eq_refl eq_refl E6 eq_refl)
      end.
      cbn [bind]. rewrite Hmodel. unfold with_loc.
      rewrite exec_if. cbn [eval bind as_int loc]. rewrite lget_lset_same. cbn [bind as_int eval_un].
      destruct (cmphmac tag stored).
      * change (1 =? 0) with false. cbv iota. change (0 =? 0) with true. cbv iota. rewrite x_return. cbn [eval bind as_int].
        change (wrap U8 0) with (Z.of_N 0). exists 0%N. eexists. split; reflexivity.
      * change (0 =? 0) with true. cbv iota. change (1 =? 0) with false. cbv iota. rewrite x_return. cbn [eval bind as_int].
        change (wrap U8 2) with (Z.of_N 2). exists 2%N. eexists. split; reflexivity.
Qed.
End VerifyW.
