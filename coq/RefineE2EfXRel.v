(* The relation between a state of the run with an allocation plan (hasher at "", filebuffer64 at "buf.", virtual table given)
   and a state of the run without plan (objects at "#<n>.", classes recorded in the state): same contents under the renaming
   [tau W]; expressions evaluate to corresponding values. *)
From Coq Require Import ZArith NArith List String Bool Lia Ascii Arith.
From Wencry Require Import MiniC MiniCLemmas RefineE2EfXNames.
Import ListNotations.
Local Open Scope list_scope.
Local Open Scope string_scope.

Definition rv (W : world) (v : value) : value := match v with VPtr o off => VPtr (tau W o) off | _ => v end.
Definition gv (W : world) (v : value) : Prop := match v with VPtr o _ => nm W o | _ => True end.
Definition lmap (W : world) (l : list (string * value)) : list (string * value) := map (fun xv => (fst xv, rv W (snd xv))) l.
Definition gl (W : world) (l : list (string * value)) : Prop := Forall (fun xv => gv W (snd xv)) l.
Definition ro (W : world) (o : outcome) : outcome := match o with Returned (Some v) => Returned (Some (rv W v)) | _ => o end.
Definition go (W : world) (o : outcome) : Prop := match o with Returned (Some v) => gv W v | _ => True end.

Lemma lget_lmap : forall W l x, lget (lmap W l) x = option_map (rv W) (lget l x).
Proof. induction l as [|[k v] r IH]; intros x; cbn; [reflexivity|]. destruct (String.eqb x k); auto. Qed.
Lemma lset_lmap : forall W l x v, lmap W (lset l x v) = lset (lmap W l) x (rv W v).
Proof. unfold lmap. induction l as [|[k v0] r IH]; intros x v; cbn; [reflexivity|]. destruct (String.eqb x k); cbn; [reflexivity|]. now rewrite IH. Qed.
Lemma gl_lget : forall W l x v, gl W l -> lget l x = Some v -> gv W v.
Proof.
  induction l as [|[k w] r IH]; intros x v H E; cbn in E; [discriminate|]. inversion H; subst.
  destruct (String.eqb x k); [injection E as <-; assumption|eauto].
Qed.
Lemma gl_lset : forall W l x v, gl W l -> gv W v -> gl W (lset l x v).
Proof.
  induction l as [|[k w] r IH]; intros x v H Hv; cbn.
  - constructor; [exact Hv|constructor].
  - inversion H; subst. destruct (String.eqb x k); constructor; auto. apply IH; assumption.
Qed.
Lemma as_int_rv : forall W v, as_int (rv W v) = as_int v.
Proof. intros W [z|o off|]; reflexivity. Qed.
Lemma gv_mono : forall W W' v, ext W W' -> gv W v -> gv W' v /\ rv W' v = rv W v.
Proof.
  intros W W' [z|o off|] X H; cbn; auto. cbn in H. destruct (nm_mono W W' o X H) as [A B]. split; [exact A|now rewrite B].
Qed.
Lemma gl_mono : forall W W' l, ext W W' -> gl W l -> gl W' l /\ lmap W' l = lmap W l.
Proof.
  intros W W' l X H. induction H as [|[k v] r Hv Hr [IH1 IH2]]; [split; [constructor|reflexivity]|].
  cbn [snd] in Hv. destruct (gv_mono W W' v X Hv) as [A B]. split; [constructor; assumption|]. unfold lmap in *. cbn [map fst snd]. rewrite B, IH2. reflexivity.
Qed.
Lemma go_mono : forall W W' o, ext W W' -> go W o -> go W' o /\ ro W' o = ro W o.
Proof.
  intros W W' [| |[v|]] X H; cbn; auto. cbn in H. destruct (gv_mono W W' v X H) as [A B]. split; [exact A|now rewrite B].
Qed.

(* names that are not object names of the first run *)
Lemma nm_not_class : forall W k r, nm W k -> k <> "class:" ++ r.
Proof.
  intros W k r [H|[[r1 ->]|[[n ->]|[(n & x & -> & Hn)|[[Ha H]|[Hb [x ->]]]]]]] E; try (rewrite ?hobj_app in E; discriminate E).
  - subst k. discriminate H.
  - destruct H as [->|H]; [discriminate|]. subst k. cbn in H. intuition discriminate.
Qed.
Lemma nm_not_alloc : forall W k r, nm W k -> k <> "alloc:" ++ r.
Proof.
  intros W k r [H|[[r1 ->]|[[n ->]|[(n & x & -> & Hn)|[[Ha H]|[Hb [x ->]]]]]]] E; try (rewrite ?hobj_app in E; discriminate E).
  - subst k. discriminate H.
  - destruct H as [->|H]; [discriminate|]. subst k. cbn in H. intuition discriminate.
Qed.
Lemma tau_nm_not_alloc : forall W k r, nm W k -> tau W k <> "alloc:" ++ r.
Proof.
  intros W k r H E. apply tau_nm in H.
  destruct H as [[O T]|[(r1 & -> & T)|[(n1 & -> & T)|[(n1 & x1 & -> & I1 & T)|[(a1 & A1 & K1 & T)|(b1 & x1 & B1 & -> & T)]]]]]; rewrite T in E; clear T;
  rewrite ?hobj_app in E; try discriminate E.
  apply ordb_hd in O. destruct O as (c & r0 & -> & Oc & _). apply okc'_cases in Oc. injection E as Ec _. subst c.
  destruct Oc as (X1 & X2 & X3 & X4 & X5 & X6 & X7). discriminate.
Qed.
Lemma tau_nm_below : forall W k n y, wfW W -> nm W k -> (wf W <= n)%nat -> tau W k <> hobj n ++ y.
Proof.
  intros W k n y (Wa & Wb & _) H Hn E. apply tau_nm in H.
  destruct H as [[O T]|[(r1 & -> & T)|[(n1 & -> & T)|[(n1 & x1 & -> & I1 & T)|[(a1 & A1 & K1 & T)|(b1 & x1 & B1 & -> & T)]]]]]; rewrite T in E; clear T.
  - apply ordb_hd in O. destruct O as (c & r0 & -> & Oc & _). apply okc'_cases in Oc. rewrite hobj_app in E. injection E as Ec _. subst c.
    destruct Oc as (X1 & _). discriminate.
  - rewrite hobj_app in E. discriminate.
  - eapply heap_not_hobj; exact E.
  - apply hobj_inj in E. destruct E as [-> _]. destruct I1 as (X & _). lia.
  - apply hobj_inj in E. destruct E as [-> _]. apply Wa in A1. lia.
  - apply hobj_inj in E. destruct E as [-> _]. apply Wb in B1. lia.
Qed.

Section Rel.
Variable cls0 : string.
Variable E : list string.
Hypothesis HE : forall e, In e E -> exists r, e = "sizeof:" ++ r.

Definition vt0 : list (string * string) := [("", cls0); ("buf.", "filebuffer64")].
Definition hashcls : list string := ["sha1hash"; "md5hash"; "sha256hash"].
Definition regcls : list string := hashcls ++ ["filebuffer64"].

Definition pkey_ok (W : world) (k : string) (v : value) : Prop :=
  (nm W k /\ gv W v) \/
  (exists r c, k = "class:" ++ r /\ clsp W r /\ v = VPtr c 0 /\ In c regcls) \/
  (k = "alloc:" ++ cls0 /\ v = VPtr "" 0) \/ (k = "alloc:filebuffer64" /\ v = VPtr "buf." 0).

Record Rel (W : world) (s S : state) : Prop := {
  r_fresh : fresh s = wf W;
  r_freshS : fresh S = wf W;
  r_wf : wfW W;
  r_pre : pre S = tau W (pre s);
  r_preok : preok W (pre s);
  r_loc : loc S = lmap W (loc s);
  r_gl : gl W (loc s);
  r_files : files S = files s;
  r_fk : forall k f, lget (files s) k = Some f -> ordb k = true;
  r_mem : forall k, nm W k -> ~ In k E -> mget (mem S) (tau W k) = mget (mem s) k;
  r_memE : forall e, In e E -> mget (mem s) e = None;
  r_memnm : forall k o, mget (mem s) k = Some o -> nm W k;
  r_belowM : forall n y, (wf W <= n)%nat -> mget (mem S) (hobj n ++ y) = None;
  r_ptrs : forall k, nm W k -> lget (ptrs S) (tau W k) = option_map (rv W) (lget (ptrs s) k);
  r_ptrsc : forall r, clsp W r -> lget (ptrs S) ("class:" ++ tau W r) = lget (ptrs s) ("class:" ++ r);
  r_ptrsnm : forall k v, lget (ptrs s) k = Some v -> pkey_ok W k v;
  r_noalloc : forall c, lget (ptrs S) ("alloc:" ++ c) = None;
  r_belowP : forall n y, (wf W <= n)%nat -> lget (ptrs S) (hobj n ++ y) = None /\ lget (ptrs S) ("class:" ++ hobj n ++ y) = None;
  r_regH : wa W <> None -> lget (ptrs s) "class:" = Some (VPtr cls0 0) /\ mget (mem s) "hashblock" <> None;
  r_regB : wb W <> None -> lget (ptrs s) "class:buf." = Some (VPtr "filebuffer64" 0) /\ mget (mem s) "buf.b" <> None }.

Lemma E_sz : forall W e, In e E -> nm W e /\ tau W e = e.
Proof. intros W e H. destruct (HE e H) as [r ->]. split; [right; left; eauto|reflexivity]. Qed.

(* an object of the first run and its counterpart *)
Lemma rel_mget : forall W s S k ob, Rel W s S -> mget (mem s) k = Some ob -> nm W k /\ mget (mem S) (tau W k) = Some ob.
Proof.
  intros W s S k ob R H. pose proof (r_memnm _ _ _ R k ob H) as Hn. split; [exact Hn|].
  rewrite (r_mem _ _ _ R k Hn); [exact H|]. intro HinE. rewrite (r_memE _ _ _ R k HinE) in H. discriminate.
Qed.

(* ---------------- updates that keep the relation ---------------- *)
Lemma rel_loc : forall W s S l, Rel W s S -> gl W l -> Rel W (with_loc s l) (with_loc S (lmap W l)).
Proof. intros W s S l R Hl. destruct R. constructor; cbn; auto. Qed.

Lemma rel_mset : forall W s S k ob', Rel W s S -> mget (mem s) k <> None ->
  Rel W (with_mem s (mset (mem s) k ob')) (with_mem S (mset (mem S) (tau W k) ob')).
Proof.
  intros W s S k ob' R Hk. destruct (mget (mem s) k) as [ob|] eqn:Ek; [clear Hk|congruence].
  destruct (rel_mget W s S k ob R Ek) as [Hn _]. pose proof (r_wf _ _ _ R) as HW.
  destruct R. constructor; cbn [with_mem mem loc pre files ptrs fresh]; auto.
  - intros k' Hn' HE'. destruct (String.eqb_spec k k') as [<-|Hne].
    + rewrite !mget_mset_same. reflexivity.
    + rewrite !mget_mset_other; [apply r_mem0; assumption|congruence|].
      intro Et. apply Hne. eapply tau_inj_nm; eassumption.
  - intros e He. rewrite mget_mset_other; [apply r_memE0, He|]. intro Ee. subst e. rewrite (r_memE0 k He) in Ek. discriminate.
  - intros k' o' H'. destruct (String.eqb_spec k k') as [<-|Hne]; [exact Hn|]. rewrite mget_mset_other in H' by exact Hne. eapply r_memnm0, H'.
  - intros n y Hny. rewrite mget_mset_other; [apply r_belowM0, Hny|]. apply tau_nm_below; assumption.
  - intro Ha. destruct (r_regH0 Ha) as [A B]. split; [exact A|]. destruct (String.eqb_spec k "hashblock") as [->|Hne].
    + rewrite mget_mset_same. discriminate.
    + rewrite mget_mset_other by exact Hne. exact B.
  - intro Hb. destruct (r_regB0 Hb) as [A B]. split; [exact A|]. destruct (String.eqb_spec k "buf.b") as [->|Hne].
    + rewrite mget_mset_same. discriminate.
    + rewrite mget_mset_other by exact Hne. exact B.
Qed.

(* a new object under a fresh name of the first run that is a name of world W *)
Lemma rel_mset_new : forall W s S k ob', Rel W s S -> nm W k -> ~ In k E ->
  Rel W (with_mem s (mset (mem s) k ob')) (with_mem S (mset (mem S) (tau W k) ob')).
Proof.
  intros W s S k ob' R Hn HnE. pose proof (r_wf _ _ _ R) as HW.
  destruct R. constructor; cbn [with_mem mem loc pre files ptrs fresh]; auto.
  - intros k' Hn' HE'. destruct (String.eqb_spec k k') as [<-|Hne].
    + rewrite !mget_mset_same. reflexivity.
    + rewrite !mget_mset_other; [apply r_mem0; assumption|congruence|].
      intro Et. apply Hne. eapply tau_inj_nm; eassumption.
  - intros e He. rewrite mget_mset_other; [apply r_memE0, He|]. intro Ee. subst e. contradiction.
  - intros k' o' H'. destruct (String.eqb_spec k k') as [<-|Hne]; [exact Hn|]. rewrite mget_mset_other in H' by exact Hne. eapply r_memnm0, H'.
  - intros n y Hny. rewrite mget_mset_other; [apply r_belowM0, Hny|]. apply tau_nm_below; assumption.
  - intro Ha. destruct (r_regH0 Ha) as [A B]. split; [exact A|]. destruct (String.eqb_spec k "hashblock") as [->|Hne].
    + rewrite mget_mset_same. discriminate.
    + rewrite mget_mset_other by exact Hne. exact B.
  - intro Hb. destruct (r_regB0 Hb) as [A B]. split; [exact A|]. destruct (String.eqb_spec k "buf.b") as [->|Hne].
    + rewrite mget_mset_same. discriminate.
    + rewrite mget_mset_other by exact Hne. exact B.
Qed.

Lemma rel_files : forall W s S k f f', Rel W s S -> lget (files s) k = Some f ->
  Rel W (with_files s (lset (files s) k f')) (with_files S (lset (files S) k f')).
Proof.
  intros W s S k f f' R Hk. destruct R. constructor; cbn [with_files mem loc pre files ptrs fresh]; auto.
  - now rewrite r_files0.
  - intros k' f0 H'. destruct (String.eqb_spec k' k) as [->|Hne]; [eapply r_fk0, Hk|]. rewrite lget_lset_other in H' by congruence. eapply r_fk0, H'.
Qed.

Lemma rel_lset_ptrs : forall W s S k v, Rel W s S -> nm W k -> gv W v ->
  Rel W (with_ptrs s (lset (ptrs s) k v)) (with_ptrs S (lset (ptrs S) (tau W k) (rv W v))).
Proof.
  intros W s S k v R Hn Hv. pose proof (r_wf _ _ _ R) as HW.
  destruct R. constructor; cbn [with_ptrs mem loc pre files ptrs fresh]; auto.
  - intros k' Hn'. destruct (String.eqb_spec k k') as [<-|Hne].
    + rewrite !lget_lset_same. reflexivity.
    + rewrite !lget_lset_other; [apply r_ptrs0; assumption|congruence|]. intro Et. apply Hne. eapply tau_inj_nm; eassumption.
  - intros r C. rewrite !lget_lset_other; [apply r_ptrsc0, C| |].
    + apply (nm_not_class W k r Hn).
    + rewrite <- (t1_clsp W r C). apply tau_nm_not_class, Hn.
  - intros k' v' H'. destruct (String.eqb_spec k' k) as [->|Hne].
    + rewrite lget_lset_same in H'. injection H' as <-. left. auto.
    + rewrite lget_lset_other in H' by congruence. eapply r_ptrsnm0, H'.
  - intros c. rewrite lget_lset_other; [apply r_noalloc0|]. apply tau_nm_not_alloc, Hn.
  - intros n y Hny. destruct (r_belowP0 n y Hny) as [A B]. split.
    + rewrite lget_lset_other; [exact A|]. apply tau_nm_below; assumption.
    + rewrite lget_lset_other; [exact B|]. apply tau_nm_not_class, Hn.
  - intro Ha. destruct (r_regH0 Ha) as [A B]. split; [|exact B]. rewrite lget_lset_other; [exact A|]. apply (nm_not_class W k "" Hn).
  - intro Hb. destruct (r_regB0 Hb) as [A B]. split; [|exact B]. rewrite lget_lset_other; [exact A|]. apply (nm_not_class W k "buf." Hn).
Qed.

(* the heap counter advances: every name stays a name *)
Lemma rel_Wn : forall W s S, Rel W s S ->
  Rel (Wn W) {| mem := mem s; loc := loc s; pre := pre s; files := files s; ptrs := ptrs s; fresh := Datatypes.S (fresh s) |}
             {| mem := mem S; loc := loc S; pre := pre S; files := files S; ptrs := ptrs S; fresh := Datatypes.S (fresh S) |}.
Proof.
  intros W s S R. pose proof (ext_Wn W) as X. pose proof (r_wf _ _ _ R) as HW.
  assert (NM : forall k, nm (Wn W) k -> nm W k \/ exists y, k = hobj (wf W) ++ y).
  { intros k [H|[[r ->]|[[n ->]|[(n & x & -> & (Hn & Ha & Hb))|[[Ha H]|[Hb H]]]]]].
    - left. left. exact H.
    - left. right. left. eauto.
    - left. right. right. left. eauto.
    - cbn in Hn, Ha, Hb. destruct (Nat.eq_dec n (wf W)) as [->|Hne]; [right; eauto|].
      left. right. right. right. left. exists n, x. split; [reflexivity|]. repeat split; [lia|exact Ha|exact Hb].
    - left. right. right. right. right. left. auto.
    - left. right. right. right. right. right. auto. }
  destruct R. constructor; cbn [mem loc pre files ptrs fresh Wn wf wa wb].
  - now rewrite r_fresh0.
  - now rewrite r_freshS0.
  - apply wf_Wn, HW.
  - rewrite r_pre0. symmetry. apply (nm_mono W (Wn W) _ X). apply preok_nm, r_preok0.
  - eapply preok_mono; eassumption.
  - rewrite r_loc0. symmetry. apply (gl_mono W (Wn W) _ X r_gl0).
  - apply (gl_mono W (Wn W) _ X r_gl0).
  - exact r_files0.
  - exact r_fk0.
  - intros k Hn HnE. destruct (NM k Hn) as [Hk|[y ->]].
    + rewrite (proj2 (nm_mono W (Wn W) k X Hk)). apply r_mem0; assumption.
    + rewrite tau_hobj. rewrite r_belowM0 by lia.
      destruct (mget (mem s) (hobj (wf W) ++ y)) as [o|] eqn:Eo; [|reflexivity].
      apply r_memnm0 in Eo. exfalso.
      destruct Eo as [H|[[r Er]|[[n En]|[(n & x & En & (Hn1 & _))|[[_ H]|[_ [x Ex]]]]]]].
      * rewrite hobj_app in H. discriminate.
      * rewrite hobj_app in Er. discriminate.
      * symmetry in En. eapply heap_not_hobj, En.
      * apply hobj_inj in En. destruct En as [<- _]. lia.
      * destruct H as [H|H]; [rewrite hobj_app in H; discriminate|]. rewrite hobj_app in H. cbn in H. intuition discriminate.
      * rewrite hobj_app in Ex. discriminate.
  - exact r_memE0.
  - intros k o H. apply (nm_mono W (Wn W) k X). eapply r_memnm0, H.
  - intros n y Hny. apply r_belowM0. lia.
  - intros k Hn. destruct (NM k Hn) as [Hk|[y ->]].
    + rewrite (proj2 (nm_mono W (Wn W) k X Hk)). rewrite r_ptrs0 by exact Hk.
      destruct (lget (ptrs s) k) as [v|] eqn:Ev; [|reflexivity]. cbn [option_map]. apply f_equal. symmetry.
      destruct (r_ptrsnm0 k v Ev) as [[_ G]|[(r & c & -> & _)|[[-> _]|[-> _]]]].
      * apply (gv_mono W (Wn W) v X G).
      * exfalso. eapply nm_not_class; [exact Hk|reflexivity].
      * exfalso. eapply nm_not_alloc; [exact Hk|reflexivity].
      * exfalso. eapply (nm_not_alloc W _ "filebuffer64"); [exact Hk|reflexivity].
    + rewrite tau_hobj. rewrite (proj1 (r_belowP0 (wf W) y (le_n _))).
      destruct (lget (ptrs s) (hobj (wf W) ++ y)) as [v|] eqn:Ev; [|reflexivity]. exfalso.
      destruct (r_ptrsnm0 _ v Ev) as [[G _]|[(r & c & Ek & _)|[[Ek _]|[Ek _]]]]; try (rewrite hobj_app in Ek; discriminate Ek).
      destruct G as [H|[[r Er]|[[n En]|[(n & x & En & (Hn1 & _))|[[_ H]|[_ [x Ex]]]]]]].
      * rewrite hobj_app in H. discriminate.
      * rewrite hobj_app in Er. discriminate.
      * symmetry in En. eapply heap_not_hobj, En.
      * apply hobj_inj in En. destruct En as [<- _]. lia.
      * destruct H as [H|H]; [rewrite hobj_app in H; discriminate|]. rewrite hobj_app in H. cbn in H. intuition discriminate.
      * rewrite hobj_app in Ex. discriminate.
  - intros r C. assert (C' : clsp W r \/ r = hobj (wf W)).
    { destruct C as [[H ->]|[[H ->]|(n & -> & (Hn & Ha & Hb))]].
      - left. left. auto.
      - left. right. left. auto.
      - cbn in Hn, Ha, Hb. destruct (Nat.eq_dec n (wf W)) as [->|Hne]; [right; reflexivity|].
        left. right. right. exists n. split; [reflexivity|]. repeat split; [lia|exact Ha|exact Hb]. }
    destruct C' as [C'| ->].
    + rewrite (proj2 (nm_mono W (Wn W) r X (clsp_nm W r C'))). apply r_ptrsc0, C'.
    + rewrite <- (append_nil_r (hobj (wf W))) at 1. rewrite tau_hobj, append_nil_r.
      rewrite <- (append_nil_r (hobj (wf W))) at 1. rewrite (proj2 (r_belowP0 (wf W) "" (le_n _))).
      destruct (lget (ptrs s) ("class:" ++ hobj (wf W))) as [v|] eqn:Ev; [|reflexivity]. exfalso.
      destruct (r_ptrsnm0 _ v Ev) as [[G _]|[(r & c & Ek & C' & _)|[[Ek _]|[Ek _]]]]; try discriminate Ek.
      * eapply nm_not_class; [exact G|reflexivity].
      * apply append_inj_l in Ek. subst r. destruct C' as [[_ Er]|[[_ Er]|(n & En & (Hn1 & _))]].
        -- unfold hobj, heap_name in Er. discriminate.
        -- unfold hobj, heap_name in Er. discriminate.
        -- rewrite <- (append_nil_r (hobj (wf W))), <- (append_nil_r (hobj n)) in En. apply hobj_inj in En. destruct En as [<- _]. lia.
  - intros k v H. destruct (r_ptrsnm0 k v H) as [[G1 G2]|[(r & c & -> & C & Hc)|[A|A]]].
    + left. split; [apply (nm_mono W (Wn W) k X G1)|apply (gv_mono W (Wn W) v X G2)].
    + right. left. exists r, c. split; [reflexivity|]. split; [eapply clsp_mono; eassumption|exact Hc].
    + right. right. left. exact A.
    + right. right. right. exact A.
  - exact r_noalloc0.
  - intros n y Hny. apply r_belowP0. lia.
  - exact r_regH0.
  - exact r_regB0.
Qed.
End Rel.
