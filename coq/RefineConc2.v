(* The converse direction of SRC_protocol_follows_PipeConc and the transfer of C03 / C04 to the executions of the MACHINE.

   cstep refuses (UB) a schedule entry exactly when PipeConc.step is None -- a thread that is blocked, asleep, joined on a
   running worker, finished, an id out of range, a spurious wake-up of a thread that is not asleep -- with ONE exception: in the
   state of PipeConc's I_Done (all workers joined) the translated op_pipe has not returned yet: the main thread is stopped at the lock of
   buffergroup::del_instance and takes one more step (lock mtx; delete instance; instance = NULL; unlock; thread exit, event 14);
   after it every entry is refused.  So a schedule the machine runs is a schedule of PipeConc, possibly followed by that one step
   of thread 0 ([crun_follows], [SRC_protocol_machine_runs_characterised]); the statement of Properties_SrcConc2 holds for the runs
   whose main thread has not returned ([SRC_protocol_machine_is_followed_by_PipeConc_proof], hypothesis thread_done cs 0 = false). *)
From Coq Require Import ZArith NArith List String Bool Lia Arith.
From Wencry Require Import Bytes FileModel ModesProofs PipeConc PipeProps PipeLemmas PipeInv PipeProofs MiniC MiniCLemmas MiniCConc SrcRun SrcRun4.
From Wencry Require Import RefineConcPipe RefineConcDone RefineConcInit.
From Wencry Require Import RefineConcSim RefineConcMem RefineConcMach RefineConcTac RefineConcStepW RefineConcStepI5
  RefineConcRel RefineConcRelW RefineConcRelI RefineConcRelIO RefineConc RefineConc2Mach RefineConc2Pipe.
Import ListNotations.
Local Open Scope list_scope.

(* ---- all_done on canonical states ---- *)
Lemma worker_done_iff : forall i w wl, match ct_st (worker_thread i w wl) with TDone => true | _ => false end =
                                        match w with W_Done => true | _ => false end.
Proof. intros i w wl. destruct w; reflexivity. Qed.

Lemma all_done_cst : forall c T pad input0 p ws d g,
  all_done (cstate_md c T pad input0 p ws d g) = true <-> (forall i, (i < T)%nat -> nth i ws W_Done = W_Done).
Proof.
  intros c T pad input0 p ws d g. unfold all_done. cbn [cstate_md cs_thr threads_of skipn]. rewrite forallb_forall. split.
  - intros H i Hi. specialize (H (worker_thread i (nth i ws W_Done) (nth i (g_wl g) []))).
    rewrite worker_done_iff in H.
    assert (X : match nth i ws W_Done with W_Done => true | _ => false end = true)
      by (apply H; apply in_map_iff; exists i; split; [reflexivity|apply in_seq; lia]).
    destruct (nth i ws W_Done); try discriminate X; reflexivity.
  - intros H t Ht. apply in_map_iff in Ht. destruct Ht as (i & <- & Hi). apply in_seq in Hi.
    rewrite worker_done_iff. rewrite H by lia. reflexivity.
Qed.

Lemma ipc_done_dec : forall p : ipc, p = I_Done \/ p <> I_Done.
Proof. intros p. destruct p; try (right; discriminate). left. reflexivity. Qed.

Section Main.
Variables (c T : nat) (pad : bool) (input0 : list N).
Hypothesis Hc : (1 <= c)%nat.
Hypothesis Hc32 : (16 * Z.of_nat c < 2 ^ 32)%Z.
Hypothesis HT : (1 <= T <= 16)%nat.
Hypothesis Hbytes : bytesb input0 = true.
Hypothesis Hlen36 : (N.of_nat (List.length input0) < 2 ^ 36)%N.

Notation sim := (sim c T pad input0).
Notation step := (pstep c pad).
Notation cst := (cstate_md c T pad input0).
Notation inv_done := (inv_done St).
Notation F := (5000 + 400 * c)%nat.
Notation csfin := (cs_fin c T pad input0).

(* ---- per-thread agreement of enabledness (real threads) ---- *)
Lemma enabled_sim : forall s cs tid, sim s cs -> io _ s <> I_Done -> (tid <= T)%nat ->
  MiniCConc.enabled cs tid = PipeConc.enabled St tag_tr tag_event c pad s tid.
Proof.
  intros s cs tid (d & g & -> & Hdr & Htg & Hre) Hnd Hin.
  pose proof Hdr as (Lb & Lw & Lx & _).
  unfold MiniCConc.enabled, nth_thread, PipeConc.enabled, step_real. cbn [cstate_md cs_thr cs_mx cs_sh].
  destruct tid as [|i].
  - rewrite nth_thread_io. unfold step_io. cbv zeta.
    destruct (io _ s) eqn:Eio; cbn [io_thread mk2 RefineConcSim.mk ct_st].
    + destruct (i_wait St s false). destruct (first_is_lock _ _); reflexivity.
    + reflexivity.
    + destruct (i_wait St s true). reflexivity.
    + destruct (b_st _); destruct (first_is_lock _ _); reflexivity.
    + destruct (first_is_lock _ _); reflexivity.
    + destruct (over _ s); [destruct (first_is_lock _ _); reflexivity|]. destruct (input _ s); destruct (first_is_lock _ _); reflexivity.
    + destruct (first_is_lock _ _); reflexivity.
    + destruct (live _ s =? 0)%nat; destruct (first_is_lock _ _); reflexivity.
    + pose proof (reach_join c T pad input0 Hc HT Hbytes s k Hre Eio) as Hk.
      unfold thread_done, nth_thread. cbn [cs_thr cstate_md]. rewrite nth_thread_worker by exact Hk. unfold getw. destruct (nth k (wpcs _ s) W_Done); reflexivity.
    + congruence.
  - assert (Hi : (i < T)%nat) by lia. rewrite nth_thread_worker by exact Hi. unfold nT. rewrite Lb.
    replace (i <? T)%nat with true by (symmetry; apply Nat.ltb_lt; exact Hi).
    unfold step_worker. fold (getw _ s i).
    assert (Hx : nth_error (wsts _ s) i = Some (nth i (wsts _ s) (0%N, 0%N))) by (apply nth_error_some_nth; lia).
    destruct (getw _ s i) eqn:Ew; cbn [worker_thread mk2 RefineConcSim.mk ct_st].
    + destruct (first_is_lock _ _); reflexivity.
    + destruct (w_wait St s i true false). destruct (first_is_lock _ _); reflexivity.
    + rewrite Hx. destruct (take_entry _ _ _ _ _ _) as [[[? ?] ?]|]; destruct (first_is_lock _ _); reflexivity.
    + destruct (first_is_lock _ _); reflexivity.
    + destruct (w_wait St s i false false). destruct (first_is_lock _ _); reflexivity.
    + reflexivity.
    + destruct (w_wait St s i from_start true). reflexivity.
    + rewrite Hx. destruct (b_st _); try (destruct (first_is_lock _ _); reflexivity).
      destruct (take_entry _ _ _ _ _ _) as [[[? ?] ?]|]; destruct (first_is_lock _ _); reflexivity.
    + reflexivity.
Qed.

(* ---- what PipeConc refuses the machine refuses, except the last step of the main thread ---- *)
Lemma sim_refuse : forall s cs tid, sim s cs -> inv_done s -> step s tid = None ->
  (io _ s = I_Done /\ tid = 0%nat) \/ exists w, cstep prog vt F cs tid = UB w.
Proof.
  intros s cs tid Hsim Hinv Hst.
  pose proof Hsim as (d & g & Ecs & Hdr & Htg & Hre).
  pose proof Hdr as (Lb & Lw & Lx & _).
  assert (Lthr : List.length (cs_thr cs) = S T) by (rewrite Ecs; cbn [cstate_md cs_thr]; apply threads_length).
  unfold PipeConc.step, nT in Hst. rewrite Lb in Hst.
  destruct (Nat.leb_spec tid T) as [Le|Gt].
  - (* a real thread *)
    destruct (ipc_done_dec (io _ s)) as [Eio|Nio].
    + destruct tid as [|i]; [left; split; [exact Eio|reflexivity]|]. right. exists "thread not enabled"%string.
      apply cstep_not_enabled; [lia|]. subst cs. unfold MiniCConc.enabled, nth_thread. cbn [cstate_md cs_thr].
      rewrite nth_thread_worker by lia. unfold RefineConcDone.inv_done in Hinv. rewrite Eio in Hinv.
      specialize (Hinv i ltac:(lia)). unfold getw in Hinv. rewrite Hinv. reflexivity.
    + right. exists "thread not enabled"%string. apply cstep_not_enabled; [lia|].
      rewrite (enabled_sim s cs tid Hsim Nio Le). unfold PipeConc.enabled. rewrite Hst. reflexivity.
  - (* a spurious wake-up *)
    right. apply cstep_spurious_refused; [lia|]. rewrite Lthr. replace (tid - S T)%nat with (tid - T - 1)%nat by lia.
    unfold spurious in Hst. subst cs. unfold nth_thread. cbn [cstate_md cs_thr].
    destruct (tid - T - 1)%nat as [|i].
    + rewrite nth_thread_io. destruct (io _ s); try discriminate Hst; exact I.
    + unfold nT in Hst. rewrite Lb in Hst. destruct (Nat.ltb_spec i T) as [Hi|Hi].
      * rewrite nth_thread_worker by exact Hi. unfold getw in Hst. destruct (nth i (wpcs _ s) W_Done); try discriminate Hst; exact I.
      * unfold threads_of. cbn [nth_error].
        destruct (nth_error (map (fun i0 => worker_thread i0 (nth i0 (wpcs _ s) W_Done) (nth i0 (g_wl g) [])) (seq 0 T)) i) eqn:En; [|exact I].
        exfalso. assert (L : (i < List.length (map (fun i0 => worker_thread i0 (nth i0 (wpcs _ s) W_Done) (nth i0 (g_wl g) [])) (seq 0 T)))%nat)
          by (apply nth_error_Some; congruence).
        rewrite map_length, seq_length in L. lia.
Qed.

(* ---- the runs of the machine ---- *)
(* the machine, started in cs related to s, ran sched and ended in cs' with log': either PipeConc runs sched too, or all of it but the
   final step of the main thread *)
Definition Follows (s : pstate) (sched : list nat) (cs' : cstate) (log' : list (nat * nat * list MiniCConc.event)) : Prop :=
  (exists s' log, run_events St tag_tr tag_event c pad s sched = Some (s', log) /\ norm_log log' = log /\ sim s' cs' /\ inv_done s') \/
  (exists sched0 s' log log0 ne d g,
     sched = sched0 ++ [0%nat] /\ run_events St tag_tr tag_event c pad s sched0 = Some (s', log) /\
     log' = log0 ++ [(0%nat, ne, [(14, 0, 0)]%Z)] /\ norm_log log0 = log /\
     io _ s' = I_Done /\ inv_done s' /\ sim s' (cst I_Done (wpcs _ s') d g) /\ cs' = csfin (wpcs _ s') d g).

Lemma crun_follows : forall sched s cs cs' log', sim s cs -> inv_done s ->
  crun prog vt F cs sched = Ok (cs', log') -> Follows s sched cs' log'.
Proof.
  induction sched as [|tid sched IH]; intros s cs cs' log' Hsim Hinv Hrun.
  - cbn [crun] in Hrun. injection Hrun as <- <-. left. exists s, []. repeat split; try assumption; reflexivity.
  - cbn [crun] in Hrun. destruct (cstep prog vt F cs tid) as [[cs1 evs1]| |] eqn:Ecs; try discriminate Hrun. cbn [bind] in Hrun.
    destruct (crun prog vt F cs1 sched) as [[cs2 l2]| |] eqn:Er; try discriminate Hrun. cbn [bind] in Hrun. injection Hrun as <- <-.
    assert (Hsh : List.length (wpcs _ s) = T /\ List.length (bufs _ s) = T /\ List.length (wsts _ s) = T).
    { destruct Hsim as (d & g & _ & (L1 & L2 & L3 & _) & _). auto. }
    destruct Hsh as (Lw & Lb & Lx).
    destruct (step s tid) as [[s1 evs]|] eqn:Est.
    + (* PipeConc takes the step: the machine's step is the related one *)
      destruct (sim_step c T pad input0 Hc Hc32 HT Hbytes Hlen36 s cs tid s1 evs Hsim Est) as (n & cs1' & evs1' & Hn & Hcs & Hev & Hsim1).
      rewrite (cstep_mono n cs tid _ Hcs) in Ecs by lia. injection Ecs as <- <-.
      assert (Hinv1 : inv_done s1) by (eapply (inv_done_step St tag_tr tag_event c pad (0%N, 0%N)); [| |exact Hinv|exact Est]; lia).
      pose proof (enabled_agree c T pad input0 Hc HT Hbytes Hlen36 s cs Hsim (step_not_done c T pad input0 Hc HT Hlen36 s tid s1 evs Hinv Lw Lb Est)) as Hen.
      destruct (IH s1 cs1' cs2 l2 Hsim1 Hinv1 Er) as [(s2 & log & Hr & Hl & Hsim2 & Hinv2)|(sched0 & s2 & log & log0 & ne & d & g & Es & Hr & El & Hl & Eio & Hinv2 & Hsim2 & Ecs2)].
      * left. exists s2, ((tid, PipeConc.enabled_count St tag_tr tag_event c pad s, evs) :: log).
        split; [cbn [run_events]; rewrite Est, Hr; reflexivity|]. split; [|split; assumption].
        cbn [norm_log map]. fold (nev evs1'). rewrite Hev. fold (norm_log l2). rewrite Hl, Hen. reflexivity.
      * right. exists (tid :: sched0), s2, ((tid, PipeConc.enabled_count St tag_tr tag_event c pad s, evs) :: log),
          ((tid, MiniCConc.enabled_count cs, evs1') :: log0), ne, d, g.
        split; [rewrite Es; reflexivity|]. split; [cbn [run_events]; rewrite Est, Hr; reflexivity|].
        split; [rewrite El; reflexivity|]. split; [|repeat split; assumption].
        cbn [norm_log map]. fold (nev evs1'). rewrite Hev. fold (norm_log log0). rewrite Hl, Hen. reflexivity.
    + (* PipeConc refuses *)
      destruct (sim_refuse s cs tid Hsim Hinv Est) as [[Eio ->]|[w Hw]]; [|rewrite Hw in Ecs; discriminate Ecs].
      destruct Hsim as (d & g & -> & Hdr & Htg & Hre).
      assert (Hall : forall i, (i < T)%nat -> nth i (wpcs _ s) W_Done = W_Done).
      { intros i Hi. unfold RefineConcDone.inv_done in Hinv. rewrite Eio in Hinv. apply (Hinv i). lia. }
      rewrite Eio in Ecs |- *. destruct (M_io_done c T pad input0 (wpcs _ s) d g) as (n & Hn & Hfin).
      rewrite (cstep_mono n _ 0%nat _ Hfin) in Ecs by lia. injection Ecs as <- <-.
      destruct sched as [|t2 sched].
      * cbn [crun] in Er. injection Er as <- <-. right.
        exists [], s, [], [], (MiniCConc.enabled_count (cst I_Done (wpcs _ s) d g)), d, g.
        split; [reflexivity|]. split; [reflexivity|]. split; [reflexivity|]. split; [reflexivity|]. split; [exact Eio|]. split; [exact Hinv|].
        split; [|reflexivity]. exists d, g. rewrite Eio. split; [reflexivity|]. split; [exact Hdr|]. split; [exact Htg|exact Hre].
      * exfalso. cbn [crun] in Er. destruct (cs_fin_refuses c T pad input0 F (wpcs _ s) d g t2 Hall) as (w & Hw). rewrite Hw in Er. discriminate Er.
Qed.

Lemma conc_src_run_eq : forall sched, conc_src_run c T pad input0 sched =
  match crun prog vt F (cst I_WaitUpdate (repeat W_New T) (d_init c T) (g_init T)) sched with
  | Ok r => SOk r
  | UB w => SErr ("UB: " ++ w)%string
  | NoFuel => SErr "out of fuel"
  end.
Proof. intros sched. unfold conc_src_run. rewrite (init_state c T pad input0 HT). reflexivity. Qed.

Lemma follows_init : forall sched cs log', conc_src_run c T pad input0 sched = SOk (cs, log') ->
  Follows (init St T (tag_init T) (loads_of c pad input0)) sched cs log'.
Proof.
  intros sched cs log' H. rewrite conc_src_run_eq in H.
  destruct (crun prog vt F (cst I_WaitUpdate (repeat W_New T) (d_init c T) (g_init T)) sched) as [[cs1 l1]| |] eqn:Er; try discriminate H.
  injection H as <- <-.
  eapply crun_follows; [apply (sim_init c T pad input0 Hc HT Hbytes Hlen36)| |exact Er].
  unfold RefineConcDone.inv_done, init. cbn [io]. exact I.
Qed.

(* ---- what a related state says about the machine state ---- *)
Lemma sim_output : forall s cs, sim s cs -> conc_output cs = concat (output _ s).
Proof.
  intros s cs (d & g & -> & Hdr & _).
  pose proof Hdr as (Lb & Lw & Lx & Ldb & Ldn & Htu & HtT & Hov & Hlv & HlT & Hcr' & Hout & _).
  unfold conc_output. cbn [cstate_md cs_sh sh_of files files_of lget String.eqb Ascii.eqb Bool.eqb cf_data].
  rewrite Hout. rewrite map_map. rewrite <- (map_id (concat (output _ s))) at 2. apply map_ext. intros a. apply N2Z.id.
Qed.

Lemma sim_all_done : forall s cs, sim s cs -> (all_done cs = true <-> forall i, (i < T)%nat -> getw _ s i = W_Done).
Proof. intros s cs (d & g & -> & _). apply all_done_cst. Qed.

Notation ref_out := (concat (ok_bytes (snd (seq_chunks St tag_tr c pad T (tag_init T) 0 (loads_of c pad input0))))).

Lemma sim_done_output : forall s cs, sim s cs -> all_done cs = true -> conc_output cs = ref_out.
Proof.
  intros s cs Hsim Hd. rewrite (sim_output s cs Hsim). f_equal.
  pose proof Hsim as (d & g & _ & _ & _ & Hre).
  apply (reach_all_done_output c T pad input0 Hc (proj1 HT) Hbytes s Hre). apply (sim_all_done s cs Hsim). exact Hd.
Qed.

Lemma sim_never_stuck : forall s cs, sim s cs ->
  all_done cs = true \/ exists tid cs' evs, (tid <= T)%nat /\ cstep prog vt F cs tid = Ok (cs', evs).
Proof.
  intros s cs Hsim. pose proof Hsim as (d & g & Ecs & Hdr & _ & Hre). pose proof Hdr as (Lb & Lw & Lx & _).
  destruct (terminal St s) eqn:Et.
  - left. apply (sim_all_done s cs Hsim). intros i Hi. unfold terminal in Et. destruct (io _ s); try discriminate Et.
    assert (Hin : In (nth i (wpcs _ s) W_Done) (wpcs _ s)) by (apply nth_In; lia).
    pose proof (proj1 (forallb_forall _ _) Et _ Hin) as Q. unfold getw. destruct (nth i (wpcs _ s) W_Done); try discriminate Q; reflexivity.
  - right.
    destruct (C04_deadlock_free_proof St tag_tr tag_event c pad T (tag_init T) (loads_of c pad input0) s (proj1 HT) (tag_init_length T)
                (wf_loads_of c pad input0 Hc Hbytes) Hre Et) as (tid & Hen).
    unfold PipeConc.enabled in Hen. destruct (step_real St tag_tr tag_event c pad s tid) as [[s1 evs]|] eqn:Es; [|discriminate Hen].
    assert (Hle : (tid <= T)%nat).
    { destruct tid as [|i]; [lia|]. unfold step_real, nT in Es. rewrite Lb in Es. destruct (Nat.ltb_spec i T); [lia|discriminate Es]. }
    assert (Hst : step s tid = Some (s1, evs)).
    { unfold PipeConc.step, nT. rewrite Lb. replace (tid <=? T)%nat with true by (symmetry; apply Nat.leb_le; exact Hle). exact Es. }
    destruct (sim_step c T pad input0 Hc Hc32 HT Hbytes Hlen36 s cs tid s1 evs Hsim Hst) as (n & cs1 & evs1 & Hn & Hcs & _).
    exists tid, cs1, evs1. split; [exact Hle|]. apply (cstep_mono n cs tid _ Hcs). lia.
Qed.
End Main.

(* ================= the theorems ================= *)
(* every schedule the machine runs is a schedule of PipeConc with the same observation, possibly followed by ONE step of the main
   thread (thread 0) taken after PipeConc has reached its terminal state: the return from op_pipe through buffergroup::del_instance *)
Lemma SRC_protocol_machine_runs_characterised_proof : forall c T (ispadding : bool) input sched cs log',
  (1 <= c)%nat -> (N.of_nat (16 * c) < 2 ^ 32)%N -> (1 <= T <= 16)%nat -> bytesb input = true ->
  (N.of_nat (List.length input) < 2 ^ 36)%N ->
  conc_src_run c T ispadding input sched = SOk (cs, log') ->
  (exists s log, tag_run c T ispadding input sched = Some (s, log) /\ norm_log log' = log /\ thread_done cs 0 = false) \/
  (exists sched0 s log log0 ne,
     sched = sched0 ++ [0%nat] /\ tag_run c T ispadding input sched0 = Some (s, log) /\ terminal (N * N) s = true /\
     log' = log0 ++ [(0%nat, ne, [(14, 0, 0)]%Z)] /\ norm_log log0 = log /\ thread_done cs 0 = true).
Proof.
  intros c T pad input sched cs log' Hc Hc32N HT Hb Hl Hrun.
  assert (Hc32 : (16 * Z.of_nat c < 2 ^ 32)%Z) by lia.
  destruct (follows_init c T pad input Hc Hc32 HT Hb Hl sched cs log' Hrun)
    as [(s & log & Hr & Hlog & Hsim & Hinv)|(sched0 & s & log & log0 & ne & d & g & Es & Hr & El & Hlog & Eio & Hinv & Hsim & Ecs)].
  - left. exists s, log. split; [exact Hr|]. split; [exact Hlog|].
    destruct Hsim as (d & g & -> & _). apply cst_main_not_done.
  - right. exists sched0, s, log, log0, ne. split; [exact Es|]. split; [exact Hr|]. split; [|split; [exact El|split; [exact Hlog|]]].
    + destruct Hsim as (d' & g' & _ & (Lb & Lw & _) & _).
      apply (post_fin_all_done_terminal T s Lw); [|exact Eio].
      intros i Hi. unfold RefineConcDone.inv_done in Hinv. rewrite Eio in Hinv. apply Hinv. lia.
    + rewrite Ecs. apply cs_fin_main_done.
Qed.

(* the statement of Properties_SrcConc2 as first written holds for the runs whose main thread has not returned *)
Lemma SRC_protocol_machine_is_followed_by_PipeConc_proof : forall c T (ispadding : bool) input sched cs log',
  (1 <= c)%nat -> (N.of_nat (16 * c) < 2 ^ 32)%N -> (1 <= T <= 16)%nat -> bytesb input = true ->
  (N.of_nat (List.length input) < 2 ^ 36)%N ->
  conc_src_run c T ispadding input sched = SOk (cs, log') -> thread_done cs 0 = false ->
  exists s log, tag_run c T ispadding input sched = Some (s, log) /\ norm_log log' = log.
Proof.
  intros c T pad input sched cs log' Hc Hc32N HT Hb Hl Hrun Hmain.
  destruct (SRC_protocol_machine_runs_characterised_proof c T pad input sched cs log' Hc Hc32N HT Hb Hl Hrun)
    as [(s & log & Hr & Hlog & _)|(sched0 & s & log & log0 & ne & _ & _ & _ & _ & _ & Hd)].
  - exists s, log. split; assumption.
  - rewrite Hd in Hmain. discriminate Hmain.
Qed.

Lemma SRC_protocol_output_is_schedule_independent_proof : forall c T (ispadding : bool) input sched cs log',
  (1 <= c)%nat -> (N.of_nat (16 * c) < 2 ^ 32)%N -> (1 <= T <= 16)%nat -> bytesb input = true ->
  (N.of_nat (List.length input) < 2 ^ 36)%N ->
  conc_src_run c T ispadding input sched = SOk (cs, log') -> all_done cs = true ->
  conc_output cs = concat (ok_bytes (snd (seq_chunks (N * N) tag_tr c ispadding T (tag_init T) 0 (loads_of c ispadding input)))).
Proof.
  intros c T pad input sched cs log' Hc Hc32N HT Hb Hl Hrun Hdone.
  assert (Hc32 : (16 * Z.of_nat c < 2 ^ 32)%Z) by lia.
  destruct (follows_init c T pad input Hc Hc32 HT Hb Hl sched cs log' Hrun)
    as [(s & log & Hr & Hlog & Hsim & Hinv)|(sched0 & s & log & log0 & ne & d & g & Es & Hr & El & Hlog & Eio & Hinv & Hsim & Ecs)].
  - apply (sim_done_output c T pad input Hc HT Hb s cs Hsim Hdone).
  - subst cs. rewrite (cs_fin_output c T pad input I_Done). rewrite (cs_fin_all_done c T pad input I_Done) in Hdone.
    apply (sim_done_output c T pad input Hc HT Hb s _ Hsim Hdone).
Qed.

Lemma SRC_protocol_never_stuck_proof : forall c T (ispadding : bool) input sched cs log',
  (1 <= c)%nat -> (N.of_nat (16 * c) < 2 ^ 32)%N -> (1 <= T <= 16)%nat -> bytesb input = true ->
  (N.of_nat (List.length input) < 2 ^ 36)%N ->
  conc_src_run c T ispadding input sched = SOk (cs, log') ->
  all_done cs = true \/
  exists tid cs' evs, (tid <= T)%nat /\ cstep conc_prog [] (5000 + 400 * c) cs tid = MiniC.Ok (cs', evs).
Proof.
  intros c T pad input sched cs log' Hc Hc32N HT Hb Hl Hrun.
  assert (Hc32 : (16 * Z.of_nat c < 2 ^ 32)%Z) by lia.
  destruct (follows_init c T pad input Hc Hc32 HT Hb Hl sched cs log' Hrun)
    as [(s & log & Hr & Hlog & Hsim & Hinv)|(sched0 & s & log & log0 & ne & d & g & Es & Hr & El & Hlog & Eio & Hinv & Hsim & Ecs)].
  - apply (sim_never_stuck c T pad input Hc Hc32 HT Hb Hl s cs Hsim).
  - left. subst cs. rewrite (cs_fin_all_done c T pad input I_Done).
    apply (proj2 (sim_all_done c T pad input s _ Hsim)). intros i Hi.
    unfold RefineConcDone.inv_done in Hinv. rewrite Eio in Hinv. apply Hinv.
    destruct Hsim as (d' & g' & _ & (Lb & Lw & _) & _). lia.
Qed.

(* ================= examples ================= *)
Definition ex2_inp : list N := ex_bytes 40.
Definition ex2_sched : list nat := mksched 1 2 true ex2_inp 7%N.   (* a complete schedule, spurious wake-ups included *)

(* non-vacuity: a complete run (all workers done, the main thread before del_instance), and the same followed by the last step of thread 0 *)
Example SRC_protocol2_nonvacuous :
  (1 <= 1)%nat /\ (N.of_nat (16 * 1) < 2 ^ 32)%N /\ (1 <= 2 <= 16)%nat /\ bytesb ex2_inp = true /\ (N.of_nat (List.length ex2_inp) < 2 ^ 36)%N /\
  match conc_src_run 1 2 true ex2_inp ex2_sched with
  | SOk (cs, log') => all_done cs = true /\ thread_done cs 0 = false /\ (10 <= List.length log')%nat /\
                      existsb (fun t => Nat.ltb 2 t) ex2_sched = true /\ (40 <= List.length (conc_output cs))%nat
  | SErr _ => False
  end /\
  match conc_src_run 1 2 true ex2_inp (ex2_sched ++ [0%nat]) with
  | SOk (cs, log') => all_done cs = true /\ thread_done cs 0 = true
  | SErr _ => False
  end.
Proof. vm_compute. repeat split; try reflexivity; try lia. all: intro H; discriminate H. Qed.

(* the counterexample to the converse direction as first stated (without the hypothesis on the main thread) *)
Example SRC_protocol_machine_is_followed_by_PipeConc_refuted_as_first_stated_proof :
  ~ (forall c T (ispadding : bool) input sched cs log',
      (1 <= c)%nat -> (N.of_nat (16 * c) < 2 ^ 32)%N -> (1 <= T <= 16)%nat -> bytesb input = true ->
      (N.of_nat (List.length input) < 2 ^ 36)%N ->
      conc_src_run c T ispadding input sched = SOk (cs, log') ->
      exists s log, tag_run c T ispadding input sched = Some (s, log) /\ norm_log log' = log).
Proof.
  intros H.
  assert (Hn : tag_run 1 2 true ex2_inp (ex2_sched ++ [0%nat]) = None) by (vm_compute; reflexivity).
  destruct (conc_src_run 1 2 true ex2_inp (ex2_sched ++ [0%nat])) as [[cs l]|e] eqn:E.
  - destruct (H 1%nat 2%nat true ex2_inp (ex2_sched ++ [0%nat]) cs l) as (s & log & Hr & _);
      [lia | vm_compute; reflexivity | lia | vm_compute; reflexivity | vm_compute; reflexivity | exact E | ].
    rewrite Hn in Hr. discriminate Hr.
  - assert (X : match conc_src_run 1 2 true ex2_inp (ex2_sched ++ [0%nat]) with SOk _ => true | SErr _ => false end = true)
      by (vm_compute; reflexivity).
    rewrite E in X. discriminate X.
Qed.
