(* Refinement, modes part 1: getXor, ctrInc, 16-byte memcpy of aesmode.cpp. *)
From Coq Require Import ZArith NArith List String Bool Lia.
From Wencry Require Import Bytes AesModel ModesModel MiniC MiniCRun MiniCLemmas SrcRun AesProofs
     RefineAesLib RefineAesOps RefineAesKey RefineAes.
From Wencry Require ModesProofs.
From Wencry.Gen Require Import AesTab AesCoef.
From Wencry.Gen Require Src_aes Src_aesmode.
Import ListNotations.
Local Open Scope Z_scope.
Local Open Scope string_scope.

Local Notation P := aes_prog.

(* names are concrete here: normalise string appends so that keys compare syntactically *)
Ltac mget_tac ::=
  cbn [append];
  first [ rewrite mget_mset_same; reflexivity
        | rewrite mget_mset_other by neq_tac; mget_tac
        | eassumption
        | match goal with H : mget ?m ?k = Some _ |- mget ?m ?k = _ => exact H end ].
Ltac st_norm_hook ::= cbn [append].

(* ---------------- getXor ---------------- *)
Lemma xor32 : forall a b : list N, List.length a = 4%nat -> List.length b = 4%nat ->
  Forall (fun x => (x < 256)%N) a -> Forall (fun x => (x < 256)%N) b ->
  le_bytes 4 (wrap U32 (wrap U32 (Z.lxor (wrap U32 (le_val (map Z.of_N a))) (wrap U32 (le_val (map Z.of_N b))))) mod 2 ^ (8 * 4))
  = map Z.of_N (xorl a b).
Proof.
  intros a b La Lb Ha Hb.
  assert (Ra := le_val_range _ (Forall_B _ Ha)). assert (Rb := le_val_range _ (Forall_B _ Hb)).
  rewrite map_length in Ra, Rb. rewrite La in Ra. rewrite Lb in Rb.
  change (256 ^ Z.of_nat 4) with (2 ^ 32) in Ra, Rb.
  rewrite (wrap_U32_small (le_val (map Z.of_N a))), (wrap_U32_small (le_val (map Z.of_N b))) by assumption.
  unfold wrap; cbn [ity_bits ity_signed]. change (2 ^ (8 * 4)) with (256 ^ Z.of_nat 4). change (2 ^ 32) with (256 ^ Z.of_nat 4).
  rewrite !le_bytes_mod. rewrite le_bytes_lxor.
  replace 4%nat with (List.length (map Z.of_N a)) at 1 by (now rewrite map_length).
  replace 4%nat with (List.length (map Z.of_N b)) at 1 by (now rewrite map_length).
  rewrite !le_bytes_le_val by (apply Forall_B; assumption).
  apply map2_lxor_B.
Qed.

Ltac bytes_tac := repeat (constructor; try assumption).
Ltac store_hook ::=
  lazymatch goal with
  | |- le_bytes 4 (wrap U32 (wrap U32 (Z.lxor (wrap U32 (le_val ?la)) (wrap U32 (le_val ?lb)))) mod _) = _ =>
      let a := unB la in let b := unB lb in
      exact (xor32 a b eq_refl eq_refl ltac:(bytes_tac) ltac:(bytes_tac))
  end.
Ltac st_norm_hook ::= cbn [append xorl map2 map].

Lemma getXor_spec : forall vt s pfx fuel ox om bx bm,
  (20 <= fuel)%nat -> ox <> om ->
  mget (mem s) ox = Some (bytes_object bx) -> block16 bx ->
  mget (mem s) om = Some (bytes_object bm) -> block16 bm ->
  call P vt fuel "Aesmode::getXor/2" pfx [VPtr ox 0; VPtr om 0] s
  = Ok (None, with_mem s (mset (mem s) ox (bytes_object (xorl bx bm)))).
Proof.
  intros vt s pfx fuel ox om bx bm Hf Hne Hx Bx Hm Bm.
  eapply call_mono; [|exact Hf].
  revert Hx. blk bx Bx. intros Hx. revert Hm. blk bm Bm. intros Hm.
  eapply call_normal; [reflexivity | reflexivity | | | | | ].
  - cbn [f_body Src_aesmode.f_Aesmode_getXor_2]. xs.
  - reflexivity.
  - reflexivity.
  - reflexivity.
  - st_norm. reflexivity.
Qed.

(* ---------------- ctrInc ---------------- *)
Lemma inc_nowrap : forall v, (v < 256)%N -> v <> 255%N -> wrap U8 (wrap U8 (Z.of_N v + 1)) = Z.of_N (v + 1).
Proof.
  intros v H E. rewrite N2Z.inj_add. change (Z.of_N 1) with 1.
  rewrite (wrap_U8_small (Z.of_N v + 1)) by lia. apply wrap_U8_small. lia.
Qed.
Lemma cond_nz : forall v, (v < 256)%N -> v <> 255%N ->
  (if (wrap I32 (wrap U8 (Z.of_N (v + 1))) =? 0)%Z then 0 else 1) = 1.
Proof.
  intros v H E. rewrite wrap_U8_B by lia. rewrite wrap_I32_B by lia.
  destruct (Z.eqb_spec (Z.of_N (v + 1)) 0); [lia | reflexivity].
Qed.
Lemma inc_rev_wrap : forall t, inc_rev (255%N :: t) = 0%N :: inc_rev t.
Proof. reflexivity. Qed.
Lemma inc_rev_nowrap : forall v t, (v < 256)%N -> v <> 255%N -> inc_rev (v :: t) = (v + 1)%N :: t.
Proof.
  intros v t H E. cbn [inc_rev]. rewrite N.mod_small by lia.
  destruct (N.eqb_spec (v + 1) 0); [lia | reflexivity].
Qed.

Ltac binop_tac ::=
  lazymatch goal with
  | |- eval_bin ?t ?op ?x ?y = Ok _ =>
      first [ is_lit x; is_lit y;
              let r := eval vm_compute in (eval_bin t op x y) in
              (change (eval_bin t op x y) with r; reflexivity)
            | reflexivity
            | cbn [eval_bin]; rewrite ?wrap_U8_B by assumption; rewrite ?wrap_I32_B by assumption;
              apply arith_I32_small; lia ]
  end.

Ltac wrap_lit_norm :=
  repeat match goal with
  | |- context [wrap ?t ?x] => is_lit x; let r := eval vm_compute in (wrap t x) in change (wrap t x) with r
  end.
Ltac load_tac ::=
  obj_norm;
  lazymatch goal with
  | |- load_obj (bobj _) U8 _ = _ => rewrite load_u8 by (list_norm; range_tac); list_norm; wrap_lit_norm; reflexivity
  | |- load_obj (bobj _) ?t _ = _ =>
      rewrite load_wide by (first [ (let HH := fresh in intro HH; vm_compute in HH; discriminate HH) | list_norm; ity_norm; range_tac]);
      ity_norm; list_norm; reflexivity
  end.
Ltac store_tac ::=
  obj_norm;
  lazymatch goal with
  | |- store_obj (bobj _) U8 _ _ = _ => rewrite store_u8 by (list_norm; range_tac); list_norm; wrap_lit_norm; reflexivity
  | |- store_obj (bobj _) ?t _ _ = _ =>
      eapply store_wide; [ (let HH := fresh in intro HH; vm_compute in HH; discriminate HH) | list_norm; ity_norm; range_tac
                         | list_norm; ity_norm; range_tac
                         | ity_norm; list_norm; store_hook ]
  end.

Ltac ctr_fix :=
  repeat match goal with
  | |- context [wrap U8 (wrap U8 (Z.of_N ?v + 1))] => rewrite (inc_nowrap v) by assumption
  end.
Ltac ctr_break_body :=
  eapply x_seq; [xs | st_norm; ctr_fix; eapply x_if; [ev |
    match goal with |- context [wrap I32 (wrap U8 (Z.of_N (?v + 1)))] => rewrite (cond_nz v) by assumption end;
    cbn [Z.eqb]; apply x_break ] ].
Ltac ctr_loop :=
  st_norm;
  first [ eapply x_loop_end; solve [ev]
        | eapply x_loop_iter; [solve [ev] | discriminate | solve [xs] | xs | ctr_loop ]
        | eapply x_loop_break; [solve [ev] | discriminate | ctr_break_body ] ].

Ltac ctr_path :=
  cbn [Z.of_N map] in *;
  eapply call_normal; [reflexivity | reflexivity | | | | | ];
  [ cbn [f_body Src_aesmode.f_AesCTR_ctrInc_0]; eapply x_seq; [xs | ctr_loop]
  | reflexivity | reflexivity | reflexivity
  | st_norm; ctr_fix; unfold ctrInc; cbn [rev app]; rewrite ?inc_rev_wrap; rewrite ?inc_rev_nowrap by assumption;
    cbn [rev app inc_rev]; reflexivity ].

Ltac ctr_cases vs :=
  lazymatch vs with
  | @nil N => ctr_path
  | ?v :: ?r =>
      let E := fresh "E" in
      destruct (N.eq_dec v 255%N) as [E|E]; [subst v; ctr_cases r | ctr_path]
  end.

Lemma ctrInc_spec : forall vt s pfx fuel iv,
  (40 <= fuel)%nat ->
  mget (mem s) (pfx ++ "iv") = Some (bytes_object iv) -> block16 iv ->
  call P vt fuel "AesCTR::ctrInc/0" pfx [] s
  = Ok (None, with_mem s (mset (mem s) (pfx ++ "iv") (bytes_object (ctrInc iv)))).
Proof.
  intros vt s pfx fuel iv Hf Hiv Biv.
  eapply call_mono; [|exact Hf].
  revert Hiv. blk iv Biv. intros Hiv. unfold bytes_object in Hiv. cbn [map] in Hiv.
  change {| o_ty := U8; o_cells := ?c |} with (bobj c) in Hiv.
  ctr_cases [v15; v14; v13; v12; v11; v10; v9; v8; v7; v6; v5; v4; v3; v2; v1; v0].
Qed.

(* ---------------- memcpy of a 16-byte block ---------------- *)
Lemma memcpy16 : forall (src dst : list Z), List.length src = 16%nat -> List.length dst = 16%nat ->
  upd_range 0 (slice 0 16 src) dst = src.
Proof.
  intros src dst Hs Hd. unfold slice. cbn [skipn]. rewrite firstn_all2 by lia.
  change 0%nat with (List.length (@nil Z)). change dst with ([] ++ dst)%list.
  rewrite upd_range_app by lia. cbn [app]. rewrite skipn_all2 by lia. apply app_nil_r.
Qed.

Lemma x_memcpy16 : forall vt f d sr s od os src dst,
  eval s d = Ok (VPtr od 0) -> eval s sr = Ok (VPtr os 0) ->
  mget (mem s) od = Some (bobj dst) -> List.length dst = 16%nat ->
  mget (mem s) os = Some (bytes_object src) -> block16 src ->
  exec P vt (S f) (SMemcpy d sr (ECast U64 (EConst 16))) s
  = Ok (Normal, with_mem s (mset (mem s) od (bytes_object src))).
Proof.
  intros vt f d sr s od os src dst Hd Hs Hod Hld Hos Bs.
  eapply x_memcpy; [exact Hd | exact Hs | reflexivity |].
  change (wrap U64 16) with 16.
  rewrite (memcpy_u8 s od 0 os 0 16 dst (map Z.of_N src)); try lia; try assumption.
  all: try (first [ rewrite map_length, (block16_length _ Bs); reflexivity | rewrite Hld; reflexivity ]).
  change (Z.to_nat 0) with 0%nat. change (Z.to_nat 16) with 16%nat.
  rewrite memcpy16; [reflexivity | rewrite map_length; apply block16_length; assumption | assumption].
Qed.

