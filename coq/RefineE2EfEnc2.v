(* Stage 5: execute_encrypt end to end modulo (1) the two set-up steps of the main thread and (2) the named premise about
   hmac::writeFileHmac (RefineE2EfTail.writeFileHmac_spec): the tear-down is proved (RefineE2EfTail.enc_last_step), the layout
   instance PWenc (RefineE2EfHashSpec) satisfies wpar_ok. *)
From Coq Require Import ZArith NArith List String Bool Lia Arith ZifyN ZifyNat.
From Wencry Require Import Bytes AesModel ModesModel HashModel FileModel FileProps FileProofsDec PipeConc MiniC MiniCRun MiniCLemmas MiniCConc SrcRun SrcRun2 SrcRun5 RefineE2EWhole.
From Wencry Require ModesProofs RefineAes RefineAesOps.
From Wencry Require Import RefineE2EfLay RefineE2EfMach RefineE2EfMem RefineE2EfRel RefineE2EfGen RefineE2EfRun
     RefineE2EfWNames RefineE2EfWLay RefineE2EfWOk RefineE2EfEnc RefineE2EfTail RefineE2EfEncDefs RefineE2EfHashSpec.
Import ListNotations.
Local Open Scope list_scope.
Local Open Scope string_scope.

Lemma magic_bytes_ok : Forall (fun x => (x < 256)%N) magic_bytes.
Proof. apply Forall_forall. intros x Hx. assert (C : forallb (fun x => (x <? 256)%N) magic_bytes = true) by (vm_compute; reflexivity).
  rewrite forallb_forall in C. apply N.ltb_lt. apply C. exact Hx. Qed.

Lemma In_firstn' : forall (A : Type) n (l : list A) x, In x (firstn n l) -> In x l.
Proof. intros A n. induction n as [|n IH]; intros [|a l] x H; cbn [firstn] in H; try contradiction. destruct H as [->|H]; [left; reflexivity|right; apply IH; exact H]. Qed.

Lemma header_bytes : forall cm hm seed T, (cm <= 4)%N -> (hm <= 2)%N -> (1 <= T)%nat ->
  Forall (fun z => 0 <= z < 256)%Z (map Z.of_N (file_header cm hm (iv_chain seed T) T)).
Proof.
  intros cm hm seed T Hcm Hhm HT.
  assert (B : Forall (fun x => (x < 256)%N) (file_header cm hm (iv_chain seed T) T)).
  { unfold file_header. apply Forall_app. split; [exact magic_bytes_ok|]. apply Forall_app. split; [repeat constructor; lia|].
    apply Forall_app. split.
    - apply Forall_forall. intros x Hx. unfold zeros in Hx. apply repeat_spec in Hx. subst x. lia.
    - destruct (iv_chain_props seed T HT) as [_ Hb]. unfold ModesProofs.bytes in Hb.
      apply Forall_forall. intros x Hx. apply (proj1 (Forall_forall _ _) Hb). eapply In_firstn'. exact Hx. }
  apply Forall_forall. intros z Hz. apply in_map_iff in Hz. destruct Hz as (x & <- & Hx). pose proof (proj1 (Forall_forall _ _) B x Hx) as Q. cbv beta in Q. lia.
Qed.

Section EncInst.
Variables (c hbuf T : nat) (P key seed : list N) (cm hm : N).
Hypothesis EP : enc_params c hbuf T P key seed cm hm.
Variables (h n : nat) (extra : memory) (pextra : locs) (ke : mkind).
Hypothesis Hn : (n < h)%nat.
Hypothesis Hext : ext_mem_ok h extra = true.
Hypothesis Hpext : ext_ptr_ok h pextra = true.
Notation PW := (PWenc hbuf T P key seed cm hm h (heap_name n) extra pextra ke).

Lemma forallb_app' : forall A (f : A -> bool) a b, forallb f (a ++ b) = forallb f a && forallb f b.
Proof. intros. apply forallb_app. Qed.

Lemma PWenc_ok : wpar_ok PW.
Proof.
  destruct EP as [Hc Hh HT HP Hkey Hseed Hcm Hhm HsP HsT HsS].
  constructor.
  - intros c1 T1. reflexivity.
  - intros c1 T1. unfold mem_frame_ok. cbn [wp_memB PWenc]. rewrite forallb_app. apply andb_true_iff. split.
    + cbn [forallb fst]. cbn [wp_h PWenc]. unfold below. change (hnum "#0") with (Some 0%nat). cbv beta iota. assert (E0 : (0 <? h)%nat = true) by (apply Nat.ltb_lt; lia). rewrite E0. reflexivity.
    + unfold ext_mem_ok in Hext. cbn [wp_h PWenc]. exact Hext.
  - intros c1 T1. reflexivity.
  - intros c1 T1. cbn [wp_memA PWenc wp_cp]. unfold memA_e. cbn [mget app String.eqb Ascii.eqb Bool.eqb append]. reflexivity.
  - intros T1. reflexivity.
  - intros T1. unfold ptr_frame_ok. cbn [wp_pB PWenc]. rewrite forallb_app. apply andb_true_iff. split.
    + cbn [forallb fst]. unfold pkey_ok. cbn [wp_h wp_cp PWenc]. unfold below.
      repeat match goal with |- context [hnum ?k] => let v := eval vm_compute in (hnum k) in change (hnum k) with v end.
      cbn [RefineE2ENames.strip String.eqb Ascii.eqb Bool.eqb pfxb append andb negb]. reflexivity.
    + unfold ext_ptr_ok in Hpext. rewrite forallb_forall in *. intros x Hx. specialize (Hpext x Hx). unfold pkey_ok. cbn [wp_h wp_cp PWenc append].
      rewrite !andb_true_iff in *. tauto.
  - intros T1. unfold ptr_frame_ok. cbn [wp_pC PWenc forallb fst]. unfold pkey_ok. cbn [wp_h wp_cp PWenc]. unfold below.
    change (hnum "rc.aesfactory.iv") with (@None nat). cbn [RefineE2ENames.strip String.eqb Ascii.eqb Bool.eqb pfxb append andb negb]. reflexivity.
  - exists "c.crym.". reflexivity.
  - intros c1 T1. cbn [wp_memA PWenc]. unfold memA_e, RefineAesOps.tabs_ok. repeat split; reflexivity.
  - apply RefineAes.genall_length.
  - apply RefineAes.genall_blocks. exact Hkey.
  - cbn [wp_iv PWenc]. apply ModesProofs.block16_iff. destruct (iv_chain_props seed T HT) as [L B]. split.
    + rewrite firstn_length. lia.
    + unfold ModesProofs.bytes in *. apply Forall_forall. intros x Hx. apply (proj1 (Forall_forall _ _) B). eapply In_firstn'. exact Hx.
  - cbn [wp_out0 PWenc]. apply header_bytes; assumption.
Qed.
End EncInst.

Theorem encrypt_modulo_setup_and_hmac :
  forall (c hbuf T : nat) (P key seed : list N) (cm hm : N),
  enc_params c hbuf T P key seed cm hm -> (N.of_nat (16 * c) < 2 ^ 32)%N ->
  forall ke, create true cm = Some ke ->
  forall (h n : nat) (extra : memory) (pextra : locs),
  (n < h)%nat -> ext_mem_ok h extra = true -> ext_ptr_ok h pextra = true ->
  let PW := PWenc hbuf T P key seed cm hm h (heap_name n) extra pextra ke in
  writeFileHmac_spec PW c hbuf T hm key ->
  forall (sm0 : memory),
  (forall i, (i < T)%nat -> w_srep PW T i (firstn 16 (iv_chain seed T)) sm0) ->
  let cs0 := whole_init WEnc c hbuf T (Z.of_N cm) (Z.of_N hm) P key seed in
  let cs2 := @cstate_md (wlayout PW) c T true P I_WaitUpdate (repeat W_New T) (@d_init0 (wlayout PW) c T sm0) (@g_init0 (wlayout PW) T) in
  (forall fuel, enabled_list cs0 = [O] /\
     (cstep whole_prog [] fuel cs0 0 = NoFuel \/
      exists cs1 e1, cstep whole_prog [] fuel cs0 0 = Ok (cs1, e1) /\ enabled_list cs1 = [O] /\
        (cstep whole_prog [] fuel cs1 0 = NoFuel \/ exists e2, cstep whole_prog [] fuel cs1 0 = Ok (cs2, e2)))) ->
  forall rnd,
  match src_encrypt_file c hbuf T cm hm P key seed rnd with
  | SOk (b, o, i, _) => b = true /\ enc c hbuf T P key cm hm seed = FileModel.Ok o /\ i = P
  | SErr w => w = "out of fuel"%string \/ w = "step bound reached"%string
  end.
Proof.
  intros c hbuf T P key seed cm hm EP Hc32 ke Hke h n extra pextra Hn Hext Hpext PW WFH sm0 Hsm cs0 cs2 Hpre.
  pose proof (PWenc_ok c hbuf T P key seed cm hm EP h n extra pextra ke Hn Hext Hpext) as OKW. fold PW in OKW.
  pose proof EP as [Hc Hh HT HP Hkey Hseed Hcm Hhm HsP HsT HsS].
  assert (Ekb : forall T0 pad, wp_kb PW T0 pad = kbot_of enc_R enc_K1) by reflexivity.
  assert (Etd : forall T0 pad, wp_tdone PW T0 pad = tdone_of enc_R enc_K1 (wp_blocs PW T0 pad) (wp_bpre PW)) by reflexivity.
  apply (encrypt_from_parts c hbuf T P key seed cm hm EP Hc32 ke Hke PW eq_refl eq_refl eq_refl eq_refl OKW (DKU PW OKW Ekb Etd) sm0 Hsm Hpre).
  intros s cs Hsim Hterm fuel.
  apply (enc_last_step PW OKW c hbuf T P key seed cm hm Hhm ltac:(lia) Ekb Etd eq_refl); try assumption.
  - intros T0 pad. eexists. reflexivity.
  - intros T0 pad. reflexivity.
  - intros T0 pad. eexists. reflexivity.
  - intros c1 T1. reflexivity.
  - intros c1 T1. reflexivity.
  - intros T1. reflexivity.
  - intros T1. reflexivity.
  - intros T1. reflexivity.
  - reflexivity.
Qed.
Print Assumptions encrypt_modulo_setup_and_hmac.
