(* PARALLEL4 (H1): decrypt copy (layout instance PWd, pad = false, cmode = 0) of RefineE2EfSetup2Tail.v.
   PARALLEL3: the TAIL of pa_rest (prepare_AES after set_buffergroup returned): `mode = new u64[T]; aesfactory.loadiv(iv); for i < T:
   mode[i] = aesfactory.createCryMaster(1, ctype); return mode`, from the explicit state sB1 after set_buffergroup to EXACTLY
   s_pa1d with sm0 = the T cipher-mode objects, and w_srep for each of them. *)
From Coq Require Import ZArith NArith List String Bool Lia PeanoNat Ascii.
From Wencry Require Import Bytes AesModel ModesModel HashModel FileModel FileProps MiniC MiniCRun MiniCLemmas SrcRun SrcRun2 SrcRun5 RefineE2EWhole
     RefineAesLib RefineAesOps RefineAes RefineModes RefineE2ENames.
From Wencry Require RefineFileBase RefineConcMem ModesProofs.
From Wencry Require Import RefineE2EfLay RefineE2EfWNames RefineE2EfWLay RefineE2EfGen RefineE2EfEncDefs RefineE2EfHashSpec RefineE2EfEnc2 RefineE2EfHashKeys RefineE2EfHashB2 RefineE2EfHashB3
     RefineE2EfSetup1 RefineE2EfSetup2Spec RefineE2EfDecSpec RefineE2EfDecInst RefineE2EfSetup2B3 RefineE2EfSetup2B3D RefineE2EfSetup2B4 RefineE2EfSetup2B4D.
From Wencry.Gen Require Src_whole Src_aesmode.
Import ListNotations.
Local Open Scope list_scope.
Local Open Scope string_scope.

Definition pa_tail : stmt := s_snd (s_snd pa_rest).

(* ---------------- the objects of the loop, as one memory ---------------- *)
Section SM.
Variables (key : list N) (ivc : list Z).
Lemma SMf_keys : forall d f k, mget (SMf key ivc f d) k <> None -> exists j y, (j < d)%nat /\ k = hobj (f + j) ++ y.
Proof.
  induction d as [|d IH]; intros f k H; [exfalso; apply H; reflexivity|].
  rewrite SMf_S, RefineConcMem.mget_app in H. destruct (mget (smf (hobj f) key ivc) k) eqn:E.
  - destruct (smf_keys key ivc (hobj f) k) as [y ->]; [rewrite E; discriminate|]. exists 0%nat, y. split; [lia|]. now rewrite Nat.add_0_r.
  - destruct (IH (S f) k H) as (j & y & Hj & ->). exists (S j), y. split; [lia|]. replace (f + S j)%nat with (S f + j)%nat by lia. reflexivity.
Qed.
Lemma mget_SMf : forall d f i y, (i < d)%nat -> mget (SMf key ivc f d) (hobj (f + i) ++ y) = mget (smf (hobj (f + i)) key ivc) (hobj (f + i) ++ y).
Proof.
  induction d as [|d IH]; intros f i y Hi; [lia|]. rewrite SMf_S, RefineConcMem.mget_app. destruct i as [|i].
  - rewrite Nat.add_0_r. destruct (mget (smf (hobj f) key ivc) (hobj f ++ y)) eqn:E; [reflexivity|].
    destruct (mget (SMf key ivc (S f) d) (hobj f ++ y)) eqn:E2; [|reflexivity]. exfalso.
    destruct (SMf_keys d (S f) (hobj f ++ y)) as (j & y' & _ & E'); [rewrite E2; discriminate|]. apply hobj_inj in E'. lia.
  - destruct (mget (smf (hobj f) key ivc) (hobj (f + S i) ++ y)) eqn:E.
    + exfalso. destruct (smf_keys key ivc (hobj f) (hobj (f + S i) ++ y)) as [y' E']; [rewrite E; discriminate|]. apply hobj_inj in E'. lia.
    + replace (f + S i)%nat with (S f + i)%nat by lia. apply IH. lia.
Qed.
End SM.

Section Tail.
Variables (c hbuf T : nat) (F key : list N) (h n : nat) (extra : memory) (pextra : locs) (ke : mkind).
Hypothesis HT : (1 <= T <= 16)%nat.
Hypothesis Hkey : block16 key.
Hypothesis Hivb : block16 (firstn 16 (skipn 48 F)).
Hypothesis Hke : create false (nth 8 F 0%N) = Some ke.
Hypothesis Hn : (n < h)%nat.
Hypothesis Hn0 : n <> 0%nat.
Variable ivc : list Z.
Hypothesis Hivo : mget extra (heap_name n) = Some (bobj ivc).
Hypothesis Hivl : (16 <= List.length ivc)%nat.
Hypothesis Hiv16 : firstn 16 ivc = map Z.of_N (firstn 16 (skipn 48 F)).
Hypothesis Hext : ext_mem_ok h extra = true.
Hypothesis Hpext : ext_ptr_ok h pextra = true.
Hypothesis Hnosz : no_sizeof_names extra = true.
Hypothesis Hnoal : no_alloc_keys pextra = true.

Notation PW := (PWd hbuf T F key h n extra pextra ke).
Let OKW : wpar_ok PW := PWdec_ok hbuf T F key HT Hkey Hivb h n extra pextra ke Hn Hext Hpext.
Notation memA := (memA_d hbuf F key c T).
Notation iv16 := (firstn 16 (skipn 48 F)).


Lemma keysAd : map fst memA = KEYSA.
Proof. vm_compute. reflexivity. Qed.
Lemma keysAd_all : forall (Pk : string -> bool) k o, forallb Pk KEYSA = true -> mget memA k = Some o -> Pk k = true.
Proof. intros Pk k o HP H. rewrite forallb_forall in HP. apply HP. rewrite <- keysAd. eapply RefineFileBase.mget_in, H. Qed.
Lemma keysAd_hash : forall r o, mget memA (String "#"%char r) = Some o -> False.
Proof.
  intros r o H. pose proof (keysAd_all (fun k => match k with String "#"%char _ => false | _ => true end) _ _ eq_refl H) as X. discriminate X.
Qed.

Definition dz (sm : memory) : mdata := @d_init0 (wlayout PW) c T sm.
(* memory and pointer table after set_buffergroup *)
Definition MB1 : memory :=
  (wp_memA PW c T ++ [("live_num", RefineE2EfLay.cell U8 (Z.of_nat T))] ++ wp_memB PW c T ++ w_seg3 PW T false (dz [])
   ++ flat_map (w_iob PW (repeat (mb_init c) T)) (seq 0 T) ++ flat_map (w_ctrl PW (repeat (mb_init c) T)) (seq 0 T))%list.
Definition PtB1 : locs :=
  (wp_pA PW T ++ [("instance", VPtr (wGP PW) 0)] ++ wp_pB PW T ++ core5 PW
   ++ map (fun i => (class_key (wbp PW i), VPtr "iobuffer" 0)) (seq 0 T)
   ++ map (fun i => (class_key (wcp PW i), VPtr "bufferctrl" 0)) (seq 0 T))%list.
Definition MB2 : memory := (MB1 ++ [(wMA PW, {| o_ty := U64; o_cells := repeat 0%Z T |})])%list.
Definition PtB2 : locs := (PtB1 ++ wp_pC PW T)%list.

Lemma MB2_eq : forall sm, w_mem_of PW c T false (dz sm) = (MB2 ++ sm)%list.
Proof. intros sm. unfold w_mem_of, w_core, MB2, MB1. rewrite <- !app_assoc. reflexivity. Qed.
Lemma MB2_z : MB2 = w_mem_of PW c T false (dz []).
Proof. rewrite MB2_eq, app_nil_r. reflexivity. Qed.
Lemma ptrs_base_eq2 : forall pp, (PtB2 ++ pp)%list = (PtB1 ++ wp_pC PW T ++ pp)%list.
Proof. intros. unfold PtB2. rewrite <- app_assoc. reflexivity. Qed.

(* ---- lookups in MB2 ---- *)
Lemma MB2_A : forall k o, mget memA k = Some o -> mget MB2 k = Some o.
Proof. intros k o H. rewrite MB2_z. unfold w_mem_of. cbn [wp_memA PWd PWdec]. rewrite RefineConcMem.mget_app, H. reflexivity. Qed.
Lemma MB2_core : forall k m, hnum k = Some m -> (h <= m)%nat -> mget MB2 k = mget (w_core PW T false (dz [])) k.
Proof. intros k m Hk Hm. rewrite MB2_z. apply (mget_to_core PW OKW c T false (dz []) k m Hk). exact Hm. Qed.
Lemma MB2_free : forall k y, (h + 4 <= k)%nat -> mget MB2 (hobj k ++ y) = None.
Proof.
  intros k y Hk. pose proof (hnum_hobj k y) as E. rewrite (MB2_core _ k E) by lia.
  unfold w_core. rewrite !RefineConcMem.mget_app.
  rewrite (allnum_none (wp_h PW) _ _ k (allnum_seg3 PW T false (dz [])) E) by (cbn [wp_h PWd PWdec]; lia).
  rewrite (allnum_none (wp_h PW + 1) _ _ k (allnum_flat _ _ _ (allnum_iob PW _)) E) by (cbn [wp_h PWd PWdec]; lia).
  rewrite (allnum_none (wp_h PW + 2) _ _ k (allnum_flat _ _ _ (allnum_ctrl PW _)) E) by (cbn [wp_h PWd PWdec]; lia).
  rewrite (allnum_none (wp_h PW + 3) _ _ k (allnum_MA PW {| o_ty := U64; o_cells := repeat 0%Z T |}) E) by (cbn [wp_h PWd PWdec]; lia). reflexivity.
Qed.
Lemma MB1_MA : mget MB1 (wMA PW) = None.
Proof.
  assert (E : hnum (wMA PW) = Some (h + 3)%nat) by apply (hnum_MA PW).
  pose proof (mget_to_core PW OKW c T false (dz []) (wMA PW) (h + 3)%nat E ltac:(cbn [wp_h PWd PWdec]; lia)) as Q.
  rewrite <- MB2_z in Q.
  (* MB2 = MB1 ++ [wMA]: read it off the segments *)
  unfold MB1. rewrite !RefineConcMem.mget_app.
  rewrite (frame_none PW _ _ _ (wo_memA PW OKW c T) E) by (cbn [wp_h PWd PWdec]; lia). cbn [mget].
  rewrite (hnum_none_neq (wMA PW) "live_num" _ E eq_refl).
  rewrite (frame_none PW _ _ _ (wo_memB PW OKW c T) E) by (cbn [wp_h PWd PWdec]; lia).
  rewrite (allnum_none (wp_h PW) _ _ _ (allnum_seg3 PW T false (dz [])) E) by (cbn [wp_h PWd PWdec]; lia).
  rewrite (allnum_none (wp_h PW + 1) _ _ _ (allnum_flat _ _ _ (allnum_iob PW _)) E) by (cbn [wp_h PWd PWdec]; lia).
  rewrite (allnum_none (wp_h PW + 2) _ _ _ (allnum_flat _ _ _ (allnum_ctrl PW _)) E) by (cbn [wp_h PWd PWdec]; lia). reflexivity.
Qed.
Lemma n_ne0 : n <> 0%nat.
Proof. exact Hn0. Qed.
Lemma MB2_iv : mget MB2 (heap_name n) = Some (bobj ivc).
Proof.
  assert (E : hnum (heap_name n) = Some n) by apply hnum_heap.
  rewrite MB2_z. unfold w_mem_of. cbn [wp_memA wp_memB PWd PWdec]. rewrite !RefineConcMem.mget_app.
  assert (EA : mget memA (heap_name n) = None).
  { destruct (mget memA (heap_name n)) eqn:Q; [|reflexivity]. exfalso. unfold heap_name in Q. eapply keysAd_hash, Q. }
  rewrite EA. cbn [mget]. rewrite (hnum_none_neq _ "live_num" _ E eq_refl).
  rewrite (hnum_neq (heap_name n) "#0" n 0%nat E eq_refl n_ne0). rewrite Hivo. reflexivity.
Qed.
Lemma MB2_szAes : forall r, mget MB2 ("sizeof:Aes" ++ r) = None.
Proof.
  intros r. assert (E : hnum ("sizeof:Aes" ++ r) = None) by reflexivity.
  rewrite MB2_z. unfold w_mem_of. cbn [wp_memA wp_memB PWd PWdec]. rewrite !RefineConcMem.mget_app.
  assert (EA : mget memA ("sizeof:Aes" ++ r) = None).
  { destruct (mget memA ("sizeof:Aes" ++ r)) eqn:Q; [|reflexivity]. exfalso.
    pose proof (keysAd_all (fun k => negb (pfxb "sizeof:Aes" k)) _ _ eq_refl Q) as X. cbn beta in X.
    rewrite pfxb_app in X. discriminate X. }
  rewrite EA.
  assert (E1 : String.eqb ("sizeof:Aes" ++ r) "live_num" = false) by reflexivity.
  assert (E2 : String.eqb ("sizeof:Aes" ++ r) "#0" = false) by reflexivity.
  pose proof (mget_nopfx "sizeof:" extra ("Aes" ++ r) Hnosz) as E3. change ("sizeof:" ++ "Aes" ++ r) with ("sizeof:Aes" ++ r) in E3.
  set (k := "sizeof:Aes" ++ r) in *. cbn [mget]. rewrite E1, E2, E3. subst k.
  unfold w_core. rewrite !RefineConcMem.mget_app.
  rewrite (allnum_none' (wp_h PW) _ _ (allnum_seg3 PW T false (dz [])) E).
  rewrite (allnum_none' (wp_h PW + 1) _ _ (allnum_flat _ _ _ (allnum_iob PW _)) E).
  rewrite (allnum_none' (wp_h PW + 2) _ _ (allnum_flat _ _ _ (allnum_ctrl PW _)) E).
  rewrite (allnum_none' (wp_h PW + 3) _ _ (allnum_MA PW {| o_ty := U64; o_cells := repeat 0%Z T |}) E). reflexivity.
Qed.

(* ---- lookups in PtB1 / PtB2 ---- *)
Lemma lget_pextra_none : forall k, (forall k', below h k' && match strip "class:" k' with Some r => below h r | None => true end && negb (String.eqb "instance" k') && negb (pfxb "rc.crym.threads" k') && negb (pfxb "rc.aesfactory.iv" k') = true -> String.eqb k k' = false) ->
  lget pextra k = None.
Proof.
  intros k H. pose proof Hpext as Fq. unfold ext_ptr_ok in Fq. revert Fq. generalize pextra. intro l. induction l as [|[k' v] l IH]; intro Fq; cbn [lget]; [reflexivity|].
  cbn [forallb fst] in Fq. apply andb_true_iff in Fq. destruct Fq as [Fq1 Fq2]. rewrite (H k' Fq1). apply IH, Fq2.
Qed.
(* a key with a heap number >= h, or a class key of such a prefix, is in none of the frames *)
Lemma PtB1_num : forall k m, hnum k = Some m -> (h + 3 <= m)%nat -> lget PtB1 k = None.
Proof.
  intros k m E Hm. unfold PtB1. rewrite !RefineConcMem.lget_app.
  rewrite (pframe_num PW _ _ _ (wo_pA PW OKW T) E) by (cbn [wp_h PWd PWdec]; lia). cbn [lget]. rewrite (hnum_none_neq k "instance" _ E eq_refl).
  rewrite (pframe_num PW _ _ _ (wo_pB PW OKW T) E) by (cbn [wp_h PWd PWdec]; lia).
  assert (C5 : lget (core5 PW) k = None).
  { unfold core5. cbn [lget]. rewrite (hnum_none_neq _ _ _ E (hnum_class (wGP PW))).
    rewrite !(hnum_neq _ _ _ _ E (hnum_GP PW _)) by (cbn [wp_h PWd PWdec]; lia). reflexivity. }
  rewrite C5.
  rewrite (RefineConcMem.lget_map_none _ (fun i => class_key (wbp PW i))) by (intros; apply (hnum_none_neq _ _ _ E (hnum_class _))).
  rewrite (RefineConcMem.lget_map_none _ (fun i => class_key (wcp PW i))) by (intros; apply (hnum_none_neq _ _ _ E (hnum_class _))).
  reflexivity.
Qed.
Lemma PtB1_class : forall r m, hnum r = Some m -> (h + 3 <= m)%nat -> lget PtB1 (class_key r) = None.
Proof.
  intros r m E Hm. unfold PtB1. rewrite !RefineConcMem.lget_app.
  rewrite (pframe_class PW _ _ _ (wo_pA PW OKW T) E) by (cbn [wp_h PWd PWdec]; lia). cbn [lget].
  change (String.eqb (class_key r) "instance") with false. cbv iota.
  rewrite (pframe_class PW _ _ _ (wo_pB PW OKW T) E) by (cbn [wp_h PWd PWdec]; lia).
  assert (C5 : lget (core5 PW) (class_key r) = None).
  { unfold core5. cbn [lget]. rewrite class_eqb. pose proof (hnum_GP PW "") as Hg. rewrite append_nil_r in Hg.
    rewrite (hnum_neq _ _ _ _ E Hg) by (cbn [wp_h PWd PWdec]; lia).
    rewrite !(String.eqb_sym (class_key r) (wGP PW ++ _)), !(hnum_none_neq _ _ _ (hnum_GP PW _) (hnum_class r)). reflexivity. }
  rewrite C5.
  rewrite (RefineConcMem.lget_map_none _ (fun i => class_key (wbp PW i))).
  2:{ intros j. rewrite class_eqb. pose proof (hnum_bp PW j "") as Hb. rewrite append_nil_r in Hb. apply (hnum_neq _ _ _ _ E Hb). cbn [wp_h PWd PWdec]. lia. }
  rewrite (RefineConcMem.lget_map_none _ (fun i => class_key (wcp PW i))).
  2:{ intros j. rewrite class_eqb. pose proof (hnum_cp PW j "") as Hb. rewrite append_nil_r in Hb. apply (hnum_neq _ _ _ _ E Hb). cbn [wp_h PWd PWdec]. lia. }
  reflexivity.
Qed.
Lemma PtB1_plain : forall k, hnum k = None -> (forall x, String.eqb k (class_key x) = false) -> String.eqb k "instance" = false ->
  lget PtB1 k = match lget (wp_pA PW T) k with Some v => Some v | None => lget (wp_pB PW T) k end.
Proof.
  intros k E Hc Hi. unfold PtB1. rewrite !RefineConcMem.lget_app. destruct (lget (wp_pA PW T) k); [reflexivity|]. cbn [lget]. rewrite Hi.
  destruct (lget (wp_pB PW T) k); [reflexivity|].
  assert (C5 : lget (core5 PW) k = None).
  { unfold core5. cbn [lget]. rewrite Hc. rewrite !(String.eqb_sym k (wGP PW ++ _)), !(hnum_none_neq _ _ _ (hnum_GP PW _) E). reflexivity. }
  rewrite C5.
  rewrite (RefineConcMem.lget_map_none _ (fun i => class_key (wbp PW i))) by (intros; apply Hc).
  rewrite (RefineConcMem.lget_map_none _ (fun i => class_key (wcp PW i))) by (intros; apply Hc). reflexivity.
Qed.
Lemma PtB1_alloc : forall c0, lget PtB1 ("alloc:" ++ c0) = None.
Proof.
  intros c0. rewrite PtB1_plain; [|reflexivity|intros; reflexivity|reflexivity].
  cbn [wp_pA wp_pB PWd PWdec]. assert (Eo : forall x, String.eqb ("alloc:" ++ c0) (String "r" x) = false) by reflexivity.
  pose proof (lget_nopfx _ "alloc:" pextra c0 Hnoal) as E3. set (k := "alloc:" ++ c0) in *.
  cbn [lget app]. rewrite !Eo. exact E3.
Qed.
Lemma PtB1_afkey : lget PtB1 "rc.aesfactory.key" = Some (VPtr "key" 0).
Proof. rewrite PtB1_plain; [|reflexivity|intros; reflexivity|reflexivity]. reflexivity. Qed.
Lemma PtB1_afiv : lget PtB1 "rc.aesfactory.iv" = None.
Proof.
  rewrite PtB1_plain; [|reflexivity|intros; reflexivity|reflexivity]. cbn [wp_pA wp_pB PWd PWdec lget app String.eqb Ascii.eqb Bool.eqb andb].
  apply lget_pextra_none. intros k' Fq. rewrite !andb_true_iff in Fq. destruct Fq as [_ Fq]. apply negb_true_iff in Fq.
  destruct (String.eqb_spec "rc.aesfactory.iv" k') as [<-|]; [|reflexivity]. discriminate Fq.
Qed.

Lemma LInv0 : LInv T key (heap_name n) ivc (h + 3) MB2 PtB2 (h + 4) 0.
Proof.
  constructor.
  - rewrite MB2_z. apply (w_tabs_ok PW OKW).
  - apply MB2_A. reflexivity.
  - exact MB2_iv.
  - apply MB2_A. reflexivity.
  - intros k y Hk. apply MB2_free, Hk.
  - exact MB2_szAes.
  - intros c0. unfold PtB2. rewrite RefineConcMem.lget_app, PtB1_alloc. reflexivity.
  - intros k Hk. unfold PtB2. pose proof (hnum_hobj k "") as E. rewrite append_nil_r in E.
    rewrite RefineConcMem.lget_app, (PtB1_class _ k E) by lia. reflexivity.
  - intros j _. unfold PtB2. change (heap_name (h + 3)) with (wMA PW).
    rewrite RefineConcMem.lget_app, (PtB1_num _ _ (hnum_MAkey PW (8 * Z.of_nat j) ltac:(lia))) by (cbn [wp_h PWd PWdec]; lia).
    cbn [wp_pC PWd PWdec lget]. rewrite (hnum_none_neq _ "rc.aesfactory.iv" _ (hnum_MAkey PW (8 * Z.of_nat j) ltac:(lia)) eq_refl). reflexivity.
  - unfold PtB2. rewrite RefineConcMem.lget_app, PtB1_afkey. reflexivity.
  - unfold PtB2. rewrite RefineConcMem.lget_app, PtB1_afiv. reflexivity.
Qed.
(* ---- the T new objects represent the IV ---- *)
Lemma srep_SM : forall i, (i < T)%nat -> w_srep PW T i iv16 (SMf key ivc (h + 4) T).
Proof.
  intros i Hi. unfold w_srep. change (wmp PW i) with (hobj (h + 4 + i)).
  rewrite !(mget_SMf key ivc T (h + 4) i) by exact Hi. unfold smf, seg. cbn [mget]. rewrite !append_eqb_l. cbn [String.eqb Ascii.eqb Bool.eqb andb].
  split; [rewrite Hiv16; reflexivity|]. split; [apply (wo_iv PW OKW)|]. split; [exists (repeat 0%Z 16); split; reflexivity|]. split; [reflexivity|].
  split.
  - intros k y Hk. destruct (mget (SMf key ivc (h + 4) T) (hobj k ++ y)) eqn:E; [|reflexivity]. exfalso.
    destruct (SMf_keys key ivc T (h + 4) (hobj k ++ y)) as (j & y' & Hj & E'); [rewrite E; discriminate|]. apply hobj_inj in E'. cbn [wp_h PWd PWdec] in Hk. lia.
  - intros r. destruct (mget (SMf key ivc (h + 4) T) ("sizeof:" ++ r)) eqn:E; [|reflexivity]. exfalso.
    destruct (SMf_keys key ivc T (h + 4) ("sizeof:" ++ r)) as (j & y' & Hj & E'); [rewrite E; discriminate|]. rewrite hobj_app in E'. discriminate E'.
Qed.

Lemma loadiv_call : forall fuel s v, (3 <= fuel)%nat ->
  call whole_prog [] fuel "AesFactory::loadiv/1" "rc.aesfactory." [v] s = Ok (None, with_ptrs s (lset (ptrs s) "rc.aesfactory.iv" v)).
Proof.
  intros fuel s v Hf. eapply call_mono; [|exact Hf].
  unfold call. rewrite (RefineE2EfWStream.aes_in_whole _ _ (eq_refl : lget aes_prog "AesFactory::loadiv/1" = Some Src_aesmode.f_AesFactory_loadiv_1)).
  cbn [f_params f_body Src_aesmode.f_AesFactory_loadiv_1 bind_params bind mem loc pre files ptrs fresh].
  rewrite (RefineFileBase.x_setptr whole_prog []). cbn [eval bind loc pre lget String.eqb Ascii.eqb Bool.eqb append]. destruct s; reflexivity.
Qed.

Lemma PPf_stream : PPf ke (h + 3) (h + 4) 0 T = flat_map (stream_ptrs PW) (seq 0 T).
Proof. unfold PPf. apply flat_map_ext. intros j. reflexivity. Qed.

Theorem pa_tail_ok : forall l, lget l "iv" = Some (VPtr (heap_name n) 0) -> lget l "ctype" = Some (VInt (Z.of_N (nth 8 F 0%N))) -> lget l "cmode" = Some (VInt 0) ->
  exists lY, exec whole_prog [] (220 + T) pa_tail {| mem := MB1; loc := l; pre := "rc."; files := F1d T F; ptrs := PtB1; fresh := (h + 3)%nat |} =
    Ok (Returned (Some (VPtr (wMA PW) 0)), s_pa1d c hbuf T F key h n extra pextra ke (SMf key ivc (h + 4) T) lY).
Proof.
  intros l Liv Lct Lcm.
  set (l1 := lset l "mode" (VPtr (heap_name (h + 3)) 0)).
  set (l2 := lset l1 "i" (VInt 0)).
  destruct (cry_loop_wd T key (nth 8 F 0%N) ke (heap_name n) ivc (h + 3) (F1d T F) ltac:(lia) Hke Hkey Hivl T 0 MB2 PtB2 (h + 4) l2 eq_refl LInv0) as (lY & EL & LmY).
  { unfold l2. apply lget_lset_same. }
  { unfold l2, l1. rewrite lget_lset_other by discriminate. apply lget_lset_same. }
  { unfold l2, l1. rewrite !lget_lset_other by discriminate. exact Lcm. }
  { unfold l2, l1. rewrite !lget_lset_other by discriminate. exact Lct. }
  exists lY.
  replace (220 + T)%nat with (S (S (S (S (S (215 + T)))))) by lia.
  unfold pa_tail, pa_rest, pa_body, s_snd. cbn [f_body Src_whole.f_runcrypt_prepare_AES_3].
  (* mode = new u64[threads_num] *)
  rewrite exec_seq. rewrite (RefineFileBase.x_new whole_prog []). cbn [eval bind as_int mem pre append].
  assert (Hthr : mget MB1 "rc.threads_num" = Some {| o_ty := U8; o_cells := [Z.of_nat T] |}).
  { unfold MB1. cbn [wp_memA PWd PWdec]. rewrite RefineConcMem.mget_app. reflexivity. }
  rewrite Hthr. cbn [bind]. rewrite load_u8cell. cbn [bind as_int]. rewrite (wrap_U8_small (Z.of_nat T)) by lia. rewrite (wrap_U64_small (Z.of_nat T)) by lia.
  destruct (Z.ltb_spec (Z.of_nat T) 0) as [|_]; [lia|]. cbn [bind mem loc pre files ptrs fresh]. rewrite Nat2Z.id.
  change (heap_name (h + 3)) with (wMA PW) at 1. rewrite (mset_new MB1 (wMA PW) _ MB1_MA). fold MB2. fold l1.
  (* aesfactory.loadiv(iv) *)
  rewrite exec_seq.
  rewrite (RefineFileBase.x_scall whole_prog [] (S (S (215 + T))) None "AesFactory::loadiv/1" (Some (EField "aesfactory.")) [EVar "iv"]
             {| mem := MB2; loc := l1; pre := "rc."; files := F1d T F; ptrs := PtB1; fresh := S (h + 3) |} [VPtr (heap_name n) 0] "rc.aesfactory." None _ _
             ltac:(cbn [eval_list eval bind loc]; unfold l1; rewrite lget_lset_other by discriminate; rewrite Liv; reflexivity) eq_refl
             (loadiv_call (S (S (215 + T))) _ _ ltac:(lia)) eq_refl).
  cbn [bind]. unfold with_ptrs. cbn [mem loc pre files ptrs fresh].
  rewrite (lset_new _ PtB1 "rc.aesfactory.iv" _ PtB1_afiv). change (PtB1 ++ [("rc.aesfactory.iv", VPtr (heap_name n) 0)])%list with PtB2.
  (* i = 0 *)
  rewrite exec_seq, exec_set. cbn [eval bind]. unfold with_loc. cbn [mem loc pre files ptrs fresh]. fold l2.
  (* the loop *)
  rewrite exec_seq. fold cry_cond. fold cry_body. fold cry_step. fold cry_loop.
  replace (S (h + 3)) with (h + 4)%nat by lia.
  rewrite (exec_mono _ _ _ _ _ _ EL) by lia. cbn [bind].
  rewrite RefineFileBase.x_return. cbn [eval bind loc]. rewrite LmY. cbn [bind].
  unfold s_pa1d. fold PW. change (@d_init0 (wlayout PW) c T (SMf key ivc (h + 4) T)) with (dz (SMf key ivc (h + 4) T)).
  rewrite MB2_eq. unfold ptrs_based. fold PW. rewrite PPf_stream. unfold PtB2, PtB1. rewrite <- !app_assoc. reflexivity.
Qed.
End Tail.
Check pa_tail_ok.
Print Assumptions pa_tail_ok.
