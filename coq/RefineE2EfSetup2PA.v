(* PARALLEL3, (T-B): RefineE2EfSetup2Spec.pa_rest_spec -- prepare_AES after get_instance returned.
   = `iobuffer = $t1` + the call of buffergroup::set_buffergroup (front: RefineE2EfSetup2B1.sb_front_ok of proof-conc; statements 7..:
   RefineE2EfSetup2B1m.sb_from7_ok) + the tail (RefineE2EfSetup2Tail.pa_tail_ok: mode array, loadiv, T x createCryMaster, return). *)
From Coq Require Import ZArith NArith List String Bool Lia PeanoNat Ascii.
From Wencry Require Import Bytes AesModel ModesModel HashModel FileModel FileProps MiniC MiniCRun MiniCLemmas SrcRun SrcRun2 SrcRun5 RefineE2EWhole RefineE2ENames
     RefineAesLib RefineE2EfLay RefineE2EfWNames RefineE2EfWLay RefineE2EfWStream RefineE2EfGen RefineE2EfTail RefineE2EfEncDefs RefineE2EfHashSpec RefineE2EfEnc2
     RefineE2EfHashB3 RefineE2EfSetup1 RefineE2EfSetup2Spec.
From Wencry Require RefineFileBase RefineConcMem RefineE2EfSetup2A RefineE2EfSetup2B1.
From Wencry Require Import RefineE2EfSetup2B3 RefineE2EfSetup2B4 RefineE2EfSetup2Tail RefineE2EfSetup2B1e RefineE2EfSetup2B1m.
From Wencry.Gen Require Src_conc Src_whole.
Import ListNotations.
Local Open Scope list_scope.
Local Open Scope string_scope.

Section PA.
Variables (c hbuf T : nat) (P key seed : list N) (cm hm : N) (h n : nat) (extra : memory) (pextra : locs) (ke : mkind).
Hypothesis EP : enc_params c hbuf T P key seed cm hm.
Hypothesis Hke : create true cm = Some ke.
Hypothesis Hn : (n < h)%nat.
Variable ivc : list Z.
Hypothesis Hivo : mget extra (heap_name n) = Some (bobj ivc).
Hypothesis Hivl : (16 <= List.length ivc)%nat.
Hypothesis Hiv16 : firstn 16 ivc = map Z.of_N (firstn 16 (iv_chain seed T)).
Hypothesis Hext : ext_mem_ok h extra = true.
Hypothesis Hpext : ext_ptr_ok h pextra = true.
Hypothesis Hdisj : forall k o, mget (M1e c hbuf T key seed (Z.of_N cm) (Z.of_N hm)) k = Some o -> mget extra k = None.
Hypothesis Hnosz : no_sizeof_names extra = true.
Hypothesis Hnoal : no_alloc_keys pextra = true.
Notation PW := (PW2 hbuf T P key seed cm hm h n extra pextra ke).
Notation g := (wGP PW).
Notation F1' := (F1 T P seed cm hm).
Notation A0' := (A0 c hbuf T key seed cm hm extra).

Lemma M6_MC0 : RefineE2EfSetup2B1.M6 c hbuf T P key seed cm hm h n extra pextra ke = MC0 c hbuf T P key seed cm hm h n extra pextra ke.
Proof.
  unfold RefineE2EfSetup2B1.M6, MC0, MRc. rewrite (RefineE2EfSetup2A.A0_split c hbuf T P key seed cm hm h n extra pextra ke) by assumption. rewrite <- !app_assoc. reflexivity.
Qed.

(* the call iobuffer->set_buffergroup(T, fin, out, 1) *)
Lemma set_buffergroup_call : forall l0 p0,
  call whole_prog [] (100 + 2 * T) "buffergroup::set_buffergroup/4" g [VInt (Z.of_nat T); VPtr "fin" 0; VPtr "fout" 0; VInt 1]
       {| mem := (A0' ++ seg3z hbuf T P key seed cm hm h n extra pextra ke)%list; loc := l0; pre := p0; files := F1';
          ptrs := PtG hbuf T P key seed cm hm h n extra pextra ke; fresh := S h |} =
  MiniC.Ok (None, {| mem := MB1 c hbuf T P key seed cm hm h n extra pextra ke; loc := l0; pre := p0; files := F1';
                     ptrs := PtB1 hbuf T P key seed cm hm h n extra pextra ke; fresh := (h + 3)%nat |}).
Proof.
  intros l0 p0.
  destruct (sb_from7_ok c hbuf T P key seed cm hm h n extra pextra ke EP Hn Hext Hpext Hnosz
              (RefineE2EfSetup2B1.sb_l6 hbuf T P key seed cm hm h n extra pextra ke) F1' eq_refl eq_refl eq_refl) as (l' & E7).
  pose proof (RefineE2EfSetup2B1.sb_front_ok c hbuf T P key seed cm hm h n extra pextra ke EP Hn Hext Hpext Hnosz F1' (80 + 2 * T)%nat
                (Normal, {| mem := MB1 c hbuf T P key seed cm hm h n extra pextra ke; loc := l'; pre := g; files := F1';
                            ptrs := PtB1 hbuf T P key seed cm hm h n extra pextra ke; fresh := (h + 3)%nat |}) ltac:(lia)) as FR.
  unfold RefineE2EfSetup2B1.s_sb6 in FR. rewrite M6_MC0 in FR. specialize (FR E7).
  unfold call. rewrite (conc_in_whole _ _ (eq_refl : lget Src_conc.functions "buffergroup::set_buffergroup/4" = Some Src_conc.f_buffergroup_set_buffergroup_4)).
  change (f_params Src_conc.f_buffergroup_set_buffergroup_4) with ["size"; "fin"; "fout"; "ispadding"].
  cbn [bind_params bind mem loc pre files ptrs fresh].
  unfold RefineE2EfSetup2B1.s_sb0, RefineE2EfSetup2B1.sb_body, RefineE2EfSetup2B1.sb_l0 in FR.
  rewrite (exec_mono _ _ _ _ _ _ FR) by lia. reflexivity.
Qed.
Theorem pa_rest_seq : pa_rest_spec c hbuf T P key seed cm hm h n extra pextra ke.
Proof.
  pose proof EP as [Hc Hh1 HT1 HP Hkey Hsd Hcm Hhm HsP HsT HsS].
  unfold pa_rest_spec.
  set (l1 := lset (pa_locs2 hbuf T P key seed cm hm h n extra pextra ke) "iobuffer" (VPtr g 0)).
  destruct (pa_tail_ok c hbuf T P key seed cm hm h n extra pextra ke EP Hke Hn ivc Hivo Hivl Hext Hpext Hdisj Hnosz Hnoal l1 eq_refl eq_refl eq_refl) as (lY & ET).
  exists (S (S (S (300 + 2 * T)))), (SMf key ivc (h + 4) T), lY.
  split; [intros i Hi; apply (srep_SM c hbuf T P key seed cm hm h n extra pextra ke EP Hn ivc Hivl Hiv16 Hext Hpext Hdisj i Hi)|].
  unfold pa_rest, pa_body, s_snd, s_pa0. cbn [f_body Src_whole.f_runcrypt_prepare_AES_3].
  (* iobuffer = $t1 *)
  rewrite exec_seq, exec_set. cbn [eval bind loc]. change (lget (pa_locs2 hbuf T P key seed cm hm h n extra pextra ke) "$t1") with (Some (VPtr g 0)).
  cbn [bind]. unfold with_loc. cbn [mem loc pre files ptrs fresh]. fold l1.
  (* iobuffer->set_buffergroup(threads_num, fin, out, cmode) *)
  rewrite exec_seq.
  assert (Ethr : mget (A0' ++ seg3z hbuf T P key seed cm hm h n extra pextra ke)%list "rc.threads_num" = Some {| o_ty := U8; o_cells := [wrap U8 (Z.of_nat T)] |}).
  { unfold A0. rewrite <- app_assoc, RefineConcMem.mget_app. reflexivity. }
  assert (Efin : lget (PtG hbuf T P key seed cm hm h n extra pextra ke) "rc.fin" = Some (VPtr "fin" 0)).
  { unfold PtG. rewrite lget_lset_other' by discriminate. unfold Pt0. rewrite <- app_assoc, RefineConcMem.lget_app. reflexivity. }
  assert (Eout : lget (PtG hbuf T P key seed cm hm h n extra pextra ke) "rc.out" = Some (VPtr "fout" 0)).
  { unfold PtG. rewrite lget_lset_other' by discriminate. unfold Pt0. rewrite <- app_assoc, RefineConcMem.lget_app. reflexivity. }
  rewrite (RefineFileBase.x_scall whole_prog [] (300 + 2 * T) None "buffergroup::set_buffergroup/4" (Some (EVar "iobuffer"))
             [ECast U32 (ELoad U8 (EField "threads_num")); EPtrVar (EField "fin"); EPtrVar (EField "out"); EVar "cmode"]
             {| mem := (A0' ++ seg3z hbuf T P key seed cm hm h n extra pextra ke)%list; loc := l1; pre := "rc."; files := F1';
                ptrs := PtG hbuf T P key seed cm hm h n extra pextra ke; fresh := S h |}
             [VInt (Z.of_nat T); VPtr "fin" 0; VPtr "fout" 0; VInt 1] g None
             {| mem := MB1 c hbuf T P key seed cm hm h n extra pextra ke; loc := l1; pre := "rc."; files := F1';
                ptrs := PtB1 hbuf T P key seed cm hm h n extra pextra ke; fresh := (h + 3)%nat |}
             {| mem := MB1 c hbuf T P key seed cm hm h n extra pextra ke; loc := l1; pre := "rc."; files := F1';
                ptrs := PtB1 hbuf T P key seed cm hm h n extra pextra ke; fresh := (h + 3)%nat |}).
  - cbn [bind set_ret]. replace (S (300 + 2 * T)) with (301 + 2 * T)%nat by lia.
    fold pa_body. change (s_snd (s_snd (s_snd (s_snd pa_body)))) with pa_tail.
    replace (h + 3)%nat with (h + 3)%nat in ET by reflexivity.
    apply (exec_mono _ _ _ _ _ _ ET). lia.
  - cbn [eval_list eval bind as_int loc pre mem ptrs append]. rewrite Ethr, Efin, Eout. cbn [bind].
    change (load_obj {| o_ty := U8; o_cells := [wrap U8 (Z.of_nat T)] |} U8 0) with (MiniC.Ok (wrap U8 (wrap U8 (Z.of_nat T))) : res Z).
    cbn [bind as_int]. rewrite !(wrap_U8_small (Z.of_nat T)) by lia. rewrite (wrap_U32_small (Z.of_nat T)) by lia.
    change (lget l1 "cmode") with (Some (VInt 1)). reflexivity.
  - reflexivity.
  - apply (call_mono whole_prog [] (100 + 2 * T) _ _ _ _ _ (set_buffergroup_call l1 "rc.")). lia.
  - reflexivity.
Qed.
End PA.

(* the target, with the hypotheses as given in PARALLEL3 (ivo any U8 object) *)
Theorem pa_rest_ok : forall (c hbuf T : nat) (P key seed : list N) (cm hm : N) (h n : nat) (extra : memory) (pextra : locs) (ke : mkind) (ivo : object),
  enc_params c hbuf T P key seed cm hm -> create true cm = Some ke -> (n < h)%nat ->
  mget extra (heap_name n) = Some ivo -> o_ty ivo = U8 -> (16 <= List.length (o_cells ivo))%nat ->
  firstn 16 (o_cells ivo) = map Z.of_N (firstn 16 (iv_chain seed T)) ->
  ext_mem_ok h extra = true -> ext_ptr_ok h pextra = true ->
  (forall k o, mget (M1e c hbuf T key seed (Z.of_N cm) (Z.of_N hm)) k = Some o -> mget extra k = None) ->
  no_sizeof_names extra = true -> no_alloc_keys pextra = true ->
  pa_rest_spec c hbuf T P key seed cm hm h n extra pextra ke.
Proof.
  intros c hbuf T P key seed cm hm h n extra pextra ke [ty ivc] EP Hke Hn Hivo Hty Hl H16 Hext Hpext Hdisj Hnosz Hnoal.
  cbn [o_ty o_cells] in Hty, Hl, H16. subst ty.
  exact (pa_rest_seq c hbuf T P key seed cm hm h n extra pextra ke EP Hke Hn ivc Hivo Hl H16 Hext Hpext Hdisj Hnosz Hnoal).
Qed.
Print Assumptions pa_rest_ok.
