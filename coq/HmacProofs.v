(* Proofs for C08 (primitive part): hmac::getres of fheader.cpp is RFC 2104 HMAC with the selected
   hash over the stream; tag length; cmphmac compares every byte; unknown hash number -> no tag. *)
From Coq Require Import NArith List Bool Arith Lia PeanoNat.
From Wencry Require Import Bytes HashSpec HashModel HashProofs.
From Wencry.Gen Require Import HashConst.
From Wencry.Gen Require Layout.
Import ListNotations.
Local Open Scope N_scope.

Lemma ipad_eq : Layout.hmac_ipad = 0x36. Proof. vm_compute. reflexivity. Qed.
Lemma opad_eq : Layout.hmac_opad = 0x5c. Proof. vm_compute. reflexivity. Qed.

Lemma get_hasher_le2 hm : hm <= 2 -> exists a, get_hasher hm = Some a.
Proof.
  intro H. assert (E : hm = 0 \/ hm = 1 \/ hm = 2) by lia.
  destruct E as [->|[->| ->]]; eexists; reflexivity.
Qed.

Lemma C08_tag_is_rfc2104_hmac_proof : forall hbuf hm key msg,
  (1 <= hbuf)%nat -> hm <= 2 -> block16 key -> bytesb msg = true ->
  8 * N.of_nat (128 + length msg) < 2 ^ 64 ->
  hmac_model hbuf hm key msg = Some (hmac_spec (hash_spec hm) key msg).
Proof.
  intros hbuf hm key msg Hh Hhm [Hk _] _ Hsz.
  destruct (get_hasher_le2 hm Hhm) as [a Ha].
  unfold hmac_model. rewrite Ha.
  rewrite (firstn_all2 key) by lia.
  set (key1 := key ++ zeros 48).
  assert (Hk1 : length key1 = 64%nat).
  { unfold key1. rewrite app_length, zeros_length, Hk. reflexivity. }
  rewrite ipad_eq, opad_eq.
  set (h1 := map (fun x => N.lxor x 54) key1).
  assert (Hh1 : length h1 = 64%nat) by (unfold h1; rewrite map_length; exact Hk1).
  rewrite pow64 in Hsz.
  rewrite (file_std hbuf hm a (Some h1) msg Hh Ha Hh1) by (rewrite pow64; lia).
  cbn [pre_bytes].
  (* the inner digest has the digest length *)
  assert (Hin : (length (hash_spec hm (h1 ++ msg)) <= 32)%nat).
  { rewrite <- (string_std hm a) by (try exact Ha; rewrite app_length, Hh1, pow64; lia).
    destruct (getStringHash_length hm a (h1 ++ msg) Ha) as [-> ->].
    destruct hm as [|[| |]]; lia. }
  rewrite (string_std hm a) by
    (try exact Ha; rewrite !app_length, map_length, Hk1, pow64; lia).
  f_equal. unfold hmac_spec. cbv zeta. rewrite Hk.
  change (64 <? 16)%nat with false. cbv iota. rewrite Hk. change (64 - 16)%nat with 48%nat.
  fold key1. unfold h1.
  rewrite (map_ext (fun x => N.lxor x 92) (N.lxor 92)) by (intro; apply N.lxor_comm).
  rewrite (map_ext (fun x => N.lxor x 54) (N.lxor 54)) by (intro; apply N.lxor_comm).
  reflexivity.
Qed.

Example C08_tag_nonvacuous :
  (1 <= 1)%nat /\ 2 <= 2 /\ block16 (repeat 11 16) /\ bytesb [72; 105] = true /\
  8 * N.of_nat (128 + length [72; 105]) < 2 ^ 64.
Proof. split; [apply le_n|]. split; [discriminate|]. repeat split. Qed.

Lemma C08_tag_length_proof : forall hbuf hm key msg t,
  hmac_model hbuf hm key msg = Some t ->
  length t = match hm with 0 => 20%nat | 1 => 16%nat | _ => 32%nat end.
Proof.
  intros hbuf hm key msg t H. unfold hmac_model in H. cbv zeta in H.
  destruct (get_hasher hm) as [a|] eqn:Ha; [|discriminate H].
  destruct (getFileHash _ _ _ _) as [inner|]; [|discriminate H].
  injection H as <-.
  rewrite (proj1 (getStringHash_length hm a _ Ha)).
  exact (proj2 (getStringHash_length hm a [] Ha)).
Qed.

Example C08_tag_length_nonvacuous :
  exists t, hmac_model 1 1 (repeat 11 16) [72; 105] = Some t /\ length t = 16%nat.
Proof. eexists. split; [vm_compute; reflexivity|reflexivity]. Qed.

Lemma list_eqb_eq : forall a b, list_eqb a b = true <-> a = b.
Proof.
  unfold list_eqb.
  induction a as [|x a IH]; intros [|y b]; cbn [length combine forallb fst snd Nat.eqb andb];
    split; intro H; try reflexivity; try discriminate H.
  - destruct (N.eqb_spec x y) as [->|]; [|rewrite andb_false_r in H; discriminate H].
    f_equal. apply IH. rewrite andb_true_l in H. exact H.
  - injection H as -> ->. rewrite N.eqb_refl, andb_true_l. apply IH. reflexivity.
Qed.

Lemma C08_compare_all_bytes_proof : forall computed stored,
  cmphmac computed stored = true <-> firstn (length computed) stored = computed.
Proof.
  intros computed stored. unfold cmphmac. rewrite list_eqb_eq. split; intro H; symmetry; exact H.
Qed.

Lemma C08_unknown_hash_has_no_tag_proof : forall hbuf hm key msg,
  2 < hm -> hmac_model hbuf hm key msg = None.
Proof.
  intros hbuf hm key msg H. unfold hmac_model.
  rewrite (proj2 (C07_hasher_domain_proof hm) H). reflexivity.
Qed.

Example C08_unknown_nonvacuous : 2 < 3 /\ hmac_model 1 3 (repeat 11 16) [72; 105] = None.
Proof. split; reflexivity. Qed.

(* Standard vectors.  RFC 2202 case 1 for HMAC-MD5 has a 16-byte key (the tool's key size) and goes
   through the model; RFC 2202 case 1 (HMAC-SHA1) and RFC 4231 case 1 (HMAC-SHA-256) have 20-byte
   keys and check the specification side. *)
Definition hi_there : list N := [72; 105; 32; 84; 104; 101; 114; 101].
Example rfc2202_md5_case1_model :
  hmac_model 1 1 (repeat 11 16) hi_there =
  Some [0x92;0x94;0x72;0x7a;0x36;0x38;0xbb;0x1c;0x13;0xf4;0x8e;0xf8;0x15;0x8b;0xfc;0x9d].
Proof. vm_compute. reflexivity. Qed.
Example rfc2202_sha1_case1_spec :
  hmac_spec sha1 (repeat 11 20) hi_there =
  [0xb6;0x17;0x31;0x86;0x55;0x05;0x72;0x64;0xe2;0x8b;0xc0;0xb6;0xfb;0x37;0x8c;0x8e;0xf1;0x46;0xbe;0x00].
Proof. vm_compute. reflexivity. Qed.
Example rfc4231_sha256_case1_spec :
  hmac_spec sha256 (repeat 11 20) hi_there =
  [0xb0;0x34;0x4c;0x61;0xd8;0xdb;0x38;0x53;0x5c;0xa8;0xaf;0xce;0xaf;0x0b;0xf1;0x2b;
   0x88;0x1d;0xc2;0x00;0xc9;0x83;0x3d;0xa7;0x26;0xe9;0x37;0x6c;0x2e;0x32;0xcf;0xf7].
Proof. vm_compute. reflexivity. Qed.

(* model = RFC 2104 construction over the specification hashes, through the file buffer with
   refills, for the three hash numbers *)
Example hmac_vectors :
  let key := repeat 11 16 in let msg := map N.of_nat (seq 0 150) in
  hmac_model 1 0 key msg = Some (hmac_spec sha1 key msg) /\
  hmac_model 1 1 key msg = Some (hmac_spec md5 key msg) /\
  hmac_model 2 2 key msg = Some (hmac_spec sha256 key msg).
Proof. vm_compute. repeat split. Qed.
