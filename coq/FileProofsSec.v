(* Proofs for the file-level security properties C05, C06, C11, C12, C13, C18.
   Statements are those of Properties_C05/C06/C11/C12/C13/C18.v (each theorem there is closed by
   [exact <name>_proof]).  From the sibling proof files only C01_roundtrip_proof (FileProofsDec) is
   used; the layout of the encrypted file is read off the model (enc_writes) directly. *)
(* FileProofsDec is imported first so that the names of the libraries below take precedence *)
From Wencry Require Import FileProofsDec.
From Coq Require Import NArith List Bool Arith Lia PeanoNat.
From Wencry Require Import Bytes AesSpec AesModel ModesSpec ModesModel HashSpec HashModel HashProofs HmacProofs ModesProofs
  FileModel FileSpec FileProps.
From Wencry.Gen Require Import HashConst.
From Wencry.Gen Require Layout.
Import ListNotations.
Local Open Scope N_scope.

(* ------------------------------------------------------------------------------------ *)
(** * 0. hmac::getres = RFC 2104 HMAC for EVERY stream length (the 64-bit counter of the
      model and the 64-bit length field of the standard wrap in the same way)            *)
(* ------------------------------------------------------------------------------------ *)

Lemma shr_mod64 x k : k + 8 <= 64 -> N.shiftr (x mod 2 ^ 64) k mod 256 = N.shiftr x k mod 256.
Proof.
  intro Hk. change 256 with (2 ^ 8). apply N.bits_inj. intro n.
  destruct (N.lt_ge_cases n 8) as [Hn|Hn].
  - rewrite !N.mod_pow2_bits_low by exact Hn. rewrite !N.shiftr_spec'.
    apply N.mod_pow2_bits_low. lia.
  - rewrite !N.mod_pow2_bits_high by exact Hn. reflexivity.
Qed.

Lemma be64_mod64 x : be64_bytes (x mod 2 ^ 64) = be64_bytes x.
Proof. unfold be64_bytes. cbn [map]. repeat (apply (f_equal2 cons); [apply shr_mod64; lia|]). reflexivity. Qed.
Lemma le64_mod64 x : le64_bytes (x mod 2 ^ 64) = le64_bytes x.
Proof. unfold le64_bytes. cbn [map]. repeat (apply (f_equal2 cons); [apply shr_mod64; lia|]). reflexivity. Qed.
Lemma lenb_mod64 a x : lenb a (x mod 2 ^ 64) = lenb a x.
Proof. unfold lenb. destruct (_ =? _); [apply be64_mod64|apply le64_mod64]. Qed.

Lemma addtotal_total_mod st len X :
  len <= 64 -> hs_total st = X mod 2 ^ 64 ->
  hs_total (addtotal st len) = (X + 8 * len) mod 2 ^ 64.
Proof.
  intros Hl Hs. unfold addtotal. cbn [hs_total]. rewrite Hs.
  rewrite (N.mod_small (len * 8) w32) by (unfold w32; lia).
  change (2 ^ totalsize_bits) with (2 ^ 64).
  rewrite N.add_mod_idemp_l by discriminate. f_equal. lia.
Qed.

Lemma getHash_block_total_mod a st blk X :
  hs_total st = X mod 2 ^ 64 -> hs_total (getHash_block a st blk) = (X + 512) mod 2 ^ 64.
Proof.
  intro Hs. unfold getHash_block.
  rewrite (addtotal_total_mod _ 64 X); [reflexivity|lia|exact Hs].
Qed.

Lemma getHash_final_h_gen a st s n :
  wf_final a -> (length s < 64)%nat ->
  hs_total st = (8 * N.of_nat n) mod 2 ^ 64 -> (n mod 64 = 0)%nat ->
  hs_h (getHash_final a st s) =
  fold_left (ha_compress a) (chunks 64 (spec_tail a n s)) (hs_h st).
Proof.
  intros [Hthr Hpos] Hlen Htot Hn.
  unfold getHash_final. cbv zeta. rewrite Hthr, Hpos.
  change (N.to_nat 56) with 56%nat.
  set (fl := length s) in *.
  set (st1 := addtotal st (N.of_nat fl)).
  assert (Ht1 : hs_total st1 = (8 * N.of_nat (n + fl)) mod 2 ^ 64).
  { unfold st1. rewrite (addtotal_total_mod _ _ (8 * N.of_nat n)); [f_equal; lia|lia|exact Htot]. }
  assert (Hh1 : hs_h st1 = hs_h st) by reflexivity.
  fold (lenb a (hs_total st1)). rewrite Ht1, lenb_mod64.
  unfold spec_tail, tail_of. fold fl.
  destruct (Nat.leb_spec 56 fl) as [Hge|Hlt].
  - rewrite getHash_block_h, getHash_block_h, Hh1.
    rewrite pad_zeros_ge56 by (try assumption; lia).
    replace (119 - fl)%nat with ((63 - fl) + 56)%nat by lia.
    rewrite zeros_app.
    change (firstn 56 (zeros 64)) with (zeros 56).
    set (L := lenb a _).
    replace (s ++ [128] ++ (zeros (63 - fl) ++ zeros 56) ++ L)
      with ((s ++ [128] ++ zeros (63 - fl)) ++ ((zeros 56 ++ L) ++ []))
      by (rewrite app_nil_r, <- !app_assoc; reflexivity).
    assert (Hl1 : length (s ++ [128] ++ zeros (63 - fl)) = 64%nat).
    { rewrite !app_length, zeros_length. cbn [length]. fold fl. lia. }
    assert (Hl2 : length (zeros 56 ++ L) = 64%nat).
    { rewrite app_length, zeros_length. unfold L. rewrite lenb_length. reflexivity. }
    rewrite chunks_app_exact by (try exact Hl1; lia).
    rewrite chunks_app_exact by (try exact Hl2; lia).
    reflexivity.
  - rewrite getHash_block_h, Hh1.
    rewrite pad_zeros_lt56 by assumption.
    set (L := lenb a _).
    replace (63 - fl)%nat with ((55 - fl) + 8)%nat by lia.
    rewrite zeros_app.
    assert (Hl1 : length (s ++ [128] ++ zeros (55 - fl)) = 56%nat).
    { rewrite !app_length, zeros_length. cbn [length]. fold fl. lia. }
    replace (s ++ [128] ++ zeros (55 - fl) ++ zeros 8)
      with ((s ++ [128] ++ zeros (55 - fl)) ++ zeros 8)
      by (rewrite <- !app_assoc; reflexivity).
    rewrite firstn_app_exact by exact Hl1.
    replace (s ++ [128] ++ zeros (55 - fl) ++ L) with ((s ++ [128] ++ zeros (55 - fl)) ++ L)
      by (rewrite <- !app_assoc; reflexivity).
    rewrite chunks_single; [reflexivity|lia|].
    rewrite app_length, Hl1. unfold L. rewrite lenb_length. reflexivity.
Qed.

Lemma string_loop_spec_gen a : wf_final a -> forall fuel st s n,
  (length s / 64 < fuel)%nat ->
  hs_total st = (8 * N.of_nat n) mod 2 ^ 64 -> (n mod 64 = 0)%nat ->
  hs_h (string_loop a fuel st s) =
  fold_left (ha_compress a) (chunks 64 (spec_tail a n s)) (hs_h st).
Proof.
  intro Hwf. induction fuel as [|f IH]; intros st s n Hfuel Htot Hn; [lia|].
  cbn [string_loop]. destruct (Nat.leb_spec 64 (length s)) as [Hge|Hlt].
  - assert (Hsk : length (skipn 64 s) = (length s - 64)%nat) by apply skipn_length.
    assert (Hfi : length (firstn 64 s) = 64%nat) by (apply firstn_length_le; exact Hge).
    rewrite (IH _ _ (n + 64)%nat).
    + rewrite getHash_block_h. unfold spec_tail.
      replace (n + 64 + length (skipn 64 s))%nat with (n + length s)%nat by lia.
      set (T := tail_of a _).
      assert (E : s ++ T = firstn 64 s ++ (skipn 64 s ++ T))
        by (rewrite app_assoc, firstn_skipn; reflexivity).
      rewrite E, (chunks_app_exact 64 (firstn 64 s)) by (try exact Hfi; lia). reflexivity.
    + rewrite Hsk.
      assert (E : (length s = 64 + (length s - 64))%nat) by lia.
      rewrite E in Hfuel.
      replace (64 + (length s - 64))%nat with ((length s - 64) + 1 * 64)%nat in Hfuel by lia.
      rewrite Nat.div_add in Hfuel by discriminate. lia.
    + rewrite (getHash_block_total_mod _ _ _ _ Htot). f_equal. lia.
    + replace (n + 64)%nat with (n + 1 * 64)%nat by lia.
      rewrite Nat.mod_add by discriminate. exact Hn.
  - apply getHash_final_h_gen; assumption.
Qed.

Lemma string_std_gen alg a m : get_hasher alg = Some a -> getStringHash a m = hash_spec alg m.
Proof.
  intro H. rewrite <- (fold_std alg a m H). unfold getStringHash. f_equal.
  rewrite pad_with_spec_tail.
  apply (string_loop_spec_gen a (get_hasher_wf _ _ H) _ (reset a) m 0%nat); [lia|reflexivity|reflexivity].
Qed.

Lemma file_std_gen hbuf alg a pre m :
  (1 <= hbuf)%nat -> get_hasher alg = Some a ->
  match pre with None => True | Some p => length p = 64%nat end ->
  getFileHash hbuf a pre m = Some (hash_spec alg (pre_bytes pre ++ m)).
Proof.
  intros Hh H Hp. rewrite getFileHash_string by assumption. f_equal.
  rewrite <- (fold_std alg a _ H). f_equal.
  rewrite pad_with_spec_tail.
  assert (Hl : (length (pre_bytes pre ++ m) <= 64 + length m)%nat).
  { rewrite app_length. destruct pre as [p|]; cbn [pre_bytes length]; lia. }
  apply (string_loop_spec_gen a (get_hasher_wf _ _ H) _ (reset a) _ 0%nat);
    [|reflexivity|reflexivity].
  pose proof (div64_bounds (length (pre_bytes pre ++ m))).
  pose proof (div64_bounds (length m)). nia.
Qed.

(* the model's tag is the RFC 2104 HMAC, with no bound on the stream and no byte-range hypothesis *)
Lemma hmac_model_is_spec hbuf hm key msg :
  (1 <= hbuf)%nat -> hm <= 2 -> length key = 16%nat ->
  hmac_model hbuf hm key msg = Some (hmac_spec (hash_spec hm) key msg).
Proof.
  intros Hh Hhm Hk.
  destruct (get_hasher_le2 hm Hhm) as [a Ha].
  unfold hmac_model. rewrite Ha.
  rewrite (firstn_all2 key) by lia.
  set (key1 := key ++ zeros 48).
  assert (Hk1 : length key1 = 64%nat).
  { unfold key1. rewrite app_length, zeros_length, Hk. reflexivity. }
  rewrite ipad_eq, opad_eq.
  set (h1 := map (fun x => N.lxor x 54) key1).
  assert (Hh1 : length h1 = 64%nat) by (unfold h1; rewrite map_length; exact Hk1).
  rewrite (file_std_gen hbuf hm a (Some h1) msg Hh Ha Hh1).
  cbn [pre_bytes].
  rewrite (string_std_gen hm a _ Ha).
  f_equal. unfold hmac_spec. cbv zeta. rewrite Hk.
  change (64 <? 16)%nat with false. cbv iota. rewrite Hk. change (64 - 16)%nat with 48%nat.
  fold key1. unfold h1.
  rewrite (map_ext (fun x => N.lxor x 92) (N.lxor 92)) by (intro; apply N.lxor_comm).
  rewrite (map_ext (fun x => N.lxor x 54) (N.lxor 54)) by (intro; apply N.lxor_comm).
  reflexivity.
Qed.

(* totality: for hm <= 2 the tag computation always returns, whatever the key (even a short one) *)
Lemma hmac_model_total hbuf hm key msg :
  (1 <= hbuf)%nat -> hm <= 2 -> exists t, hmac_model hbuf hm key msg = Some t.
Proof.
  intros Hh Hhm. destruct (get_hasher_le2 hm Hhm) as [a Ha].
  unfold hmac_model. rewrite Ha.
  set (h1 := map _ _).
  assert (Hle : (length h1 <= 64)%nat).
  { unfold h1. rewrite map_length, app_length, zeros_length, firstn_length. lia. }
  destruct (Nat.eq_dec (length h1) 64) as [E|E].
  - rewrite (file_std_gen hbuf hm a (Some h1) msg Hh Ha E). eexists. reflexivity.
  - unfold getFileHash, fb_new. cbn [option_map].
    replace (length msg / 64 + 3)%nat with (S (length msg / 64 + 2)) by lia.
    cbn [file_loop]. rewrite fb_read_extra.
    assert (E2 : (length (firstn 64 h1) =? 64)%nat = false).
    { apply Nat.eqb_neq. rewrite firstn_length. lia. }
    rewrite E2. cbn [option_map]. eexists. reflexivity.
Qed.

(* ------------------------------------------------------------------------------------ *)
(** * 1. Decision logic of verify / ver / dec                                              *)
(* ------------------------------------------------------------------------------------ *)

Lemma hmac_mark_eq : hmac_mark = 10%nat. Proof. reflexivity. Qed.
Lemma iv_mark_eq : iv_mark = 48%nat. Proof. reflexivity. Qed.
Lemma text_mark_eq T : text_mark T = (48 + 20 * T)%nat. Proof. reflexivity. Qed.
Lemma magic_bytes_eq : magic_bytes = spec_magic. Proof. vm_compute. reflexivity. Qed.

Lemma C05_success_requires_valid_tag_proof : forall c hbuf T F' key out,
  dec c hbuf T F' key = Ok out -> verify hbuf F' key = Ok 0.
Proof.
  intros c hbuf T F' key out H. unfold dec in H.
  destruct (verify hbuf F' key) as [code| | |]; try discriminate H.
  destruct code as [|p]; [reflexivity|discriminate H].
Qed.

Lemma C06_rejected_means_no_output_proof : forall c hbuf T F key code,
  verify hbuf F key = Ok code -> code <> 0 ->
  dec c hbuf T F key = Fail code /\ ver hbuf F key = Ok false.
Proof.
  intros c hbuf T F key code H Hc. unfold dec, ver. rewrite H.
  destruct code as [|p]; [contradiction Hc; reflexivity|]. split; reflexivity.
Qed.

Lemma ver_true_iff hbuf F key : ver hbuf F key = Ok true <-> verify hbuf F key = Ok 0.
Proof.
  unfold ver. destruct (verify hbuf F key) as [code| | |]; split; intro H; try discriminate H.
  - destruct code as [|p]; [reflexivity|discriminate H].
  - injection H as ->. reflexivity.
Qed.

Lemma C12_decrypt_accepts_only_what_verify_accepts_proof : forall c hbuf T F key,
  (forall out, dec c hbuf T F key = Ok out -> ver hbuf F key = Ok true) /\
  (ver hbuf F key = Ok false -> exists code, dec c hbuf T F key = Fail code).
Proof.
  intros c hbuf T F key. split.
  - intros out H. apply ver_true_iff. exact (C05_success_requires_valid_tag_proof _ _ _ _ _ _ H).
  - intro H. unfold ver in H. unfold dec.
    destruct (verify hbuf F key) as [code| | |]; try discriminate H.
    destruct code as [|p]; [discriminate H|]. eexists. reflexivity.
Qed.

Lemma C06_all_key_bytes_enter_the_mac_proof : forall key key',
  block16 key -> block16 key' -> key <> key' ->
  map (N.lxor 54) (key ++ zeros 48) <> map (N.lxor 54) (key' ++ zeros 48) /\
  map (N.lxor 92) (key ++ zeros 48) <> map (N.lxor 92) (key' ++ zeros 48).
Proof.
  intros key key' _ _ Hne.
  assert (Inj : forall c a b, map (N.lxor c) a = map (N.lxor c) b -> a = b).
  { intros c. induction a as [|x a IH]; intros [|y b] H; try reflexivity; try discriminate H.
    cbn [map] in H. injection H as Hx Hr. f_equal; [|apply IH; exact Hr].
    rewrite <- (N.lxor_0_l x), <- (N.lxor_nilpotent c), N.lxor_assoc, Hx, <- N.lxor_assoc,
      N.lxor_nilpotent, N.lxor_0_l. reflexivity. }
  split; intro H; apply Inj in H; apply app_inv_tail in H; exact (Hne H).
Qed.

Example C06_all_key_bytes_nonvacuous :
  block16 (repeat 1 16) /\ block16 (repeat 1 15 ++ [2]) /\ repeat 1 16 <> repeat 1 15 ++ [2].
Proof. repeat split. intro H. discriminate H. Qed.

(* verify accepts exactly: >= 74 bytes, magic, mode numbers in range, tag field = computed tag *)
Lemma verify_ok0 hbuf F key :
  verify hbuf F key = Ok 0 <->
  (74 <= length F)%nat /\ firstn 8 F = magic_bytes /\ nth 8 F 0 <= 4 /\ nth 9 F 0 <= 2 /\
  exists t, hmac_model hbuf (nth 9 F 0) key (skipn 48 F) = Some t /\
            firstn (length t) (firstn 64 (skipn 10 F)) = t.
Proof.
  unfold verify. rewrite hmac_mark_eq, iv_mark_eq. change (10 + 64)%nat with 74%nat.
  destruct (Nat.ltb_spec (length F) 8) as [H8|H8].
  { split; [discriminate|]. intros [H _]. lia. }
  destruct (list_eqb (firstn 8 F) magic_bytes) eqn:Hm; cbn [negb].
  2:{ split; [discriminate|]. intros [_ [H _]]. apply list_eqb_eq in H. congruence. }
  apply list_eqb_eq in Hm.
  destruct (Nat.ltb_spec (length F) 74) as [H74|H74].
  { split; [discriminate|]. intros [H _]. lia. }
  destruct (N.ltb_spec 4 (nth 8 F 0)) as [Hc|Hc]; cbn [orb].
  { split; [discriminate|]. intros [_ [_ [H _]]]. lia. }
  destruct (N.ltb_spec 2 (nth 9 F 0)) as [Hh|Hh].
  { split; [discriminate|]. intros [_ [_ [_ [H _]]]]. lia. }
  destruct (hmac_model hbuf (nth 9 F 0) key (skipn 48 F)) as [t|].
  2:{ split; [discriminate|]. intros [_ [_ [_ [_ [t [H _]]]]]]. discriminate H. }
  destruct (cmphmac t (firstn 64 (skipn 10 F))) eqn:Hcmp.
  - apply C08_compare_all_bytes_proof in Hcmp. split; [|reflexivity]. intros _.
    repeat (split; [assumption|]). exists t. split; [reflexivity|exact Hcmp].
  - split; [discriminate|]. intros [_ [_ [_ [_ [t' [Ht Hf]]]]]]. injection Ht as <-.
    apply C08_compare_all_bytes_proof in Hf. congruence.
Qed.

(* ------------------------------------------------------------------------------------ *)
(** * 2. C11: totality of verify and clean failure                                         *)
(* ------------------------------------------------------------------------------------ *)

Lemma verify_total_gen hbuf F key : (1 <= hbuf)%nat ->
  exists code, verify hbuf F key = Ok code /\ code <= 4.
Proof.
  intro Hh. unfold verify.
  destruct (length F <? 8)%nat; [exists 4; split; [reflexivity|lia]|].
  destruct (negb _); [exists 4; split; [reflexivity|lia]|].
  destruct (length F <? hmac_mark + 64)%nat; [exists 1; split; [reflexivity|lia]|].
  destruct (N.ltb_spec 4 (nth 8 F 0)) as [Hc|Hc]; cbn [orb]; [exists 3; split; [reflexivity|lia]|].
  destruct (N.ltb_spec 2 (nth 9 F 0)) as [Hm|Hm]; [exists 3; split; [reflexivity|lia]|].
  destruct (hmac_model_total hbuf (nth 9 F 0) key (skipn iv_mark F) Hh Hm) as [t ->].
  destruct (cmphmac _ _); [exists 0|exists 2]; (split; [reflexivity|lia]).
Qed.

Lemma C11_verify_total_proof : forall hbuf F key,
  (1 <= hbuf)%nat -> N.of_nat (length F) < 2 ^ 56 ->
  exists code, verify hbuf F key = Ok code /\ code <= 4.
Proof. intros hbuf F key Hh _. apply verify_total_gen, Hh. Qed.

Example C11_verify_total_nonvacuous : (1 <= 1)%nat /\ N.of_nat (length [1; 2; 3]) < 2 ^ 56.
Proof. split; [apply le_n|reflexivity]. Qed.

Lemma C11_unauthentic_input_fails_cleanly_proof : forall c hbuf T F key,
  (1 <= hbuf)%nat -> N.of_nat (length F) < 2 ^ 56 ->
  verify hbuf F key <> Ok 0 ->
  exists code, 1 <= code <= 4 /\ dec c hbuf T F key = Fail code /\ ver hbuf F key = Ok false.
Proof.
  intros c hbuf T F key Hh _ Hne.
  destruct (verify_total_gen hbuf F key Hh) as [code [Hv Hc]].
  assert (Hc0 : code <> 0) by (intros ->; exact (Hne Hv)).
  exists code. split; [lia|]. exact (C06_rejected_means_no_output_proof c hbuf T F key code Hv Hc0).
Qed.

Example C11_unauthentic_nonvacuous :
  (1 <= 1)%nat /\ N.of_nat (length [1; 2; 3]) < 2 ^ 56 /\ verify 1 [1; 2; 3] [] <> Ok 0.
Proof. split; [apply le_n|]. split; [reflexivity|]. vm_compute. discriminate. Qed.

Lemma C11_structural_rejections_proof : forall hbuf F key,
  ((length F < 8)%nat -> verify hbuf F key = Ok 4) /\
  ((8 <= length F < 74)%nat -> verify hbuf F key = Ok 4 \/ verify hbuf F key = Ok 1) /\
  ((74 <= length F)%nat -> firstn 8 F = magic_bytes -> (4 < nth 8 F 0 \/ 2 < nth 9 F 0) -> verify hbuf F key = Ok 3).
Proof.
  intros hbuf F key. unfold verify. rewrite hmac_mark_eq. change (10 + 64)%nat with 74%nat.
  split; [|split].
  - intro H. destruct (Nat.ltb_spec (length F) 8); [reflexivity|lia].
  - intro H. destruct (Nat.ltb_spec (length F) 8); [lia|].
    destruct (negb _); [left; reflexivity|].
    destruct (Nat.ltb_spec (length F) 74); [right; reflexivity|lia].
  - intros H Hm Hr. destruct (Nat.ltb_spec (length F) 8); [lia|].
    rewrite (proj2 (list_eqb_eq _ _) Hm). cbn [negb].
    destruct (Nat.ltb_spec (length F) 74); [lia|].
    destruct (N.ltb_spec 4 (nth 8 F 0)); cbn [orb]; [reflexivity|].
    destruct (N.ltb_spec 2 (nth 9 F 0)); [reflexivity|lia].
Qed.

(* ------------------------------------------------------------------------------------ *)
(** * 3. The two computed counterexamples (K1: mode byte not authenticated, K2: shared IV) *)
(* ------------------------------------------------------------------------------------ *)

Definition wit_key : list N := map N.of_nat (seq 1 16).
Definition wit_P : list N := map N.of_nat (seq 0 150).
Definition wit_seed : list N := [1; 2; 3].
Definition ok_or_nil (r : result (list N)) : list N := match r with Ok x => x | _ => [] end.

(* K1: c = 16, T = 1, CBC, HMAC-MD5; byte 8 changed from 1 (CBC) to 0 (ECB) *)
Definition wit05_F : list N := ok_or_nil (enc 16 1 1 wit_P wit_key 1 1 wit_seed).
Definition wit05_F' : list N := firstn 8 wit05_F ++ [0] ++ skipn 9 wit05_F.
Definition wit05_P' : list N := ok_or_nil (dec 16 1 1 wit05_F' wit_key).

Lemma nth_agree_sweep (F F' : list N) (n k : nat) :
  length F = n -> length F' = n ->
  forallb (fun i => (i =? k)%nat || (nth i F 0 =? nth i F' 0)) (seq 0 n) = true ->
  forall i, (i < k \/ S k <= i)%nat -> nth i F 0 = nth i F' 0.
Proof.
  intros HF HF' Hall i Hi.
  destruct (Nat.lt_ge_cases i n) as [Hlt|Hge].
  - rewrite forallb_forall in Hall. specialize (Hall i).
    assert (Hin : In i (seq 0 n)) by (apply in_seq; lia).
    apply Hall in Hin. apply orb_true_iff in Hin. destruct Hin as [Hk|He].
    + apply Nat.eqb_eq in Hk. lia.
    + apply N.eqb_eq in He. exact He.
  - rewrite !nth_overflow by lia. reflexivity.
Qed.

Lemma wit05_ep : enc_params 16 1 1 wit_P wit_key wit_seed 1 1.
Proof.
  constructor; try (vm_compute; reflexivity); try lia; try (vm_compute; discriminate).
  split; vm_compute; reflexivity.
Qed.
Lemma wit05_enc : enc 16 1 1 wit_P wit_key 1 1 wit_seed = Ok wit05_F.
Proof. vm_compute. reflexivity. Qed.
Lemma wit05_dec : dec 16 1 1 wit05_F' wit_key = Ok wit05_P'.
Proof. vm_compute. reflexivity. Qed.
Lemma wit05_ne : wit05_P' <> wit_P.
Proof. intro H. apply (f_equal (@length N)) in H. vm_compute in H. discriminate H. Qed.

Lemma C05_mode_byte_refuted_proof : exists c hbuf T P key seed cm hm F F' P',
  enc_params c hbuf T P key seed cm hm /\
  enc c hbuf T P key cm hm seed = Ok F /\
  same_outside 8 9 F F' /\ F' <> F /\
  dec c hbuf T F' key = Ok P' /\ P' <> P.
Proof.
  exists 16%nat, 1%nat, 1%nat, wit_P, wit_key, wit_seed, 1, 1, wit05_F, wit05_F', wit05_P'.
  split; [exact wit05_ep|]. split; [exact wit05_enc|]. split; [|split; [|split; [exact wit05_dec|exact wit05_ne]]].
  - split; [vm_compute; reflexivity|].
    apply (nth_agree_sweep wit05_F wit05_F' 228 8); vm_compute; reflexivity.
  - intro H. apply (f_equal (fun l => nth 8 l 0)) in H. vm_compute in H. discriminate H.
Qed.

(* instances of the hypotheses of the decision-logic lemmas above *)
Example C05_success_nonvacuous : exists out, dec 16 1 1 wit05_F' wit_key = Ok out.
Proof. eexists. exact wit05_dec. Qed.
Example C06_rejected_nonvacuous : verify 1 [1; 2; 3] wit_key = Ok 4 /\ 4 <> 0.
Proof. split; [vm_compute; reflexivity|discriminate]. Qed.
Example C11_structural_nonvacuous :
  let F := magic_bytes ++ [5; 0] ++ zeros 64 in
  (74 <= length F)%nat /\ firstn 8 F = magic_bytes /\ (4 < nth 8 F 0 \/ 2 < nth 9 F 0) /\ verify 1 F [] = Ok 3.
Proof. cbv zeta. split; [vm_compute; lia|]. split; [reflexivity|]. split; [left|]; vm_compute; reflexivity. Qed.

(* K2: c = 4 (64-byte chunks), T = 2, CTR, HMAC-MD5 *)
Definition wit18_F : list N := ok_or_nil (enc 4 1 2 wit_P wit_key 2 1 wit_seed).

Lemma C18_distinct_stream_ivs_refuted_proof : exists c hbuf T P key seed hm F,
  enc_params c hbuf T P key seed 2 hm /\ (2 <= T)%nat /\
  enc c hbuf T P key 2 hm seed = Ok F /\
  let body := skipn (text_mark T) F in
  xorb_bytes (firstn (16 * c) body) (firstn (16 * c) (skipn (16 * c) body)) =
  xorb_bytes (firstn (16 * c) P) (firstn (16 * c) (skipn (16 * c) P)) /\
  firstn (16 * c) P <> firstn (16 * c) (skipn (16 * c) P).
Proof.
  exists 4%nat, 1%nat, 2%nat, wit_P, wit_key, wit_seed, 1, wit18_F.
  split; [|split; [|split]].
  - constructor; try (vm_compute; reflexivity); try lia; try (vm_compute; discriminate).
    split; vm_compute; reflexivity.
  - apply le_n.
  - vm_compute. reflexivity.
  - cbv zeta. split.
    + vm_compute. reflexivity.
    + intro H. apply (f_equal (fun l => nth 0 l 0)) in H. vm_compute in H. discriminate H.
Qed.

(* ------------------------------------------------------------------------------------ *)
(** * 4. Layout of the write sequence and of the encrypted file, read off the model        *)
(* ------------------------------------------------------------------------------------ *)

Lemma hlen_bounds hm : (16 <= hlen hm <= 32)%nat.
Proof. unfold hlen. destruct hm as [|[p|p|]]; lia. Qed.

Lemma skipn_zeros h n : skipn h (zeros n) = zeros (n - h).
Proof.
  unfold zeros. revert n. induction h as [|h IH]; intros [|n]; cbn [skipn repeat Nat.sub]; try reflexivity.
  apply IH.
Qed.
Lemma firstn_zeros h n : (h <= n)%nat -> firstn h (zeros n) = zeros h.
Proof.
  unfold zeros. revert n. induction h as [|h IH]; intros [|n] H; cbn [firstn repeat]; try reflexivity; [lia|].
  f_equal. apply IH. lia.
Qed.
Lemma nth_firstn_lt {A} (d : A) : forall i k (l : list A), (i < k)%nat -> nth i (firstn k l) d = nth i l d.
Proof.
  induction i as [|i IH]; intros [|k] [|x l] H; cbn [firstn nth]; try reflexivity; try lia.
  apply IH. lia.
Qed.

Definition pre10 (cm hm : N) : list N := magic_bytes ++ [cm; hm].
Lemma pre10_length cm hm : length (pre10 cm hm) = 10%nat. Proof. vm_compute. reflexivity. Qed.

(* a file image with a 10-byte prefix, a 38-byte tag field and the authenticated rest *)
Lemma view_skip48 (pre fld rest : list N) :
  length pre = 10%nat -> length fld = 38%nat -> skipn 48 (pre ++ fld ++ rest) = rest.
Proof.
  intros Hp Hf. rewrite app_assoc. apply skipn_app_exact. rewrite app_length, Hp, Hf. reflexivity.
Qed.
Lemma view_skip10 (pre fld rest : list N) :
  length pre = 10%nat -> skipn 10 (pre ++ fld ++ rest) = fld ++ rest.
Proof. intros Hp. apply skipn_app_exact, Hp. Qed.
Lemma view_length (pre fld rest : list N) :
  length pre = 10%nat -> length fld = 38%nat -> length (pre ++ fld ++ rest) = (48 + length rest)%nat.
Proof. intros Hp Hf. rewrite !app_length, Hp, Hf. lia. Qed.
Lemma view_nth9 cm hm X : nth 9 (pre10 cm hm ++ X) 0 = hm.
Proof. vm_compute. reflexivity. Qed.
Lemma view_nth8 cm hm X : nth 8 (pre10 cm hm ++ X) 0 = cm.
Proof. vm_compute. reflexivity. Qed.
Lemma view_magic cm hm X : firstn 8 (pre10 cm hm ++ X) = magic_bytes.
Proof. vm_compute. reflexivity. Qed.

Lemma patch_layout (pre tag rest : list N) :
  length pre = 10%nat -> (length tag <= 38)%nat ->
  patch (pre ++ zeros 38 ++ rest) 10 tag = pre ++ tag ++ zeros (38 - length tag) ++ rest.
Proof.
  intros Hp Ht. unfold patch.
  replace (10 - length (pre ++ zeros 38 ++ rest))%nat with 0%nat
    by (rewrite app_length, Hp; lia).
  change (zeros 0) with (@nil N). rewrite app_nil_r.
  rewrite (firstn_app_exact pre _ 10 Hp).
  rewrite (Nat.add_comm 10), skipn_add, (skipn_app_exact pre _ 10 Hp).
  rewrite skipn_app_ge by (rewrite zeros_length; exact Ht).
  rewrite skipn_zeros. reflexivity.
Qed.

Lemma firstn_layout (pre rest : list N) k :
  length pre = 10%nat -> (48 <= k)%nat ->
  firstn k (pre ++ zeros 38 ++ rest) = pre ++ zeros 38 ++ firstn (k - 48) rest.
Proof.
  intros Hp Hk. rewrite firstn_app, (firstn_all2 pre) by lia. f_equal.
  rewrite firstn_app, (firstn_all2 (zeros 38)) by (rewrite zeros_length; lia). f_equal.
  rewrite zeros_length, Hp. f_equal. lia.
Qed.

Lemma enc_writes_shape c hbuf T P key cm hm seed ws :
  enc_writes c hbuf T P key cm hm seed = Ok ws ->
  exists rest tag, ws = [(0%nat, pre10 cm hm ++ zeros 38 ++ rest); (10%nat, tag)] /\
    hmac_model hbuf hm key rest = Some tag /\
    exists body, rest = firstn (20 * T) (iv_chain seed T) ++ body.
Proof.
  unfold enc_writes, file_header. cbv zeta.
  destruct (create true cm) as [kind|]; [|discriminate].
  destruct (pipe_seq _ _ _ _ _ _ _ _) as [body| | |]; try discriminate.
  set (ivs := firstn (20 * T) (iv_chain seed T)).
  change (N.to_nat Layout.PADDING) with 38%nat. rewrite iv_mark_eq, hmac_mark_eq.
  assert (E : (magic_bytes ++ [cm; hm] ++ zeros 38 ++ ivs) ++ body = pre10 cm hm ++ zeros 38 ++ ivs ++ body).
  { unfold pre10. rewrite <- !app_assoc. reflexivity. }
  rewrite E. rewrite view_skip48 by (try apply pre10_length; apply zeros_length).
  destruct (hmac_model hbuf hm key (ivs ++ body)) as [tag|] eqn:Hm; [|discriminate].
  intro H. injection H as <-. exists (ivs ++ body), tag. split; [reflexivity|]. split; [exact Hm|].
  exists body. reflexivity.
Qed.

Lemma enc_inv c hbuf T P key cm hm seed F :
  enc c hbuf T P key cm hm seed = Ok F ->
  exists ws, enc_writes c hbuf T P key cm hm seed = Ok ws /\ F = apply_writes ws.
Proof.
  unfold enc. destruct (enc_writes c hbuf T P key cm hm seed) as [ws| | |]; try discriminate.
  intro H. injection H as <-. exists ws. split; reflexivity.
Qed.

Lemma patch_nil (s : list N) : patch [] 0 s = s.
Proof.
  unfold patch. cbn [length Nat.sub zeros repeat app firstn Nat.add].
  rewrite skipn_nil. apply app_nil_r.
Qed.

(* the encrypted file, from the model alone *)
Lemma enc_shape c hbuf T P key seed cm hm F :
  (1 <= hbuf)%nat -> hm <= 2 -> length key = 16%nat ->
  enc c hbuf T P key cm hm seed = Ok F ->
  exists rest tag,
    tag = hmac_spec (hash_spec hm) key rest /\ length tag = hlen hm /\
    enc_writes c hbuf T P key cm hm seed = Ok [(0%nat, pre10 cm hm ++ zeros 38 ++ rest); (10%nat, tag)] /\
    F = pre10 cm hm ++ tag ++ zeros (38 - hlen hm) ++ rest /\
    exists body, rest = firstn (20 * T) (iv_chain seed T) ++ body.
Proof.
  intros Hh Hhm Hk H. destruct (enc_inv _ _ _ _ _ _ _ _ _ H) as [ws [Hws ->]].
  destruct (enc_writes_shape _ _ _ _ _ _ _ _ _ Hws) as [rest [tag [-> [Hm Hb]]]].
  exists rest, tag.
  assert (Hl : length tag = hlen hm) by exact (C08_tag_length_proof _ _ _ _ _ Hm).
  rewrite (hmac_model_is_spec hbuf hm key rest Hh Hhm Hk) in Hm. injection Hm as Hm.
  split; [symmetry; exact Hm|]. split; [exact Hl|]. split; [exact Hws|]. split; [|exact Hb].
  unfold apply_writes. cbn [fold_left fst snd]. rewrite patch_nil.
  pose proof (hlen_bounds hm) as Hb2.
  rewrite patch_layout by (try apply pre10_length; lia). rewrite Hl. reflexivity.
Qed.

(* ------------------------------------------------------------------------------------ *)
(** * 5. C13: crash states                                                                 *)
(* ------------------------------------------------------------------------------------ *)

(* a prefix state that still lies inside the sequential stream and verifies has a zero HMAC *)
Lemma prefix_state_verifies hbuf key cm hm rest k :
  (1 <= hbuf)%nat -> hm <= 2 -> length key = 16%nat -> (48 <= k)%nat ->
  verify hbuf (firstn k (pre10 cm hm ++ zeros 38 ++ rest)) key = Ok 0 ->
  hmac_spec (hash_spec hm) key (skipn 48 (firstn k (pre10 cm hm ++ zeros 38 ++ rest))) = zeros (hlen hm).
Proof.
  intros Hh Hhm Hk Hk48 Hv.
  rewrite firstn_layout in * by (try apply pre10_length; exact Hk48).
  set (r := firstn (k - 48) rest) in *.
  apply verify_ok0 in Hv. destruct Hv as [_ [_ [_ [_ [t [Ht Hf]]]]]].
  rewrite view_nth9 in Ht.
  rewrite view_skip48 in * by (try apply pre10_length; apply zeros_length).
  rewrite view_skip10 in Hf by apply pre10_length.
  pose proof (C08_tag_length_proof _ _ _ _ _ Ht) as Hl. fold (hlen hm) in Hl.
  rewrite (hmac_model_is_spec hbuf hm key r Hh Hhm Hk) in Ht. injection Ht as Ht.
  rewrite Ht. rewrite <- Hf, Hl. pose proof (hlen_bounds hm) as Hb.
  rewrite firstn_firstn, Nat.min_l by lia.
  rewrite firstn_app_ge by (rewrite zeros_length; lia).
  apply firstn_zeros. lia.
Qed.

Lemma patch_length_in (l w : list N) off :
  (off + length w <= length l)%nat -> length (patch l off w) = length l.
Proof.
  intro H. unfold patch. replace (off - length l)%nat with 0%nat by lia.
  change (zeros 0) with (@nil N). rewrite app_nil_r.
  rewrite !app_length, firstn_length, skipn_length. lia.
Qed.

Lemma C13_interrupted_encryption_never_verifies_proof : forall c hbuf T P key seed cm hm ws F k,
  enc_params c hbuf T P key seed cm hm ->
  enc_writes c hbuf T P key cm hm seed = Ok ws ->
  enc c hbuf T P key cm hm seed = Ok F ->
  (k <= total_written ws)%nat ->
  ver hbuf (crash_state ws k) key = Ok true ->
  crash_state ws k = F \/
  ((k <= length F)%nat /\ hmac_spec (hash_spec hm) key (skipn 48 (crash_state ws k)) = zeros (hlen hm)).
Proof.
  intros c hbuf T P key seed cm hm ws F k EP Hws HF Hk Hver.
  destruct EP as [_ Hh _ _ [Hkey _] _ _ Hhm _ _ _].
  destruct (enc_shape _ _ _ _ _ _ _ _ _ Hh Hhm Hkey HF) as [rest [tag [Htag [Hl [Hws' [-> _]]]]]].
  assert (Ews : ws = [(0%nat, pre10 cm hm ++ zeros 38 ++ rest); (10%nat, tag)]) by congruence.
  subst ws. clear Hws.
  pose proof (hlen_bounds hm) as Hb.
  set (stream := pre10 cm hm ++ zeros 38 ++ rest) in *.
  assert (Hls : length stream = (48 + length rest)%nat)
    by (apply view_length; [apply pre10_length|apply zeros_length]).
  assert (HlF : length (pre10 cm hm ++ tag ++ zeros (38 - hlen hm) ++ rest) = (48 + length rest)%nat).
  { rewrite !app_length, pre10_length, zeros_length, Hl. lia. }
  apply ver_true_iff in Hver.
  unfold total_written in Hk. cbn [fold_left snd Nat.add] in Hk.
  unfold crash_state in *.
  destruct (Nat.leb_spec k (length stream)) as [Hle|Hgt].
  - right. split; [lia|].
    assert (H74 : (74 <= k)%nat).
    { apply verify_ok0 in Hver. destruct Hver as [H _]. rewrite firstn_length in H. lia. }
    apply (prefix_state_verifies hbuf key cm hm rest k Hh Hhm Hkey); [lia|exact Hver].
  - left. set (j := (k - length stream)%nat) in *.
    assert (Hj : (j <= length tag)%nat) by lia.
    assert (Hlj : length (firstn j tag) = j) by (apply firstn_length_le; exact Hj).
    unfold stream in *. rewrite patch_layout in * by (try apply pre10_length; lia).
    rewrite Hlj in *.
    apply verify_ok0 in Hver. destruct Hver as [_ [_ [_ [_ [t [Ht Hf]]]]]].
    rewrite view_nth9 in Ht.
    assert (Hfld : length (firstn j tag ++ zeros (38 - j)) = 38%nat)
      by (rewrite app_length, Hlj, zeros_length; lia).
    rewrite (app_assoc (firstn j tag)) in Ht, Hf.
    rewrite view_skip48 in Ht by (try apply pre10_length; exact Hfld).
    rewrite view_skip10 in Hf by apply pre10_length.
    rewrite (hmac_model_is_spec hbuf hm key rest Hh Hhm Hkey) in Ht. injection Ht as Ht.
    rewrite <- Htag in Ht. subst t. rewrite Hl in Hf.
    rewrite firstn_firstn, Nat.min_l in Hf by lia.
    rewrite <- app_assoc in Hf.
    rewrite firstn_app, Hlj, (firstn_all2 (firstn j tag)) in Hf by lia.
    rewrite firstn_app_ge in Hf by (rewrite zeros_length; lia).
    rewrite firstn_zeros in Hf by lia.
    (* tag = firstn j tag ++ zeros (hlen - j) *)
    f_equal. rewrite <- Hf at 2. rewrite <- !app_assoc. f_equal.
    rewrite app_assoc. f_equal. rewrite <- zeros_app. f_equal. lia.
Qed.

Definition wit_ws : list (nat * list N) :=
  match enc_writes 16 1 1 wit_P wit_key 1 1 wit_seed with Ok ws => ws | _ => [] end.
Lemma wit_ws_eq : enc_writes 16 1 1 wit_P wit_key 1 1 wit_seed = Ok wit_ws.
Proof. vm_compute. reflexivity. Qed.
Example C13_interrupted_nonvacuous :
  enc_params 16 1 1 wit_P wit_key wit_seed 1 1 /\
  enc_writes 16 1 1 wit_P wit_key 1 1 wit_seed = Ok wit_ws /\
  enc 16 1 1 wit_P wit_key 1 1 wit_seed = Ok wit05_F /\
  (total_written wit_ws <= total_written wit_ws)%nat /\
  ver 1 (crash_state wit_ws (total_written wit_ws)) wit_key = Ok true.
Proof.
  split; [exact wit05_ep|]. split; [exact wit_ws_eq|]. split; [exact wit05_enc|]. split; [apply le_n|].
  vm_compute. reflexivity.
Qed.

Lemma short_never_verifies hbuf S key : (length S < 74)%nat -> ver hbuf S key = Ok false.
Proof.
  intro H. unfold ver.
  destruct (C11_structural_rejections_proof hbuf S key) as [H1 [H2 _]].
  destruct (Nat.lt_ge_cases (length S) 8) as [Hlt|Hge].
  - rewrite (H1 Hlt). reflexivity.
  - destruct (H2 (conj Hge H)) as [-> | ->]; reflexivity.
Qed.

Lemma C13_complete_and_short_states_proof : forall c hbuf T P key seed cm hm ws F,
  enc_params c hbuf T P key seed cm hm ->
  enc_writes c hbuf T P key cm hm seed = Ok ws ->
  enc c hbuf T P key cm hm seed = Ok F ->
  crash_state ws (total_written ws) = F /\
  (forall k, (k < 74)%nat -> ver hbuf (crash_state ws k) key = Ok false).
Proof.
  intros c hbuf T P key seed cm hm ws F EP Hws HF.
  destruct EP as [_ Hh _ _ [Hkey _] _ _ Hhm _ _ _].
  destruct (enc_shape _ _ _ _ _ _ _ _ _ Hh Hhm Hkey HF) as [rest [tag [Htag [Hl [Hws' [-> _]]]]]].
  assert (Ews : ws = [(0%nat, pre10 cm hm ++ zeros 38 ++ rest); (10%nat, tag)]) by congruence.
  subst ws. clear Hws.
  pose proof (hlen_bounds hm) as Hb.
  set (stream := pre10 cm hm ++ zeros 38 ++ rest) in *.
  assert (Hls : length stream = (48 + length rest)%nat)
    by (apply view_length; [apply pre10_length|apply zeros_length]).
  unfold total_written. cbn [fold_left snd Nat.add]. unfold crash_state. split.
  - destruct (Nat.leb_spec (length stream + length tag) (length stream)) as [Hle|Hgt]; [lia|].
    replace (length stream + length tag - length stream)%nat with (length tag) by lia.
    rewrite firstn_all. unfold stream.
    rewrite patch_layout by (try apply pre10_length; lia). rewrite Hl. reflexivity.
  - intros k Hk. apply short_never_verifies.
    destruct (Nat.leb_spec k (length stream)) as [Hle|Hgt].
    + rewrite firstn_length. lia.
    + rewrite patch_length_in; [lia|]. rewrite firstn_length. lia.
Qed.

Example C13_complete_nonvacuous :
  enc_params 16 1 1 wit_P wit_key wit_seed 1 1 /\
  enc_writes 16 1 1 wit_P wit_key 1 1 wit_seed = Ok wit_ws /\
  enc 16 1 1 wit_P wit_key 1 1 wit_seed = Ok wit05_F.
Proof. split; [exact wit05_ep|]. split; [exact wit_ws_eq|exact wit05_enc]. Qed.

Lemma C13_tag_field_zero_until_the_end_proof : forall c hbuf T P key seed cm hm ws F k,
  enc_params c hbuf T P key seed cm hm ->
  enc_writes c hbuf T P key cm hm seed = Ok ws ->
  enc c hbuf T P key cm hm seed = Ok F ->
  (74 <= k <= length F)%nat ->
  firstn (hlen hm) (skipn 10 (crash_state ws k)) = zeros (hlen hm).
Proof.
  intros c hbuf T P key seed cm hm ws F k EP Hws HF Hk.
  destruct EP as [_ Hh _ _ [Hkey _] _ _ Hhm _ _ _].
  destruct (enc_shape _ _ _ _ _ _ _ _ _ Hh Hhm Hkey HF) as [rest [tag [Htag [Hl [Hws' [-> _]]]]]].
  assert (Ews : ws = [(0%nat, pre10 cm hm ++ zeros 38 ++ rest); (10%nat, tag)]) by congruence.
  subst ws. clear Hws.
  pose proof (hlen_bounds hm) as Hb.
  assert (HlF : length (pre10 cm hm ++ tag ++ zeros (38 - hlen hm) ++ rest) = (48 + length rest)%nat).
  { rewrite !app_length, pre10_length, zeros_length, Hl. lia. }
  rewrite HlF in Hk.
  unfold crash_state.
  rewrite (view_length (pre10 cm hm) (zeros 38) rest (pre10_length cm hm) (zeros_length 38)).
  destruct (Nat.leb_spec k (48 + length rest)) as [Hle|Hgt]; [|lia].
  rewrite firstn_layout by (try apply pre10_length; lia).
  rewrite view_skip10 by apply pre10_length.
  rewrite firstn_app_ge by (rewrite zeros_length; lia).
  apply firstn_zeros. lia.
Qed.

Example C13_tag_field_nonvacuous :
  enc_params 16 1 1 wit_P wit_key wit_seed 1 1 /\
  enc_writes 16 1 1 wit_P wit_key 1 1 wit_seed = Ok wit_ws /\
  enc 16 1 1 wit_P wit_key 1 1 wit_seed = Ok wit05_F /\ (74 <= 100 <= length wit05_F)%nat.
Proof.
  split; [exact wit05_ep|]. split; [exact wit_ws_eq|]. split; [exact wit05_enc|]. vm_compute. lia.
Qed.

(* ------------------------------------------------------------------------------------ *)
(** * 6. C06: acceptance under another key is a tag collision                              *)
(* ------------------------------------------------------------------------------------ *)

Lemma firstn_app_exact2 {A} (x y : list A) : firstn (length x) (x ++ y) = x.
Proof. apply firstn_app_exact. reflexivity. Qed.

Lemma C06_wrong_key_acceptance_is_a_tag_collision_proof : forall c hbuf T P key seed cm hm F key',
  enc_params c hbuf T P key seed cm hm ->
  enc c hbuf T P key cm hm seed = Ok F ->
  block16 key' ->
  ver hbuf F key' = Ok true ->
  hmac_spec (hash_spec hm) key' (skipn 48 F) = hmac_spec (hash_spec hm) key (skipn 48 F).
Proof.
  intros c hbuf T P key seed cm hm F key' EP HF [Hkey' _] Hver.
  destruct EP as [_ Hh _ _ [Hkey _] _ _ Hhm _ _ _].
  destruct (enc_shape _ _ _ _ _ _ _ _ _ Hh Hhm Hkey HF) as [rest [tag [Htag [Hl [_ [-> _]]]]]].
  pose proof (hlen_bounds hm) as Hb.
  apply ver_true_iff, verify_ok0 in Hver. destruct Hver as [_ [_ [_ [_ [t [Ht Hf]]]]]].
  rewrite view_nth9 in Ht.
  assert (Hfld : length (tag ++ zeros (38 - hlen hm)) = 38%nat)
    by (rewrite app_length, Hl, zeros_length; lia).
  rewrite (app_assoc tag) in *.
  rewrite view_skip48 in * by (try apply pre10_length; exact Hfld).
  rewrite view_skip10 in Hf by apply pre10_length.
  pose proof (C08_tag_length_proof _ _ _ _ _ Ht) as Hlt. fold (hlen hm) in Hlt.
  rewrite (hmac_model_is_spec hbuf hm key' rest Hh Hhm Hkey') in Ht. injection Ht as Ht.
  rewrite Ht, <- Htag, <- Hf, Hlt, <- Hl.
  rewrite firstn_firstn, Nat.min_l by lia.
  rewrite <- !app_assoc. apply firstn_app_exact2.
Qed.

(* the hypotheses hold for key' = key; an instance with key' <> key would be an HMAC collision *)
Example C06_wrong_key_nonvacuous :
  enc_params 16 1 1 wit_P wit_key wit_seed 1 1 /\
  enc 16 1 1 wit_P wit_key 1 1 wit_seed = Ok wit05_F /\ block16 wit_key /\
  ver 1 wit05_F wit_key = Ok true.
Proof.
  split; [exact wit05_ep|]. split; [exact wit05_enc|]. split; [exact (ep_key _ _ _ _ _ _ _ _ wit05_ep)|].
  vm_compute. reflexivity.
Qed.

(* ------------------------------------------------------------------------------------ *)
(** * 7. C18: the stored IV slots                                                          *)
(* ------------------------------------------------------------------------------------ *)

Lemma sha1_model_spec m : getStringHash alg_sha1 m = sha1 m.
Proof. exact (string_std_gen 0 alg_sha1 m eq_refl). Qed.
Lemma sha1_length m : length (sha1 m) = 20%nat.
Proof. rewrite <- sha1_model_spec. exact (proj1 (getStringHash_length 0 alg_sha1 m eq_refl)). Qed.

Lemma iv_chain_from_spec n : forall prev, iv_chain_from prev n = spec_iv_chain_from prev n.
Proof.
  induction n as [|n IH]; intro prev; [reflexivity|].
  cbn [iv_chain_from spec_iv_chain_from]. rewrite sha1_model_spec, IH. reflexivity.
Qed.
Lemma iv_chain_spec seed T : (1 <= T)%nat -> iv_chain seed T = spec_ivs seed T.
Proof.
  intro H. destruct T as [|n]; [lia|]. unfold iv_chain, spec_ivs.
  cbn [spec_iv_chain_from]. rewrite sha1_model_spec, iv_chain_from_spec. reflexivity.
Qed.
Lemma spec_ivs_length T : forall seed, length (spec_iv_chain_from seed T) = (20 * T)%nat.
Proof.
  induction T as [|n IH]; intro seed; [reflexivity|].
  cbn [spec_iv_chain_from]. rewrite app_length, sha1_length, IH. lia.
Qed.

Lemma C18_stored_ivs_are_the_sha1_chain_proof : forall c hbuf T P key seed cm hm F,
  enc_params c hbuf T P key seed cm hm ->
  enc c hbuf T P key cm hm seed = Ok F ->
  firstn (20 * T) (skipn 48 F) = spec_ivs seed T /\
  firstn 20 (skipn 48 F) = sha1 seed.
Proof.
  intros c hbuf T P key seed cm hm F EP HF.
  destruct EP as [_ Hh HT _ [Hkey _] _ _ Hhm _ _ _].
  destruct (enc_shape _ _ _ _ _ _ _ _ _ Hh Hhm Hkey HF) as [rest [tag [Htag [Hl [_ [-> [body ->]]]]]]].
  pose proof (hlen_bounds hm) as Hb.
  assert (Hfld : length (tag ++ zeros (38 - hlen hm)) = 38%nat)
    by (rewrite app_length, Hl, zeros_length; lia).
  rewrite (app_assoc tag).
  rewrite view_skip48 by (try apply pre10_length; exact Hfld).
  rewrite iv_chain_spec by exact HT.
  assert (Hli : length (spec_ivs seed T) = (20 * T)%nat) by apply spec_ivs_length.
  rewrite (firstn_all2 (spec_ivs seed T)) by lia.
  split.
  - apply firstn_app_exact. exact Hli.
  - destruct T as [|n]; [lia|]. unfold spec_ivs. cbn [spec_iv_chain_from].
    rewrite <- app_assoc. apply firstn_app_exact. apply sha1_length.
Qed.

Example C18_stored_ivs_nonvacuous :
  enc_params 16 1 1 wit_P wit_key wit_seed 1 1 /\ enc 16 1 1 wit_P wit_key 1 1 wit_seed = Ok wit05_F.
Proof. split; [exact wit05_ep|exact wit05_enc]. Qed.

(* ------------------------------------------------------------------------------------ *)
(** * 8. What decryption reads of a file                                                   *)
(* ------------------------------------------------------------------------------------ *)

Lemma dec_congr c hbuf T F F' key :
  verify hbuf F key = Ok 0 -> verify hbuf F' key = Ok 0 ->
  length F = length F' -> nth 8 F 0 = nth 8 F' 0 -> skipn 48 F = skipn 48 F' ->
  dec c hbuf T F key = dec c hbuf T F' key.
Proof.
  intros Hv Hv' Hl H8 H48. unfold dec. rewrite Hv, Hv', H8, iv_mark_eq, text_mark_eq.
  rewrite (Nat.add_comm 48), !skipn_add, H48. reflexivity.
Qed.

Lemma enc_functional c hbuf T P key seed cm hm F :
  enc_params c hbuf T P key seed cm hm -> enc c hbuf T P key cm hm seed = Ok F ->
  dec c hbuf T F key = Ok P /\ ver hbuf F key = Ok true.
Proof.
  intros EP HF. destruct (C01_roundtrip_proof _ _ _ _ _ _ _ _ EP) as [F0 [HF0 H]].
  assert (F0 = F) by congruence. subst F0. exact H.
Qed.

Lemma nth_skipn0 a : forall (l : list N) i, nth i (skipn a l) 0 = nth (a + i) l 0.
Proof.
  induction a as [|a IH]; intros l i; [reflexivity|].
  destruct l as [|x l]; cbn [skipn Nat.add nth]; [destruct i; reflexivity|apply IH].
Qed.
Lemma skipn_ext a (l l' : list N) :
  length l = length l' -> (forall i, (a <= i)%nat -> nth i l 0 = nth i l' 0) -> skipn a l = skipn a l'.
Proof.
  intros Hl H. apply (nth_ext _ _ 0 0).
  - rewrite !skipn_length, Hl. reflexivity.
  - intros i _. rewrite !nth_skipn0. apply H. lia.
Qed.
Lemma firstn_ext h (l l' : list N) :
  length l = length l' -> (forall i, (i < h)%nat -> nth i l 0 = nth i l' 0) -> firstn h l = firstn h l'.
Proof.
  intros Hl H. apply (nth_ext _ _ 0 0).
  - rewrite !firstn_length, Hl. reflexivity.
  - intros i Hi. rewrite firstn_length in Hi. rewrite !nth_firstn_lt by lia. apply H. lia.
Qed.
Lemma seg_ext a h (l l' : list N) :
  length l = length l' -> (forall i, (a <= i < a + h)%nat -> nth i l 0 = nth i l' 0) ->
  firstn h (skipn a l) = firstn h (skipn a l').
Proof.
  intros Hl H. apply firstn_ext.
  - rewrite !skipn_length, Hl. reflexivity.
  - intros i Hi. rewrite !nth_skipn0. apply H. lia.
Qed.

(* ------------------------------------------------------------------------------------ *)
(** * 9. C05                                                                               *)
(* ------------------------------------------------------------------------------------ *)

Lemma C05_tampering_reduces_to_forgery_proof : forall c hbuf T P key seed cm hm F F' P',
  enc_params c hbuf T P key seed cm hm ->
  enc c hbuf T P key cm hm seed = Ok F ->
  dec c hbuf T F' key = Ok P' -> P' <> P ->
  Forgery key F F' \/ nth 8 F' 0 <> nth 8 F 0.
Proof.
  intros c hbuf T P key seed cm hm F F' P' EP HF Hdec Hne.
  destruct (enc_functional _ _ _ _ _ _ _ _ _ EP HF) as [HdecF HverF].
  destruct EP as [_ Hh _ _ [Hkey _] _ _ Hhm _ _ _].
  pose proof (C05_success_requires_valid_tag_proof _ _ _ _ _ _ Hdec) as Hv'.
  pose proof (C05_success_requires_valid_tag_proof _ _ _ _ _ _ HdecF) as Hv.
  destruct (N.eq_dec (nth 8 F' 0) (nth 8 F 0)) as [E8|N8]; [|right; exact N8].
  left.
  destruct (proj1 (verify_ok0 _ _ _) Hv') as [H74' [_ [_ [Hhm' [t [Ht Hf]]]]]].
  destruct (proj1 (verify_ok0 _ _ _) Hv) as [H74 _].
  pose proof (C08_tag_length_proof _ _ _ _ _ Ht) as Hlt. fold (hlen (nth 9 F' 0)) in Hlt.
  rewrite (hmac_model_is_spec hbuf _ key _ Hh Hhm' Hkey) in Ht. injection Ht as Ht.
  pose proof (hlen_bounds (nth 9 F' 0)) as Hb.
  rewrite Hlt, firstn_firstn, Nat.min_l in Hf by lia.
  unfold Forgery. split; [|split; [exact Hhm'|rewrite Hf; symmetry; exact Ht]].
  unfold authenticated. intro EA.
  pose proof (f_equal snd EA) as E48. cbn [snd] in E48.
  apply Hne.
  assert (Hl : length F' = length F).
  { pose proof (f_equal (@length N) E48) as HL. rewrite !skipn_length in HL. lia. }
  assert (Ed : dec c hbuf T F' key = dec c hbuf T F key) by (apply dec_congr; assumption).
  congruence.
Qed.

(* the computed mode-byte counterexample is an instance (it lands in the right disjunct) *)
Example C05_tampering_nonvacuous :
  enc_params 16 1 1 wit_P wit_key wit_seed 1 1 /\
  enc 16 1 1 wit_P wit_key 1 1 wit_seed = Ok wit05_F /\
  dec 16 1 1 wit05_F' wit_key = Ok wit05_P' /\ wit05_P' <> wit_P.
Proof. split; [exact wit05_ep|]. split; [exact wit05_enc|]. split; [exact wit05_dec|exact wit05_ne]. Qed.

Lemma C05_padding_bytes_carry_no_information_proof : forall c hbuf T P key seed cm hm F F',
  enc_params c hbuf T P key seed cm hm ->
  enc c hbuf T P key cm hm seed = Ok F ->
  same_outside (10 + hlen hm) 48 F F' ->
  dec c hbuf T F' key = Ok P /\ ver hbuf F' key = Ok true.
Proof.
  intros c hbuf T P key seed cm hm F F' EP HF [Hl Hsame].
  destruct (enc_functional _ _ _ _ _ _ _ _ _ EP HF) as [HdecF HverF].
  destruct EP as [_ Hh _ _ [Hkey _] _ _ Hhm _ _ _].
  pose proof (C05_success_requires_valid_tag_proof _ _ _ _ _ _ HdecF) as Hv.
  assert (H9F : nth 9 F 0 = hm).
  { destruct (enc_shape _ _ _ _ _ _ _ _ _ Hh Hhm Hkey HF) as [rest [tag [_ [_ [_ [-> _]]]]]].
    apply view_nth9. }
  pose proof (hlen_bounds hm) as Hb.
  assert (E8 : nth 8 F 0 = nth 8 F' 0) by (apply Hsame; lia).
  assert (E9 : nth 9 F 0 = nth 9 F' 0) by (apply Hsame; lia).
  assert (E48 : skipn 48 F = skipn 48 F') by (apply skipn_ext; [exact Hl|intros i Hi; apply Hsame; lia]).
  assert (Em : firstn 8 F = firstn 8 F') by (apply firstn_ext; [exact Hl|intros i Hi; apply Hsame; lia]).
  assert (Et : firstn (hlen hm) (skipn 10 F) = firstn (hlen hm) (skipn 10 F'))
    by (apply seg_ext; [exact Hl|intros i Hi; apply Hsame; lia]).
  assert (Hv' : verify hbuf F' key = Ok 0).
  { destruct (proj1 (verify_ok0 _ _ _) Hv) as [H74 [Hmg [Hcm [Hhm' [t [Ht Hf]]]]]].
    apply verify_ok0. rewrite <- Hl, <- Em, <- E8, <- E9, <- E48.
    repeat (split; [assumption|]). exists t. split; [exact Ht|].
    pose proof (C08_tag_length_proof _ _ _ _ _ Ht) as Hlt. rewrite H9F in Hlt. fold (hlen hm) in Hlt.
    rewrite Hlt in *. rewrite firstn_firstn, Nat.min_l in * by lia.
    rewrite <- Et. exact Hf. }
  split; [|apply ver_true_iff; exact Hv'].
  rewrite <- HdecF. symmetry. apply dec_congr; assumption.
Qed.

(* byte 30 (inside the zero fill after the 16-byte MD5 tag) set to 7 *)
Definition wit05_Fpad : list N := firstn 30 wit05_F ++ [7] ++ skipn 31 wit05_F.
Example C05_padding_nonvacuous :
  enc_params 16 1 1 wit_P wit_key wit_seed 1 1 /\
  enc 16 1 1 wit_P wit_key 1 1 wit_seed = Ok wit05_F /\
  same_outside (10 + hlen 1) 48 wit05_F wit05_Fpad /\ wit05_Fpad <> wit05_F.
Proof.
  split; [exact wit05_ep|]. split; [exact wit05_enc|]. split.
  - split; [vm_compute; reflexivity|]. intros i Hi.
    apply (nth_agree_sweep wit05_F wit05_Fpad 228 30); try (vm_compute; reflexivity).
    change (hlen 1) with 16%nat in Hi. lia.
  - intro H. apply (f_equal (fun l => nth 30 l 0)) in H. vm_compute in H. discriminate H.
Qed.

(* ------------------------------------------------------------------------------------ *)
(** * 10. C12 on the domain                                                                *)
(* ------------------------------------------------------------------------------------ *)

Lemma C12_verdicts_coincide_on_domain_proof : forall c hbuf T F key,
  (1 <= hbuf)%nat -> N.of_nat (length F) < 2 ^ 56 ->
  (verify hbuf F key <> Ok 0 \/
   exists P seed cm hm, enc_params c hbuf T P key seed cm hm /\ enc c hbuf T P key cm hm seed = Ok F) ->
  (ver hbuf F key = Ok true <-> exists out, dec c hbuf T F key = Ok out) /\
  (ver hbuf F key = Ok true \/ ver hbuf F key = Ok false).
Proof.
  intros c hbuf T F key Hh Hsz [Hne|[P [seed [cm [hm [EP HF]]]]]].
  - destruct (C11_unauthentic_input_fails_cleanly_proof c hbuf T F key Hh Hsz Hne) as [code [_ [Hd Hv]]].
    rewrite Hd, Hv. split; [|right; reflexivity].
    split; [discriminate|]. intros [out H]. discriminate H.
  - destruct (enc_functional _ _ _ _ _ _ _ _ _ EP HF) as [Hd Hv].
    rewrite Hd, Hv. split; [|left; reflexivity].
    split; [intros _; exists P; reflexivity|reflexivity].
Qed.

Example C12_verdicts_nonvacuous :
  (1 <= 1)%nat /\ N.of_nat (length [1; 2; 3]) < 2 ^ 56 /\ verify 1 [1; 2; 3] wit_key <> Ok 0 /\
  N.of_nat (length wit05_F) < 2 ^ 56 /\
  exists P seed cm hm, enc_params 16 1 1 P wit_key seed cm hm /\ enc 16 1 1 P wit_key cm hm seed = Ok wit05_F.
Proof.
  split; [apply le_n|]. split; [reflexivity|]. split; [vm_compute; discriminate|].
  split; [vm_compute; reflexivity|].
  exists wit_P, wit_seed, 1, 1. split; [exact wit05_ep|exact wit05_enc].
Qed.

(* ------------------------------------------------------------------------------------ *)
(** * 11. C11: output bounded by the body                                                  *)
(* ------------------------------------------------------------------------------------ *)

Definition bound (c : nat) (l : load) : nat := if ld_final l then (16 * ld_total l)%nat else sum c.

Lemma Ok_inj {A} (a b : A) : Ok a = Ok b -> a = b.
Proof. intro H. congruence. Qed.

Lemma list_sum_cons x l : list_sum (x :: l) = (x + list_sum l)%nat.
Proof. reflexivity. Qed.

Lemma export_dec_len c l data bytes :
  export c false l data = Ok bytes -> (length bytes <= bound c l)%nat.
Proof.
  unfold export, bound. destruct (ld_final l).
  - cbv zeta. intro H. apply Ok_inj in H. rewrite <- H.
    destruct (_ <? _)%nat; [cbn [length]; lia|]. rewrite firstn_length. lia.
  - intro H. apply Ok_inj in H. rewrite <- H, firstn_length. lia.
Qed.

Lemma pipe_chunks_len E D kind T c : forall ls ivs j out,
  pipe_chunks E D kind T c false ivs j ls = Ok out ->
  (length out <= list_sum (map (bound c) ls))%nat.
Proof.
  induction ls as [|l r IH]; intros ivs j out H.
  - cbn [pipe_chunks] in H. apply Ok_inj in H. subst out. cbn. lia.
  - cbn [pipe_chunks] in H.
    destruct (ld_final l && (ld_total l =? 0)%nat); [discriminate H|].
    destruct (run E D kind (nth (j mod T) ivs []) (blocks16_of (ld_data l))) as [iv' o].
    destruct (export c false l (concat o)) as [bytes| | |] eqn:He; try discriminate H.
    destruct (pipe_chunks E D kind T c false (set_nth (j mod T) iv' ivs) (S j) r) as [rest| | |] eqn:Hp;
      try discriminate H.
    apply Ok_inj in H. subst out. rewrite app_length. cbn [map]; rewrite list_sum_cons.
    apply export_dec_len in He. apply IH in Hp. lia.
Qed.

Lemma loads_dec_bound c : forall fuel rest,
  (list_sum (map (bound c) (loads (load_dec c) fuel rest)) <= length rest)%nat.
Proof.
  induction fuel as [|f IH]; intro rest; [cbn; lia|].
  cbn [loads]. unfold load_dec at 1. cbv zeta.
  set (n := length (firstn (sum c) rest)).
  assert (Hn : (n <= length rest)%nat) by (unfold n; rewrite firstn_length; lia).
  cbn [ld_final].
  destruct ((n <? sum c)%nat || match skipn (sum c) rest with [] => true | _ => false end) eqn:Hro.
  - cbn [ld_total]. destruct (n / 16 =? 0)%nat; [cbn; lia|].
    cbn [map]; rewrite list_sum_cons. unfold bound. cbn [ld_final ld_total].
    change (list_sum []) with 0%nat. pose proof (Nat.mul_div_le n 16). lia.
  - cbn [map]; rewrite list_sum_cons. unfold bound at 1. cbn [ld_final ld_total].
    apply orb_false_iff in Hro. destruct Hro as [Hlt _]. apply Nat.ltb_ge in Hlt.
    specialize (IH (skipn (sum c) rest)). rewrite skipn_length in IH.
    unfold n in Hlt. rewrite firstn_length in Hlt. lia.
Qed.

Lemma C11_output_bounded_by_body_proof : forall c hbuf T F key out,
  (1 <= c)%nat -> (1 <= T)%nat ->
  dec c hbuf T F key = Ok out -> (length out <= length F - text_mark T)%nat.
Proof.
  intros c hbuf T F key out _ _ H. unfold dec in H.
  destruct (verify hbuf F key) as [code| | |]; try discriminate H.
  destruct code as [|p]; [|discriminate H].
  destruct (create false (nth 8 F 0)) as [kind|]; [|discriminate H].
  unfold pipe_seq, loads_of in H. apply pipe_chunks_len in H.
  rewrite <- skipn_length. etransitivity; [exact H|apply loads_dec_bound].
Qed.

Example C11_output_bounded_nonvacuous :
  (1 <= 16)%nat /\ (1 <= 1)%nat /\ dec 16 1 1 wit05_F' wit_key = Ok wit05_P'.
Proof. split; [lia|]. split; [apply le_n|exact wit05_dec]. Qed.
