(* The buffer hand-over protocol as TRANSLATED (Gen/Src_conc.v: bufferctrl, buffergroup, iobuffer, multiruncrypt_file,
   multicry_master::run_multicry, with the verification hooks on) run under the thread semantics MiniCConc, in the set-up of the
   harness' `pipe` operation (harness/drv.cpp op_pipe): T tagging stream objects, one input stream, one output stream.
   [conc_src_run] replays a schedule (the thread chosen at every scheduling point, as recorded by the scheduler shim from the
   real binary) and returns the events of every step, the number of enabled threads before it and the final output: the same
   observation PipeConc.tag_run gives for the hand-written transition system. *)
From Coq Require Import ZArith NArith List String Bool.
From Wencry Require Import Bytes MiniC MiniCRun MiniCConc SrcRun.
From Wencry.Gen Require Src_conc.
Import ListNotations.
Local Open Scope Z_scope.
Local Open Scope string_scope.
Local Open Scope list_scope.

(* harness/drv.cpp class TagMode : runcry logs (13, s, n), xors bytes 0..7 with s+1 and byte 8 with n, n++ *)
Definition f_TagMode_runcry : func :=
  {| f_params := ["block"];
     f_body :=
       SSeq (SPrim None "wv_ev" [EConst 13; ECast I64 (ELoad I32 (EField "s")); ECast I64 (ELoad U32 (EField "n"))])
      (SSeq (SSet "i" (EConst 0))
      (SSeq (SLoop (EBin TBool Lt (EVar "i") (EConst 8))
                   (SStore U8 (EPtrAdd (EVar "block") 1 (EVar "i"))
                      (ECast U8 (EBin I32 BXor (ECast I32 (ELoad U8 (EPtrAdd (EVar "block") 1 (EVar "i"))))
                                               (ECast I32 (ECast U8 (EBin I32 Add (ELoad I32 (EField "s")) (EConst 1)))))))
                   (SSet "i" (EBin I32 Add (EVar "i") (EConst 1))))
      (SSeq (SStore U8 (EPtrAdd (EVar "block") 1 (EConst 8))
                      (ECast U8 (EBin I32 BXor (ECast I32 (ELoad U8 (EPtrAdd (EVar "block") 1 (EConst 8))))
                                               (ECast I32 (ECast U8 (ELoad U32 (EField "n")))))))
            (SStore U32 (EField "n") (EBin U32 Add (ELoad U32 (EField "n")) (EConst 1)))))) |}.

(* op_pipe between the two markers: get_instance, set_buffergroup, [20], run_multicry, [21], del_instance *)
Definition pipe_main (T : Z) (ispadding : bool) : stmt :=
  SSeq (SCall (Some "g") "buffergroup::get_instance/0" None [])
 (SSeq (SCall None "buffergroup::set_buffergroup/4" (Some (EVar "g"))
              [EConst T; EGlobal "fin"; EGlobal "fout"; EConst (if ispadding then 1 else 0)])
 (SSeq (SPrim None "wv_ev" [EConst 20; EConst T; EConst 0])
 (SSeq (SCall None "multicry_master::run_multicry/2" (Some (EField "crym.")) [EGlobal "modes"])
 (SSeq (SPrim None "wv_ev" [EConst 21; EConst T; EConst 0])
       (SCall None "buffergroup::del_instance/0" None []))))).

Definition conc_prog : program := Src_conc.functions ++ [("TagMode::runcry/1", f_TagMode_runcry)].

Definition mode_name (i : nat) : string := ("m" ++ nat_string i ++ ".")%string.
Definition conc_init (c T : nat) (ispadding : bool) (input : list N) : cstate :=
  let ids := seq 0 T in
  let sh := {|
    mem := [("sum", {| o_ty := U32; o_cells := [16 * Z.of_nat c] |}); ("sizeof:iobuffer.b", {| o_ty := U32; o_cells := [16 * Z.of_nat c] |});
            ("live_num", {| o_ty := U8; o_cells := [0] |}); ("crym.THREADS_NUM", {| o_ty := U8; o_cells := [Z.of_nat T] |})]
           ++ flat_map (fun i => [((mode_name i ++ "s")%string, {| o_ty := I32; o_cells := [Z.of_nat i] |});
                                  ((mode_name i ++ "n")%string, {| o_ty := U32; o_cells := [0] |})]) ids;
    loc := []; pre := "";
    files := [("fin", {| cf_data := map Z.of_N input; cf_pos := 0; cf_eof := false |}); ("fout", {| cf_data := []; cf_pos := 0; cf_eof := false |})];
    ptrs := [("instance", VNull)]
            ++ map (fun i => (class_key (mode_name i), VPtr "TagMode" 0)) ids
            ++ map (fun i => (ptr_key "modes" (8 * Z.of_nat i), VPtr (mode_name i) 0)) ids;
    fresh := 0 |} in
  {| cs_sh := sh;
     cs_thr := [{| ct_cur := pipe_main (Z.of_nat T) ispadding; ct_k := KStop; ct_loc := []; ct_pre := ""; ct_st := TRun |}];
     cs_mx := [] |}.

Definition has20 (evs : list event) : bool := existsb (fun e => match e with (k, _, _) => Z.eqb k 20 end) evs.
(* the main thread up to its first scheduling point after the marker 20 *)
Fixpoint run_to_marker (n : nat) (fuel : nat) (cs : cstate) : res cstate :=
  match n with
  | O => UB "marker 20 not reached"
  | S n' => do r <- cstep conc_prog [] fuel cs 0%nat;
            let '(cs1, evs) := r in
            if has20 evs then Ok cs1 else run_to_marker n' fuel cs1
  end.

Definition conc_output (cs : cstate) : list N :=
  match lget (files (cs_sh cs)) "fout" with Some f => map Z.to_N (cf_data f) | None => [] end.
Definition all_done (cs : cstate) : bool :=
  forallb (fun t => match ct_st t with TDone => true | _ => false end) (skipn 1 (cs_thr cs)).

(* replay of a schedule: per step (tid, enabled threads before it, events); spurious wake-ups are T+1+j as in PipeConc *)
Definition conc_src_run (c T : nat) (ispadding : bool) (input : list N) (sched : list nat) : sres (cstate * list (nat * nat * list event)) :=
  let fuel := (5000 + 400 * c)%nat in
  match run_to_marker 20 fuel (conc_init c T ispadding input) with
  | Ok cs0 =>
      match crun conc_prog [] fuel cs0 sched with
      | Ok r => SOk r
      | UB w => SErr ("UB: " ++ w)%string
      | NoFuel => SErr "out of fuel"
      end
  | UB w => SErr ("UB (set-up): " ++ w)%string
  | NoFuel => SErr "out of fuel (set-up)"
  end.
