(* C16 -- Base64 codec is RFC 4648 and the key validator accepts exactly 16-byte keys.
   Only statements; every proof is one [exact] of a lemma of Base64Proofs. *)
From Wencry Require Import Bytes Base64Spec Base64Model Base64Proofs.

(* encoding follows RFC 4648 with '=' padding and a terminating NUL, for every byte string *)
Theorem C16_encode_is_rfc4648 : forall bs,
  bytesb bs = true -> hex_to_base64 bs = encode bs ++ [0%N].
Proof. exact C16_encode_is_rfc4648_proof. Qed.
Print Assumptions C16_encode_is_rfc4648.

(* decoding inverts encoding, for every byte string *)
Theorem C16_decode_inverts_encode : forall bs,
  bytesb bs = true -> base64_to_hex (encode bs) = DecOk bs.
Proof. exact C16_decode_inverts_encode_proof. Qed.
Print Assumptions C16_decode_inverts_encode.

(* the validator accepts exactly the 24-character texts that RFC 4648 decodes to 16 bytes *)
Theorem C16_validator_exact : forall s,
  is_valid_b64 s = true <->
  (length s = 24%nat /\ exists k, decode s = Some k /\ length k = 16%nat).
Proof. exact C16_validator_exact_proof. Qed.
Print Assumptions C16_validator_exact.

(* every accepted key decodes, with the fixed length 24 the callers pass, to exactly 16 bytes:
   nothing is written past the 16-byte key buffer, and the bytes are the RFC 4648 value *)
Theorem C16_accepted_key_fits_buffer : forall s,
  is_valid_b64 s = true ->
  exists k, get_key s = KeyOk k /\ length k = 16%nat /\ decode s = Some k.
Proof. exact C16_accepted_key_fits_buffer_proof. Qed.
Print Assumptions C16_accepted_key_fits_buffer.

(* the key text printed at encryption (hex_to_base64 of the 16 key bytes, up to the NUL) is
   accepted and yields the same key *)
Theorem C16_printed_key_is_accepted : forall k,
  bytesb k = true -> length k = 16%nat ->
  hex_to_base64 k = encode k ++ [0%N] /\
  is_valid_b64 (encode k) = true /\ get_key (encode k) = KeyOk k.
Proof. exact C16_printed_key_is_accepted_proof. Qed.
Print Assumptions C16_printed_key_is_accepted.
