(* Basic facts about [exec] used by the agreement proof (RefineSeq.v):
   - exec does not change the object prefix [pre];
   - atomic statements and primitives do not look at the fuel and end normally;
   - [do_prim] knows none of the synchronisation primitives: a statement [exec] runs successfully executes none. *)
From Coq Require Import ZArith NArith List String Bool Lia.
From Wencry Require Import MiniC MiniCLemmas MiniCConc RefineSeqDefs.
Import ListNotations.
Local Open Scope Z_scope.

Ltac bo H := let a := fresh "a" in let E := fresh "E" in
  apply bind_Ok in H; destruct H as [a [E H]].

(* destruct every match / if / bind scrutinee of H : _ = Ok _ *)
Ltac inv_res H :=
  repeat (match type of H with
  | bind ?r _ = Ok _ => let E := fresh "E" in destruct r eqn:E; cbn [bind] in H; try discriminate H
  | (match ?x with _ => _ end) = Ok _ => let E := fresh "E" in destruct x eqn:E; try discriminate H
  | (if ?x then _ else _) = Ok _ => let E := fresh "E" in destruct x eqn:E; try discriminate H
  end).

Lemma set_ret_shape : forall b ret v s2, set_ret b ret v = Ok s2 ->
  mem s2 = mem b /\ pre s2 = pre b /\ files s2 = files b /\ ptrs s2 = ptrs b /\ fresh s2 = fresh b.
Proof.
  intros b ret v s2 H. unfold set_ret in H. destruct ret as [x|]; [destruct v as [v'|]; [|discriminate]|];
  inversion H; subst; cbn; repeat split; reflexivity.
Qed.

Lemma shared_of_eq : forall a b, mem a = mem b -> files a = files b -> ptrs a = ptrs b -> fresh a = fresh b -> shared_of a = shared_of b.
Proof. intros a b H1 H2 H3 H4. unfold shared_of. now rewrite H1, H2, H3, H4. Qed.

Lemma set_ret_shared : forall b ret v s2, set_ret b ret v = Ok s2 -> shared_of s2 = shared_of b.
Proof. intros b ret v s2 H. apply set_ret_shape in H. destruct H as (A & _ & B & C & D). now apply shared_of_eq. Qed.

Lemma do_memcpy_pre : forall s d sr n s', do_memcpy s d sr n = Ok s' -> pre s' = pre s.
Proof. intros s d sr n s' H. unfold do_memcpy in H. inv_res H. inversion H; subst; reflexivity. Qed.
Lemma do_memset_pre : forall s d v n s', do_memset s d v n = Ok s' -> pre s' = pre s.
Proof. intros s d v n s' H. unfold do_memset in H. inv_res H. inversion H; subst; reflexivity. Qed.

Lemma do_prim_pre : forall s name vs v s', do_prim s name vs = Ok (v, s') -> pre s' = pre s.
Proof.
  intros s name vs v s' H. unfold do_prim in H.
  inv_res H; inversion H; subst; reflexivity.
Qed.

(* ---- [do_prim] has no rule for a synchronisation primitive ---- *)
Lemma prefix_spawn : forall name, String.prefix "spawn:" name = true -> exists r, name = ("spawn:" ++ r)%string.
Proof.
  intros name H.
  do 6 (destruct name as [|? name]; [cbn in H; repeat (match type of H with (if ?c then _ else _) = true => destruct c; [|discriminate H] end); discriminate H|]).
  cbn in H.
  repeat match type of H with (if ?c then _ else _) = true => destruct c as [<-|]; [|discriminate H] end.
  exists name. reflexivity.
Qed.

Lemma sync_prim_no_exec : forall s name vs, is_sync_prim name = true -> exists w, do_prim s name vs = UB w.
Proof.
  intros s name vs H. unfold is_sync_prim in H. apply orb_prop in H. destruct H as [H|H].
  - cbn [existsb] in H.
    repeat (apply orb_prop in H; destruct H as [H|H]; [apply String.eqb_eq in H; subst name; eexists; reflexivity|]).
    discriminate H.
  - apply prefix_spawn in H. destruct H as [r ->]. eexists. reflexivity.
Qed.

Lemma exec_prim_not_sync : forall prog vt fuel ret name args s r,
  exec prog vt fuel (SPrim ret name args) s = Ok r -> is_sync_prim name = false.
Proof.
  intros prog vt fuel ret name args s r H. destruct fuel; [discriminate H|]. cbn [exec] in H.
  bo H. bo H. destruct (is_sync_prim name) eqn:SY; [|reflexivity].
  destruct (sync_prim_no_exec s name a SY) as [w Hw]. rewrite Hw in E0. discriminate E0.
Qed.

Lemma not_sync_not_sched : forall ret name args, is_sync_prim name = false -> is_sched_point (SPrim ret name args) = false.
Proof.
  intros ret name args H. unfold is_sync_prim in H. apply orb_false_elim in H. destruct H as [H _].
  cbn [existsb] in H. cbn [is_sched_point].
  destruct (String.eqb name "lock"); [discriminate H|]. cbn [orb] in H |- *.
  destruct (String.eqb name "unlock"); [discriminate H|]. cbn [orb] in H.
  destruct (String.eqb name "cv_wait"); [discriminate H|]. cbn [orb] in H.
  destruct (String.eqb name "notify_all"); [discriminate H|]. cbn [orb] in H.
  destruct (String.eqb name "join"); [discriminate H|]. cbn [orb] in H.
  destruct (String.eqb name "wv_yield"); [discriminate H|]. reflexivity.
Qed.

(* ---- atomic statements ---- *)
Section ExecFacts.
Variable prog : program.
Variable vt : list (string * string).

Lemma atomic_fuel : forall st f s, is_atomic st = true -> exec prog vt (S f) st s = exec prog vt 1 st s.
Proof. intros st f s H. destruct st; try discriminate H; reflexivity. Qed.

Lemma prim_fuel : forall ret name args f s, exec prog vt (S f) (SPrim ret name args) s = exec prog vt 1 (SPrim ret name args) s.
Proof. reflexivity. Qed.

Lemma atomic_normal_pre : forall st s o s', is_atomic st = true -> exec prog vt 1 st s = Ok (o, s') -> o = Normal /\ pre s' = pre s.
Proof.
  intros st s o s' A H. destruct st; try discriminate A; cbn [exec] in H.
  - inv_res H. inversion H; subst. split; reflexivity.
  - inv_res H. inversion H; subst. split; reflexivity.
  - inv_res H. inversion H; subst. split; [reflexivity|]. eapply do_memcpy_pre; eassumption.
  - inv_res H. inversion H; subst. split; [reflexivity|]. eapply do_memset_pre; eassumption.
  - inversion H; subst. split; reflexivity.
  - inv_res H. inversion H; subst. split; reflexivity.
  - inv_res H. inversion H; subst. split; reflexivity.
  - inv_res H. inversion H; subst. split; reflexivity.
  - inv_res H. inversion H; subst. split; reflexivity.
  - inv_res H. inversion H; subst. split; reflexivity.
Qed.

Lemma prim_normal_pre : forall ret name args s o s', exec prog vt 1 (SPrim ret name args) s = Ok (o, s') -> o = Normal /\ pre s' = pre s.
Proof.
  intros ret name args s o s' H. cbn [exec] in H. bo H. bo H. destruct a0 as [v s1]. bo H. inversion H; subst.
  split; [reflexivity|]. apply set_ret_shape in E1. apply do_prim_pre in E0. destruct E1 as (_ & P & _). congruence.
Qed.

(* ---- exec keeps the object prefix ---- *)
Lemma exec_pre : forall fuel st s o s', exec prog vt fuel st s = Ok (o, s') -> pre s' = pre s.
Proof.
  induction fuel as [|fuel IH]; intros st s o s' H; [discriminate H|].
  assert (CALL : forall ret fname pfx vs,
    match lget prog fname with
    | None => UB ("no function " ++ fname)%string
    | Some f => do l <- bind_params (f_params f) vs;
                do r1 <- exec prog vt fuel (f_body f) {| mem := mem s; loc := l; pre := pfx; files := files s; ptrs := ptrs s; fresh := fresh s |};
                let '(o, s1) := r1 in
                do s2 <- set_ret {| mem := mem s1; loc := loc s; pre := pre s; files := files s1; ptrs := ptrs s1; fresh := fresh s1 |} ret
                                 (match o with Returned v => v | _ => None end);
                Ok (Normal, s2)
    end = Ok (o, s') -> pre s' = pre s).
  { intros ret fname pfx vs Hc. destruct (lget prog fname) as [f|]; [|discriminate Hc].
    bo Hc. bo Hc. destruct a0 as [o1 s1]. bo Hc. inversion Hc; subst. apply set_ret_shape in E1. destruct E1 as (_ & P & _). exact P. }
  destruct (is_atomic st) eqn:A.
  { rewrite atomic_fuel in H by exact A. eapply atomic_normal_pre; eassumption. }
  destruct st; try discriminate A.
  - cbn [exec] in H. inversion H; subst; reflexivity.
  - cbn [exec] in H. bo H. destruct a as [o1 s1]. apply IH in E.
    destruct o1; [apply IH in H; congruence | inversion H; subst; exact E | inversion H; subst; exact E].
  - cbn [exec] in H. bo H. bo H. destruct (a0 =? 0); eapply IH; eassumption.
  - cbn [exec] in H. bo H. bo H. destruct (a0 =? 0); [inversion H; subst; reflexivity|].
    bo H. destruct a1 as [o1 s1]. apply IH in E1.
    destruct o1; [| inversion H; subst; exact E1 | inversion H; subst; exact E1].
    bo H. destruct a1 as [o2 s2]. apply IH in E2. destruct o2; try discriminate H. apply IH in H. congruence.
  - cbn [exec] in H. bo H. destruct a as [o1 s1]. apply IH in E.
    destruct o1; [| inversion H; subst; exact E | inversion H; subst; exact E].
    bo H. bo H. destruct (a0 =? 0); [inversion H; subst; exact E|]. apply IH in H. congruence.
  - cbn [exec] in H. inversion H; subst; reflexivity.
  - cbn [exec] in H. destruct e as [e|]; [bo H|]; inversion H; subst; reflexivity.
  - cbn [exec] in H. bo H. bo H. eapply CALL; eassumption.
  - cbn [exec] in H. bo H. bo H. destruct (lget vt a0); [eapply CALL; eassumption|].
    destruct (lget (ptrs s) (class_key a0)) as [[z|cls off|]|]; try discriminate H. eapply CALL; eassumption.
  - rewrite prim_fuel in H. eapply prim_normal_pre; eassumption.
  - cbn [exec] in H. bo H.
    match type of H with (if negb ?b then _ else _) = _ => destruct (negb b); [discriminate H|] end.
    destruct ctor as [fname|]; [|inversion H; subst; reflexivity].
    destruct (lget prog fname) as [f|]; [|discriminate H].
    bo H. bo H. destruct a1 as [o1 s1]. inversion H; subst; reflexivity.
Qed.
End ExecFacts.
