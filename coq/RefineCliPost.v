(* get_v_opt after the getopt loop: the checks, defaults, random key and random buffer *)
From Coq Require Import ZArith NArith List String Bool Lia.
From Wencry Require Import Bytes Base64Spec CliModel MiniC MiniCRun MiniCLemmas SrcRun SrcRun3 CliConc RefineB64Lib RefineCliSim RefineCliLib RefineCliTac RefineCliKey RefineCliTok RefineCliTokK RefineCliLoop.
From Wencry.Gen Require Src_cli Src_base64.
Import ListNotations.
Local Open Scope string_scope.
Local Open Scope list_scope.
Local Open Scope Z_scope.
Local Arguments heap_name : simpl never.

Definition seq_head (st : stmt) : stmt := match st with SSeq a _ => a | _ => st end.
Definition post_if : stmt := seq_head gv_post.
Definition enc_blk : stmt := match post_if with SIf _ _ (SIf _ e _) => e | _ => SSkip end.
Definition dv_blk : stmt := match post_if with SIf _ _ (SIf _ _ (SIf _ d _)) => d | _ => SSkip end.
Definition enc_b (k : nat) : stmt := seq_head (seq_drop k enc_blk).
Definition enc_last : stmt := seq_drop 5 enc_blk.

Lemma mset_mset_same : forall m k o o', mset (mset m k o) k o' = mset m k o'.
Proof.
  induction m as [|[k0 o0] r IH]; intros k o o'; cbn [mset].
  - rewrite String.eqb_refl. reflexivity.
  - destruct (String.eqb k k0) eqn:E; cbn [mset]; [rewrite String.eqb_refl; reflexivity|]. rewrite E, IH. reflexivity.
Qed.

(* check_ctype / check_htype *)
Lemma check_ctype_ok : forall m fs ps fr c, 0 <= c < 128 ->
  exists l', exec cli_prog [] 20 (f_body Src_cli.f_check_ctype_1) (mk m [("ctype_num", VInt c)] fs ps fr) =
  Ok (Returned (Some (VInt (if c <? 5 then 1 else 0))), mk m l' fs ps fr).
Proof.
  intros m fs ps fr c Hc. cbn [f_body Src_cli.f_check_ctype_1]. unfold mk.
  assert (E0 : (0 <=? c) = true) by (apply Z.leb_le; lia).
  assert (WU : wrap U64 c = c) by (apply wrap_U64_small; lia).
  assert (WB : forall b : bool, wrap TBool (if b then 1 else 0) = if b then 1 else 0) by (intros [|]; reflexivity).
  destruct (c <? 5) eqn:E; eexists.
  all: xrun ltac:(first [rewrite E0 | rewrite WU | rewrite E | rewrite WB]).
Qed.
Lemma check_htype_ok : forall m fs ps fr c, 0 <= c < 128 ->
  exists l', exec cli_prog [] 20 (f_body Src_cli.f_check_htype_1) (mk m [("htype_num", VInt c)] fs ps fr) =
  Ok (Returned (Some (VInt (if c <? 3 then 1 else 0))), mk m l' fs ps fr).
Proof.
  intros m fs ps fr c Hc. cbn [f_body Src_cli.f_check_htype_1]. unfold mk.
  assert (E0 : (0 <=? c) = true) by (apply Z.leb_le; lia).
  assert (WU : wrap U64 c = c) by (apply wrap_U64_small; lia).
  assert (WB : forall b : bool, wrap TBool (if b then 1 else 0) = if b then 1 else 0) by (intros [|]; reflexivity).
  destruct (c <? 3) eqn:E; eexists.
  all: xrun ltac:(first [rewrite E0 | rewrite WU | rewrite E | rewrite WB]).
Qed.

Ltac lgt := first [rewrite lget_lset_same | rewrite lget_lset_other by discriminate].

(* block 1: ctype *)
Lemma enc_b1_ok : forall m extra fs oa fpv outv keyv pe fr md ct ht ne,
  mget m "#0" = Some (res_obj md ct ht ne) -> -1 <= wrap I8 ct < 128 -> pv fpv -> pv outv ->
  let ps := pps oa fpv outv keyv pe in
  exists extra',
  exec cli_prog [] 60 (enc_b 0) (mk m (gl extra) fs ps fr) =
  if wrap I8 ct =? -1 then Ok (Normal, mk (mset m "#0" (res_obj md 0 ht ne)) (gl extra') fs ps fr)
  else if wrap I8 ct <? 5 then Ok (Normal, mk m (gl extra') fs ps fr)
  else Ok (Returned (Some VNull), mk m (gl extra') fs ps fr).
Proof.
  intros m extra fs oa fpv outv keyv pe fr md ct ht ne Hres Hct Hpf Hpo ps.
  unfold enc_b, enc_blk, post_if, gv_post. cbn [seq_head seq_drop gv_body f_body Src_cli.f_get_v_opt_2].
  pose proof (wrap_I32_small (wrap I8 ct) ltac:(lia)) as W32.
  destruct (wrap I8 ct =? -1) eqn:E.
  - unfold mk, gl. eexists.
    xrun ltac:(first [rewrite Hres | rewrite res_load_ctype | rewrite res_store_ctype | rewrite W32 | rewrite E]).
  - assert (Hc : 0 <= wrap I8 ct < 128) by (apply Z.eqb_neq in E; lia).
    destruct (check_ctype_ok m fs ps fr (wrap I8 ct) Hc) as (l1 & Hp).
    unfold mk, gl in *.
    destruct (wrap I8 ct <? 5) eqn:E5; eexists.
    + xrun ltac:(first [rewrite Hres | rewrite res_load_ctype | rewrite W32 | rewrite E]).
      { eapply x_call; [evr2 ltac:(first [rewrite Hres | rewrite res_load_ctype | rewrite W32]); reflexivity | reflexivity | reflexivity | eapply exec_mono; [exact Hp|lia] | stn]. }
      all: xrun lgt. all: xrun lgt.
    + xrun ltac:(first [rewrite Hres | rewrite res_load_ctype | rewrite W32 | rewrite E]).
      { eapply x_call; [evr2 ltac:(first [rewrite Hres | rewrite res_load_ctype | rewrite W32]); reflexivity | reflexivity | reflexivity | eapply exec_mono; [exact Hp|lia] | stn]. }
      all: xrun lgt. { apply closeFiles_call; [reflexivity | lia | assumption | assumption]. }
      all: xrun lgt. all: xrun lgt. all: xrun lgt.
Qed.

(* block 2: htype *)
Lemma enc_b2_ok : forall m extra fs oa fpv outv keyv pe fr md ct ht ne,
  mget m "#0" = Some (res_obj md ct ht ne) -> -1 <= wrap I8 ht < 128 -> pv fpv -> pv outv ->
  let ps := pps oa fpv outv keyv pe in
  exists extra',
  exec cli_prog [] 60 (enc_b 1) (mk m (gl extra) fs ps fr) =
  if wrap I8 ht =? -1 then Ok (Normal, mk (mset m "#0" (res_obj md ct 0 ne)) (gl extra') fs ps fr)
  else if wrap I8 ht <? 3 then Ok (Normal, mk m (gl extra') fs ps fr)
  else Ok (Returned (Some VNull), mk m (gl extra') fs ps fr).
Proof.
  intros m extra fs oa fpv outv keyv pe fr md ct ht ne Hres Hct Hpf Hpo ps.
  unfold enc_b, enc_blk, post_if, gv_post. cbn [seq_head seq_drop gv_body f_body Src_cli.f_get_v_opt_2].
  pose proof (wrap_I32_small (wrap I8 ht) ltac:(lia)) as W32.
  destruct (wrap I8 ht =? -1) eqn:E.
  - unfold mk, gl. eexists.
    xrun ltac:(first [rewrite Hres | rewrite res_load_htype | rewrite res_store_htype | rewrite W32 | rewrite E]).
  - assert (Hc : 0 <= wrap I8 ht < 128) by (apply Z.eqb_neq in E; lia).
    destruct (check_htype_ok m fs ps fr (wrap I8 ht) Hc) as (l1 & Hp).
    unfold mk, gl in *.
    destruct (wrap I8 ht <? 3) eqn:E5; eexists.
    + xrun ltac:(first [rewrite Hres | rewrite res_load_htype | rewrite W32 | rewrite E]).
      { eapply x_call; [evr2 ltac:(first [rewrite Hres | rewrite res_load_htype | rewrite W32]); reflexivity | reflexivity | reflexivity | eapply exec_mono; [exact Hp|lia] | stn]. }
      all: xrun lgt. all: xrun lgt.
    + xrun ltac:(first [rewrite Hres | rewrite res_load_htype | rewrite W32 | rewrite E]).
      { eapply x_call; [evr2 ltac:(first [rewrite Hres | rewrite res_load_htype | rewrite W32]); reflexivity | reflexivity | reflexivity | eapply exec_mono; [exact Hp|lia] | stn]. }
      all: xrun lgt. { apply closeFiles_call; [reflexivity | lia | assumption | assumption]. }
      all: xrun lgt. all: xrun lgt. all: xrun lgt.
Qed.

(* getRandomKey with rand() = 0 *)
Ltac xiter tac :=
  eapply x_loop_iter;
  [ evr2 tac; reflexivity | discriminate
  | eapply x_seq_gen; [eapply x_prim; [reflexivity|reflexivity|stn] | cbv iota; xrun tac]
  | xrun tac | ].
Lemma grk_ok : forall m fs ps fr,
  exists l', exec cli_prog [] 40 (f_body Src_cli.f_getRandomKey_0) (mk m [] fs ps fr) =
  Ok (Returned (Some (VPtr (heap_name fr) 0)), mk (mset m (heap_name fr) key0_obj) l' fs ps (S fr)).
Proof.
  intros m fs ps fr. cbn [f_body Src_cli.f_getRandomKey_0]. unfold mk. eexists.
  eapply x_seq_gen.
  { eapply x_new; [evr2 fail; reflexivity | lia | reflexivity]. }
  cbv iota. cbn [mem loc pre files ptrs fresh lset String.eqb Ascii.eqb Bool.eqb].
  change (Z.to_nat 16) with 16%nat.
  eapply x_seq_gen. { xrun fail. } cbv iota.
  eapply x_seq_gen.
  { do 16 (xiter ltac:(first [rewrite key_store by lia | rewrite mset_mset_same])).
    eapply x_loop_end. evr2 fail. reflexivity. }
  cbv iota. rewrite !mset_mset_same. xrun fail.
Qed.

(* block 3: the key *)
Lemma enc_b3_null : forall m extra fs oa fpv outv pe fr,
  exists extra',
  exec cli_prog [] 60 (enc_b 2) (mk m (gl extra) fs (pps oa fpv outv VNull pe) fr) =
  Ok (Normal, mk (mset m (heap_name fr) key0_obj) (gl extra') fs (pps oa fpv outv (VPtr (heap_name fr) 0) pe) (S fr)).
Proof.
  intros m extra fs oa fpv outv pe fr.
  destruct (grk_ok m fs (pps oa fpv outv VNull pe) fr) as (l1 & Hp).
  unfold enc_b, enc_blk, post_if, gv_post. cbn [seq_head seq_drop gv_body f_body Src_cli.f_get_v_opt_2].
  unfold mk, gl, pps in *. eexists.
  xrun fail.
  { eapply x_call; [reflexivity | reflexivity | reflexivity | eapply exec_mono; [exact Hp|lia] | stn]. }
  all: xrun lgt. all: xrun lgt.
Qed.
Lemma enc_b3_set : forall m extra fs oa fpv outv nm off pe fr,
  exec cli_prog [] 60 (enc_b 2) (mk m (gl extra) fs (pps oa fpv outv (VPtr nm off) pe) fr) =
  Ok (Normal, mk m (gl extra) fs (pps oa fpv outv (VPtr nm off) pe) fr).
Proof.
  intros. unfold enc_b, enc_blk, post_if, gv_post. cbn [seq_head seq_drop gv_body f_body Src_cli.f_get_v_opt_2].
  unfold mk, gl, pps. xrun fail.
Qed.

(* block 4: the input file *)
Lemma enc_b4_null : forall m extra fs oa outv keyv pe fr,
  pv outv ->
  exec cli_prog [] 60 (enc_b 3) (mk m (gl extra) fs (pps oa VNull outv keyv pe) fr) =
  Ok (Returned (Some VNull), mk m (gl extra) fs (pps oa VNull outv keyv pe) fr).
Proof.
  intros m extra fs oa outv keyv pe fr Hpo. unfold enc_b, enc_blk, post_if, gv_post. cbn [seq_head seq_drop gv_body f_body Src_cli.f_get_v_opt_2].
  unfold mk, gl. xrun fail. { apply closeFiles_call; [reflexivity | lia | first [assumption | exact Logic.I] | first [assumption | exact Logic.I]]. }
  all: xrun fail. all: xrun fail.
Qed.
Lemma enc_b4_set : forall m extra fs oa nm off outv keyv pe fr,
  exec cli_prog [] 60 (enc_b 3) (mk m (gl extra) fs (pps oa (VPtr nm off) outv keyv pe) fr) =
  Ok (Normal, mk m (gl extra) fs (pps oa (VPtr nm off) outv keyv pe) fr).
Proof.
  intros. unfold enc_b, enc_blk, post_if, gv_post. cbn [seq_head seq_drop gv_body f_body Src_cli.f_get_v_opt_2].
  unfold mk, gl, pps. xrun fail.
Qed.

(* block 5: the output file *)
Lemma load_tbool : forall x, load_obj {| o_ty := TBool; o_cells := [x] |} TBool 0 = Ok (wrap TBool x).
Proof. reflexivity. Qed.
Lemma enc_b5_set : forall m extra fs oa fpv nm off keyv pe fr,
  exec cli_prog [] 60 (enc_b 4) (mk m (gl extra) fs (pps oa fpv (VPtr nm off) keyv pe) fr) =
  Ok (Normal, mk m (gl extra) fs (pps oa fpv (VPtr nm off) keyv pe) fr).
Proof.
  intros. unfold enc_b, enc_blk, post_if, gv_post. cbn [seq_head seq_drop gv_body f_body Src_cli.f_get_v_opt_2].
  unfold mk, gl, pps. xrun fail.
Qed.
Lemma enc_b5_long : forall m extra fs oa fpv keyv pe fr,
  mget m "fout_too_long" = Some {| o_ty := TBool; o_cells := [1] |} -> pv fpv ->
  exec cli_prog [] 60 (enc_b 4) (mk m (gl extra) fs (pps oa fpv VNull keyv pe) fr) =
  Ok (Returned (Some VNull), mk m (gl extra) fs (pps oa fpv VNull keyv pe) fr).
Proof.
  intros m extra fs oa fpv keyv pe fr Hf Hpf. unfold enc_b, enc_blk, post_if, gv_post. cbn [seq_head seq_drop gv_body f_body Src_cli.f_get_v_opt_2].
  unfold mk, gl. xrun ltac:(first [rewrite Hf | rewrite load_tbool]). { apply closeFiles_call; [reflexivity | lia | first [assumption | exact Logic.I] | first [assumption | exact Logic.I]]. }
  all: xrun fail. all: xrun fail. all: xrun fail.
Qed.
Lemma enc_b5_open : forall m extra D gp F fp oa fpv keyv pe fr fdone (b : bool) ftodo,
  mget m "fout_too_long" = Some {| o_ty := TBool; o_cells := [0] |} ->
  F = fdone ++ b2z b :: ftodo -> fp = List.length fdone -> pv fpv ->
  exists extra',
  exec cli_prog [] 60 (enc_b 4) (mk m (gl extra) (gfiles D gp F fp) (pps oa fpv VNull keyv pe) fr) =
  if b then Ok (Normal, mk m (gl extra') (gfiles D gp F (S fp)) (pps oa fpv (VPtr (streamname fp) 0) keyv pe) fr)
  else Ok (Returned (Some VNull), mk m (gl extra') (gfiles D gp F (S fp)) (pps oa fpv VNull keyv pe) fr).
Proof.
  intros m extra D gp F fp oa fpv keyv pe fr fdone b ftodo Hf HF Hfp Hpf.
  unfold enc_b, enc_blk, post_if, gv_post. cbn [seq_head seq_drop gv_body f_body Src_cli.f_get_v_opt_2].
  unfold mk, gl. destruct b; cbn [b2z] in HF; eexists.
  - unfold pps. xrun ltac:(first [rewrite Hf | rewrite load_tbool]). { xprim prim_fopen_ok. }
    all: xrun lgt. all: xrun lgt. all: xrun lgt.
  - unfold pps. xrun ltac:(first [rewrite Hf | rewrite load_tbool]). { xprim prim_fopen_null. }
    all: xrun lgt. all: xrun lgt.
    { apply (closeFiles_call _ m _ _ oa fpv VNull keyv pe fr); [reflexivity | lia | assumption | exact Logic.I]. }
    all: xrun lgt. all: xrun lgt. all: xrun lgt.
Qed.

(* getRandomBuffer(res->r_buf) with rand() = 0: the 256 bytes stay 0 *)
Definition grb_loop : stmt := match f_body Src_cli.f_getRandomBuffer_1 with SSeq _ l => l | _ => SSkip end.
Ltac ev3 := cbn -[arith wrap load_obj store_obj Z.modulo Z.pow Z.of_nat Z.to_nat mget mset heap_name argname streamname res_obj ptr_key gfiles
                  Z.shiftl Z.shiftr Z.land Z.lor repeat Z.add Z.mul].
Lemma grb_ok : forall m fs ps fr md ct ht ne,
  mget m "#0" = Some (res_obj md ct ht ne) ->
  exists l', exec cli_prog [] 280 (f_body Src_cli.f_getRandomBuffer_1) (mk m [("r_buf", VPtr "#0" 24)] fs ps fr) =
  Ok (Normal, mk (mset m "#0" (res_obj md ct ht ne)) l' fs ps fr).
Proof.
  intros m fs ps fr md ct ht ne Hres.
  set (ro := res_obj md ct ht ne) in *.
  set (f := fun k : nat => mk (match k with O => m | S _ => mset m "#0" ro end)
                              ([("r_buf", VPtr "#0" 24); ("i", VInt (Z.of_nat k))] ++ match k with O => [] | S _ => [("$t1", VInt 0)] end) fs ps fr).
  assert (HL : exec cli_prog [] (S (10 + (256 - 0))) grb_loop (f 0%nat) = Ok (Normal, f 256%nat)).
  { unfold grb_loop. cbn [f_body Src_cli.f_getRandomBuffer_1].
    apply loop_count; [|unfold f, mk; reflexivity|lia].
    intros k Hk. exists 1. split; [|split; [discriminate|]].
    - unfold f, mk. ev3. destruct (Z.ltb_spec (Z.of_nat k) 256); [reflexivity|lia].
    - assert (A : arith I32 (Z.of_nat k + 1) = Ok (Z.of_nat (S k))) by (rewrite arith_I32_small by lia; f_equal; lia).
      pose proof (res_store_rbuf md ct ht ne (Z.of_nat k) ltac:(lia)) as ST. fold ro in ST.
      set (zk := Z.of_nat k) in *.
      assert (Hm : mget (match k with O => m | S _ => mset m "#0" ro end) "#0" = Some ro) by (destruct k; [exact Hres|apply mget_mset_same]).
      assert (Hm2 : mset (match k with O => m | S _ => mset m "#0" ro end) "#0" ro = mset m "#0" ro) by (destruct k; [reflexivity|apply mset_mset_same]).
      eexists. split.
      + unfold f, mk. eapply x_seq_gen; [eapply x_prim; [reflexivity|reflexivity|stn]|]. cbv iota.
        eapply x_store.
        * ev3. rewrite Z.mul_1_r. reflexivity.
        * destruct k; ev3; reflexivity.
        * cbn [mem]. exact Hm.
        * change (wrap U8 0) with 0. exact ST.
        * reflexivity.
      + unfold f, mk, with_mem, with_loc. cbn [mem loc pre files ptrs fresh]. rewrite Hm2. eapply x_set.
        * destruct k; ev3; fold zk; rewrite A; reflexivity.
        * destruct k; stn. }
  eexists. cbn [f_body Src_cli.f_getRandomBuffer_1]. unfold mk.
  eapply x_seq_gen. { xrun fail. } cbv iota.
  eapply exec_mono; [exact HL|lia].
Qed.

Lemma enc_last_ok : forall m extra fs ps fr md ct ht ne,
  mget m "#0" = Some (res_obj md ct ht ne) ->
  exec cli_prog [] 290 enc_last (mk m (gl extra) fs ps fr) = Ok (Normal, mk (mset m "#0" (res_obj md ct ht ne)) (gl extra) fs ps fr).
Proof.
  intros m extra fs ps fr md ct ht ne Hres.
  destruct (grb_ok m fs ps fr md ct ht ne Hres) as (l1 & Hp).
  unfold enc_last, enc_blk, post_if, gv_post. cbn [seq_head seq_drop gv_body f_body Src_cli.f_get_v_opt_2].
  unfold mk, gl in *.
  eapply x_call; [reflexivity | reflexivity | reflexivity | eapply exec_mono; [exact Hp|lia] | stn].
Qed.

(* ---------------- the blocks on states satisfying the invariant ---------------- *)
Definition set_ct (p : pak) (c : Z) : pak :=
  {| mode := mode p; ctype := c; htype := htype p; fp := fp p; out := out p; key := key p; no_echo := no_echo p; dflt_ok := dflt_ok p |}.
Definition set_ht (p : pak) (c : Z) : pak :=
  {| mode := mode p; ctype := ctype p; htype := c; fp := fp p; out := out p; key := key p; no_echo := no_echo p; dflt_ok := dflt_ok p |}.
Definition set_key (p : pak) (k : nat) : pak :=
  {| mode := mode p; ctype := ctype p; htype := htype p; fp := fp p; out := out p; key := Some k; no_echo := no_echo p; dflt_ok := dflt_ok p |}.
Definition set_out (p : pak) : pak :=
  {| mode := mode p; ctype := ctype p; htype := htype p; fp := fp p; out := true; key := key p; no_echo := no_echo p; dflt_ok := dflt_ok p |}.

Definition ct_opt (c lim : Z) : option Z := if c =? -1 then Some 0 else if (0 <=? c) && (c <? lim) then Some c else None.

Lemma b1_inv : forall p lng dl m fpv outv keyv fr extra fs oa pe,
  Inv p lng dl m fpv outv keyv fr ->
  match ct_opt (ctype p) 5 with
  | Some c' => exists m' extra', exec cli_prog [] 60 (enc_b 0) (mk m (gl extra) fs (pps oa fpv outv keyv pe) fr) =
                 Ok (Normal, mk m' (gl extra') fs (pps oa fpv outv keyv pe) fr) /\ Inv (set_ct p c') lng dl m' fpv outv keyv fr
  | None => exists s', exec cli_prog [] 60 (enc_b 0) (mk m (gl extra) fs (pps oa fpv outv keyv pe) fr) = Ok (Returned (Some VNull), s')
  end.
Proof.
  intros p lng dl m fpv outv keyv fr extra fs oa pe I.
  pose proof (wrap_I8_byte (ctype p) ltac:(destruct I; lia)) as WB.
  destruct (enc_b1_ok m extra fs oa fpv outv keyv pe fr _ _ _ _ (i_res _ _ _ _ _ _ _ _ I) ltac:(rewrite WB; destruct I; lia)
              (vrel_pv _ _ (i_fp _ _ _ _ _ _ _ _ I)) (vrel_pv _ _ (i_out _ _ _ _ _ _ _ _ I))) as (extra' & Hp). cbv zeta in Hp.
  rewrite WB in Hp. unfold ct_opt.
  destruct (ctype p =? -1) eqn:E.
  - eexists. exists extra'. split; [exact Hp|]. unfold set_ct. inv_tac I; lia.
  - assert (E0 : (0 <=? ctype p) = true) by (apply Z.leb_le; apply Z.eqb_neq in E; destruct I; lia). rewrite E0. cbn [andb].
    destruct (ctype p <? 5) eqn:E5.
    + exists m, extra'. split; [exact Hp|]. unfold set_ct. destruct I; constructor; auto.
    + eexists. exact Hp.
Qed.

Lemma b2_inv : forall p lng dl m fpv outv keyv fr extra fs oa pe,
  Inv p lng dl m fpv outv keyv fr ->
  match ct_opt (htype p) 3 with
  | Some c' => exists m' extra', exec cli_prog [] 60 (enc_b 1) (mk m (gl extra) fs (pps oa fpv outv keyv pe) fr) =
                 Ok (Normal, mk m' (gl extra') fs (pps oa fpv outv keyv pe) fr) /\ Inv (set_ht p c') lng dl m' fpv outv keyv fr
  | None => exists s', exec cli_prog [] 60 (enc_b 1) (mk m (gl extra) fs (pps oa fpv outv keyv pe) fr) = Ok (Returned (Some VNull), s')
  end.
Proof.
  intros p lng dl m fpv outv keyv fr extra fs oa pe I.
  pose proof (wrap_I8_byte (htype p) ltac:(destruct I; lia)) as WB.
  destruct (enc_b2_ok m extra fs oa fpv outv keyv pe fr _ _ _ _ (i_res _ _ _ _ _ _ _ _ I) ltac:(rewrite WB; destruct I; lia)
              (vrel_pv _ _ (i_fp _ _ _ _ _ _ _ _ I)) (vrel_pv _ _ (i_out _ _ _ _ _ _ _ _ I))) as (extra' & Hp). cbv zeta in Hp.
  rewrite WB in Hp. unfold ct_opt.
  destruct (htype p =? -1) eqn:E.
  - eexists. exists extra'. split; [exact Hp|]. unfold set_ht. inv_tac I; lia.
  - assert (E0 : (0 <=? htype p) = true) by (apply Z.leb_le; apply Z.eqb_neq in E; destruct I; lia). rewrite E0. cbn [andb].
    destruct (htype p <? 3) eqn:E5.
    + exists m, extra'. split; [exact Hp|]. unfold set_ht. destruct I; constructor; auto.
    + eexists. exact Hp.
Qed.

Lemma key0_is_key_of_0 : key0_obj = bytes_object (key_of 0). Proof. reflexivity. Qed.

Lemma b3_inv : forall p lng dl m fpv outv keyv fr extra fs oa pe,
  Inv p lng dl m fpv outv keyv fr ->
  exists m' keyv' fr' extra', exec cli_prog [] 60 (enc_b 2) (mk m (gl extra) fs (pps oa fpv outv keyv pe) fr) =
     Ok (Normal, mk m' (gl extra') fs (pps oa fpv outv keyv' pe) fr') /\
     Inv (set_key p (match key p with Some k => k | None => RANDOM_KEY end)) lng dl m' fpv outv keyv' fr'.
Proof.
  intros p lng dl m fpv outv keyv fr extra fs oa pe I.
  pose proof (i_key _ _ _ _ _ _ _ _ I) as HK. unfold krel in HK.
  destruct (key p) as [kid|] eqn:EK.
  - destruct HK as (j & -> & Hj & Hm). exists m, (VPtr (heap_name j) 0), fr, extra. split; [apply enc_b3_set|].
    unfold set_key. destruct I; constructor; cbn [mode ctype htype fp out key no_echo dflt_ok]; auto.
    cbn [krel]. exists j. auto.
  - subst keyv. destruct (enc_b3_null m extra fs oa fpv outv pe fr) as (extra' & Hp).
    do 4 eexists. split; [exact Hp|].
    unfold set_key, RANDOM_KEY. destruct I; constructor; cbn [mode ctype htype fp out key no_echo dflt_ok krel]; mgo; auto.
    exists fr. split; [reflexivity|]. split; [lia|]. mgo. rewrite key0_is_key_of_0. reflexivity.
Qed.

Lemma b4_inv : forall p lng dl m fpv outv keyv fr extra fs oa pe,
  Inv p lng dl m fpv outv keyv fr ->
  exec cli_prog [] 60 (enc_b 3) (mk m (gl extra) fs (pps oa fpv outv keyv pe) fr) =
  if is_some (fp p) then Ok (Normal, mk m (gl extra) fs (pps oa fpv outv keyv pe) fr)
  else Ok (Returned (Some VNull), mk m (gl extra) fs (pps oa fpv outv keyv pe) fr).
Proof.
  intros p lng dl m fpv outv keyv fr extra fs oa pe I.
  pose proof (i_fp _ _ _ _ _ _ _ _ I) as HF. unfold vrel in HF.
  destruct (is_some (fp p)).
  - destruct HF as (nm & ->). apply enc_b4_set.
  - subst fpv. apply enc_b4_null. exact (vrel_pv _ _ (i_out _ _ _ _ _ _ _ _ I)).
Qed.

Lemma b5_inv : forall p lng dl m fpv outv keyv fr extra D gp fdone oa pe,
  Inv p lng dl m fpv outv keyv fr ->
  let s := mk m (gl extra) (gfiles D gp (fdone ++ [b2z dl]) (List.length fdone)) (pps oa fpv outv keyv pe) fr in
  if out p || dflt_ok p
  then exists outv' fs' extra', exec cli_prog [] 60 (enc_b 4) s = Ok (Normal, mk m (gl extra') fs' (pps oa fpv outv' keyv pe) fr) /\
                                Inv (set_out p) lng dl m fpv outv' keyv fr
  else exists s', exec cli_prog [] 60 (enc_b 4) s = Ok (Returned (Some VNull), s').
Proof.
  intros p lng dl m fpv outv keyv fr extra D gp fdone oa pe I. cbv zeta.
  pose proof (i_out _ _ _ _ _ _ _ _ I) as HO. unfold vrel in HO.
  pose proof (i_dflt _ _ _ _ _ _ _ _ I) as HD. pose proof (i_ftl _ _ _ _ _ _ _ _ I) as HT.
  destruct (out p) eqn:EO; cbn [orb].
  - destruct HO as (nm & ->). do 3 eexists. split; [apply enc_b5_set|].
    unfold set_out. destruct I; constructor; cbn [mode ctype htype fp out key no_echo dflt_ok vrel]; auto. eexists; reflexivity.
  - subst outv. rewrite HD. destruct lng; cbn [negb andb b2z] in *.
    + eexists. apply enc_b5_long; [exact HT|exact (vrel_pv _ _ (i_fp _ _ _ _ _ _ _ _ I))].
    + destruct (enc_b5_open m extra D gp (fdone ++ [b2z dl]) (List.length fdone) oa fpv keyv pe fr fdone dl [] HT eq_refl eq_refl (vrel_pv _ _ (i_fp _ _ _ _ _ _ _ _ I))) as (extra' & Hp).
      destruct dl.
      * do 3 eexists. split; [exact Hp|].
        unfold set_out. destruct I; constructor; cbn [mode ctype htype fp out key no_echo dflt_ok vrel]; auto. eexists; reflexivity.
      * eexists. exact Hp.
Qed.

Lemma last_inv : forall p lng dl m fpv outv keyv fr extra fs oa pe,
  Inv p lng dl m fpv outv keyv fr ->
  exists m', exec cli_prog [] 290 enc_last (mk m (gl extra) fs (pps oa fpv outv keyv pe) fr) =
             Ok (Normal, mk m' (gl extra) fs (pps oa fpv outv keyv pe) fr) /\ Inv p lng dl m' fpv outv keyv fr.
Proof.
  intros p lng dl m fpv outv keyv fr extra fs oa pe I.
  eexists. split; [apply enc_last_ok; apply (i_res _ _ _ _ _ _ _ _ I)|]. inv_tac I.
Qed.
