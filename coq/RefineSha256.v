(* Refinement: the translated methods of sha256hash (Gen/Src_sha256.v) implement the model alg_sha256
   in the sense of RefineHashDefs.class_spec. *)
From Coq Require Import ZArith NArith List String Bool Lia.
From Wencry Require Import Bytes HashModel MiniC MiniCLemmas MiniCRun SrcRun RefineHashDefs RefineSha256Lib.
From Wencry.Gen Require Import HashConst.
From Wencry.Gen Require Src_sha256.
Import ListNotations.
Local Open Scope string_scope.
Local Open Scope list_scope.

(* ---------------- the pieces of the translated functions ---------------- *)
Fixpoint nth_seq (n : nat) (st : stmt) : stmt :=
  match n, st with
  | O, SSeq a _ => a
  | S n', SSeq _ b => nth_seq n' b
  | _, _ => st
  end.
Definition loop_c (st : stmt) : expr := match st with SLoop c _ _ => c | _ => ENull end.
Definition loop_b (st : stmt) : stmt := match st with SLoop _ b _ => b | _ => SSkip end.
Definition loop_s (st : stmt) : stmt := match st with SLoop _ _ s => s | _ => SSkip end.

Lemma lk_getwdata : lget hash_prog "sha256hash::getwdata/0" = Some Src_sha256.f_sha256hash_getwdata_0.
Proof. reflexivity. Qed.
Lemma lk_getHash1 : lget hash_prog "sha256hash::getHash/1" = Some Src_sha256.f_sha256hash_getHash_1.
Proof. reflexivity. Qed.
Lemma lk_getHash2 : lget hash_prog "sha256hash::getHash/2" = Some Src_sha256.f_sha256hash_getHash_2.
Proof. reflexivity. Qed.
Lemma lk_getres : lget hash_prog "sha256hash::getres/1" = Some Src_sha256.f_sha256hash_getres_1.
Proof. reflexivity. Qed.
Lemma lk_reset : lget hash_prog "sha256hash::reset/0" = Some Src_sha256.f_sha256hash_reset_0.
Proof. reflexivity. Qed.
Lemma lk_getblen : lget hash_prog "sha256hash::getblen/0" = Some Src_sha256.f_sha256hash_getblen_0.
Proof. reflexivity. Qed.
Lemma lk_addtotal : lget hash_prog "Hashmaster::addtotal/1" = Some Src_sha256.f_Hashmaster_addtotal_1.
Proof. reflexivity. Qed.
Lemma g_k_eq : Src_sha256.g_k = u32_obj sha256_k.
Proof. reflexivity. Qed.

Ltac evn :=
  first [ match goal with H : evN ?s1 ?e1 _ |- evN ?s2 ?e2 _ => constr_eq s1 s2; constr_eq e1 e2; exact H end |
  lazymatch goal with
  | |- evN _ (EBin U32 Add _ _) _ => eapply evN_add; evn
  | |- evN _ (EBin U32 Sub _ _) _ => eapply evN_sub; [evn | evn | ]
  | |- evN _ (EBin U32 BXor _ _) _ => eapply evN_xor; evn
  | |- evN _ (EBin U32 BOr _ _) _ => eapply evN_or; evn
  | |- evN _ (EBin U32 BAnd _ _) _ => eapply evN_and; evn
  | |- evN _ (EUn U32 BNot _) _ => eapply evN_not; evn
  | |- evN _ (EBin U32 Shr _ _) _ => eapply evN_shr; [evn | cbv; reflexivity | cbv; split; congruence]
  | |- evN _ (EBin U32 Shl _ _) _ => eapply evN_shl; [evn | cbv; reflexivity | cbv; split; congruence]
  | |- evN _ (ECast U32 _) _ => eapply evN_cast32; evn
  | |- evN _ (ECast U8 _) _ => eapply evN_cast8; evn
  | |- evN _ (EConst _) _ => eapply evN_const; cbv; split; congruence
  | |- _ => idtac
  end ].

(* goals  lget (lset ... ) x = Some _ *)
Ltac lg := repeat (rewrite lget_lset_same || rewrite lget_lset_other by discriminate); try eassumption; try reflexivity.
Ltac mg := repeat (rewrite mget_mset_same || rewrite mget_mset_other by (try discriminate; try congruence; auto)); try eassumption; try reflexivity.
Ltac sproj := cbn [mem loc pre files ptrs fresh with_mem with_loc callee_state back_state].

Definition same_rest (s s0 : state) : Prop :=
  pre s = pre s0 /\ files s = files s0 /\ ptrs s = ptrs s0 /\ fresh s = fresh s0.
Lemma same_rest_refl : forall s, same_rest s s. Proof. intro s. repeat split. Qed.

(* cells 0..k-1 of the U32 x 64 object "w" hold the first k words of W *)
Definition winv (W : list N) (k : nat) (m : memory) : Prop :=
  exists ob, mget m "w" = Some ob /\ o_ty ob = U32 /\ List.length (o_cells ob) = 64%nat /\
             forall j, (j < k)%nat -> nth j (o_cells ob) 0%Z = Z.of_N (nth j W 0%N).

Section Sha256.
Variable vt : list (string * string).
Hypothesis Hvt : lget vt "" = Some "sha256hash".
Notation TI := (ti hash_prog vt).

(* ================= getwdata ================= *)
Definition gw := f_body Src_sha256.f_sha256hash_getwdata_0.
Definition gw_loop1 := Eval cbv in nth_seq 1 gw.
Definition gw_loop2 := Eval cbv in nth_seq 2 gw.
Lemma gw_eq : gw = SSeq (SSet "i" (ECast U32 (EConst 0))) (SSeq gw_loop1 gw_loop2).
Proof. reflexivity. Qed.

Definition gw_inv (W : list N) (s0 : state) (base : nat) (k : nat) (s : state) : Prop :=
  same_rest s s0 /\ lget (loc s) "i" = Some (VInt (Z.of_N (N.of_nat (base + k)))) /\
  winv W (base + k) (mem s) /\ (forall x, x <> "w" -> mget (mem s) x = mget (mem s0) x).

Lemma winv_step : forall W k m ob x, mget m "w" = Some ob -> o_ty ob = U32 -> List.length (o_cells ob) = 64%nat ->
  (forall j, (j < k)%nat -> nth j (o_cells ob) 0%Z = Z.of_N (nth j W 0%N)) -> (k < 64)%nat -> x = nth k W 0%N ->
  winv W (S k) (mset m "w" {| o_ty := U32; o_cells := upd_nth k (Z.of_N x) (o_cells ob) |}).
Proof.
  intros W k m ob x Hm Ht Hl Hp Hk Hx. eexists. split; [apply mget_mset_same|]. cbn [o_ty o_cells].
  split; [reflexivity|]. split; [rewrite upd_nth_length; auto|].
  intros j Hj. destruct (Nat.eq_dec j k) as [->|Hne].
  - rewrite nth_upd_nth_same by lia. now rewrite Hx.
  - rewrite nth_upd_nth_other by lia. apply Hp. lia.
Qed.

Lemma N_of_nat_S_add32 : forall k, (k < 100)%nat -> add32 (N.of_nat k) (Z.to_N 1) = N.of_nat (S k).
Proof. intros k H. unfold add32, w32. change (Z.to_N 1) with 1%N. rewrite N.mod_small; lia. Qed.

Section GW.
Variables (s : state) (blk : list N) (obs : object) (W : list N).
Hypothesis Hpre : pre s = "".
Hypothesis Hs : mget (mem s) "s" = Some obs.
Hypothesis Hst : o_ty obs = U8.
Hypothesis Hsc : o_cells obs = map Z.of_N blk.
Hypothesis Hlen : List.length blk = 64%nat.
Hypothesis Hby : bytesb blk = true.
Hypothesis HW1 : forall k, (k < 16)%nat ->
  nth k W 0%N = be32 (nth (4 * k) blk 0%N) (nth (4 * k + 1) blk 0%N) (nth (4 * k + 2) blk 0%N) (nth (4 * k + 3) blk 0%N).
Hypothesis HW2 : forall i, (16 <= i < 64)%nat ->
  nth i W 0%N = add32 (add32 (add32 (rs3 sha256_GAMMA1 (nth (i - 2) W 0%N)) (nth (i - 7) W 0%N))
                             (rs3 sha256_GAMMA0 (nth (i - 15) W 0%N))) (nth (i - 16) W 0%N).
Hypothesis HWlt : forall i, lt32 (nth i W 0%N).

Lemma gw_iter1 : forall k t, (k < 16)%nat -> gw_inv W s 0 k t ->
  exists x, eval t (loop_c gw_loop1) = Ok (VInt x) /\ x <> 0%Z /\
  exists s1 s2, TI 3 (loop_b gw_loop1) t (Normal, s1) /\ TI 3 (loop_s gw_loop1) s1 (Normal, s2) /\ gw_inv W s 0 (S k) s2.
Proof.
    intros k t Hk [[Hp [Hf [Hpt Hfr]]] [Hi [[ob [Hm [Hty [Hl Hcells]]]] Hfrm]]]. cbn [Nat.add] in *.
    assert (Ei : evN t (EVar "i") (N.of_nat k)) by (apply evN_var; [exact Hi | unfold lt32; lia]).
    exists 1%Z. split.
    { cbn [loop_c gw_loop1 eval]. rewrite Hi. cbn [bind as_int eval_bin wrap ity_bits ity_signed Z.eqb].
      destruct (Z.ltb_spec (Z.of_N (N.of_nat k)) (16 mod 2 ^ 32)); [reflexivity|]. change (16 mod 2^32)%Z with 16%Z in *. lia. }
    split; [discriminate|].
    assert (Hpt' : pre t = "") by congruence.
    (* t = this->i[i] *)
    assert (Et : evN t (ELoad U32 (EPtrAdd (EField "s") 4 (EVar "i")))
                  (le32n (nth (4 * k) blk 0%N) (nth (4 * k + 1) blk 0%N) (nth (4 * k + 2) blk 0%N) (nth (4 * k + 3) blk 0%N))).
    { rewrite <- (Nat2N.id k) at 1 2 3 4. eapply evN_load_le32 with (o := "s") (ob := obs); auto.
      - apply ev_field; auto.
      - rewrite Hfrm by discriminate. auto.
      - rewrite Nat2N.id. lia. }
    set (tv := le32n _ _ _ _) in Et.
    pose (ta := with_loc t (lset (loc t) "t" (VInt (Z.of_N tv)))).
    assert (Ta : TI 1 (SSet "t" (ELoad U32 (EPtrAdd (EField "s") 4 (EVar "i")))) t (Normal, ta)).
    { apply ti_set. apply Et. }
    assert (Etv : evN ta (EVar "t") tv) by (apply evN_var; [unfold ta; sproj; lg | apply Et]).
    assert (Eia : evN ta (EVar "i") (N.of_nat k)) by (apply evN_var; [unfold ta; sproj; lg | unfold lt32; lia]).
    eexists. eexists. split; [|split].
    - cbn [loop_b gw_loop1]. eapply ti_weaken; [|eapply ti_seq; [exact Ta|]]; [|
        eapply ti_store32 with (o := "w") (ob := ob); [apply ev_field; unfold ta; sproj; auto | exact Eia | evn | unfold ta; sproj; exact Hm | auto | rewrite Nat2N.id; lia ]].
      cbn; lia.
    - cbn [loop_s gw_loop1]. eapply ti_weaken with (N := 1%nat); [lia|]. apply ti_set. sproj. 
      match goal with |- eval ?st _ = _ =>
        assert (E : evN st (EBin U32 Add (EVar "i") (EConst 1)) (add32 (N.of_nat k) (Z.to_N 1))) end.
      { evn. apply evN_var; [unfold ta; sproj; lg | unfold lt32; lia]. }
      apply E.
    - unfold gw_inv, same_rest. sproj. unfold ta; sproj. split; [repeat split; congruence|].
      split; [lg; rewrite N_of_nat_S_add32 by lia; reflexivity|]. split.
      + rewrite Nat2N.id. eapply winv_step; [exact Hm | exact Hty | exact Hl | exact Hcells | lia |].
        rewrite HW1 by lia.
        apply bswap_be32; apply bytesb_nth; auto.
      + intros x Hx. rewrite mget_mset_other by congruence. auto.
Qed.

Lemma sched_step_form : forall a b c d : N,
  add32 (add32 (add32 (N.lxor (N.lxor (N.lor (N.shiftr a (Z.to_N 17)) (shl32 a (Z.to_N 15)))
                                      (N.lor (N.shiftr a (Z.to_N 19)) (shl32 a (Z.to_N 13))))
                              (N.shiftr a (Z.to_N 10))) b)
               (N.lxor (N.lxor (N.lor (N.shiftr c (Z.to_N 7)) (shl32 c (Z.to_N 25)))
                               (N.lor (N.shiftr c (Z.to_N 18)) (shl32 c (Z.to_N 14))))
                       (N.shiftr c (Z.to_N 3)))) d =
  add32 (add32 (add32 (rs3 sha256_GAMMA1 a) b) (rs3 sha256_GAMMA0 c)) d.
Proof. intros. reflexivity. Qed.

Lemma gw_iter2 : forall k t, (k < 48)%nat -> gw_inv W s 16 k t ->
  exists x, eval t (loop_c gw_loop2) = Ok (VInt x) /\ x <> 0%Z /\
  exists s1 s2, TI 4 (loop_b gw_loop2) t (Normal, s1) /\ TI 4 (loop_s gw_loop2) s1 (Normal, s2) /\ gw_inv W s 16 (S k) s2.
Proof.
    intros k t Hk [[Hp [Hf [Hpt Hfr]]] [Hi [[ob [Hm [Hty [Hl Hcells]]]] Hfrm]]].
    assert (Hpt' : pre t = "") by congruence.
    set (i := (16 + k)%nat) in *.
    assert (Ei : evN t (EVar "i") (N.of_nat i)) by (apply evN_var; [exact Hi | unfold lt32; lia]).
    exists 1%Z. split.
    { cbn [loop_c gw_loop2 eval]. rewrite Hi. cbn [bind as_int eval_bin wrap ity_bits ity_signed Z.eqb].
      destruct (Z.ltb_spec (Z.of_N (N.of_nat i)) (64 mod 2 ^ 32)); [reflexivity|]. change (64 mod 2^32)%Z with 64%Z in *. lia. }
    split; [discriminate|].
    assert (LD : forall (st : state) d, mem st = mem t -> pre st = "" -> lget (loc st) "i" = Some (VInt (Z.of_N (N.of_nat i))) ->
                 (0 < d <= 16)%Z ->
                 evN st (ELoad U32 (EPtrAdd (EField "w") 4 (EBin U32 Sub (EVar "i") (ECast U32 (EConst d))))) (nth (i - Z.to_nat d) W 0%N)).
    { intros st d Hmem Hpr Hii Hd.
      eapply evN_load32 with (o := "w") (ob := ob) (i := (N.of_nat i - Z.to_N d)%N).
      - apply ev_field; auto.
      - eapply evN_sub; [apply evN_var; [exact Hii | unfold lt32; lia] | apply evN_cast32, evN_const; lia | lia].
      - rewrite Hmem; auto.
      - auto.
      - lia.
      - replace (N.to_nat (N.of_nat i - Z.to_N d)) with (i - Z.to_nat d)%nat by lia. apply Hcells. lia.
      - apply HWlt. }
    pose (t1v := nth (i - 2) W 0%N). pose (t2v := nth (i - 15) W 0%N).
    pose (ta := with_loc t (lset (loc t) "t1" (VInt (Z.of_N t1v)))).
    pose (tb := with_loc ta (lset (loc ta) "t2" (VInt (Z.of_N t2v)))).
    assert (Ta : TI 1 (nth_seq 0 (loop_b gw_loop2)) t (Normal, ta)).
    { apply ti_set. apply (LD t 2%Z); auto. lia. }
    assert (Tb : TI 1 (nth_seq 1 (loop_b gw_loop2)) ta (Normal, tb)).
    { apply ti_set. apply (LD ta 15%Z); auto. unfold ta; sproj; lg. lia. }
    assert (E1 : evN tb (EVar "t1") t1v) by (apply evN_var; [unfold tb, ta; sproj; lg | apply HWlt]).
    assert (E2 : evN tb (EVar "t2") t2v) by (apply evN_var; [unfold tb, ta; sproj; lg | apply HWlt]).
    assert (Hib : lget (loc tb) "i" = Some (VInt (Z.of_N (N.of_nat i)))) by (unfold tb, ta; sproj; lg).
    pose proof (LD tb 7%Z eq_refl Hpt' Hib ltac:(lia)) as E7.
    pose proof (LD tb 16%Z eq_refl Hpt' Hib ltac:(lia)) as E16.
    assert (Eib : evN tb (EVar "i") (N.of_nat i)) by (apply evN_var; [exact Hib | unfold lt32; lia]).
    eexists. eexists. split; [|split].
    - change (loop_b gw_loop2) with (SSeq (nth_seq 0 (loop_b gw_loop2)) (SSeq (nth_seq 1 (loop_b gw_loop2)) (nth_seq 2 (loop_b gw_loop2)))).
      eapply ti_weaken; [|eapply ti_seq; [exact Ta| eapply ti_seq; [exact Tb|]]]; [|
        eapply ti_store32 with (o := "w") (ob := ob); [apply ev_field; auto | exact Eib | cbn [nth_seq loop_b gw_loop2]; evn | exact Hm | auto | rewrite Nat2N.id; lia ]].
      cbn; lia.
    - cbn [loop_s gw_loop2]. eapply ti_weaken with (N := 1%nat); [lia|]. apply ti_set.
      match goal with |- eval ?st _ = _ =>
        assert (E : evN st (EBin U32 Add (EVar "i") (EConst 1)) (add32 (N.of_nat i) (Z.to_N 1))) end.
      { evn. apply evN_var; [sproj; exact Hib | unfold lt32; lia]. }
      apply E.
    - unfold gw_inv, same_rest. sproj. unfold tb, ta; sproj. split; [repeat split; congruence|].
      split; [lg; rewrite N_of_nat_S_add32 by lia; f_equal; f_equal; f_equal; lia|]. split.
      + rewrite Nat2N.id. replace (16 + S k)%nat with (S i) by lia.
        eapply winv_step; [exact Hm | exact Hty | exact Hl | exact Hcells | lia |].
        rewrite (HW2 i) by lia. apply sched_step_form.
      + intros x Hx. rewrite mget_mset_other by congruence. auto.
Qed.

Lemma getwdata_gen : winv [] 0 (mem s) ->
  exists s', TI 80 gw s (Normal, s') /\ same_rest s' s /\ winv W 64 (mem s') /\
             (forall x, x <> "w" -> mget (mem s') x = mget (mem s) x).
Proof.
  intros Hw0.
  pose (s1 := with_loc s (lset (loc s) "i" (VInt (Z.of_N 0)))).
  assert (T0 : TI 1 (SSet "i" (ECast U32 (EConst 0))) s (Normal, s1)).
  { apply ti_set. reflexivity. }
  assert (P0 : gw_inv W s 0 0 s1).
  { unfold gw_inv, s1, same_rest. sproj. split; [repeat split|]. split; [lg|]. split; [|auto].
    destruct Hw0 as [ob [A [B [C D]]]]. exists ob. repeat split; auto. intros; lia. }
  destruct (ti_loop_inv hash_prog vt (loop_c gw_loop1) (loop_b gw_loop1) (loop_s gw_loop1) (gw_inv W s 0) 16 3) with (s := s1)
    as [s2 [T1 P1]]; auto.
  { apply gw_iter1. }
  { intros t [_ [Hi _]]. cbn [loop_c gw_loop1 eval]. rewrite Hi. reflexivity. }
  destruct (ti_loop_inv hash_prog vt (loop_c gw_loop2) (loop_b gw_loop2) (loop_s gw_loop2) (gw_inv W s 16) 48 4) with (s := s2)
    as [s3 [T2 P2]]; auto.
  { apply gw_iter2. }
  { intros t [_ [Hi _]]. cbn [loop_c gw_loop2 eval]. rewrite Hi. reflexivity. }
  exists s3. split.
  - rewrite gw_eq. eapply ti_weaken; [|eapply ti_seq; [exact T0 | eapply ti_seq; [exact T1 | exact T2]]]. cbn; lia.
  - destruct P2 as [A [_ [B C]]]. split; [|split]; auto.
Qed.
End GW.

Lemma getwdata_spec : forall s blk obs,
  pre s = "" -> mget (mem s) "s" = Some obs -> o_ty obs = U8 -> o_cells obs = map Z.of_N blk ->
  List.length blk = 64%nat -> bytesb blk = true -> winv [] 0 (mem s) ->
  exists s', TI 80 gw s (Normal, s') /\ same_rest s' s /\
             winv (m_sha256_W (words_of be32 blk)) 64 (mem s') /\
             (forall x, x <> "w" -> mget (mem s') x = mget (mem s) x).
Proof.
  intros s blk obs Hpre Hs Hst Hsc Hlen Hby Hw0.
  assert (HM : List.length (words_of be32 blk) = 16%nat) by (rewrite words_of_length, Hlen; reflexivity).
  assert (HMlt : Forall lt32 (words_of be32 blk)).
  { apply Forall_forall. intros x Hx. destruct (In_nth _ _ 0%N Hx) as [i [Hi <-]].
    rewrite nth_words_of by lia. apply be32_lt32; apply bytesb_nth; auto. }
  eapply getwdata_gen; eauto.
  - intros k Hk. rewrite W_init by lia. apply nth_words_of. lia.
  - intros i Hi. apply W_rec; auto.
  - intros i. apply W_lt32; auto.
Qed.

(* ================= addtotal ================= *)
Definition new_total (T len : N) : N := ((T + (len * 8) mod w32) mod 2 ^ totalsize_bits)%N.

Lemma addtotal_body : forall s T len, pre s = "" -> lget (loc s) "len" = Some (VInt (Z.of_N len)) -> lt32 len ->
  mget (mem s) "totalsize" = Some (u64_cell T) -> (T < 2 ^ 64)%N ->
  TI 1 (f_body Src_sha256.f_Hashmaster_addtotal_1) s
     (Normal, with_mem s (mset (mem s) "totalsize" (u64_cell (new_total T len)))).
Proof.
  intros s T len Hpre Hlen Hl Hm HT.
  assert (E : evN s (EBin U32 Shl (EVar "len") (EConst 3)) (shl32 len (Z.to_N 3))).
  { evn. apply evN_var; auto. }
  destruct E as [E Elt].
  assert (HTz : (0 <= Z.of_N T < 2 ^ 64)%Z).
  { split; [lia|]. change (2 ^ 64)%Z with (Z.of_N (2 ^ 64)). lia. }
  eapply ti_store.
  - apply ev_field; auto.
  - eapply ev_bin; [eapply ev_load; [apply ev_field; auto | exact Hm | reflexivity] | apply ev_cast; exact E | reflexivity].
  - exact Hm.
  - unfold store_obj, u64_cell. cbn [o_ty o_cells List.length upd_nth].
    change (ity_bytes U64) with 8%Z. cbn [Z.ltb Z.eqb Z.compare Pos.eqb Z.modulo Z.div Z.div_eucl Z.of_nat Z.to_nat Pos.of_succ_nat].
    do 2 f_equal. f_equal. unfold new_total.
    rewrite !wrap_U64_small.
    + change (2 ^ totalsize_bits)%N with (2 ^ 64)%N. rewrite N2Z.inj_mod, N2Z.inj_add. f_equal. f_equal.
      unfold shl32. rewrite N.shiftl_mul_pow2. reflexivity.
    + pose proof (lt32_Z _ Elt). change (2 ^ 32)%Z with 4294967296%Z in *. change (2 ^ 64)%Z with 18446744073709551616%Z. lia.
    + exact HTz.
    + apply Z.mod_pos_bound. reflexivity.
Qed.

Lemma call_addtotal : forall s arg len T, pre s = "" -> evN s arg len ->
  mget (mem s) "totalsize" = Some (u64_cell T) -> (T < 2 ^ 64)%N ->
  TI 2 (SCall None "Hashmaster::addtotal/1" None [arg]) s
     (Normal, with_mem s (mset (mem s) "totalsize" (u64_cell (new_total T len)))).
Proof.
  intros s arg len T Hpre [Ea El] Hm HT.
  eapply ti_call with (l := [("len", VInt (Z.of_N len))]) (o := Normal).
  - cbn [eval_list]. rewrite Ea. reflexivity.
  - reflexivity.
  - exact lk_addtotal.
  - reflexivity.
  - apply addtotal_body with (T := T) (len := len); auto.
  - reflexivity.
Qed.

(* ================= the 64 rounds ================= *)
Definition gh1 := Eval cbv in f_body Src_sha256.f_sha256hash_getHash_1.
Definition rd_loop := Eval cbv in nth_seq 7 gh1.
Definition rd_body := Eval cbv in loop_b rd_loop.

Ltac ld_t :=
  match goal with
  | Hm : mget (mem ?st) "%temph" = Some (u32o ?v), HF : Forall lt32 ?v
    |- evN ?st' (ELoad U32 (EPtrAdd (ELocalArr "temph") 4 (EConst ?c))) _ =>
      constr_eq st st';
      refine (ld_arr st (ELocalArr "temph") "%temph" v (EConst c) (Z.to_N c) eq_refl _ Hm _ HF);
      [ apply evN_const; cbv; split; congruence | cbv; lia ]
  end.
Ltac evn2 :=
  first [ match goal with H : evN ?s1 ?e1 _ |- evN ?s2 ?e2 _ => constr_eq s1 s2; constr_eq e1 e2; exact H end | ld_t |
  lazymatch goal with
  | |- evN _ (EBin U32 Add _ _) _ => eapply evN_add; evn2
  | |- evN _ (EBin U32 BXor _ _) _ => eapply evN_xor; evn2
  | |- evN _ (EBin U32 BOr _ _) _ => eapply evN_or; evn2
  | |- evN _ (EBin U32 BAnd _ _) _ => eapply evN_and; evn2
  | |- evN _ (EUn U32 BNot _) _ => eapply evN_not; evn2
  | |- evN _ (EBin U32 Shr _ _) _ => eapply evN_shr; [evn2 | cbv; reflexivity | cbv; split; congruence]
  | |- evN _ (EBin U32 Shl _ _) _ => eapply evN_shl; [evn2 | cbv; reflexivity | cbv; split; congruence]
  | |- evN _ (ECast U32 _) _ => eapply evN_cast32; evn2
  | |- evN _ (EConst _) _ => eapply evN_const; cbv; split; congruence
  | |- _ => idtac
  end ].

Lemma sha256_k_lt32 : Forall lt32 sha256_k.
Proof. repeat constructor. Qed.

Section RD.
Variable W : list N.
Hypothesis HWlt : forall i, lt32 (nth i W 0%N).

Lemma rd_iter : forall t k a b c d e f g h,
  pre t = "" -> lget (loc t) "i" = Some (VInt (Z.of_N (N.of_nat k))) -> (k < 64)%nat ->
  mget (mem t) "%temph" = Some (u32o [a; b; c; d; e; f; g; h]) -> Forall lt32 [a; b; c; d; e; f; g; h] ->
  winv W 64 (mem t) -> mget (mem t) "k" = Some (u32o sha256_k) ->
  exists s1, TI 12 rd_body t (Normal, s1) /\
    mget (mem s1) "%temph" = Some (u32o (m_sha256_round W [a; b; c; d; e; f; g; h] k)) /\
    (forall x, x <> "%temph" -> mget (mem s1) x = mget (mem t) x) /\ same_rest s1 t /\
    lget (loc s1) "i" = lget (loc t) "i".
Proof.
  intros t k a b c d e f g h Hpre Hi Hk Hm0 HF0 [obw [Hw [Hwt [Hwl Hwc]]]] Hkm.
  inversion HF0 as [|? ? La HF1]; subst. inversion HF1 as [|? ? Lb HF2]; subst. inversion HF2 as [|? ? Lc HF3]; subst.
  inversion HF3 as [|? ? Ld HF4]; subst. inversion HF4 as [|? ? Le HF5]; subst. inversion HF5 as [|? ? Lf HF6]; subst.
  inversion HF6 as [|? ? Lg HF7]; subst. inversion HF7 as [|? ? Lh HF8]; subst.
  assert (Ei : evN t (EVar "i") (N.of_nat k)) by (apply evN_var; [exact Hi | unfold lt32; lia]).
  assert (Lk : evN t (ELoad U32 (EPtrAdd (EGlobal "k") 4 (EVar "i"))) (nth k sha256_k 0%N)).
  { rewrite <- (Nat2N.id k) at 1. eapply ld_arr with (o := "k"); [reflexivity | exact Ei | exact Hkm | rewrite Nat2N.id; exact Hk | exact sha256_k_lt32]. }
  assert (Lw : evN t (ELoad U32 (EPtrAdd (EField "w") 4 (EVar "i"))) (nth k W 0%N)).
  { eapply evN_load32 with (o := "w") (ob := obw) (i := N.of_nat k);
      [apply ev_field; auto | exact Ei | exact Hw | exact Hwt | rewrite Nat2N.id; lia | rewrite Nat2N.id; apply Hwc; lia | apply HWlt]. }
  set (kk := nth k sha256_k 0%N) in *. set (wk := nth k W 0%N) in *.
  (* t1 *)
  assert (E1 : exists t1, evN t (match nth_seq 0 rd_body with SSet _ e => e | _ => ENull end) t1 /\
               t1 = add32 (add32 (add32 (add32 h (rs3 sha256_SIGMA1 e)) (CHOOSE e f g)) kk) wk).
  { eexists. split. cbn [nth_seq rd_body]. evn2. reflexivity. }
  destruct E1 as [t1 [E1 Ht1]].
  pose (ta := with_loc t (lset (loc t) "t1" (VInt (Z.of_N t1)))).
  assert (Ta : TI 1 (nth_seq 0 rd_body) t (Normal, ta)) by (apply ti_set; apply E1).
  assert (Hma : mget (mem ta) "%temph" = Some (u32o [a; b; c; d; e; f; g; h])) by exact Hm0.
  assert (E2 : exists t2, evN ta (match nth_seq 1 rd_body with SSet _ e => e | _ => ENull end) t2 /\
               t2 = add32 (rs3 sha256_SIGMA0 a) (MAJORITY a b c)).
  { eexists. split. cbn [nth_seq rd_body]. evn2. reflexivity. }
  destruct E2 as [t2 [E2 Ht2]].
  pose (tb := with_loc ta (lset (loc ta) "t2" (VInt (Z.of_N t2)))).
  assert (Tb : TI 1 (nth_seq 1 rd_body) ta (Normal, tb)) by (apply ti_set; apply E2).
  assert (Hmb : mget (mem tb) "%temph" = Some (u32o [a; b; c; d; e; f; g; h])) by exact Hm0.
  assert (Lt1 : lt32 t1) by apply E1. assert (Lt2 : lt32 t2) by apply E2.
  (* the eight stores *)
  pose (m7 := with_mem tb (mset (mem tb) "%temph" (u32o [a; b; c; d; e; f; g; g]))).
  assert (T7 : TI 1 (nth_seq 2 rd_body) tb (Normal, m7)).
  { cbn [nth_seq rd_body]. refine (st_arr hash_prog vt tb (ELocalArr "temph") "%temph" _ (EConst 7) (Z.to_N 7) _ g eq_refl _ _ Hmb _);
      [apply evN_const; cbv; split; congruence | evn2 | cbv; lia]. }
  assert (H7 : mget (mem m7) "%temph" = Some (u32o [a; b; c; d; e; f; g; g])) by apply mget_mset_same.
  assert (F7 : Forall lt32 [a; b; c; d; e; f; g; g]) by (repeat constructor; auto).
  pose (m6 := with_mem m7 (mset (mem m7) "%temph" (u32o [a; b; c; d; e; f; f; g]))).
  assert (T6 : TI 1 (nth_seq 3 rd_body) m7 (Normal, m6)).
  { cbn [nth_seq rd_body]. refine (st_arr hash_prog vt m7 (ELocalArr "temph") "%temph" _ (EConst 6) (Z.to_N 6) _ f eq_refl _ _ H7 _);
      [apply evN_const; cbv; split; congruence | evn2 | cbv; lia]. }
  assert (H6 : mget (mem m6) "%temph" = Some (u32o [a; b; c; d; e; f; f; g])) by apply mget_mset_same.
  assert (F6 : Forall lt32 [a; b; c; d; e; f; f; g]) by (repeat constructor; auto).
  pose (m5 := with_mem m6 (mset (mem m6) "%temph" (u32o [a; b; c; d; e; e; f; g]))).
  assert (T5 : TI 1 (nth_seq 4 rd_body) m6 (Normal, m5)).
  { cbn [nth_seq rd_body]. refine (st_arr hash_prog vt m6 (ELocalArr "temph") "%temph" _ (EConst 5) (Z.to_N 5) _ e eq_refl _ _ H6 _);
      [apply evN_const; cbv; split; congruence | evn2 | cbv; lia]. }
  assert (H5 : mget (mem m5) "%temph" = Some (u32o [a; b; c; d; e; e; f; g])) by apply mget_mset_same.
  assert (F5 : Forall lt32 [a; b; c; d; e; e; f; g]) by (repeat constructor; auto).
  pose (m4 := with_mem m5 (mset (mem m5) "%temph" (u32o [a; b; c; d; add32 d t1; e; f; g]))).
  assert (Et1 : evN m5 (EVar "t1") t1) by (apply evN_var; [unfold m5, m6, m7, tb, ta; sproj; lg | auto]).
  assert (T4 : TI 1 (nth_seq 5 rd_body) m5 (Normal, m4)).
  { cbn [nth_seq rd_body]. refine (st_arr hash_prog vt m5 (ELocalArr "temph") "%temph" _ (EConst 4) (Z.to_N 4) _ (add32 d t1) eq_refl _ _ H5 _);
      [apply evN_const; cbv; split; congruence | evn2 | cbv; lia]. }
  assert (H4 : mget (mem m4) "%temph" = Some (u32o [a; b; c; d; add32 d t1; e; f; g])) by apply mget_mset_same.
  assert (F4 : Forall lt32 [a; b; c; d; add32 d t1; e; f; g]) by (repeat constructor; auto; apply lt32_add32).
  pose (m3 := with_mem m4 (mset (mem m4) "%temph" (u32o [a; b; c; c; add32 d t1; e; f; g]))).
  assert (T3 : TI 1 (nth_seq 6 rd_body) m4 (Normal, m3)).
  { cbn [nth_seq rd_body]. refine (st_arr hash_prog vt m4 (ELocalArr "temph") "%temph" _ (EConst 3) (Z.to_N 3) _ c eq_refl _ _ H4 _);
      [apply evN_const; cbv; split; congruence | evn2 | cbv; lia]. }
  assert (H3 : mget (mem m3) "%temph" = Some (u32o [a; b; c; c; add32 d t1; e; f; g])) by apply mget_mset_same.
  assert (F3 : Forall lt32 [a; b; c; c; add32 d t1; e; f; g]) by (repeat constructor; auto; apply lt32_add32).
  pose (m2 := with_mem m3 (mset (mem m3) "%temph" (u32o [a; b; b; c; add32 d t1; e; f; g]))).
  assert (T2 : TI 1 (nth_seq 7 rd_body) m3 (Normal, m2)).
  { cbn [nth_seq rd_body]. refine (st_arr hash_prog vt m3 (ELocalArr "temph") "%temph" _ (EConst 2) (Z.to_N 2) _ b eq_refl _ _ H3 _);
      [apply evN_const; cbv; split; congruence | evn2 | cbv; lia]. }
  assert (H2 : mget (mem m2) "%temph" = Some (u32o [a; b; b; c; add32 d t1; e; f; g])) by apply mget_mset_same.
  assert (F2 : Forall lt32 [a; b; b; c; add32 d t1; e; f; g]) by (repeat constructor; auto; apply lt32_add32).
  pose (m1 := with_mem m2 (mset (mem m2) "%temph" (u32o [a; a; b; c; add32 d t1; e; f; g]))).
  assert (T1 : TI 1 (nth_seq 8 rd_body) m2 (Normal, m1)).
  { cbn [nth_seq rd_body]. refine (st_arr hash_prog vt m2 (ELocalArr "temph") "%temph" _ (EConst 1) (Z.to_N 1) _ a eq_refl _ _ H2 _);
      [apply evN_const; cbv; split; congruence | evn2 | cbv; lia]. }
  assert (H1 : mget (mem m1) "%temph" = Some (u32o [a; a; b; c; add32 d t1; e; f; g])) by apply mget_mset_same.
  pose (m0 := with_mem m1 (mset (mem m1) "%temph" (u32o [add32 t1 t2; a; b; c; add32 d t1; e; f; g]))).
  assert (Et1' : evN m1 (EVar "t1") t1) by (apply evN_var; [unfold m1, m2, m3, m4, m5, m6, m7, tb, ta; sproj; lg | auto]).
  assert (Et2' : evN m1 (EVar "t2") t2) by (apply evN_var; [unfold m1, m2, m3, m4, m5, m6, m7, tb, ta; sproj; lg | auto]).
  assert (T0 : TI 1 (nth_seq 9 rd_body) m1 (Normal, m0)).
  { cbn [nth_seq rd_body]. refine (st_arr hash_prog vt m1 (ELocalArr "temph") "%temph" _ (EConst 0) (Z.to_N 0) _ (add32 t1 t2) eq_refl _ _ H1 _);
      [apply evN_const; cbv; split; congruence | evn2 | cbv; lia]. }
  exists m0. split; [|split; [|split; [|split]]].
  - change rd_body with (SSeq (nth_seq 0 rd_body) (SSeq (nth_seq 1 rd_body) (SSeq (nth_seq 2 rd_body) (SSeq (nth_seq 3 rd_body)
      (SSeq (nth_seq 4 rd_body) (SSeq (nth_seq 5 rd_body) (SSeq (nth_seq 6 rd_body) (SSeq (nth_seq 7 rd_body) (SSeq (nth_seq 8 rd_body) (nth_seq 9 rd_body)))))))))).
    eapply ti_weaken; [|eapply ti_seq; [exact Ta | eapply ti_seq; [exact Tb | eapply ti_seq; [exact T7 | eapply ti_seq; [exact T6 |
      eapply ti_seq; [exact T5 | eapply ti_seq; [exact T4 | eapply ti_seq; [exact T3 | eapply ti_seq; [exact T2 | eapply ti_seq; [exact T1 | exact T0]]]]]]]]]].
    cbn; lia.
  - unfold m0. sproj. rewrite mget_mset_same. rewrite Ht1, Ht2. reflexivity.
  - intros x Hx. unfold m0, m1, m2, m3, m4, m5, m6, m7, tb, ta. sproj. rewrite !mget_mset_other by congruence. reflexivity.
  - unfold same_rest, m0, m1, m2, m3, m4, m5, m6, m7, tb, ta. sproj. repeat split.
  - unfold m0, m1, m2, m3, m4, m5, m6, m7, tb, ta. sproj. lg.
Qed.

Definition rd_inv (H : list N) (s0 : state) (k : nat) (s : state) : Prop :=
  same_rest s s0 /\ lget (loc s) "i" = Some (VInt (Z.of_N (N.of_nat k))) /\
  mget (mem s) "%temph" = Some (u32o (fold_left (m_sha256_round W) (seq 0 k) H)) /\
  (forall x, x <> "%temph" -> mget (mem s) x = mget (mem s0) x).

Lemma rd_loop_spec : forall s0 H,
  pre s0 = "" -> lget (loc s0) "i" = Some (VInt (Z.of_N 0)) -> mget (mem s0) "%temph" = Some (u32o H) ->
  List.length H = 8%nat -> Forall lt32 H -> winv W 64 (mem s0) -> mget (mem s0) "k" = Some (u32o sha256_k) ->
  exists s', TI 78 rd_loop s0 (Normal, s') /\ same_rest s' s0 /\
    mget (mem s') "%temph" = Some (u32o (fold_left (m_sha256_round W) (seq 0 64) H)) /\
    (forall x, x <> "%temph" -> mget (mem s') x = mget (mem s0) x).
Proof.
  intros s0 H Hpre Hi Hm HlH HFH Hw Hk.
  destruct (ti_loop_inv hash_prog vt (loop_c rd_loop) (loop_b rd_loop) (loop_s rd_loop) (rd_inv H s0) 64 13) with (s := s0)
    as [s1 [T1 P1]].
  - intros k t Hk64 [[Hp [Hf [Hpt Hfr]]] [Hit [Hmt Hfrm]]].
    assert (Hpt' : pre t = "") by congruence.
    exists 1%Z. split.
    { cbn [loop_c rd_loop eval]. rewrite Hit. cbn [bind as_int eval_bin wrap ity_bits ity_signed Z.eqb].
      destruct (Z.ltb_spec (Z.of_N (N.of_nat k)) (64 mod 2 ^ 32)); [reflexivity|]. change (64 mod 2^32)%Z with 64%Z in *. lia. }
    split; [discriminate|].
    destruct (rounds_shape W (seq 0 k) H HlH HFH) as [Hvl HvF].
    remember (fold_left (m_sha256_round W) (seq 0 k) H) as v eqn:Hv.
    destruct v as [|a [|b [|c [|d [|e [|f [|g [|h [|]]]]]]]]]; try discriminate.
    destruct (rd_iter t k a b c d e f g h Hpt' Hit Hk64 Hmt HvF) as [t1 [Tb [Hm1 [Hfr1 [[Hp1 [Hf1 [Hpt1 Hfr1']]] Hi1]]]]].
    { destruct Hw as [ob [A B]]. exists ob. split; [rewrite Hfrm by discriminate; exact A | exact B]. }
    { rewrite Hfrm by discriminate. exact Hk. }
    exists t1. eexists. split; [|split].
    + eapply ti_weaken; [|exact Tb]. lia.
    + cbn [loop_s rd_loop]. eapply ti_weaken with (N := 1%nat); [lia|]. apply ti_set.
      assert (E : evN t1 (EBin U32 Add (EVar "i") (EConst 1)) (add32 (N.of_nat k) (Z.to_N 1))).
      { evn. apply evN_var; [rewrite Hi1; exact Hit | unfold lt32; lia]. }
      apply E.
    + unfold rd_inv, same_rest. sproj. split; [repeat split; congruence|].
      split; [lg; rewrite N_of_nat_S_add32 by lia; reflexivity|]. split.
      * rewrite Hm1. rewrite rounds_S, <- Hv. reflexivity.
      * intros x Hx. rewrite Hfr1 by auto. auto.
  - intros t [_ [Hit _]]. cbn [loop_c rd_loop eval]. rewrite Hit. reflexivity.
  - unfold rd_inv. split; [apply same_rest_refl|]. split; [exact Hi|]. split; [exact Hm|]. auto.
  - exists s1. destruct P1 as [A [_ [B C]]]. split; [|split; [|split]]; auto.
Qed.
End RD.


(* ================= h[i] += temph[i] ================= *)
Definition fin_loop := Eval cbv in nth_seq 9 gh1.

Definition fin_inv (H V : list N) (s0 : state) (k : nat) (s : state) : Prop :=
  same_rest s s0 /\ lget (loc s) "i'1" = Some (VInt (Z.of_N (N.of_nat k))) /\
  mget (mem s) "h" = Some (u32o (firstn k (map2 add32 H V) ++ skipn k H)) /\
  (forall x, x <> "h" -> mget (mem s) x = mget (mem s0) x).

Lemma fin_loop_spec : forall s0 H V,
  pre s0 = "" -> lget (loc s0) "i'1" = Some (VInt (Z.of_N 0)) -> mget (mem s0) "%temph" = Some (u32o V) ->
  mget (mem s0) "h" = Some (u32o H) -> List.length H = 8%nat -> List.length V = 8%nat -> Forall lt32 H -> Forall lt32 V ->
  exists s', TI 12 fin_loop s0 (Normal, s') /\ same_rest s' s0 /\
    mget (mem s') "h" = Some (u32o (map2 add32 H V)) /\
    (forall x, x <> "h" -> mget (mem s') x = mget (mem s0) x).
Proof.
  intros s0 H V Hpre Hi HmV HmH HlH HlV HFH HFV.
  assert (HlA : List.length (map2 add32 H V) = 8%nat) by (rewrite map2_length; lia).
  destruct (ti_loop_inv hash_prog vt (loop_c fin_loop) (loop_b fin_loop) (loop_s fin_loop) (fin_inv H V s0) 8 3) with (s := s0)
    as [s1 [T1 P1]].
  - intros k t Hk [[Hp [Hf [Hpt Hfr]]] [Hit [Hmt Hfrm]]].
    assert (Hpt' : pre t = "") by congruence.
    exists 1%Z. split.
    { cbn [loop_c fin_loop eval]. rewrite Hit. cbn [bind as_int eval_bin wrap ity_bits ity_signed Z.eqb].
      destruct (Z.ltb_spec (Z.of_N (N.of_nat k)) (8 mod 2 ^ 32)); [reflexivity|]. change (8 mod 2^32)%Z with 8%Z in *. lia. }
    split; [discriminate|].
    assert (Ei : evN t (EVar "i'1") (N.of_nat k)) by (apply evN_var; [exact Hit | unfold lt32; lia]).
    set (Hk' := firstn k (map2 add32 H V) ++ skipn k H) in *.
    assert (HlHk : List.length Hk' = 8%nat).
    { unfold Hk'. rewrite app_length, firstn_length, skipn_length. lia. }
    assert (HFHk : Forall lt32 Hk').
    { unfold Hk'. apply Forall_app. split; [apply Forall_firstn_, Forall_map2_add32 | apply Forall_skipn_; exact HFH]. }
    assert (L1 : evN t (ELoad U32 (EPtrAdd (EField "h") 4 (EVar "i'1"))) (nth k H 0%N)).
    { rewrite <- (nth_firstn_skipn k (map2 add32 H V) H) by lia. fold Hk'. rewrite <- (Nat2N.id k) at 1.
      eapply ld_arr with (o := "h"); [apply ev_field; auto | exact Ei | exact Hmt | rewrite Nat2N.id; lia | exact HFHk]. }
    assert (L2 : evN t (ELoad U32 (EPtrAdd (ELocalArr "temph") 4 (EVar "i'1"))) (nth k V 0%N)).
    { rewrite <- (Nat2N.id k) at 1.
      eapply ld_arr with (o := "%temph"); [reflexivity | exact Ei | rewrite Hfrm by discriminate; exact HmV | rewrite Nat2N.id; lia | exact HFV]. }
    eexists. eexists. split; [|split].
    + cbn [loop_b fin_loop]. eapply ti_weaken with (N := 1%nat); [lia|].
      eapply st_arr with (o := "h"); [apply ev_field; auto | exact Ei | evn | exact Hmt | rewrite Nat2N.id; lia].
    + cbn [loop_s fin_loop]. eapply ti_weaken with (N := 1%nat); [lia|]. apply ti_set.
      match goal with |- eval ?st _ = _ =>
        assert (E : evN st (EBin U32 Add (EVar "i'1") (EConst 1)) (add32 (N.of_nat k) (Z.to_N 1))) end.
      { evn. apply evN_var; [sproj; exact Hit | unfold lt32; lia]. }
      apply E.
    + unfold fin_inv, same_rest. sproj. split; [repeat split; congruence|].
      split; [lg; rewrite N_of_nat_S_add32 by lia; reflexivity|]. split.
      * rewrite mget_mset_same. rewrite Nat2N.id. unfold Hk'. rewrite lupd_firstn_skipn; auto; try lia.
        rewrite nth_map2_add32 by lia. reflexivity.
      * intros x Hx. rewrite mget_mset_other by congruence. auto.
  - intros t [_ [Hit _]]. cbn [loop_c fin_loop eval]. rewrite Hit. reflexivity.
  - unfold fin_inv. split; [apply same_rest_refl|]. split; [exact Hi|]. split; [exact HmH|]. auto.
  - exists s1. destruct P1 as [A [_ [B C]]]. split; [|split; [|split]]; auto.
    rewrite B. rewrite <- HlA at 1. rewrite firstn_all. rewrite skipn_all2 by lia. now rewrite app_nil_r.
Qed.


(* ================= getHash(input): one block ================= *)
Definition hasher_mem (H : list N) (T : N) (m : memory) : Prop :=
  mget m "h" = Some (u32o H) /\ List.length H = 8%nat /\ Forall lt32 H /\
  mget m "totalsize" = Some (u64_cell T) /\ (T < 2 ^ 64)%N /\
  (exists ob, mget m "s" = Some ob /\ shaped U8 64 ob) /\
  (exists ob, mget m "w" = Some ob /\ shaped U32 64 ob) /\
  mget m "k" = Some (u32o sha256_k).

Definition blk_owned (x : string) : Prop := x = "s" \/ x = "w" \/ x = "h" \/ x = "totalsize" \/ x = "%temph".

Lemma gh1_eq : gh1 = SSeq (nth_seq 0 gh1) (SSeq (nth_seq 1 gh1) (SSeq (nth_seq 2 gh1) (SSeq (nth_seq 3 gh1) (SSeq (nth_seq 4 gh1)
  (SSeq (nth_seq 5 gh1) (SSeq (nth_seq 6 gh1) (SSeq rd_loop (SSeq (nth_seq 8 gh1) fin_loop)))))))).
Proof. reflexivity. Qed.

Lemma new_total_lt : forall T len, (new_total T len < 2 ^ 64)%N.
Proof. intros. unfold new_total. apply N.mod_lt. discriminate. Qed.

Lemma block_body : forall s H T o off blk,
  pre s = "" -> hasher_mem H T (mem s) -> lget (loc s) "input" = Some (VPtr o off) ->
  bytes_at (mem s) o off blk -> List.length blk = 64%nat -> bytesb blk = true -> o <> "s" ->
  exists s', TI 100 gh1 s (Normal, s') /\ same_rest s' s /\
     hasher_mem (m_sha256_block H blk) (new_total T 64) (mem s') /\
     (forall x, ~ blk_owned x -> mget (mem s') x = mget (mem s) x).
Proof.
  intros s H T o off blk Hpre [Hh [HlH [HFH [Ht [HT [[obs [Hms [Hst Hsl]]] [[obw [Hmw [Hwt Hwl]]] Hk]]]]]]] Hin
         [obi [Hmi [Hti [Hoff [Hcells Hbound]]]]] Hlen Hby Hos.
  (* memset *)
  pose (c1 := (repeat 0%Z (Z.to_nat 64) ++ skipn (Z.to_nat 64) (o_cells obs))).
  pose (s1 := with_mem s (mset (mem s) "s" {| o_ty := U8; o_cells := c1 |})).
  assert (T1 : TI 1 (nth_seq 0 gh1) s (Normal, s1)).
  { eapply ti_memset; [apply ev_field; auto | reflexivity | reflexivity | apply memset_u8; auto; lia]. }
  assert (Lc1 : List.length c1 = 64%nat).
  { unfold c1. rewrite app_length, repeat_length, skipn_length. lia. }
  (* memcpy *)
  pose (s2 := with_mem s1 (mset (mem s1) "s" {| o_ty := U8; o_cells := map Z.of_N blk |})).
  assert (T2 : TI 1 (nth_seq 1 gh1) s1 (Normal, s2)).
  { eapply ti_memcpy; [apply ev_field; auto | apply ev_var; exact Hin | reflexivity |].
    rewrite (memcpy_u8 s1 "s" {| o_ty := U8; o_cells := c1 |} o obi off 64); try reflexivity; try lia; auto.
    - unfold s2. do 5 f_equal. cbn [o_cells]. change (Z.to_nat 64) with 64%nat. rewrite <- Hlen at 1. rewrite Hcells.
      rewrite skipn_all2 by lia. apply app_nil_r.
    - unfold s1; sproj. apply mget_mset_same.
    - unfold s1; sproj. rewrite mget_mset_other by congruence. exact Hmi.
    - cbn [o_cells]. lia. }
  assert (F2 : forall x, x <> "s" -> mget (mem s2) x = mget (mem s) x).
  { intros x Hx. unfold s2, s1; sproj. rewrite !mget_mset_other by congruence. reflexivity. }
  (* getwdata *)
  destruct (getwdata_spec (callee_state s2 [] (pre s2)) blk {| o_ty := U8; o_cells := map Z.of_N blk |})
    as [s3' [T3' [[R3a [R3b [R3c R3d]]] [W3 F3]]]]; auto.
  { unfold s2; sproj. apply mget_mset_same. }
  { exists obw. split; [sproj; rewrite F2 by discriminate; exact Hmw|]. split; [exact Hwt|]. split; [lia|]. intros; lia. }
  pose (s3 := back_state s2 s3').
  assert (T3 : TI 81 (nth_seq 2 gh1) s2 (Normal, s3)).
  { eapply ti_call with (o := Normal); [reflexivity | reflexivity | exact lk_getwdata | reflexivity | exact T3' | reflexivity]. }
  assert (HWlt : forall i, lt32 (nth i (m_sha256_W (words_of be32 blk)) 0%N)).
  { intro i. apply W_lt32.
    - rewrite words_of_length, Hlen. reflexivity.
    - apply Forall_forall. intros x Hx. destruct (In_nth _ _ 0%N Hx) as [j [Hj <-]].
      rewrite words_of_length, Hlen in Hj. change (64 / 4)%nat with 16%nat in Hj.
      rewrite nth_words_of by lia. apply be32_lt32; apply bytesb_nth; auto. }
  change (m_sha256_block H blk) with (map2 add32 H (fold_left (m_sha256_round (m_sha256_W (words_of be32 blk))) (seq 0 64) H)).
  remember (m_sha256_W (words_of be32 blk)) as W eqn:HW. clear HW.
  assert (F3' : forall x, x <> "w" -> mget (mem s3) x = mget (mem s2) x) by exact F3.
  assert (P3 : pre s3 = "") by exact Hpre.
  (* addtotal *)
  pose (s4 := with_mem s3 (mset (mem s3) "totalsize" (u64_cell (new_total T (Z.to_N 64))))).
  assert (T4 : TI 2 (nth_seq 3 gh1) s3 (Normal, s4)).
  { apply call_addtotal; auto.
    - evn.
    - rewrite F3', F2 by discriminate. exact Ht. }
  (* u32_t temph[8]; memcpy(temph, h, 32) *)
  pose (s5 := with_mem s4 (mset (mem s4) "%temph" {| o_ty := U32; o_cells := repeat 0%Z (Z.to_nat 8) |})).
  assert (T5 : TI 1 (nth_seq 4 gh1) s4 (Normal, s5)) by apply ti_localarr.
  pose (s6 := with_mem s5 (mset (mem s5) "%temph" (u32o H))).
  assert (F6 : forall x, x <> "totalsize" -> x <> "%temph" -> mget (mem s6) x = mget (mem s3) x).
  { intros x Hx1 Hx2. unfold s6, s5, s4; sproj. rewrite !mget_mset_other by congruence. reflexivity. }
  assert (Hh5 : mget (mem s5) "h" = Some (u32o H)).
  { unfold s5, s4; sproj. rewrite !mget_mset_other by discriminate. rewrite F3', F2 by discriminate. exact Hh. }
  assert (T6 : TI 1 (nth_seq 5 gh1) s5 (Normal, s6)).
  { eapply ti_memcpy; [reflexivity | apply ev_field; auto | reflexivity |].
    apply (memcpy_u32_all s5 "%temph" {| o_ty := U32; o_cells := repeat 0%Z (Z.to_nat 8) |} "h" (u32o H) 8).
    - unfold s5; sproj. apply mget_mset_same.
    - reflexivity.
    - exact Hh5.
    - reflexivity.
    - reflexivity.
    - cbn [u32o o_cells]. rewrite map_length. exact HlH. }
  pose (s7 := with_loc s6 (lset (loc s6) "i" (VInt (Z.of_N 0)))).
  assert (T7 : TI 1 (nth_seq 6 gh1) s6 (Normal, s7)) by (apply ti_set; reflexivity).
  (* the rounds *)
  destruct (rd_loop_spec W HWlt s7 H) as [s8 [T8 [[R8a [R8b [R8c R8d]]] [M8 F8]]]]; auto.
  { unfold s7; sproj. lg. }
  { unfold s7, s6; sproj. apply mget_mset_same. }
  { destruct W3 as [ob [A B]]. exists ob. split; [|exact B].
    change (mem s7) with (mem s6). rewrite F6 by discriminate. exact A. }
  { change (mem s7) with (mem s6). rewrite F6, F3', F2 by discriminate. exact Hk. }
  destruct (rounds_shape W (seq 0 64) H HlH HFH) as [HlV HFV].
  set (V := fold_left (m_sha256_round W) (seq 0 64) H) in *.
  pose (s9 := with_loc s8 (lset (loc s8) "i'1" (VInt (Z.of_N 0)))).
  assert (T9 : TI 1 (nth_seq 8 gh1) s8 (Normal, s9)) by (apply ti_set; reflexivity).
  destruct (fin_loop_spec s9 H V) as [s10 [T10 [[R10a [R10b [R10c R10d]]] [M10 F10]]]]; auto.
  { unfold s9; sproj. rewrite R8a. exact Hpre. }
  { unfold s9; sproj. lg. }
  { change (mem s9) with (mem s8). rewrite F8 by discriminate. change (mem s7) with (mem s6).
    unfold s6; sproj. rewrite mget_mset_other by discriminate. exact Hh5. }
  assert (FF : forall x, x <> "s" -> x <> "w" -> x <> "h" -> x <> "totalsize" -> x <> "%temph" ->
               mget (mem s10) x = mget (mem s) x).
  { intros x X1 X2 X3 X4 X5. rewrite F10 by auto. change (mem s9) with (mem s8). rewrite F8 by auto.
    change (mem s7) with (mem s6). rewrite F6, F3', F2 by auto. reflexivity. }
  exists s10. split; [|split; [|split]].
  - rewrite gh1_eq.
    eapply ti_weaken; [|eapply ti_seq; [exact T1 | eapply ti_seq; [exact T2 | eapply ti_seq; [exact T3 | eapply ti_seq; [exact T4 |
      eapply ti_seq; [exact T5 | eapply ti_seq; [exact T6 | eapply ti_seq; [exact T7 | eapply ti_seq; [exact T8 | eapply ti_seq; [exact T9 | exact T10]]]]]]]]]].
    cbn; lia.
  - unfold same_rest. unfold s9 in *; sproj. unfold s7, s6, s5, s4 in *. cbn [pre files ptrs fresh with_mem with_loc] in *.
    unfold s3, callee_state, back_state in *. cbn [pre files ptrs fresh with_mem with_loc] in *.
    unfold s2, s1 in *. cbn [pre files ptrs fresh with_mem with_loc] in *. repeat split; congruence.
  - unfold hasher_mem. split; [exact M10|]. split; [rewrite map2_length; lia|]. split; [apply Forall_map2_add32|].
    split.
    { rewrite F10 by discriminate. change (mem s9) with (mem s8). rewrite F8 by discriminate.
      change (mem s7) with (mem s6). unfold s6, s5, s4; sproj. rewrite !mget_mset_other by discriminate.
      rewrite mget_mset_same. reflexivity. }
    split; [apply new_total_lt|]. split.
    { eexists. split.
      - rewrite F10 by discriminate. change (mem s9) with (mem s8). rewrite F8 by discriminate.
        change (mem s7) with (mem s6). rewrite F6, F3' by discriminate. unfold s2; sproj. apply mget_mset_same.
      - split; [reflexivity|]. cbn [o_cells]. rewrite map_length. lia. }
    split.
    { destruct W3 as [ob [A [B [C D]]]]. exists ob. split.
      - rewrite F10 by discriminate. change (mem s9) with (mem s8). rewrite F8 by discriminate.
        change (mem s7) with (mem s6). rewrite F6 by discriminate. exact A.
      - split; [exact B | lia]. }
    rewrite FF by discriminate. exact Hk.
  - intros x Hx. unfold blk_owned in Hx. apply FF; intro; apply Hx; auto 6.
Qed.


(* ================= from / to the contract's hasher_ok ================= *)
Notation HOK := (hasher_ok alg_sha256 Src_sha256.objects_sha256hash Src_sha256.globals).

Lemma hasher_ok_mem : forall st m, HOK st m -> hasher_mem (hs_h st) (hs_total st) m.
Proof.
  intros st m [[Hh Ht] [Hsc [Hg [Hl [HF HT]]]]]. unfold hasher_mem.
  split; [exact Hh|]. split; [exact Hl|]. split; [exact HF|]. split; [exact Ht|]. split; [exact HT|].
  split; [apply (Hsc "s" U8 64%Z); cbn; auto 6|]. split; [apply (Hsc "w" U32 64%Z); cbn; auto 6|].
  apply Hg. reflexivity.
Qed.

Lemma hasher_ok_intro : forall st0 m0 H T m, HOK st0 m0 -> hasher_mem H T m ->
  mget m "hashblock" = mget m0 "hashblock" -> HOK {| hs_h := H; hs_total := T |} m.
Proof.
  intros st0 m0 H T m [_ [Hsc0 _]] [Hh [HlH [HFH [Ht [HT [Hs [Hw Hk]]]]]]] Hhb.
  split; [split; [exact Hh | exact Ht]|]. split; [|split; [|split; [exact HlH | split; [exact HFH | exact HT]]]].
  - intros name ty n Hin. cbn in Hin.
    destruct Hin as [E|[E|[E|[E|[E|[]]]]]]; inversion E; subst; clear E.
    + rewrite Hhb. apply Hsc0. cbn; auto.
    + exists (u64_cell T). split; [exact Ht | split; reflexivity].
    + exists (u32o H). split; [exact Hh|]. split; [reflexivity|]. cbn [u32o o_cells]. rewrite map_length, HlH. reflexivity.
    + exact Hw.
    + exact Hs.
  - intros k o Hko. cbn in Hko. destruct (String.eqb_spec k "k") as [->|Hne].
    + inversion Hko; subst. exact Hk.
    + destruct (String.eqb k "k") eqn:E; [apply String.eqb_eq in E; contradiction | discriminate].
Qed.

Lemma passable_not_owned : forall s o, passable s o -> ~ blk_owned o.
Proof.
  intros s o [Ho|[n [_ ->]]] [E|[E|[E|[E|E]]]]; try (subst o; discriminate Ho); unfold heap_name in E; discriminate E.
Qed.
Lemma owned_hash_owned : forall x, hash_owned x = false -> ~ blk_owned x.
Proof. intros x H [E|[E|[E|[E|E]]]]; subst x; discriminate H. Qed.
Lemma heap_not_owned : forall n, ~ blk_owned (heap_name n).
Proof. intros n [E|[E|[E|[E|E]]]]; unfold heap_name in E; discriminate E. Qed.

Lemma block_call : forall s st fuel o off blk, (101 <= fuel)%nat -> pre s = "" -> HOK st (mem s) ->
  bytes_at (mem s) o off blk -> List.length blk = 64%nat -> bytesb blk = true -> o <> "s" ->
  exists s', call hash_prog vt fuel "sha256hash::getHash/1" "" [VPtr o off] s = Ok (None, s') /\
    HOK (getHash_block alg_sha256 st blk) (mem s') /\
    (forall x, ~ blk_owned x -> mget (mem s') x = mget (mem s) x) /\
    loc s' = loc s /\ pre s' = pre s /\ files s' = files s /\ ptrs s' = ptrs s /\ fresh s' = fresh s.
Proof.
  intros s st fuel o off blk Hfuel Hpre Hok Hb Hlen Hby Hos.
  destruct (block_body (callee_state s [("input", VPtr o off)] "") (hs_h st) (hs_total st) o off blk)
    as [s' [T [[Ra [Rb [Rc Rd]]] [HM FR]]]]; auto.
  { apply hasher_ok_mem; exact Hok. }
  exists (back_state s s'). split.
  - apply (call_of_ti hash_prog vt 100 "sha256hash::getHash/1" "" [VPtr o off] s Src_sha256.f_sha256hash_getHash_1
             [("input", VPtr o off)] Normal s' lk_getHash1 eq_refl T). lia.
  - split.
    + apply (hasher_ok_intro st (mem s)); auto. apply FR. intros [E|[E|[E|[E|E]]]]; discriminate E.
    + split; [exact FR|]. sproj. repeat split; auto.
Qed.

Definition F_sha256hash : nat := 300.

Lemma sha256_spec_block : spec_block "sha256hash" alg_sha256 Src_sha256.objects_sha256hash Src_sha256.globals vt F_sha256hash.
Proof.
  intros s st fuel o off blk Hfuel Hpre Hok Hpass Hb Hlen Hby.
  destruct (block_call s st fuel o off blk) as [s' [C [HK [FR [L [P [Fi [Pt Fr]]]]]]]]; auto.
  { unfold F_sha256hash in Hfuel. lia. }
  { intros ->. apply (passable_not_owned s "s" Hpass). unfold blk_owned; auto. }
  exists s'. split; [exact C|]. split; [exact HK|]. split; [|split].
  - intros k Hk. apply FR. apply owned_hash_owned; exact Hk.
  - intros n Hn. apply FR. apply heap_not_owned.
  - unfold same_io. repeat split; auto. lia.
Qed.


(* ================= reset ================= *)
Definition rs := Eval cbv in f_body Src_sha256.f_sha256hash_reset_0.
Lemma rs_eq : rs = SSeq (nth_seq 0 rs) (SSeq (nth_seq 1 rs) (SSeq (nth_seq 2 rs) (SSeq (nth_seq 3 rs) (SSeq (nth_seq 4 rs)
  (SSeq (nth_seq 5 rs) (SSeq (nth_seq 6 rs) (SSeq (nth_seq 7 rs) (nth_seq 8 rs)))))))).
Proof. reflexivity. Qed.

Lemma reset_body : forall s H T, pre s = "" -> hasher_mem H T (mem s) ->
  exists s', TI 10 rs s (Normal, s') /\ same_rest s' s /\ loc s' = loc s /\
    hasher_mem sha256_iv 0 (mem s') /\ (forall x, x <> "h" -> x <> "totalsize" -> mget (mem s') x = mget (mem s) x).
Proof.
  intros s H T Hpre [Hh [HlH [HFH [Ht [HT [Hs [Hw Hk]]]]]]].
  destruct H as [|h0 [|h1 [|h2 [|h3 [|h4 [|h5 [|h6 [|h7 [|]]]]]]]]]; try discriminate.
  pose (r0 := with_mem s (mset (mem s) "h" (u32o [1779033703%N; h1; h2; h3; h4; h5; h6; h7]))).
  assert (T0 : TI 1 (nth_seq 0 rs) s (Normal, r0)).
  { cbn [nth_seq rs]. refine (st_arr hash_prog vt s (EField "h") "h" _ (EConst 0) (Z.to_N 0) _ (Z.to_N 1779033703) _ _ _ Hh _);
      [apply ev_field; exact Hpre | apply evN_const; cbv; split; congruence | evn | cbv; lia]. }
  assert (H0 : mget (mem r0) "h" = Some (u32o [1779033703%N; h1; h2; h3; h4; h5; h6; h7])) by apply mget_mset_same.
  pose (r1 := with_mem r0 (mset (mem r0) "h" (u32o [1779033703%N; 3144134277%N; h2; h3; h4; h5; h6; h7]))).
  assert (T1 : TI 1 (nth_seq 1 rs) r0 (Normal, r1)).
  { cbn [nth_seq rs]. refine (st_arr hash_prog vt r0 (EField "h") "h" _ (EConst 1) (Z.to_N 1) _ (Z.to_N 3144134277) _ _ _ H0 _);
      [apply ev_field; exact Hpre | apply evN_const; cbv; split; congruence | evn | cbv; lia]. }
  assert (H1 : mget (mem r1) "h" = Some (u32o [1779033703%N; 3144134277%N; h2; h3; h4; h5; h6; h7])) by apply mget_mset_same.
  pose (r2 := with_mem r1 (mset (mem r1) "h" (u32o [1779033703%N; 3144134277%N; 1013904242%N; h3; h4; h5; h6; h7]))).
  assert (T2 : TI 1 (nth_seq 2 rs) r1 (Normal, r2)).
  { cbn [nth_seq rs]. refine (st_arr hash_prog vt r1 (EField "h") "h" _ (EConst 2) (Z.to_N 2) _ (Z.to_N 1013904242) _ _ _ H1 _);
      [apply ev_field; exact Hpre | apply evN_const; cbv; split; congruence | evn | cbv; lia]. }
  assert (H2 : mget (mem r2) "h" = Some (u32o [1779033703%N; 3144134277%N; 1013904242%N; h3; h4; h5; h6; h7])) by apply mget_mset_same.
  pose (r3 := with_mem r2 (mset (mem r2) "h" (u32o [1779033703%N; 3144134277%N; 1013904242%N; 2773480762%N; h4; h5; h6; h7]))).
  assert (T3 : TI 1 (nth_seq 3 rs) r2 (Normal, r3)).
  { cbn [nth_seq rs]. refine (st_arr hash_prog vt r2 (EField "h") "h" _ (EConst 3) (Z.to_N 3) _ (Z.to_N 2773480762) _ _ _ H2 _);
      [apply ev_field; exact Hpre | apply evN_const; cbv; split; congruence | evn | cbv; lia]. }
  assert (H3 : mget (mem r3) "h" = Some (u32o [1779033703%N; 3144134277%N; 1013904242%N; 2773480762%N; h4; h5; h6; h7])) by apply mget_mset_same.
  pose (r4 := with_mem r3 (mset (mem r3) "h" (u32o [1779033703%N; 3144134277%N; 1013904242%N; 2773480762%N; 1359893119%N; h5; h6; h7]))).
  assert (T4 : TI 1 (nth_seq 4 rs) r3 (Normal, r4)).
  { cbn [nth_seq rs]. refine (st_arr hash_prog vt r3 (EField "h") "h" _ (EConst 4) (Z.to_N 4) _ (Z.to_N 1359893119) _ _ _ H3 _);
      [apply ev_field; exact Hpre | apply evN_const; cbv; split; congruence | evn | cbv; lia]. }
  assert (H4 : mget (mem r4) "h" = Some (u32o [1779033703%N; 3144134277%N; 1013904242%N; 2773480762%N; 1359893119%N; h5; h6; h7])) by apply mget_mset_same.
  pose (r5 := with_mem r4 (mset (mem r4) "h" (u32o [1779033703%N; 3144134277%N; 1013904242%N; 2773480762%N; 1359893119%N; 2600822924%N; h6; h7]))).
  assert (T5 : TI 1 (nth_seq 5 rs) r4 (Normal, r5)).
  { cbn [nth_seq rs]. refine (st_arr hash_prog vt r4 (EField "h") "h" _ (EConst 5) (Z.to_N 5) _ (Z.to_N 2600822924) _ _ _ H4 _);
      [apply ev_field; exact Hpre | apply evN_const; cbv; split; congruence | evn | cbv; lia]. }
  assert (H5 : mget (mem r5) "h" = Some (u32o [1779033703%N; 3144134277%N; 1013904242%N; 2773480762%N; 1359893119%N; 2600822924%N; h6; h7])) by apply mget_mset_same.
  pose (r6 := with_mem r5 (mset (mem r5) "h" (u32o [1779033703%N; 3144134277%N; 1013904242%N; 2773480762%N; 1359893119%N; 2600822924%N; 528734635%N; h7]))).
  assert (T6 : TI 1 (nth_seq 6 rs) r5 (Normal, r6)).
  { cbn [nth_seq rs]. refine (st_arr hash_prog vt r5 (EField "h") "h" _ (EConst 6) (Z.to_N 6) _ (Z.to_N 528734635) _ _ _ H5 _);
      [apply ev_field; exact Hpre | apply evN_const; cbv; split; congruence | evn | cbv; lia]. }
  assert (H6 : mget (mem r6) "h" = Some (u32o [1779033703%N; 3144134277%N; 1013904242%N; 2773480762%N; 1359893119%N; 2600822924%N; 528734635%N; h7])) by apply mget_mset_same.
  pose (r7 := with_mem r6 (mset (mem r6) "h" (u32o [1779033703%N; 3144134277%N; 1013904242%N; 2773480762%N; 1359893119%N; 2600822924%N; 528734635%N; 1541459225%N]))).
  assert (T7 : TI 1 (nth_seq 7 rs) r6 (Normal, r7)).
  { cbn [nth_seq rs]. refine (st_arr hash_prog vt r6 (EField "h") "h" _ (EConst 7) (Z.to_N 7) _ (Z.to_N 1541459225) _ _ _ H6 _);
      [apply ev_field; exact Hpre | apply evN_const; cbv; split; congruence | evn | cbv; lia]. }
  assert (H7 : mget (mem r7) "h" = Some (u32o [1779033703%N; 3144134277%N; 1013904242%N; 2773480762%N; 1359893119%N; 2600822924%N; 528734635%N; 1541459225%N])) by apply mget_mset_same.
  pose (r8 := with_mem r7 (mset (mem r7) "totalsize" (u64_cell 0))).
  assert (T8 : TI 1 (nth_seq 8 rs) r7 (Normal, r8)).
  { cbn [nth_seq rs]. eapply ti_store with (ob := u64_cell T); [apply ev_field; exact Hpre | reflexivity | | reflexivity].
    unfold r7, r6, r5, r4, r3, r2, r1, r0; sproj. rewrite !mget_mset_other by discriminate. exact Ht. }
  assert (FF : forall x, x <> "h" -> x <> "totalsize" -> mget (mem r8) x = mget (mem s) x).
  { intros x X1 X2. unfold r8, r7, r6, r5, r4, r3, r2, r1, r0; sproj. rewrite !mget_mset_other by congruence. reflexivity. }
  exists r8. split; [|split; [|split; [|split]]].
  - rewrite rs_eq.
    eapply ti_weaken; [|eapply ti_seq; [exact T0 | eapply ti_seq; [exact T1 | eapply ti_seq; [exact T2 | eapply ti_seq; [exact T3 |
      eapply ti_seq; [exact T4 | eapply ti_seq; [exact T5 | eapply ti_seq; [exact T6 | eapply ti_seq; [exact T7 | exact T8]]]]]]]]].
    cbn; lia.
  - unfold same_rest, r8, r7, r6, r5, r4, r3, r2, r1, r0; sproj. repeat split.
  - reflexivity.
  - unfold hasher_mem. split.
    { unfold r8; sproj. rewrite mget_mset_other by discriminate. exact H7. }
    split; [reflexivity|]. split; [repeat constructor|]. split; [unfold r8; sproj; apply mget_mset_same|].
    split; [reflexivity|]. rewrite !FF by discriminate. auto.
  - exact FF.
Qed.

Lemma sha256_spec_reset : spec_reset "sha256hash" alg_sha256 Src_sha256.objects_sha256hash Src_sha256.globals vt F_sha256hash.
Proof.
  intros s st fuel Hfuel Hpre Hok.
  destruct (reset_body (callee_state s [] "") (hs_h st) (hs_total st)) as [s' [T [[Ra [Rb [Rc Rd]]] [L [HM FR]]]]]; auto.
  { apply hasher_ok_mem; exact Hok. }
  exists (back_state s s'). split.
  - apply (call_of_ti hash_prog vt 10 "sha256hash::reset/0" "" [] s Src_sha256.f_sha256hash_reset_0
             [] Normal s' lk_reset eq_refl T). unfold F_sha256hash in Hfuel. lia.
  - split; [|split; [|split]].
    + apply (hasher_ok_intro st (mem s)); auto. apply FR; discriminate.
    + intros k Hk. apply FR; intros ->; discriminate Hk.
    + intros n Hn. apply FR; unfold heap_name; discriminate.
    + unfold same_io. sproj. repeat split; auto. rewrite Rd. sproj. lia.
Qed.


(* ================= getres ================= *)
Definition gr := Eval cbv in f_body Src_sha256.f_sha256hash_getres_1.
Definition gr_loop := Eval cbv in nth_seq 1 gr.
Definition gr_idx := Eval cbv in (EBin I32 Shr (EVar "i") (EConst 2)).
Definition gr_sh := Eval cbv in (EBin I32 Shl (EBin I32 Sub (EConst 3) (EBin I32 BAnd (EVar "i") (EConst 3))) (EConst 3)).

Lemma gr_eval : forall t k, lget (loc t) "i" = Some (VInt (Z.of_nat k)) -> (k < 32)%nat ->
  eval t gr_idx = Ok (VInt (Z.of_N (N.of_nat (k / 4)))) /\ eval t gr_sh = Ok (VInt (Z.of_nat (8 * (3 - k mod 4)))).
Proof.
  intros t k Hi Hk. unfold gr_idx, gr_sh. cbn [eval]. rewrite Hi.
  do 32 (destruct k as [|k]; [split; reflexivity|]). lia.
Qed.

Definition gr_inv (D : list N) (o : string) (off : Z) (cells0 : list Z) (s0 : state) (k : nat) (s : state) : Prop :=
  same_rest s s0 /\ lget (loc s) "i" = Some (VInt (Z.of_nat k)) /\ lget (loc s) "hashout" = Some (VPtr o off) /\
  (exists ob, mget (mem s) o = Some ob /\ o_ty ob = U8 /\ List.length (o_cells ob) = List.length cells0 /\
     (forall j, (j < k)%nat -> nth (Z.to_nat off + j) (o_cells ob) 0%Z = Z.of_N (nth j D 0%N)) /\
     (forall i, (i < Z.to_nat off \/ Z.to_nat off + k <= i)%nat -> nth i (o_cells ob) 0%Z = nth i cells0 0%Z)) /\
  (forall x, x <> o -> mget (mem s) x = mget (mem s0) x).

Lemma getres_body : forall s H o off ob0,
  pre s = "" -> mget (mem s) "h" = Some (u32o H) -> List.length H = 8%nat -> Forall lt32 H ->
  lget (loc s) "hashout" = Some (VPtr o off) -> mget (mem s) o = Some ob0 -> o_ty ob0 = U8 -> (0 <= off)%Z ->
  (Z.to_nat off + 32 <= List.length (o_cells ob0))%nat -> o <> "h" ->
  exists s', TI 40 gr s (Normal, s') /\ gr_inv (flat_map be32_bytes H) o off (o_cells ob0) s 32 s'.
Proof.
  intros s H o off ob0 Hpre Hh HlH HFH Hout Hmo Hto Hoff Hbound Hoh.
  set (D := flat_map be32_bytes H).
  pose (s1 := with_loc s (lset (loc s) "i" (VInt (Z.of_nat 0)))).
  assert (T0 : TI 1 (nth_seq 0 gr) s (Normal, s1)) by (apply ti_set; reflexivity).
  destruct (ti_loop_inv hash_prog vt (loop_c gr_loop) (loop_b gr_loop) (loop_s gr_loop) (gr_inv D o off (o_cells ob0) s) 32 3) with (s := s1)
    as [s2 [T1 P1]].
  - intros k t Hk [[Hp [Hf [Hpt Hfr]]] [Hi [Ho [[ob [Hm [Hty [Hl [Hin Hout']]]]] Hfrm]]]].
    assert (Hpt' : pre t = "") by congruence.
    exists 1%Z. split.
    { cbn [loop_c gr_loop eval]. rewrite Hi. cbn [bind as_int eval_bin].
      destruct (Z.ltb_spec (Z.of_nat k) 32); [reflexivity | lia]. }
    split; [discriminate|].
    destruct (gr_eval t k Hi Hk) as [Eidx Esh].
    assert (Ex : evN t (ECast U8 (EBin U32 Shr (ELoad U32 (EPtrAdd (EField "h") 4 gr_idx)) gr_sh)) (nth k D 0%N)).
    { unfold D. rewrite nth_flat_be32 by lia.
      replace (N.of_nat (8 * (3 - k mod 4))) with (Z.to_N (Z.of_nat (8 * (3 - k mod 4)))) by lia.
      apply evN_cast8. eapply evN_shr; [|exact Esh | lia].
      rewrite <- (Nat2N.id (k / 4)).
      eapply ld_arr with (o := "h"); [apply ev_field; auto | split; [exact Eidx | unfold lt32; lia] | | rewrite Nat2N.id; lia | exact HFH].
      rewrite Hfrm by auto. exact Hh. }
    destruct Ex as [Ex Exl].
    assert (Hx256 : (0 <= Z.of_N (nth k D 0%N) < 256)%Z).
    { unfold D. rewrite nth_flat_be32 by lia. split; [lia|].
      assert (N.shiftr (nth (k / 4) H 0) (N.of_nat (8 * (3 - k mod 4))) mod 256 < 256)%N by (apply N.mod_lt; discriminate). lia. }
    eexists. eexists. split; [|split].
    + cbn [loop_b gr_loop]. eapply ti_weaken with (N := 1%nat); [lia|].
      eapply ti_store with (ob := ob); [eapply ev_ptradd; [apply ev_var; exact Ho | apply ev_var; exact Hi] | exact Ex | exact Hm |].
      apply store8_ok; auto. lia.
    + cbn [loop_s gr_loop]. eapply ti_weaken with (N := 1%nat); [lia|]. apply ti_set.
      eapply ev_bin; [apply ev_var; sproj; exact Hi | reflexivity |].
      cbn [eval_bin]. apply arith_I32_small. lia.
    + unfold gr_inv, same_rest. sproj. split; [repeat split; congruence|].
      split; [lg; f_equal; f_equal; lia|]. split; [lg|]. split.
      * eexists. split; [apply mget_mset_same|]. cbn [o_ty o_cells]. split; [reflexivity|].
        split; [rewrite upd_nth_length; exact Hl|]. split.
        { intros j Hj. destruct (Nat.eq_dec j k) as [->|Hne].
          - replace (Z.to_nat (off + Z.of_nat k * 1)) with (Z.to_nat off + k)%nat by lia.
            rewrite nth_upd_nth_same by lia. reflexivity.
          - rewrite nth_upd_nth_other by lia. apply Hin. lia. }
        { intros i Hi'. rewrite nth_upd_nth_other by lia. apply Hout'. lia. }
      * intros x Hx. rewrite mget_mset_other by congruence. auto.
  - intros t [_ [Hi _]]. cbn [loop_c gr_loop eval]. rewrite Hi. reflexivity.
  - unfold gr_inv, s1, same_rest; sproj. split; [repeat split|]. split; [lg|]. split; [lg|]. split; [|auto].
    exists ob0. repeat split; auto. intros; lia.
  - exists s2. split; [|exact P1].
    change gr with (SSeq (nth_seq 0 gr) gr_loop). eapply ti_weaken; [|eapply ti_seq; [exact T0 | exact T1]]. cbn; lia.
Qed.

Lemma sha256_spec_getres : spec_getres "sha256hash" alg_sha256 Src_sha256.objects_sha256hash Src_sha256.globals vt F_sha256hash.
Proof.
  intros s st fuel o off old Hfuel Hpre Hok Hpass [ob0 [Hmo [Hto [Hoff [Hcells Hbound]]]]] Hlen.
  change (ha_hlen alg_sha256) with 32%nat in *. rewrite Hlen in *.
  pose proof (hasher_ok_mem _ _ Hok) as [Hh [HlH [HFH [Ht [HT [Hs [Hw Hk]]]]]]].
  assert (Hno : ~ blk_owned o) by (apply (passable_not_owned s); exact Hpass).
  destruct (getres_body (callee_state s [("hashout", VPtr o off)] "") (hs_h st) o off ob0)
    as [s' [T [[Ra [Rb [Rc Rd]]] [_ [_ [[ob' [Hm' [Hty' [Hl' [Hin Hout]]]]] FR]]]]]]; auto.
  { intros ->. apply Hno. unfold blk_owned; auto. }
  assert (HD : List.length (flat_map be32_bytes (hs_h st)) = 32%nat) by (rewrite flat_be32_length, HlH; reflexivity).
  exists (back_state s s'). split.
  - apply (call_of_ti hash_prog vt 40 "sha256hash::getres/1" "" [VPtr o off] s Src_sha256.f_sha256hash_getres_1
             [("hashout", VPtr o off)] Normal s' lk_getres eq_refl T). unfold F_sha256hash in Hfuel. lia.
  - sproj. split; [|split; [|split; [|split]]].
    + exists ob'. split; [exact Hm'|]. split; [exact Hty'|]. split; [exact Hoff|]. split; [|change (ha_out alg_sha256) with (flat_map be32_bytes); lia].
      change (ha_out alg_sha256 (hs_h st)) with (flat_map be32_bytes (hs_h st)). rewrite HD.
      apply nth_ext with (d := 0%Z) (d' := 0%Z).
      * rewrite firstn_length, skipn_length, map_length, HD. lia.
      * intros j Hj. rewrite firstn_length, skipn_length in Hj.
        rewrite nth_firstn_ by lia. rewrite nth_skipn_. rewrite Hin by lia.
        change 0%Z with (Z.of_N 0). now rewrite map_nth.
    + destruct Hok as [[Hh0 Ht0] [Hsc [Hg [Hl0 [HF0 HT0]]]]].
      assert (Fh : forall x, blk_owned x -> mget (mem s') x = mget (mem s) x).
      { intros x Hx. apply FR. intros ->. contradiction. }
      split; [split|split; [|split; [|auto]]].
      * rewrite Fh by (unfold blk_owned; auto). exact Hh0.
      * rewrite Fh by (unfold blk_owned; auto). exact Ht0.
      * intros name ty n Hin'. destruct (string_dec name o) as [->|Hne].
        { destruct (Hsc o ty n Hin') as [obx [A [B C]]]. rewrite Hmo in A. inversion A; subst obx.
          exists ob'. split; [exact Hm'|]. split; [congruence|]. rewrite Hl'. exact C. }
        { rewrite FR by auto. apply Hsc; auto. }
      * intros k0 o0 Hk0. destruct (string_dec k0 o) as [->|Hne].
        { exfalso. pose proof (Hg o o0 Hk0) as Hgo. rewrite Hmo in Hgo. inversion Hgo; subst o0.
          cbn in Hk0. destruct (String.eqb o "k"); [|discriminate]. inversion Hk0; subst ob0. discriminate Hto. }
        { rewrite FR by auto. apply Hg; auto. }
    + intros k0 Hk0. apply FR; auto.
    + intros ob ob2 A B. rewrite Hmo in A. rewrite Hm' in B. inversion A; inversion B; subst.
      split; [congruence|]. split; [exact Hl'|]. intros i Hi. apply Hout. lia.
    + unfold same_io. sproj. repeat split; auto. rewrite Rd. sproj. lia.
Qed.


(* ================= getHash(input, n): the final block(s) ================= *)
Definition gh2 := Eval cbv in f_body Src_sha256.f_sha256hash_getHash_2.

Lemma callvirt_getblen : forall s x, pre s = "" ->
  TI 2 (SCallVirt (Some x) "getblen/0" None []) s (Normal, with_loc s (lset (loc s) x (VInt 64))).
Proof.
  intros s x Hpre.
  eapply ti_callvirt with (cls := "sha256hash") (l := []) (o := Returned (Some (VInt 64))) (s1 := callee_state s [] (pre s)).
  - reflexivity.
  - reflexivity.
  - rewrite Hpre. exact Hvt.
  - exact lk_getblen.
  - reflexivity.
  - apply ti_return. reflexivity.
  - reflexivity.
Qed.

Lemma callvirt_gh1 : forall s H T hn blk, pre s = "" -> hasher_mem H T (mem s) ->
  lget (loc s) "temp" = Some (VPtr hn 0) -> bytes_at (mem s) hn 0 blk -> List.length blk = 64%nat -> bytesb blk = true ->
  hn <> "s" ->
  exists s', TI 101 (SCallVirt None "getHash/1" None [EVar "temp"]) s (Normal, s') /\ same_rest s' s /\ loc s' = loc s /\
     hasher_mem (m_sha256_block H blk) (new_total T 64) (mem s') /\
     (forall x, ~ blk_owned x -> mget (mem s') x = mget (mem s) x).
Proof.
  intros s H T hn blk Hpre HM Htemp Hb Hlen Hby Hne.
  destruct (block_body (callee_state s [("input", VPtr hn 0)] (pre s)) H T hn 0 blk)
    as [s' [Tb [[Ra [Rb [Rc Rd]]] [HM' FR]]]]; auto.
  exists (back_state s s'). split; [|split; [|split; [|split]]].
  - eapply ti_callvirt with (cls := "sha256hash") (o := Normal).
    + cbn [eval_list eval]. rewrite Htemp. reflexivity.
    + reflexivity.
    + rewrite Hpre. exact Hvt.
    + exact lk_getHash1.
    + reflexivity.
    + exact Tb.
    + reflexivity.
  - unfold same_rest; sproj. repeat split; auto.
  - reflexivity.
  - exact HM'.
  - exact FR.
Qed.

Definition fin_case (fl : nat) (H : list N) (T1 : N) (tmp : list N) : list N * N * list N :=
  if (56 <=? fl)%nat then (m_sha256_block H tmp, new_total T1 64, zeros 64) else (H, T1, tmp).

Lemma gh2_if : forall s7 H T1 hn tmp fl,
  pre s7 = "" -> hasher_mem H T1 (mem s7) -> lget (loc s7) "temp" = Some (VPtr hn 0) ->
  lget (loc s7) "final_loadsize" = Some (VInt (Z.of_nat fl)) -> (fl < 64)%nat ->
  mget (mem s7) hn = Some {| o_ty := U8; o_cells := map Z.of_N tmp |} -> List.length tmp = 64%nat -> bytesb tmp = true ->
  ~ blk_owned hn ->
  exists s8, TI 110 (nth_seq 8 gh2) s7 (Normal, s8) /\ same_rest s8 s7 /\
    hasher_mem (fst (fst (fin_case fl H T1 tmp))) (snd (fst (fin_case fl H T1 tmp))) (mem s8) /\
    mget (mem s8) hn = Some {| o_ty := U8; o_cells := map Z.of_N (snd (fin_case fl H T1 tmp)) |} /\
    (forall x, ~ blk_owned x -> x <> hn -> mget (mem s8) x = mget (mem s7) x) /\
    (forall x, x <> "$t3" -> lget (loc s8) x = lget (loc s7) x).
Proof.
  intros s7 H T1 hn tmp fl Hpre HM Htemp Hfl Hfl64 Hmt Hlt Hbt Hno.
  assert (Ec : eval s7 (EBin TBool Ge (EVar "final_loadsize") (ECast U32 (EConst 56))) =
               Ok (VInt (if (56 <=? Z.of_nat fl)%Z then 1 else 0)%Z)).
  { eapply ev_bin; [apply ev_var; exact Hfl | reflexivity | reflexivity]. }
  unfold fin_case. destruct (Nat.leb_spec 56 fl) as [Hge|Hlt56].
  - (* a first block, then an empty one *)
    destruct (Z.leb_spec 56 (Z.of_nat fl)) as [_|]; [|lia].
    destruct (callvirt_gh1 s7 H T1 hn tmp) as [sa [Ta [[Ra [Rb [Rc Rd]]] [La [HMa FRa]]]]]; auto.
    { exists {| o_ty := U8; o_cells := map Z.of_N tmp |}. split; [exact Hmt|]. split; [reflexivity|]. split; [lia|].
      cbn [o_cells Z.to_nat skipn]. rewrite map_length, Hlt. rewrite <- Hlt at 1. rewrite <- (map_length Z.of_N tmp) at 1.
      rewrite firstn_all. split; [reflexivity | lia]. }
    { intros ->. apply Hno. unfold blk_owned; auto. }
    assert (Pa : pre sa = "") by congruence.
    pose (sb := with_loc sa (lset (loc sa) "$t3" (VInt 64))).
    assert (Tb : TI 2 (SCallVirt (Some "$t3") "getblen/0" None []) sa (Normal, sb)) by (apply callvirt_getblen; exact Pa).
    assert (Hma : mget (mem sa) hn = Some {| o_ty := U8; o_cells := map Z.of_N tmp |}) by (rewrite FRa by exact Hno; exact Hmt).
    pose (sc := with_mem sb (mset (mem sb) hn {| o_ty := U8; o_cells := map Z.of_N (zeros 64) |})).
    assert (Tc : TI 1 (SMemset (EVar "temp") (EConst 0) (ECast U64 (EVar "$t3"))) sb (Normal, sc)).
    { eapply ti_memset with (dv := VPtr hn 0) (x := 0%Z) (k := 64%Z).
      - apply ev_var. unfold sb; sproj. rewrite lget_lset_other by discriminate. rewrite La. exact Htemp.
      - reflexivity.
      - eapply ev_cast with (x := 64%Z) (t := U64). apply ev_var. unfold sb; sproj. apply lget_lset_same.
      - rewrite (memset_u8 sb hn {| o_ty := U8; o_cells := map Z.of_N tmp |} 64); auto; try (cbn [o_cells]; rewrite map_length; lia); try lia.
        unfold sc. do 5 f_equal. cbn [o_cells]. rewrite skipn_all2 by (rewrite map_length; change (Z.to_nat 64) with 64%nat; lia).
        reflexivity. }
    exists sc. split; [|split; [|split; [|split; [|split]]]].
    + cbn [nth_seq gh2]. eapply ti_if_true with (x := 1%Z); [exact Ec | discriminate |].
      eapply ti_weaken; [|eapply ti_seq; [exact Ta | eapply ti_seq; [exact Tb | exact Tc]]]. cbn; lia.
    + unfold same_rest, sc, sb; sproj. repeat split; auto.
    + cbn [fst snd]. destruct HMa as [A1 [A2 [A3 [A4 [A5 [[o1 [A6 A6']] [[o2 [A7 A7']] A8]]]]]]].
      assert (G : forall x, x <> hn -> mget (mem sc) x = mget (mem sa) x).
      { intros x Hx. unfold sc, sb; sproj. rewrite mget_mset_other by congruence. reflexivity. }
      assert (N1 : forall x, blk_owned x -> x <> hn) by (intros x Hx ->; contradiction).
      unfold hasher_mem. rewrite !G by (apply N1; unfold blk_owned; auto).
      split; [exact A1|]. split; [exact A2|]. split; [exact A3|]. split; [exact A4|]. split; [exact A5|].
      split; [exists o1; auto|]. split; [exists o2; auto|].
      rewrite G; [exact A8|]. intros E. rewrite <- E in Hma. rewrite A8 in Hma. discriminate Hma.
    + cbn [snd]. unfold sc; sproj. apply mget_mset_same.
    + intros x Hx1 Hx2. unfold sc, sb; sproj. rewrite mget_mset_other by congruence. apply FRa; exact Hx1.
    + intros x Hx. unfold sc, sb; sproj. rewrite lget_lset_other by congruence. rewrite La. reflexivity.
  - destruct (Z.leb_spec 56 (Z.of_nat fl)) as [|_]; [lia|].
    exists s7. split; [|split; [|split; [|split; [|split]]]]; cbn [fst snd]; auto.
    + cbn [nth_seq gh2]. eapply ti_weaken; [|eapply ti_if_false; [exact Ec | apply ti_skip]]. lia.
    + apply same_rest_refl.
Qed.


(* the eight length bytes *)
Definition ll_loop := Eval cbv in nth_seq 10 gh2.
Definition ll_ptr := Eval cbv in (EBin I32 Add (EConst 56) (EVar "i")).
Definition ll_sh := Eval cbv in (EBin I32 Shl (EBin I32 Sub (EConst 7) (EVar "i")) (EConst 3)).
Lemma ll_eval : forall t k, lget (loc t) "i" = Some (VInt (Z.of_nat k)) -> (k < 8)%nat ->
  eval t ll_ptr = Ok (VInt (Z.of_nat (56 + k))) /\ eval t ll_sh = Ok (VInt (Z.of_nat (8 * (7 - k)))).
Proof.
  intros t k Hi Hk. unfold ll_ptr, ll_sh. cbn [eval]. rewrite Hi.
  do 8 (destruct k as [|k]; [split; reflexivity|]). lia.
Qed.

Definition ll_inv (B : N) (hn : string) (cells0 : list Z) (s0 : state) (k : nat) (s : state) : Prop :=
  same_rest s s0 /\ lget (loc s) "i" = Some (VInt (Z.of_nat k)) /\ lget (loc s) "temp" = Some (VPtr hn 0) /\
  lget (loc s) "bitlen" = Some (VInt (Z.of_N B)) /\
  (exists ob, mget (mem s) hn = Some ob /\ o_ty ob = U8 /\ List.length (o_cells ob) = 64%nat /\
     (forall j, (j < k)%nat -> nth (56 + j) (o_cells ob) 0%Z = Z.of_N (nth j (be64_bytes B) 0%N)) /\
     (forall j, (j < 56)%nat -> nth j (o_cells ob) 0%Z = nth j cells0 0%Z)) /\
  (forall x, x <> hn -> mget (mem s) x = mget (mem s0) x).

Lemma ll_spec : forall s0 B hn ob0,
  lget (loc s0) "i" = Some (VInt (Z.of_nat 0)) -> lget (loc s0) "temp" = Some (VPtr hn 0) ->
  lget (loc s0) "bitlen" = Some (VInt (Z.of_N B)) -> (B < 2 ^ 64)%N ->
  mget (mem s0) hn = Some ob0 -> o_ty ob0 = U8 -> List.length (o_cells ob0) = 64%nat ->
  exists s', TI 12 ll_loop s0 (Normal, s') /\ ll_inv B hn (o_cells ob0) s0 8 s'.
Proof.
  intros s0 B hn ob0 Hi0 Htemp Hbit HB Hm0 Ht0 Hl0.
  destruct (ti_loop_inv hash_prog vt (loop_c ll_loop) (loop_b ll_loop) (loop_s ll_loop) (ll_inv B hn (o_cells ob0) s0) 8 3) with (s := s0)
    as [s1 [T1 P1]].
  - intros k t Hk [[Hp [Hf [Hpt Hfr]]] [Hi [Hte [Hbi [[ob [Hm [Hty [Hl [Hin Hlow]]]]] Hfrm]]]]].
    exists 1%Z. split.
    { cbn [loop_c ll_loop eval]. rewrite Hi. cbn [bind as_int eval_bin].
      destruct (Z.ltb_spec (Z.of_nat k) 8); [reflexivity | lia]. }
    split; [discriminate|].
    destruct (ll_eval t k Hi Hk) as [Eptr Esh].
    set (v := Z.of_N (nth k (be64_bytes B) 0%N)).
    assert (Ev : eval t (ECast U8 (EBin U64 Shr (EVar "bitlen") ll_sh)) = Ok (VInt v)).
    { unfold v. rewrite nth_be64 by lia. rewrite of_N_mod by discriminate. rewrite of_N_shiftr. rewrite nat_N_Z.
      change (Z.of_N 256) with 256%Z. rewrite <- wrap_U8_mod.
      apply ev_cast. eapply ev_bin; [apply ev_var; exact Hbi | exact Esh |].
      cbn [eval_bin ity_bits]. destruct (Z.ltb_spec (Z.of_nat (8 * (7 - k))) 0); [lia|].
      destruct (Z.leb_spec 64 (Z.of_nat (8 * (7 - k)))); [lia|]. reflexivity. }
    assert (Hv : (0 <= v < 256)%Z).
    { unfold v. rewrite nth_be64 by lia.
      assert (N.shiftr B (N.of_nat (8 * (7 - k))) mod 256 < 256)%N by (apply N.mod_lt; discriminate). lia. }
    eexists. eexists. split; [|split].
    + cbn [loop_b ll_loop]. eapply ti_weaken with (N := 1%nat); [lia|].
      eapply ti_store with (ob := ob); [eapply ev_ptradd; [apply ev_var; exact Hte | exact Eptr] | exact Ev | exact Hm |].
      apply store8_ok; auto. lia.
    + cbn [loop_s ll_loop]. eapply ti_weaken with (N := 1%nat); [lia|]. apply ti_set.
      eapply ev_bin; [apply ev_var; sproj; exact Hi | reflexivity |].
      cbn [eval_bin]. apply arith_I32_small. lia.
    + unfold ll_inv, same_rest. sproj. split; [repeat split; congruence|].
      split; [lg; f_equal; f_equal; lia|]. split; [lg|]. split; [lg|]. split.
      * eexists. split; [apply mget_mset_same|]. cbn [o_ty o_cells]. split; [reflexivity|].
        split; [rewrite upd_nth_length; exact Hl|].
        replace (Z.to_nat (0 + Z.of_nat (56 + k) * 1)) with (56 + k)%nat by lia. split.
        { intros j Hj. destruct (Nat.eq_dec j k) as [->|Hne].
          - rewrite nth_upd_nth_same by lia. reflexivity.
          - rewrite nth_upd_nth_other by lia. apply Hin. lia. }
        { intros j Hj. rewrite nth_upd_nth_other by lia. apply Hlow. lia. }
      * intros x Hx. rewrite mget_mset_other by congruence. auto.
  - intros t [_ [Hi _]]. cbn [loop_c ll_loop eval]. rewrite Hi. reflexivity.
  - unfold ll_inv. split; [apply same_rest_refl|]. split; [exact Hi0|]. split; [exact Htemp|]. split; [exact Hbit|]. split; [|auto].
    exists ob0. repeat split; auto. intros; lia.
  - exists s1. split; [exact T1 | exact P1].
Qed.


Lemma gh2_eq : gh2 = SSeq (nth_seq 0 gh2) (SSeq (nth_seq 1 gh2) (SSeq (nth_seq 2 gh2) (SSeq (nth_seq 3 gh2) (SSeq (nth_seq 4 gh2)
  (SSeq (nth_seq 5 gh2) (SSeq (nth_seq 6 gh2) (SSeq (nth_seq 7 gh2) (SSeq (nth_seq 8 gh2) (SSeq (nth_seq 9 gh2)
  (SSeq ll_loop (SSeq (nth_seq 11 gh2) (nth_seq 12 gh2)))))))))))).
Proof. reflexivity. Qed.

Lemma final_model : forall H T inp, (List.length inp < 64)%nat ->
  let fl := List.length inp in
  let T1 := new_total T (N.of_nat fl) in
  let tmp := inp ++ [128%N] ++ zeros (63 - fl) in
  let c := fin_case fl H T1 tmp in
  getHash_final alg_sha256 {| hs_h := H; hs_total := T |} inp =
  {| hs_h := m_sha256_block (fst (fst c)) (firstn 56 (snd c) ++ be64_bytes T1);
     hs_total := new_total (snd (fst c)) 64 |}.
Proof.
  intros H T inp Hl fl T1 tmp c. unfold c, fin_case, getHash_final.
  change (N.to_nat (nth 0 (ha_final alg_sha256) 0%N)) with 56%nat.
  change (N.to_nat (nth 1 (ha_final alg_sha256) 0%N)) with 56%nat.
  change (nth 2 (ha_final alg_sha256) 0 =? 0)%N with true. cbv iota.
  fold fl. change (hs_total (addtotal {| hs_h := H; hs_total := T |} (N.of_nat fl))) with T1.
  fold tmp. destruct (56 <=? fl)%nat; reflexivity.
Qed.

Lemma gh2_body : forall s H T o off inp,
  pre s = "" -> hasher_mem H T (mem s) -> lget (loc s) "input" = Some (VPtr o off) ->
  lget (loc s) "final_loadsize" = Some (VInt (Z.of_nat (List.length inp))) ->
  bytes_at (mem s) o off inp -> (List.length inp < 64)%nat -> bytesb inp = true ->
  ~ blk_owned o -> o <> heap_name (fresh s) ->
  exists s', TI 260 gh2 s (Normal, s') /\ pre s' = pre s /\ files s' = files s /\ ptrs s' = ptrs s /\ fresh s' = S (fresh s) /\
    hasher_mem (hs_h (getHash_final alg_sha256 {| hs_h := H; hs_total := T |} inp))
               (hs_total (getHash_final alg_sha256 {| hs_h := H; hs_total := T |} inp)) (mem s') /\
    (forall x, ~ blk_owned x -> x <> heap_name (fresh s) -> mget (mem s') x = mget (mem s) x).
Proof.
  intros s H T o off inp Hpre HM Hin Hfl [obi [Hmi [Hti [Hoff [Hcells Hbound]]]]] Hl64 Hby Hno Hohn.
  rewrite (final_model H T inp Hl64). cbn zeta.
  set (fl := List.length inp) in *. set (T1 := new_total T (N.of_nat fl)).
  set (tmp := inp ++ [128%N] ++ zeros (63 - fl)). set (hn := heap_name (fresh s)) in *.
  assert (Nhn : ~ blk_owned hn) by apply heap_not_owned.
  assert (N1 : forall x, blk_owned x -> x <> hn) by (intros x Hx ->; contradiction).
  pose proof HM as [Hh [HlH [HFH [Ht [HT [[obs [Hms Hss]] [[obw [Hmw Hws]] Hk]]]]]]].
  (* addtotal(final_loadsize) *)
  pose (a0 := with_mem s (mset (mem s) "totalsize" (u64_cell T1))).
  assert (TA0 : TI 2 (nth_seq 0 gh2) s (Normal, a0)).
  { apply call_addtotal; auto. apply evN_var; [rewrite Hfl; rewrite <- nat_N_Z; reflexivity | unfold lt32; lia]. }
  assert (HM0 : hasher_mem H T1 (mem a0)).
  { unfold hasher_mem, a0; sproj. rewrite mget_mset_same. rewrite !mget_mset_other by discriminate.
    split; [exact Hh|]. split; [exact HlH|]. split; [exact HFH|]. split; [reflexivity|]. split; [apply new_total_lt|].
    split; [exists obs; auto|]. split; [exists obw; auto | exact Hk]. }
  (* bitlen = totalsize *)
  pose (a1 := with_loc a0 (lset (loc a0) "bitlen" (VInt (Z.of_N T1)))).
  assert (TA1 : TI 1 (nth_seq 1 gh2) a0 (Normal, a1)).
  { apply ti_set.
    assert (E : eval a0 (ELoad U64 (EField "totalsize")) = Ok (VInt (wrap U64 (Z.of_N T1)))).
    { eapply ev_load; [apply ev_field; exact Hpre | unfold a0; sproj; apply mget_mset_same | reflexivity]. }
    rewrite wrap_U64_small in E; [exact E|]. pose proof (new_total_lt T (N.of_nat fl)) as L. fold T1 in L.
    change (2 ^ 64)%Z with (Z.of_N (2 ^ 64)). lia. }
  pose (a2 := with_loc a1 (lset (loc a1) "$t1" (VInt 64))).
  assert (TA2 : TI 2 (nth_seq 2 gh2) a1 (Normal, a2)) by (apply callvirt_getblen; exact Hpre).
  pose (a3 := {| mem := mset (mem a2) hn {| o_ty := U8; o_cells := repeat 0%Z (Z.to_nat 64) |};
                 loc := lset (loc a2) "temp" (VPtr hn 0); pre := pre a2; files := files a2; ptrs := ptrs a2; fresh := S (fresh a2) |}).
  assert (TA3 : TI 1 (nth_seq 3 gh2) a2 (Normal, a3)).
  { apply (ti_new hash_prog vt "temp" U8 (ECast U64 (EVar "$t1")) a2 64); [|lia].
    eapply ev_cast with (x := 64%Z) (t := U64). apply ev_var. unfold a2; sproj. apply lget_lset_same. }
  pose (a4 := with_loc a3 (lset (loc a3) "$t2" (VInt 64))).
  assert (TA4 : TI 2 (nth_seq 4 gh2) a3 (Normal, a4)) by (apply callvirt_getblen; exact Hpre).
  (* memset(temp, 0, 64) *)
  pose (a5 := with_mem a4 (mset (mem a4) hn {| o_ty := U8; o_cells := repeat 0%Z 64 |})).
  assert (TA5 : TI 1 (nth_seq 5 gh2) a4 (Normal, a5)).
  { eapply ti_memset with (dv := VPtr hn 0) (x := 0%Z) (k := 64%Z).
    - apply ev_var. unfold a4, a3; sproj. lg.
    - reflexivity.
    - eapply ev_cast with (x := 64%Z) (t := U64). apply ev_var. unfold a4; sproj. apply lget_lset_same.
    - rewrite (memset_u8 a4 hn {| o_ty := U8; o_cells := repeat 0%Z (Z.to_nat 64) |} 64); try reflexivity; try lia.
      unfold a4, a3; sproj. apply mget_mset_same. }
  (* memcpy(temp, input, final_loadsize) *)
  pose (a6 := with_mem a5 (mset (mem a5) hn {| o_ty := U8; o_cells := map Z.of_N inp ++ repeat 0%Z (64 - fl) |})).
  assert (Hmi5 : mget (mem a5) o = Some obi).
  { unfold a5, a4, a3, a2, a1, a0; sproj. rewrite !mget_mset_other; auto.
    intros E; apply Hno; unfold blk_owned; auto. }
  assert (TA6 : TI 1 (nth_seq 6 gh2) a5 (Normal, a6)).
  { eapply ti_memcpy with (dv := VPtr hn 0) (sv := VPtr o off) (k := Z.of_nat fl).
    - apply ev_var. unfold a5, a4, a3; sproj. lg.
    - apply ev_var. unfold a5, a4, a3, a2, a1, a0; sproj. lg.
    - replace (Z.of_nat fl) with (wrap U64 (Z.of_nat fl)) by (apply wrap_U64_small; change (2 ^ 64)%Z with 18446744073709551616%Z; lia).
      apply ev_cast. apply ev_var. unfold a5, a4, a3, a2, a1, a0; sproj. lg.
    - rewrite (memcpy_u8 a5 hn {| o_ty := U8; o_cells := repeat 0%Z 64 |} o obi off (Z.of_nat fl)); auto; try lia.
      + unfold a6. do 4 f_equal. cbn [o_cells]. rewrite Nat2Z.id, Hcells, skipn_repeat. reflexivity.
      + unfold a5; sproj. apply mget_mset_same.
      + cbn [o_cells]. rewrite repeat_length. lia. }
  (* temp[final_loadsize] = 0x80 *)
  pose (a7 := with_mem a6 (mset (mem a6) hn {| o_ty := U8; o_cells := map Z.of_N tmp |})).
  assert (TA7 : TI 1 (nth_seq 7 gh2) a6 (Normal, a7)).
  { assert (Ecell : map Z.of_N tmp = upd_nth (Z.to_nat (0 + Z.of_nat fl * 1)) 128%Z (map Z.of_N inp ++ repeat 0%Z (64 - fl))).
    { unfold tmp, zeros. rewrite !map_app, map_repeat_. cbn [map app].
      replace (Z.to_nat (0 + Z.of_nat fl * 1)) with (List.length (map Z.of_N inp)) by (rewrite map_length; fold fl; lia).
      replace (64 - fl)%nat with (S (63 - fl)) by lia. cbn [repeat]. rewrite upd_nth_app_exact. reflexivity. }
    unfold a7. rewrite Ecell.
    eapply ti_store with (ob := {| o_ty := U8; o_cells := map Z.of_N inp ++ repeat 0%Z (64 - fl) |}) (z := 128%Z).
    - eapply ev_ptradd; apply ev_var; unfold a6, a5, a4, a3, a2, a1, a0; sproj; lg.
    - reflexivity.
    - unfold a6; sproj. apply mget_mset_same.
    - apply store8_ok; [reflexivity | | lia]. cbn [o_cells]. rewrite app_length, map_length, repeat_length. fold fl. lia. }
  assert (Ltmp : List.length tmp = 64%nat).
  { unfold tmp, zeros. rewrite !app_length, repeat_length. cbn [List.length]. fold fl. lia. }
  assert (Btmp : bytesb tmp = true).
  { unfold tmp. rewrite !bytesb_app, Hby, bytesb_zeros. reflexivity. }
  assert (F7 : forall x, x <> "totalsize" -> x <> hn -> mget (mem a7) x = mget (mem s) x).
  { intros x X1 X2. unfold a7, a6, a5, a4, a3, a2, a1, a0; sproj. rewrite !mget_mset_other by congruence. reflexivity. }
  assert (HM7 : hasher_mem H T1 (mem a7)).
  { assert (G : forall x, x <> hn -> mget (mem a7) x = mget (mem a0) x).
    { intros x X. unfold a7, a6, a5, a4, a3, a2, a1; sproj. rewrite !mget_mset_other by congruence. reflexivity. }
    destruct HM0 as [A1 [A2 [A3 [A4 [A5 [[o1 [A6 A6']] [[o2 [A7 A7']] A8]]]]]]].
    unfold hasher_mem. rewrite !G by (apply N1; unfold blk_owned; auto).
    split; [exact A1|]. split; [exact A2|]. split; [exact A3|]. split; [exact A4|]. split; [exact A5|].
    split; [exists o1; auto|]. split; [exists o2; auto|].
    rewrite G; [exact A8|]. unfold hn, heap_name. discriminate. }
  (* if (final_loadsize >= 56) ... *)
  destruct (gh2_if a7 H T1 hn tmp fl) as [a8 [TA8 [[R8a [R8b [R8c R8d]]] [HM8 [Hm8 [F8 L8]]]]]]; auto.
  { unfold a7, a6, a5, a4, a3; sproj. lg. }
  { unfold a7, a6, a5, a4, a3, a2, a1, a0; sproj. lg. }
  { unfold a7; sproj. apply mget_mset_same. }
  set (c := fin_case fl H T1 tmp) in *.
  assert (Lc : List.length (snd c) = 64%nat).
  { unfold c, fin_case. destruct (56 <=? fl)%nat; cbn [snd]; [apply repeat_length | exact Ltmp]. }
  assert (Bc : bytesb (snd c) = true).
  { unfold c, fin_case. destruct (56 <=? fl)%nat; cbn [snd]; [apply bytesb_zeros | exact Btmp]. }
  (* the length bytes *)
  pose (a9 := with_loc a8 (lset (loc a8) "i" (VInt (Z.of_nat 0)))).
  assert (TA9 : TI 1 (nth_seq 9 gh2) a8 (Normal, a9)) by (apply ti_set; reflexivity).
  destruct (ll_spec a9 T1 hn {| o_ty := U8; o_cells := map Z.of_N (snd c) |}) as [a10 [TA10 P10]].
  { unfold a9; sproj. lg. }
  { unfold a9; sproj. rewrite lget_lset_other by discriminate. rewrite L8 by discriminate.
    unfold a7, a6, a5, a4, a3; sproj. lg. }
  { unfold a9; sproj. rewrite lget_lset_other by discriminate. rewrite L8 by discriminate.
    unfold a7, a6, a5, a4, a3, a2, a1; sproj. lg. }
  { apply new_total_lt. }
  { exact Hm8. }
  { reflexivity. }
  { cbn [o_cells]. rewrite map_length. exact Lc. }
  destruct P10 as [[R10a [R10b [R10c R10d]]] [Hi10 [Ht10 [Hb10 [[ob10 [Hm10 [Hty10 [Hl10 [Hhi Hlow]]]]] F10]]]]].
  cbn [o_cells] in Hlow.
  (* getHash(temp) *)
  set (blk := firstn 56 (snd c) ++ be64_bytes T1).
  assert (Lblk : List.length blk = 64%nat).
  { unfold blk. rewrite app_length, firstn_length, Lc. reflexivity. }
  assert (HM10 : hasher_mem (fst (fst c)) (snd (fst c)) (mem a10)).
  { assert (G : forall x, x <> hn -> mget (mem a10) x = mget (mem a8) x) by (intros x X; rewrite F10 by exact X; reflexivity).
    destruct HM8 as [A1 [A2 [A3 [A4 [A5 [[o1 [A6 A6']] [[o2 [A7 A7']] A8]]]]]]].
    unfold hasher_mem. rewrite !G by (apply N1; unfold blk_owned; auto).
    split; [exact A1|]. split; [exact A2|]. split; [exact A3|]. split; [exact A4|]. split; [exact A5|].
    split; [exists o1; auto|]. split; [exists o2; auto|].
    rewrite G; [exact A8|]. unfold hn, heap_name. discriminate. }
  destruct (callvirt_gh1 a10 (fst (fst c)) (snd (fst c)) hn blk) as [a11 [TA11 [[R11a [R11b [R11c R11d]]] [L11 [HM11 F11]]]]]; auto.
  { rewrite R10a. unfold a9; sproj. rewrite R8a. exact Hpre. }
  { exists ob10. split; [exact Hm10|]. split; [exact Hty10|]. split; [lia|]. rewrite Lblk. cbn [Z.to_nat skipn].
    split; [|lia]. rewrite <- Hl10, firstn_all.
    apply nth_ext with (d := 0%Z) (d' := 0%Z); [rewrite map_length; lia|].
    intros j Hj. change 0%Z with (Z.of_N 0) at 2. rewrite map_nth. unfold blk.
    destruct (Nat.lt_ge_cases j 56) as [Lj|Lj].
    - rewrite Hlow by exact Lj. change 0%Z with (Z.of_N 0). rewrite map_nth.
      rewrite app_nth1 by (rewrite firstn_length; lia). rewrite nth_firstn_ by exact Lj. reflexivity.
    - rewrite app_nth2 by (rewrite firstn_length; lia). rewrite firstn_length, Lc.
      replace j with (56 + (j - 56))%nat at 1 by lia. rewrite Hhi by lia. reflexivity. }
  { unfold blk. rewrite bytesb_app, bytesb_be64, bytesb_firstn; auto. }
  { unfold hn, heap_name. discriminate. }
  (* delete[] temp *)
  assert (TA12 : TI 1 (nth_seq 12 gh2) a11 (Normal, a11)).
  { eapply ti_delete. apply ev_var. rewrite L11. exact Ht10. }
  exists a11. split; [|split; [|split; [|split; [|split; [|split]]]]].
  - rewrite gh2_eq.
    eapply ti_weaken; [|eapply ti_seq; [exact TA0 | eapply ti_seq; [exact TA1 | eapply ti_seq; [exact TA2 | eapply ti_seq; [exact TA3 |
      eapply ti_seq; [exact TA4 | eapply ti_seq; [exact TA5 | eapply ti_seq; [exact TA6 | eapply ti_seq; [exact TA7 |
      eapply ti_seq; [exact TA8 | eapply ti_seq; [exact TA9 | eapply ti_seq; [exact TA10 | eapply ti_seq; [exact TA11 | exact TA12]]]]]]]]]]]]].
    cbn; lia.
  - rewrite R11a, R10a. unfold a9; sproj. rewrite R8a. reflexivity.
  - rewrite R11b, R10b. unfold a9; sproj. rewrite R8b. reflexivity.
  - rewrite R11c, R10c. unfold a9; sproj. rewrite R8c. reflexivity.
  - rewrite R11d, R10d. unfold a9; sproj. rewrite R8d. reflexivity.
  - exact HM11.
  - intros x X1 X2. rewrite F11 by exact X1. rewrite F10 by exact X2. change (mem a9) with (mem a8).
    rewrite F8 by auto. apply F7; auto. intros ->. apply X1. unfold blk_owned; auto.
Qed.


Lemma prefix_nil : forall x, String.prefix "" x = true.
Proof. destruct x; reflexivity. Qed.
Lemma hash_owned_heap : forall n, hash_owned (heap_name n) = true.
Proof.
  intro n. unfold hash_owned, heap_name, is_prefix. cbn [existsb String.eqb Ascii.eqb Bool.eqb orb String.prefix].
  match goal with |- (_ || (if ?d then _ else _))%bool = true => destruct d as [_|Hn]; [|exfalso; apply Hn; reflexivity] end.
  rewrite prefix_nil. apply orb_true_r.
Qed.

Lemma sha256_spec_final : spec_final "sha256hash" alg_sha256 Src_sha256.objects_sha256hash Src_sha256.globals vt F_sha256hash.
Proof.
  intros s st fuel o off inp Hfuel Hpre Hok Hpass Hb Hlen Hby.
  destruct st as [H0 T0].
  assert (Hno : ~ blk_owned o) by (apply (passable_not_owned s); exact Hpass).
  assert (Hohn : o <> heap_name (fresh s)).
  { destruct Hpass as [Ho|[n [Hn ->]]].
    - intros ->. rewrite hash_owned_heap in Ho. discriminate Ho.
    - intros E. apply heap_name_inj in E. lia. }
  destruct (gh2_body (callee_state s [("input", VPtr o off); ("final_loadsize", VInt (Z.of_nat (List.length inp)))] "")
              H0 T0 o off inp) as [s' [T [Ra [Rb [Rc [Rd [HM FR]]]]]]]; auto.
  { apply (hasher_ok_mem _ _ Hok). }
  exists (back_state s s'). split.
  - apply (call_of_ti hash_prog vt 260 "sha256hash::getHash/2" "" [VPtr o off; VInt (Z.of_nat (List.length inp))] s
             Src_sha256.f_sha256hash_getHash_2 [("input", VPtr o off); ("final_loadsize", VInt (Z.of_nat (List.length inp)))]
             Normal s' lk_getHash2 eq_refl T). unfold F_sha256hash in Hfuel. lia.
  - sproj. sproj. split; [|split; [|split]].
    + set (st' := getHash_final alg_sha256 {| hs_h := H0; hs_total := T0 |} inp) in *.
      replace st' with {| hs_h := hs_h st'; hs_total := hs_total st' |} by (destruct st'; reflexivity).
      apply (hasher_ok_intro {| hs_h := H0; hs_total := T0 |} (mem s)); auto.
      apply FR; [intros [E|[E|[E|[E|E]]]]; discriminate E | unfold heap_name; discriminate].
    + intros k Hk. apply FR; [apply owned_hash_owned; exact Hk|].
      intros ->. rewrite hash_owned_heap in Hk. discriminate Hk.
    + intros n Hn. apply FR; [apply heap_not_owned|]. intros E. apply heap_name_inj in E. cbn [fresh callee_state] in E. lia.
    + unfold same_io. sproj. repeat split; auto. rewrite Rd. sproj. lia.
Qed.

End Sha256.

Lemma sha256hash_class_spec : forall vt, lget vt "" = Some "sha256hash" ->
  class_spec "sha256hash" alg_sha256 Src_sha256.objects_sha256hash Src_sha256.globals vt F_sha256hash.
Proof.
  intros vt Hvt. constructor.
  - apply sha256_spec_reset; exact Hvt.
  - apply sha256_spec_block; exact Hvt.
  - apply sha256_spec_final; exact Hvt.
  - apply sha256_spec_getres; exact Hvt.
  - exact Hvt.
Qed.

(* ---------------- non-vacuity: a concrete hasher satisfying the preconditions, and the specified
   call evaluated on it ("abc": the final-block path, heap object "#0") ---------------- *)
Definition ex_mem : memory :=
  Src_sha256.globals ++ [("hashblock", mk_object U8 64); ("totalsize", u64_cell 0); ("h", u32_obj sha256_iv);
                         ("w", mk_object U32 64); ("s", mk_object U8 64); ("msg", bytes_object [97; 98; 99]%N)].
Example ex_hasher_ok : hasher_ok alg_sha256 Src_sha256.objects_sha256hash Src_sha256.globals (reset alg_sha256) ex_mem.
Proof.
  split; [split; reflexivity|]. split; [|split; [|split; [reflexivity | split; [repeat constructor | reflexivity]]]].
  - intros name ty n Hin. cbn in Hin.
    destruct Hin as [E|[E|[E|[E|[E|[]]]]]]; inversion E; subst; eexists; (split; [reflexivity | split; reflexivity]).
  - intros k o Hk. cbn in Hk. destruct (String.eqb_spec k "k") as [->|Hne]; [inversion Hk; reflexivity|].
    destruct (String.eqb k "k") eqn:E; [apply String.eqb_eq in E; contradiction | discriminate].
Qed.
Example ex_bytes_at : bytes_at ex_mem "msg" 0 [97; 98; 99]%N /\ passable (init_state ex_mem) "msg".
Proof.
  split; [|left; reflexivity]. eexists. split; [reflexivity|]. repeat split; try reflexivity; cbn; lia.
Qed.
Example ex_final_run :
  match call hash_prog [("", "sha256hash")] F_sha256hash "sha256hash::getHash/2" "" [VPtr "msg" 0; VInt 3] (init_state ex_mem) with
  | Ok (None, s') => mget (mem s') "h"
  | _ => None
  end = Some (u32_obj (hs_h (getHash_final alg_sha256 (reset alg_sha256) [97; 98; 99]%N))).
Proof. vm_compute. reflexivity. Qed.

Print Assumptions sha256hash_class_spec.
