(* Layer M, the I/O (main) thread (1): wait_update, cmpstate, set_ready. *)
From Coq Require Import ZArith NArith List String Bool Lia Arith.
From Wencry Require Import Bytes FileModel PipeConc PipeLemmas MiniC MiniCLemmas MiniCConc SrcRun RefineSeqDefs RefineSeqA RefineSeqB.
From Wencry Require Import RefineE2EfLay RefineE2EfMach RefineE2EfMem RefineE2EfTac RefineE2EfStepW.
From Wencry.Gen Require Src_conc.
Import ListNotations.
Local Open Scope string_scope.
Local Open Scope list_scope.

Ltac stop_io p' g' := eapply r_stop; [discriminate | reflexivity | eapply (fin_io _ _ _ _ _ _ _ _ _ p' g'); [unf; try reflexivity | reflexivity | ]].
Ltac sleep_io p' g' := eapply r_wait; [discriminate | fo | eapply m_wait; ev |
  cbn [cont_conf next_of with_status mx_release ct_cur ct_k ct_loc ct_pre ct_st app]; rewrite ?String.eqb_refl;
  eapply (fin_io _ _ _ _ _ _ _ _ _ p' g'); [unf; try reflexivity | reflexivity | ]].

Ltac start_io B :=
  unfold cstate_md at 1;
  eapply (cstep_run B); [apply nth_thread_io | reflexivity | unf; try reflexivity | ]; unf.
Ltac start_io_awake B :=
  unfold cstate_md at 1;
  eapply (cstep_awake B); [apply nth_thread_io | reflexivity | ]; unf; unfold with_status; cbn [ct_cur ct_k ct_loc ct_pre ct_st].


Section I.
Context {LY : Layout} {LO : LayoutOk}.
Variables (c T : nat) (pad : bool) (input0 : list N).
Notation cst := (cstate_md c T pad input0).
Notation sho := (sh_of c T pad input0).

Lemma rd_turn : forall d l, (d_turn d < T)%nat -> (T <= 255)%nat ->
  eval (tst (sho d) l GP) (ELoad U32 (EField "turn")) = Ok (VInt (Z.of_nat (d_turn d))).
Proof. intros d l H HT. evs. rewrite mget_turn. rewrite load_cell. rewrite wrap_U32_small by lia. reflexivity. Qed.
Lemma rd_size : forall d l, (1 <= T <= 255)%nat ->
  eval (tst (sho d) l GP) (ELoad U32 (EField "size")) = Ok (VInt (Z.of_nat T)).
Proof. intros d l HT. evs. rewrite mget_size. rewrite load_cell. rewrite wrap_U32_small by lia. reflexivity. Qed.
Lemma rd_over : forall d l, eval (tst (sho d) l GP) (ELoad TBool (EField "over")) = Ok (VInt (b2z (d_over d))).
Proof. intros d l. evs. rewrite mget_over. rewrite load_cell. rewrite wrap_TBool_b2z. reflexivity. Qed.
Lemma rd_pad : forall d l, eval (tst (sho d) l GP) (ELoad TBool (EField "ispadding")) = Ok (VInt (b2z pad)).
Proof. intros d l. evs. rewrite mget_pad. rewrite load_cell. rewrite wrap_TBool_b2z. reflexivity. Qed.
Lemma rd_live : forall d l p, (d_live d <= 255)%nat ->
  eval (tst (sho d) l p) (ELoad U8 (EGlobal "live_num")) = Ok (VInt (Z.of_nat (d_live d))).
Proof. intros d l p H. evs. rewrite mget_live. rewrite load_cell. rewrite wrap_U8_small by lia. reflexivity. Qed.

Lemma wrap_I64_b2z : forall b, wrap I64 (b2z b) = b2z b.
Proof. intros []; reflexivity. Qed.

Definition is_upd (st : nat) : bool := Nat.eqb st 1 || Nat.eqb st 0.
Definition iwait_pc (st : nat) : ipc := if is_upd st then I_Cmp else I_Asleep.
Definition iwait_evs (st : nat) : list event := if is_upd st then [(17, -1, Z.of_nat st)]%Z else [(11, 0, 0)]%Z.
Definition iwait_g (st : nat) (g : tghost) : tghost := if is_upd st then with_bu g [("loadstate", VInt 2)] else g.

Lemma M_io_wait_lock : forall ws d g,
  dwf c T d -> List.length ws = T ->
  let st := mb_st (nth (d_turn d) (d_bufs d) mb0) in
  exists n, (n <= 100)%nat /\ cstep prog vt n (cst I_WaitUpdate ws d g) 0 =
     Ok (cst (iwait_pc st) ws d (iwait_g st g), iwait_evs st).
Proof.
  intros ws d g Hd Lw st.
  destruct Hd as (Lb & Ln & Ht & Hlv & HT & Hc1 & Hc & Hb & Hn). destruct (Hb _ Ht) as (Hst & _). fold st in Hst.
  assert (Est : (st = 0 \/ st = 1 \/ st = 2 \/ st = 3)%nat) by lia.
  pose proof (fun l => rd_state c T pad input0 d _ l Ht Hst) as RD. fold st in RD.
  pose proof (fun l => rd_turn d l Ht ltac:(lia)) as RTu.
  unfold iwait_pc, iwait_evs, iwait_g, is_upd.
  destruct Est as [E|[E|[E|E]]]; rewrite E in *; cbn [Nat.eqb orb].
  all: start_io 100; mstepsL.
  - stop_io I_Cmp (with_bu g [("loadstate", VInt 2)]). reflexivity.
  - stop_io I_Cmp (with_bu g [("loadstate", VInt 2)]). reflexivity.
  - sleep_io I_Asleep g. reflexivity.
  - sleep_io I_Asleep g. reflexivity.
Qed.

Lemma M_io_wait_awake : forall ws d g,
  dwf c T d -> List.length ws = T ->
  let st := mb_st (nth (d_turn d) (d_bufs d) mb0) in
  exists n, (n <= 100)%nat /\ cstep prog vt n (cst I_Awake ws d g) 0 =
     Ok (cst (iwait_pc st) ws d (iwait_g st g), (12, 0, 0)%Z :: iwait_evs st).
Proof.
  intros ws d g Hd Lw st.
  destruct Hd as (Lb & Ln & Ht & Hlv & HT & Hc1 & Hc & Hb & Hn). destruct (Hb _ Ht) as (Hst & _). fold st in Hst.
  assert (Est : (st = 0 \/ st = 1 \/ st = 2 \/ st = 3)%nat) by lia.
  pose proof (fun l => rd_state c T pad input0 d _ l Ht Hst) as RD. fold st in RD.
  pose proof (fun l => rd_turn d l Ht ltac:(lia)) as RTu.
  unfold iwait_pc, iwait_evs, iwait_g, is_upd.
  destruct Est as [E|[E|[E|E]]]; rewrite E in *; cbn [Nat.eqb orb].
  all: start_io_awake 100; mstepsL.
  - stop_io I_Cmp (with_bu g [("loadstate", VInt 2)]). reflexivity.
  - stop_io I_Cmp (with_bu g [("loadstate", VInt 2)]). reflexivity.
  - sleep_io I_Asleep g. reflexivity.
  - sleep_io I_Asleep g. reflexivity.
Qed.

(* ---- I_Cmp: buffer_update up to the yield before export_buffer / load_buffer ---- *)
Lemma M_io_cmp : forall ws d g,
  dwf c T d -> List.length ws = T -> g_bu g = [("loadstate", VInt 2)] ->
  let t := d_turn d in
  let st := mb_st (nth t (d_bufs d) mb0) in
  exists n, (n <= 100)%nat /\ cstep prog vt n (cst I_Cmp ws d g) 0 =
     Ok (if Nat.eqb st 1
         then (cst I_Export ws d (with_bu g [("loadstate", VInt 2); ("$t1", VInt 1); ("$t2", VInt 1)]),
               [(3, Z.of_nat t, 1); (4, Z.of_nat t, 0)]%Z)
         else (cst I_Load ws d (with_bu g [("loadstate", VInt 2); ("$t1", VInt 0); ("$t2", VInt 0)]),
               [(3, Z.of_nat t, 0); (6, Z.of_nat t, b2z (d_over d))]%Z)).
Proof.
  intros ws d g Hd Lw Hg t st.
  destruct Hd as (Lb & Ln & Ht & Hlv & HT & Hc1 & Hc & Hb & Hn). destruct (Hb _ Ht) as (Hst & _). fold t st in Hst.
  assert (Est : (st = 0 \/ st = 1 \/ st = 2 \/ st = 3)%nat) by lia.
  pose proof (fun l => rd_state c T pad input0 d _ l Ht Hst) as RD. fold t st in RD.
  pose proof (fun l => rd_turn d l Ht ltac:(lia)) as RTu. pose proof (rd_over d) as RO. fold t in RTu.
  destruct Est as [E|[E|[E|E]]]; rewrite E in *; cbn [Nat.eqb].
  all: start_io 100; rewrite Hg; msteps; change (elem_pfx CT t) with (cpfx t); msteps; change (elem_pfx CT t) with (cpfx t); msteps;
    rewrite ?(wrap_I64_nat (Z.of_nat t)) by lia; rewrite ?wrap_I64_b2z.
  - stop_io I_Load (with_bu g [("loadstate", VInt 2); ("$t1", VInt 0); ("$t2", VInt 0)]). reflexivity.
  - stop_io I_Export (with_bu g [("loadstate", VInt 2); ("$t1", VInt 1); ("$t2", VInt 1)]). reflexivity.
  - stop_io I_Load (with_bu g [("loadstate", VInt 2); ("$t1", VInt 0); ("$t2", VInt 0)]). reflexivity.
  - stop_io I_Load (with_bu g [("loadstate", VInt 2); ("$t1", VInt 0); ("$t2", VInt 0)]). reflexivity.
Qed.


(* ---- I_SetReady: the critical section of set_ready, the return from buffer_update, turn_iter up to its yield ---- *)
Lemma M_io_setready : forall ws d g ls,
  dwf c T d -> List.length ws = T -> (Nat.eqb ls 2 = true -> (1 <= d_live d)%nat) ->
  let t := d_turn d in
  let nodata := Nat.eqb ls 2 in
  let st' := if nodata then 3%nat else 2%nat in
  let d1 := with_bufs d (upd_buf t (mb_with_st st') (d_bufs d)) in
  let d' := if nodata then with_live d1 (d_live d - 1) else d1 in
  exists n, (n <= 100)%nat /\ cstep prog vt n (cst (I_SetReady ls) ws d g) 0 =
     Ok (cst I_Turn (set_nth t (wake_w_pc (nth t ws W_Done)) ws) d' g, [(15, -1, Z.of_nat st')]%Z).
Proof.
  intros ws d g ls Hd Lw Hlive t nodata st' d1 d'.
  destruct Hd as (Lb & Ln & Ht & Hlv & HT & Hc1 & Hc & Hb & Hn). destruct (Hb _ Ht) as (Hst & _). fold t in Hst, Ht.
  pose proof (fun l => rd_live d l (cpfx t) Hlv) as RL.
  subst d' d1 st' nodata. destruct (Nat.eqb ls 2) eqn:E.
  - specialize (Hlive eq_refl). start_io 100. rewrite E. msteps.
    mstep; [rewrite mget_st by exact Ht; reflexivity | apply store_cell | ].
    erewrite (sho_mset _ _ _ _ d); [ | change (wrap U32 3) with (Z.of_nat 3); apply mset_st; assumption | reflexivity].
    msteps.
    set (d1 := with_bufs d (upd_buf t (mb_with_st 3) (d_bufs d))).
    pose proof (fun l => rd_live d1 l (cpfx t) Hlv) as RL1. cbn [d1 with_bufs d_live] in RL1. clear RL.
    assert (RL2 : forall l, eval (tst (sho d1) l (cpfx t)) (ECast I32 (ELoad U8 (EGlobal "live_num"))) = Ok (VInt (Z.of_nat (d_live d)))).
    { intros l. erewrite ev_cast by apply RL1. rewrite wrap_I32_small by lia. reflexivity. }
    mstep; [apply mget_live | apply store_cell | ]. cbn [d1 with_bufs d_live].
    rewrite !(wrap_U8_small (Z.of_nat (d_live d) - 1)) by lia.
    replace (Z.of_nat (d_live d) - 1)%Z with (Z.of_nat (d_live d - 1)) by lia.
    erewrite (sho_mset _ _ _ _ d1); [ | apply mset_live | reflexivity].
    msteps. rewrite wake_all_ready by assumption.
    assert (RD : forall l, eval (tst (sho (with_live d1 (d_live d - 1))) l (cpfx t)) (ELoad U32 (EField "state")) = Ok (VInt 3)).
    { intros l. rewrite rd_state; cbn [d1 with_live with_bufs d_bufs]; rewrite ?nth_upd_buf_same by lia; cbn [mb_with_st mb_st]; try lia. reflexivity. }
    msteps. stop_io I_Turn g. reflexivity.
  - start_io 100. rewrite E. msteps.
    mstep; [rewrite mget_st by exact Ht; reflexivity | apply store_cell | ].
    erewrite (sho_mset _ _ _ _ d); [ | change (wrap U32 2) with (Z.of_nat 2); apply mset_st; assumption | reflexivity].
    msteps. rewrite wake_all_ready by assumption.
    set (d1 := with_bufs d (upd_buf t (mb_with_st 2) (d_bufs d))).
    assert (RD : forall l, eval (tst (sho d1) l (cpfx t)) (ELoad U32 (EField "state")) = Ok (VInt 2)).
    { intros l. rewrite rd_state; cbn [d1 with_live with_bufs d_bufs]; rewrite ?nth_upd_buf_same by lia; cbn [mb_with_st mb_st]; try lia. reflexivity. }
    msteps. stop_io I_Turn g. reflexivity.
Qed.

End I.
