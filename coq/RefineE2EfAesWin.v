(* Stage 5: the block operations of aes.cpp / aesmode.cpp on a block that is a WINDOW of a larger byte array
   (the worker's iobuffer::b, at offset 16 * (r - 1)): getXor, runaes_128bit, the 16-byte memcpy out of the window. *)
From Coq Require Import ZArith NArith List String Bool Lia.
From Wencry Require Import Bytes AesModel ModesModel MiniC MiniCRun MiniCLemmas SrcRun AesProofs
     RefineAesLib RefineAesOps RefineAesKey RefineAes RefineModesOps.
From Wencry Require ModesProofs.
From Wencry.Gen Require Import AesTab AesCoef.
From Wencry.Gen Require Src_aes Src_aesmode.
Import ListNotations.
Local Open Scope Z_scope.
Local Open Scope string_scope.

Local Notation P := aes_prog.

(* ---------------- wide accesses relative to an abstract prefix ---------------- *)
Lemma upd_range_app2 : forall bs A L n, upd_range (List.length A + n) bs (A ++ L) = (A ++ upd_range n bs L)%list.
Proof.
  induction bs as [|b bs IH]; intros A L n; cbn [upd_range]; [reflexivity|].
  rewrite upd_nth_app2. replace (S (List.length A + n)) with (List.length A + S n)%nat by lia. apply IH.
Qed.
Lemma skipn_app2 : forall (A L : list Z) n, skipn (List.length A + n) (A ++ L) = skipn n L.
Proof. induction A as [|a A IH]; intros L n; cbn [List.length Nat.add app skipn]; [reflexivity|apply IH]. Qed.
Lemma slice_app2 : forall (A L : list Z) n w, slice (List.length A + n) w (A ++ L) = slice n w L.
Proof. intros. unfold slice. now rewrite skipn_app2. Qed.
Lemma load_wide_rel : forall A L t off k,
  ity_bytes t <> 1 -> off = Z.of_nat (List.length A) + k -> 0 <= k -> k + ity_bytes t <= Z.of_nat (List.length L) ->
  load_obj (bobj (A ++ L)) t off = Ok (wrap t (le_val (slice (Z.to_nat k) (Z.to_nat (ity_bytes t)) L))).
Proof.
  intros A L t off k Hw -> H0 H. rewrite load_wide by (try assumption; rewrite ?app_length; lia). do 3 f_equal.
  replace (Z.to_nat (Z.of_nat (List.length A) + k)) with (List.length A + Z.to_nat k)%nat by lia. apply slice_app2.
Qed.
Lemma store_wide_rel : forall A L t off k v bs,
  ity_bytes t <> 1 -> off = Z.of_nat (List.length A) + k -> 0 <= k -> k + ity_bytes t <= Z.of_nat (List.length L) ->
  le_bytes (Z.to_nat (ity_bytes t)) (wrap t v mod 2 ^ (8 * ity_bytes t)) = bs ->
  store_obj (bobj (A ++ L)) t off v = Ok (bobj (A ++ upd_range (Z.to_nat k) bs L)).
Proof.
  intros A L t off k v bs Hw -> H0 H Hb. rewrite (store_wide _ _ _ _ bs) by (try assumption; rewrite ?app_length; lia). do 2 f_equal.
  replace (Z.to_nat (Z.of_nat (List.length A) + k)) with (List.length A + Z.to_nat k)%nat by lia. apply upd_range_app2.
Qed.

(* the tactics of RefineAesLib / RefineModesOps, with the relative wide accesses added *)
Ltac load_tac ::=
  obj_norm;
  lazymatch goal with
  | |- load_obj (bobj (?A ++ ?L)) U8 ?off = _ =>
      let K := rel_K off (Z.of_nat (List.length A)) in
      rewrite (load_u8_rel A L off K) by (first [lia | cbn [List.length]; lia]); list_norm; wrap_lit_norm; reflexivity
  | |- load_obj (bobj (?A ++ ?L)) ?t ?off = _ =>
      let K := rel_K off (Z.of_nat (List.length A)) in
      rewrite (load_wide_rel A L t off K) by (first [ (let HH := fresh in intro HH; vm_compute in HH; discriminate HH) | lia | cbn [List.length]; ity_norm; lia]);
      ity_norm; list_norm; reflexivity
  | |- load_obj (bobj _) U8 _ = _ => rewrite load_u8 by (list_norm; range_tac); list_norm; wrap_lit_norm; reflexivity
  | |- load_obj (bobj _) ?t _ = _ =>
      rewrite load_wide by (first [ (let HH := fresh in intro HH; vm_compute in HH; discriminate HH) | list_norm; ity_norm; range_tac]);
      ity_norm; list_norm; reflexivity
  end.
Ltac store_tac ::=
  obj_norm;
  lazymatch goal with
  | |- store_obj (bobj (?A ++ ?L)) U8 ?off _ = _ =>
      let K := rel_K off (Z.of_nat (List.length A)) in
      rewrite (store_u8_rel A L off K) by (first [lia | cbn [List.length]; lia]); list_norm; wrap_lit_norm; reflexivity
  | |- store_obj (bobj (?A ++ ?L)) ?t ?off _ = _ =>
      let K := rel_K off (Z.of_nat (List.length A)) in
      eapply (store_wide_rel A L t off K);
        [ (let HH := fresh in intro HH; vm_compute in HH; discriminate HH) | lia | lia | cbn [List.length]; ity_norm; lia
        | ity_norm; list_norm; store_hook ]
  | |- store_obj (bobj _) U8 _ _ = _ => rewrite store_u8 by (list_norm; range_tac); list_norm; wrap_lit_norm; reflexivity
  | |- store_obj (bobj _) ?t _ _ = _ =>
      eapply store_wide; [ (let HH := fresh in intro HH; vm_compute in HH; discriminate HH) | list_norm; ity_norm; range_tac
                         | list_norm; ity_norm; range_tac
                         | ity_norm; list_norm; store_hook ]
  end.

(* ---------------- getXor(block window, mask) ---------------- *)
Lemma getXor_win : forall vt s pfx fuel ox om A bx Zt bm r,
  (20 <= fuel)%nat -> ox <> om -> Z.of_nat (List.length A) = 16 * (r - 1) ->
  mget (mem s) ox = Some (bobj (A ++ map Z.of_N bx ++ Zt)) -> block16 bx ->
  mget (mem s) om = Some (bytes_object bm) -> block16 bm ->
  call P vt fuel "Aesmode::getXor/2" pfx [VPtr ox (16 * (r - 1)); VPtr om 0] s
  = Ok (None, with_mem s (mset (mem s) ox (bobj (A ++ map Z.of_N (xorl bx bm) ++ Zt)))).
Proof.
  intros vt s pfx fuel ox om A bx Zt bm r Hf Hne HA Hx Bx Hm Bm.
  eapply call_mono; [|exact Hf].
  revert Hx. blk bx Bx. intros Hx. revert Hm. blk bm Bm. intros Hm.
  cbn [map app] in Hx.
  eapply call_normal; [reflexivity | reflexivity | | | | | ].
  - cbn [f_body Src_aesmode.f_Aesmode_getXor_2]. xs.
  - reflexivity.
  - reflexivity.
  - reflexivity.
  - st_norm. reflexivity.
Qed.

(* ---------------- runaes_128bit on a block window ---------------- *)
Ltac store_hook ::=
  first [ lazymatch goal with
          | |- le_bytes 4 (wrap U32 (wrap U32 (Z.lxor (wrap U32 (le_val ?la)) (wrap U32 (le_val ?lb)))) mod _) = _ =>
              let a := unB la in let b := unB lb in
              exact (xor32 a b eq_refl eq_refl ltac:(bytes_tac) ltac:(bytes_tac))
          end
        | (rewrite ?map_nth_B; rewrite ?wrap_U8_B by first [assumption | apply block16_nth_lt; assumption];
           apply pack4; first [assumption | apply block16_nth_lt; assumption]) ].

Lemma enc_runaes_win : forall vt s p fuel o A blk Zt r wc kc ks,
  (150 <= fuel)%nat -> tabs_ok (mem s) ->
  ~ is_tab (p ++ "w") -> ~ is_tab o -> p ++ "w" <> o -> p ++ "w" <> (p ++ "key.") ++ "key" -> o <> (p ++ "key.") ++ "key" ->
  mget (mem s) (p ++ "w") = Some (bobj wc) -> List.length wc = 16%nat ->
  mget (mem s) ((p ++ "key.") ++ "key") = Some (bobj kc) -> kc = concat (map (map Z.of_N) ks) ->
  List.length ks = 11%nat -> Forall block16 ks ->
  Z.of_nat (List.length A) = 16 * (r - 1) ->
  mget (mem s) o = Some (bobj (A ++ map Z.of_N blk ++ Zt)) -> block16 blk ->
  call P vt fuel "encryaes::runaes_128bit/1" p [VPtr o (16 * (r - 1))] s
  = Ok (None, with_mem s (mset (mset (mem s) (p ++ "w") (bytes_object (enc_state ks blk))) o (bobj (A ++ map Z.of_N (aes_enc_with ks blk) ++ Zt)))).
Proof.
  intros vt s p fuel o A blk Zt r wc kc ks Hf Ht Hntw Hnto Hwo Hwk Hok Hw Hlw Hk Ekc Hlks Bks HA Ho Bb.
  eapply call_mono; [|exact Hf].
  assert (Hkat : forall i, (i < 11)%nat -> firstn 16 (skipn (16 * i) kc) = map Z.of_N (nth i ks [])).
  { intros i Hi. subst kc. apply key_at; [assumption | lia]. }
  assert (Hkb : forall i, (i < 11)%nat -> block16 (nth i ks [])).
  { intros i Hi. apply block16_nth; [assumption | lia]. }
  assert (Hlkc : List.length kc = 176%nat) by (subst kc; rewrite concat_len by assumption; lia).
  clear Ekc.
  do 16 (destruct wc as [|? wc]; [discriminate Hlw|]). destruct wc; [|discriminate Hlw]. clear Hlw.
  revert Ho. pose proof Bb as Bb'. revert Bb'. blk blk Bb. intros Bb' Ho. cbn [map app] in Ho.
  set (W0 := transpose [v0; v1; v2; v3; v4; v5; v6; v7; v8; v9; v10; v11; v12; v13; v14; v15]).
  assert (BW0 : block16 W0) by (apply transpose_block'; assumption).
  eapply call_normal; [reflexivity | reflexivity | | | | | ].
  - cbn [f_body Src_aes.f_encryaes_runaes_128bit_1].
    eapply x_seq; [xs|]. eapply x_seq; [xs|]. eapply x_seq; [xs|]. st_norm.
    match goal with |- context [mset _ _ (bobj (?x :: ?l))] => change (bobj (x :: l)) with (bytes_object W0) end.
    assert (EW0 : W0 = transpose [v0; v1; v2; v3; v4; v5; v6; v7; v8; v9; v10; v11; v12; v13; v14; v15]) by reflexivity.
    clearbody W0.
    eapply x_seq.
    { do 9 enc_iter vt. st_norm. eapply x_loop_end. solve [ev]. }
    eapply x_seq; [get_key_call vt|]. eapply x_seq; [get_key_call vt|].
    eapply x_seq; [st_norm; zlit_norm; xcall (enc_specround_spec vt)|].
    st_norm.
    match goal with |- context [mset _ (p ++ "w") (bytes_object ?Wf)] =>
      assert (BWf : block16 Wf) by blocks_tac;
      assert (LWf : List.length (map Z.of_N Wf) = 16%nat) by (rewrite map_length; apply block16_length; exact BWf) end.
    xs.
  - reflexivity.
  - reflexivity.
  - reflexivity.
  - st_norm. rewrite aes_enc_with_state, enc_state_unfold. subst W0.
    unfold bytes_object, transpose at 1, mperm at 1. cbn [map app]. reflexivity.
Qed.

Lemma dec_runaes_win : forall vt s p fuel o A blk Zt r wc kc ks,
  (150 <= fuel)%nat -> tabs_ok (mem s) ->
  ~ is_tab (p ++ "w") -> ~ is_tab o -> p ++ "w" <> o -> p ++ "w" <> (p ++ "key.") ++ "key" -> o <> (p ++ "key.") ++ "key" ->
  mget (mem s) (p ++ "w") = Some (bobj wc) -> List.length wc = 16%nat ->
  mget (mem s) ((p ++ "key.") ++ "key") = Some (bobj kc) -> kc = concat (map (map Z.of_N) ks) ->
  List.length ks = 11%nat -> Forall block16 ks ->
  Z.of_nat (List.length A) = 16 * (r - 1) ->
  mget (mem s) o = Some (bobj (A ++ map Z.of_N blk ++ Zt)) -> block16 blk ->
  call P vt fuel "decryaes::runaes_128bit/1" p [VPtr o (16 * (r - 1))] s
  = Ok (None, with_mem s (mset (mset (mem s) (p ++ "w") (bytes_object (dec_state ks blk))) o (bobj (A ++ map Z.of_N (aes_dec_with ks blk) ++ Zt)))).
Proof.
  intros vt s p fuel o A blk Zt r wc kc ks Hf Ht Hntw Hnto Hwo Hwk Hok Hw Hlw Hk Ekc Hlks Bks HA Ho Bb.
  eapply call_mono; [|exact Hf].
  assert (Hkat : forall i, (i < 11)%nat -> firstn 16 (skipn (16 * i) kc) = map Z.of_N (nth i ks [])).
  { intros i Hi. subst kc. apply key_at; [assumption | lia]. }
  assert (Hkb : forall i, (i < 11)%nat -> block16 (nth i ks [])).
  { intros i Hi. apply block16_nth; [assumption | lia]. }
  assert (Hlkc : List.length kc = 176%nat) by (subst kc; rewrite concat_len by assumption; lia).
  clear Ekc.
  do 16 (destruct wc as [|? wc]; [discriminate Hlw|]). destruct wc; [|discriminate Hlw]. clear Hlw.
  revert Ho. pose proof Bb as Bb'. revert Bb'. blk blk Bb. intros Bb' Ho. cbn [map app] in Ho.
  set (W0 := transpose [v0; v1; v2; v3; v4; v5; v6; v7; v8; v9; v10; v11; v12; v13; v14; v15]).
  assert (BW0 : block16 W0) by (apply transpose_block'; assumption).
  eapply call_normal; [reflexivity | reflexivity | | | | | ].
  - cbn [f_body Src_aes.f_decryaes_runaes_128bit_1].
    eapply x_seq; [xs|]. eapply x_seq; [xs|]. st_norm.
    match goal with |- context [mset _ _ (bobj (?x :: ?l))] => change (bobj (x :: l)) with (bytes_object W0) end.
    assert (EW0 : W0 = transpose [v0; v1; v2; v3; v4; v5; v6; v7; v8; v9; v10; v11; v12; v13; v14; v15]) by reflexivity.
    clearbody W0.
    eapply x_seq; [get_key_call vt|]. eapply x_seq; [get_key_call vt|].
    eapply x_seq; [st_norm; zlit_norm; xcall (dec_specround_spec vt)|].
    eapply x_seq; [xs|].
    eapply x_seq.
    { do 9 dec_iter vt. st_norm. eapply x_loop_end. solve [ev]. }
    st_norm.
    match goal with |- context [mset _ (p ++ "w") (bytes_object ?Wf)] =>
      assert (BWf : block16 Wf) by blocks_tac;
      assert (LWf : List.length (map Z.of_N Wf) = 16%nat) by (rewrite map_length; apply block16_length; exact BWf) end.
    xs.
  - reflexivity.
  - reflexivity.
  - reflexivity.
  - st_norm. rewrite aes_dec_with_state, dec_state_unfold. subst W0.
    unfold bytes_object, transpose at 1, mperm at 1. cbn [map app]. reflexivity.
Qed.

(* ---------------- the 16-byte memcpy out of the window ---------------- *)
Lemma firstn_app_exact16 : forall (b : list Z) Zt, List.length b = 16%nat -> firstn 16 (b ++ Zt) = b.
Proof. intros b Zt H. rewrite <- H. rewrite firstn_app, Nat.sub_diag, firstn_O, app_nil_r. apply firstn_all. Qed.
Lemma x_memcpy16_from_win : forall vt f d sr s od os A src Zt r dst,
  eval s d = Ok (VPtr od 0) -> eval s sr = Ok (VPtr os (16 * (r - 1))) ->
  mget (mem s) od = Some (bobj dst) -> List.length dst = 16%nat ->
  Z.of_nat (List.length A) = 16 * (r - 1) ->
  mget (mem s) os = Some (bobj (A ++ map Z.of_N src ++ Zt)) -> block16 src ->
  exec P vt (S f) (SMemcpy d sr (ECast U64 (EConst 16))) s
  = Ok (Normal, with_mem s (mset (mem s) od (bytes_object src))).
Proof.
  intros vt f d sr s od os A src Zt r dst Hd Hs Hod Hld HA Hos Bs.
  eapply x_memcpy; [exact Hd | exact Hs | reflexivity |].
  change (wrap U64 16) with 16.
  assert (Ls : List.length (map Z.of_N src) = 16%nat) by (rewrite map_length; apply (block16_length _ Bs)).
  rewrite (memcpy_u8 s od 0 os (16 * (r - 1)) 16 dst (A ++ map Z.of_N src ++ Zt)); try lia; try assumption.
  - change (Z.to_nat 0) with 0%nat. change (Z.to_nat 16) with 16%nat.
    replace (Z.to_nat (16 * (r - 1))) with (List.length A + 0)%nat by lia. rewrite slice_app2.
    replace (slice 0 16 (map Z.of_N src ++ Zt)) with (slice 0 16 (map Z.of_N src))
      by (unfold slice; cbn [skipn]; rewrite firstn_app_exact16 by exact Ls; apply firstn_all2; lia).
    rewrite memcpy16 by assumption. reflexivity.
  - rewrite !app_length, Ls. lia.
Qed.
