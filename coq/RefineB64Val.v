(* is_valid_b64 (translated) = Base64Model.is_valid_b64 *)
From Coq Require Import ZArith NArith List String Bool Lia.
From Wencry Require Import Bytes Base64Model Base64Proofs MiniC MiniCRun MiniCLemmas SrcRun RefineB64Lib.
From Wencry.Gen Require Import B64Tab.
From Wencry.Gen Require Src_base64.
Import ListNotations.
Local Open Scope Z_scope.
Local Open Scope string_scope.
Local Open Scope list_scope.

Local Ltac Zify.zify_post_hook ::= Z.to_euclidean_division_equations.

Definition val_st (text : list N) (n i tail : Z) (extra : list (string * value)) : state :=
  {| mem := [("b64_tab", Src_base64.g_b64_tab); ("hex_tab", Src_base64.g_hex_tab); ("in", bytes_object text)];
     loc := [("base64_in", VPtr "in" 0); ("len", VInt n); ("tail", VInt tail); ("i", VInt i)] ++ extra;
     pre := ""; files := []; ptrs := []; fresh := 0 |}.
Definition vextra_ok (extra : list (string * value)) : Prop :=
  extra = [] \/ (exists a, extra = [("$t2", VInt a)]) \/ (exists a b, extra = [("$t2", VInt a); ("$t1", VInt b)]).

Definition val_loop : stmt :=
  match f_body Src_base64.f_is_valid_b64_2 with
  | SSeq _ (SSeq _ (SSeq _ (SSeq l _))) => l
  | _ => SSkip
  end.
Definition val_body : stmt := match val_loop with SLoop _ b _ => b | _ => SSkip end.

Lemma val_body_pad : forall text n done rest t extra,
  text = done ++ 61%N :: rest -> bytesb text = true -> (t < 3)%N -> vextra_ok extra ->
  if (3 <=? t + 1)%N
  then exists s', exec b64_prog [] 40 val_body (val_st text n (Z.of_nat (List.length done)) (Z.of_N t) extra)
                  = Ok (Returned (Some (VInt 0)), s')
  else exists extra', vextra_ok extra' /\
       exec b64_prog [] 40 val_body (val_st text n (Z.of_nat (List.length done)) (Z.of_N t) extra)
       = Ok (Normal, val_st text n (Z.of_nat (List.length done)) (Z.of_N (t + 1)) extra').
Proof.
  intros text n done rest t extra Hd Hb Ht Hex.
  pose proof (load_mid done 61%N rest) as Hl. rewrite <- Hd in Hl. specialize (Hl Hb). change (Z.of_N 61) with 61 in Hl.
  unfold val_body, val_loop. cbn [f_body Src_base64.f_is_valid_b64_2]. unfold val_st.
  assert (Ht3 : t = 0%N \/ t = 1%N \/ t = 2%N) by lia.
  destruct Ht3 as [-> | [-> | ->]]; cbn [N.leb N.add N.compare Pos.compare Pos.compare_cont Pos.add Pos.succ].
  - destruct Hex as [-> | [(ea & ->) | (ea & eb & ->)]].
    1: exists [("$t2", VInt 0)]. 2: exists [("$t2", VInt 0)]. 3: exists [("$t2", VInt 0); ("$t1", VInt eb)].
    all: (split; [unfold vextra_ok; eauto|]).
    all: (eapply x_seq; [eapply x_set; [evr ltac:(rewrite Hl); reflexivity|stnorm]|]).
    all: (eapply x_seq; [eapply x_if_false; [evr fail; reflexivity|reflexivity]|]).
    all: (eapply x_if_false; [evr fail; reflexivity|]).
    all: (eapply x_if_true; [evr ltac:(rewrite Hl); reflexivity|discriminate|]).
    all: (eapply x_seq; [set_step|]).
    all: (eapply x_if_false; [evr fail; reflexivity|]).
    all: reflexivity.
  - destruct Hex as [-> | [(ea & ->) | (ea & eb & ->)]].
    1: exists [("$t2", VInt 0)]. 2: exists [("$t2", VInt 0)]. 3: exists [("$t2", VInt 0); ("$t1", VInt eb)].
    all: (split; [unfold vextra_ok; eauto|]).
    all: (eapply x_seq; [eapply x_set; [evr ltac:(rewrite Hl); reflexivity|stnorm]|]).
    all: (eapply x_seq; [eapply x_if_false; [evr fail; reflexivity|reflexivity]|]).
    all: (eapply x_if_false; [evr fail; reflexivity|]).
    all: (eapply x_if_true; [evr ltac:(rewrite Hl); reflexivity|discriminate|]).
    all: (eapply x_seq; [set_step|]).
    all: (eapply x_if_false; [evr fail; reflexivity|]).
    all: reflexivity.
  - destruct Hex as [-> | [(ea & ->) | (ea & eb & ->)]].
    all: eexists.
    all: (eapply x_seq; [eapply x_set; [evr ltac:(rewrite Hl); reflexivity|stnorm]|]).
    all: (eapply x_seq; [eapply x_if_false; [evr fail; reflexivity|reflexivity]|]).
    all: (eapply x_if_false; [evr fail; reflexivity|]).
    all: (eapply x_if_true; [evr ltac:(rewrite Hl); reflexivity|discriminate|]).
    all: (eapply x_seq; [set_step|]).
    all: (eapply x_if_true; [evr fail; reflexivity|discriminate|]).
    all: (eapply x_return; evr fail; reflexivity).
Qed.

Ltac val_prefix Hl Hc Hc61 Hisb :=
  (eapply x_seq; [eapply x_set; [evr ltac:(first [rewrite Hl | rewrite Hc61]); reflexivity|stnorm]|]);
  (eapply x_seq;
    [ eapply x_if_true; [evr fail; reflexivity|discriminate|];
      eapply x_seq;
      [ eapply x_is_base64; [evr ltac:(rewrite Hl); reflexivity | exact Hc | rewrite Hisb; stnorm]
      | set_step ]
    |]).

Lemma val_body_bad : forall text n done c rest t extra,
  text = done ++ c :: rest -> bytesb text = true -> c <> 61%N -> is_base64 c = false -> vextra_ok extra ->
  exists s', exec b64_prog [] 40 val_body (val_st text n (Z.of_nat (List.length done)) t extra)
             = Ok (Returned (Some (VInt 0)), s').
Proof.
  intros text n done c rest t extra Hd Hb Hne Hisb Hex.
  assert (Hc : (c < 256)%N) by (subst text; eapply bytes_mid; eauto).
  assert (Hc61 : (Z.of_N c =? 61)%Z = false) by (apply Z.eqb_neq; lia).
  pose proof (load_mid done c rest) as Hl. rewrite <- Hd in Hl. specialize (Hl Hb).
  unfold val_body, val_loop. cbn [f_body Src_base64.f_is_valid_b64_2]. unfold val_st.
  destruct Hex as [-> | [(ea & ->) | (ea & eb & ->)]].
  all: eexists.
  all: val_prefix Hl Hc Hc61 Hisb.
  all: (eapply x_if_true; [evr fail; reflexivity|discriminate|]).
  all: (eapply x_return; evr fail; reflexivity).
Qed.

Lemma val_body_good : forall text n done c rest t extra,
  text = done ++ c :: rest -> bytesb text = true -> c <> 61%N -> is_base64 c = true -> (t < 3)%N -> vextra_ok extra ->
  if (t =? 0)%N
  then exists extra', vextra_ok extra' /\
       exec b64_prog [] 40 val_body (val_st text n (Z.of_nat (List.length done)) (Z.of_N t) extra)
       = Ok (Normal, val_st text n (Z.of_nat (List.length done)) (Z.of_N t) extra')
  else exists s', exec b64_prog [] 40 val_body (val_st text n (Z.of_nat (List.length done)) (Z.of_N t) extra)
                  = Ok (Returned (Some (VInt 0)), s').
Proof.
  intros text n done c rest t extra Hd Hb Hne Hisb Ht Hex.
  assert (Hc : (c < 256)%N) by (subst text; eapply bytes_mid; eauto).
  assert (Hc61 : (Z.of_N c =? 61)%Z = false) by (apply Z.eqb_neq; lia).
  pose proof (load_mid done c rest) as Hl. rewrite <- Hd in Hl. specialize (Hl Hb).
  unfold val_body, val_loop. cbn [f_body Src_base64.f_is_valid_b64_2]. unfold val_st.
  assert (Ht3 : t = 0%N \/ t = 1%N \/ t = 2%N) by lia.
  destruct Ht3 as [-> | [-> | ->]]; cbn [N.eqb Pos.eqb].
  - exists [("$t2", VInt 0); ("$t1", VInt 1)]. split; [unfold vextra_ok; eauto|].
    destruct Hex as [-> | [(ea & ->) | (ea & eb & ->)]].
    all: val_prefix Hl Hc Hc61 Hisb.
    all: (eapply x_if_false; [evr fail; reflexivity|]).
    all: (eapply x_if_false; [evr ltac:(first [rewrite Hl | rewrite Hc61]); reflexivity|]).
    all: (eapply x_if_false; [evr fail; reflexivity|]).
    all: reflexivity.
  - destruct Hex as [-> | [(ea & ->) | (ea & eb & ->)]].
    all: eexists.
    all: val_prefix Hl Hc Hc61 Hisb.
    all: (eapply x_if_false; [evr fail; reflexivity|]).
    all: (eapply x_if_false; [evr ltac:(first [rewrite Hl | rewrite Hc61]); reflexivity|]).
    all: (eapply x_if_true; [evr fail; reflexivity|discriminate|]).
    all: (eapply x_return; evr fail; reflexivity).
  - destruct Hex as [-> | [(ea & ->) | (ea & eb & ->)]].
    all: eexists.
    all: val_prefix Hl Hc Hc61 Hisb.
    all: (eapply x_if_false; [evr fail; reflexivity|]).
    all: (eapply x_if_false; [evr ltac:(first [rewrite Hl | rewrite Hc61]); reflexivity|]).
    all: (eapply x_if_true; [evr fail; reflexivity|discriminate|]).
    all: (eapply x_return; evr fail; reflexivity).
Qed.

Definition val_st0 (text : list N) (n : Z) : state :=
  {| mem := [("b64_tab", Src_base64.g_b64_tab); ("hex_tab", Src_base64.g_hex_tab); ("in", bytes_object text)];
     loc := [("base64_in", VPtr "in" 0); ("len", VInt n)];
     pre := ""; files := []; ptrs := []; fresh := 0 |}.

Section Valid.
Variable text : list N.
Variable n : Z.
Hypothesis Hb : bytesb text = true.
Hypothesis Hn : n = Z.of_nat (List.length text).
Hypothesis Hlen : n < 2 ^ 31.

Lemma val_loop_ok : forall rest done t extra fuel,
  text = done ++ rest -> (t < 3)%N -> vextra_ok extra -> (40 + List.length rest <= fuel)%nat ->
  match fold_left valid_step rest (Some t) with
  | None => exists s', exec b64_prog [] (S fuel) val_loop (val_st text n (Z.of_nat (List.length done)) (Z.of_N t) extra)
                       = Ok (Returned (Some (VInt 0)), s')
  | Some t' => (t' < 3)%N /\ exists extra',
               exec b64_prog [] (S fuel) val_loop (val_st text n (Z.of_nat (List.length done)) (Z.of_N t) extra)
               = Ok (Normal, val_st text n n (Z.of_N t') extra')
  end.
Proof.
  induction rest as [|c rest IH]; intros done t extra fuel Hd Ht Hex Hf.
  - cbn [fold_left]. split; [exact Ht|]. exists extra.
    rewrite app_nil_r in Hd. subst done. rewrite <- Hn.
    unfold val_loop. cbn [f_body Src_base64.f_is_valid_b64_2].
    eapply x_loop_end. unfold val_st. evr fail. rewrite Z.ltb_irrefl. reflexivity.
  - cbn [fold_left].
    assert (Hd1 : text = (done ++ [c]) ++ rest) by (rewrite <- app_assoc; exact Hd).
    assert (Hl1 : List.length (done ++ [c]) = S (List.length done)) by (rewrite app_length; cbn; lia).
    assert (Hdl : List.length text = (List.length done + S (List.length rest))%nat) by (rewrite Hd, app_length; reflexivity).
    destruct fuel as [|fuel]; [cbn in Hf; lia|].
    assert (Hf' : (40 + List.length rest <= fuel)%nat) by (cbn [List.length] in Hf; lia).
    assert (Hcond : eval (val_st text n (Z.of_nat (List.length done)) (Z.of_N t) extra)
                      (EBin TBool Lt (EVar "i") (EVar "len")) = Ok (VInt 1)).
    { unfold val_st. evr fail. destruct (Z.of_nat (List.length done) <? n)%Z eqn:E; [reflexivity|]. apply Z.ltb_ge in E. lia. }
    assert (Hstep : forall t1 extra1,
      exec b64_prog [] (S fuel) (SSet "i" (EBin I32 Add (EVar "i") (EConst 1)))
        (val_st text n (Z.of_nat (List.length done)) t1 extra1)
      = Ok (Normal, val_st text n (Z.of_nat (List.length (done ++ [c]))) t1 extra1)).
    { intros t1 extra1. unfold val_st. eapply x_set; [evr fail; reflexivity|].
      rewrite Hl1. replace (Z.of_nat (S (List.length done))) with (Z.of_nat (List.length done) + 1) by lia. stnorm. }
    (* one continuing iteration followed by the induction hypothesis *)
    assert (Hcont : forall t1 extra1, (t1 < 3)%N -> vextra_ok extra1 ->
      exec b64_prog [] 40 val_body (val_st text n (Z.of_nat (List.length done)) (Z.of_N t) extra)
        = Ok (Normal, val_st text n (Z.of_nat (List.length done)) (Z.of_N t1) extra1) ->
      match fold_left valid_step rest (Some t1) with
      | None => exists s', exec b64_prog [] (S (S fuel)) val_loop (val_st text n (Z.of_nat (List.length done)) (Z.of_N t) extra)
                           = Ok (Returned (Some (VInt 0)), s')
      | Some t' => (t' < 3)%N /\ exists extra',
                   exec b64_prog [] (S (S fuel)) val_loop (val_st text n (Z.of_nat (List.length done)) (Z.of_N t) extra)
                   = Ok (Normal, val_st text n n (Z.of_N t') extra')
      end).
    { intros t1 extra1 Ht1 Hex1 Hbody.
      pose proof (IH (done ++ [c]) t1 extra1 fuel Hd1 Ht1 Hex1 Hf') as HI.
      destruct (fold_left valid_step rest (Some t1)) as [t'|].
      - destruct HI as [Ht' [extra' HI]]. split; [exact Ht'|]. exists extra'.
        unfold val_loop in *. cbn [f_body Src_base64.f_is_valid_b64_2] in *.
        eapply x_loop_iter; [exact Hcond | discriminate | eapply exec_mono; [exact Hbody|lia] | apply Hstep | exact HI].
      - destruct HI as [s' HI]. exists s'.
        unfold val_loop in *. cbn [f_body Src_base64.f_is_valid_b64_2] in *.
        eapply x_loop_iter; [exact Hcond | discriminate | eapply exec_mono; [exact Hbody|lia] | apply Hstep | exact HI]. }
    assert (Hstop : forall s', 
      exec b64_prog [] 40 val_body (val_st text n (Z.of_nat (List.length done)) (Z.of_N t) extra)
        = Ok (Returned (Some (VInt 0)), s') ->
      exec b64_prog [] (S (S fuel)) val_loop (val_st text n (Z.of_nat (List.length done)) (Z.of_N t) extra)
        = Ok (Returned (Some (VInt 0)), s')).
    { intros s' Hbody. unfold val_loop in *. cbn [f_body Src_base64.f_is_valid_b64_2] in *.
      eapply x_loop_ret; [exact Hcond | discriminate | eapply exec_mono; [exact Hbody|lia]]. }
    unfold valid_step at 2.
    destruct (N.eqb_spec c 61) as [->|Hne].
    + change (negb true && negb (is_base64 61)) with false. cbv iota.
      pose proof (val_body_pad text n done rest t extra Hd Hb Ht Hex) as HB.
      destruct (3 <=? t + 1)%N eqn:E3.
      * rewrite valid_fold_none. destruct HB as [s' HB]. exists s'. apply Hstop, HB.
      * destruct HB as (extra1 & Hex1 & HB). apply N.leb_gt in E3.
        apply (Hcont (t + 1)%N extra1 E3 Hex1 HB).
    + cbn [negb andb].
      destruct (is_base64 c) eqn:Hisb; cbn [negb].
      * pose proof (val_body_good text n done c rest t extra Hd Hb Hne Hisb Ht Hex) as HB.
        destruct (t =? 0)%N eqn:E0; cbn [negb].
        -- destruct HB as (extra1 & Hex1 & HB). apply (Hcont t extra1 Ht Hex1 HB).
        -- rewrite valid_fold_none. destruct HB as [s' HB]. exists s'. apply Hstop, HB.
      * rewrite valid_fold_none.
        destruct (val_body_bad text n done c rest (Z.of_N t) extra Hd Hb Hne Hisb Hex) as [s' HB].
        exists s'. apply Hstop, HB.
Qed.
End Valid.

Lemma SRC_b64_valid_proof : forall text,
  bytesb text = true -> (N.of_nat (List.length text) < 2 ^ 31)%N ->
  src_b64_valid text = SOk (is_valid_b64 text).
Proof.
  intros text Hb Hlen0. unfold src_b64_valid.
  set (n := zlen text).
  assert (Hn : n = Z.of_nat (List.length text)) by reflexivity.
  assert (Hlen : n < 2 ^ 31) by (change (2 ^ 31)%N with 2147483648%N in Hlen0; lia).
  unfold call. change (lget b64_prog "is_valid_b64/2") with (Some Src_base64.f_is_valid_b64_2).
  cbn [bind bind_params f_params Src_base64.f_is_valid_b64_2 init_state mem loc pre files ptrs fresh].
  change (Src_base64.globals ++ [("in", bytes_object text)]) with (mem (val_st0 text n)).
  replace (List.length text + 100)%nat with (S (S (S (S (S (S (List.length text + 94))))))) by lia.
  cbn [f_body Src_base64.f_is_valid_b64_2]. unfold is_valid_b64.
  set (len := N.of_nat (List.length text)).
  assert (Hlz : n = Z.of_N len) by (unfold len; lia).
  destruct (Z.eqb_spec (Z.rem n 4) 0) as [Hr|Hr].
  2:{ (* len % 4 != 0 *)
    assert (E : (len mod 4 =? 0)%N = false) by (apply N.eqb_neq; lia).
    rewrite E. cbn [negb].
    apply Z.eqb_neq in Hr.
    erewrite x_seq; [| unfold val_st0; set_step |].
    2:{ eapply x_seq_ret. eapply x_if_true; [evr ltac:(rewrite Hr); reflexivity|discriminate|].
        eapply x_return. evr fail. reflexivity. }
    reflexivity. }
  assert (E : (len mod 4 =? 0)%N = true) by (apply N.eqb_eq; lia).
  rewrite E. cbn [negb].
  destruct (Z.eqb_spec (Z.quot n 4 * 3 - 2) 16) as [Hq|Hq].
  2:{ assert (E2 : negb (len / 4 * 3 - 2 =? 16)%N || (len / 4 * 3 <? 2)%N = true).
      { destruct (len / 4 * 3 <? 2)%N eqn:E3; [apply orb_true_r|]. apply N.ltb_ge in E3.
        rewrite orb_false_r. apply negb_true_iff, N.eqb_neq. lia. }
      rewrite E2.
      apply Z.eqb_neq in Hq. apply Z.eqb_eq in Hr.
      erewrite x_seq; [| unfold val_st0; set_step |].
      2:{ eapply x_seq_ret. eapply x_if_false; [evr ltac:(rewrite Hr); reflexivity|].
          eapply x_if_true; [evr ltac:(rewrite Hq); reflexivity|discriminate|].
          eapply x_return. evr fail. reflexivity. }
      reflexivity. }
  assert (E2 : negb (len / 4 * 3 - 2 =? 16)%N || (len / 4 * 3 <? 2)%N = false).
  { apply orb_false_iff. split; [apply negb_false_iff, N.eqb_eq; lia|apply N.ltb_ge; lia]. }
  rewrite E2.
  pose proof (val_loop_ok text n Hb Hn Hlen text [] 0%N [] (S (List.length text + 94)) eq_refl ltac:(lia) ltac:(left; reflexivity) ltac:(lia)) as HL.
  assert (Hq' : (Z.quot n 4 * 3 - 2 =? 16)%Z = true) by (apply Z.eqb_eq; exact Hq).
  apply Z.eqb_eq in Hr.
  destruct (fold_left valid_step text (Some 0%N)) as [t'|].
  - destruct HL as [Ht' [extra' HL]].
    erewrite x_seq; [| unfold val_st0; set_step |].
    2:{ eapply x_seq.
        { eapply x_if_false; [evr ltac:(rewrite Hr); reflexivity|].
          eapply x_if_false; [evr ltac:(rewrite Hq'); reflexivity|]. reflexivity. }
        eapply x_seq; [set_step|].
        eapply x_seq; [exact HL|].
        eapply x_return. unfold val_st. evr fail. reflexivity. }
    cbn [of_res fst].
    assert (Ht3 : t' = 0%N \/ t' = 1%N \/ t' = 2%N) by lia.
    destruct Ht3 as [-> | [-> | ->]]; reflexivity.
  - destruct HL as [s' HL].
    erewrite x_seq; [| unfold val_st0; set_step |].
    2:{ eapply x_seq.
        { eapply x_if_false; [evr ltac:(rewrite Hr); reflexivity|].
          eapply x_if_false; [evr ltac:(rewrite Hq'); reflexivity|]. reflexivity. }
        eapply x_seq; [set_step|].
        eapply x_seq_ret. exact HL. }
    reflexivity.
Qed.
Print Assumptions SRC_b64_valid_proof.
