(* Layer R, the I/O thread (control steps) and the spurious wake-ups. *)
From Coq Require Import ZArith NArith List String Bool Lia Arith.
From Wencry Require Import Bytes FileModel ModesProofs FileProofsDec PipeConc PipeProps PipeLemmas PipeInv MiniC MiniCLemmas MiniCConc SrcRun.
From Wencry Require Import RefineConcPipe RefineE2EfPipe RefineE2EfBlock.
From Wencry Require Import RefineE2EfLay RefineE2EfMach RefineE2EfMem RefineE2EfTac RefineE2EfStepW RefineE2EfStepW2 RefineE2EfStepI RefineE2EfStepI5 RefineE2EfRel RefineE2EfRelW.
Import ListNotations.
Local Open Scope list_scope.

Section RelI.
Context {LY : Layout} {LO : LayoutOk}.
Variables (c T : nat) (pad : bool) (input0 : list N).
Hypothesis Hc : (1 <= c)%nat.
Hypothesis Hc32 : (16 * Z.of_nat c < 2 ^ 32)%Z.
Hypothesis HT : (1 <= T <= 16)%nat.
Hypothesis Hbytes : bytesb input0 = true.

Notation drel := (drel c T pad input0).
Notation tg_ok := (tg_ok T).
Notation sim := (sim c T pad input0).
Notation reach := (reach c T pad (skipn Lpos0 input0) LS Ltr Lev (Lsig0 T)).
Notation cst := (cstate_md c T pad input0).
Notation step := (pstep c pad).
Notation sio := (step_io St c pad).

Definition istep_goal (s : pstate) (cs : cstate) (s' : pstate) (evs : list PipeConc.event) : Prop :=
  exists n cs' evs', bnd n /\ cstep prog vt n cs 0 = Ok (cs', evs') /\ nev evs' = evs /\ sim s' cs'.

Lemma step_is_io : forall s, step s 0 = sio s.
Proof. reflexivity. Qed.

Lemma sim_io_pack : forall s d g s' evs n d' g' p' ws' mevs,
  drel s d -> tg_ok s g -> reach s -> sio s = Some (s', evs) -> bnd n ->
  cstep prog vt n (cst (io _ s) (wpcs _ s) d g) 0 = Ok (cst p' ws' d' g', mevs) ->
  io _ s' = p' -> wpcs _ s' = ws' -> nev mevs = evs -> drel s' d' -> tg_ok s' g' ->
  istep_goal s (cst (io _ s) (wpcs _ s) d g) s' evs.
Proof.
  intros s d g s' evs n d' g' p' ws' mevs Hdr Htg Hre Hst Hn Hcs Hio Hw Hev Hdr' Htg'.
  exists n, (cst p' ws' d' g'), mevs. split; [exact Hn|]. split; [exact Hcs|]. split; [exact Hev|].
  exists d', g'. rewrite Hio, Hw. split; [reflexivity|]. split; [exact Hdr'|]. split; [exact Htg'|].
  apply (reach' c T pad input0 Hc HT Hbytes s 0 s' evs Hre). exact Hst.
Qed.

(* changing only the pc of the I/O thread and the locals of its frames *)
Lemma tg_ok_io : forall s g p' g', tg_ok s g -> g_wl g' = g_wl g -> rb_ok (g_rb g') -> bu_ok p' (g_bu g') -> tg_ok (set_io _ s p') g'.
Proof.
  intros s g p' g' (Lg & Hrb & Hbu & Hwl) Ewl Hrb' Hbu'. unfold RefineE2EfRel.tg_ok. cbn [set_io io]. rewrite Ewl.
  split; [exact Lg|]. split; [exact Hrb'|]. split; [exact Hbu'|]. exact Hwl.
Qed.
Lemma retired_io_same : forall s p', (forall x, io _ s <> I_SetReady x) -> (forall x, p' <> I_SetReady x) -> forall j, retired (set_io _ s p') j = retired s j.
Proof.
  intros s p' H1 H2 j. unfold retired. cbn [set_io io turn]. rewrite getb_set_io.
  destruct (io _ s) eqn:E1; try (exfalso; eapply H1; reflexivity); destruct p' eqn:E2; try (exfalso; eapply H2; reflexivity); reflexivity.
Qed.

(* ---- wait_update ---- *)
Lemma iwait_model : forall st, iwait_pc (bst_code st) = if upd_or_empty st then I_Cmp else I_Asleep.
Proof. intros []; reflexivity. Qed.

Lemma sim_io_wait : forall s cs (woke : bool), sim s cs -> io _ s = (if woke then I_Awake else I_WaitUpdate) ->
  istep_goal s cs (fst (i_wait St s woke)) (snd (i_wait St s woke)).
Proof.
  intros s cs woke Hsim Hio. destruct Hsim as (d & g & -> & Hdr & Htg & Hre).
  pose proof (drel_dwf c T pad input0 Hc Hc32 HT s d Hdr) as Hdw.
  pose proof Hdr as (Lb & Lw & Lx & Ldb & Ldn & Htu & HtT & Hov & Hlv & HlT & Hcr & Hout & Hbuf & Hws & Hin). pose proof Htg as (Lg & Hrb & Hbu & Hwl).
  destruct (Hbuf _ HtT) as (Est & _). rewrite <- Htu in Est at 1.
  assert (Hsio : sio s = Some (i_wait St s woke)) by (unfold step_io; rewrite Hio; destruct woke; reflexivity).
  unfold i_wait in *. set (st := b_st (getb _ s (turn _ s))) in *.
  assert (NS : forall x, io _ s <> I_SetReady x) by (intros x; rewrite Hio; destruct woke; discriminate).
  destruct woke.
  - destruct (M_io_wait_awake c T pad input0 (wpcs _ s) d g Hdw Lw) as (n & Hn & Hcs). rewrite Est, iwait_model in Hcs. rewrite <- Hio in Hcs.
    assert (Hn' : bnd n) by exact I.
    destruct (upd_or_empty st) eqn:Eu; cbn [fst snd] in *.
    + apply (sim_io_pack s d g _ _ n d _ I_Cmp (wpcs _ s) _ Hdr Htg Hre Hsio Hn' Hcs); try reflexivity.
      * unfold iwait_evs, is_upd. clear -Eu. destruct st; try discriminate Eu; reflexivity.
      * apply drel_set_io; [exact Hdr|apply retired_io_same; [exact NS|discriminate]].
      * unfold iwait_g, is_upd. replace (Nat.eqb (bst_code st) 1 || Nat.eqb (bst_code st) 0) with true by (clear -Eu; destruct st; try discriminate Eu; reflexivity).
        apply (tg_ok_io s g); [exact Htg|reflexivity|exact Hrb|reflexivity].
    + apply (sim_io_pack s d g _ _ n d _ I_Asleep (wpcs _ s) _ Hdr Htg Hre Hsio Hn' Hcs); try reflexivity.
      * unfold iwait_evs, is_upd. clear -Eu. destruct st; try discriminate Eu; reflexivity.
      * apply drel_set_io; [exact Hdr|apply retired_io_same; [exact NS|discriminate]].
      * unfold iwait_g, is_upd. replace (Nat.eqb (bst_code st) 1 || Nat.eqb (bst_code st) 0) with false by (clear -Eu; destruct st; try discriminate Eu; reflexivity).
        apply (tg_ok_io s g); [exact Htg|reflexivity|exact Hrb|exact I].
  - destruct (M_io_wait_lock c T pad input0 (wpcs _ s) d g Hdw Lw) as (n & Hn & Hcs). rewrite Est, iwait_model in Hcs. rewrite <- Hio in Hcs.
    assert (Hn' : bnd n) by exact I.
    destruct (upd_or_empty st) eqn:Eu; cbn [fst snd] in *.
    + apply (sim_io_pack s d g _ _ n d _ I_Cmp (wpcs _ s) _ Hdr Htg Hre Hsio Hn' Hcs); try reflexivity.
      * unfold iwait_evs, is_upd. clear -Eu. destruct st; try discriminate Eu; reflexivity.
      * apply drel_set_io; [exact Hdr|apply retired_io_same; [exact NS|discriminate]].
      * unfold iwait_g, is_upd. replace (Nat.eqb (bst_code st) 1 || Nat.eqb (bst_code st) 0) with true by (clear -Eu; destruct st; try discriminate Eu; reflexivity).
        apply (tg_ok_io s g); [exact Htg|reflexivity|exact Hrb|reflexivity].
    + apply (sim_io_pack s d g _ _ n d _ I_Asleep (wpcs _ s) _ Hdr Htg Hre Hsio Hn' Hcs); try reflexivity.
      * unfold iwait_evs, is_upd. clear -Eu. destruct st; try discriminate Eu; reflexivity.
      * apply drel_set_io; [exact Hdr|apply retired_io_same; [exact NS|discriminate]].
      * unfold iwait_g, is_upd. replace (Nat.eqb (bst_code st) 1 || Nat.eqb (bst_code st) 0) with false by (clear -Eu; destruct st; try discriminate Eu; reflexivity).
        apply (tg_ok_io s g); [exact Htg|reflexivity|exact Hrb|exact I].
Qed.


Lemma b2z_b2n : forall b, Z.to_nat (b2z b) = b2n b.
Proof. intros []; reflexivity. Qed.

(* ---- cmpstate ---- *)
Lemma sim_io_cmp : forall s cs s' evs, sim s cs -> io _ s = I_Cmp -> sio s = Some (s', evs) -> istep_goal s cs s' evs.
Proof.
  intros s cs s' evs Hsim Hio Hst. destruct Hsim as (d & g & -> & Hdr & Htg & Hre).
  pose proof (drel_dwf c T pad input0 Hc Hc32 HT s d Hdr) as Hdw.
  pose proof Hdr as (Lb & Lw & Lx & Ldb & Ldn & Htu & HtT & Hov & Hlv & HlT & Hcr & Hout & Hbuf & Hws & Hin). pose proof Htg as (Lg & Hrb & Hbu & Hwl).
  destruct (Hbuf _ HtT) as (Est & _). rewrite <- Htu in Est at 1.
  rewrite Hio in Hbu. cbn [bu_ok] in Hbu.
  destruct (M_io_cmp c T pad input0 (wpcs _ s) d g Hdw Lw Hbu) as (n & Hn & Hcs). rewrite Est in Hcs. rewrite <- Hio in Hcs.
  assert (Hn' : bnd n) by exact I.
  assert (NS : forall x, io _ s <> I_SetReady x) by (intros x; rewrite Hio; discriminate).
  pose proof Hst as Hsio. unfold step_io in Hst. rewrite Hio in Hst.
  destruct (b_st (getb _ s (turn _ s))) eqn:Eb; cbn [bst_code Nat.eqb] in Hcs; injection Hst as <- <-.
  2:{ apply (sim_io_pack s d g _ _ n d _ I_Export (wpcs _ s) _ Hdr Htg Hre Hsio Hn' Hcs); try reflexivity.
      - rewrite nev_two by lia. unfold norm_ev. rewrite Htu. replace (Z.of_nat (turn _ s) <? 0)%Z with false by (symmetry; apply Z.ltb_ge; lia). rewrite Nat2Z.id. reflexivity.
      - apply drel_set_io; [exact Hdr|apply retired_io_same; [exact NS|discriminate]].
      - apply (tg_ok_io s g); [exact Htg|reflexivity|exact Hrb|reflexivity]. }
  all: apply (sim_io_pack s d g _ _ n d _ I_Load (wpcs _ s) _ Hdr Htg Hre Hsio Hn' Hcs); try reflexivity;
    [ rewrite nev_two by lia; unfold norm_ev; rewrite Htu, Hov; replace (Z.of_nat (turn _ s) <? 0)%Z with false by (symmetry; apply Z.ltb_ge; lia);
      rewrite Nat2Z.id, b2z_b2n; reflexivity
    | apply drel_set_io; [exact Hdr|apply retired_io_same; [exact NS|discriminate]]
    | apply (tg_ok_io s g); [exact Htg|reflexivity|exact Hrb|eexists _, _; reflexivity] ].
Qed.


(* ---- set_ready ---- *)
Lemma wake_worker_wpcs : forall (s : pstate) t, (t < List.length (wpcs _ s))%nat ->
  wpcs _ (wake_worker _ s t) = set_nth t (wake_w_pc (nth t (wpcs _ s) W_Done)) (wpcs _ s).
Proof.
  intros s t Ht. unfold wake_worker, getw. destruct (nth t (wpcs _ s) W_Done) eqn:E; cbn [wake_w_pc set_wpc wpcs]; try (rewrite <- E; symmetry; apply set_nth_same; exact Ht).
  reflexivity.
Qed.
Lemma wake_worker_frame : forall (s : pstate) t, bufs _ (wake_worker _ s t) = bufs _ s /\ wsts _ (wake_worker _ s t) = wsts _ s /\ io _ (wake_worker _ s t) = io _ s /\
  turn _ (wake_worker _ s t) = turn _ s /\ over _ (wake_worker _ s t) = over _ s /\ live _ (wake_worker _ s t) = live _ s /\
  input _ (wake_worker _ s t) = input _ s /\ output _ (wake_worker _ s t) = output _ s /\ crashed _ (wake_worker _ s t) = crashed _ s.
Proof. intros s t. unfold wake_worker. destruct (getw _ s t); repeat split; reflexivity. Qed.

Lemma drel_wake_worker : forall s d t, drel s d -> drel (wake_worker _ s t) d.
Proof. intros s d t H. unfold wake_worker. destruct (getw _ s t); try exact H. apply drel_set_wpc. exact H. Qed.

Definition after_setready (s : pstate) (ls : nat) : pstate :=
  let t := turn _ s in
  let st' := if Nat.eqb ls 2 then INV else READY in
  let s1 := set_buf _ s t (with_st (getb _ s t) st') in
  {| bufs := bufs _ s1; wpcs := wpcs _ s1; wsts := wsts _ s1; io := I_Turn; turn := t; over := over _ s1;
     live := if Nat.eqb ls 2 then live _ s1 - 1 else live _ s1; input := input _ s1; output := output _ s1; crashed := crashed _ s1 |}.

Lemma drel_setready : forall s d ls, drel s d -> io _ s = I_SetReady ls ->
  (b_st (getb _ s (turn _ s)) = EMPTY \/ b_st (getb _ s (turn _ s)) = UPDATING) -> (ls = 2%nat -> (1 <= live _ s)%nat) ->
  let t := d_turn d in
  let d1 := with_bufs d (upd_buf t (mb_with_st (if Nat.eqb ls 2 then 3%nat else 2%nat)) (d_bufs d)) in
  drel (after_setready s ls) (if Nat.eqb ls 2 then with_live d1 (d_live d - 1) else d1).
Proof.
  intros s d ls Hdr Hio Hown Hl2 t d1.
  pose proof Hdr as (Lb & Lw & Lx & Ldb & Ldn & Htu & HtT & Hov & Hlv & HlT & Hcr & Hout & Hbuf & Hws & Hin).
  assert (Hold : retired s (turn _ s) = Nat.eqb ls 2).
  { unfold retired. rewrite Hio, Nat.eqb_refl. destruct Hown as [-> | ->]; cbn [bst_eqb bst_code Nat.eqb orb]; destruct ls as [|[|[|]]]; reflexivity. }
  pose proof (Hbuf _ HtT) as Hbt. rewrite Hold in Hbt. destruct Hbt as (Est & Efin & Elen & Eby & Edat).
  assert (Hb : forall j, (j < T)%nat ->
     brel c (retired (after_setready s ls) j) (getb _ (after_setready s ls) j) (nth j (upd_buf t (mb_with_st (if Nat.eqb ls 2 then 3%nat else 2%nat)) (d_bufs d)) mb0)).
  { intros j Hj. unfold after_setready, getb. cbn [set_buf bufs]. unfold t. rewrite Htu.
    destruct (Nat.eq_dec (turn _ s) j) as [<-|N].
    - rewrite nth_set_nth_eq by lia. rewrite nth_upd_buf_same by lia.
      unfold brel, retired, retired, getb. cbn [io turn bufs set_buf]. rewrite nth_set_nth_eq by lia.
      cbn [with_st mb_with_st mb_st mb_fin mb_cells mb_tot mb_now b_st b_total b_now b_final b_data].
      destruct (Nat.eqb ls 2); cbn [bst_eqb bst_code Nat.eqb orb andb];
      (split; [reflexivity|]); (split; [exact Efin|]); (split; [exact Elen|]); (split; [exact Eby|]); exact Edat.
    - rewrite nth_set_nth_neq by exact N. rewrite nth_upd_buf_other by exact N.
      replace (retired _ j) with (retired s j); [apply Hbuf; exact Hj|].
      unfold retired, getb. cbn [io turn bufs set_buf]. rewrite nth_set_nth_neq by exact N. rewrite Hio.
      replace (Nat.eqb (turn _ s) j) with false by (symmetry; apply Nat.eqb_neq; exact N).
      destruct ls as [|[|[|]]]; cbn [andb]; rewrite ?orb_false_r; reflexivity. }
  assert (Hlive : Nat.eqb ls 2 = true -> (1 <= live _ s)%nat) by (intros E; apply Hl2; apply Nat.eqb_eq; exact E).
  unfold RefineE2EfRel.drel. unfold d1.
  destruct (Nat.eqb ls 2) eqn:E2; cbn [after_setready set_buf bufs wpcs wsts turn over live crashed output input with_live with_bufs d_bufs d_sm d_turn d_over d_live d_out d_pos d_eof];
    rewrite ?E2; rewrite set_nth_length, upd_buf_length;
    (split; [exact Lb|]); (split; [exact Lw|]); (split; [exact Lx|]); (split; [exact Ldb|]); (split; [exact Ldn|]); (split; [exact Htu|]);
    (split; [exact HtT|]); (split; [exact Hov|]); (split; [try (specialize (Hlive eq_refl)); lia|]); (split; [lia|]); (split; [exact Hcr|]); (split; [exact Hout|]);
    (split; [exact Hb|split; [exact Hws|exact Hin]]).
Qed.

Lemma sim_io_setready : forall s cs ls s' evs, sim s cs -> io _ s = I_SetReady ls -> sio s = Some (s', evs) -> istep_goal s cs s' evs.
Proof.
  intros s cs ls s' evs Hsim Hio Hst. destruct Hsim as (d & g & -> & Hdr & Htg & Hre).
  pose proof (drel_dwf c T pad input0 Hc Hc32 HT s d Hdr) as Hdw.
  pose proof Hdr as (Lb & Lw & Lx & Ldb & Ldn & Htu & HtT & Hov & Hlv & HlT & Hcr & Hout & Hbuf & Hws & Hin). pose proof Htg as (Lg & Hrb & Hbu & Hwl).
  destruct (reach_setready c T pad (skipn Lpos0 input0) Hc (proj1 HT) (bskip Lpos0 input0 Hbytes) LS Ltr Lev LdS (Lsig0 T) (sig0_length T) s ls Hre Hio) as (Hls & Hls2).
  destruct (reach_io_own c T pad (skipn Lpos0 input0) Hc (proj1 HT) (bskip Lpos0 input0 Hbytes) LS Ltr Lev LdS (Lsig0 T) (sig0_length T) s Hre) as [Hown|Hown]; [rewrite Hio; exact I| |].
  all: assert (Hlive : Nat.eqb ls 2 = true -> (1 <= d_live d)%nat) by (intros E; apply Nat.eqb_eq in E; destruct (Hls2 E) as [L _]; lia);
    destruct (M_io_setready c T pad input0 (wpcs _ s) d g ls Hdw Lw Hlive) as (n & Hn & Hcs); rewrite <- Hio in Hcs;
    assert (Hn' : bnd n) by exact I;
    pose proof Hst as Hsio; unfold step_io in Hst; rewrite Hio in Hst; injection Hst as <- <-;
    match goal with |- istep_goal _ _ (wake_worker _ ?s2 _) _ => set (S2 := s2) in * end;
    destruct (wake_worker_frame S2 (turn _ s)) as (Fb & Fx & Fio & Ftu & Fov & Flv & Fin & Fout & Fcr);
    (apply (sim_io_pack s d g _ _ n _ g I_Turn _ _ Hdr Htg Hre Hsio Hn' Hcs);
     [ rewrite Fio; reflexivity
     | rewrite wake_worker_wpcs by (cbn [S2 set_buf wpcs]; lia); rewrite Htu; reflexivity
     | rewrite nev_one by lia; destruct (Nat.eqb ls 2); reflexivity
     | | ]).
  (* the two relations, for EMPTY and for UPDATING *)
  all: try (
    (* tg_ok *)
    unfold RefineE2EfRel.tg_ok; rewrite Fio; split; [exact Lg|]; split; [exact Hrb|]; split; [exact I|];
    intros j Hj; unfold getw; rewrite wake_worker_wpcs by (cbn [S2 set_buf wpcs]; lia); cbn [S2 set_buf wpcs];
    destruct (Nat.eq_dec (turn _ s) j) as [<-|N];
    [ rewrite nth_set_nth_eq by lia; specialize (Hwl _ Hj); unfold getw in Hwl; destruct (nth (turn _ s) (wpcs _ s) W_Done); exact Hwl
    | rewrite nth_set_nth_neq by exact N; apply Hwl; exact Hj ]).
  all: apply drel_wake_worker; apply (drel_setready s d ls Hdr Hio); [tauto | intros E; destruct (Hls2 E) as [L _]; exact L].
Qed.


(* ---- turn_iter ---- *)
Lemma nev_cons_app : forall e l, nev (e :: l) = nev [e] ++ nev l.
Proof. intros e l. change (e :: l) with ([e] ++ l). unfold nev. rewrite filter_app, map_app. reflexivity. Qed.
Lemma nev_join_evs : forall ws k e, nev (e :: join_evs T ws k) = nev [e].
Proof. intros ws k e. rewrite nev_cons_app. unfold join_evs. destruct (first_unfinished (skipn k ws) k); [apply app_nil_r|]. rewrite ev_done_nev. apply app_nil_r. Qed.
Lemma nev_join_evs0 : forall ws k, nev (join_evs T ws k) = [].
Proof. intros ws k. unfold join_evs. destruct (first_unfinished (skipn k ws) k); [reflexivity|apply ev_done_nev]. Qed.
Lemma join_pc_not_setready : forall ws k x, join_pc ws k <> I_SetReady x.
Proof. intros ws k x. unfold join_pc. destruct (first_unfinished (skipn k ws) k); discriminate. Qed.

Lemma next_turn_one : forall (s : pstate) fuel t, (1 <= fuel)%nat -> b_st (getb _ s ((t + 1) mod nT _ s)) <> INV ->
  next_turn _ s fuel t = ((t + 1) mod nT _ s)%nat.
Proof.
  intros s fuel t Hf Hn. destruct fuel as [|f]; [lia|]. cbn [next_turn].
  destruct (b_st (getb _ s ((t + 1) mod nT _ s))); try reflexivity. congruence.
Qed.
Lemma sim_io_turn : forall s cs s' evs, sim s cs -> io _ s = I_Turn -> sio s = Some (s', evs) -> istep_goal s cs s' evs.
Proof.
  intros s cs s' evs Hsim Hio Hst. destruct Hsim as (d & g & -> & Hdr & Htg & Hre).
  pose proof (drel_dwf c T pad input0 Hc Hc32 HT s d Hdr) as Hdw.
  pose proof Hdr as (Lb & Lw & Lx & Ldb & Ldn & Htu & HtT & Hov & Hlv & HlT & Hcr & Hout & Hbuf & Hws & Hin). pose proof Htg as (Lg & Hrb & Hbu & Hwl).
  assert (NS : forall x, io _ s <> I_SetReady x) by (intros x; rewrite Hio; discriminate).
  pose proof Hst as Hsio. unfold step_io in Hst. rewrite Hio in Hst.
  destruct (Nat.eqb_spec (live _ s) 0) as [E0|E0].
  - injection Hst as <- <-.
    destruct (M_io_turn_done c T pad input0 (wpcs _ s) d g Hdw Lw ltac:(lia) Hrb) as (n & Hcs). rewrite <- Hio in Hcs.
    assert (Hn' : bnd n) by exact I.
    apply (sim_io_pack s d g _ _ n d g (join_pc (wpcs _ s) 0) (wpcs _ s) _ Hdr Htg Hre Hsio Hn' Hcs); try reflexivity.
    + rewrite nev_join_evs. rewrite nev_one by lia. rewrite Htu. replace (Z.of_nat (turn _ s) <? 0)%Z with false by (symmetry; apply Z.ltb_ge; lia). rewrite Nat2Z.id. reflexivity.
    + apply drel_set_io; [exact Hdr|apply retired_io_same; [exact NS|apply join_pc_not_setready]].
    + apply (tg_ok_io s g); [exact Htg|reflexivity|exact Hrb|]. unfold join_from. destruct (first_unfinished (skipn 0 (wpcs _ s)) 0); exact I.
  - injection Hst as <- <-.
    pose proof (reach_turn c T pad (skipn Lpos0 input0) Hc (proj1 HT) (bskip Lpos0 input0 Hbytes) LS Ltr Lev LdS (Lsig0 T) (sig0_length T) s Hre Hio E0) as Hnx.
    assert (HnT : nT _ s = T) by exact Lb.
    rewrite (next_turn_one s (nT _ s) (turn _ s)) in Hsio |- * by (rewrite HnT; try lia; exact Hnx). rewrite HnT in Hsio |- *.
    set (t' := ((turn _ s + 1) mod T)%nat) in *.
    assert (Ht' : (t' < T)%nat) by (apply Nat.mod_upper_bound; lia).
    assert (Hm3 : mb_st (nth ((d_turn d + 1) mod T) (d_bufs d) mb0) <> 3%nat).
    { rewrite Htu. fold t'. destruct (Hbuf _ Ht') as (Est & _). rewrite Est. destruct (b_st (getb _ s t')); cbn; try lia. congruence. }
    destruct (M_io_turn_more c T pad input0 (wpcs _ s) d g Hdw Lw ltac:(lia) Hrb Hm3) as (n & Hn & Hcs). rewrite <- Hio in Hcs. rewrite Htu in Hcs. fold t' in Hcs.
    assert (Hn' : bnd n) by exact I.
    apply (sim_io_pack s d g _ _ n _ _ I_WaitUpdate (wpcs _ s) _ Hdr Htg Hre Hsio Hn' Hcs); try reflexivity.
    + rewrite nev_two by lia. unfold norm_ev.
      replace (Z.of_nat (turn _ s) <? 0)%Z with false by (symmetry; apply Z.ltb_ge; lia). replace (Z.of_nat t' <? 0)%Z with false by (symmetry; apply Z.ltb_ge; lia).
      rewrite !Nat2Z.id. reflexivity.
    + unfold RefineE2EfRel.drel. cbn [bufs wpcs wsts turn over live crashed output input with_turn d_bufs d_sm d_turn d_over d_live d_out d_pos d_eof].
      split; [exact Lb|]. split; [exact Lw|]. split; [exact Lx|]. split; [exact Ldb|]. split; [exact Ldn|]. split; [reflexivity|].
      split; [exact Ht'|]. split; [exact Hov|]. split; [exact Hlv|]. split; [exact HlT|]. split; [exact Hcr|]. split; [exact Hout|].
      split; [|split; [exact Hws|exact Hin]].
      intros j Hj. replace (retired _ j) with (retired s j); [apply Hbuf; exact Hj|].
      unfold retired, getb. cbn [io turn bufs]. rewrite Hio. reflexivity.
    + destruct Htg as (_ & _ & _ & Hw'). unfold RefineE2EfRel.tg_ok. cbn [io with_rb g_wl g_rb g_bu].
      split; [exact Lg|]. split; [right; reflexivity|]. split; [exact I|]. exact Hw'.
Qed.


(* ---- join ---- *)
Lemma reach_join : forall s k, reach s -> io _ s = I_Join k -> (k < T)%nat.
Proof.
  intros s k Hre Hio. destruct (reach_Inv c T pad (skipn Lpos0 input0) Hc (proj1 HT) (bskip Lpos0 input0 Hbytes) LS Ltr Lev LdS (Lsig0 T) (sig0_length T) s Hre) as (q & r & Lb & Lw & Lx & Hrt & Ht & HioI & Hbuf).
  unfold IoInv in HioI. rewrite Hio in HioI. destruct HioI as (_ & _ & _ & _ & Hex & _). cbn [io_extra] in Hex. tauto.
Qed.

Lemma sim_io_join : forall s cs k s' evs, sim s cs -> io _ s = I_Join k -> sio s = Some (s', evs) -> istep_goal s cs s' evs.
Proof.
  intros s cs k s' evs Hsim Hio Hst. destruct Hsim as (d & g & -> & Hdr & Htg & Hre).
  pose proof Hdr as (Lb & Lw & Lx & Ldb & Ldn & Htu & HtT & Hov & Hlv & HlT & Hcr & Hout & Hbuf & Hws & Hin). pose proof Htg as (Lg & Hrb & Hbu & Hwl).
  pose proof (reach_join s k Hre Hio) as Hk.
  assert (NS : forall x, io _ s <> I_SetReady x) by (intros x; rewrite Hio; discriminate).
  pose proof Hst as Hsio. unfold step_io in Hst. rewrite Hio in Hst.
  destruct (getw _ s k) eqn:Ew; try discriminate Hst. injection Hst as <- <-.
  destruct (M_io_join c T pad input0 (wpcs _ s) d g k ltac:(lia) Lw Hk Ew) as (n & Hcs). rewrite <- Hio in Hcs.
  assert (Hn' : bnd n) by exact I.
  assert (Ej : join_from _ s k = join_pc (wpcs _ s) (S k)).
  { unfold join_from, join_pc. rewrite first_unfinished_skipn by lia. unfold getw in Ew. rewrite Ew. reflexivity. }
  apply (sim_io_pack s d g _ _ n d g (join_pc (wpcs _ s) (S k)) (wpcs _ s) _ Hdr Htg Hre Hsio Hn' Hcs); try reflexivity.
  - cbn [set_io io]. exact Ej.
  - apply nev_join_evs0.
  - apply drel_set_io; [exact Hdr|apply retired_io_same; [exact NS|rewrite Ej; apply join_pc_not_setready]].
  - apply (tg_ok_io s g); [exact Htg|reflexivity|exact Hrb|]. rewrite Ej. unfold join_pc. destruct (first_unfinished (skipn (S k) (wpcs _ s)) (S k)); exact I.
Qed.

(* ---- spurious wake-ups ---- *)
Lemma sim_spurious : forall s cs j s' evs, sim s cs -> spurious St s j = Some (s', evs) ->
  exists cs' evs', cstep prog vt 0 cs (S T + j) = Ok (cs', evs') /\ nev evs' = evs /\ sim s' cs'.
Proof.
  intros s cs j s' evs Hsim Hsp. destruct Hsim as (d & g & -> & Hdr & Htg & Hre).
  pose proof Hdr as (Lb & Lw & Lx & Ldb & Ldn & Htu & HtT & Hov & Hlv & HlT & Hcr & Hout & Hbuf & Hws & Hin). pose proof Htg as (Lg & Hrb & Hbu & Hwl).
  assert (Hstep : step s (S T + j) = spurious St s j).
  { unfold PipeConc.step, nT. rewrite Lb. replace (S T + j <=? T)%nat with false by (symmetry; apply Nat.leb_gt; lia). f_equal. lia. }
  assert (Hre' : reach s') by (apply (reach' c T pad input0 Hc HT Hbytes s (S T + j) s' evs Hre); rewrite Hstep; exact Hsp).
  unfold spurious in Hsp. destruct j as [|i].
  - destruct (io _ s) eqn:Eio; try discriminate Hsp. injection Hsp as <- <-.
    exists (cst I_Awake (wpcs _ s) d g), []. split; [apply M_spur_io|]. split; [reflexivity|].
    exists d, g. split; [reflexivity|]. split; [|split; [|exact Hre']].
    + apply drel_set_io; [exact Hdr|apply retired_io_same; [intros x; rewrite Eio; discriminate|discriminate]].
    + apply (tg_ok_io s g); [exact Htg|reflexivity|exact Hrb|exact I].
  - unfold nT in Hsp. rewrite Lb in Hsp. destruct (Nat.ltb_spec i T) as [Hi|Hi]; [|discriminate Hsp].
    destruct (getw _ s i) eqn:Ew; try discriminate Hsp. injection Hsp as <- <-.
    exists (cst (io _ s) (set_nth i (W_Awake from_start) (wpcs _ s)) d (with_wl g i (nth i (g_wl g) []))), [].
    split; [apply M_spur_w; assumption|]. split; [reflexivity|].
    exists d, (with_wl g i (nth i (g_wl g) [])). split; [reflexivity|]. split; [apply drel_set_wpc; exact Hdr|]. split; [|exact Hre'].
    eapply tg_ok_set_wpc; try eassumption. specialize (Hwl i Hi). rewrite Ew in Hwl. exact Hwl.
Qed.

End RelI.
